import HexProofs.Framework.Gen.ProgramTf
import HexProofs.Numeric.TotalMoreLifeTrees
/-
C14 on a LIFESPAN manager `{ lifespan := some life }` (base timeframe).

WHAT IS FALSE.  `append` trims the manager (`trim (candles ++ ch)`) and then calculates; `purge()` strips the readings
of the candles HELD.  So after a trim followed by `purge()` / `recalculate()` the readings are recomputed from the
retained candles only: they are the batch run over the RETAINED tail, not the tail of the batch run over everything
received.  `LifeWitness` (SMA 2, lifespan 30 s): construct over four candles, `calculate()`, append one candle that
pops two, `recalculate()`:
  * the final candles are NOT `(batch run with {} over everything received).drop d` for any `d` (`final_ne_tail`),
  * `recalculate()` right after a `calculate()` that returned does NOT reproduce (`recalculate_not_reproduces`),
  * without the `recalculate()` the final candles are NOT the batch run with the SAME configuration over everything
    received (`append_ne_batch_sameCfg`).
(all three replayed on the real library.)

WHAT IS TRUE.  The state after any program is determined by a VIRTUAL STREAM `V` (a suffix of everything received: what
was held at construction after the trim / at the last `purge()` / `recalculate()`, plus everything appended since),
a pop count `d` and a flag: the candles are either FINISHED-and-popped `(batch over V).drop d` or RAW `V` with `d = 0`.
`lifeStep` / `lifeSem` compute `(V, d, raw)` from the raw candles alone (they only run `trimCandles` on stamps);
they return `none` when a trim raises or when an append onto a FINISHED state pops candles without retaining the
look-back `L = treeLook k name round` finished candles from before the append (the hypothesis of C15 / C09; without it
the run may raise, `sma_raises_after_trim`), or when `calculate_index` is aimed at one of the first `L` candles of a
popped list (there the look-back is gone).

  * `program_converges_lifespan`: for every shipped class, every lifespan, every program over {append, calculate, purge,
    recalculate, calculate_index(±i)} that runs and whose semantics is `some σ`: the final `calculate()` EQUALS, in
    `PyM`, the batch run with `{}` over the virtual stream `σ.V`, minus the first `σ.d` candles;
  * `program_converges_lifespan_nopurge` (i): programs without `purge` / `recalculate` that start with `calculate()`:
    the virtual stream is `V₀ ++ all appended` (`V₀` = what the construction kept): this is C15b for programs;
  * `recalculate_eq_batch_held` (ii): after ANY program `recalculate()` EQUALS the batch run – with `{}` or with the same
    lifespan configuration – over the candles currently held, stripped (`s.purge.mgr.candles`); and
    `purge_gives_held`: those are `σ.V.drop σ.d`, a suffix of everything received (`lifeSem_suffix`);
  * `recalculate_eq_batch_sameCfg` (iii): on a stamped, sorted raw stream (`RawTf`) successive trims compose
    (`trim_append_compose`), so `purge()` gives the trim of EVERYTHING received and `recalculate()` EQUALS the batch run
    with the SAME lifespan configuration over everything received – the literal C14 statement, for `recalculate()`;
  * `calculate_idempotent_lifespan`; `calculateIndex_lifespan` (every index when nothing is popped, indices `≥ L` of a
    popped list – via the drop law of `calculate_index`, `EngineDropE.calculateIndex`).
-/
set_option linter.unusedSectionVars false
set_option linter.unusedVariables false
set_option linter.unusedSimpArgs false
namespace Hex
variable {F : Type} [PyF F]

/-! ### `trim_candles`: the result is a suffix, and trimming again pops nothing -/

theorem trim_eq_drop (life : Int) (cs r : List (Candle F)) (h : trimCandles (some life) cs = .ok r) :
    r = cs.drop (cs.length - r.length) ∧ r.length ≤ cs.length := by
  obtain ⟨a, b, _⟩ := trim_congr_ts life cs cs r rfl h
  exact ⟨a, b⟩

theorem dropWhile_dropWhile_self {α : Type} (p : α → Bool) (l : List α) :
    (l.dropWhile p).dropWhile p = l.dropWhile p := by
  induction l with
  | nil => rfl
  | cons a r ih =>
    by_cases ha : p a = true
    · rw [List.dropWhile_cons_of_pos ha]; exact ih
    · rw [List.dropWhile_cons_of_neg ha, List.dropWhile_cons_of_neg ha]

/-- **trimming an already trimmed list pops nothing** -/
theorem trim_idem (life : Int) (cs r : List (Candle F)) (h : trimCandles (some life) cs = .ok r) :
    trimCandles (some life) r = .ok r := by
  unfold trimCandles at h
  cases hl : cs.getLast? with
  | none =>
    rw [hl] at h; simp only at h; cases h
    unfold trimCandles; rw [hl]
  | some lastC =>
    rw [hl] at h; simp only at h
    cases hts : lastC.ts with
    | none =>
      rw [hts] at h; simp only at h; cases h
      unfold trimCandles; rw [hl]; simp only [hts]
    | some latest =>
      rw [hts] at h; simp only at h
      split at h
      · cases h
      · rename_i hne
        cases h
        have hlast : (cs.dropWhile (tooOld (latest - life))).getLast? = some lastC := by
          have hd := dropWhile_eq_drop' (tooOld (latest - life)) cs
          have hne' : ¬ cs.length ≤ (cs.takeWhile (tooOld (latest - life))).length := by
            intro hle
            apply hne
            rw [hd, List.isEmpty_iff, List.drop_eq_nil_iff]; exact hle
          rw [hd, List.getLast?_drop, if_neg hne', hl]
        unfold trimCandles
        rw [hlast]
        simp only [hts, dropWhile_dropWhile_self]
        rw [if_neg hne]

/-! ### the virtual-stream semantics of a program on a lifespan manager -/

/-- the abstract state: virtual stream, number of popped candles, raw (no readings) or finished -/
structure LState (F : Type) where
  V : List (Candle F)
  d : Nat
  raw : Bool
  deriving DecidableEq

/-- the raw candles currently held -/
def LState.held (σ : LState F) : List (Candle F) := σ.V.drop σ.d

/-- one operation.  `none`: the trim raises / a finished state pops without retaining `L` finished candles from before
the append / `calculate_index` aimed at one of the first `L` candles of a popped list. -/
def lifeStep (life : Int) (L : Nat) (σ : LState F) : Op F → Option (LState F)
  | .calculate => some { σ with raw := false }
  | .purge => some ⟨σ.held, 0, true⟩
  | .recalculate => some ⟨σ.held, 0, false⟩
  | .calcIndex i =>
    if σ.raw then some σ
    else if σ.d = 0 ∨ (L : Int) ≤ (if i < 0 then i + (σ.held.length : Int) else i) then some σ else none
  | .append ch =>
    if ch.isEmpty then some { σ with raw := false } else
    match trimCandles (some life) (σ.held ++ ch) with
    | .error _ => none
    | .ok m =>
      if σ.raw then some ⟨m, 0, false⟩
      else if (σ.held ++ ch).length - m.length = 0 ∨ σ.d + ((σ.held ++ ch).length - m.length) + L ≤ σ.V.length then
        some ⟨σ.V ++ ch, σ.d + ((σ.held ++ ch).length - m.length), false⟩
      else none

/-- a program from a given abstract state -/
def lifeRunFrom (life : Int) (L : Nat) : LState F → List (Op F) → Option (LState F)
  | σ, [] => some σ
  | σ, op :: ops =>
    match lifeStep life L σ op with
    | some σ' => lifeRunFrom life L σ' ops
    | none => none

/-- construction (trim of the initial candles), then the program -/
def lifeSem (life : Int) (L : Nat) (init : List (Candle F)) (ops : List (Op F)) : Option (LState F) :=
  match trimCandles (some life) init with
  | .ok V => lifeRunFrom life L ⟨V, 0, true⟩ ops
  | .error _ => none

/-- what the abstract states keep invariant (raw candles only) -/
structure LState.OK (L : Nat) (life : Int) (σ : LState F) : Prop where
  keep : σ.d = 0 ∨ σ.d + L ≤ σ.V.length
  rawd : σ.raw = true → σ.d = 0
  fix : trimCandles (some life) σ.held = .ok σ.held

theorem LState.OK.le {L : Nat} {life : Int} {σ : LState F} (h : σ.OK L life) : σ.d ≤ σ.V.length := by
  rcases h.keep with h | h <;> omega

theorem held_zero (V : List (Candle F)) (r : Bool) : (⟨V, 0, r⟩ : LState F).held = V := by
  simp [LState.held]

/-- what one non-empty append does to the raw candles held -/
theorem lifeStep_append_facts (life : Int) (σ : LState F) (ch m : List (Candle F)) (hle : σ.d ≤ σ.V.length)
    (ht : trimCandles (some life) (σ.held ++ ch) = .ok m) :
    m = (σ.V ++ ch).drop (σ.d + ((σ.held ++ ch).length - m.length)) ∧ m.length ≤ (σ.held ++ ch).length := by
  obtain ⟨hm, hl⟩ := trim_eq_drop life _ m ht
  refine ⟨?_, hl⟩
  conv_lhs => rw [hm]
  rw [← List.drop_drop, List.drop_append_of_le_length hle]
  rfl

/-- **one step keeps the abstract invariant; the candles held afterwards are a suffix of `held ++ added`** -/
theorem lifeStep_ok (life : Int) (L : Nat) (σ σ' : LState F) (op : Op F) (h : σ.OK L life)
    (hs : lifeStep life L σ op = some σ') :
    σ'.OK L life ∧ σ'.held <:+ σ.held ++ op.added := by
  cases op with
  | calculate =>
    simp only [lifeStep, Option.some.injEq] at hs; subst hs
    exact ⟨⟨h.keep, fun hr => (by cases hr), h.fix⟩, by simp [Op.added, LState.held]⟩
  | purge =>
    simp only [lifeStep, Option.some.injEq] at hs; subst hs
    exact ⟨⟨Or.inl rfl, fun _ => rfl, by rw [held_zero]; exact h.fix⟩, by simp [Op.added, held_zero]⟩
  | recalculate =>
    simp only [lifeStep, Option.some.injEq] at hs; subst hs
    exact ⟨⟨Or.inl rfl, fun _ => rfl, by rw [held_zero]; exact h.fix⟩, by simp [Op.added, held_zero]⟩
  | calcIndex i =>
    have : σ' = σ := by
      simp only [lifeStep] at hs
      by_cases hr : σ.raw = true
      · rw [if_pos hr] at hs; exact (Option.some.inj hs).symm
      · rw [if_neg hr] at hs
        by_cases hc : σ.d = 0 ∨ (L : Int) ≤ (if i < 0 then i + (σ.held.length : Int) else i)
        · rw [if_pos hc] at hs; exact (Option.some.inj hs).symm
        · rw [if_neg hc] at hs; cases hs
    subst this
    exact ⟨h, by simp [Op.added]⟩
  | append ch =>
    simp only [lifeStep] at hs
    by_cases hch : ch.isEmpty = true
    · simp only [hch, if_true, Option.some.injEq] at hs; subst hs
      have : ch = [] := List.isEmpty_iff.1 hch
      subst this
      exact ⟨⟨h.keep, fun hr => (by cases hr), h.fix⟩, by simp [Op.added, LState.held]⟩
    · simp only [hch, Bool.false_eq_true, if_false] at hs
      cases ht : trimCandles (some life) (σ.held ++ ch) with
      | error e => rw [ht] at hs; cases hs
      | ok m =>
        rw [ht] at hs
        simp only at hs
        obtain ⟨hm, hml⟩ := lifeStep_append_facts life σ ch m h.le ht
        have hfix := trim_idem life _ m ht
        obtain ⟨hm', _⟩ := trim_eq_drop life _ m ht
        by_cases hr : σ.raw = true
        · simp only [hr, if_true, Option.some.injEq] at hs; subst hs
          refine ⟨⟨Or.inl rfl, fun hr' => (by cases hr'), by rw [held_zero]; exact hfix⟩, ?_⟩
          rw [held_zero, hm']; exact List.drop_suffix _ _
        · simp only [hr, Bool.false_eq_true, if_false] at hs
          split at hs
          · rename_i hc
            have := Option.some.inj hs; subst this
            have hheld : (⟨σ.V ++ ch, σ.d + ((σ.held ++ ch).length - m.length), false⟩ : LState F).held = m := by
              simp only [LState.held]; exact hm.symm
            refine ⟨⟨?_, fun hr' => (by cases hr'), by rw [hheld]; exact hfix⟩, ?_⟩
            · show σ.d + ((σ.held ++ ch).length - m.length) = 0 ∨
                  σ.d + ((σ.held ++ ch).length - m.length) + L ≤ (σ.V ++ ch).length
              rw [List.length_append (as := σ.V) (bs := ch)]
              rcases hc with hc | hc
              · rw [hc]; rcases h.keep with hk | hk
                · exact Or.inl (by omega)
                · exact Or.inr (by omega)
              · exact Or.inr (by omega)
            · rw [hheld, hm']; exact List.drop_suffix _ _
          · cases hs

theorem lifeRunFrom_ok (life : Int) (L : Nat) (ops : List (Op F)) :
    ∀ (σ σ' : LState F), σ.OK L life → lifeRunFrom life L σ ops = some σ' →
      σ'.OK L life ∧ σ'.held <:+ σ.held ++ (ops.map Op.added).flatten := by
  induction ops with
  | nil =>
    intro σ σ' h hs
    simp only [lifeRunFrom, Option.some.injEq] at hs; subst hs
    exact ⟨h, by simp⟩
  | cons op rest ih =>
    intro σ σ' h hs
    simp only [lifeRunFrom] at hs
    cases h1 : lifeStep life L σ op with
    | none => rw [h1] at hs; cases hs
    | some σ₁ =>
      rw [h1] at hs
      obtain ⟨hok₁, hn₁⟩ := lifeStep_ok life L σ σ₁ op h h1
      obtain ⟨hok', hn'⟩ := ih σ₁ σ' hok₁ hs
      refine ⟨hok', hn'.trans ?_⟩
      obtain ⟨t, ht⟩ := hn₁
      exact ⟨t, by rw [List.map_cons, List.flatten_cons, ← List.append_assoc σ.held, ← ht, List.append_assoc]⟩

/-! ### on a stamped, sorted stream successive trims compose: the manager holds the trim of everything received -/

theorem dropWhile_append_all {α : Type} (p : α → Bool) (l₁ l₂ : List α) (h : ∀ x ∈ l₁, p x = true) :
    (l₁ ++ l₂).dropWhile p = l₂.dropWhile p := by
  induction l₁ with
  | nil => rfl
  | cons a r ih =>
    rw [List.cons_append, List.dropWhile_cons_of_pos (h a (by simp))]
    exact ih (fun x hx => h x (by simp [hx]))

theorem mem_takeWhile_true {α : Type} (p : α → Bool) (l : List α) (x : α) (h : x ∈ l.takeWhile p) : p x = true := by
  induction l with
  | nil => simp at h
  | cons a r ih =>
    by_cases ha : p a = true
    · rw [List.takeWhile_cons_of_pos ha] at h
      rcases List.mem_cons.1 h with rfl | h
      · exact ha
      · exact ih h
    · rw [List.takeWhile_cons_of_neg ha] at h; simp at h

theorem tooOld_mono (b₁ b₂ : Int) (hb : b₁ ≤ b₂) (c : Candle F) (h : tooOld b₁ c = true) : tooOld b₂ c = true := by
  unfold tooOld at h ⊢
  cases hts : c.ts with
  | none => rw [hts] at h; cases h
  | some t =>
    rw [hts] at h
    simp only [decide_eq_true_eq] at h ⊢
    omega

/-- **trimming `A`, appending `B` and trimming again is trimming `A ++ B`** (stamped, non-decreasing stamps) -/
theorem trim_append_compose (life : Int) (A A' B R : List (Candle F)) (hraw : RawTf (A ++ B))
    (hA : trimCandles (some life) A = .ok A') (hR : trimCandles (some life) (A' ++ B) = .ok R) :
    trimCandles (some life) (A ++ B) = .ok R := by
  by_cases hB : B = []
  · subst hB
    simp only [List.append_nil] at hR ⊢
    rw [trim_idem life A A' hA] at hR
    cases hR; exact hA
  · obtain ⟨lb, hlb⟩ : ∃ lb, B.getLast? = some lb := by
      cases h : B.getLast? with
      | none => exact absurd (List.getLast?_eq_none_iff.1 h) hB
      | some lb => exact ⟨lb, rfl⟩
    have hlbm : lb ∈ B := List.mem_of_getLast? hlb
    obtain ⟨t₂, ht₂⟩ : ∃ t, lb.ts = some t := by
      cases h : lb.ts with
      | none => exact absurd h (hraw.stamped lb (by simp [hlbm]))
      | some t => exact ⟨t, rfl⟩
    have hl1 : (A ++ B).getLast? = some lb := by rw [List.getLast?_append, hlb]; rfl
    have hl2 : (A' ++ B).getLast? = some lb := by rw [List.getLast?_append, hlb]; rfl
    have key : (A ++ B).dropWhile (tooOld (t₂ - life)) = (A' ++ B).dropWhile (tooOld (t₂ - life)) := by
      unfold trimCandles at hA
      cases hla : A.getLast? with
      | none =>
        rw [hla] at hA; simp only at hA; cases hA; rfl
      | some la =>
        rw [hla] at hA; simp only at hA
        have hlam : la ∈ A := List.mem_of_getLast? hla
        obtain ⟨t₁, ht₁⟩ : ∃ t, la.ts = some t := by
          cases h : la.ts with
          | none => exact absurd h (hraw.stamped la (by simp [hlam]))
          | some t => exact ⟨t, rfl⟩
        rw [ht₁] at hA; simp only at hA
        split at hA
        · cases hA
        · cases hA
          have hle : t₁ ≤ t₂ := by
            have hs := hraw.sorted
            rw [List.filterMap_append, List.pairwise_append] at hs
            exact hs.2.2 t₁ (List.mem_filterMap.2 ⟨la, hlam, ht₁⟩) t₂ (List.mem_filterMap.2 ⟨lb, hlbm, ht₂⟩)
          conv_lhs => rw [← List.takeWhile_append_dropWhile (p := tooOld (t₁ - life)) (l := A), List.append_assoc]
          exact dropWhile_append_all _ _ _ (fun x hx =>
            tooOld_mono (t₁ - life) (t₂ - life) (by omega) x (mem_takeWhile_true _ _ x hx))
    unfold trimCandles at hR ⊢
    rw [hl2] at hR
    rw [hl1]
    simp only [ht₂] at hR ⊢
    rw [key]; exact hR

/-- the candles held after a non-empty `append` are the trim of `held ++ ch` -/
theorem lifeStep_append_held (life : Int) (L : Nat) (σ σ' : LState F) (ch : List (Candle F)) (hle : σ.d ≤ σ.V.length)
    (hne : ch.isEmpty = false) (hs : lifeStep life L σ (.append ch) = some σ') :
    trimCandles (some life) (σ.held ++ ch) = .ok σ'.held := by
  simp only [lifeStep, hne, Bool.false_eq_true, if_false] at hs
  cases ht : trimCandles (some life) (σ.held ++ ch) with
  | error e => rw [ht] at hs; cases hs
  | ok m =>
    rw [ht] at hs
    simp only at hs
    obtain ⟨hm, _⟩ := lifeStep_append_facts life σ ch m hle ht
    by_cases hr : σ.raw = true
    · simp only [hr, if_true, Option.some.injEq] at hs; subst hs
      rw [held_zero]
    · simp only [hr, Bool.false_eq_true, if_false] at hs
      split at hs
      · have := Option.some.inj hs; subst this
        show Except.ok m = Except.ok (List.drop (σ.d + ((σ.held ++ ch).length - m.length)) (σ.V ++ ch))
        rw [← hm]
      · cases hs

/-- **on a stamped, sorted stream the candles held are the trim of everything received** -/
theorem lifeStep_trimAll (life : Int) (L : Nat) (σ σ' : LState F) (op : Op F) (X : List (Candle F)) (h : σ.OK L life)
    (hraw : RawTf (X ++ op.added)) (hX : trimCandles (some life) X = .ok σ.held)
    (hs : lifeStep life L σ op = some σ') : trimCandles (some life) (X ++ op.added) = .ok σ'.held := by
  cases op with
  | calculate =>
    simp only [lifeStep, Option.some.injEq] at hs; subst hs
    simpa [Op.added, LState.held] using hX
  | purge =>
    simp only [lifeStep, Option.some.injEq] at hs; subst hs
    simpa [Op.added, held_zero] using hX
  | recalculate =>
    simp only [lifeStep, Option.some.injEq] at hs; subst hs
    simpa [Op.added, held_zero] using hX
  | calcIndex i =>
    obtain ⟨_, _⟩ := lifeStep_ok life L σ σ' _ h hs
    have : σ' = σ := by
      simp only [lifeStep] at hs
      by_cases hr : σ.raw = true
      · rw [if_pos hr] at hs; exact (Option.some.inj hs).symm
      · rw [if_neg hr] at hs
        by_cases hc : σ.d = 0 ∨ (L : Int) ≤ (if i < 0 then i + (σ.held.length : Int) else i)
        · rw [if_pos hc] at hs; exact (Option.some.inj hs).symm
        · rw [if_neg hc] at hs; cases hs
    subst this
    simpa [Op.added] using hX
  | append ch =>
    by_cases hch : ch.isEmpty = true
    · have : ch = [] := List.isEmpty_iff.1 hch
      subst this
      simp only [lifeStep, List.isEmpty_nil, if_true, Option.some.injEq] at hs; subst hs
      simpa [Op.added, LState.held] using hX
    · have hne : ch.isEmpty = false := by simpa using hch
      exact trim_append_compose life X σ.held ch σ'.held hraw hX (lifeStep_append_held life L σ σ' ch h.le hne hs)

theorem lifeRunFrom_trimAll (life : Int) (L : Nat) (ops : List (Op F)) :
    ∀ (σ σ' : LState F) (X : List (Candle F)), σ.OK L life → RawTf (X ++ (ops.map Op.added).flatten) →
      trimCandles (some life) X = .ok σ.held → lifeRunFrom life L σ ops = some σ' →
      trimCandles (some life) (X ++ (ops.map Op.added).flatten) = .ok σ'.held := by
  induction ops with
  | nil =>
    intro σ σ' X _ _ hX hs
    simp only [lifeRunFrom, Option.some.injEq] at hs; subst hs
    simpa using hX
  | cons op rest ih =>
    intro σ σ' X h hraw hX hs
    simp only [lifeRunFrom] at hs
    cases h1 : lifeStep life L σ op with
    | none => rw [h1] at hs; cases hs
    | some σ₁ =>
      rw [h1] at hs
      have hraw' : RawTf ((X ++ op.added) ++ (rest.map Op.added).flatten) := by
        simpa [List.append_assoc] using hraw
      have h2 := lifeStep_trimAll life L σ σ₁ op X h hraw'.append_left hX h1
      have := ih σ₁ σ' (X ++ op.added) (lifeStep_ok life L σ σ₁ op h h1).1 hraw' h2 hs
      simpa [List.append_assoc] using this

/-! ### the engine on plain lists, finished lists and popped finished lists -/

theorem map_drop_zero (x : PyM (List (Candle F))) : x.map (·.drop 0) = x := by
  cases x <;> rfl

/-- the batch run with the default configuration is one `calculate()` of the engine -/
theorem batch_engine (ind : Ind F) (V : List (Candle F)) :
    candlesOf (runIndicator ind {} V []) = engineCalc ind V := by
  have : runIndicator ind {} V [] = IndState.calculate ({ tree := ind, mgr := { cfg := {}, candles := V } } : IndState F) := by
    unfold runIndicator IndState.init Manager.init
    rw [tasks_default]
    simp only [bind, Except.bind, pure, Except.pure, List.foldlM_nil]
    cases IndState.calculate ({ tree := ind, mgr := { cfg := {}, candles := V } } : IndState F) <;> rfl
  rw [this, IndState.calculate_engine]

/-- … and the batch run with a lifespan is one `calculate()` over what the trim keeps -/
theorem batch_engine_life' (ind : Ind F) (life : Int) (X H : List (Candle F)) (hX : trimCandles (some life) X = .ok H) :
    candlesOf (runIndicator ind { lifespan := some life } X []) = engineCalc ind H := by
  have : runIndicator ind { lifespan := some life } X []
      = IndState.calculate ({ tree := ind, mgr := { cfg := { lifespan := some life }, candles := H } } : IndState F) := by
    unfold runIndicator IndState.init Manager.init
    have ht : tasks ({ lifespan := some life } : MgrCfg) X = .ok H := by
      have := tasks_lifeOnly life X
      unfold cfgLifeOnly at this
      rw [this, hX]
    rw [ht]
    simp only [bind, Except.bind, pure, Except.pure, List.foldlM_nil]
    cases IndState.calculate ({ tree := ind, mgr := { cfg := { lifespan := some life }, candles := H } } : IndState F) <;> rfl
  rw [this, IndState.calculate_engine]

theorem batch_engine_life (ind : Ind F) (life : Int) (V : List (Candle F)) (hfix : trimCandles (some life) V = .ok V) :
    candlesOf (runIndicator ind { lifespan := some life } V []) = engineCalc ind V :=
  batch_engine_life' ind life V V hfix

section generic
variable {ind : Ind F} {L : Nat}

/-- on a plain list the engine returns iff the row-major spec does -/
theorem TreeSpec.engine_plain (T : TreeSpec ind) (V b : List (Candle F)) (hp : ∀ c ∈ V, Plain c) :
    engineCalc ind V = .ok b ↔ Gen.rowMajor T.S V = .ok b :=
  T.engine_resumableAt V V b (Gen.resumableAt_plain T.S V hp)

theorem engine_len (V b : List (Candle F)) (h : engineCalc ind V = .ok b) : b.length = V.length :=
  (engine_frame ind V b h).1

/-- `calculate()` on a finished list from which `d` candles were popped (look-back retained) changes nothing -/
theorem TreeSpec.fin_drop_idem (T : TreeSpec ind) (W : TwinOK ind L) (hs : Shallow ind) (V b : List (Candle F))
    (d : Nat) (hp : ∀ c ∈ V, Plain c) (h : engineCalc ind V = .ok b) (hk : d = 0 ∨ d + L ≤ b.length) :
    engineCalc ind (b.drop d) = .ok (b.drop d) := by
  have hidem : engineCalc ind b = .ok b := T.calculate_idempotent V b hp ((T.engine_plain V b hp).1 h)
  rcases hk with h0 | hk
  · subst h0; simpa using hidem
  · have hfull := finished_of_engine ind W V b hp h
    have := engineCalc_drop ind W hs b [] d hfull (by simp) hk
    simp only [List.append_nil] at this
    rw [this, hidem]; rfl

/-- **`append` onto a finished-and-popped list**: the engine on `(b ++ ch).drop d'` returns exactly the run over the
longer virtual stream minus the popped candles -/
theorem TreeSpec.fin_append (T : TreeSpec ind) (W : TwinOK ind L) (hs : Shallow ind) (V b ch x : List (Candle F))
    (d' : Nat) (hp : ∀ c ∈ V, Plain c) (hch : ∀ c ∈ ch, Plain c) (h : engineCalc ind V = .ok b)
    (hk : d' = 0 ∨ d' + L ≤ b.length) (hx : engineCalc ind ((b ++ ch).drop d') = .ok x) :
    ∃ out, engineCalc ind (V ++ ch) = .ok out ∧ x = out.drop d' := by
  have hr := (T.engine_plain V b hp).1 h
  have hpp : ∀ c ∈ V ++ ch, Plain c := fun c hc => by
    rcases List.mem_append.1 hc with h | h
    · exact hp c h
    · exact hch c h
  have key : ∀ out, engineCalc ind (b ++ ch) = .ok out → engineCalc ind (V ++ ch) = .ok out := fun out ho =>
    (T.engine_plain (V ++ ch) out hpp).2 ((T.engine V ch b out hr hp hch).1 ho)
  rcases hk with h0 | hk
  · subst h0
    simp only [List.drop_zero] at hx
    exact ⟨x, key x hx, by simp⟩
  · have hfull := finished_of_engine ind W V b hp h
    rw [engineCalc_drop ind W hs b ch d' hfull hch hk] at hx
    cases ho : engineCalc ind (b ++ ch) with
    | error e => rw [ho] at hx; cases hx
    | ok out =>
      rw [ho] at hx
      exact ⟨out, key out ho, by simpa [Except.map] using hx.symm⟩

/-- stripping a finished-and-popped list gives the popped virtual stream -/
theorem TreeSpec.purge_fin_drop (T : TreeSpec ind) (V b : List (Candle F)) (d : Nat) (hp : ∀ c ∈ V, Plain c)
    (h : engineCalc ind V = .ok b) : purgeNames ind.allNames (b.drop d) = V.drop d := by
  have := T.purge_resumableAt V b (Gen.resumableAt_finished T.S V b hp ((T.engine_plain V b hp).1 h))
  unfold purgeNames at this ⊢
  rw [List.map_drop, this]

/-! ### the invariant linking the object to the abstract state -/

/-- the object after a program, next to the abstract state `σ` -/
structure LifeInv (ind : Ind F) (L : Nat) (life : Int) (σ : LState F) (s : IndState F) : Prop where
  tree : s.tree = ind
  cfg : s.mgr.cfg = cfgLifeOnly life
  plain : ∀ c ∈ σ.V, Plain c
  ok : σ.OK L life
  st : (σ.raw = true ∧ s.mgr.candles = σ.V) ∨
       (σ.raw = false ∧ ∃ b, engineCalc ind σ.V = .ok b ∧ s.mgr.candles = b.drop σ.d)

theorem LifeInv.held_raw {life : Int} {σ : LState F} {s : IndState F} (h : LifeInv ind L life σ s)
    (hr : σ.raw = true) : σ.held = σ.V := by
  simp [LState.held, h.ok.rawd hr]

/-- the stamps of the candles the object holds are those of `σ.held` -/
theorem LifeInv.ts {life : Int} {σ : LState F} {s : IndState F} (h : LifeInv ind L life σ s) :
    s.mgr.candles.map (·.ts) = σ.held.map (·.ts) := by
  rcases h.st with ⟨hr, hc⟩ | ⟨_, b, hb, hc⟩
  · rw [hc, h.held_raw hr]
  · rw [hc, LState.held, List.map_drop, List.map_drop, (engine_frame ind _ b hb).2]

/-- **`purge()` gives the raw candles currently held** -/
theorem LifeInv.purge_candles (T : TreeSpec ind) {life : Int} {σ : LState F} {s : IndState F}
    (h : LifeInv ind L life σ s) : s.purge.mgr.candles = σ.held := by
  unfold IndState.purge
  simp only [h.tree]
  rcases h.st with ⟨hr, hc⟩ | ⟨_, b, hb, hc⟩
  · rw [hc, h.held_raw hr]
    exact T.purge_resumableAt _ _ (Gen.resumableAt_plain T.S _ h.plain)
  · rw [hc]; exact T.purge_fin_drop σ.V b σ.d h.plain hb

/-- **the final `calculate()`, as an equation in `PyM`** -/
theorem LifeInv.final (T : TreeSpec ind) (W : TwinOK ind L) (hs : Shallow ind) {life : Int} {σ : LState F}
    {s : IndState F} (h : LifeInv ind L life σ s) :
    candlesOf s.calculate = (engineCalc ind σ.V).map (·.drop σ.d) := by
  rw [IndState.calculate_engine, h.tree]
  rcases h.st with ⟨hr, hc⟩ | ⟨_, b, hb, hc⟩
  · rw [hc, h.ok.rawd hr, map_drop_zero]
  · have hlen := engine_len σ.V b hb
    rw [hc, T.fin_drop_idem W hs σ.V b σ.d h.plain hb (by rw [hlen]; exact h.ok.keep), hb]; rfl

theorem lifeInv_calculate (T : TreeSpec ind) (W : TwinOK ind L) (hs : Shallow ind) (life : Int) (σ : LState F)
    (s s' : IndState F) (h : LifeInv ind L life σ s) (hrun : s.calculate = .ok s') :
    LifeInv ind L life { σ with raw := false } s' := by
  obtain ⟨ht, hcfg, he⟩ := IndState.calculate_ok_engine s s' hrun
  rw [h.tree] at he ht
  refine ⟨ht, by rw [hcfg, h.cfg], h.plain, ⟨h.ok.keep, fun hr => (by cases hr), h.ok.fix⟩, Or.inr ⟨rfl, ?_⟩⟩
  rcases h.st with ⟨hr, hc⟩ | ⟨_, b, hb, hc⟩
  · rw [hc] at he
    exact ⟨s'.mgr.candles, he, by rw [h.ok.rawd hr]; rfl⟩
  · have hlen := engine_len σ.V b hb
    rw [hc, T.fin_drop_idem W hs σ.V b σ.d h.plain hb (by rw [hlen]; exact h.ok.keep)] at he
    exact ⟨b, hb, (Except.ok.inj he).symm⟩

theorem lifeInv_purge (T : TreeSpec ind) (life : Int) (σ : LState F) (s : IndState F) (h : LifeInv ind L life σ s) :
    LifeInv ind L life ⟨σ.held, 0, true⟩ s.purge :=
  ⟨h.tree, h.cfg, fun c hc => h.plain c (List.mem_of_mem_drop hc),
    ⟨Or.inl rfl, fun _ => rfl, by rw [held_zero]; exact h.ok.fix⟩, Or.inl ⟨rfl, h.purge_candles T⟩⟩

/-- `append(ch)`, `ch` non-empty: the manager trims `candles ++ ch` exactly as the abstract step trims `held ++ ch` -/
theorem LifeInv.mgr_append {life : Int} {σ : LState F} {s : IndState F} (h : LifeInv ind L life σ s)
    (ch : List (Candle F)) (hne : ch.isEmpty = false) (s' : IndState F) (hrun : s.append ch = .ok s') :
    ∃ m, trimCandles (some life) (σ.held ++ ch) = .ok m ∧
      IndState.calculate ({ s with mgr := { s.mgr with
        candles := List.drop ((σ.held ++ ch).length - m.length) (s.mgr.candles ++ ch) } } : IndState F) = .ok s' := by
  unfold IndState.append Manager.append at hrun
  have htk : tasks s.mgr.cfg (s.mgr.candles ++ ch) = trimCandles (some life) (s.mgr.candles ++ ch) := by
    rw [h.cfg, tasks_lifeOnly]
  simp only [hne, Bool.false_eq_true, if_false, htk, bind, Except.bind, pure, Except.pure] at hrun
  cases ht : trimCandles (some life) (s.mgr.candles ++ ch) with
  | error e => rw [ht] at hrun; cases hrun
  | ok m' =>
    rw [ht] at hrun
    simp only at hrun
    have hts : (σ.held ++ ch).map (·.ts) = (s.mgr.candles ++ ch).map (·.ts) := by
      rw [List.map_append, List.map_append, h.ts]
    obtain ⟨hm', _, htr⟩ := trim_congr_ts life (s.mgr.candles ++ ch) (σ.held ++ ch) m' hts ht
    have hlen : (s.mgr.candles ++ ch).length = (σ.held ++ ch).length := by
      simpa using congrArg List.length hts.symm
    refine ⟨_, htr, ?_⟩
    rw [List.length_drop, ← hlen]
    have : (s.mgr.candles ++ ch).length - ((s.mgr.candles ++ ch).length - ((s.mgr.candles ++ ch).length - m'.length))
        = (s.mgr.candles ++ ch).length - m'.length := by omega
    rw [this, ← hm']
    exact hrun

theorem lifeInv_append (T : TreeSpec ind) (W : TwinOK ind L) (hs : Shallow ind) (life : Int) (σ σ' : LState F)
    (s s' : IndState F) (ch : List (Candle F)) (h : LifeInv ind L life σ s) (hch : ∀ c ∈ ch, Plain c)
    (hrun : s.append ch = .ok s') (hsem : lifeStep life L σ (.append ch) = some σ') : LifeInv ind L life σ' s' := by
  by_cases hemp : ch.isEmpty = true
  · have hnil : ch = [] := List.isEmpty_iff.1 hemp
    subst hnil
    simp only [lifeStep, List.isEmpty_nil, if_true, Option.some.injEq] at hsem
    subst hsem
    have : s.append [] = s.calculate := by
      unfold IndState.append Manager.append
      simp [bind, Except.bind]
    rw [this] at hrun
    exact lifeInv_calculate T W hs life σ s s' h hrun
  · have hne : ch.isEmpty = false := by simpa using hemp
    obtain ⟨m, htrim, hcalc⟩ := h.mgr_append ch hne s' hrun
    obtain ⟨hokσ', _⟩ := lifeStep_ok life L σ σ' (.append ch) h.ok hsem
    simp only [lifeStep, hne, Bool.false_eq_true, if_false, htrim] at hsem
    obtain ⟨ht, hcfg, he⟩ := IndState.calculate_ok_engine _ s' hcalc
    rw [h.tree] at he ht
    obtain ⟨hm, hml⟩ := lifeStep_append_facts life σ ch m h.ok.le htrim
    obtain ⟨hm', _⟩ := trim_eq_drop life _ m htrim
    rcases h.st with ⟨hr, hc⟩ | ⟨hr, b, hb, hc⟩
    · simp only [hr, if_true, Option.some.injEq] at hsem
      subst hsem
      rw [hc, ← h.held_raw hr, ← hm'] at he
      refine ⟨ht, by rw [hcfg, h.cfg], ?_, hokσ', Or.inr ⟨rfl, s'.mgr.candles, he, rfl⟩⟩
      intro c hc'
      rw [hm'] at hc'
      rcases List.mem_append.1 (List.mem_of_mem_drop hc') with h1 | h1
      · exact h.plain c (List.mem_of_mem_drop h1)
      · exact hch c h1
    · simp only [hr, Bool.false_eq_true, if_false] at hsem
      have hlen := engine_len σ.V b hb
      by_cases hc2 : (σ.held ++ ch).length - m.length = 0 ∨ σ.d + ((σ.held ++ ch).length - m.length) + L ≤ σ.V.length
      · rw [if_pos hc2] at hsem
        have := Option.some.inj hsem; subst this
        have hdb : σ.d ≤ b.length := by rw [hlen]; exact h.ok.le
        have e : (b.drop σ.d ++ ch).drop ((σ.held ++ ch).length - m.length)
            = (b ++ ch).drop (σ.d + ((σ.held ++ ch).length - m.length)) := by
          rw [← List.drop_drop, List.drop_append_of_le_length hdb]
        rw [hc, e] at he
        have hk' : σ.d + ((σ.held ++ ch).length - m.length) = 0 ∨
            σ.d + ((σ.held ++ ch).length - m.length) + L ≤ b.length := by
          rw [hlen]
          rcases hc2 with h0 | h1
          · rw [h0]; rcases h.ok.keep with hk | hk
            · exact Or.inl (by omega)
            · exact Or.inr (by omega)
          · exact Or.inr h1
        obtain ⟨out, hout, hx⟩ := T.fin_append W hs σ.V b ch _ _ h.plain hch hb hk' he
        refine ⟨ht, by rw [hcfg, h.cfg], ?_, hokσ', Or.inr ⟨rfl, out, hout, hx⟩⟩
        intro c hc'
        rcases List.mem_append.1 hc' with h1 | h1
        · exact h.plain c h1
        · exact hch c h1
      · rw [if_neg hc2] at hsem; cases hsem

/-- **`calculate_index(i)` on a finished state changes nothing** – on an unpopped list at every index, on a popped one
at the indices `≥ L` (the look-back is there); `j` is the normalised index -/
theorem LifeInv.calcIndex_fin (T : TreeSpec ind) (hI : T.IndexOK) (W : TwinOK ind L) (hcost : ind.cost ≤ 16)
    {life : Int} {σ : LState F} {s : IndState F} (h : LifeInv ind L life σ s) (hr : σ.raw = false) (i : Int) (j : Nat)
    (hst : (if i < 0 then i + (s.mgr.candles.length : Int) else i) = (j : Int)) (hj : j < s.mgr.candles.length)
    (hcond : σ.d = 0 ∨ L ≤ j) : candlesOf (s.calculateIndex i none) = .ok s.mgr.candles := by
  rcases h.st with ⟨hr', _⟩ | ⟨_, b, hb, hc⟩
  · rw [hr] at hr'; cases hr'
  · have hlen := engine_len σ.V b hb
    have hrow := (T.engine_plain σ.V b h.plain).1 hb
    have hk := h.ok.keep
    rw [IndState.calculateIndex_candles s i j hst, h.tree, hc]
    rw [hc, List.length_drop] at hj
    rcases hcond with h0 | hL'
    · rw [h0, List.drop_zero]
      rw [h0] at hj
      by_cases hj0 : j = 0
      · subst hj0
        exact hI.2 _ _ h.plain hrow (by omega)
      · have := hI.1 _ _ [] h.plain hrow j (by omega) (by omega)
        simpa using this
    · have hL1 := W.hL
      have hfuel := (engineFuel (F := F) (fuelFor (b.drop σ.d)) (fuelFor b)).calculateIndex ind (b.drop σ.d)
        (j : Int) ((j : Int) + 1) (by omega) (by omega) (by unfold fuelFor; omega) (by unfold fuelFor; omega)
      rw [hfuel]
      have hdrop := (engineDropE (F := F) (d := σ.d) (L := L) W.hL (fuelFor b)).calculateIndex ind b
        ((j : Int) + (σ.d : Int)) ((j : Int) + (σ.d : Int) + 1) W.lb (by omega) (by omega) (by omega)
      have e1 : (j : Int) + (σ.d : Int) - (σ.d : Int) = (j : Int) := by omega
      have e2 : (j : Int) + (σ.d : Int) + 1 - (σ.d : Int) = (j : Int) + 1 := by omega
      rw [e1, e2] at hdrop
      rw [hdrop]
      have := hI.1 _ _ [] h.plain hrow (j + σ.d) (by omega) (by omega)
      simp only [List.append_nil, Nat.cast_add] at this
      rw [this]; rfl

/-- `calculate_index(i)` inside a program (on a candle that holds a reading) -/
theorem lifeInv_calcIndex (T : TreeSpec ind) (hI : T.IndexOK) (W : TwinOK ind L) (hcost : ind.cost ≤ 16) (life : Int)
    (σ σ' : LState F) (s s' : IndState F) (i : Int) (h : LifeInv ind L life σ s)
    (hadm : ∃ c, pyIndex s.mgr.candles i = .ok c ∧ hasKey s.tree.name c = true)
    (hrun : s.calculateIndex i none = .ok s') (hsem : lifeStep life L σ (.calcIndex i) = some σ') :
    LifeInv ind L life σ' s' := by
  obtain ⟨c, hidx, hkey⟩ := hadm
  rcases h.st with ⟨hr, hc⟩ | ⟨hr, b, hb, hc⟩
  · exfalso
    have hidx' : pyIndex ([] ++ σ.V) i = .ok c := by rw [← hc]; simpa using hidx
    obtain ⟨j, hj, _⟩ := index_in_done s.tree.name [] σ.V i c h.plain hidx' hkey
    simp at hj
  · have hlen := engine_len σ.V b hb
    have hheld : (σ.held.length : Int) = (s.mgr.candles.length : Int) := by
      rw [hc, LState.held, List.length_drop, List.length_drop, hlen]
    simp only [lifeStep, hr, Bool.false_eq_true, if_false, hheld] at hsem
    have hidx' : pyIndex (s.mgr.candles ++ []) i = .ok c := by simpa using hidx
    obtain ⟨j, hj, hst⟩ := index_in_done s.tree.name s.mgr.candles [] i c (by simp) hidx' hkey
    simp only [List.append_nil] at hst
    rw [hst] at hsem
    by_cases hcond : σ.d = 0 ∨ (L : Int) ≤ (j : Int)
    · rw [if_pos hcond] at hsem
      have := Option.some.inj hsem; subst this
      have hcs := h.calcIndex_fin T hI W hcost hr i j hst hj (by omega)
      rw [hrun] at hcs
      have hc' : s'.mgr.candles = s.mgr.candles := by simpa [candlesOf, Except.map] using hcs
      obtain ⟨hft, hfc⟩ := IndState.calculateIndex_ok_frame s s' i hrun
      exact ⟨by rw [hft, h.tree], by rw [hfc, h.cfg], h.plain, h.ok, Or.inr ⟨hr, b, hb, by rw [hc', hc]⟩⟩
    · rw [if_neg hcond] at hsem; cases hsem

/-- **one operation keeps the invariant** -/
theorem lifeInv_step (T : TreeSpec ind) (hI : T.IndexOK) (W : TwinOK ind L) (hs : Shallow ind) (hcost : ind.cost ≤ 16)
    (life : Int) (σ σ' : LState F) (s s' : IndState F) (op : Op F) (h : LifeInv ind L life σ s)
    (hadm : op.Admissible s) (hrun : op.run s = .ok s') (hsem : lifeStep life L σ op = some σ') :
    LifeInv ind L life σ' s' := by
  cases op with
  | append ch => exact lifeInv_append T W hs life σ σ' s s' ch h hadm hrun hsem
  | calculate =>
    simp only [lifeStep, Option.some.injEq] at hsem; subst hsem
    exact lifeInv_calculate T W hs life σ s s' h hrun
  | purge =>
    simp only [lifeStep, Option.some.injEq] at hsem; subst hsem
    simp only [Op.run] at hrun
    cases hrun
    exact lifeInv_purge T life σ s h
  | recalculate =>
    simp only [lifeStep, Option.some.injEq] at hsem; subst hsem
    exact lifeInv_calculate T W hs life ⟨σ.held, 0, true⟩ s.purge s' (lifeInv_purge T life σ s h) hrun
  | calcIndex i => exact lifeInv_calcIndex T hI W hcost life σ σ' s s' i h hadm hrun hsem

/-- **the invariant along any program** -/
theorem lifeInv_runs (T : TreeSpec ind) (hI : T.IndexOK) (W : TwinOK ind L) (hs : Shallow ind) (hcost : ind.cost ≤ 16)
    (life : Int) (ops : List (Op F)) :
    ∀ (σ σ' : LState F) (s s' : IndState F), LifeInv ind L life σ s → Runs s ops s' →
      lifeRunFrom life L σ ops = some σ' → LifeInv ind L life σ' s' := by
  induction ops with
  | nil =>
    intro σ σ' s s' h hr hsem
    cases hr
    simp only [lifeRunFrom, Option.some.injEq] at hsem; subst hsem
    exact h
  | cons op rest ih =>
    intro σ σ' s s' h hr hsem
    cases hr with
    | cons hadm hrun hrest =>
      simp only [lifeRunFrom] at hsem
      cases h1 : lifeStep life L σ op with
      | none => rw [h1] at hsem; cases hsem
      | some σ₁ =>
        rw [h1] at hsem
        exact ih σ₁ σ' _ s' (lifeInv_step T hI W hs hcost life σ σ₁ s _ op h hadm hrun h1) hrest hsem

/-- the freshly constructed object: the manager holds the trimmed initial candles, raw -/
theorem lifeInv_init (life : Int) (init : List (Candle F)) (hp : ∀ c ∈ init, Plain c) (s₀ : IndState F)
    (h₀ : IndState.init ind (cfgLifeOnly life) init = .ok s₀) :
    ∃ V, trimCandles (some life) init = .ok V ∧ LifeInv ind L life ⟨V, 0, true⟩ s₀ := by
  unfold IndState.init Manager.init at h₀
  rw [tasks_lifeOnly] at h₀
  cases ht : trimCandles (some life) init with
  | error e => rw [ht] at h₀; cases h₀
  | ok V =>
    rw [ht] at h₀
    simp only [bind, Except.bind, pure, Except.pure] at h₀
    cases h₀
    obtain ⟨hV, _⟩ := trim_eq_drop life init V ht
    refine ⟨V, rfl, rfl, rfl, ?_, ⟨Or.inl rfl, fun _ => rfl, by rw [held_zero]; exact trim_idem life init V ht⟩,
      Or.inl ⟨rfl, rfl⟩⟩
    intro c hc
    rw [hV] at hc
    exact hp c (List.mem_of_mem_drop hc)

end generic

/-! ### every shipped class -/

theorem cost_mkTop_le (k : Kind F) (name : String) (round : Nat) : (mkTop k name round).cost ≤ 16 := by
  cases k <;>
    simp [mkTop, children, Ind.cost_eq, Ind.costR_eq, Ind.subs, Ind.managed, leaf, atrNode, stdevNode]

section covered
variable {name : String} {k : Kind F}

/-- **The program invariant on a lifespan manager, every shipped class.**  Construct over raw candles `init` with
`{ lifespan := some life }`, run any program over {append, calculate, purge, recalculate, calculate_index(±i) on a
candle that holds a reading}; if the abstract semantics of the program is `some σ` (every trim returns, every append
onto a finished state that pops retains the look-back, `calculate_index` is not aimed at the first `L` candles of a
popped list), the object is in the state `σ` describes. -/
theorem program_invariant_lifespan (hk : CoveredTreeX name k) (round : Nat) (life : Int) (init : List (Candle F))
    (ops : List (Op F)) (hp : ∀ c ∈ init, Plain c) (s₀ s : IndState F)
    (h₀ : IndState.init (mkTop k name round) { lifespan := some life } init = .ok s₀) (hruns : Runs s₀ ops s)
    (σ : LState F) (hsem : lifeSem life (treeLook k name round) init ops = some σ) :
    LifeInv (mkTop k name round) (treeLook k name round) life σ s := by
  obtain ⟨T, _, hI⟩ := hk.specIdx round
  obtain ⟨V, hV, h0⟩ := lifeInv_init (ind := mkTop k name round) (L := treeLook k name round) life init hp s₀ h₀
  unfold lifeSem at hsem
  rw [hV] at hsem
  exact lifeInv_runs T hI (hk.twinOK round) (shallow_mkTop k name round) (cost_mkTop_le k name round) life ops _ σ s₀ s
    h0 hruns hsem

/-- **C14 on a lifespan manager: programs converge to the batch state over the VIRTUAL stream**, as an equation in
`PyM`: the final `calculate()` returns exactly when the batch run (default configuration) over `σ.V` returns, with
its candles minus the first `σ.d`; and raises the same exception otherwise. -/
theorem program_converges_lifespan (hk : CoveredTreeX name k) (round : Nat) (life : Int) (init : List (Candle F))
    (ops : List (Op F)) (hp : ∀ c ∈ init, Plain c) (s₀ s : IndState F)
    (h₀ : IndState.init (mkTop k name round) { lifespan := some life } init = .ok s₀) (hruns : Runs s₀ ops s)
    (σ : LState F) (hsem : lifeSem life (treeLook k name round) init ops = some σ) :
    candlesOf s.calculate = (candlesOf (runIndicator (mkTop k name round) {} σ.V [])).map (·.drop σ.d) := by
  obtain ⟨T, _, _⟩ := hk.specIdx round
  rw [batch_engine]
  exact (program_invariant_lifespan hk round life init ops hp s₀ s h₀ hruns σ hsem).final T (hk.twinOK round)
    (shallow_mkTop k name round)

/-- … in the returns-iff form of `C14_trees_mgr` -/
theorem program_converges_lifespan_iff (hk : CoveredTreeX name k) (round : Nat) (life : Int) (init : List (Candle F))
    (ops : List (Op F)) (hp : ∀ c ∈ init, Plain c) (s₀ s : IndState F)
    (h₀ : IndState.init (mkTop k name round) { lifespan := some life } init = .ok s₀) (hruns : Runs s₀ ops s)
    (σ : LState F) (hsem : lifeSem life (treeLook k name round) init ops = some σ) (out : List (Candle F)) :
    candlesOf s.calculate = .ok out ↔
      ∃ b, candlesOf (runIndicator (mkTop k name round) {} σ.V []) = .ok b ∧ out = b.drop σ.d := by
  rw [program_converges_lifespan hk round life init ops hp s₀ s h₀ hruns σ hsem]
  cases candlesOf (runIndicator (mkTop k name round) {} σ.V []) with
  | error e => simp [Except.map]
  | ok b =>
    simp only [Except.map, Except.ok.injEq]
    constructor
    · intro h; exact ⟨b, rfl, h.symm⟩
    · rintro ⟨b', hb, rfl⟩; rw [hb]

/-- the candles held, stripped, are a suffix of everything received -/
theorem lifeSem_suffix (life : Int) (L : Nat) (init : List (Candle F)) (ops : List (Op F)) (σ : LState F)
    (hsem : lifeSem life L init ops = some σ) : σ.held <:+ init ++ (ops.map Op.added).flatten := by
  unfold lifeSem at hsem
  cases ht : trimCandles (some life) init with
  | error e => rw [ht] at hsem; cases hsem
  | ok V =>
    rw [ht] at hsem
    simp only at hsem
    obtain ⟨hV, _⟩ := trim_eq_drop life init V ht
    have h0 : (⟨V, 0, true⟩ : LState F).OK L life :=
      ⟨Or.inl rfl, fun _ => rfl, by rw [held_zero]; exact trim_idem life init V ht⟩
    obtain ⟨_, hsuf⟩ := lifeRunFrom_ok life L ops _ σ h0 hsem
    rw [held_zero] at hsuf
    refine hsuf.trans ?_
    obtain ⟨t, ht'⟩ : V <:+ init := by rw [hV]; exact List.drop_suffix _ _
    exact ⟨t, by rw [← ht', List.append_assoc]⟩

/-- **(ii) `purge()` gives the raw candles currently held**: `σ.V.drop σ.d`, reading-free, a suffix of everything
received, and a list the trim leaves alone -/
theorem purge_gives_held (hk : CoveredTreeX name k) (round : Nat) (life : Int) (init : List (Candle F))
    (ops : List (Op F)) (hp : ∀ c ∈ init, Plain c) (s₀ s : IndState F)
    (h₀ : IndState.init (mkTop k name round) { lifespan := some life } init = .ok s₀) (hruns : Runs s₀ ops s)
    (σ : LState F) (hsem : lifeSem life (treeLook k name round) init ops = some σ) :
    s.purge.mgr.candles = σ.V.drop σ.d ∧ (∀ c ∈ s.purge.mgr.candles, Plain c) ∧
      s.purge.mgr.candles <:+ init ++ (ops.map Op.added).flatten ∧
      trimCandles (some life) s.purge.mgr.candles = .ok s.purge.mgr.candles := by
  obtain ⟨T, _, _⟩ := hk.specIdx round
  have hinv := program_invariant_lifespan hk round life init ops hp s₀ s h₀ hruns σ hsem
  have hpc := hinv.purge_candles T
  rw [hpc]
  exact ⟨rfl, fun c hc => hinv.plain c (List.mem_of_mem_drop hc), lifeSem_suffix life _ init ops σ hsem, hinv.ok.fix⟩

/-- **(ii) after ANY program `recalculate()` is the batch run over the candles currently held** (stripped:
`s.purge.mgr.candles`) – with the default configuration and with the same lifespan configuration; equations in `PyM` -/
theorem recalculate_eq_batch_held (hk : CoveredTreeX name k) (round : Nat) (life : Int) (init : List (Candle F))
    (ops : List (Op F)) (hp : ∀ c ∈ init, Plain c) (s₀ s : IndState F)
    (h₀ : IndState.init (mkTop k name round) { lifespan := some life } init = .ok s₀) (hruns : Runs s₀ ops s)
    (σ : LState F) (hsem : lifeSem life (treeLook k name round) init ops = some σ) :
    candlesOf s.recalculate = candlesOf (runIndicator (mkTop k name round) {} s.purge.mgr.candles []) ∧
    candlesOf s.recalculate
      = candlesOf (runIndicator (mkTop k name round) { lifespan := some life } s.purge.mgr.candles []) := by
  have hinv := program_invariant_lifespan hk round life init ops hp s₀ s h₀ hruns σ hsem
  obtain ⟨_, _, _, hfix⟩ := purge_gives_held hk round life init ops hp s₀ s h₀ hruns σ hsem
  have hrec : candlesOf s.recalculate = engineCalc (mkTop k name round) s.purge.mgr.candles := by
    unfold IndState.recalculate
    rw [IndState.calculate_engine]
    have : s.purge.tree = mkTop k name round := hinv.tree
    rw [this]
  exact ⟨by rw [hrec, batch_engine], by rw [hrec, batch_engine_life _ life _ hfix]⟩

/-- **`calculate_index(i)` reproduces on a lifespan manager**: after any program and a `calculate()` that returned, at
every index `-len ≤ i < len` when nothing is popped from the virtual stream, at the (normalised) indices `≥ L` when
candles were popped -/
theorem calculateIndex_lifespan (hk : CoveredTreeX name k) (round : Nat) (life : Int) (init : List (Candle F))
    (ops : List (Op F)) (hp : ∀ c ∈ init, Plain c) (s₀ s s₁ : IndState F)
    (h₀ : IndState.init (mkTop k name round) { lifespan := some life } init = .ok s₀) (hruns : Runs s₀ ops s)
    (σ : LState F) (hsem : lifeSem life (treeLook k name round) init ops = some σ)
    (h : s.calculate = .ok s₁) (i : Int) (hlo : -(s₁.mgr.candles.length : Int) ≤ i) (hhi : i < s₁.mgr.candles.length)
    (hL : σ.d = 0 ∨ (treeLook k name round : Int) ≤ (if i < 0 then i + (s₁.mgr.candles.length : Int) else i)) :
    candlesOf (s₁.calculateIndex i none) = .ok s₁.mgr.candles := by
  obtain ⟨T, _, hI⟩ := hk.specIdx round
  have hinv := program_invariant_lifespan hk round life init ops hp s₀ s h₀ hruns σ hsem
  have h1 := lifeInv_calculate T (hk.twinOK round) (shallow_mkTop k name round) life σ s s₁ hinv h
  obtain ⟨j, hj⟩ : ∃ j : Nat, (if i < 0 then i + (s₁.mgr.candles.length : Int) else i) = (j : Int) := by
    by_cases hn : i < 0
    · exact ⟨(i + s₁.mgr.candles.length).toNat, by simp only [hn, if_true]; omega⟩
    · exact ⟨i.toNat, by simp only [hn, if_false]; omega⟩
  have hjlt : j < s₁.mgr.candles.length := by
    by_cases hn : i < 0
    · simp only [hn, if_true] at hj; omega
    · simp only [hn, if_false] at hj; omega
  rw [hj] at hL
  exact h1.calcIndex_fin (L := treeLook k name round) T hI (hk.twinOK round) (cost_mkTop_le k name round) rfl i j hj hjlt (by
    rcases hL with h0 | h0
    · exact Or.inl h0
    · exact Or.inr (by omega))

/-- **(iii) C14 for `recalculate()` on a lifespan manager, literally**: on a stamped, sorted raw stream (`RawTf`), after
ANY program `purge()` gives the trim of everything received, and `recalculate()` EQUALS the batch run with the SAME
configuration over everything received. -/
theorem recalculate_eq_batch_sameCfg (hk : CoveredTreeX name k) (round : Nat) (life : Int) (init : List (Candle F))
    (ops : List (Op F)) (hraw : RawTf (init ++ (ops.map Op.added).flatten)) (s₀ s : IndState F)
    (h₀ : IndState.init (mkTop k name round) { lifespan := some life } init = .ok s₀) (hruns : Runs s₀ ops s)
    (σ : LState F) (hsem : lifeSem life (treeLook k name round) init ops = some σ) :
    trimCandles (some life) (init ++ (ops.map Op.added).flatten) = .ok s.purge.mgr.candles ∧
    candlesOf s.recalculate
      = candlesOf (runIndicator (mkTop k name round) { lifespan := some life }
          (init ++ (ops.map Op.added).flatten) []) := by
  have hp : ∀ c ∈ init, Plain c := fun c hc => hraw.plain c (by simp [hc])
  have hinv := program_invariant_lifespan hk round life init ops hp s₀ s h₀ hruns σ hsem
  obtain ⟨hpc, _, _, _⟩ := purge_gives_held hk round life init ops hp s₀ s h₀ hruns σ hsem
  have hall : trimCandles (some life) (init ++ (ops.map Op.added).flatten) = .ok σ.held := by
    have h := hsem
    unfold lifeSem at h
    cases ht : trimCandles (some life) init with
    | error e => rw [ht] at h; cases h
    | ok V =>
      rw [ht] at h
      simp only at h
      have h0 : (⟨V, 0, true⟩ : LState F).OK (treeLook k name round) life :=
        ⟨Or.inl rfl, fun _ => rfl, by rw [held_zero]; exact trim_idem life init V ht⟩
      exact lifeRunFrom_trimAll life _ ops _ σ init h0 hraw (by rw [held_zero]; exact ht) h
  have hpc' : s.purge.mgr.candles = σ.held := hpc
  refine ⟨by rw [hpc']; exact hall, ?_⟩
  rw [batch_engine_life' _ life _ _ hall]
  unfold IndState.recalculate
  rw [IndState.calculate_engine, hpc']
  have : s.purge.tree = mkTop k name round := hinv.tree
  rw [this]

/-- `calculate()` again changes nothing – after any program on a lifespan manager -/
theorem calculate_idempotent_lifespan (hk : CoveredTreeX name k) (round : Nat) (life : Int) (init : List (Candle F))
    (ops : List (Op F)) (hp : ∀ c ∈ init, Plain c) (s₀ s s₁ : IndState F)
    (h₀ : IndState.init (mkTop k name round) { lifespan := some life } init = .ok s₀) (hruns : Runs s₀ ops s)
    (σ : LState F) (hsem : lifeSem life (treeLook k name round) init ops = some σ)
    (h : s.calculate = .ok s₁) : candlesOf s₁.calculate = .ok s₁.mgr.candles := by
  obtain ⟨T, _, _⟩ := hk.specIdx round
  have hinv := program_invariant_lifespan hk round life init ops hp s₀ s h₀ hruns σ hsem
  have h1 := lifeInv_calculate T (hk.twinOK round) (shallow_mkTop k name round) life σ s s₁ hinv h
  rw [h1.final T (hk.twinOK round) (shallow_mkTop k name round)]
  rcases h1.st with ⟨hr, _⟩ | ⟨_, b, hb, hc⟩
  · cases hr
  · simp only at hb hc
    rw [hb, hc]; rfl

/-! ### (i) programs without `purge` / `recalculate`: the virtual stream is everything the construction kept plus
everything appended – C15b for programs -/

/-- operations that keep the readings -/
def Op.keepsReadings : Op F → Bool
  | .purge => false
  | .recalculate => false
  | _ => true

theorem lifeStep_keeps (life : Int) (L : Nat) (σ σ' : LState F) (op : Op F) (hr : σ.raw = false)
    (hop : op.keepsReadings = true) (hs : lifeStep life L σ op = some σ') :
    σ'.raw = false ∧ σ'.V = σ.V ++ op.added := by
  cases op with
  | purge => cases hop
  | recalculate => cases hop
  | calculate =>
    simp only [lifeStep, Option.some.injEq] at hs; subst hs
    exact ⟨rfl, by simp [Op.added]⟩
  | calcIndex i =>
    simp only [lifeStep, hr, Bool.false_eq_true, if_false] at hs
    by_cases hc : σ.d = 0 ∨ (L : Int) ≤ (if i < 0 then i + (σ.held.length : Int) else i)
    · rw [if_pos hc] at hs
      have := Option.some.inj hs; subst this; exact ⟨hr, by simp [Op.added]⟩
    · rw [if_neg hc] at hs; cases hs
  | append ch =>
    simp only [lifeStep, hr, Bool.false_eq_true, if_false] at hs
    by_cases hch : ch.isEmpty = true
    · rw [if_pos hch] at hs
      have := Option.some.inj hs; subst this
      have : ch = [] := List.isEmpty_iff.1 hch
      subst this
      exact ⟨rfl, by simp [Op.added]⟩
    · rw [if_neg hch] at hs
      cases ht : trimCandles (some life) (σ.held ++ ch) with
      | error e => rw [ht] at hs; cases hs
      | ok m =>
        rw [ht] at hs
        simp only at hs
        split at hs
        · have := Option.some.inj hs; subst this; exact ⟨rfl, rfl⟩
        · cases hs

theorem lifeRunFrom_keeps (life : Int) (L : Nat) (ops : List (Op F)) :
    ∀ (σ σ' : LState F), σ.raw = false → (∀ op ∈ ops, op.keepsReadings = true) →
      lifeRunFrom life L σ ops = some σ' → σ'.raw = false ∧ σ'.V = σ.V ++ (ops.map Op.added).flatten := by
  induction ops with
  | nil =>
    intro σ σ' hr _ hs
    simp only [lifeRunFrom, Option.some.injEq] at hs; subst hs
    exact ⟨hr, by simp⟩
  | cons op rest ih =>
    intro σ σ' hr hops hs
    simp only [lifeRunFrom] at hs
    cases h1 : lifeStep life L σ op with
    | none => rw [h1] at hs; cases hs
    | some σ₁ =>
      rw [h1] at hs
      obtain ⟨hr₁, hV₁⟩ := lifeStep_keeps life L σ σ₁ op hr (hops op (by simp)) h1
      obtain ⟨hr', hV'⟩ := ih σ₁ σ' hr₁ (fun o ho => hops o (by simp [ho])) hs
      exact ⟨hr', by rw [hV', hV₁]; simp⟩

/-- **(i) C15b for programs**: construct, `calculate()`, then any program over {append, calculate, calculate_index}
(no `purge` / `recalculate`): the final `calculate()` is the batch run (default configuration) over `V₀ ++ all appended
candles` – `V₀` what the construction kept, `init` itself when the construction popped nothing – minus the popped
candles. -/
theorem program_converges_lifespan_nopurge (hk : CoveredTreeX name k) (round : Nat) (life : Int)
    (init V₀ : List (Candle F)) (ops : List (Op F)) (hp : ∀ c ∈ init, Plain c)
    (hV : trimCandles (some life) init = .ok V₀) (hno : ∀ op ∈ ops, op.keepsReadings = true) (s₀ s : IndState F)
    (h₀ : IndState.init (mkTop k name round) { lifespan := some life } init = .ok s₀)
    (hruns : Runs s₀ (.calculate :: ops) s)
    (σ : LState F) (hsem : lifeSem life (treeLook k name round) init (.calculate :: ops) = some σ) :
    candlesOf s.calculate
      = (candlesOf (runIndicator (mkTop k name round) {} (V₀ ++ (ops.map Op.added).flatten) [])).map (·.drop σ.d) := by
  have hσ : σ.V = V₀ ++ (ops.map Op.added).flatten := by
    have h := hsem
    unfold lifeSem at h
    rw [hV] at h
    simp only [lifeRunFrom, lifeStep] at h
    exact (lifeRunFrom_keeps life _ ops _ σ rfl hno h).2
  rw [← hσ]
  exact program_converges_lifespan hk round life init _ hp s₀ s h₀ hruns σ hsem

end covered

end Hex

/-! ### the witness: what is FALSE on a lifespan manager (SMA 2, lifespan 30 s) -/

namespace Hex.LifeWitness
open Hex Hex.TfDemo

/-- a candle with close `c` (high `c + 5`, low `c - 5`) stamped `t` -/
def lc (c t : Int) : Candle Int :=
  { o := .int c, h := .int (c + 5), l := .int (c - 5), c := .int c, v := .int 100, ts := some t }

def sma2 : Ind Int := mkTop (.sma 2 "close") "SMA_2" 4
theorem sma2Cov : CoveredTreeX (F := Int) "SMA_2" (.sma 2 "close") :=
  .base _ (.leaf _ (.sma 2 "close" (by decide) (by decide) (by decide)))
theorem sma2_look : treeLook (F := Int) (.sma 2 "close") "SMA_2" 4 = 2 := by
  simp [treeLook, mkTop, children, Ind.lb_eq, Ind.kind, Ind.subs, Ind.managed, leaf, kwin, window]

/-- four candles stamped 0 … 3, closes 10 … 40; the appended candle, stamped 32 (pops the stamps 0 and 1) -/
def init4 : List (Candle Int) := [lc 10 0, lc 20 1, lc 30 2, lc 40 3]
def c32 : List (Candle Int) := [lc 50 32]

/-- the SMA column -/
def col (cs : List (Candle Int)) : List (Option Int) :=
  cs.map fun c => match dlookup "SMA_2" c.inds with
    | some (Val.s (Scalar.num (Num.flt x))) => some x
    | _ => none

/-- construct, `calculate()`, append (pops two candles, retains the look-back 2), `recalculate()` -/
def progW : List (Op Int) := [.calculate, .append c32, .recalculate]

/-- final candles of a program from the construction (`none` if it does not run) -/
def finalOf (ops : List (Op Int)) : Option (List (Candle Int)) :=
  (runFrom sma2 { lifespan := some 30 } init4 ops).bind fun s => (candlesOf s.calculate).toOption

def batchAll (cfg : MgrCfg) : Option (List (Candle Int)) :=
  (candlesOf (runIndicator sma2 cfg (init4 ++ c32) [])).toOption

set_option maxRecDepth 100000 in
/-- the program runs and satisfies the retention conditions: virtual stream = the three candles held, nothing popped -/
theorem progW_runs : ∃ s₀ s, IndState.init sma2 { lifespan := some 30 } init4 = .ok s₀ ∧ Runs s₀ progW s :=
  runs_of_runFrom _ _ _ _ (by decide +kernel)

set_option maxRecDepth 100000 in
theorem progW_sem : lifeSem 30 2 init4 progW = some ⟨[lc 30 2, lc 40 3, lc 50 32], 0, false⟩ := by decide +kernel

set_option maxRecDepth 100000 in
/-- the readings: after the program `[None, 35, 45]`; the batch run over everything received `[None, 15, 25, 35, 45]` -/
theorem witness_columns :
    (finalOf progW).map col = some [none, some 35, some 45] ∧
    (batchAll {}).map col = some [none, some 15, some 25,
      some 35, some 45] ∧
    (finalOf [.calculate, .append c32]).map col
      = some [some 25, some 35, some 45] ∧
    (batchAll { lifespan := some 30 }).map col = some [none, some 35, some 45] := by
  decide +kernel

set_option maxRecDepth 100000 in
/-- **"the final state is the tail of the batch run over everything received" is FALSE** once a `recalculate()` follows
a trim: for NO `d` are the final candles `(batch).drop d` -/
theorem final_ne_tail : ∀ fin b, finalOf progW = some fin → batchAll {} = some b → ∀ d, fin ≠ b.drop d := by
  intro fin b hf hb d heq
  have h1 : (finalOf progW).map col = some (col fin) := by rw [hf]; rfl
  have h2 : (batchAll {}).map col = some (col b) := by rw [hb]; rfl
  rw [witness_columns.1] at h1
  rw [witness_columns.2.1] at h2
  have hcf := (Option.some.inj h1).symm
  have hcb := (Option.some.inj h2).symm
  have hd : col fin = (col b).drop d := by rw [heq]; unfold col; rw [List.map_drop]
  rw [hcf, hcb] at hd
  match d, hd with
  | 0, hd => simp at hd
  | 1, hd => simp at hd
  | 2, hd => simp at hd
  | 3, hd => simp at hd
  | 4, hd => simp at hd
  | (n + 5), hd => simp at hd

set_option maxRecDepth 100000 in
/-- **`recalculate()` right after a `calculate()` that returned does NOT reproduce on a lifespan manager** (it does on
every `MgrSpec`, `recalculate_reproduces_tf`): state after `[calculate, append]`, `calculate()`, then `recalculate()` -/
theorem recalculate_not_reproduces :
    ∃ s s₁ : IndState Int, runFrom sma2 { lifespan := some 30 } init4 [.calculate, .append c32] = some s ∧
      s.calculate = .ok s₁ ∧ candlesOf s₁.recalculate ≠ .ok s₁.mgr.candles := by
  have hr : (runFrom sma2 { lifespan := some 30 } init4 [.calculate, .append c32]).isSome = true := by decide +kernel
  cases hs : runFrom sma2 { lifespan := some 30 } init4 [.calculate, .append c32] with
  | none => rw [hs] at hr; cases hr
  | some s =>
    have hc : ((candlesOf s.calculate).toOption.map col)
        = some [some 25, some 35, some 45] := by
      have := witness_columns.2.2.1
      unfold finalOf at this
      rw [hs] at this
      simpa [Option.bind] using this
    cases hc1 : s.calculate with
    | error e => rw [hc1] at hc; simp [candlesOf, Except.map, Except.toOption] at hc
    | ok s₁ =>
      refine ⟨s, s₁, rfl, hc1, ?_⟩
      have hcol1 : col s₁.mgr.candles
          = [some 25, some 35, some 45] := by
        rw [hc1] at hc
        simpa [candlesOf, Except.map, Except.toOption] using hc
      intro hrec
      have hcolr : ((candlesOf s₁.recalculate).toOption.map col)
          = some [none, some 35, some 45] := by
        have h2 : runFrom sma2 { lifespan := some 30 } init4 [.calculate, .append c32] = some s := hs
        have : ((runFrom sma2 { lifespan := some 30 } init4 [.calculate, .append c32]).bind fun s =>
            (s.calculate.toOption.bind fun s₁ => (candlesOf s₁.recalculate).toOption)).map col
            = some [none, some 35, some 45] := by decide +kernel
        rw [h2] at this
        simpa [Option.bind, hc1, Except.toOption] using this
      rw [hrec] at hcolr
      simp only [Except.toOption, Option.map_some, Option.some.injEq] at hcolr
      rw [hcol1] at hcolr
      simp at hcolr

/-- **without the `recalculate()` the final candles are NOT the batch run with the SAME configuration** over everything
received (that batch run trims at construction and starts its SMA afresh) -/
theorem append_ne_batch_sameCfg :
    finalOf [.calculate, .append c32] ≠ batchAll { lifespan := some 30 } := by
  intro h
  have := congrArg (Option.map col) h
  rw [witness_columns.2.2.1, witness_columns.2.2.2] at this
  simp at this

/-- … while the theorem gives what IS true of the witness: the final candles are the batch run over the three candles
held -/
example (s₀ s : IndState Int) (h₀ : IndState.init sma2 { lifespan := some 30 } init4 = .ok s₀) (hruns : Runs s₀ progW s) :
    candlesOf s.calculate = (candlesOf (runIndicator sma2 {} [lc 30 2, lc 40 3, lc 50 32] [])).map (·.drop 0) :=
  program_converges_lifespan sma2Cov 4 30 init4 progW (by decide) s₀ s h₀ hruns _ (by rw [sma2_look]; exact progW_sem)

/-! ### non-vacuity: a program that pops before AND after a `recalculate()`, with `calculate_index` on popped lists -/

/-- construct over four candles; `calculate()`; append stamp 32 (pops 0, 1; two finished candles retained);
`calculate_index(-1)` on the popped list (index 2 ≥ look-back 2); `recalculate()` (virtual stream := the three candles
held); append stamp 33 (pops stamp 2); append stamps 40, 41 (pops stamp 3); `calculate_index(-1)`, `(2)`; `calculate()`;
`purge()`; append stamp 42 onto the RAW list; `calculate()` -/
def progL : List (Op Int) :=
  [.calculate, .append c32, .calcIndex (-1), .recalculate, .append [lc 60 33], .append [lc 70 40, lc 80 41],
   .calcIndex (-1), .calcIndex 2, .calculate, .purge, .append [lc 90 42], .calculate]

/-- the same without `purge` / `recalculate` (corollary (i)) -/
def progK : List (Op Int) :=
  [.append c32, .calcIndex (-1), .append [lc 60 33], .calculate, .append [lc 70 40, lc 80 41], .calcIndex 3]

set_option maxRecDepth 100000 in
theorem progL_runs : ∃ s₀ s, IndState.init sma2 { lifespan := some 30 } init4 = .ok s₀ ∧ Runs s₀ progL s :=
  runs_of_runFrom _ _ _ _ (by decide +kernel)

set_option maxRecDepth 100000 in
theorem progK_runs : ∃ s₀ s, IndState.init sma2 { lifespan := some 30 } init4 = .ok s₀ ∧ Runs s₀ (.calculate :: progK) s :=
  runs_of_runFrom _ _ _ _ (by decide +kernel)

set_option maxRecDepth 100000 in
/-- the abstract semantics along `progL`: after the second popping append the virtual stream is six candles long with
two popped; at the end (after `purge()` and one more append) it is the five candles held, nothing popped -/
theorem progL_sem_mid : lifeSem 30 2 init4 (progL.take 9)
    = some ⟨[lc 30 2, lc 40 3, lc 50 32, lc 60 33, lc 70 40, lc 80 41], 2, false⟩ := by decide +kernel

set_option maxRecDepth 100000 in
theorem progL_sem : lifeSem 30 2 init4 progL
    = some ⟨[lc 50 32, lc 60 33, lc 70 40, lc 80 41, lc 90 42], 0, false⟩ := by decide +kernel

set_option maxRecDepth 100000 in
theorem progK_sem : lifeSem 30 2 init4 (.calculate :: progK)
    = some ⟨init4 ++ (progK.map Op.added).flatten, 4, false⟩ := by decide +kernel

set_option maxRecDepth 100000 in
/-- the runs themselves: readings after `progL.take 9` (popped list: the first reading comes from the popped
look-back), after `progL`, after `progK` -/
example : (finalOf (progL.take 9)).map col = some [some 45, some 55, some 65, some 75] ∧
    (finalOf progL).map col = some [none, some 55, some 65, some 75, some 85] ∧
    (finalOf (.calculate :: progK)).map col = some [some 45, some 55, some 65, some 75] := by decide +kernel

/-- the theorems applied -/
example (s₀ s : IndState Int) (h₀ : IndState.init sma2 { lifespan := some 30 } init4 = .ok s₀)
    (hruns : Runs s₀ (progL.take 9) s) :
    candlesOf s.calculate
      = (candlesOf (runIndicator sma2 {} [lc 30 2, lc 40 3, lc 50 32, lc 60 33, lc 70 40, lc 80 41] [])).map (·.drop 2) :=
  program_converges_lifespan sma2Cov 4 30 init4 _ (by decide) s₀ s h₀ hruns _ (by rw [sma2_look]; exact progL_sem_mid)

example (s₀ s : IndState Int) (h₀ : IndState.init sma2 { lifespan := some 30 } init4 = .ok s₀) (hruns : Runs s₀ progL s)
    (out : List (Candle Int)) :
    candlesOf s.calculate = .ok out ↔
      ∃ b, candlesOf (runIndicator sma2 {} [lc 50 32, lc 60 33, lc 70 40, lc 80 41, lc 90 42] []) = .ok b ∧
        out = b.drop 0 :=
  program_converges_lifespan_iff sma2Cov 4 30 init4 progL (by decide) s₀ s h₀ hruns
    ⟨[lc 50 32, lc 60 33, lc 70 40, lc 80 41, lc 90 42], 0, false⟩ (by rw [sma2_look]; exact progL_sem) out

example (s₀ s : IndState Int) (h₀ : IndState.init sma2 { lifespan := some 30 } init4 = .ok s₀)
    (hruns : Runs s₀ (.calculate :: progK) s) :
    candlesOf s.calculate
      = (candlesOf (runIndicator sma2 {} (init4 ++ (progK.map Op.added).flatten) [])).map (·.drop 4) :=
  program_converges_lifespan_nopurge sma2Cov 4 30 init4 init4 progK (by decide) rfl (by decide) s₀ s h₀ hruns _
    (by rw [sma2_look]; exact progK_sem)

example (s₀ s : IndState Int) (h₀ : IndState.init sma2 { lifespan := some 30 } init4 = .ok s₀)
    (hruns : Runs s₀ (progL.take 9) s) :
    s.purge.mgr.candles = [lc 50 32, lc 60 33, lc 70 40, lc 80 41] ∧
    candlesOf s.recalculate = candlesOf (runIndicator sma2 { lifespan := some 30 } s.purge.mgr.candles []) := by
  have h1 := purge_gives_held sma2Cov 4 30 init4 _ (by decide) s₀ s h₀ hruns _ (by rw [sma2_look]; exact progL_sem_mid)
  have h2 := recalculate_eq_batch_held sma2Cov 4 30 init4 _ (by decide) s₀ s h₀ hruns _
    (by rw [sma2_look]; exact progL_sem_mid)
  exact ⟨h1.1, h2.2⟩

theorem progL_raw : RawTf (init4 ++ (progL.map Op.added).flatten) := ⟨by decide, by decide, by decide, by decide⟩

/-- (iii) on the demo: after `progL`, `recalculate()` is the batch run with the same lifespan over all nine candles
received (of which it keeps the five stamped 32 … 42) -/
example (s₀ s : IndState Int) (h₀ : IndState.init sma2 { lifespan := some 30 } init4 = .ok s₀) (hruns : Runs s₀ progL s) :
    candlesOf s.recalculate
      = candlesOf (runIndicator sma2 { lifespan := some 30 } (init4 ++ (progL.map Op.added).flatten) []) :=
  (recalculate_eq_batch_sameCfg sma2Cov 4 30 init4 progL progL_raw s₀ s h₀ hruns _
    (by rw [sma2_look]; exact progL_sem)).2

/-- `calculate_index(-1)` on the popped list after `progL.take 9` (normalised index 3 ≥ look-back 2) -/
example (s₀ s s₁ : IndState Int) (h₀ : IndState.init sma2 { lifespan := some 30 } init4 = .ok s₀)
    (hruns : Runs s₀ (progL.take 9) s) (h : s.calculate = .ok s₁) (hlen : s₁.mgr.candles.length = 4) :
    candlesOf (s₁.calculateIndex (-1) none) = .ok s₁.mgr.candles :=
  calculateIndex_lifespan sma2Cov 4 30 init4 _ (by decide) s₀ s s₁ h₀ hruns _ (by rw [sma2_look]; exact progL_sem_mid)
    h (-1) (by omega) (by omega) (Or.inr (by rw [sma2_look, hlen]; decide))

end Hex.LifeWitness

#print axioms Hex.trim_idem
#print axioms Hex.lifeRunFrom_ok
#print axioms Hex.lifeInv_append
#print axioms Hex.lifeInv_calcIndex
#print axioms Hex.lifeInv_runs
#print axioms Hex.program_invariant_lifespan
#print axioms Hex.program_converges_lifespan
#print axioms Hex.program_converges_lifespan_iff
#print axioms Hex.program_converges_lifespan_nopurge
#print axioms Hex.lifeSem_suffix
#print axioms Hex.purge_gives_held
#print axioms Hex.recalculate_eq_batch_held
#print axioms Hex.calculate_idempotent_lifespan
#print axioms Hex.calculateIndex_lifespan
#print axioms Hex.trim_append_compose
#print axioms Hex.recalculate_eq_batch_sameCfg
#print axioms Hex.LifeWitness.final_ne_tail
#print axioms Hex.LifeWitness.recalculate_not_reproduces
#print axioms Hex.LifeWitness.append_ne_batch_sameCfg
#print axioms Hex.LifeWitness.progL_runs
#print axioms Hex.LifeWitness.progL_sem

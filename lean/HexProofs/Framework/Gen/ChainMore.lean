import HexProofs.Framework.Gen.ChainMoreComposites
import HexProofs.Framework.Gen.ChainMoreSources
import HexProofs.Framework.Gen.ChainMoreHMA
import HexProofs.Framework.Gen.ChainMoreSTOCH
import HexProofs.Framework.Gen.ChainMoreTSI
import HexProofs.Framework.Gen.ChainMoreW
/-
Indicator-on-indicator inputs, part 2 (C01 / C02) – the theorems.

`MemberVia rk name k`: the kind `k`, as the member `mkTop k name round` of a Hexital, is available as a lawful
component that reads – besides the bare candles and its own names – only entries under the keys `rk`:

  * `rk = []`     – a SOURCE: every input is a candle attribute (or the class takes none);
  * `rk = [main]` – a DEPENDENT over the entry `main` written by an earlier member: `input_value = main` or a
                    dotted field `main.field` (`InputVia.ofInput`), `main` not among the member's own names.

Covered as a dependent AND as a source – every class that takes an `input_value` (or reading names): SMA, EMA, RMA,
WMA, ROC, Counter, Amorph (all 20 wrapped functions), STDEV, RSI, MACD, KC, BBANDS, STDEVTHRES, HMA, STOCH, TSI.
Covered as a source (the class reads candle attributes only): TR, HLA, OBV, VWMA, HighestLowest, Aroon, Donchian,
ATR, VWAP, Supertrend (its `input_value` is never read), ADX.  That is all 27 shipped classes.

Theorems (any timeframe, gap filling off or on; `MgrSpec` versions too):
  * `C01_pair_more`, `C01_pair_more_spec`   – source + dependent on the same manager: live = row-major spec = batch;
  * `C01_chain_more`, `C01_chain_more_tf`   – chains of any length (`CoveredChain`);
  * `C02_pair_more`, `C02_chain_more`       – closed candles are final.
-/
namespace Hex.Chain
set_option linter.unusedSectionVars false
set_option linter.unusedSimpArgs false
set_option linter.unusedVariables false
set_option linter.unnecessarySeqFocus false
variable {F : Type} [PyF F]

/-- the reading names of a wrapped analysis function are candle attributes or address an entry under `rk`
other than the wrapper's own -/
def AmorphIn (rk : List String) (name : String) (a : Analysis) : Prop :=
  ∀ nm ∈ a.names, AttrInput nm ∨ ∃ main ∈ rk, InputOf main nm ∧ name ≠ main

theorem AmorphIn.sees {rk : List String} {name : String} {a : Analysis} (h : AmorphIn rk name a) :
    ∀ nm ∈ a.names, Sees F (name :: rk) nm := by
  intro nm hnm
  rcases h nm hnm with ha | ⟨main, hm, hin, _⟩
  · exact sees_attr _ _ ha.1 ha.2
  · exact hin.sees _ (List.mem_cons_of_mem _ hm)

theorem AmorphIn.indepP {rk : List String} {name : String} {a : Analysis} (h : AmorphIn rk name a) :
    ∀ nm ∈ a.names, IndepP F name nm := by
  intro nm hnm
  rcases h nm hnm with ha | ⟨main, _, hin, hne⟩
  · exact indepP_attr _ _ ha.1 ha.2
  · exact hin.indepP name hne

/-- **Members covered as lawful components reading through `rk`** (see the file header). -/
inductive MemberVia (rk : List String) (name : String) : Kind F → Prop
  | leaf (inp : String) (k : Kind F) : DepKind (F := F) inp k → IsKey name → InputVia F rk inp [name] →
      MemberVia rk name k
  | counter (inp : String) (cv : Scalar F) : IsKey name → InputVia F rk inp [name] → MemberVia rk name (.counter inp cv)
  | amorph (a : Analysis) : AmorphIn rk name a → MemberVia rk name (.amorph a)
  | tr : MemberVia rk name .tr
  | hla : MemberVia rk name .hla
  | obv : IsKey name → MemberVia rk name .obv
  | vwma (p : Int) : 1 ≤ p → IsKey name → MemberVia rk name (.vwma p)
  | hl (p : Int) : MemberVia rk name (.hl p)
  | aroon (p : Int) : 0 ≤ p → MemberVia rk name (.aroon p)
  | donchian (p : Int) : 1 ≤ p → DonchianNames name → MemberVia rk name (.donchian p)
  | atr (p : Int) : 1 ≤ p → AtrNames name → IsKey name → MemberVia rk name (.atr p)
  | vwap (p : Int) : VwapNames name → MemberVia rk name (.vwap p)
  | stdev (p : Int) (inp : String) : 0 ≤ p → StdevNames name → InputVia F rk inp [name, name ++ "_data"] →
      MemberVia rk name (.stdev p inp)
  | rsi (p : Int) (inp : String) : 0 ≤ p → RsiNames name → IsKey name → InputVia F rk inp [name, name ++ "_data"] →
      MemberVia rk name (.rsi p inp)
  | macd (fast slow signal : Int) (inp : String) : 1 ≤ fast → 1 ≤ slow → 1 ≤ signal → MacdNames name →
      InputVia F rk inp [name, name ++ "_EMA_fast", name ++ "_EMA_slow", name ++ "_signal_line"] →
      MemberVia rk name (.macd fast slow signal inp)
  | kc (p : Int) (inp : String) (m : Num F) : 1 ≤ p → KcNames name →
      InputVia F rk inp [name, name ++ "_ATR", name ++ "_ATR" ++ "_TR", name ++ "_EMA"] → MemberVia rk name (.kc p inp m)
  | bbands (p : Int) (inp : String) : 1 ≤ p → BbNames name →
      InputVia F rk inp [name, name ++ "_STDEV", name ++ "_STDEV" ++ "_data", name ++ "_SMA"] →
      MemberVia rk name (.bbands p inp)
  | stdevthres (p : Int) (inp : String) (m : Num F) : 0 ≤ p → ThresNames name →
      InputVia F rk inp [name, name ++ "_stdev", name ++ "_stdev" ++ "_data"] → MemberVia rk name (.stdevthres p inp m)
  | hma (p : Int) (inp : String) : 2 ≤ p → HmaNames name →
      InputVia F rk inp [name, name ++ "_WMA", name ++ "_WMAh", name ++ "_HMAr", name ++ "_HMAs"] →
      MemberVia rk name (.hma p inp)
  | stoch (p slow smoothK : Int) (inp : String) : 2 ≤ p → 1 ≤ slow → 1 ≤ smoothK → StochNames name →
      InputVia F rk inp [name, name ++ "_data", name ++ "_k", name ++ "_d"] → MemberVia rk name (.stoch p slow smoothK inp)
  | supertrend (p : Int) (inp : String) (m : Num F) : 1 ≤ p → StNames name → MemberVia rk name (.supertrend p inp m)
  | tsi (p smooth : Int) (inp : String) : 1 ≤ p → 1 ≤ smooth → TsiNames name →
      InputVia F rk inp [name, name ++ "_data", name ++ "_first", name ++ "_second", name ++ "_abs_first",
        name ++ "_abs_second"] → MemberVia rk name (.tsi p smooth inp)
  | adx (p signal : Int) : 1 ≤ p → 1 ≤ signal → AdxNames name → MemberVia rk name (.adx p signal)

theorem readsWithin_of_own {A : Ind F} {S : TreeComp A} {rk : List String} (h : S.ReadsWithin A.allNames) :
    S.toW.ReadsWithin (rk ++ A.allNames) := fun k hk => List.mem_append_right _ (h k hk)

/-- **every covered member is a lawful component reading within `rk` and its own names** -/
theorem MemberVia.comp {rk : List String} {name : String} {k : Kind F} (h : MemberVia rk name k) (round : Nat) :
    ∃ S : TreeCompW (mkTop k name round), S.ReadsWithin (rk ++ (mkTop k name round).allNames) := by
  cases h with
  | leaf inp k d hname hv =>
    refine ⟨(TreeComp.ofLeaf _ (d.isLeaf name round)
      (d.contractG _ (mkTop_kind _ _ _) (by rw [mkTop_name]; exact hname) rk
        (by rw [mkTop_name]; exact hv.sees _ (fun k hk => List.mem_cons_of_mem _ hk))
        (by rw [mkTop_name]; exact hv.indep name (by simp)))).toW, ?_⟩
    intro k' hk'
    have := TreeComp.ofLeaf_reads _ (d.isLeaf name round)
      (d.contractG _ (mkTop_kind _ _ _) (by rw [mkTop_name]; exact hname) rk
        (by rw [mkTop_name]; exact hv.sees _ (fun k hk => List.mem_cons_of_mem _ hk))
        (by rw [mkTop_name]; exact hv.indep name (by simp))) k' hk'
    rw [DepKind.contractG_rkeys, mkTop_name] at this
    rw [allNames_leaf _ (d.isLeaf name round), mkTop_name]
    simp only [List.mem_cons, List.mem_append, List.not_mem_nil, or_false] at this ⊢
    tauto
  | counter inp cv hname hv =>
    refine ⟨(leafTopComp (.counter inp cv) name round rfl rfl
      (counterTG _ inp cv (mkTop_kind _ _ _) hname rk (hv.sees _ (fun k hk => List.mem_cons_of_mem _ hk))
        (hv.indep name (by simp)))).toW, ?_⟩
    intro k' hk'
    rw [allNames_leafTop _ name round rfl rfl]
    have : k' ∈ name :: rk := hk'
    simp only [List.mem_cons, List.mem_append, List.not_mem_nil, or_false] at this ⊢
    tauto
  | amorph a ha =>
    refine ⟨(leafTopComp (.amorph a) name round rfl rfl
      (amorphTG _ a (mkTop_kind _ _ _) rk ha.sees ha.indepP)).toW, ?_⟩
    intro k' hk'
    rw [allNames_leafTop _ name round rfl rfl]
    have : k' ∈ name :: rk := hk'
    simp only [List.mem_cons, List.mem_append, List.not_mem_nil, or_false] at this ⊢
    tauto
  | tr =>
    refine ⟨(leafTopComp .tr name round rfl rfl (trT _ (mkTop_kind _ _ _))).toW, ?_⟩
    intro k' hk'
    rw [allNames_leafTop _ name round rfl rfl]
    exact List.mem_append_right _ hk'
  | hla =>
    refine ⟨(leafTopComp .hla name round rfl rfl (hlaT _ (mkTop_kind _ _ _))).toW, ?_⟩
    intro k' hk'
    rw [allNames_leafTop _ name round rfl rfl]
    exact List.mem_append_right _ hk'
  | obv hname =>
    refine ⟨(leafTopComp .obv name round rfl rfl (obvT _ (mkTop_kind _ _ _) hname)).toW, ?_⟩
    intro k' hk'
    rw [allNames_leafTop _ name round rfl rfl]
    exact List.mem_append_right _ hk'
  | vwma p hp hname =>
    refine ⟨(leafTopComp (.vwma p) name round rfl rfl (vwmaT _ p (mkTop_kind _ _ _) hp hname)).toW, ?_⟩
    intro k' hk'
    rw [allNames_leafTop _ name round rfl rfl]
    exact List.mem_append_right _ hk'
  | hl p =>
    refine ⟨(leafTopComp (.hl p) name round rfl rfl (hlT _ p (mkTop_kind _ _ _))).toW, ?_⟩
    intro k' hk'
    rw [allNames_leafTop _ name round rfl rfl]
    exact List.mem_append_right _ hk'
  | aroon p hp =>
    refine ⟨(leafTopComp (.aroon p) name round rfl rfl (aroonT _ p (mkTop_kind _ _ _) hp)).toW, ?_⟩
    intro k' hk'
    rw [allNames_leafTop _ name round rfl rfl]
    exact List.mem_append_right _ hk'
  | donchian p hp hn =>
    refine ⟨(leafTopComp (.donchian p) name round rfl rfl (donchianT _ p (mkTop_kind _ _ _) hp hn)).toW, ?_⟩
    intro k' hk'
    rw [allNames_leafTop _ name round rfl rfl]
    exact List.mem_append_right _ hk'
  | atr p hp hn hname =>
    exact ⟨(atrTreeComp name round p hp hn hname).toW, readsWithin_of_own (atrTreeComp_reads name round p hp hn hname)⟩
  | vwap p hn =>
    exact ⟨(vwapTopComp name round p hn).toW, readsWithin_of_own (vwapTopComp_reads name round p hn)⟩
  | stdev p inp hp hn hv =>
    refine ⟨(stdevTopComp name round p inp hp hn rk hv).toW, ?_⟩
    intro k' hk'
    have := stdevTopComp_reads name round p inp hp hn rk hv k' hk'
    rw [allNames_stdevTop]
    simp only [List.mem_cons, List.mem_append, List.not_mem_nil, or_false] at this ⊢
    tauto
  | rsi p inp hp hn hname hv =>
    refine ⟨(rsiTopComp name round p inp hp hn hname rk hv).toW, ?_⟩
    intro k' hk'
    have := rsiTopComp_reads name round p inp hp hn hname rk hv k' hk'
    rw [allNames_rsiTop]
    simp only [List.mem_cons, List.mem_append, List.not_mem_nil, or_false] at this ⊢
    tauto
  | macd fast slow signal inp hf hs hg hn hv =>
    exact ⟨(macdTreeCompG name round fast slow signal inp hf hs hg hn rk hv).toW,
      macdTreeCompG_reads name round fast slow signal inp hf hs hg hn rk hv⟩
  | kc p inp m hp hn hv =>
    exact ⟨(kcTreeCompG name round p inp m hp hn rk hv).toW, kcTreeCompG_reads name round p inp m hp hn rk hv⟩
  | bbands p inp hp hn hv =>
    exact ⟨(bbTreeCompG name round p inp hp hn rk hv).toW, bbTreeCompG_reads name round p inp hp hn rk hv⟩
  | stdevthres p inp m hp hn hv =>
    exact ⟨(thTreeCompG name round p inp m hp hn rk hv).toW, thTreeCompG_reads name round p inp m hp hn rk hv⟩
  | hma p inp hp hn hv =>
    exact ⟨hmaTreeCompW name round p inp hp hn rk hv, hmaTreeCompW_reads name round p inp hp hn rk hv⟩
  | stoch p slow smoothK inp hp hs hk hn hv =>
    exact ⟨(stochTreeCompG name round p slow smoothK inp rk hn hs hk hv hp).toW,
      stochTreeCompG_reads name round p slow smoothK inp rk hn hs hk hv hp⟩
  | supertrend p inp m hp hn =>
    exact ⟨(stTreeComp name round p inp m hp hn).toW, readsWithin_of_own (stTreeComp_reads name round p inp m hp hn)⟩
  | tsi p smooth inp hp hs hn hv =>
    exact ⟨(tsiTreeCompG name round p smooth inp rk hp hs hn hv).toW,
      tsiTreeCompG_reads name round p smooth inp rk hp hs hn hv⟩
  | adx p signal hp hs hn =>
    exact ⟨(adxTreeComp name round p signal hp hs hn).toW, readsWithin_of_own (adxTreeComp_reads name round p signal hp hs hn)⟩

theorem MemberVia.mono {rk rk' : List String} {name : String} {k : Kind F} (h : MemberVia rk name k) (round : Nat)
    (hsub : ∀ x ∈ rk, x ∈ rk') :
    ∃ S : TreeCompW (mkTop k name round), S.ReadsWithin (rk' ++ (mkTop k name round).allNames) := by
  obtain ⟨S, hS⟩ := h.comp round
  refine ⟨S, hS.mono ?_⟩
  intro x hx
  rcases List.mem_append.1 hx with h1 | h1
  · exact List.mem_append_left _ (hsub x h1)
  · exact List.mem_append_right _ h1

/-! ### the old `ChainSource` / `DepKind` are instances -/

/-- a dependent over another member's output `main` (or a dotted field of it): `InputVia.ofInput` -/
abbrev DepVia (main name : String) (k : Kind F) : Prop := MemberVia (F := F) [main] name k

/-- a source: every input a candle attribute -/
abbrev SrcVia (name : String) (k : Kind F) : Prop := MemberVia (F := F) [] name k

/-! ### chains of covered members -/

/-- **A chain of covered members**: `mkTop k name round` registered in this order on one manager; every member
reads (through `rk`) only entries written by EARLIER members (`rk ⊆ pre`), and no name occurs in two members. -/
inductive CoveredChain : List String → List (Ind F) → Prop
  | single (pre rk : List String) (name : String) (k : Kind F) (round : Nat) :
      MemberVia rk name k → (∀ x ∈ rk, x ∈ pre) → CoveredChain pre [mkTop k name round]
  | cons (pre rk : List String) (name : String) (k : Kind F) (round : Nat) (t' : Ind F) (r : List (Ind F)) :
      MemberVia rk name k → (∀ x ∈ rk, x ∈ pre) →
      (∀ x ∈ pre ++ (mkTop k name round).allNames, x ∉ namesOf (t' :: r)) →
      CoveredChain (pre ++ (mkTop k name round).allNames) (t' :: r) →
      CoveredChain pre (mkTop k name round :: t' :: r)

theorem CoveredChain.comps {pre : List String} {ts : List (Ind F)} (h : CoveredChain pre ts) :
    Nonempty (ChainCompsW pre ts) := by
  induction h with
  | single pre rk name k round hm hsub =>
    obtain ⟨S, hS⟩ := hm.mono round hsub
    exact ⟨.single pre _ S hS⟩
  | cons pre rk name k round t' r hm hsub hdis _ ih =>
    obtain ⟨S, hS⟩ := hm.mono round hsub
    obtain ⟨rest⟩ := ih
    exact ⟨.cons pre _ t' r S hS hdis rest⟩

/-- the pair (source, dependent over `main`) as a covered chain -/
theorem CoveredChain.pair {nameA : String} {kA : Kind F} (hA : SrcVia nameA kA) (roundA : Nat)
    {main nameB : String} {kB : Kind F} (hB : DepVia main nameB kB) (roundB : Nat)
    (hmain : main ∈ (mkTop kA nameA roundA).allNames)
    (hdis : ∀ x ∈ (mkTop kA nameA roundA).allNames, x ∉ (mkTop kB nameB roundB).allNames) :
    CoveredChain [] [mkTop kA nameA roundA, mkTop kB nameB roundB] :=
  .cons [] [] nameA kA roundA _ [] hA (fun x hx => by cases hx)
    (by simpa [namesOf] using hdis)
    (.single _ [main] nameB kB roundB hB (fun x hx => by
      simp only [List.mem_singleton] at hx; subst hx; simpa using hmain))

/-! ### C01 -/

/-- **C01 for a chain of covered members, any manager** (`MgrSpec`: base timeframe, timeframe, timeframe + fill):
live = batch = the row-major run of the chain's spec over the manager spec of the stream. -/
theorem C01_chain_more {ts : List (Ind F)} (h : CoveredChain [] ts) (M : MgrSpec F) (tfn : Option String)
    (init : List (Candle F)) (chunks : List (List (Candle F))) (hok : M.Ok (init ++ chunks.flatten))
    (H : Hexital F) (hlive : chainRun ts M.cfg tfn init chunks = .ok H) :
    ∃ (c : ChainCompsW [] ts) (Hb : Hexital F) (cs : List (Candle F)),
      chainRun ts M.cfg tfn (init ++ chunks.flatten) [] = .ok Hb ∧
      Hb.managers = H.managers ∧ Hb.indicators.map regInfo = H.indicators.map regInfo ∧
      H.managers = [(defaultKey, { cfg := M.cfg, candles := cs })] ∧
      Gen.rowMajor (chainSpecW c).S (M.spec (init ++ chunks.flatten)) = .ok cs := by
  obtain ⟨c⟩ := h.comps
  obtain ⟨Hb, cs, h1, h2, h3, h4, h5⟩ := chainW_live_eq_batch c M tfn init chunks hok H hlive
  exact ⟨c, Hb, cs, h1, h2, h3, h4, h5⟩

/-- **C01 for a chain of covered members, any timeframe, gap filling off or on.** -/
theorem C01_chain_more_tf {ts : List (Ind F)} (h : CoveredChain [] ts) (tf : Option Int)
    (htf : ∀ t, tf = some t → 0 < t) (fill : Bool) (tfn : Option String) (init : List (Candle F))
    (chunks : List (List (Candle F))) (hraw : RawTf (init ++ chunks.flatten)) (H : Hexital F)
    (hlive : chainRun ts { tf := tf, fill := fill && tf.isSome } tfn init chunks = .ok H) :
    ∃ Hb, chainRun ts { tf := tf, fill := fill && tf.isSome } tfn (init ++ chunks.flatten) [] = .ok Hb ∧
      Hb.managers = H.managers ∧ Hb.indicators.map regInfo = H.indicators.map regInfo := by
  obtain ⟨c⟩ := h.comps
  exact chainW_live_eq_batch_tf c tf htf fill tfn init chunks hraw H hlive

/-- **C01 for a source member and a dependent member of ANY covered class** (the pair theorem): a `Hexital` holding
the source `A = mkTop kA nameA roundA` (`SrcVia`: any of the 27 classes over candle attributes) and the dependent
`B = mkTop kB nameB roundB` (`DepVia main`: SMA / EMA / RMA / WMA / ROC / Counter / Amorph / STDEV / RSI / MACD / KC /
BBANDS / STDEVTHRES / HMA / STOCH / TSI whose `input_value` is `main` or `main.field`), `main` a key written by `A`, names
disjoint; both on the Hexital's own manager, any timeframe, gap filling off or on.  Whenever the live history
(construction over `init`, `calculate()`, one `Hexital.append` per chunk) returns, the batch Hexital over the whole
stream returns with the same managers: same candles, same readings and helper series of both members. -/
theorem C01_pair_more (tf : Option Int) (htf : ∀ t, tf = some t → 0 < t) (fill : Bool)
    {nameA : String} {kA : Kind F} (hA : SrcVia nameA kA) (roundA : Nat)
    {main nameB : String} {kB : Kind F} (hB : DepVia main nameB kB) (roundB : Nat)
    (hmain : main ∈ (mkTop kA nameA roundA).allNames)
    (hdis : ∀ x ∈ (mkTop kA nameA roundA).allNames, x ∉ (mkTop kB nameB roundB).allNames)
    (tfn : Option String) (init : List (Candle F)) (chunks : List (List (Candle F)))
    (hraw : RawTf (init ++ chunks.flatten)) (H : Hexital F)
    (hlive : pairRun (mkTop kA nameA roundA) (mkTop kB nameB roundB) { tf := tf, fill := fill && tf.isSome }
      tfn init chunks = .ok H) :
    ∃ Hb, pairRun (mkTop kA nameA roundA) (mkTop kB nameB roundB) { tf := tf, fill := fill && tf.isSome }
        tfn (init ++ chunks.flatten) [] = .ok Hb ∧ Hb.managers = H.managers := by
  obtain ⟨Hb, hb, hm, _⟩ := C01_chain_more_tf (CoveredChain.pair hA roundA hB roundB hmain hdis) tf htf fill tfn
    init chunks hraw H hlive
  exact ⟨Hb, hb, hm⟩

/-- the pair theorem with the row-major spec spelled out, any `MgrSpec` -/
theorem C01_pair_more_spec {nameA : String} {kA : Kind F} (hA : SrcVia nameA kA) (roundA : Nat)
    {main nameB : String} {kB : Kind F} (hB : DepVia main nameB kB) (roundB : Nat)
    (hmain : main ∈ (mkTop kA nameA roundA).allNames)
    (hdis : ∀ x ∈ (mkTop kA nameA roundA).allNames, x ∉ (mkTop kB nameB roundB).allNames)
    (M : MgrSpec F) (tfn : Option String) (init : List (Candle F)) (chunks : List (List (Candle F)))
    (hok : M.Ok (init ++ chunks.flatten)) (H : Hexital F)
    (hlive : pairRun (mkTop kA nameA roundA) (mkTop kB nameB roundB) M.cfg tfn init chunks = .ok H) :
    ∃ (c : ChainCompsW [] [mkTop kA nameA roundA, mkTop kB nameB roundB]) (Hb : Hexital F) (cs : List (Candle F)),
      pairRun (mkTop kA nameA roundA) (mkTop kB nameB roundB) M.cfg tfn (init ++ chunks.flatten) [] = .ok Hb ∧
      Hb.managers = H.managers ∧ H.managers = [(defaultKey, { cfg := M.cfg, candles := cs })] ∧
      Gen.rowMajor (chainSpecW c).S (M.spec (init ++ chunks.flatten)) = .ok cs := by
  obtain ⟨c, Hb, cs, h1, h2, _, h4, h5⟩ := C01_chain_more (CoveredChain.pair hA roundA hB roundB hmain hdis) M tfn
    init chunks hok H hlive
  exact ⟨c, Hb, cs, h1, h2, h4, h5⟩

/-! ### C02 -/

/-- **C02 for a chain of covered members**: closed candles of an earlier snapshot of the default manager – with the
readings and helper series of every member – are a prefix of every later snapshot. -/
theorem C02_chain_more {ts : List (Ind F)} (h : CoveredChain [] ts) (tf : Option Int)
    (htf : ∀ t, tf = some t → 0 < t) (fill : Bool) (tfn : Option String) (init : List (Candle F))
    (chunks₁ chunks₂ : List (List (Candle F))) (hraw : RawTf (init ++ (chunks₁ ++ chunks₂).flatten))
    (H₁ H₂ : Hexital F)
    (h₁ : chainRun ts { tf := tf, fill := fill && tf.isSome } tfn init chunks₁ = .ok H₁)
    (h₂ : chainRun ts { tf := tf, fill := fill && tf.isSome } tfn init (chunks₁ ++ chunks₂) = .ok H₂) :
    ∃ cs₁ cs₂, H₁.managers = [(defaultKey, { cfg := { tf := tf, fill := fill && tf.isSome }, candles := cs₁ })] ∧
      H₂.managers = [(defaultKey, { cfg := { tf := tf, fill := fill && tf.isSome }, candles := cs₂ })] ∧
      closedOf tf cs₁ <+: cs₂ := by
  obtain ⟨c⟩ := h.comps
  exact chainW_closed_final c tf htf fill tfn init chunks₁ chunks₂ hraw H₁ H₂ h₁ h₂

/-- **C02 for a source member and a dependent member of any covered class.** -/
theorem C02_pair_more (tf : Option Int) (htf : ∀ t, tf = some t → 0 < t) (fill : Bool)
    {nameA : String} {kA : Kind F} (hA : SrcVia nameA kA) (roundA : Nat)
    {main nameB : String} {kB : Kind F} (hB : DepVia main nameB kB) (roundB : Nat)
    (hmain : main ∈ (mkTop kA nameA roundA).allNames)
    (hdis : ∀ x ∈ (mkTop kA nameA roundA).allNames, x ∉ (mkTop kB nameB roundB).allNames)
    (tfn : Option String) (init : List (Candle F)) (chunks₁ chunks₂ : List (List (Candle F)))
    (hraw : RawTf (init ++ (chunks₁ ++ chunks₂).flatten)) (H₁ H₂ : Hexital F)
    (h₁ : pairRun (mkTop kA nameA roundA) (mkTop kB nameB roundB) { tf := tf, fill := fill && tf.isSome } tfn init
      chunks₁ = .ok H₁)
    (h₂ : pairRun (mkTop kA nameA roundA) (mkTop kB nameB roundB) { tf := tf, fill := fill && tf.isSome } tfn init
      (chunks₁ ++ chunks₂) = .ok H₂) :
    ∃ cs₁ cs₂, H₁.managers = [(defaultKey, { cfg := { tf := tf, fill := fill && tf.isSome }, candles := cs₁ })] ∧
      H₂.managers = [(defaultKey, { cfg := { tf := tf, fill := fill && tf.isSome }, candles := cs₂ })] ∧
      closedOf tf cs₁ <+: cs₂ :=
  C02_chain_more (CoveredChain.pair hA roundA hB roundB hmain hdis) tf htf fill tfn init chunks₁ chunks₂ hraw H₁ H₂ h₁ h₂

end Hex.Chain

#print axioms Hex.Chain.MemberVia.comp
#print axioms Hex.Chain.C01_chain_more
#print axioms Hex.Chain.C01_chain_more_tf
#print axioms Hex.Chain.C01_pair_more
#print axioms Hex.Chain.C01_pair_more_spec
#print axioms Hex.Chain.C02_chain_more
#print axioms Hex.Chain.C02_pair_more

import HexProofs.Framework.Gen.TKinds
/-
Family (3a): Keltner Channel – prior helpers ATR (itself a node with a prior TR helper) and EMA,
read-only own reading.  Assembled from four keyed pieces with `TComp.seq`.
-/
namespace Hex
set_option linter.unusedSectionVars false
variable {F : Type} [PyF F]

/-! ### the engine on nodes with prior helpers and a read-only own reading -/

theorem updateAt_length (cs cs' : List (Candle F)) (i : Int) (g : Candle F → Candle F)
    (h : updateAt cs i g = .ok cs') : cs'.length = cs.length := by
  unfold updateAt at h
  simp only at h
  generalize (if i < 0 then (cs.length : Int) + i else i) = j at h
  by_cases hc : j < 0 ∨ j ≥ (cs.length : Int)
  · rw [if_pos hc] at h; cases h
  · rw [if_neg hc] at h; cases h; simp

theorem stepLeaf_length (Z : Ind F) (cs cs' : List (Candle F)) (i : Int) (h : stepLeaf Z cs i = .ok cs') :
    cs'.length = cs.length := by
  unfold stepLeaf at h
  cases hr : readKind Z.kind { cs := cs, i := i, name := Z.name } with
  | error e => rw [hr] at h; cases h
  | ok v =>
    rw [hr] at h
    simp only [bind, Except.bind, setReading_eq] at h
    exact updateAt_length _ _ _ _ h

theorem leafLoop_length (Z : Ind F) (n : Nat) :
    ∀ (cs cs' : List (Candle F)) (k : Nat), leafLoop Z cs k n = .ok cs' → cs'.length = cs.length := by
  induction n with
  | zero => intro cs cs' k h; rw [leafLoop] at h; cases h; rfl
  | succ n ih =>
    intro cs cs' k h
    rw [leafLoop] at h
    cases hc : pyIndex cs (k : Int) with
    | error e => rw [hc] at h; cases h
    | ok c =>
      rw [hc] at h
      simp only [bind, Except.bind] at h
      by_cases hp : present Z.name c = true
      · simp only [hp, if_true, pure, Except.pure] at h
        exact ih cs cs' (k + 1) h
      · simp only [hp, Bool.false_eq_true, if_false] at h
        cases hs : stepLeaf Z cs (k : Int) with
        | error e => rw [hs] at h; cases h
        | ok cs₁ =>
          rw [hs] at h
          rw [ih cs₁ cs' (k + 1) h, stepLeaf_length Z cs cs₁ _ hs]

theorem leafCalc_length (Z : Ind F) (cs cs' : List (Candle F)) (h : leafCalc Z cs = .ok cs') :
    cs'.length = cs.length := leafLoop_length Z _ cs cs' _ h

/-- `calculate()` of a read-only node with exactly one prior leaf helper, any sufficient fuel -/
theorem calculate_one_prior (N X : Ind F) (hs : N.subs = [X]) (hro : N.kind.readOnly = true)
    (hx : IsLeaf X) (hxs : X.isSub = true) (hxp : X.prior = true) (fuel : Nat) (cs : List (Candle F))
    (hf : cs.length + 4 ≤ fuel) :
    calculate fuel N cs = (do let cs₁ ← leafCalc X cs; leafCalc N cs₁) := by
  obtain ⟨f, rfl⟩ : ∃ f, fuel = (f + 2) + 1 := ⟨fuel - 3, by omega⟩
  rw [calculate_succ, hs, calcSubs_prior_one f X hxs hxp, calculate_leaf X hx (f + 1) cs (by omega)]
  simp only [bind, Except.bind]
  cases hc : leafCalc X cs with
  | error e => rfl
  | ok cs₁ =>
    simp only
    have hl := leafCalc_length X cs cs₁ hc
    rw [calcLoop_leaf N hro _ _ _ _ (by omega)]
    unfold leafCalc
    cases leafLoop N cs₁ (findCalcIndex N.name cs₁) (cs₁.length - findCalcIndex N.name cs₁) with
    | error e => rfl
    | ok cs₂ => simp only [calcSubs_post_one f X hxs hxp]

theorem calcSubs_prior_two (f : Nat) (A E : Ind F) (ha : A.priorCalc = true) (he : E.priorCalc = true)
    (cs : List (Candle F)) :
    calcSubs (f + 3) [A, E] true none cs = (do
      let cs₁ ← calculate (f + 2) A cs
      calculate (f + 1) E cs₁) := by
  rw [calcSubs]
  simp only [ha, beq_self_eq_true, if_true, bind, Except.bind]
  cases calculate (f + 2) A cs with
  | error e => rfl
  | ok cs₁ =>
    simp only
    rw [calcSubs]
    simp only [he, beq_self_eq_true, if_true, bind, Except.bind]
    cases calculate (f + 1) E cs₁ with
    | error e => rfl
    | ok cs₂ => simp only [calcSubs_nil]

theorem calcSubs_post_two (f : Nat) (A E : Ind F) (ha : A.priorCalc = true) (he : E.priorCalc = true)
    (cs : List (Candle F)) : calcSubs (f + 3) [A, E] false none cs = .ok cs := by
  rw [calcSubs]
  simp only [ha, Bool.true_eq_false, beq_iff_eq, if_false, bind, Except.bind, pure, Except.pure]
  rw [calcSubs]
  simp [he, bind, Except.bind, pure, Except.pure, calcSubs_nil]

end Hex

namespace Hex
set_option linter.unusedSectionVars false
variable {F : Type} [PyF F]

/-! ### Keltner Channel -/

/-- name conditions of a KC node: the three helper names are ordinary keys, all four names differ -/
structure KcNames (name : String) : Prop where
  kA : IsKey (name ++ "_ATR")
  kT : IsKey (name ++ "_ATR" ++ "_TR")
  kE : IsKey (name ++ "_EMA")
  nA : name ≠ name ++ "_ATR"
  nT : name ≠ name ++ "_ATR" ++ "_TR"
  nE : name ≠ name ++ "_EMA"
  AT : name ++ "_ATR" ≠ name ++ "_ATR" ++ "_TR"
  AE : name ++ "_ATR" ≠ name ++ "_EMA"
  TE : name ++ "_ATR" ++ "_TR" ≠ name ++ "_EMA"

section kc
variable (name : String) (round : Nat) (p : Int) (input : String) (m : Num F)

/-- the KC tree and its helpers -/
def kcP : Ind F := mkTop (.kc p input m) name round
def kcA : Ind F := atrNode p (name ++ "_ATR")
def kcT : Ind F := leaf .tr (name ++ "_ATR" ++ "_TR")
def kcE : Ind F := leaf (.ema p input (fl 2)) (name ++ "_EMA")

theorem kcP_subs : (kcP (F := F) name round p input m).subs = [kcA name p, kcE name p input] := rfl
theorem kcA_subs : (kcA (F := F) name p).subs = [kcT name] := rfl

/-- the engine on the KC tree: four passes -/
theorem engineCalc_kc (cs : List (Candle F)) :
    engineCalc (kcP (F := F) name round p input m) cs = (do
      let c₁ ← leafCalc (kcT name) cs
      let c₂ ← leafCalc (kcA name p) c₁
      let c₃ ← leafCalc (kcE name p input) c₂
      leafCalc (kcP name round p input m) c₃) := by
  unfold engineCalc fuelFor
  obtain ⟨f, hf⟩ : ∃ f, 16 + 2 * cs.length = f + 3 := ⟨13 + 2 * cs.length, by omega⟩
  rw [hf, calculate_succ, kcP_subs, calcSubs_prior_two f _ _ rfl rfl,
      calculate_one_prior (kcA name p) (kcT name) (kcA_subs name p) rfl ⟨rfl, rfl, rfl⟩ rfl rfl (f + 2) cs
        (by omega)]
  simp only [bind, Except.bind]
  cases h1 : leafCalc (kcT (F := F) name) cs with
  | error e => rfl
  | ok c₁ =>
    simp only
    have l1 := leafCalc_length _ cs c₁ h1
    cases h2 : leafCalc (kcA (F := F) name p) c₁ with
    | error e => rfl
    | ok c₂ =>
      simp only
      have l2 := leafCalc_length _ c₁ c₂ h2
      rw [calculate_leaf (kcE name p input) ⟨rfl, rfl, rfl⟩ (f + 1) c₂ (by omega)]
      cases h3 : leafCalc (kcE (F := F) name p input) c₂ with
      | error e => rfl
      | ok c₃ =>
        simp only
        have l3 := leafCalc_length _ c₂ c₃ h3
        rw [calcLoop_leaf (kcP name round p input m) rfl _ _ _ _ (by omega)]
        unfold leafCalc
        cases leafLoop (kcP name round p input m) c₃ (findCalcIndex (kcP (F := F) name round p input m).name c₃)
            (c₃.length - findCalcIndex (kcP (F := F) name round p input m).name c₃) with
        | error e => rfl
        | ok c₄ => simp only [calcSubs_post_two f (kcA name p) (kcE name p input) rfl rfl]

theorem kcP_name : (kcP (F := F) name round p input m).name = name := mkTop_name _ _ _

/-- the four pieces -/
def kcCompT : TComp F := leafComp (kcT name) (trT _ rfl)
def kcCompA (hp : 1 ≤ p) (hn : KcNames name) : TComp F :=
  leafComp (kcA name p) (atrOwnT _ p rfl hp hn.kA hn.kT hn.AT)
def kcCompE (hp : 1 ≤ p) (hn : KcNames name) (hin : NoDot input ∧ input ∈ Candle.attrNames) : TComp F :=
  leafComp (kcE name p input) (emaT _ p input (fl 2) rfl hp hn.kE hin)
def kcCompP (hn : KcNames name) : TComp F :=
  leafComp (kcP name round p input m) (kcOwnT _ p input m (mkTop_kind _ _ _)
    (by rw [kcP_name]; exact hn.kE) (by rw [kcP_name]; exact hn.kA)
    (by rw [kcP_name]; exact hn.nE) (by rw [kcP_name]; exact hn.nA))

/-- the whole KC tree as a component: (TR; ATR-own); (EMA; KC-own) -/
def kcComp (hp : 1 ≤ p) (hn : KcNames name) (hin : NoDot input ∧ input ∈ Candle.attrNames) : TComp F :=
  TComp.seq (TComp.seq (kcCompT name) (kcCompA name p hp hn))
    (TComp.seq (kcCompE name p input hp hn hin) (kcCompP name round p input m hn))

end kc
end Hex

namespace Hex
set_option linter.unusedSectionVars false
variable {F : Type} [PyF F]

section kc2
variable (name : String) (round : Nat) (p : Int) (input : String) (m : Num F)
  (hp : 1 ≤ p) (hn : KcNames name) (hin : NoDot input ∧ input ∈ Candle.attrNames)

theorem kcT_name : (kcT (F := F) name).name = name ++ "_ATR" ++ "_TR" := rfl
theorem kcA_name : (kcA (F := F) name p).name = name ++ "_ATR" := rfl
theorem kcE_name : (kcE (F := F) name p input).name = name ++ "_EMA" := rfl

theorem kcComp_law : TComp.Law (kcComp (F := F) name round p input m hp hn hin) := by
  unfold kcComp
  refine TComp.seq_law (TComp.seq_law (leafComp_law _ _) (leafComp_law _ _) ?_)
    (TComp.seq_law (leafComp_law _ _) (leafComp_law _ _) ?_) ?_
  · constructor <;> intro k hk <;>
      simp [kcCompT, kcCompA, leafComp, trT, atrOwnT, kcT_name, kcA_name] at hk ⊢ <;>
      rintro rfl <;>
      simp [hn.nA, hn.nT, hn.nE, hn.AT, hn.AE, hn.TE, hn.nA.symm, hn.nT.symm, hn.nE.symm, hn.AT.symm,
        hn.AE.symm, hn.TE.symm] at hk
  · constructor <;> intro k hk <;>
      simp [kcCompE, kcCompP, leafComp, emaT, kcOwnT, kcE_name, kcP_name] at hk ⊢ <;>
      rintro rfl <;>
      simp [hn.nA, hn.nT, hn.nE, hn.AT, hn.AE, hn.TE, hn.nA.symm, hn.nT.symm, hn.nE.symm, hn.AT.symm,
        hn.AE.symm, hn.TE.symm] at hk
  · constructor <;> intro k hk <;>
      simp [TComp.seq, kcCompT, kcCompA, kcCompE, kcCompP, leafComp, trT, atrOwnT, emaT, kcOwnT, kcT_name,
        kcA_name, kcE_name, kcP_name] at hk ⊢ <;>
      constructor <;> rintro rfl <;>
      simp [hn.nA, hn.nT, hn.nE, hn.AT, hn.AE, hn.TE, hn.nA.symm, hn.nT.symm, hn.nE.symm, hn.AT.symm,
        hn.AE.symm, hn.TE.symm] at hk

theorem allNames_kc : (kcP (F := F) name round p input m).allNames
    = [name, name ++ "_ATR", name ++ "_ATR" ++ "_TR", name ++ "_EMA"] := by
  simp [kcP, mkTop, children, Ind.allNames_eq, atrNode, leaf, Ind.name, Ind.subs, Ind.managed]

/-- **Keltner Channel as a tree with a row-major spec.** -/
def kcTree : TreeSpec (kcP (F := F) name round p input m) :=
  TreeSpec.ofComp (kcComp name round p input m hp hn hin) (kcComp_law name round p input m hp hn hin)
    (fun c hc => (kcComp_law name round p input m hp hn hin).raw_of c (fun k _ => hasKey_plain k c hc))
    (by
      intro k hk
      rw [allNames_kc]
      simp [kcComp, TComp.seq, kcCompT, kcCompA, kcCompE, kcCompP, leafComp, kcT_name, kcA_name, kcE_name,
        kcP_name] at hk ⊢
      rcases hk with h | h | h | h <;> simp [h])
    (by
      intro cs
      rw [engineCalc_kc]
      show _ = (do
        let cs₁ ← (do let c ← leafCalc (kcT name) cs; leafCalc (kcA name p) c)
        (do let c ← leafCalc (kcE name p input) cs₁; leafCalc (kcP name round p input m) c))
      cases leafCalc (kcT (F := F) name) cs with
      | error e => rfl
      | ok c₁ =>
        simp only [bind, Except.bind])

end kc2
end Hex

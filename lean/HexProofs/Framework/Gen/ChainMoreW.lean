import HexProofs.Framework.Gen.ChainHex
/-
Indicator-on-indicator inputs, part 2: the chain machinery of Gen/Chain.lean / Gen/ChainHex.lean with the
WEAKER pass equation that the composites driving managed children at index 0 (HMA) satisfy: the engine of
a tree equals the pass of its component on the lists the framework meets – a history the component is
settled on, followed by candles that are raw for it – not on every list.  `EngCompW` (`TreeCompW A`),
its sequencing `EngCompW.seq`, its row-major spec `EngCompW.spec : EngSpec …`, chains `ChainCompsW`, and
the Hexital-level theorems

  * `chainW_live_eq_batch`  – C01: live history = batch Hexital = row-major run of the chain's spec;
  * `chainW_closed_final`   – C02: closed candles of an earlier snapshot are a prefix of every later one;
  * `EngSpec.base_prefix`, `EngSpec.closed_prefix`.

Every `EngComp` (universal pass equation) is an `EngCompW` (`EngComp.toW`).
-/
namespace Hex.Chain
set_option linter.unusedSectionVars false
set_option linter.unusedSimpArgs false
set_option linter.unusedVariables false
variable {F : Type} [PyF F]

/-- an engine that is the pass of a lawful tolerant component ON SETTLED-THEN-RAW LISTS -/
structure EngCompW (E : List (Candle F) → PyM (List (Candle F))) (names : List String) where
  X : TComp F
  law : TComp.Law X
  pass_eq : ∀ H R, X.Settled H → (∀ r ∈ R, X.Raw r) → E (H ++ R) = X.pass (H ++ R)
  wnames : ∀ k ∈ X.wkeys, k ∈ names

def EngCompW.ReadsWithin {E : List (Candle F) → PyM (List (Candle F))} {names : List String}
    (S : EngCompW E names) (rs : List String) : Prop := ∀ k ∈ S.X.rkeys, k ∈ rs

theorem EngCompW.ReadsWithin.mono {E : List (Candle F) → PyM (List (Candle F))} {names : List String}
    {S : EngCompW E names} {r r' : List String} (h : S.ReadsWithin r) (hsub : ∀ k ∈ r, k ∈ r') :
    S.ReadsWithin r' := fun k hk => hsub k (h k hk)

/-- a tree as a lawful component on the lists the framework meets -/
abbrev TreeCompW (A : Ind F) := EngCompW (engineCalc A) A.allNames

/-- the universal pass equation implies the weak one -/
def EngComp.toW {E : List (Candle F) → PyM (List (Candle F))} {names : List String} (S : EngComp E names) :
    EngCompW E names where
  X := S.X
  law := S.law
  pass_eq := fun H R _ _ => S.pass_eq (H ++ R)
  wnames := S.wnames

theorem EngComp.toW_reads {E : List (Candle F) → PyM (List (Candle F))} {names : List String} (S : EngComp E names)
    {rs : List String} (h : S.ReadsWithin rs) : S.toW.ReadsWithin rs := h

section seq
variable {E₁ E₂ : List (Candle F) → PyM (List (Candle F))} {n₁ n₂ : List String}

/-- **Chaining** -/
def EngCompW.seq (S₁ : EngCompW E₁ n₁) (S₂ : EngCompW E₂ n₂) (hok : TComp.SeqOK S₁.X S₂.X) :
    EngCompW (engSeq E₁ E₂) (n₁ ++ n₂) where
  X := TComp.seq S₁.X S₂.X
  law := TComp.seq_law S₁.law S₂.law hok
  pass_eq := by
    intro H R hs hR
    show (do let c ← E₁ (H ++ R); E₂ c) = (do let c ← S₁.X.pass (H ++ R); S₂.X.pass c)
    rw [S₁.pass_eq H R hs.1 (fun r hr => (hR r hr).1)]
    cases hL : S₁.X.pass (H ++ R) with
    | error e => rfl
    | ok L =>
      simp only [bind, Except.bind]
      have hrow := (S₁.law.pass_iff H R L hs.1 (fun r hr => (hR r hr).1)).1 hL
      obtain ⟨T, hT, hdT⟩ := TComp.rowFrom_shape S₁.X R H L hrow
      subst hT
      refine S₂.pass_eq H T hs.2 ?_
      intro t ht
      obtain ⟨r, hr, x, rfl⟩ := TComp.forall₂_mem_right' hdT t ht
      exact (hR r hr).2.2 x
  wnames := by
    intro k hk
    rcases List.mem_append.1 hk with h | h
    · exact List.mem_append_left _ (S₁.wnames k h)
    · exact List.mem_append_right _ (S₂.wnames k h)

theorem seqOK_of_namesW (S₁ : EngCompW E₁ n₁) (S₂ : EngCompW E₂ n₂) {r₁ : List String}
    (h₁ : S₁.ReadsWithin r₁) (hr : ∀ k ∈ r₁, k ∉ n₂) (hw : ∀ k ∈ n₁, k ∉ n₂) : TComp.SeqOK S₁.X S₂.X :=
  ⟨fun k hk h => hr k (h₁ k hk) (S₂.wnames k h), fun k hk h => hw k (S₁.wnames k hk) (S₂.wnames k h)⟩

end seq

/-- the row-major spec of such an engine -/
def EngCompW.spec {E : List (Candle F) → PyM (List (Candle F))} {names : List String} (C : EngCompW E names) :
    EngSpec E names where
  S := C.X.spec names
  law := TComp.stepLaw C.law names (fun c hc => C.law.raw_of c (fun k _ => hasKey_plain k c hc)) C.wnames
  names_eq := rfl
  engine := by
    intro raw₁ raw₂ done out h₁ hp₁ hp₂
    rw [Gen.rowMajor_append, h₁]
    simp only [bind, Except.bind]
    have hs : C.X.Settled done :=
      (Gen.rowMajor_shape (TComp.stepLaw C.law names
        (fun c hc => C.law.raw_of c (fun k _ => hasKey_plain k c hc)) C.wnames) raw₁ done hp₁ h₁).2
    have hraw : ∀ r ∈ raw₂, C.X.Raw r := fun r hr => C.law.raw_of r (fun k _ => hasKey_plain k r (hp₂ r hr))
    rw [TComp.rowFrom_spec, C.pass_eq done raw₂ hs hraw]
    exact C.law.pass_iff done raw₂ out hs hraw

/-- the same component for an extensionally equal engine and a larger name list -/
def EngCompW.retag {E E' : List (Candle F) → PyM (List (Candle F))} {n n' : List String} (S : EngCompW E n)
    (hE : ∀ cs, E' cs = E cs) (hn : ∀ k ∈ n, k ∈ n') : EngCompW E' n' where
  X := S.X
  law := S.law
  pass_eq := fun H R hs hR => (hE _).trans (S.pass_eq H R hs hR)
  wnames := fun k hk => hn k (S.wnames k hk)

/-- **A chain of members given as components** (as `ChainComps`, weak pass equation) -/
inductive ChainCompsW : List String → List (Ind F) → Type 1
  | single (pre : List String) (t : Ind F) (S : TreeCompW t) (hr : S.ReadsWithin (pre ++ t.allNames)) :
      ChainCompsW pre [t]
  | cons (pre : List String) (t t' : Ind F) (r : List (Ind F)) (S : TreeCompW t)
      (hr : S.ReadsWithin (pre ++ t.allNames)) (hdis : ∀ k ∈ pre ++ t.allNames, k ∉ namesOf (t' :: r))
      (rest : ChainCompsW (pre ++ t.allNames) (t' :: r)) : ChainCompsW pre (t :: t' :: r)

/-- the whole chain as one lawful component -/
def ChainCompsW.comp : {pre : List String} → {ts : List (Ind F)} → ChainCompsW pre ts →
    EngCompW (chainEngine ts) (namesOf ts)
  | _, _, .single _ t S _ =>
    S.retag (chainEngine_single t) (fun k hk => by simp [namesOf, hk])
  | _, _, .cons pre t t' r S hr hdis rest =>
    (S.seq rest.comp (seqOK_of_namesW S rest.comp hr hdis
      (fun k hk => hdis k (List.mem_append_right _ hk)))).retag
      (chainEngine_cons t (t' :: r)) (fun k hk => by simpa [namesOf] using hk)

/-- **the row-major spec of a chain** -/
def chainSpecW {ts : List (Ind F)} (c : ChainCompsW [] ts) : EngSpec (chainEngine ts) (namesOf ts) := c.comp.spec

theorem ChainCompsW.nodup : ∀ {pre : List String} {ts : List (Ind F)}, ChainCompsW pre ts →
    (ts.map (·.name)).Nodup
  | _, _, .single _ t _ _ => by simp
  | _, _, .cons pre t t' r _ _ hdis rest => by
    rw [List.map_cons]
    refine List.nodup_cons.2 ⟨?_, rest.nodup⟩
    intro hm
    obtain ⟨u, hu, hn⟩ := List.mem_map.1 hm
    refine hdis t.name (List.mem_append_right _ t.name_mem_names) ?_
    unfold namesOf
    rw [List.mem_flatMap]
    exact ⟨u, hu, hn ▸ u.name_mem_names⟩

/-- every `ChainComps` is a `ChainCompsW` -/
def ChainComps.toW : {pre : List String} → {ts : List (Ind F)} → ChainComps pre ts → ChainCompsW pre ts
  | _, _, .single pre t S hr => .single pre t S.toW hr
  | _, _, .cons pre t t' r S hr hdis rest => .cons pre t t' r S.toW hr hdis rest.toW

/-! ### C01 for a chain -/

/-- **C01 for a chain of any length** on one manager (any `MgrSpec`), components with the weak pass equation. -/
theorem chainW_live_eq_batch {ts : List (Ind F)} (c : ChainCompsW [] ts) (M : MgrSpec F) (tfn : Option String)
    (init : List (Candle F)) (chunks : List (List (Candle F))) (hok : M.Ok (init ++ chunks.flatten))
    (H : Hexital F) (hlive : chainRun ts M.cfg tfn init chunks = .ok H) :
    ∃ Hb cs, chainRun ts M.cfg tfn (init ++ chunks.flatten) [] = .ok Hb ∧
      Hb.managers = H.managers ∧ Hb.indicators.map regInfo = H.indicators.map regInfo ∧
      H.managers = [(defaultKey, { cfg := M.cfg, candles := cs })] ∧
      Gen.rowMajor (chainSpecW c).S (M.spec (init ++ chunks.flatten)) = .ok cs := by
  obtain ⟨cs, inv, he⟩ := chainRun_ok c.nodup M.cfg tfn init chunks H hlive
  have hrow := (chainSpecW c).live_refines M init chunks hok cs he
  have hb := (chainSpecW c).live_eq_batch M init chunks hok cs he
  obtain ⟨Hb, hB, invb⟩ := chainRun_of c.nodup M.cfg tfn (init ++ chunks.flatten) [] cs hb
  exact ⟨Hb, cs, hB, invb.mgrs.trans inv.mgrs.symm, invb.inds.trans inv.inds.symm, inv.mgrs, hrow⟩

/-- the batch Hexital of a chain returns iff the row-major run of the chain's spec does -/
theorem chainW_batch_iff {ts : List (Ind F)} (c : ChainCompsW [] ts) (M : MgrSpec F) (tfn : Option String)
    (stream : List (Candle F)) (hok : M.Ok stream) (cs : List (Candle F)) :
    (∃ Hb, chainRun ts M.cfg tfn stream [] = .ok Hb ∧
        Hb.managers = [(defaultKey, { cfg := M.cfg, candles := cs })]) ↔
      Gen.rowMajor (chainSpecW c).S (M.spec stream) = .ok cs := by
  rw [← (chainSpecW c).batch_iff M stream hok cs]
  constructor
  · rintro ⟨Hb, h, hm⟩
    obtain ⟨cs', inv, he⟩ := chainRun_ok c.nodup M.cfg tfn stream [] Hb h
    have : cs' = cs := by
      have := inv.mgrs.symm.trans hm
      simp only [List.cons.injEq, Prod.mk.injEq, Manager.mk.injEq, true_and, and_true] at this
      exact this
    rw [← this]; exact he
  · intro h
    obtain ⟨Hb, hB, inv⟩ := chainRun_of c.nodup M.cfg tfn stream [] cs h
    exact ⟨Hb, hB, inv.mgrs⟩

/-! ### C02 for an engine / a chain -/

section closed
variable {E : List (Candle F) → PyM (List (Candle F))} {names : List String}

/-- base timeframe: the earlier snapshot is a prefix of the later one -/
theorem EngSpec.base_prefix (T : EngSpec E names) (a b snap₁ snap₂ : List (Candle F))
    (hp : ∀ c ∈ a ++ b, Plain c) (h₁ : Gen.rowMajor T.S a = .ok snap₁)
    (h₂ : Gen.rowMajor T.S (a ++ b) = .ok snap₂) : snap₁ <+: snap₂ := by
  obtain ⟨d, hd, hpre, _⟩ := Gen.rowMajor_prefix T.law a b snap₂ hp h₂
  rw [h₁] at hd; cases hd; exact hpre

/-- **Closed candles are final, generic in the manager**: all candles of the earlier snapshot but the last are
a prefix of the later snapshot. -/
theorem EngSpec.closed_prefix (T : EngSpec E names) (M : MgrSpec F) (s new snap₁ snap₂ : List (Candle F))
    (hok : M.Ok (s ++ new)) (h₁ : Gen.rowMajor T.S (M.spec s) = .ok snap₁)
    (h₂ : Gen.rowMajor T.S (M.spec (s ++ new)) = .ok snap₂) : snap₁.dropLast <+: snap₂ := by
  have hplainS := M.spec_plain s (M.ok_left _ _ hok)
  by_cases hnew : new = []
  · subst hnew
    simp only [List.append_nil] at h₂
    rw [h₁] at h₂; cases h₂
    exact List.dropLast_prefix _
  · obtain ⟨k, Q, hQ, hk, _, hres⟩ := M.append s new snap₁ hok hnew
      (Gen.rowMajor_shape T.law _ snap₁ hplainS h₁).1.dressed
    rw [hres] at h₂
    obtain ⟨d, hd, hpre, _⟩ := Gen.rowMajor_prefix T.law _ _ snap₂
      (fun c hc => by
        rcases List.mem_append.1 hc with h | h
        · exact hplainS c (List.mem_of_mem_take h)
        · exact hQ c h) h₂
    have hd' := Gen.rowMajor_take T.law _ snap₁ hplainS h₁ k
    rw [hd'] at hd
    cases hd
    refine List.IsPrefix.trans ?_ hpre
    rw [List.dropLast_eq_take]
    have : List.take (snap₁.length - 1) snap₁ = List.take (snap₁.length - 1) (List.take k snap₁) := by
      rw [List.take_take]; congr 1; omega
    rw [this]
    exact List.take_prefix _ _

end closed

/-- what is observed as closed: everything on the base timeframe, all but the last (still forming) bucket on a
collapsing one (verbatim `Hex.C02.closed` of HexProps/C02.lean) -/
def closedOf (tf : Option Int) (snap : List (Candle F)) : List (Candle F) :=
  match tf with
  | none => snap
  | some _ => snap.dropLast

/-- **C02 for a chain of any length**: any timeframe, gap filling off or on.  If the history
`init; calculate(); append chunks₁; append chunks₂` of the chain Hexital returns and so does its prefix, the
closed candles of the earlier default manager – with the readings and helper series of EVERY member – are a
prefix of the later one's. -/
theorem chainW_closed_final {ts : List (Ind F)} (c : ChainCompsW [] ts) (tf : Option Int)
    (htf : ∀ t, tf = some t → 0 < t) (fill : Bool) (tfn : Option String) (init : List (Candle F))
    (chunks₁ chunks₂ : List (List (Candle F))) (hraw : RawTf (init ++ (chunks₁ ++ chunks₂).flatten))
    (H₁ H₂ : Hexital F)
    (h₁ : chainRun ts { tf := tf, fill := fill && tf.isSome } tfn init chunks₁ = .ok H₁)
    (h₂ : chainRun ts { tf := tf, fill := fill && tf.isSome } tfn init (chunks₁ ++ chunks₂) = .ok H₂) :
    ∃ cs₁ cs₂, H₁.managers = [(defaultKey, { cfg := { tf := tf, fill := fill && tf.isSome }, candles := cs₁ })] ∧
      H₂.managers = [(defaultKey, { cfg := { tf := tf, fill := fill && tf.isSome }, candles := cs₂ })] ∧
      closedOf tf cs₁ <+: cs₂ := by
  have hraw' : RawTf ((init ++ chunks₁.flatten) ++ chunks₂.flatten) := by
    simpa [List.flatten_append, List.append_assoc] using hraw
  have hcfg := mgrSpecOf_cfg (F := F) tf htf fill
  rw [← hcfg] at h₁ h₂ ⊢
  have hok := mgrSpecOf_ok tf htf fill _ hraw'
  obtain ⟨cs₁, inv₁, he₁⟩ := chainRun_ok c.nodup _ tfn init chunks₁ H₁ h₁
  obtain ⟨cs₂, inv₂, he₂⟩ := chainRun_ok c.nodup _ tfn init (chunks₁ ++ chunks₂) H₂ h₂
  have r₁ := (chainSpecW c).live_refines (mgrSpecOf F tf htf fill) init chunks₁
    (mgrSpecOf_ok tf htf fill _ hraw'.append_left) cs₁ he₁
  have r₂ := (chainSpecW c).live_refines (mgrSpecOf F tf htf fill) init (chunks₁ ++ chunks₂)
    (mgrSpecOf_ok tf htf fill _ hraw) cs₂ he₂
  rw [List.flatten_append, ← List.append_assoc] at r₂
  refine ⟨cs₁, cs₂, inv₁.mgrs, inv₂.mgrs, ?_⟩
  cases tf with
  | none => exact (chainSpecW c).base_prefix _ _ cs₁ cs₂ hraw'.plain r₁ r₂
  | some t => exact (chainSpecW c).closed_prefix (mgrSpecOf F (some t) htf fill) _ _ cs₁ cs₂ hok r₁ r₂

/-- **C01 for a chain, any timeframe, gap filling off or on** -/
theorem chainW_live_eq_batch_tf {ts : List (Ind F)} (c : ChainCompsW [] ts) (tf : Option Int)
    (htf : ∀ t, tf = some t → 0 < t) (fill : Bool) (tfn : Option String) (init : List (Candle F))
    (chunks : List (List (Candle F))) (hraw : RawTf (init ++ chunks.flatten)) (H : Hexital F)
    (hlive : chainRun ts { tf := tf, fill := fill && tf.isSome } tfn init chunks = .ok H) :
    ∃ Hb, chainRun ts { tf := tf, fill := fill && tf.isSome } tfn (init ++ chunks.flatten) [] = .ok Hb ∧
      Hb.managers = H.managers ∧ Hb.indicators.map regInfo = H.indicators.map regInfo := by
  have hcfg := mgrSpecOf_cfg (F := F) tf htf fill
  rw [← hcfg] at hlive ⊢
  obtain ⟨Hb, _, hb, hm, hi, _⟩ := chainW_live_eq_batch c (mgrSpecOf F tf htf fill) tfn init chunks
    (mgrSpecOf_ok tf htf fill _ hraw) H hlive
  exact ⟨Hb, hb, hm, hi⟩

/-- the pair history is the chain history of two members -/
theorem pairRun_eq_chainRun (A B : Ind F) (cfg : MgrCfg) (tfn : Option String) (init : List (Candle F))
    (chunks : List (List (Candle F))) : pairRun A B cfg tfn init chunks = chainRun [A, B] cfg tfn init chunks := rfl

/-- the pair as a chain of two -/
def ChainCompsW.pair {A B : Ind F} (SA : TreeCompW A) (SB : TreeCompW B) (hclosed : SA.ReadsWithin A.allNames)
    (hB : SB.ReadsWithin (A.allNames ++ B.allNames)) (hdis : ∀ k ∈ A.allNames, k ∉ B.allNames) :
    ChainCompsW [] [A, B] :=
  .cons [] A B [] SA (by simpa using hclosed) (by simpa [namesOf] using hdis)
    (.single _ B SB (by simpa using hB))

end Hex.Chain

#print axioms Hex.Chain.chainW_live_eq_batch
#print axioms Hex.Chain.chainW_closed_final
#print axioms Hex.Chain.chainW_batch_iff

import HexProofs.Framework.Gen.Chain
/-
Indicator-on-indicator inputs, part 2 (C01 / C02): every class that takes an `input_value`, as a DEPENDENT
member over a source member – and every class as a SOURCE.

This file: the minimal generalisation of the hypothesis `AttrInput input` of the per-class components.
What the component calculus (`TComp.Law`, Gen/Comp.lean) needs from the input column of a piece is

  * `sees`  – reading `input` off a candle is a function of the bare candle and the entries under some read
              keys `rk` (no keys for a candle attribute; the source's key `main` for `input = main` or
              `input = main.field`);
  * `indep` – reading `input` is stable under the writes of the piece's own tree (`own`: its names);
  * `dis`   – the read keys are not among the own names (so the pieces of the tree neither write what an
              earlier piece reads through the input).

`InputVia F rk input own` packages the three; `InputVia.attr` (a candle attribute, `rk = []`) and
`InputVia.ofInput` (`InputOf main input`, `main ∉ own`, `rk = [main]`) are its two instances.
Then: generic helpers (`TContract.ofTrunc`, `seqOK_lists`), the data-node component with a CONDITIONAL
stability law (`TDataContractC`, `dataCompC`: what RSI needs – its reading part reads the data entry of the
candle being computed back), and data nodes as whole trees (`dataTreeComp`, `dataTreeCompC`).
-/
namespace Hex.Chain
set_option linter.unusedSectionVars false
set_option linter.unusedSimpArgs false
set_option linter.unusedVariables false
variable {F : Type} [PyF F]

/-! ### the input of a piece, seen through read keys -/

/-- **The input hypothesis of a component**: reading `inp` sees only the bare candle and the entries
under `rk`, is independent of every entry stored under a name in `own`, and `rk` avoids `own`. -/
structure InputVia (F : Type) [PyF F] (rk : List String) (inp : String) (own : List String) : Prop where
  sees : ∀ keys : List String, (∀ k ∈ rk, k ∈ keys) → Sees F keys inp
  indep : ∀ nm ∈ own, Indep F nm inp
  dis : ∀ k ∈ rk, k ∉ own

/-- a candle attribute: no read keys -/
theorem InputVia.attr {inp : String} (h : AttrInput inp) (own : List String) : InputVia F [] inp own :=
  ⟨fun keys _ => sees_attr keys inp h.1 h.2, fun nm _ => indep_attr nm inp h.1 h.2, fun _ hk => by cases hk⟩

/-- another member's output: its key `main` or a dotted field `main.fld`, `main` not a name of the tree -/
theorem InputVia.ofInput {main inp : String} (h : InputOf main inp) (own : List String) (hfresh : main ∉ own) :
    InputVia F [main] inp own :=
  ⟨fun keys hk => h.sees keys (hk main (by simp)),
   fun nm hnm => h.indep nm (fun e => hfresh (e ▸ hnm)),
   fun k hk => by simp only [List.mem_singleton] at hk; subst hk; exact hfresh⟩

theorem InputVia.mono {rk : List String} {inp : String} {own own' : List String} (h : InputVia F rk inp own)
    (hsub : ∀ k ∈ own', k ∈ own) : InputVia F rk inp own' :=
  ⟨h.sees, fun nm hnm => h.indep nm (hsub nm hnm), fun k hk hm => h.dis k hk (hsub k hm)⟩

/-- the `Sees` hypothesis of a tolerant leaf contract named `nm` -/
theorem InputVia.seesAt {rk : List String} {inp : String} {own : List String} (h : InputVia F rk inp own)
    (pre : List String) : Sees F (pre ++ rk) inp :=
  h.sees _ (fun k hk => List.mem_append_right _ hk)

/-! ### side conditions of sequential composition from key lists -/

/-- `SeqOK` from explicit key lists -/
theorem seqOK_lists {X Q : TComp F} (r w w' : List String) (hr : ∀ k ∈ X.rkeys, k ∈ r) (hw : ∀ k ∈ X.wkeys, k ∈ w)
    (hw' : ∀ k ∈ Q.wkeys, k ∈ w') (h1 : ∀ k ∈ r, k ∉ w') (h2 : ∀ k ∈ w, k ∉ w') : TComp.SeqOK X Q :=
  ⟨fun k hk hq => h1 k (hr k hk) (hw' k hq), fun k hk hq => h2 k (hw k hk) (hw' k hq)⟩

/-! ### a tolerant leaf contract without a reachable-state invariant -/

/-- truncation invariance at every valid index, key locality, independence of the own entry -/
def TContract.ofTrunc (Z : Ind F) (rk : List String)
    (htrunc : ∀ x : Ctx F, 0 ≤ x.i → x.i < x.cs.length → readKind Z.kind x.trunc = readKind Z.kind x)
    (hsim : ∀ H H' c c', SimL (Z.name :: rk) H H' → SimK (Z.name :: rk) c c' → valOf Z H c = valOf Z H' c')
    (hkey : ∀ H c v, valOf Z H (decOf Z v c) = valOf Z H c) : TContract Z where
  rkeys := rk
  Inv := fun _ => True
  inv_nil := trivial
  inv_sim := fun _ _ _ _ => trivial
  inv_step := fun _ _ _ _ _ _ => trivial
  loc := by
    intro H c rest _
    unfold valOf
    rw [← trunc_append_cons H c rest]
    exact (htrunc _ (by simp) (by simp)).symm
  val_sim := hsim
  stable := hkey

/-- **Counter, tolerant, any input** -/
def counterTG (Z : Ind F) (inp : String) (cv : Scalar F) (hk : Z.kind = .counter inp cv)
    (hname : IsKey Z.name) (rk : List String) (hsee : Sees F (Z.name :: rk) inp)
    (hind : Indep F Z.name inp) : TContract Z :=
  TContract.ofTrunc Z rk
    (by intro x h0 hi; rw [hk]; exact counter_trunc x inp cv h0 hi)
    (by
      intro H H' c c' hH hc
      unfold valOf
      rw [hk]
      have hown := sameCol_simL _ Z.name (sees_key _ _ hname (by simp)) hH hc Z.name
      exact counter_congr _ _ inp cv (sameCol_simL _ inp hsee hH hc _) (Ctx.prevReading_congr hown))
    (by
      intro H c v
      unfold valOf decOf
      rw [hk]
      refine counter_congr _ _ inp cv (sameCol_last inp H c _ Z.name (hind _ _ _)) ?_
      rw [Ctx.prevReading_append_cons, Ctx.prevReading_append_cons])

/-! ### data nodes as whole trees -/

/-- a data node (own reading + data entry, no sub-indicators) under a tolerant data contract, as a tree -/
def dataTreeComp (Z : Ind F) (D : String) (K : TDataContract Z D) (hne : Z.name ≠ D) (hsubs : Z.subs = [])
    (hnames : Z.allNames = [Z.name, D]) (hC : ∀ f cs i, calcReading (f + 3) Z cs i = K.C cs i) : TreeComp Z where
  X := dataComp Z D K
  law := dataComp_law Z D K hne
  pass_eq := fun cs => engineCalc_with Z hsubs K.C hC cs
  wnames := by intro k hk; rw [hnames]; exact hk

theorem dataTreeComp_reads (Z : Ind F) (D : String) (K : TDataContract Z D) (hne : Z.name ≠ D) (hsubs : Z.subs = [])
    (hnames : Z.allNames = [Z.name, D]) (hC : ∀ f cs i, calcReading (f + 3) Z cs i = K.C cs i) :
    (dataTreeComp Z D K hne hsubs hnames hC).ReadsWithin (Z.name :: D :: K.rkeys) := fun _ hk => hk

/-- **the STDEV node satisfies the tolerant data contract, any input** seen through the read keys -/
def stdevTG (Z : Ind F) (p : Int) (input : String) (hk : Z.kind = .stdev p input) (hp : 0 ≤ p)
    (hn : StdevNames Z.name) (rk : List String) (hsee : Sees F (Z.name :: (Z.name ++ "_data") :: rk) input)
    (h1 : Indep F Z.name input) (h2 : Indep F (Z.name ++ "_data") input) :
    TDataContract Z (Z.name ++ "_data") where
  C := fun cs i => Calc.stdev (dOps (Z.name ++ "_data") i) { cs := cs, i := i, name := Z.name } p input
  R := stdevR p input
  rkeys := rk
  fact := fun H c rest _ => stdev_fact _ p input _ _ _
  loc := by
    intro H c rest
    rw [← trunc_append_cons H c rest]
    exact (stdevR_trunc p input _ (by simp) (by simp) hp).symm
  val_sim := by
    intro H H' c c' hH hc
    exact stdevR_congr' p input _ _ rfl
      (sameCol_simL _ input hsee hH hc _)
      (sameCol_simL _ _ (sees_dotted _ _ _ _ hn.mean (by simp)) hH hc _)
      (sameCol_simL _ _ (sees_dotted _ _ _ _ hn.var (by simp)) hH hc _)
  stable := by
    intro H c w d
    refine stdevR_congr p input _ _ rfl
      (sameCol_last input H c _ Z.name (readingByCandle_outDS _ _ _ input h1 h2 w d c)) ?_ ?_
    · intro nm; rw [Ctx.prevExists_append_cons, Ctx.prevExists_append_cons]
    · intro nm; rw [Ctx.prevNum_append_cons, Ctx.prevNum_append_cons]

/-! ### data pieces whose reading part reads the entry of the candle being computed back (RSI) -/

/-- the tolerant contract of a data piece with CONDITIONAL stability: recomputing a candle this piece has
finished gives the same result provided the candle was raw for the piece -/
structure TDataContractC (Z : Ind F) (D : String) where
  C : List (Candle F) → Int → PyM (Val F × List (Candle F))
  R : Ctx F → PyM (Option (Val F) × PyM (Val F))
  rkeys : List String
  fact : ∀ (H : List (Candle F)) (c : Candle F) (rest : List (Candle F)), dlookup D c.inds = none →
    C (H ++ c :: rest) H.length = rwCalc D R Z.name (H ++ c :: rest) H.length
  loc : ∀ (H : List (Candle F)) (c : Candle F) (rest : List (Candle F)),
    R { cs := H ++ c :: rest, i := H.length, name := Z.name } = R { cs := H ++ [c], i := H.length, name := Z.name }
  val_sim : ∀ (H H' : List (Candle F)) (c c' : Candle F), SimL (Z.name :: D :: rkeys) H H' →
    SimK (Z.name :: D :: rkeys) c c' →
    R { cs := H ++ [c], i := H.length, name := Z.name } = R { cs := H' ++ [c'], i := H'.length, name := Z.name }
  stable : ∀ (H : List (Candle F)) (c : Candle F) (w : Val F) (d : Option (Val F)) (fin : PyM (Val F)),
    hasKey Z.name c = false → hasKey D c = false →
    R { cs := H ++ [c], i := H.length, name := Z.name } = .ok (d, fin) →
    R { cs := H ++ [outDS Z.isSub Z.name D w d c], i := H.length, name := Z.name } = .ok (d, fin)

/-- the component of such a piece (as `dataComp`) -/
def dataCompC (Z : Ind F) (D : String) (K : TDataContractC Z D) : TComp F where
  name := Z.name
  ω := Option (Val F) × Val F
  val := fun H c => do
    let (d, fin) ← K.R { cs := H ++ [c], i := H.length, name := Z.name }
    let v ← fin
    pure (d, v)
  app := fun z c => outDS Z.isSub Z.name D (z.2.roundBy Z.round) z.1 c
  rkeys := Z.name :: D :: K.rkeys
  wkeys := [Z.name, D]
  Raw := fun c => hasKey Z.name c = false ∧ hasKey D c = false
  Settled := fun H => ∀ d ∈ H, hasKey Z.name d = true
  pass := Gen.nodeCalc (specWith Z K.C)

theorem stepWith_dataTC (Z : Ind F) (D : String) (K : TDataContractC Z D) (H : List (Candle F))
    (c : Candle F) (rest : List (Candle F)) (hg : dlookup D c.inds = none) :
    stepWith Z K.C (H ++ c :: rest) H.length = (do
      let z ← (dataCompC Z D K).val H c
      pure (H ++ (dataCompC Z D K).app z c :: rest)) := by
  unfold stepWith
  rw [K.fact H c rest hg]
  unfold rwCalc
  rw [K.loc H c rest]
  show _ = (do
    let z ← (do
      let (d, fin) ← K.R { cs := H ++ [c], i := H.length, name := Z.name }
      let v ← fin
      pure (d, v))
    pure (H ++ outDS Z.isSub Z.name D (z.2.roundBy Z.round) z.1 c :: rest))
  cases K.R { cs := H ++ [c], i := H.length, name := Z.name } with
  | error e => rfl
  | ok r =>
    obtain ⟨d, fin⟩ := r
    cases d with
    | none =>
      cases fin with
      | error e => rfl
      | ok v =>
        simp only [bind, Except.bind, pure, Except.pure, setReading_eq, updateAt_append_cons]
        rfl
    | some dv =>
      cases fin with
      | error e =>
        simp only [bind, Except.bind, pure, Except.pure, setReading_eq, updateAt_append_cons]
      | ok v =>
        simp only [bind, Except.bind, pure, Except.pure, setReading_eq, updateAt_append_cons]
        rfl

theorem nodeLoop_runDC (Z : Ind F) (D : String) (K : TDataContractC Z D) (R : List (Candle F)) :
    ∀ (H : List (Candle F)), (∀ r ∈ R, (dataCompC Z D K).Raw r) →
      Gen.nodeLoop (specWith Z K.C) (H ++ R) H.length R.length = (dataCompC Z D K).rowFrom H R := by
  induction R with
  | nil => intro H _; simp [Gen.nodeLoop, TComp.rowFrom_nil]
  | cons r R' ih =>
    intro H hp
    have hr := hp r (by simp)
    have hrs : (dataCompC Z D K).rowStep H r = (do
        let z ← (dataCompC Z D K).val H r; pure (H ++ [(dataCompC Z D K).app z r])) := rfl
    rw [List.length_cons, Gen.nodeLoop, pyIndex_append_cons, TComp.rowFrom_cons, hrs]
    have hpres : present (specWith Z K.C).name r = false := present_of_noKey _ r hr.1
    simp only [bind, Except.bind, hpres, Bool.false_eq_true, if_false]
    have hstep : (specWith Z K.C).step (H ++ r :: R') H.length = (do
        let z ← (dataCompC Z D K).val H r
        pure (H ++ (dataCompC Z D K).app z r :: R')) :=
      stepWith_dataTC Z D K H r R' (inds_of_noKey D r hr.2)
    rw [hstep]
    cases hv : (dataCompC Z D K).val H r with
    | error e => rfl
    | ok z =>
      simp only [bind, Except.bind, pure, Except.pure]
      have := ih (H ++ [(dataCompC Z D K).app z r]) (fun x hx => hp x (by simp [hx]))
      simpa using this

theorem dataCompC_law (Z : Ind F) (D : String) (K : TDataContractC Z D) (hne : Z.name ≠ D) :
    TComp.Law (dataCompC Z D K) where
  name_w := by simp [dataCompC]
  app_frame := by
    intro z c
    refine ⟨by simp [dataCompC, outDS, bare_setKey, (frameK_setD D z.1 c).1], ?_⟩
    intro k hk
    have hk1 : k ∉ [Z.name] := fun h => hk (by simp at h; simp [dataCompC, h])
    have hk2 : k ∉ [D] := fun h => hk (by simp at h; simp [dataCompC, h])
    have f1 := (frameK_setKey Z.isSub Z.name (z.2.roundBy Z.round) (setD D z.1 c)).2 k hk1
    have f2 := (frameK_setD D z.1 c).2 k hk2
    exact ⟨f1.1.trans f2.1, f1.2.trans f2.2⟩
  app_key := fun z c => hasKey_setKey _ _ _ _
  app_entries := by
    intro z c
    have hD : ∀ (d : Option (Val F)), (∀ p ∈ (setD D d c).inds, p ∈ c.inds) ∧
        (∀ p ∈ (setD D d c).subs, p ∈ c.subs ∨ p.1 = D) := by
      intro d
      cases d with
      | none => exact ⟨fun p hp => hp, fun p hp => Or.inl hp⟩
      | some dv => exact ⟨fun p hp => hp, fun p hp => mem_dset _ _ _ p hp⟩
    constructor
    · intro p hp
      change p ∈ (setKey Z.isSub Z.name _ (setD D z.1 c)).inds at hp
      cases hs : Z.isSub
      · rw [hs] at hp
        rcases mem_dset _ _ _ p hp with h | h
        · exact Or.inl ((hD z.1).1 p h)
        · exact Or.inr (by simp [dataCompC, h])
      · rw [hs] at hp; exact Or.inl ((hD z.1).1 p hp)
    · intro p hp
      change p ∈ (setKey Z.isSub Z.name _ (setD D z.1 c)).subs at hp
      cases hs : Z.isSub
      · rw [hs] at hp
        rcases (hD z.1).2 p hp with h | h
        · exact Or.inl h
        · exact Or.inr (by simp [dataCompC, h])
      · rw [hs] at hp
        rcases mem_dset _ _ _ p hp with h | h
        · rcases (hD z.1).2 p h with h' | h'
          · exact Or.inl h'
          · exact Or.inr (by simp [dataCompC, h'])
        · exact Or.inr (by simp [dataCompC, h])
  app_sim := fun keys z c c' h => simK_setKey keys _ _ _ _ _ (simK_setD keys D z.1 c c' h)
  raw_nokey := fun c h => h.1
  raw_of := fun c h => ⟨h Z.name (by simp [dataCompC]), h D (by simp [dataCompC])⟩
  val_sim := by
    intro H H' c c' hs hc
    show (do let (d, fin) ← K.R { cs := H ++ [c], i := H.length, name := Z.name }; let v ← fin; pure (d, v))
      = (do let (d, fin) ← K.R { cs := H' ++ [c'], i := H'.length, name := Z.name }; let v ← fin; pure (d, v))
    rw [K.val_sim H H' c c' hs hc]
  stable := by
    intro H c z hraw hv
    obtain ⟨dd, w⟩ := z
    change (do let (d, fin) ← K.R { cs := H ++ [c], i := H.length, name := Z.name }; let v ← fin; pure (d, v))
      = .ok (dd, w) at hv
    show (do
      let (d, fin) ← K.R (Ctx.mk (H ++ [outDS Z.isSub Z.name D (w.roundBy Z.round) dd c]) H.length Z.name)
      let v ← fin
      pure (d, v)) = .ok (dd, w)
    cases hr : K.R { cs := H ++ [c], i := H.length, name := Z.name } with
    | error e => rw [hr] at hv; cases hv
    | ok r =>
      obtain ⟨d, fin⟩ := r
      rw [hr] at hv
      cases hf : fin with
      | error e => rw [hf] at hv; cases hv
      | ok v =>
        rw [hf] at hv
        simp only [bind, Except.bind, pure, Except.pure] at hv
        have hdv : (d, v) = (dd, w) := Except.ok.inj hv
        cases hdv
        rw [K.stable H c _ _ fin hraw.1 hraw.2 hr, hf]
        rfl
  absorb := by
    intro z c d hraw hd
    obtain ⟨dd, v⟩ := z
    show setKey Z.isSub Z.name (v.roundBy Z.round) (setD D dd d) = d
    have hsim : SimK [Z.name, D] d (setKey Z.isSub Z.name (v.roundBy Z.round) (setD D dd c)) := hd
    have h1 : setD D dd d = d := by
      cases dd with
      | none => rfl
      | some dv =>
        have hl : dlookup D d.subs = some dv := by
          rw [(hsim.2 D (by simp)).2]
          cases hs : Z.isSub <;> simp [setKey, setD, dlookup_dset_self, dlookup_dset_ne _ _ _ _ hne]
        simp [setD, setKey, dset_absorb D dv d.subs hl]
    rw [h1]
    cases hs : Z.isSub with
    | false =>
      have hl : dlookup Z.name d.inds = some (v.roundBy Z.round) := by
        rw [(hsim.2 Z.name (by simp)).1, hs]; simp [setKey, dlookup_dset_self]
      simp [setKey, dset_absorb _ _ d.inds hl]
    | true =>
      have hl : dlookup Z.name d.subs = some (v.roundBy Z.round) := by
        rw [(hsim.2 Z.name (by simp)).2, hs]; simp [setKey, dlookup_dset_self]
      simp [setKey, dset_absorb _ _ d.subs hl]
  settled_nil := by intro d hd; cases hd
  settled_step := by
    intro H r z hs _ _ d hd
    rcases List.mem_append.1 hd with h | h
    · exact hs d h
    · simp at h; subst h; exact hasKey_setKey _ _ _ _
  settled_sim := by
    intro H H' hs hsim d' hd'
    obtain ⟨d, hd, hdd⟩ := TComp.forall₂_mem_right' hsim d' hd'
    rw [← hasKey_simK (keys := (Z.name :: D :: K.rkeys) ++ [Z.name, D]) (by simp) hdd]
    exact hs d hd
  pass_iff := by
    intro H R out hs hR
    have key : Gen.nodeCalc (specWith Z K.C) (H ++ R) = (dataCompC Z D K).rowFrom H R := by
      unfold Gen.nodeCalc
      have hn : (specWith Z K.C).name = Z.name := rfl
      rw [hn, findCalcIndex_split Z.name H R hs (fun r hr => (hR r hr).1)]
      have : (H ++ R).length - H.length = R.length := by simp
      rw [this]
      exact nodeLoop_runDC Z D K R H hR
    show Gen.nodeCalc (specWith Z K.C) (H ++ R) = .ok out ↔ _
    rw [key]

/-- such a data node as a whole tree -/
def dataTreeCompC (Z : Ind F) (D : String) (K : TDataContractC Z D) (hne : Z.name ≠ D) (hsubs : Z.subs = [])
    (hnames : Z.allNames = [Z.name, D]) (hC : ∀ f cs i, calcReading (f + 3) Z cs i = K.C cs i) : TreeComp Z where
  X := dataCompC Z D K
  law := dataCompC_law Z D K hne
  pass_eq := fun cs => engineCalc_with Z hsubs K.C hC cs
  wnames := by intro k hk; rw [hnames]; exact hk

theorem dataTreeCompC_reads (Z : Ind F) (D : String) (K : TDataContractC Z D) (hne : Z.name ≠ D) (hsubs : Z.subs = [])
    (hnames : Z.allNames = [Z.name, D]) (hC : ∀ f cs i, calcReading (f + 3) Z cs i = K.C cs i) :
    (dataTreeCompC Z D K hne hsubs hnames hC).ReadsWithin (Z.name :: D :: K.rkeys) := fun _ hk => hk

end Hex.Chain

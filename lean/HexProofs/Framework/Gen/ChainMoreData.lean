import HexProofs.Framework.Gen.ChainMoreBase
/-
Indicator-on-indicator inputs, part 2: the data-series classes with an `input_value` – STDEV and RSI – as
whole trees over ANY input seen through read keys (`InputVia`): as dependents over a source member
(`rk = [main]`) and as sources over a candle attribute (`rk = []`).
RSI's reading part reads the data entry of the candle being computed back, so it is not an (unconditionally
stable) `TDataContract`; it satisfies the conditional one (`TDataContractC`, Gen/ChainMoreBase.lean).
-/
namespace Hex.Chain
set_option linter.unusedSectionVars false
set_option linter.unusedSimpArgs false
set_option linter.unusedVariables false
variable {F : Type} [PyF F]

/-! ### STDEV as a top-level member -/

section stdev
variable (name : String) (round : Nat) (p : Int) (input : String) (hp : 0 ≤ p) (hn : StdevNames name)
  (rk : List String) (hv : InputVia F rk input [name, name ++ "_data"])

/-- the STDEV tree over any input seen through `rk` -/
def stdevTopComp : TreeComp (mkTop (.stdev p input : Kind F) name round) :=
  have hd := isDataNode_mkTop (.stdev p input : Kind F) name round "STDEV_data" rfl
  dataTreeComp (mkTop (.stdev p input : Kind F) name round) (name ++ "_data")
    (stdevTG _ p input (mkTop_kind _ _ _) hp hn rk (hv.sees _ (fun k hk => by simp [hk]))
      (hv.indep name (by simp)) (hv.indep (name ++ "_data") (by simp)))
    hn.ne hd.subs (allNames_dataNode _ _ _ hd)
    (fun f cs i => calcReading_stdev _ p input _ (mkTop_kind _ _ _) hd f cs i)

theorem stdevTopComp_reads :
    (stdevTopComp (F := F) name round p input hp hn rk hv).ReadsWithin (name :: (name ++ "_data") :: rk) :=
  fun _ hk => hk

theorem allNames_stdevTop : (mkTop (.stdev p input : Kind F) name round).allNames = [name, name ++ "_data"] :=
  allNames_dataNode _ _ _ (isDataNode_mkTop (.stdev p input : Kind F) name round "STDEV_data" rfl)

end stdev

/-! ### RSI -/

theorem rsiR_congr (p : Int) (input : String) (x y : Ctx F) (hn : x.name = y.name)
    (hin : Ctx.SameCol input x y) (hown : Ctx.SameCol y.name x y)
    (hg : Ctx.SameCol (y.name ++ "_data.gain") x y) (hl : Ctx.SameCol (y.name ++ "_data.loss") x y)
    (hd : Ctx.SameCol (y.name ++ "_data") x y) : rsiR p input x = rsiR p input y := by
  unfold rsiR
  simp only [hn, Ctx.prevExists_congr hown, Ctx.prevNum_congr hin, Ctx.num_congr hin, Ctx.prevNum_congr hg,
    Ctx.prevNum_congr hl, Ctx.readingPeriod_congr hin, Ctx.reading_congr hd, Ctx.num_congr hl, Ctx.num_congr hg,
    hin.idx]

theorem subs_of_noKey (name : String) (c : Candle F) (h : hasKey name c = false) : dlookup name c.subs = none := by
  unfold hasKey dhas at h
  cases hl : dlookup name c.subs with
  | none => rfl
  | some v => simp [hl] at h

theorem rbc_noKey (name : String) (hk : IsKey name) (c : Candle F) (h : hasKey name c = false) :
    readingByCandle c name = .none := by
  rw [readingByCandle_key name hk]
  unfold lookupKey
  rw [inds_of_noKey name c h, subs_of_noKey name c h]

/-- the reading part of RSI is stable under its own output on a candle that was raw for the node -/
theorem rsiR_stableC (isSub : Bool) (name : String) (hn : RsiNames name) (p : Int) (input : String)
    (h1 : Indep F name input) (h2 : Indep F (name ++ "_data") input)
    (H : List (Candle F)) (c : Candle F) (hc1 : hasKey name c = false) (hc2 : hasKey (name ++ "_data") c = false)
    (d : Option (Val F)) (fin : PyM (Val F)) (w : Val F)
    (h : rsiR p input { cs := H ++ [c], i := H.length, name := name } = .ok (d, fin)) :
    rsiR p input { cs := H ++ [outDS isSub name (name ++ "_data") w d c], i := H.length, name := name }
      = .ok (d, fin) := by
  have hin := sameCol_last input H c (outDS isSub name (name ++ "_data") w d c) name
    (readingByCandle_outDS isSub name (name ++ "_data") input h1 h2 w d c)
  have hpe : ∀ nm, ({ cs := H ++ [outDS isSub name (name ++ "_data") w d c], i := (H.length : Int), name := name } : Ctx F).prevExists nm
      = ({ cs := H ++ [c], i := (H.length : Int), name := name } : Ctx F).prevExists nm := by
    intro nm; rw [Ctx.prevExists_append_cons, Ctx.prevExists_append_cons]
  have hpn : ∀ nm, ({ cs := H ++ [outDS isSub name (name ++ "_data") w d c], i := (H.length : Int), name := name } : Ctx F).prevNum nm
      = ({ cs := H ++ [c], i := (H.length : Int), name := name } : Ctx F).prevNum nm := by
    intro nm; rw [Ctx.prevNum_append_cons, Ctx.prevNum_append_cons]
  unfold rsiR at h ⊢
  simp only [hpe, hpn, Ctx.num_congr hin, Ctx.readingPeriod_congr hin] at h ⊢
  cases hpx : ({ cs := H ++ [c], i := (H.length : Int), name := name } : Ctx F).prevExists name with
  | error e => rw [hpx] at h; cases h
  | ok b =>
    rw [hpx] at h
    cases b with
    | true => exact h
    | false =>
      simp only [bind, Except.bind, Bool.false_eq_true, if_false] at h ⊢
      by_cases hrp : ({ cs := H ++ [c], i := (H.length : Int), name := name } : Ctx F).readingPeriod (p + 1) input = true
      · simp only [hrp, if_true] at h ⊢
        exact h
      · simp only [hrp, Bool.false_eq_true, if_false] at h ⊢
        have hx : ({ cs := H ++ [c], i := (H.length : Int), name := name } : Ctx F).reading (name ++ "_data")
            = .ok .none := by
          rw [Ctx.reading_cur H c [] name, rbc_noKey _ hn.dkey c hc2]
        rw [hx] at h
        simp only [Val.truthy, Scalar.truthy, Bool.false_eq_true, if_false, pure, Except.pure] at h
        have hd : d = some .none := by injection h with h'; injection h' with h1 _; exact h1.symm
        have hy : ({ cs := H ++ [outDS isSub name (name ++ "_data") w d c], i := (H.length : Int), name := name } : Ctx F).reading
            (name ++ "_data") = .ok .none := by
          rw [Ctx.reading_cur H _ [] name, hd, readingByCandle_key _ hn.dkey]
          have hi := inds_of_noKey _ c hc2
          cases isSub <;>
            simp [lookupKey, outDS, setD, setKey, hi, dlookup_dset, hn.ne, hn.ne.symm]
        rw [hy]
        simp only [Val.truthy, Scalar.truthy, Bool.false_eq_true, if_false, pure, Except.pure]
        exact h

/-- **RSI satisfies the conditional tolerant data contract, any input** seen through the read keys -/
def rsiTC (Z : Ind F) (p : Int) (input : String) (hk : Z.kind = .rsi p input) (hp : 0 ≤ p)
    (hn : RsiNames Z.name) (hname : IsKey Z.name) (rk : List String)
    (hsee : Sees F (Z.name :: (Z.name ++ "_data") :: rk) input)
    (h1 : Indep F Z.name input) (h2 : Indep F (Z.name ++ "_data") input) :
    TDataContractC Z (Z.name ++ "_data") where
  C := fun cs i => Calc.rsi (dOps (Z.name ++ "_data") i) { cs := cs, i := i, name := Z.name } p input
  R := rsiR p input
  rkeys := rk
  fact := fun H c rest hg => rsi_fact Z.name hn p input H c rest hg
  loc := by
    intro H c rest
    rw [← trunc_append_cons H c rest]
    exact (rsiR_trunc p input _ (by simp) (by simp) hp).symm
  val_sim := by
    intro H H' c c' hH hc
    exact rsiR_congr p input _ _ rfl
      (sameCol_simL _ input hsee hH hc _)
      (sameCol_simL _ _ (sees_key _ _ hname (by simp)) hH hc _)
      (sameCol_simL _ _ (sees_dotted _ _ _ _ hn.gain (by simp)) hH hc _)
      (sameCol_simL _ _ (sees_dotted _ _ _ _ hn.loss (by simp)) hH hc _)
      (sameCol_simL _ _ (sees_key _ _ hn.dkey (by simp)) hH hc _)
  stable := fun H c w d fin hc1 hc2 h => rsiR_stableC Z.isSub Z.name hn p input h1 h2 H c hc1 hc2 d fin w h

section rsi
variable (name : String) (round : Nat) (p : Int) (input : String) (hp : 0 ≤ p) (hn : RsiNames name)
  (hname : IsKey name) (rk : List String) (hv : InputVia F rk input [name, name ++ "_data"])

/-- the RSI tree over any input seen through `rk` -/
def rsiTopComp : TreeComp (mkTop (.rsi p input : Kind F) name round) :=
  have hd := isDataNode_mkTop (.rsi p input : Kind F) name round "RSI_data" rfl
  dataTreeCompC (mkTop (.rsi p input : Kind F) name round) (name ++ "_data")
    (rsiTC _ p input (mkTop_kind _ _ _) hp hn hname rk (hv.sees _ (fun k hk => by simp [hk]))
      (hv.indep name (by simp)) (hv.indep (name ++ "_data") (by simp)))
    hn.ne hd.subs (allNames_dataNode _ _ _ hd)
    (fun f cs i => calcReading_rsi _ p input _ (mkTop_kind _ _ _) hd f cs i)

theorem rsiTopComp_reads :
    (rsiTopComp (F := F) name round p input hp hn hname rk hv).ReadsWithin (name :: (name ++ "_data") :: rk) :=
  fun _ hk => hk

theorem allNames_rsiTop : (mkTop (.rsi p input : Kind F) name round).allNames = [name, name ++ "_data"] :=
  allNames_dataNode _ _ _ (isDataNode_mkTop (.rsi p input : Kind F) name round "RSI_data" rfl)

end rsi

end Hex.Chain

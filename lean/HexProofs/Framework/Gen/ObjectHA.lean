import HexProofs.Framework.Gen.ProgramMore
import HexProofs.Framework.Gen.ChainMore
/-
C01 / C02 (and the missing C14 corner) for standalone indicator objects – and chains of members of a Hexital – on
HEIKIN-ASHI managers: `candlestick_type = Heikin-Ashi` alone (`MgrSpec.ha`), on a collapsing timeframe
(`MgrSpec.tfHA`), with gap filling (`MgrSpec.fillHA`); `HexProofs/Numeric/TotalMoreHA.lean`.

Everything underneath `C01_trees` / `C02_trees` is generic in `M : MgrSpec F` (`TreeSpec.live_refines`,
`TreeSpec.live_eq_batch`, `TreeSpec.batch_iff`, `TreeSpec.closed_prefix` of Gen/Object.lean; `EngSpec.…` for chains),
so the theorems below are instances; the only new ingredient is the C02 statement for Heikin-Ashi WITHOUT a timeframe,
where every candle of the earlier snapshot is final (`Gen.rowMajor_haSpec_prefix`: the conversion of a longer stream
extends the conversion of the shorter one).

  * generic in the manager spec: `C01_trees_mgr`, `batch_iff_rowMajor_trees_mgr`, `live_rowMajor_trees_mgr`,
    `C02_trees_mgr`;
  * Heikin-Ashi alone (raw stream reading-free and unconverted, `RawHAPlain`): `C01_trees_ha`, `C02_trees_ha`,
    `batch_truncation_trees_ha`;
  * timeframe / timeframe + fill: `C01_trees_tfHA`, `C01_trees_fillHA`, `C02_trees_tfHA`, `C02_trees_fillHA`;
  * the configuration spelled out `{ tf := tf, fill := fill && tf.isSome, ha := true }` (raw stream `RawTfHA`):
    `C01_trees_haCfg`, `C02_trees_haCfg`, `batch_iff_rowMajor_trees_haCfg`;
  * chains of covered members of a Hexital on its Heikin-Ashi manager: `C01_chain_more_ha`, `C01_chain_more_haCfg`,
    `C01_chain_more_haCfg_spec`, `C02_chain_more_ha`, `C02_chain_more_haCfg`, and the pair forms
    `C01_pair_more_haCfg`, `C02_pair_more_haCfg`.

C14 on these managers is in Gen/ProgramMore.lean already (`C14_trees_ha`, `C14_trees_tfHA`, `C14_trees_fillHA`,
`program_converges_haCfg`, `calculate_idempotent_haCfg`, `purge_restores_spec_haCfg`, `recalculate_reproduces_haCfg`,
`calculateIndex_after_program_haCfg`, `calculateIndex_reproduces_haCfg`).
Non-vacuity: Gen/ObjectHADemo.lean.
-/
namespace Hex
set_option linter.unusedSectionVars false
set_option linter.unusedVariables false
variable {F : Type} [PyF F]

/-! ### the conversion of a longer stream extends the conversion of the shorter one -/

/-- `haSpec (a ++ b) = haSpec a ++ ext` with reading-free `ext`, for unconverted `b` -/
theorem haSpec_append_ext (a b : List (Candle F)) (hun : ∀ c ∈ b, c.tag = false) :
    ∃ ext, (∀ c ∈ ext, Plain c) ∧ haSpec (a ++ b) = haSpec a ++ ext := by
  obtain ⟨ext, hp, _, hs⟩ := convert_dressed a b (haSpec a) (Dressed.refl _) hun
  exact ⟨ext, hp, hs⟩

/-- **Heikin-Ashi without a timeframe: every candle of the earlier run is final.**  For any lawful row-major spec,
the run over the converted shorter stream is a prefix of the run over the converted longer stream. -/
theorem Gen.rowMajor_haSpec_prefix {S : Gen.StepSpec F} (L : Gen.StepLaw S) (a b snap₁ snap₂ : List (Candle F))
    (hun : ∀ c ∈ b, c.tag = false) (h₁ : Gen.rowMajor S (haSpec a) = .ok snap₁)
    (h₂ : Gen.rowMajor S (haSpec (a ++ b)) = .ok snap₂) : snap₁ <+: snap₂ := by
  obtain ⟨ext, hp, hs⟩ := haSpec_append_ext a b hun
  rw [hs] at h₂
  obtain ⟨d, hd, hpre, _⟩ := Gen.rowMajor_prefix L (haSpec a) ext snap₂
    (fun c hc => by
      rcases List.mem_append.1 hc with h | h
      · exact plain_haSpec a c h
      · exact hp c h) h₂
  rw [h₁] at hd; cases hd; exact hpre

/-! ### standalone objects, generic in the manager spec -/

section covered
variable {name : String} {k : Kind F}

/-- **C01 on any manager spec** (all 27 classes): if the live history returns, the batch run over the concatenated
stream returns the same candles. -/
theorem C01_trees_mgr (hk : CoveredTreeX name k) (round : Nat) (M : MgrSpec F)
    (init : List (Candle F)) (chunks : List (List (Candle F))) (hok : M.Ok (init ++ chunks.flatten))
    (snap : List (Candle F))
    (hlive : candlesOf (runIndicator (mkTop k name round) M.cfg init chunks) = .ok snap) :
    candlesOf (runIndicator (mkTop k name round) M.cfg (init ++ chunks.flatten) []) = .ok snap := by
  obtain ⟨T, _⟩ := hk.spec round
  exact T.live_eq_batch M init chunks hok snap hlive

/-- the batch run on any manager spec returns iff the row-major run over the manager spec of the stream does -/
theorem batch_iff_rowMajor_trees_mgr (hk : CoveredTreeX name k) (round : Nat) :
    ∃ T : TreeSpec (mkTop k name round), ∀ (M : MgrSpec F) (stream : List (Candle F)), M.Ok stream → ∀ out,
      candlesOf (runIndicator (mkTop k name round) M.cfg stream []) = .ok out ↔
        Gen.rowMajor T.S (M.spec stream) = .ok out := by
  obtain ⟨T, _⟩ := hk.spec round
  exact ⟨T, fun M stream hok out => T.batch_iff M stream hok out⟩

/-- … and a live history that returns ends with that row-major run -/
theorem live_rowMajor_trees_mgr (hk : CoveredTreeX name k) (round : Nat) :
    ∃ T : TreeSpec (mkTop k name round), ∀ (M : MgrSpec F) (init : List (Candle F))
      (chunks : List (List (Candle F))), M.Ok (init ++ chunks.flatten) → ∀ snap,
      candlesOf (runIndicator (mkTop k name round) M.cfg init chunks) = .ok snap →
        Gen.rowMajor T.S (M.spec (init ++ chunks.flatten)) = .ok snap := by
  obtain ⟨T, _⟩ := hk.spec round
  exact ⟨T, fun M init chunks hok snap h => T.live_refines M init chunks hok snap h⟩

/-- the two snapshots of a C02 history as row-major runs -/
theorem TreeSpec.two_snapshots {ind : Ind F} (T : TreeSpec ind) (M : MgrSpec F) (init : List (Candle F))
    (chunks₁ chunks₂ : List (List (Candle F))) (hok : M.Ok (init ++ (chunks₁ ++ chunks₂).flatten))
    (snap₁ snap₂ : List (Candle F))
    (h₁ : candlesOf (runIndicator ind M.cfg init chunks₁) = .ok snap₁)
    (h₂ : candlesOf (runIndicator ind M.cfg init (chunks₁ ++ chunks₂)) = .ok snap₂) :
    M.Ok ((init ++ chunks₁.flatten) ++ chunks₂.flatten) ∧
      Gen.rowMajor T.S (M.spec (init ++ chunks₁.flatten)) = .ok snap₁ ∧
      Gen.rowMajor T.S (M.spec ((init ++ chunks₁.flatten) ++ chunks₂.flatten)) = .ok snap₂ := by
  have hok' : M.Ok ((init ++ chunks₁.flatten) ++ chunks₂.flatten) := by
    rw [List.flatten_append, ← List.append_assoc] at hok; exact hok
  have r₁ := T.live_refines M init chunks₁ (M.ok_left _ _ hok') snap₁ h₁
  have r₂ := T.live_refines M init (chunks₁ ++ chunks₂) hok snap₂ h₂
  rw [List.flatten_append, ← List.append_assoc] at r₂
  exact ⟨hok', r₁, r₂⟩

/-- **C02 on any manager spec** (all 27 classes): all candles of the earlier snapshot but the last (the still-forming
bucket) – with the node's readings and helper series – are a prefix of every later snapshot. -/
theorem C02_trees_mgr (hk : CoveredTreeX name k) (round : Nat) (M : MgrSpec F)
    (init : List (Candle F)) (chunks₁ chunks₂ : List (List (Candle F)))
    (hok : M.Ok (init ++ (chunks₁ ++ chunks₂).flatten)) (snap₁ snap₂ : List (Candle F))
    (h₁ : candlesOf (runIndicator (mkTop k name round) M.cfg init chunks₁) = .ok snap₁)
    (h₂ : candlesOf (runIndicator (mkTop k name round) M.cfg init (chunks₁ ++ chunks₂)) = .ok snap₂) :
    snap₁.dropLast <+: snap₂ := by
  obtain ⟨T, _⟩ := hk.spec round
  obtain ⟨hok', r₁, r₂⟩ := T.two_snapshots M init chunks₁ chunks₂ hok snap₁ snap₂ h₁ h₂
  exact T.closed_prefix M _ _ snap₁ snap₂ hok' r₁ r₂

/-! ### Heikin-Ashi alone: `{ ha := true }` -/

/-- **C01 on a Heikin-Ashi manager** `{ ha := true }` (raw stream reading-free and unconverted) -/
theorem C01_trees_ha (hk : CoveredTreeX name k) (round : Nat)
    (init : List (Candle F)) (chunks : List (List (Candle F))) (hraw : RawHAPlain (init ++ chunks.flatten))
    (snap : List (Candle F))
    (hlive : candlesOf (runIndicator (mkTop k name round) { ha := true } init chunks) = .ok snap) :
    candlesOf (runIndicator (mkTop k name round) { ha := true } (init ++ chunks.flatten) []) = .ok snap :=
  C01_trees_mgr hk round (MgrSpec.ha F) init chunks hraw snap hlive

/-- **C02 on a Heikin-Ashi manager without a timeframe**: EVERY candle of the earlier snapshot (converted OHLC, the
node's readings, its helper series) is already what it is in the later snapshot. -/
theorem C02_trees_ha (hk : CoveredTreeX name k) (round : Nat)
    (init : List (Candle F)) (chunks₁ chunks₂ : List (List (Candle F)))
    (hraw : RawHAPlain (init ++ (chunks₁ ++ chunks₂).flatten)) (snap₁ snap₂ : List (Candle F))
    (h₁ : candlesOf (runIndicator (mkTop k name round) { ha := true } init chunks₁) = .ok snap₁)
    (h₂ : candlesOf (runIndicator (mkTop k name round) { ha := true } init (chunks₁ ++ chunks₂)) = .ok snap₂) :
    snap₁ <+: snap₂ := by
  obtain ⟨T, _⟩ := hk.spec round
  obtain ⟨hok', r₁, r₂⟩ := T.two_snapshots (MgrSpec.ha F) init chunks₁ chunks₂ hraw snap₁ snap₂ h₁ h₂
  exact Gen.rowMajor_haSpec_prefix T.law _ _ snap₁ snap₂ (fun c hc => (hok' c (by simp [hc])).2) r₁ r₂

/-- the batch run on `{ ha := true }` returns iff the row-major run over the converted stream does -/
theorem batch_iff_rowMajor_trees_ha (hk : CoveredTreeX name k) (round : Nat) :
    ∃ T : TreeSpec (mkTop k name round), ∀ (stream : List (Candle F)), RawHAPlain stream → ∀ out,
      candlesOf (runIndicator (mkTop k name round) { ha := true } stream []) = .ok out ↔
        Gen.rowMajor T.S (haSpec stream) = .ok out := by
  obtain ⟨T, _⟩ := hk.spec round
  exact ⟨T, fun stream hok out => T.batch_iff (MgrSpec.ha F) stream hok out⟩

/-- **Truncation of a batch run on a Heikin-Ashi manager** (no timeframe): the batch run over the first `n` raw candles
returns the first `n` candles of the batch run over all of them. -/
theorem batch_truncation_trees_ha (hk : CoveredTreeX name k) (round : Nat)
    (stream out : List (Candle F)) (hp : RawHAPlain stream)
    (h : candlesOf (runIndicator (mkTop k name round) { ha := true } stream []) = .ok out) (n : Nat) :
    candlesOf (runIndicator (mkTop k name round) { ha := true } (stream.take n) []) = .ok (out.take n) := by
  obtain ⟨T, _⟩ := hk.spec round
  have hpt : RawHAPlain (stream.take n) := fun c hc => hp c (List.mem_of_mem_take hc)
  have h1 : Gen.rowMajor T.S (haSpec stream) = .ok out := (T.batch_iff (MgrSpec.ha F) stream hp out).1 h
  have h2 := Gen.rowMajor_take T.law (haSpec stream) out (plain_haSpec stream) h1 n
  rw [haSpec_take] at h2
  exact (T.batch_iff (MgrSpec.ha F) _ hpt _).2 h2

/-! ### collapsing timeframe + Heikin-Ashi, with or without gap filling -/

/-- **C01 on `{ tf := some tf, ha := true }`** -/
theorem C01_trees_tfHA (hk : CoveredTreeX name k) (round : Nat) (tf : Int) (htf : 0 < tf)
    (init : List (Candle F)) (chunks : List (List (Candle F))) (hraw : RawTfHA (init ++ chunks.flatten))
    (snap : List (Candle F))
    (hlive : candlesOf (runIndicator (mkTop k name round) { tf := some tf, ha := true } init chunks) = .ok snap) :
    candlesOf (runIndicator (mkTop k name round) { tf := some tf, ha := true } (init ++ chunks.flatten) [])
      = .ok snap :=
  C01_trees_mgr hk round (MgrSpec.tfHA F tf htf) init chunks hraw snap hlive

/-- **C01 on `{ tf := some tf, fill := true, ha := true }`** -/
theorem C01_trees_fillHA (hk : CoveredTreeX name k) (round : Nat) (tf : Int) (htf : 0 < tf)
    (init : List (Candle F)) (chunks : List (List (Candle F))) (hraw : RawTfHA (init ++ chunks.flatten))
    (snap : List (Candle F))
    (hlive : candlesOf (runIndicator (mkTop k name round) { tf := some tf, fill := true, ha := true } init chunks)
      = .ok snap) :
    candlesOf (runIndicator (mkTop k name round) { tf := some tf, fill := true, ha := true }
      (init ++ chunks.flatten) []) = .ok snap :=
  C01_trees_mgr hk round (MgrSpec.fillHA F tf htf) init chunks hraw snap hlive

/-- **C02 on `{ tf := some tf, ha := true }`**: all converted buckets but the still-forming one are final -/
theorem C02_trees_tfHA (hk : CoveredTreeX name k) (round : Nat) (tf : Int) (htf : 0 < tf)
    (init : List (Candle F)) (chunks₁ chunks₂ : List (List (Candle F)))
    (hraw : RawTfHA (init ++ (chunks₁ ++ chunks₂).flatten)) (snap₁ snap₂ : List (Candle F))
    (h₁ : candlesOf (runIndicator (mkTop k name round) { tf := some tf, ha := true } init chunks₁) = .ok snap₁)
    (h₂ : candlesOf (runIndicator (mkTop k name round) { tf := some tf, ha := true } init (chunks₁ ++ chunks₂))
      = .ok snap₂) :
    snap₁.dropLast <+: snap₂ :=
  C02_trees_mgr hk round (MgrSpec.tfHA F tf htf) init chunks₁ chunks₂ hraw snap₁ snap₂ h₁ h₂

/-- **C02 on `{ tf := some tf, fill := true, ha := true }`** -/
theorem C02_trees_fillHA (hk : CoveredTreeX name k) (round : Nat) (tf : Int) (htf : 0 < tf)
    (init : List (Candle F)) (chunks₁ chunks₂ : List (List (Candle F)))
    (hraw : RawTfHA (init ++ (chunks₁ ++ chunks₂).flatten)) (snap₁ snap₂ : List (Candle F))
    (h₁ : candlesOf (runIndicator (mkTop k name round) { tf := some tf, fill := true, ha := true } init chunks₁)
      = .ok snap₁)
    (h₂ : candlesOf (runIndicator (mkTop k name round) { tf := some tf, fill := true, ha := true } init
      (chunks₁ ++ chunks₂)) = .ok snap₂) :
    snap₁.dropLast <+: snap₂ :=
  C02_trees_mgr hk round (MgrSpec.fillHA F tf htf) init chunks₁ chunks₂ hraw snap₁ snap₂ h₁ h₂

/-! ### the configuration spelled out: `{ tf := tf, fill := fill && tf.isSome, ha := true }` -/

/-- **C01 for all covered trees on any Heikin-Ashi manager**: any timeframe or none, gap filling off or on
(configuration as in `C01_trees`, with `candlestick_type = Heikin-Ashi`; raw stream `RawTfHA`: stamped, sorted,
reading-free, unconverted). -/
theorem C01_trees_haCfg (hk : CoveredTreeX name k) (round : Nat)
    (tf : Option Int) (htf : ∀ t, tf = some t → 0 < t) (fill : Bool)
    (init : List (Candle F)) (chunks : List (List (Candle F))) (hraw : RawTfHA (init ++ chunks.flatten))
    (snap : List (Candle F))
    (hlive : candlesOf (runIndicator (mkTop k name round) { tf := tf, fill := fill && tf.isSome, ha := true }
      init chunks) = .ok snap) :
    candlesOf (runIndicator (mkTop k name round) { tf := tf, fill := fill && tf.isSome, ha := true }
      (init ++ chunks.flatten) []) = .ok snap := by
  have hcfg := haMgrOf_cfg (F := F) tf htf fill
  rw [← hcfg] at hlive ⊢
  exact C01_trees_mgr hk round (haMgrOf F tf htf fill) init chunks (haMgrOf_ok tf htf fill _ hraw) snap hlive

/-- **C02 for all covered trees on any Heikin-Ashi manager**: the closed candles of an earlier snapshot (everything
without a timeframe, all but the still-forming bucket with one) are a prefix of every later snapshot. -/
theorem C02_trees_haCfg (hk : CoveredTreeX name k) (round : Nat)
    (tf : Option Int) (htf : ∀ t, tf = some t → 0 < t) (fill : Bool)
    (init : List (Candle F)) (chunks₁ chunks₂ : List (List (Candle F)))
    (hraw : RawTfHA (init ++ (chunks₁ ++ chunks₂).flatten)) (snap₁ snap₂ : List (Candle F))
    (h₁ : candlesOf (runIndicator (mkTop k name round) { tf := tf, fill := fill && tf.isSome, ha := true } init
      chunks₁) = .ok snap₁)
    (h₂ : candlesOf (runIndicator (mkTop k name round) { tf := tf, fill := fill && tf.isSome, ha := true } init
      (chunks₁ ++ chunks₂)) = .ok snap₂) :
    Chain.closedOf tf snap₁ <+: snap₂ := by
  cases tf with
  | none =>
    simp only [Option.isSome_none, Bool.and_false] at h₁ h₂
    exact C02_trees_ha hk round init chunks₁ chunks₂ hraw.toPlain snap₁ snap₂ h₁ h₂
  | some t =>
    have hcfg := haMgrOf_cfg (F := F) (some t) htf fill
    rw [← hcfg] at h₁ h₂
    exact C02_trees_mgr hk round (haMgrOf F (some t) htf fill) init chunks₁ chunks₂
      (haMgrOf_ok (some t) htf fill _ hraw) snap₁ snap₂ h₁ h₂

/-- the batch run on any Heikin-Ashi manager returns iff the row-major run over the CONVERTED collapsed (filled)
stream does, with the same candles -/
theorem batch_iff_rowMajor_trees_haCfg (hk : CoveredTreeX name k) (round : Nat) :
    ∃ T : TreeSpec (mkTop k name round), ∀ (tf : Option Int) (htf : ∀ t, tf = some t → 0 < t) (fill : Bool)
      (stream : List (Candle F)), RawTfHA stream → ∀ out,
      candlesOf (runIndicator (mkTop k name round) { tf := tf, fill := fill && tf.isSome, ha := true } stream [])
          = .ok out ↔
        Gen.rowMajor T.S (haSpec ((mgrSpecOf F tf htf fill).spec stream)) = .ok out := by
  obtain ⟨T, _⟩ := hk.spec round
  refine ⟨T, fun tf htf fill stream hraw out => ?_⟩
  rw [← haMgrOf_cfg (F := F) tf htf fill, ← haMgrOf_spec]
  exact T.batch_iff (haMgrOf F tf htf fill) stream (haMgrOf_ok tf htf fill _ hraw) out

end covered

/-! ### chains of members of a Hexital on its Heikin-Ashi manager -/

namespace Chain

/-- **C02 for a chain on any manager spec**: all candles of the earlier default manager but the last are a prefix of
the later one's. -/
theorem chainW_closed_final_mgr {ts : List (Ind F)} (c : ChainCompsW [] ts) (M : MgrSpec F) (tfn : Option String)
    (init : List (Candle F)) (chunks₁ chunks₂ : List (List (Candle F)))
    (hok : M.Ok (init ++ (chunks₁ ++ chunks₂).flatten)) (H₁ H₂ : Hexital F)
    (h₁ : chainRun ts M.cfg tfn init chunks₁ = .ok H₁)
    (h₂ : chainRun ts M.cfg tfn init (chunks₁ ++ chunks₂) = .ok H₂) :
    ∃ cs₁ cs₂, H₁.managers = [(defaultKey, { cfg := M.cfg, candles := cs₁ })] ∧
      H₂.managers = [(defaultKey, { cfg := M.cfg, candles := cs₂ })] ∧
      M.Ok ((init ++ chunks₁.flatten) ++ chunks₂.flatten) ∧
      Gen.rowMajor (chainSpecW c).S (M.spec (init ++ chunks₁.flatten)) = .ok cs₁ ∧
      Gen.rowMajor (chainSpecW c).S (M.spec ((init ++ chunks₁.flatten) ++ chunks₂.flatten)) = .ok cs₂ ∧
      cs₁.dropLast <+: cs₂ := by
  have hok' : M.Ok ((init ++ chunks₁.flatten) ++ chunks₂.flatten) := by
    rw [List.flatten_append, ← List.append_assoc] at hok; exact hok
  obtain ⟨cs₁, inv₁, he₁⟩ := chainRun_ok c.nodup _ tfn init chunks₁ H₁ h₁
  obtain ⟨cs₂, inv₂, he₂⟩ := chainRun_ok c.nodup _ tfn init (chunks₁ ++ chunks₂) H₂ h₂
  have r₁ := (chainSpecW c).live_refines M init chunks₁ (M.ok_left _ _ hok') cs₁ he₁
  have r₂ := (chainSpecW c).live_refines M init (chunks₁ ++ chunks₂) hok cs₂ he₂
  rw [List.flatten_append, ← List.append_assoc] at r₂
  exact ⟨cs₁, cs₂, inv₁.mgrs, inv₂.mgrs, hok', r₁, r₂,
    (chainSpecW c).closed_prefix M _ _ cs₁ cs₂ hok' r₁ r₂⟩

/-- **C01 for a chain of covered members on `{ ha := true }`** (every class as a source, every class with an
`input_value` as a dependent, chains of any length): whenever the live history returns, the batch Hexital returns with
the same managers and registrations, and the candles are the row-major run of the chain's spec over the CONVERTED
stream. -/
theorem C01_chain_more_ha {ts : List (Ind F)} (h : CoveredChain [] ts) (tfn : Option String)
    (init : List (Candle F)) (chunks : List (List (Candle F))) (hraw : RawHAPlain (init ++ chunks.flatten))
    (H : Hexital F) (hlive : chainRun ts { ha := true } tfn init chunks = .ok H) :
    ∃ (c : ChainCompsW [] ts) (Hb : Hexital F) (cs : List (Candle F)),
      chainRun ts { ha := true } tfn (init ++ chunks.flatten) [] = .ok Hb ∧
      Hb.managers = H.managers ∧ Hb.indicators.map regInfo = H.indicators.map regInfo ∧
      H.managers = [(defaultKey, { cfg := { ha := true }, candles := cs })] ∧
      Gen.rowMajor (chainSpecW c).S (haSpec (init ++ chunks.flatten)) = .ok cs :=
  C01_chain_more h (MgrSpec.ha F) tfn init chunks hraw H hlive

/-- **C01 for a chain of covered members on any Heikin-Ashi manager** (any timeframe or none, fill off or on), with
the row-major spec spelled out: the candles are the run of the chain's spec over the converted collapsed (filled)
stream. -/
theorem C01_chain_more_haCfg_spec {ts : List (Ind F)} (h : CoveredChain [] ts) (tf : Option Int)
    (htf : ∀ t, tf = some t → 0 < t) (fill : Bool) (tfn : Option String) (init : List (Candle F))
    (chunks : List (List (Candle F))) (hraw : RawTfHA (init ++ chunks.flatten)) (H : Hexital F)
    (hlive : chainRun ts { tf := tf, fill := fill && tf.isSome, ha := true } tfn init chunks = .ok H) :
    ∃ (c : ChainCompsW [] ts) (Hb : Hexital F) (cs : List (Candle F)),
      chainRun ts { tf := tf, fill := fill && tf.isSome, ha := true } tfn (init ++ chunks.flatten) [] = .ok Hb ∧
      Hb.managers = H.managers ∧ Hb.indicators.map regInfo = H.indicators.map regInfo ∧
      H.managers = [(defaultKey, { cfg := { tf := tf, fill := fill && tf.isSome, ha := true }, candles := cs })] ∧
      Gen.rowMajor (chainSpecW c).S (haSpec ((mgrSpecOf F tf htf fill).spec (init ++ chunks.flatten))) = .ok cs := by
  have hcfg := haMgrOf_cfg (F := F) tf htf fill
  rw [← hcfg] at hlive ⊢
  rw [← haMgrOf_spec]
  exact C01_chain_more h (haMgrOf F tf htf fill) tfn init chunks (haMgrOf_ok tf htf fill _ hraw) H hlive

/-- **C01 for a chain of covered members, any Heikin-Ashi manager** (shape of `C01_chain_more_tf`) -/
theorem C01_chain_more_haCfg {ts : List (Ind F)} (h : CoveredChain [] ts) (tf : Option Int)
    (htf : ∀ t, tf = some t → 0 < t) (fill : Bool) (tfn : Option String) (init : List (Candle F))
    (chunks : List (List (Candle F))) (hraw : RawTfHA (init ++ chunks.flatten)) (H : Hexital F)
    (hlive : chainRun ts { tf := tf, fill := fill && tf.isSome, ha := true } tfn init chunks = .ok H) :
    ∃ Hb, chainRun ts { tf := tf, fill := fill && tf.isSome, ha := true } tfn (init ++ chunks.flatten) [] = .ok Hb ∧
      Hb.managers = H.managers ∧ Hb.indicators.map regInfo = H.indicators.map regInfo := by
  obtain ⟨_, Hb, _, hb, hm, hi, _⟩ := C01_chain_more_haCfg_spec h tf htf fill tfn init chunks hraw H hlive
  exact ⟨Hb, hb, hm, hi⟩

/-- **C01 for a source member and a dependent member of any covered class, any Heikin-Ashi manager** -/
theorem C01_pair_more_haCfg (tf : Option Int) (htf : ∀ t, tf = some t → 0 < t) (fill : Bool)
    {nameA : String} {kA : Kind F} (hA : SrcVia nameA kA) (roundA : Nat)
    {main nameB : String} {kB : Kind F} (hB : DepVia main nameB kB) (roundB : Nat)
    (hmain : main ∈ (mkTop kA nameA roundA).allNames)
    (hdis : ∀ x ∈ (mkTop kA nameA roundA).allNames, x ∉ (mkTop kB nameB roundB).allNames)
    (tfn : Option String) (init : List (Candle F)) (chunks : List (List (Candle F)))
    (hraw : RawTfHA (init ++ chunks.flatten)) (H : Hexital F)
    (hlive : pairRun (mkTop kA nameA roundA) (mkTop kB nameB roundB)
      { tf := tf, fill := fill && tf.isSome, ha := true } tfn init chunks = .ok H) :
    ∃ Hb, pairRun (mkTop kA nameA roundA) (mkTop kB nameB roundB)
        { tf := tf, fill := fill && tf.isSome, ha := true } tfn (init ++ chunks.flatten) [] = .ok Hb ∧
      Hb.managers = H.managers := by
  obtain ⟨Hb, hb, hm, _⟩ := C01_chain_more_haCfg (CoveredChain.pair hA roundA hB roundB hmain hdis) tf htf fill tfn
    init chunks hraw H hlive
  exact ⟨Hb, hb, hm⟩

/-- **C02 for a chain of covered members on `{ ha := true }`**: EVERY candle of the earlier default manager – converted
OHLC, the readings and helper series of every member – is already what it is in the later one. -/
theorem C02_chain_more_ha {ts : List (Ind F)} (h : CoveredChain [] ts) (tfn : Option String)
    (init : List (Candle F)) (chunks₁ chunks₂ : List (List (Candle F)))
    (hraw : RawHAPlain (init ++ (chunks₁ ++ chunks₂).flatten)) (H₁ H₂ : Hexital F)
    (h₁ : chainRun ts { ha := true } tfn init chunks₁ = .ok H₁)
    (h₂ : chainRun ts { ha := true } tfn init (chunks₁ ++ chunks₂) = .ok H₂) :
    ∃ cs₁ cs₂, H₁.managers = [(defaultKey, { cfg := { ha := true }, candles := cs₁ })] ∧
      H₂.managers = [(defaultKey, { cfg := { ha := true }, candles := cs₂ })] ∧ cs₁ <+: cs₂ := by
  obtain ⟨c⟩ := h.comps
  obtain ⟨cs₁, cs₂, m₁, m₂, hok', r₁, r₂, _⟩ := chainW_closed_final_mgr c (MgrSpec.ha F) tfn init chunks₁ chunks₂
    hraw H₁ H₂ h₁ h₂
  exact ⟨cs₁, cs₂, m₁, m₂,
    Gen.rowMajor_haSpec_prefix (chainSpecW c).law _ _ cs₁ cs₂ (fun x hx => (hok' x (by simp [hx])).2) r₁ r₂⟩

/-- **C02 for a chain of covered members, any Heikin-Ashi manager** (shape of `C02_chain_more`) -/
theorem C02_chain_more_haCfg {ts : List (Ind F)} (h : CoveredChain [] ts) (tf : Option Int)
    (htf : ∀ t, tf = some t → 0 < t) (fill : Bool) (tfn : Option String) (init : List (Candle F))
    (chunks₁ chunks₂ : List (List (Candle F))) (hraw : RawTfHA (init ++ (chunks₁ ++ chunks₂).flatten))
    (H₁ H₂ : Hexital F)
    (h₁ : chainRun ts { tf := tf, fill := fill && tf.isSome, ha := true } tfn init chunks₁ = .ok H₁)
    (h₂ : chainRun ts { tf := tf, fill := fill && tf.isSome, ha := true } tfn init (chunks₁ ++ chunks₂) = .ok H₂) :
    ∃ cs₁ cs₂,
      H₁.managers = [(defaultKey, { cfg := { tf := tf, fill := fill && tf.isSome, ha := true }, candles := cs₁ })] ∧
      H₂.managers = [(defaultKey, { cfg := { tf := tf, fill := fill && tf.isSome, ha := true }, candles := cs₂ })] ∧
      closedOf tf cs₁ <+: cs₂ := by
  cases tf with
  | none =>
    simp only [Option.isSome_none, Bool.and_false] at h₁ h₂ ⊢
    exact C02_chain_more_ha h tfn init chunks₁ chunks₂ hraw.toPlain H₁ H₂ h₁ h₂
  | some t =>
    obtain ⟨c⟩ := h.comps
    have hcfg := haMgrOf_cfg (F := F) (some t) htf fill
    rw [← hcfg] at h₁ h₂ ⊢
    obtain ⟨cs₁, cs₂, m₁, m₂, _, _, _, hpre⟩ := chainW_closed_final_mgr c (haMgrOf F (some t) htf fill) tfn init
      chunks₁ chunks₂ (haMgrOf_ok (some t) htf fill _ hraw) H₁ H₂ h₁ h₂
    exact ⟨cs₁, cs₂, m₁, m₂, hpre⟩

/-- **C02 for a source member and a dependent member of any covered class, any Heikin-Ashi manager** -/
theorem C02_pair_more_haCfg (tf : Option Int) (htf : ∀ t, tf = some t → 0 < t) (fill : Bool)
    {nameA : String} {kA : Kind F} (hA : SrcVia nameA kA) (roundA : Nat)
    {main nameB : String} {kB : Kind F} (hB : DepVia main nameB kB) (roundB : Nat)
    (hmain : main ∈ (mkTop kA nameA roundA).allNames)
    (hdis : ∀ x ∈ (mkTop kA nameA roundA).allNames, x ∉ (mkTop kB nameB roundB).allNames)
    (tfn : Option String) (init : List (Candle F)) (chunks₁ chunks₂ : List (List (Candle F)))
    (hraw : RawTfHA (init ++ (chunks₁ ++ chunks₂).flatten)) (H₁ H₂ : Hexital F)
    (h₁ : pairRun (mkTop kA nameA roundA) (mkTop kB nameB roundB)
      { tf := tf, fill := fill && tf.isSome, ha := true } tfn init chunks₁ = .ok H₁)
    (h₂ : pairRun (mkTop kA nameA roundA) (mkTop kB nameB roundB)
      { tf := tf, fill := fill && tf.isSome, ha := true } tfn init (chunks₁ ++ chunks₂) = .ok H₂) :
    ∃ cs₁ cs₂,
      H₁.managers = [(defaultKey, { cfg := { tf := tf, fill := fill && tf.isSome, ha := true }, candles := cs₁ })] ∧
      H₂.managers = [(defaultKey, { cfg := { tf := tf, fill := fill && tf.isSome, ha := true }, candles := cs₂ })] ∧
      closedOf tf cs₁ <+: cs₂ :=
  C02_chain_more_haCfg (CoveredChain.pair hA roundA hB roundB hmain hdis) tf htf fill tfn init chunks₁ chunks₂ hraw
    H₁ H₂ h₁ h₂

end Chain
end Hex

#print axioms Hex.Gen.rowMajor_haSpec_prefix
#print axioms Hex.C01_trees_mgr
#print axioms Hex.C02_trees_mgr
#print axioms Hex.batch_iff_rowMajor_trees_mgr
#print axioms Hex.live_rowMajor_trees_mgr
#print axioms Hex.C01_trees_ha
#print axioms Hex.C01_trees_tfHA
#print axioms Hex.C01_trees_fillHA
#print axioms Hex.C01_trees_haCfg
#print axioms Hex.C02_trees_ha
#print axioms Hex.C02_trees_tfHA
#print axioms Hex.C02_trees_fillHA
#print axioms Hex.C02_trees_haCfg
#print axioms Hex.batch_truncation_trees_ha
#print axioms Hex.batch_iff_rowMajor_trees_ha
#print axioms Hex.batch_iff_rowMajor_trees_haCfg
#print axioms Hex.Chain.C01_chain_more_ha
#print axioms Hex.Chain.C01_chain_more_haCfg_spec
#print axioms Hex.Chain.C01_chain_more_haCfg
#print axioms Hex.Chain.C01_pair_more_haCfg
#print axioms Hex.Chain.C02_chain_more_ha
#print axioms Hex.Chain.C02_chain_more_haCfg
#print axioms Hex.Chain.C02_pair_more_haCfg

import HexProofs.Framework.Gen.ChainMoreBase
import HexProofs.Framework.Gen.ChainMoreW
/-
Indicator-on-indicator inputs, part 2: HMA (two prior WMA helpers over the input, own step driving a managed
raw series smoothed by a WMA) as a whole tree over ANY input seen through read keys – as a dependent over a
source member and as a source.  At index 0 the node's step would fall back to a full `calculate()` of the
managed child; with `period ≥ 2` that branch is never taken on the lists the framework meets (the WMA helper has
no reading on candle 0), so the engine equals the component's pass on settled-then-raw lists only:
`hmaTreeCompW : TreeCompW …` (the weak pass equation of Gen/ChainMoreW.lean).
-/
namespace Hex.Chain
set_option linter.unusedSectionVars false
set_option linter.unusedSimpArgs false
set_option linter.unusedVariables false
set_option linter.unnecessarySeqFocus false
variable {F : Type} [PyF F]

section hma
variable (name : String) (round : Nat) (p : Int) (input : String)
  (hp : 2 ≤ p) (hn : HmaNames name) (rk : List String)
  (hv : InputVia F rk input [name, name ++ "_WMA", name ++ "_WMAh", name ++ "_HMAr", name ++ "_HMAs"])

def hmaCompWG : TComp F :=
  leafComp (hmaW name p input)
    (wmaT _ p input rfl (by omega) hn.kW rk (hv.sees _ (fun k hk => List.mem_cons_of_mem _ hk))
      (hv.indep (name ++ "_WMA") (by simp)))
def hmaCompWhG : TComp F :=
  leafComp (hmaWh name p input)
    (wmaT _ (p / 2) input rfl (by omega) hn.kH rk (hv.sees _ (fun k hk => List.mem_cons_of_mem _ hk))
      (hv.indep (name ++ "_WMAh") (by simp)))
def hmaCompXG : TComp F := TComp.seq (hmaCompWG name p input hp hn rk hv) (hmaCompWhG name p input hp hn rk hv)
/-- the whole HMA tree over any input: (WMA; WMAh); HMA-own -/
def hmaCompG : TComp F := TComp.seq (hmaCompXG name p input hp hn rk hv) (hmaCompP name round p input)

theorem hmaCompXG_law : TComp.Law (hmaCompXG (F := F) name p input hp hn rk hv) := by
  unfold hmaCompXG
  refine TComp.seq_law (leafComp_law _ _) (leafComp_law _ _) ?_
  constructor <;> intro k hk hq <;>
    simp [hmaCompWG, hmaCompWhG, leafComp, wmaT, hmaW_name, hmaWh_name] at hk hq <;>
    subst hq <;>
    simp [hn.WH, hn.WH.symm] at hk <;>
    exact hv.dis _ hk (by simp)

theorem hmaCompG_law : TComp.Law (hmaCompG (F := F) name round p input hp hn rk hv) := by
  unfold hmaCompG
  refine TComp.seq_law (hmaCompXG_law name p input hp hn rk hv) (hmaCompP_law name round p input hn (by omega)) ?_
  constructor <;> intro k hk hq <;>
    simp [hmaCompXG, TComp.seq, hmaCompWG, hmaCompWhG, hmaCompP, leafComp, wmaT, hmaW_name, hmaWh_name] at hk hq <;>
    rcases hq with rfl | rfl | rfl <;>
    simp [hn.nW, hn.nH, hn.WR, hn.WS, hn.HR, hn.HS, hn.nW.symm, hn.nH.symm, hn.WR.symm, hn.WS.symm, hn.HR.symm,
      hn.HS.symm] at hk <;>
    exact hv.dis _ hk (by simp)

/-- after the helpers' pass over raw candles from an empty history, candle 0 carries no WMA reading -/
theorem hma_headG (raw c₂ : List (Candle F))
    (hraw : ∀ r ∈ raw, hasKey (name ++ "_WMA") r = false)
    (hrow : (hmaCompXG (F := F) name p input hp hn rk hv).rowFrom [] raw = .ok c₂) :
    ∀ c, pyIndex c₂ (0 : Int) = .ok c → (readingByCandle c (name ++ "_WMA")).isNone = true := by
  intro c hc
  cases raw with
  | nil =>
    rw [TComp.rowFrom_nil] at hrow
    cases hrow
    simp [pyIndex, getOrIndexError] at hc
  | cons r0 R' =>
    rw [TComp.rowFrom_cons] at hrow
    unfold TComp.rowStep at hrow
    cases hvv : (hmaCompXG (F := F) name p input hp hn rk hv).val [] r0 with
    | error e => rw [hvv] at hrow; cases hrow
    | ok z =>
      rw [hvv] at hrow
      simp only [bind, Except.bind, pure, Except.pure] at hrow
      obtain ⟨T, hT, _⟩ := TComp.rowFrom_shape _ R' _ _ hrow
      have hc0 : c = (hmaCompXG (F := F) name p input hp hn rk hv).app z r0 := by
        rw [hT] at hc
        have := pyIndex_append_cons ([] : List (Candle F))
          ((hmaCompXG (F := F) name p input hp hn rk hv).app z r0) T
        simp only [List.nil_append, List.length_nil, Nat.cast_zero] at this
        simp only [List.nil_append, List.singleton_append] at hc
        rw [this] at hc
        exact (Except.ok.inj hc).symm
      have hx : z.1 = Val.none := by
        change (do
          let x ← valOf (hmaW name p input) [] r0
          let q ← valOf (hmaWh name p input) [] (decOf (hmaW name p input) x r0)
          pure (x, q)) = .ok z at hvv
        have hw : valOf (hmaW (F := F) name p input) [] r0 = .ok .none := by
          show Calc.wma (Ctx.mk ([] ++ [r0]) (([] : List (Candle F)).length : Int) (name ++ "_WMA")) p input = _
          simp only [List.length_nil, Nat.cast_zero]
          exact wma_zero _ _ p input hp
        rw [hw] at hvv
        simp only [bind, Except.bind] at hvv
        cases hq : valOf (hmaWh (F := F) name p input) [] (decOf (hmaW name p input) Val.none r0) with
        | error e => rw [hq] at hvv; cases hvv
        | ok q =>
          rw [hq] at hvv
          simp only [pure, Except.pure] at hvv
          cases hvv
          rfl
      rw [hc0]
      show (readingByCandle (decOf (hmaWh name p input) z.2 (decOf (hmaW name p input) z.1 r0))
        (name ++ "_WMA")).isNone = true
      unfold decOf
      rw [hmaWh_name, hmaW_name, indep_key _ _ hn.kW hn.WH.symm,
        readingByCandle_setKey_noKey _ _ hn.kW _ _ (hraw r0 (by simp))]
      exact ((Val.roundBy_isNone _ _).trans (congrArg Val.isNone hx)).trans rfl

/-- **on a settled history followed by candles raw for the tree, the engine is the pass of the component** -/
theorem hma_passG (done raw : List (Candle F))
    (hs : (hmaCompG (F := F) name round p input hp hn rk hv).Settled done)
    (hraw : ∀ r ∈ raw, (hmaCompG (F := F) name round p input hp hn rk hv).Raw r) :
    engineCalc (hmaP (F := F) name round p input) (done ++ raw)
      = (hmaCompG (F := F) name round p input hp hn rk hv).pass (done ++ raw) := by
  have LX := hmaCompXG_law (F := F) name p input hp hn rk hv
  rw [engineCalc_hma]
  have hassoc : (do
        let c₁ ← leafCalc (hmaW name p input) (done ++ raw)
        let c₂ ← leafCalc (hmaWh name p input) c₁
        Gen.nodeCalc (specWith (hmaP name round p input) (hmaCFull name p)) c₂)
      = (do
        let c₂ ← (hmaCompXG (F := F) name p input hp hn rk hv).pass (done ++ raw)
        Gen.nodeCalc (specWith (hmaP name round p input) (hmaCFull name p)) c₂) := by
    show _ = (do
      let c₂ ← (do let c ← leafCalc (hmaW name p input) (done ++ raw); leafCalc (hmaWh name p input) c)
      Gen.nodeCalc (specWith (hmaP name round p input) (hmaCFull name p)) c₂)
    cases leafCalc (hmaW (F := F) name p input) (done ++ raw) <;> rfl
  rw [hassoc]
  show _ = (do
    let c₂ ← (hmaCompXG (F := F) name p input hp hn rk hv).pass (done ++ raw)
    Gen.nodeCalc (specWith (hmaP name round p input) (hmaC name p)) c₂)
  cases hX : (hmaCompXG (F := F) name p input hp hn rk hv).pass (done ++ raw) with
  | error e => rfl
  | ok c₂ =>
    simp only [bind, Except.bind]
    have hrawX : ∀ r ∈ raw, (hmaCompXG (F := F) name p input hp hn rk hv).Raw r := fun r hr => (hraw r hr).1
    have hrow := (LX.pass_iff done raw c₂ hs.1 hrawX).1 hX
    obtain ⟨T, hT, hdT⟩ := TComp.rowFrom_shape _ raw done c₂ hrow
    have hTkey : ∀ t ∈ T, hasKey name t = false := by
      intro t ht
      obtain ⟨r, hr, x, rfl⟩ := TComp.forall₂_mem_right' hdT t ht
      have hnw : name ∉ (hmaCompXG (F := F) name p input hp hn rk hv).wkeys := by
        simp [hmaCompXG, TComp.seq, hmaCompWG, hmaCompWhG, leafComp, hmaW_name, hmaWh_name, hn.nW, hn.nH]
      rw [hasKey_of_frame hnw (LX.app_frame x r)]
      exact (hraw r hr).2.1
    have hidx : findCalcIndex name c₂ = done.length := by
      rw [hT]; exact findCalcIndex_split name done T hs.2.1 hTkey
    unfold Gen.nodeCalc
    have hn1 : (specWith (hmaP (F := F) name round p input) (hmaCFull name p)).name = name :=
      hmaP_name (F := F) name round p input
    have hn2 : (specWith (hmaP (F := F) name round p input) (hmaC name p)).name = name :=
      hmaP_name (F := F) name round p input
    rw [hn1, hn2, hidx]
    apply nodeLoop_hma
    intro h0 c hc
    have hd : done = [] := List.eq_nil_of_length_eq_zero h0
    subst hd
    exact hma_headG name p input hp hn rk hv raw c₂ (fun r hr => (hraw r hr).1.1) hrow c hc

/-- **the HMA tree over any input seen through `rk`** (weak pass equation) -/
def hmaTreeCompW : TreeCompW (hmaP (F := F) name round p input) where
  X := hmaCompG name round p input hp hn rk hv
  law := hmaCompG_law name round p input hp hn rk hv
  pass_eq := fun H R hs hR => hma_passG name round p input hp hn rk hv H R hs hR
  wnames := by
    intro k hk
    rw [allNames_hma]
    simp [hmaCompG, hmaCompXG, TComp.seq, hmaCompWG, hmaCompWhG, hmaCompP, leafComp, hmaW_name, hmaWh_name]
      at hk ⊢
    rcases hk with h | h | h | h | h <;> simp [h]

theorem hmaTreeCompW_reads :
    (hmaTreeCompW (F := F) name round p input hp hn rk hv).ReadsWithin
      (rk ++ (hmaP (F := F) name round p input).allNames) := by
  intro k hk
  rw [allNames_hma]
  simp [hmaTreeCompW, hmaCompG, hmaCompXG, TComp.seq, hmaCompWG, hmaCompWhG, hmaCompP, leafComp, wmaT, hmaW_name,
    hmaWh_name] at hk ⊢
  rcases hk with h | h | h | h | h | h | h | h <;> simp [h]

end hma

end Hex.Chain

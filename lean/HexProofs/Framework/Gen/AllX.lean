import HexProofs.Framework.Gen.All
import HexProofs.Framework.Gen.MACD
import HexProofs.Framework.Gen.HMA
import HexProofs.Framework.Gen.STOCH
import HexProofs.Framework.Gen.TSI
import HexProofs.Framework.Gen.ADX
/-
Every shipped kind with a proved row-major spec, under one predicate: `CoveredTree` (leaf kinds and
the data-series / prior-helper composites of Gen/All.lean) extended by the composites whose own step
DRIVES indicator-type managed children from inside `_calculate_reading`
(`managed_indicators[..].calculate_index(i)`, `Managed.set_reading` with non-prior sub-indicators,
two-level chains): MACD, HMA, STOCH, TSI, ADX.  With them every shipped indicator class is covered.
-/
namespace Hex
set_option linter.unusedSectionVars false
variable {F : Type} [PyF F]

/-- **Covered trees, extended**: kinds `k` such that `mkTop k name round` refines a row-major spec. -/
inductive CoveredTreeX (name : String) : Kind F → Prop
  | base (k : Kind F) : CoveredTree name k → CoveredTreeX name k
  | macd (fast slow signal : Int) (input : String) : 1 ≤ fast → 1 ≤ slow → 1 ≤ signal → MacdNames name →
      AttrInput input → CoveredTreeX name (.macd fast slow signal input)
  | hma (p : Int) (input : String) : 2 ≤ p → HmaNames name → AttrInput input → CoveredTreeX name (.hma p input)
  | stoch (p slow smoothK : Int) (input : String) : 2 ≤ p → 1 ≤ slow → 1 ≤ smoothK → StochNames name →
      AttrInput input → CoveredTreeX name (.stoch p slow smoothK input)
  | tsi (p smooth : Int) (input : String) : 1 ≤ p → 1 ≤ smooth → TsiNames name → AttrInput input →
      CoveredTreeX name (.tsi p smooth input)
  | adx (p signal : Int) : 1 ≤ p → 1 ≤ signal → AdxNames name → CoveredTreeX name (.adx p signal)

/-- kinds for which `calculate_index(i)` is exactly one row step at every index: as `indexStepKind`,
and not claimed for the composites that drive managed children (their index-0 step falls back to a
full `calculate()` of the child) -/
def indexStepKindX : Kind F → Bool
  | .macd _ _ _ _ => false
  | .hma _ _ => false
  | .stoch _ _ _ _ => false
  | .tsi _ _ _ => false
  | .adx _ _ => false
  | k => indexStepKind k

theorem indexStepKindX_le (k : Kind F) (h : indexStepKindX k = true) : indexStepKind k = true := by
  cases k <;> first | exact h | cases h

theorem CoveredTreeX.spec {name : String} {k : Kind F} (h : CoveredTreeX name k) (round : Nat) :
    ∃ T : TreeSpec (mkTop k name round), indexStepKindX k = true → T.Full := by
  cases h with
  | base k hk =>
    obtain ⟨T, hT⟩ := hk.spec round
    exact ⟨T, fun h => hT (indexStepKindX_le k h)⟩
  | macd fast slow signal input hf hs hg hn hin =>
    exact ⟨macdTree name round fast slow signal input hf hs hg hn hin, fun h => by cases h⟩
  | hma p input hp hn hin =>
    exact ⟨hmaTree name round p input hp hn hin, fun h => by cases h⟩
  | stoch p slow smoothK input hp hs hk hn hin =>
    exact ⟨stochTree name round p slow smoothK input hp hs hk hn hin, fun h => by cases h⟩
  | tsi p smooth input hp hs hn hin =>
    exact ⟨tsiTree name round p smooth input hp hs hn hin, fun h => by cases h⟩
  | adx p signal hp hs hn =>
    exact ⟨adxTree name round p signal hp hs hn, fun h => by cases h⟩

end Hex

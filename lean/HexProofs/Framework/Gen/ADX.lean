import HexProofs.Framework.Gen.MACD
import HexProofs.Framework.Gen.ManagedSubs
/-
Family (3b): ADX – one prior helper (an ATR node `<name>_atr` with its own prior TR leaf
`<name>_atr_TR`), a `Managed` holder `ADX_data` (series `<name>_data`) with two NON-PRIOR RMA leaves
(`<name>_pos` over `<name>_data.pos`, `<name>_neg` over `<name>_data.neg`) and a managed RMA leaf
`dx` (`<name>_dx` over `<name>_data.dx`) the node drives with `calculate_index(i)`.

The node's `_calculate_reading(i)` (guarded by `i > 0`) stores `{"pos","neg"}` through
`Managed.set_reading` – which steps the two smoothing RMAs at `i` –, reads the ATR and the smoothed
values back, stores `{"pos","neg","dx"}` (stepping the two RMAs AGAIN, with the same result), steps
the `dx` RMA and reads it back: five keys written per candle from inside the node's own step.
-/
namespace Hex
set_option linter.unusedSectionVars false
variable {F : Type} [PyF F]

section adx
variable (name : String) (round : Nat) (p signal : Int)

/-- the ADX tree and its helpers -/
def adxP : Ind F := mkTop (.adx p signal) name round
def adxA : Ind F := atrNode p (name ++ "_atr")
def adxTr : Ind F := leaf .tr (name ++ "_atr" ++ "_TR")
/-- the two non-prior RMA leaves under the `Managed` holder -/
def adxPos : Ind F := leaf (.rma p (name ++ "_data.pos")) (name ++ "_pos") false
def adxNeg : Ind F := leaf (.rma p (name ++ "_data.neg")) (name ++ "_neg") false
/-- the `Managed` holder `ADX_data` -/
def adxM : Ind F := .mk .managed (name ++ "_data") defaultRound true true [adxPos name p, adxNeg name p] []
/-- the managed RMA leaf `dx` -/
def adxDx : Ind F := leaf (.rma signal (name ++ "_data.dx")) (name ++ "_dx")

theorem adxP_name : (adxP (F := F) name round p signal).name = name := mkTop_name _ _ _
theorem adxP_kind : (adxP (F := F) name round p signal).kind = .adx p signal := mkTop_kind _ _ _
theorem adxP_isSub : (adxP (F := F) name round p signal).isSub = false := rfl
theorem adxP_round : (adxP (F := F) name round p signal).round = round := rfl
theorem adxP_subs : (adxP (F := F) name round p signal).subs = [adxA name p] := rfl
theorem adxP_managed : (adxP (F := F) name round p signal).managed
    = [("ADX_data", adxM name p), ("dx", adxDx name signal)] := rfl
theorem adxA_name : (adxA (F := F) name p).name = name ++ "_atr" := rfl
theorem adxA_subs : (adxA (F := F) name p).subs = [adxTr name] := rfl
theorem adxTr_name : (adxTr (F := F) name).name = name ++ "_atr" ++ "_TR" := rfl
theorem adxM_subs : (adxM (F := F) name p).subs = [adxPos name p, adxNeg name p] := rfl

theorem adxM_post : PostLeaves (adxM (F := F) name p).subs := by
  intro s hs
  rw [adxM_subs] at hs
  simp only [List.mem_cons, List.not_mem_nil, or_false] at hs
  rcases hs with rfl | rfl
  · exact ⟨⟨rfl, rfl, rfl⟩, rfl⟩
  · exact ⟨⟨rfl, rfl, rfl⟩, rfl⟩

/-! ### the node's reading function, without fuel -/

/-- the helper services of the ADX node at an index `i > 0` as the engine runs them:
`Managed.set_reading` stores the dict and steps the two smoothing RMAs at `i`;
`calculate_index(i)` of `dx` is one unconditional leaf step -/
def adxOps (i : Int) : Ops F where
  setManaged := fun _ v cs => do
    let cs₁ ← setReading true (name ++ "_data") cs i v
    let cs₂ ← stepLeaf (adxPos name p) cs₁ i
    stepLeaf (adxNeg name p) cs₂ i
  calcManaged := fun _ cs => stepLeaf (adxDx name signal) cs i

/-- `_calculate_reading(i)` of the ADX node as the engine runs it (at `i ≤ 0` the helper services
are not reached: the reading is guarded by `i > 0`) -/
def adxC : List (Candle F) → Int → PyM (Val F × List (Candle F)) :=
  fun cs i => Calc.adx (adxOps name p signal i) { cs := cs, i := i, name := name }

/-- **the engine's `_calculate_reading` of the ADX node**, every index, every list -/
theorem adxC_calc (f : Nat) (cs : List (Candle F)) (i : Int) :
    calcReading (f + 7) (adxP (F := F) name round p signal) cs i = adxC name p signal cs i := by
  rw [calcReading]
  unfold calcKind
  rw [adxP_kind]
  simp only
  unfold adxC Calc.adx
  by_cases hi : i > 0
  · have hgM : (adxP (F := F) name round p signal).getManaged "ADX_data" = .ok (adxM name p) :=
      getManaged_eq _ _ _ (by rw [adxP_managed]; simp [dlookup])
    have hgD : (adxP (F := F) name round p signal).getManaged "dx" = .ok (adxDx name signal) :=
      getManaged_eq _ _ _ (by rw [adxP_managed]; simp [dlookup])
    have hset : ∀ (v : Val F) (cs : List (Candle F)),
        (do let m ← (adxP (F := F) name round p signal).getManaged "ADX_data"
            setManagedReading (f + 6) m cs i v) = (adxOps name p signal i).setManaged "ADX_data" v cs := by
      intro v cs
      rw [hgM]
      simp only [bind, Except.bind]
      rw [setManagedReading_postLeaves (adxM name p) (adxM_post name p) (f + 6)
        (by rw [adxM_subs]; simp only [List.length_cons, List.length_nil]; omega) cs i hi v]
      show (do
        let cs₁ ← setReading true (name ++ "_data") cs i v
        [adxPos name p, adxNeg name p].foldlM (fun cs s => stepLeaf s cs i) cs₁) = _
      unfold adxOps
      simp only [List.foldlM_cons, List.foldlM_nil, bind_pure_id]
    have hcalc : ∀ cs : List (Candle F),
        (do let m ← (adxP (F := F) name round p signal).getManaged "dx"
            calculateIndex (f + 6) m cs i (i + 1)) = (adxOps name p signal i).calcManaged "dx" cs := by
      intro cs
      rw [hgD]
      simp only [bind, Except.bind]
      rw [calculateIndex_leaf_single (adxDx name signal) ⟨rfl, rfl, rfl⟩ (f + 6) cs i (by omega)]
      rfl
    simp only [hset, hcalc, adxP_name]
  · have hd : (!decide (i > 0)) = true := by simp [hi]
    simp only [hd, if_true]

/-! ### the engine on the ADX tree -/

/-- `calcLoop` of a node whose `_calculate_reading` is `C` from fuel `K` on -/
theorem Adx.calcLoop_withK (K : Nat) (hK : 1 ≤ K) (ind : Ind F) (C : List (Candle F) → Int → PyM (Val F × List (Candle F)))
    (hC : ∀ f cs i, calcReading (f + K) ind cs i = C cs i) :
    ∀ (n fuel : Nat) (cs : List (Candle F)) (k : Nat), n + K ≤ fuel →
      calcLoop fuel ind cs k n = Gen.nodeLoop (specWith ind C) cs k n := by
  intro n
  induction n with
  | zero =>
    intro fuel cs k hf
    obtain ⟨f, rfl⟩ : ∃ f, fuel = f + 1 := ⟨fuel - 1, by omega⟩
    rw [calcLoop]
    · rfl
    · intro h0; omega
  | succ n ih =>
    intro fuel cs k hf
    obtain ⟨f, rfl⟩ : ∃ f, fuel = (f + K) + 1 := ⟨fuel - K - 1, by omega⟩
    rw [calcLoop, Gen.nodeLoop]
    cases hc : pyIndex cs (k : Int) with
    | error e => rfl
    | ok c =>
      simp only [bind, Except.bind]
      show (do
        let cs ← if present ind.name c then pure cs else do
          let (v, cs) ← calcReading (f + K) ind cs k
          setReading ind.isSub ind.name cs k (v.roundBy ind.round)
        calcLoop (f + K) ind cs (k + 1) n) = _
      rw [hC f]
      simp only [bind, Except.bind, specWith, stepWith]
      by_cases hp : present ind.name c = true
      · simp only [hp, if_true, pure, Except.pure]
        exact ih (f + K) cs (k + 1) (by omega)
      · simp only [hp, Bool.false_eq_true, if_false]
        cases hr : C cs (k : Int) with
        | error e => rfl
        | ok r =>
          simp only
          cases hs : setReading ind.isSub ind.name r.2 (k : Int) (r.1.roundBy ind.round) with
          | error e => rfl
          | ok cs' => exact ih (f + K) cs' (k + 1) (by omega)

/-- **the engine on the ADX tree**: the TR pass, the ATR pass, then the node's own loop, whose step
writes `<name>_data`, `<name>_pos`, `<name>_neg`, `<name>_dx` and the node's key -/
theorem engineCalc_adx (cs : List (Candle F)) :
    engineCalc (adxP (F := F) name round p signal) cs = (do
      let c₁ ← leafCalc (adxTr name) cs
      let c₂ ← leafCalc (adxA name p) c₁
      Gen.nodeCalc (specWith (adxP name round p signal) (adxC name p signal)) c₂) := by
  unfold engineCalc fuelFor
  obtain ⟨f, hf⟩ : ∃ f, 16 + 2 * cs.length + 1 = (f + 2) + 1 := ⟨14 + 2 * cs.length, by omega⟩
  rw [hf, calculate_succ, adxP_subs, calcSubs_prior_one f _ rfl rfl,
      calculate_one_prior (adxA name p) (adxTr name) (adxA_subs name p) rfl ⟨rfl, rfl, rfl⟩ rfl rfl (f + 1) cs
        (by omega)]
  simp only [bind, Except.bind]
  cases h1 : leafCalc (adxTr (F := F) name) cs with
  | error e => rfl
  | ok c₁ =>
    simp only
    have l1 := leafCalc_length _ cs c₁ h1
    cases h2 : leafCalc (adxA (F := F) name p) c₁ with
    | error e => rfl
    | ok c₂ =>
      simp only
      have l2 := leafCalc_length _ c₁ c₂ h2
      rw [Adx.calcLoop_withK 7 (by omega) (adxP name round p signal) (adxC name p signal)
        (adxC_calc name round p signal) _ _ _ _ (by omega)]
      unfold Gen.nodeCalc
      have hnm : (specWith (adxP (F := F) name round p signal) (adxC name p signal)).name
          = (adxP (F := F) name round p signal).name := rfl
      rw [hnm]
      cases Gen.nodeLoop (specWith (adxP name round p signal) (adxC name p signal)) c₂
          (findCalcIndex (adxP (F := F) name round p signal).name c₂)
          (c₂.length - findCalcIndex (adxP (F := F) name round p signal).name c₂) with
      | error e => rfl
      | ok c₃ => simp only [calcSubs_post_one f (adxA name p) rfl rfl]

end adx
end Hex

/-! ### small facts about dicts, candles and readings (kept in their own namespace) -/
namespace Hex.Adx
set_option linter.unusedSectionVars false
variable {F : Type} [PyF F]

/-- updates under different keys commute once the first key is in the dict (in-place replacement) -/
theorem dset_comm {α : Type} (k k' : String) (w v : α) (l : List (String × α)) (hne : k ≠ k')
    (hin : dlookup k l ≠ none) : dset k w (dset k' v l) = dset k' v (dset k w l) := by
  induction l with
  | nil => simp at hin
  | cons q r ih =>
    obtain ⟨k0, v0⟩ := q
    by_cases h0 : k0 = k
    · subst h0
      simp [dset, hne]
    · by_cases h1 : k0 = k'
      · subst h1
        simp [dset, h0]
      · have hin' : dlookup k r ≠ none := by simpa [dlookup, h0] using hin
        simp [dset, h0, h1, ih hin']

theorem setKey_comm (k k' : String) (w v : Val F) (c : Candle F) (hne : k ≠ k')
    (hin : dlookup k c.subs ≠ none) :
    setKey true k w (setKey true k' v c) = setKey true k' v (setKey true k w c) := by
  simp only [setKey, if_true]
  rw [dset_comm k k' w v c.subs hne hin]

theorem setKey_sub_absorb (k : String) (v : Val F) (d : Candle F) (h : dlookup k d.subs = some v) :
    setKey true k v d = d := by
  simp [setKey, dset_absorb k v d.subs h]

theorem setKey_ind_absorb (k : String) (v : Val F) (d : Candle F) (h : dlookup k d.inds = some v) :
    setKey false k v d = d := by
  simp [setKey, dset_absorb k v d.inds h]

@[simp] theorem setKey_true_inds (k : String) (v : Val F) (c : Candle F) : (setKey true k v c).inds = c.inds := rfl
@[simp] theorem setKey_true_subs (k : String) (v : Val F) (c : Candle F) :
    (setKey true k v c).subs = dset k v c.subs := rfl
@[simp] theorem setKey_false_inds (k : String) (v : Val F) (c : Candle F) :
    (setKey false k v c).inds = dset k v c.inds := rfl
@[simp] theorem setKey_false_subs (k : String) (v : Val F) (c : Candle F) : (setKey false k v c).subs = c.subs := rfl

theorem frameK_refl (keys : List String) (c : Candle F) : FrameK keys c c := ⟨rfl, fun _ _ => ⟨rfl, rfl⟩⟩

theorem frameK_mono {k1 k2 : List String} {c c' : Candle F} (h : FrameK k1 c c') (hsub : ∀ k ∈ k1, k ∈ k2) :
    FrameK k2 c c' := ⟨h.1, fun k hk => h.2 k (fun hm => hk (hsub k hm))⟩

theorem entries_setKey (isSub : Bool) (k : String) (v : Val F) (c : Candle F) :
    (∀ q ∈ (setKey isSub k v c).inds, q ∈ c.inds ∨ q.1 = k) ∧
    (∀ q ∈ (setKey isSub k v c).subs, q ∈ c.subs ∨ q.1 = k) := by
  cases isSub
  · exact ⟨fun q hq => mem_dset _ _ _ q hq, fun q hq => Or.inl hq⟩
  · exact ⟨fun q hq => Or.inl hq, fun q hq => mem_dset _ _ _ q hq⟩

theorem subs_of_noKey (name : String) (c : Candle F) (h : hasKey name c = false) : dlookup name c.subs = none := by
  unfold hasKey dhas at h
  cases hl : dlookup name c.subs with
  | none => rfl
  | some v => simp [hl] at h

theorem hasKey_of_frame {keys : List String} {k : String} (hk : k ∉ keys) {c c' : Candle F}
    (h : FrameK keys c c') : hasKey k c' = hasKey k c := by
  unfold hasKey dhas
  rw [(h.2 k hk).1, (h.2 k hk).2]

/-- a dotted name does not see entries under other keys -/
theorem indep_dotted (k full D fld : String) (hs : splitDot full = [D, fld]) (hne : k ≠ D) :
    Indep F k full := by
  intro isSub v c
  unfold readingByCandle
  rw [hs]
  cases isSub <;> simp [setKey, dlookup_dset_ne _ _ _ _ hne]

/-- reading a plain key right after storing it in `.sub_indicators`: `.indicators` wins -/
theorem rbc_key_set (k : String) (hk : IsKey k) (v : Val F) (c : Candle F) :
    readingByCandle (setKey true k v c) k = (dlookup k c.inds).getD v := by
  rw [readingByCandle_key k hk]
  unfold lookupKey
  simp only [setKey_true_inds, setKey_true_subs, dlookup_dset_self]
  cases dlookup k c.inds <;> rfl

/-- reading a field of a dict right after storing the dict in `.sub_indicators` -/
theorem rbc_field_set (D fld full : String) (hs : splitDot full = [D, fld]) (v : Val F) (c : Candle F) :
    readingByCandle (setKey true D v c) full = ((dlookup D c.inds).getD v).nested fld := by
  unfold readingByCandle
  rw [hs]
  simp only [setKey_true_inds, setKey_true_subs, dlookup_dset_self]
  cases dlookup D c.inds <;> rfl

/-- a dotted name addresses the field of the entry under the key before the dot -/
theorem splitDot_field (key fld full : String) (h : NoDot key) (hf : '.' ∉ fld.toList)
    (e : full.toList = key.toList ++ '.' :: fld.toList) : splitDot full = [key, fld] := by
  have hm := noDot_not_mem key h
  unfold splitDot
  rw [e, List.splitOn_append_cons_self_of_not_mem hm, List.splitOn_eq_singleton hf]
  simp

/-- the last reading of a history through its column -/
theorem lastReading_col (nm : String) (H : List (Candle F)) :
    Ctx.lastReading nm H = ((col nm H).getLast?).getD .none := by
  unfold Ctx.lastReading col
  rw [List.getLast?_map]
  cases H.getLast? <;> rfl

theorem lastReading_sees (keys : List String) (nm : String) (hs : Sees F keys nm) {H H' : List (Candle F)}
    (h : SimL keys H H') : Ctx.lastReading nm H = Ctx.lastReading nm H' := by
  rw [lastReading_col, lastReading_col, col_simL keys nm hs h]

/-- the reading one index back, at the end of a non-empty history -/
theorem num_back (H : List (Candle F)) (c : Candle F) (rest : List (Candle F)) (name nm : String)
    (hpos : (H.length : Int) > 0) :
    ({ cs := H ++ c :: rest, i := H.length, name := name } : Ctx F).num nm (some ((H.length : Int) - 1))
      = (Ctx.lastReading nm H).asNum := by
  rw [← Ctx.prevNum_append_cons H c rest name nm]
  unfold Ctx.prevNum Ctx.prevReading Ctx.num
  have h1 : ((H ++ c :: rest).length == 0) = false := by simp
  have h2 : (((H.length : Nat) : Int) == 0) = false := beq_eq_false_iff_ne.2 (by omega)
  simp only [h1, h2, Bool.or_false, Bool.false_eq_true, if_false]

/-- RMA at the end of a history: only the input column and the last own reading matter -/
theorem rma_cur (H H' : List (Candle F)) (c c' : Candle F) (nm : String) (q : Int) (inp : String)
    (hcolH : col inp H = col inp H') (hc : readingByCandle c inp = readingByCandle c' inp)
    (hlast : Ctx.lastReading nm H = Ctx.lastReading nm H') :
    Calc.rma { cs := H ++ [c], i := H.length, name := nm } q inp
      = Calc.rma { cs := H' ++ [c'], i := H'.length, name := nm } q inp := by
  have hlen : H.length = H'.length := by
    have := congrArg List.length hcolH
    simpa [col] using this
  refine rma_congr _ _ q inp ⟨by show ((H.length : Nat) : Int) = H'.length; rw [hlen], ?_⟩ ?_ ?_
  · show col inp (H ++ [c]) = col inp (H' ++ [c'])
    unfold col at hcolH ⊢
    simp only [List.map_append, List.map_cons, List.map_nil, hcolH, hc]
  · show ({ cs := H ++ [c], i := H.length, name := nm } : Ctx F).prevExists nm
      = ({ cs := H' ++ [c'], i := H'.length, name := nm } : Ctx F).prevExists nm
    rw [Ctx.prevExists_append_cons, Ctx.prevExists_append_cons, hlast]
  · show ({ cs := H ++ [c], i := H.length, name := nm } : Ctx F).prevNum nm
      = ({ cs := H' ++ [c'], i := H'.length, name := nm } : Ctx F).prevNum nm
    rw [Ctx.prevNum_append_cons, Ctx.prevNum_append_cons, hlast]

/-- one unconditional step of an RMA leaf at the end of a history -/
theorem stepLeaf_rma (Z : Ind F) (q : Int) (inp : String) (hk : Z.kind = .rma q inp) (hq : 1 ≤ q)
    (H : List (Candle F)) (c : Candle F) (rest : List (Candle F)) :
    stepLeaf Z (H ++ c :: rest) H.length = (do
      let v ← Calc.rma { cs := H ++ [c], i := H.length, name := Z.name } q inp
      pure (H ++ setKey Z.isSub Z.name (v.roundBy Z.round) c :: rest)) := by
  rw [stepLeaf_append_cons, hk]
  show (do
    let v ← Calc.rma { cs := H ++ c :: rest, i := H.length, name := Z.name } q inp
    pure (H ++ setKey Z.isSub Z.name (v.roundBy Z.round) c :: rest)) = _
  rw [← trunc_append_cons H c rest, rma_trunc _ q inp (by simp) (by simp) hq]

/- (not stated as `rfl`-lemmas on purpose: `simp` then builds explicit rewrite proofs instead of
leaving a large definitional unfolding to the kernel) -/
theorem bind_ok' {α β : Type} (a : α) (f : α → PyM β) : ((Except.ok a : PyM α) >>= f) = f a :=
  Eq.trans rfl rfl
theorem bind_err' {α β : Type} (e : PyErr) (f : α → PyM β) :
    ((Except.error e : PyM α) >>= f) = Except.error e := Eq.trans rfl rfl

end Hex.Adx

namespace Hex
open Adx
set_option linter.unusedSectionVars false
variable {F : Type} [PyF F]

/-- name conditions of an ADX node: the node's name and the six helper names are ordinary keys (no
dot, not a candle attribute) and pairwise distinct -/
structure AdxNames (name : String) : Prop where
  kN : IsKey name
  kA : IsKey (name ++ "_atr")
  kT : IsKey (name ++ "_atr" ++ "_TR")
  kD : IsKey (name ++ "_data")
  kP : IsKey (name ++ "_pos")
  kG : IsKey (name ++ "_neg")
  kX : IsKey (name ++ "_dx")
  nA : name ≠ name ++ "_atr"
  nT : name ≠ name ++ "_atr" ++ "_TR"
  nD : name ≠ name ++ "_data"
  nP : name ≠ name ++ "_pos"
  nG : name ≠ name ++ "_neg"
  nX : name ≠ name ++ "_dx"
  AT : name ++ "_atr" ≠ name ++ "_atr" ++ "_TR"
  AD : name ++ "_atr" ≠ name ++ "_data"
  AP : name ++ "_atr" ≠ name ++ "_pos"
  AG : name ++ "_atr" ≠ name ++ "_neg"
  AX : name ++ "_atr" ≠ name ++ "_dx"
  TD : name ++ "_atr" ++ "_TR" ≠ name ++ "_data"
  TP : name ++ "_atr" ++ "_TR" ≠ name ++ "_pos"
  TG : name ++ "_atr" ++ "_TR" ≠ name ++ "_neg"
  TX : name ++ "_atr" ++ "_TR" ≠ name ++ "_dx"
  DP : name ++ "_data" ≠ name ++ "_pos"
  DG : name ++ "_data" ≠ name ++ "_neg"
  DX : name ++ "_data" ≠ name ++ "_dx"
  PG : name ++ "_pos" ≠ name ++ "_neg"
  PX : name ++ "_pos" ≠ name ++ "_dx"
  GX : name ++ "_neg" ≠ name ++ "_dx"

theorem AdxNames.dPos {name : String} (hn : AdxNames name) :
    splitDot (name ++ "_data.pos") = [name ++ "_data", "pos"] :=
  splitDot_field (name ++ "_data") "pos" _ hn.kD.noDot (by decide)
    (by simp only [String.toList_append, List.append_assoc]; rfl)

theorem AdxNames.dNeg {name : String} (hn : AdxNames name) :
    splitDot (name ++ "_data.neg") = [name ++ "_data", "neg"] :=
  splitDot_field (name ++ "_data") "neg" _ hn.kD.noDot (by decide)
    (by simp only [String.toList_append, List.append_assoc]; rfl)

theorem AdxNames.dDx {name : String} (hn : AdxNames name) :
    splitDot (name ++ "_data.dx") = [name ++ "_data", "dx"] :=
  splitDot_field (name ++ "_data") "dx" _ hn.kD.noDot (by decide)
    (by simp only [String.toList_append, List.append_assoc]; rfl)

section adxNode
variable (name : String) (round : Nat) (p signal : Int)

/-! ### the node's own step as a value and a store -/

/-- the reading while the guards fail -/
def adxNone3 : Val F := sdict [("ADX", .none), ("DM_Plus", .none), ("DM_Neg", .none)]

/-- the candle after `Managed.set_reading(d)` of `ADX_data`: the dict and the two smoothed values -/
def adxSt (d a b : Val F) (c : Candle F) : Candle F :=
  setKey true (name ++ "_neg") b (setKey true (name ++ "_pos") a (setKey true (name ++ "_data") d c))

/-- the (rounded) readings of the two smoothing RMAs after the dict `d` is stored on the current candle -/
def adxSetV (H : List (Candle F)) (d : Val F) (c : Candle F) : PyM (Val F × Val F) := do
  let a ← Calc.rma { cs := H ++ [setKey true (name ++ "_data") d c], i := H.length, name := name ++ "_pos" }
    p (name ++ "_data.pos")
  let b ← Calc.rma { cs := H ++ [setKey true (name ++ "_pos") (a.roundBy defaultRound)
      (setKey true (name ++ "_data") d c)], i := H.length, name := name ++ "_neg" } p (name ++ "_data.neg")
  pure (a.roundBy defaultRound, b.roundBy defaultRound)

/-- the (rounded) reading of the `dx` RMA on the current candle -/
def adxDxV (H : List (Candle F)) (c : Candle F) : PyM (Val F) := do
  let x ← Calc.rma { cs := H ++ [c], i := H.length, name := name ++ "_dx" } signal (name ++ "_data.dx")
  pure (x.roundBy defaultRound)

/-- `Managed.set_reading` of `ADX_data` on `H ++ c :: rest` at the index of `c` -/
theorem setManaged_cur (hp : 1 ≤ p) (k : String) (d : Val F) (H : List (Candle F)) (c : Candle F)
    (rest : List (Candle F)) :
    (adxOps (F := F) name p signal H.length).setManaged k d (H ++ c :: rest) = (do
      let ab ← adxSetV name p H d c
      pure (H ++ adxSt name d ab.1 ab.2 c :: rest)) := by
  unfold adxOps adxSetV
  simp only [setReading_eq, updateAt_append_cons, bind, Except.bind]
  rw [stepLeaf_rma (adxPos name p) p _ rfl hp]
  show (do
    let cs₂ ← (do
      let v ← Calc.rma { cs := H ++ [setKey true (name ++ "_data") d c], i := H.length, name := name ++ "_pos" }
        p (name ++ "_data.pos")
      pure (H ++ setKey true (name ++ "_pos") (v.roundBy defaultRound) (setKey true (name ++ "_data") d c) :: rest))
    stepLeaf (adxNeg name p) cs₂ H.length) = _
  cases Calc.rma { cs := H ++ [setKey true (name ++ "_data") d c], i := H.length, name := name ++ "_pos" }
      p (name ++ "_data.pos") with
  | error e => rfl
  | ok a =>
    simp only [bind, Except.bind, pure, Except.pure]
    rw [stepLeaf_rma (adxNeg name p) p _ rfl hp]
    show (do
      let v ← Calc.rma { cs := H ++ [setKey true (name ++ "_pos") (a.roundBy defaultRound)
        (setKey true (name ++ "_data") d c)], i := H.length, name := name ++ "_neg" } p (name ++ "_data.neg")
      pure (H ++ setKey true (name ++ "_neg") (v.roundBy defaultRound)
        (setKey true (name ++ "_pos") (a.roundBy defaultRound) (setKey true (name ++ "_data") d c)) :: rest)) = _
    cases Calc.rma { cs := H ++ [setKey true (name ++ "_pos") (a.roundBy defaultRound)
        (setKey true (name ++ "_data") d c)], i := H.length, name := name ++ "_neg" } p (name ++ "_data.neg") with
    | error e => rfl
    | ok b => rfl

/-- `calculate_index(i)` of `dx` on `H ++ c :: rest` at the index of `c` -/
theorem calcManaged_cur (hs : 1 ≤ signal) (k : String) (H : List (Candle F)) (c : Candle F)
    (rest : List (Candle F)) :
    (adxOps (F := F) name p signal H.length).calcManaged k (H ++ c :: rest) = (do
      let x ← adxDxV name signal H c
      pure (H ++ setKey true (name ++ "_dx") x c :: rest)) := by
  unfold adxOps adxDxV
  simp only
  rw [stepLeaf_rma (adxDx name signal) signal _ rfl hs]
  show (do
    let v ← Calc.rma { cs := H ++ [c], i := H.length, name := name ++ "_dx" } signal (name ++ "_data.dx")
    pure (H ++ setKey true (name ++ "_dx") (v.roundBy defaultRound) c :: rest)) = _
  cases Calc.rma { cs := H ++ [c], i := H.length, name := name ++ "_dx" } signal (name ++ "_data.dx") with
  | error e => rfl
  | ok x => rfl

/-! #### `Calc.adx` in stages (continuation style, so that the stages compose by `rfl`) -/

/-- the arithmetic middle of the reading: the directional indices and DX from the helpers' readings -/
def adxMid {α : Type} (atr pos : Val F) (negN : PyM (Num F)) (K : Num F → Num F → Num F → PyM α) : PyM α := do
  let a ← atr.asNum
  let mod : Num F ← if a.eq (.int 0) then pure (fl 0) else (Num.int 100 : Num F).truediv a
  let plus := mod.mul (← pos.asNum)
  let minus := mod.mul (← negN)
  let diSum := plus.add minus
  let dx : Num F ← if diSum.eq (.int 0) then pure (fl 0) else
    ((Num.int 100).mul (plus.sub minus).abs).truediv diSum
  K plus minus dx

/-- last stage of `Calc.adx`: store the three-entry dict, step `dx`, read it back -/
def adxK3 (ops : Ops F) (x : Ctx F) (positive negative plus minus dx : Num F) (cs : List (Candle F)) :
    PyM (Val F × List (Candle F)) := do
  let cs ← ops.setManaged "ADX_data"
    (sdict [("pos", sc positive), ("neg", sc negative), ("dx", sc dx)]) cs
  let cs ← ops.calcManaged "dx" cs
  let dxr ← ({ x with cs := cs } : Ctx F).reading (x.name ++ "_dx")
  return (sdict [("ADX", ← Val.toScalar dxr), ("DM_Plus", sc plus), ("DM_Neg", sc minus)], cs)

/-- second stage of `Calc.adx`: read the helpers back after the first store -/
def adxK2 (ops : Ops F) (x : Ctx F) (positive negative : Num F) (cs : List (Candle F)) :
    PyM (Val F × List (Candle F)) := do
  let atr ← ({ x with cs := cs } : Ctx F).reading (x.name ++ "_atr")
  let pos ← ({ x with cs := cs } : Ctx F).reading (x.name ++ "_pos")
  if atr.isNone || pos.isNone then return (adxNone3, cs)
  else
    (adxMid atr pos (({ x with cs := cs } : Ctx F).num (x.name ++ "_neg"))
      (fun plus minus dx => adxK3 ops x positive negative plus minus dx cs))

/-- first stage of `Calc.adx`: the directional movements and the first store -/
def adxK1 (ops : Ops F) (x : Ctx F) (up down : Num F) : PyM (Val F × List (Candle F)) := do
  let positive : Num F := if up.gt down && up.gt (.int 0) then up else .int 0
  let negative : Num F := if down.gt up && down.gt (.int 0) then down else .int 0
  let cs ← ops.setManaged "ADX_data" (sdict [("pos", sc positive), ("neg", sc negative)]) x.cs
  adxK2 ops x positive negative cs

/-- `Calc.adx` is the composition of the stages -/
theorem adx_unfold (ops : Ops F) (x : Ctx F) :
    Calc.adx ops x = (if !(x.i > 0) then return (adxNone3, x.cs) else do
      let hi ← x.num "high"
      let hp ← x.num "high" (some (x.i - 1))
      let lp ← x.num "low" (some (x.i - 1))
      let lo ← x.num "low"
      adxK1 ops x (hi.sub hp) (lp.sub lo)) := rfl

theorem adxMid_bind {α β : Type} (atr pos : Val F) (negN : PyM (Num F)) (K : Num F → Num F → Num F → PyM α)
    (g : α → PyM β) :
    (adxMid atr pos negN K >>= g) = adxMid atr pos negN (fun a b c => K a b c >>= g) := by
  have ite_bind' : ∀ {γ δ : Type} (cnd : Prop) [Decidable cnd] (u v : PyM γ) (h : γ → PyM δ),
      ((if cnd then u else v) >>= h) = if cnd then u >>= h else v >>= h := by
    intro γ δ cnd _ u v h
    split <;> rfl
  simp only [adxMid, bind_assoc, ite_bind']

/-! #### the same stages on the current candle only -/

/-- what the node's step stores and returns: (the final dict of `ADX_data`, the two smoothed values
and – past the guard – the `dx` reading, if the index is positive; the own value) -/
abbrev AdxW (F : Type) := Option (Val F × Val F × Val F × Option (Val F)) × Val F

/-- last part of the step: store the three-entry dict, step `dx` and read it back -/
def adxVal3 (H : List (Candle F)) (c : Candle F) (positive negative : Num F) (a b : Val F)
    (plus minus dx : Num F) : PyM (AdxW F) := do
  let x ← adxDxV name signal H
    (adxSt name (sdict [("pos", sc positive), ("neg", sc negative), ("dx", sc dx)]) a b c)
  let dxr := readingByCandle (setKey true (name ++ "_dx") x
    (adxSt name (sdict [("pos", sc positive), ("neg", sc negative), ("dx", sc dx)]) a b c)) (name ++ "_dx")
  pure (some (sdict [("pos", sc positive), ("neg", sc negative), ("dx", sc dx)], a, b, some x),
    sdict [("ADX", ← Val.toScalar dxr), ("DM_Plus", sc plus), ("DM_Neg", sc minus)])

/-- third part of the step: read the helpers back; if they have readings, derive the directional
indices and DX and go on -/
def adxVal2 (H : List (Candle F)) (c : Candle F) (positive negative : Num F) (a b : Val F) : PyM (AdxW F) :=
  if (readingByCandle (adxSt name (sdict [("pos", sc positive), ("neg", sc negative)]) a b c)
        (name ++ "_atr")).isNone ||
      (readingByCandle (adxSt name (sdict [("pos", sc positive), ("neg", sc negative)]) a b c)
        (name ++ "_pos")).isNone then
    .ok (some (sdict [("pos", sc positive), ("neg", sc negative)], a, b, none), adxNone3)
  else
    adxMid
      (readingByCandle (adxSt name (sdict [("pos", sc positive), ("neg", sc negative)]) a b c) (name ++ "_atr"))
      (readingByCandle (adxSt name (sdict [("pos", sc positive), ("neg", sc negative)]) a b c) (name ++ "_pos"))
      (readingByCandle (adxSt name (sdict [("pos", sc positive), ("neg", sc negative)]) a b c)
        (name ++ "_neg")).asNum
      (fun plus minus dx => adxVal3 name signal H c positive negative a b plus minus dx)

/-- second part: the directional movements, the two-entry dict and the two smoothing RMAs -/
def adxVal1 (H : List (Candle F)) (c : Candle F) (up down : Num F) : PyM (AdxW F) := do
  let positive : Num F := if up.gt down && up.gt (.int 0) then up else .int 0
  let negative : Num F := if down.gt up && down.gt (.int 0) then down else .int 0
  let ab ← adxSetV name p H (sdict [("pos", sc positive), ("neg", sc negative)]) c
  adxVal2 name signal H c positive negative ab.1 ab.2

/-- what the node computes for the candle `c` after the history `H` -/
def adxVal (H : List (Candle F)) (c : Candle F) : PyM (AdxW F) :=
  if !((H.length : Int) > 0) then .ok (none, adxNone3) else do
    let hi ← (readingByCandle c "high").asNum
    let hp ← (Ctx.lastReading "high" H).asNum
    let lp ← (Ctx.lastReading "low" H).asNum
    let lo ← (readingByCandle c "low").asNum
    adxVal1 name p signal H c (hi.sub hp) (lp.sub lo)

/-- what the node's step stores besides its own reading -/
def adxStore : Option (Val F × Val F × Val F × Option (Val F)) → Candle F → Candle F
  | none, c => c
  | some (d, a, b, ox), c => setD (name ++ "_dx") ox (adxSt name d a b c)

/-- the finished candle -/
def adxApp (z : AdxW F) (c : Candle F) : Candle F :=
  setKey false name (z.2.roundBy round) (adxStore name z.1 c)

/-- storing again with the same smoothed values only replaces the dict -/
theorem adxSt_again (hn : AdxNames name) (d d' a b : Val F) (c : Candle F) :
    adxSt name d' a b (adxSt name d a b c) = adxSt name d' a b c := by
  unfold adxSt
  have h1 : dlookup (name ++ "_data") (setKey true (name ++ "_pos") a (setKey true (name ++ "_data") d c)).subs
      ≠ none := by
    simp [dlookup_dset_ne _ _ _ _ hn.DP.symm, dlookup_dset_self]
  have h2 : dlookup (name ++ "_data") (setKey true (name ++ "_data") d c).subs ≠ none := by
    simp [dlookup_dset_self]
  rw [setKey_comm _ _ d' b _ hn.DG h1, setKey_comm _ _ d' a _ hn.DP h2, setKey_setKey]
  have h3 : dlookup (name ++ "_pos")
      (setKey true (name ++ "_neg") b (setKey true (name ++ "_pos") a (setKey true (name ++ "_data") d' c))).subs
      = some a := by
    simp [dlookup_dset_ne _ _ _ _ hn.PG.symm, dlookup_dset_self]
  rw [setKey_sub_absorb _ a _ h3]
  exact setKey_setKey _ _ _ _ _

/-- the two smoothing RMAs only see the fields of the dict on the current candle, their input
columns over the history and their last readings -/
theorem adxSetV_congr (hn : AdxNames name) (H H' : List (Candle F)) (d d' : Val F) (c c' : Candle F)
    (hcP : col (name ++ "_data.pos") H = col (name ++ "_data.pos") H')
    (hcG : col (name ++ "_data.neg") H = col (name ++ "_data.neg") H')
    (hlP : Ctx.lastReading (name ++ "_pos") H = Ctx.lastReading (name ++ "_pos") H')
    (hlG : Ctx.lastReading (name ++ "_neg") H = Ctx.lastReading (name ++ "_neg") H')
    (h1 : readingByCandle (setKey true (name ++ "_data") d c) (name ++ "_data.pos")
      = readingByCandle (setKey true (name ++ "_data") d' c') (name ++ "_data.pos"))
    (h2 : readingByCandle (setKey true (name ++ "_data") d c) (name ++ "_data.neg")
      = readingByCandle (setKey true (name ++ "_data") d' c') (name ++ "_data.neg")) :
    adxSetV name p H d c = adxSetV name p H' d' c' := by
  unfold adxSetV
  rw [rma_cur H H' (setKey true (name ++ "_data") d c) (setKey true (name ++ "_data") d' c')
    (name ++ "_pos") p (name ++ "_data.pos") hcP h1 hlP]
  cases Calc.rma { cs := H' ++ [setKey true (name ++ "_data") d' c'], i := H'.length, name := name ++ "_pos" }
      p (name ++ "_data.pos") with
  | error e => rfl
  | ok a =>
    simp only [bind_ok']
    rw [rma_cur H H' (setKey true (name ++ "_pos") (a.roundBy defaultRound) (setKey true (name ++ "_data") d c))
      (setKey true (name ++ "_pos") (a.roundBy defaultRound) (setKey true (name ++ "_data") d' c'))
      (name ++ "_neg") p (name ++ "_data.neg") hcG
      (by rw [indep_dotted _ _ _ _ hn.dNeg hn.DP.symm, indep_dotted _ _ _ _ hn.dNeg hn.DP.symm]; exact h2) hlG]

/-- storing a dict with the same `pos` / `neg` fields again gives the same smoothed values -/
theorem adxSetV_again (hn : AdxNames name) (H : List (Candle F)) (c : Candle F) (positive negative dx : Num F)
    (a b : Val F) :
    adxSetV name p H (sdict [("pos", sc positive), ("neg", sc negative), ("dx", sc dx)])
        (adxSt name (sdict [("pos", sc positive), ("neg", sc negative)]) a b c)
      = adxSetV name p H (sdict [("pos", sc positive), ("neg", sc negative)]) c := by
  apply adxSetV_congr name p hn H H _ _ _ _ rfl rfl rfl rfl
  · rw [rbc_field_set _ _ _ hn.dPos, rbc_field_set _ _ _ hn.dPos]
    show ((dlookup (name ++ "_data") c.inds).getD _).nested "pos" = _
    cases dlookup (name ++ "_data") c.inds <;> rfl
  · rw [rbc_field_set _ _ _ hn.dNeg, rbc_field_set _ _ _ hn.dNeg]
    show ((dlookup (name ++ "_data") c.inds).getD _).nested "neg" = _
    cases dlookup (name ++ "_data") c.inds <;> rfl

/-- the last stage on `H ++ c₃ :: rest`, followed by the store of the own reading -/
theorem adxK3_cur (hn : AdxNames name) (hp : 1 ≤ p) (hs : 1 ≤ signal) (H : List (Candle F)) (c : Candle F)
    (rest cs0 : List (Candle F)) (positive negative plus minus dx : Num F) (a b : Val F)
    (hab : adxSetV name p H (sdict [("pos", sc positive), ("neg", sc negative)]) c = .ok (a, b))
    (post : Val F × List (Candle F) → PyM (List (Candle F)))
    (hpost : ∀ v cs', post (v, cs') = setReading false name cs' H.length (v.roundBy round)) :
    (adxK3 (adxOps name p signal H.length) { cs := cs0, i := H.length, name := name } positive negative
        plus minus dx (H ++ adxSt name (sdict [("pos", sc positive), ("neg", sc negative)]) a b c :: rest) >>= post)
      = (adxVal3 name signal H c positive negative a b plus minus dx >>= fun z =>
          pure (H ++ adxApp name round z c :: rest)) := by
  unfold adxK3 adxVal3
  rw [setManaged_cur name p signal hp, adxSetV_again name p hn, hab]
  simp only [bind_ok', pure_bind, adxSt_again name hn, calcManaged_cur name p signal hs]
  cases adxDxV name signal H
      (adxSt name (sdict [("pos", sc positive), ("neg", sc negative), ("dx", sc dx)]) a b c) with
  | error e => rfl
  | ok x =>
    simp only [bind_ok', pure_bind, Ctx.reading_cur]
    cases Val.toScalar (readingByCandle (setKey true (name ++ "_dx") x
        (adxSt name (sdict [("pos", sc positive), ("neg", sc negative), ("dx", sc dx)]) a b c)) (name ++ "_dx")) with
    | error e => rfl
    | ok s =>
      simp only [bind_ok', pure_bind, hpost, setReading_eq, updateAt_append_cons]
      rfl

/-- the second stage on `H ++ c₃ :: rest`, followed by the store of the own reading -/
theorem adxK2_cur (hn : AdxNames name) (hp : 1 ≤ p) (hs : 1 ≤ signal) (H : List (Candle F)) (c : Candle F)
    (rest cs0 : List (Candle F)) (positive negative : Num F) (a b : Val F)
    (hab : adxSetV name p H (sdict [("pos", sc positive), ("neg", sc negative)]) c = .ok (a, b))
    (post : Val F × List (Candle F) → PyM (List (Candle F)))
    (hpost : ∀ v cs', post (v, cs') = setReading false name cs' H.length (v.roundBy round)) :
    (adxK2 (adxOps name p signal H.length) { cs := cs0, i := H.length, name := name } positive negative
        (H ++ adxSt name (sdict [("pos", sc positive), ("neg", sc negative)]) a b c :: rest) >>= post)
      = (adxVal2 name signal H c positive negative a b >>= fun z =>
          pure (H ++ adxApp name round z c :: rest)) := by
  unfold adxK2 adxVal2
  simp only [Ctx.reading_cur, Ctx.num_cur, bind_ok']
  by_cases hnone : ((readingByCandle (adxSt name (sdict [("pos", sc positive), ("neg", sc negative)]) a b c)
        (name ++ "_atr")).isNone ||
      (readingByCandle (adxSt name (sdict [("pos", sc positive), ("neg", sc negative)]) a b c)
        (name ++ "_pos")).isNone) = true
  · simp only [hnone, if_true, bind_ok', pure_bind, hpost, setReading_eq, updateAt_append_cons]
    rfl
  · simp only [hnone, Bool.false_eq_true, if_false]
    rw [adxMid_bind, adxMid_bind]
    congr 1
    funext plus minus dx
    exact adxK3_cur name round p signal hn hp hs H c rest cs0 positive negative plus minus dx a b hab post hpost

/-- the first stage on `H ++ c :: rest`, followed by the store of the own reading -/
theorem adxK1_cur (hn : AdxNames name) (hp : 1 ≤ p) (hs : 1 ≤ signal) (H : List (Candle F)) (c : Candle F)
    (rest : List (Candle F)) (up down : Num F)
    (post : Val F × List (Candle F) → PyM (List (Candle F)))
    (hpost : ∀ v cs', post (v, cs') = setReading false name cs' H.length (v.roundBy round)) :
    (adxK1 (adxOps name p signal H.length) { cs := H ++ c :: rest, i := H.length, name := name } up down >>= post)
      = (adxVal1 name p signal H c up down >>= fun z => pure (H ++ adxApp name round z c :: rest)) := by
  unfold adxK1 adxVal1
  simp only [setManaged_cur name p signal hp]
  cases hab : adxSetV name p H (sdict [("pos", sc (if (up.gt down && up.gt (.int 0)) = true then up else .int 0)),
      ("neg", sc (if (down.gt up && down.gt (.int 0)) = true then down else .int 0))]) c with
  | error e => rfl
  | ok ab =>
    obtain ⟨a, b⟩ := ab
    simp only [bind_ok', pure_bind]
    exact adxK2_cur name round p signal hn hp hs H c rest _ _ _ a b hab post hpost

/-- **the node's step on `H ++ c :: rest`**: compute from `H` and `c` only, store on `c` -/
theorem stepWith_adxC (hn : AdxNames name) (hp : 1 ≤ p) (hs : 1 ≤ signal) (H : List (Candle F)) (c : Candle F)
    (rest : List (Candle F)) :
    stepWith (adxP name round p signal) (adxC name p signal) (H ++ c :: rest) H.length = (do
      let z ← adxVal name p signal H c
      pure (H ++ adxApp name round z c :: rest)) := by
  have hpost : ∀ (v : Val F) (cs' : List (Candle F)),
      (fun (r : Val F × List (Candle F)) => match r with
        | (v, cs') => setReading (adxP (F := F) name round p signal).isSub (adxP (F := F) name round p signal).name
            cs' H.length (v.roundBy (adxP (F := F) name round p signal).round)) (v, cs')
        = setReading false name cs' H.length (v.roundBy round) := fun _ _ => rfl
  show (adxC name p signal (H ++ c :: rest) H.length >>= fun (r : Val F × List (Candle F)) => match r with
        | (v, cs') => setReading (adxP (F := F) name round p signal).isSub (adxP (F := F) name round p signal).name
            cs' H.length (v.roundBy (adxP (F := F) name round p signal).round)) = _
  unfold adxC adxVal
  rw [adx_unfold]
  by_cases hpos : (H.length : Int) > 0
  · have hd : (!decide ((H.length : Int) > 0)) = false := by simp only [hpos, decide_true, Bool.not_true]
    simp only [hd, Bool.false_eq_true, if_false, Ctx.num_cur, num_back H c rest name _ hpos]
    cases (readingByCandle c "high").asNum with
    | error e => simp only [bind_err']
    | ok hi =>
      simp only [bind_ok']
      cases (Ctx.lastReading "high" H).asNum with
      | error e => simp only [bind_err']
      | ok hpv =>
        simp only [bind_ok']
        cases (Ctx.lastReading "low" H).asNum with
        | error e => simp only [bind_err']
        | ok lp =>
          simp only [bind_ok']
          cases (readingByCandle c "low").asNum with
          | error e => simp only [bind_err']
          | ok lo =>
            simp only [bind_ok']
            exact adxK1_cur name round p signal hn hp hs H c rest _ _ _ hpost
  · have hd : (!decide ((H.length : Int) > 0)) = true := by simp only [hpos, decide_false, Bool.not_false]
    simp only [hd, if_true, pure_bind, bind_ok', setReading_eq, updateAt_append_cons]
    rfl


/-! #### what the value reads off the current candle -/

theorem adxSt_inds (d a b : Val F) (c : Candle F) : (adxSt name d a b c).inds = c.inds := rfl

theorem rbc_adxSt_atr (hn : AdxNames name) (d a b : Val F) (c : Candle F) :
    readingByCandle (adxSt name d a b c) (name ++ "_atr") = readingByCandle c (name ++ "_atr") := by
  unfold adxSt
  rw [indep_key _ _ hn.kA hn.AG.symm, indep_key _ _ hn.kA hn.AP.symm, indep_key _ _ hn.kA hn.AD.symm]

theorem rbc_adxSt_pos (hn : AdxNames name) (d a b : Val F) (c : Candle F) :
    readingByCandle (adxSt name d a b c) (name ++ "_pos") = (dlookup (name ++ "_pos") c.inds).getD a := by
  unfold adxSt
  rw [indep_key _ _ hn.kP hn.PG.symm, rbc_key_set _ hn.kP]
  rfl

theorem rbc_adxSt_neg (hn : AdxNames name) (d a b : Val F) (c : Candle F) :
    readingByCandle (adxSt name d a b c) (name ++ "_neg") = (dlookup (name ++ "_neg") c.inds).getD b := by
  unfold adxSt
  rw [rbc_key_set _ hn.kG]
  rfl

theorem rbc_adxSt_fld (hn : AdxNames name) (fld full : String) (hs : splitDot full = [name ++ "_data", fld])
    (d a b : Val F) (c : Candle F) :
    readingByCandle (adxSt name d a b c) full = ((dlookup (name ++ "_data") c.inds).getD d).nested fld := by
  unfold adxSt
  rw [indep_dotted _ _ _ _ hs hn.DG.symm, indep_dotted _ _ _ _ hs hn.DP.symm, rbc_field_set _ _ _ hs]

/-- the current candles `c`, `c'` look the same to the node's step: same bare candle, same ATR
entry, same `.indicators` entries under the four series names (those would shadow the stores) -/
structure AdxCur (name : String) (c c' : Candle F) : Prop where
  bare : c.bare = c'.bare
  atr : readingByCandle c (name ++ "_atr") = readingByCandle c' (name ++ "_atr")
  dI : dlookup (name ++ "_data") c.inds = dlookup (name ++ "_data") c'.inds
  pI : dlookup (name ++ "_pos") c.inds = dlookup (name ++ "_pos") c'.inds
  gI : dlookup (name ++ "_neg") c.inds = dlookup (name ++ "_neg") c'.inds
  xI : dlookup (name ++ "_dx") c.inds = dlookup (name ++ "_dx") c'.inds

/-- the read keys of the node's own step -/
def adxRKeys : List String :=
  [name ++ "_atr", name ++ "_data", name ++ "_pos", name ++ "_neg", name ++ "_dx"]

theorem adxVal3_congr (hn : AdxNames name) (H H' : List (Candle F)) (c c' : Candle F)
    (hH : SimL (adxRKeys name) H H') (hc : AdxCur name c c') (positive negative : Num F) (a b : Val F)
    (plus minus dx : Num F) :
    adxVal3 name signal H c positive negative a b plus minus dx
      = adxVal3 name signal H' c' positive negative a b plus minus dx := by
  unfold adxVal3 adxDxV
  rw [rma_cur H H' (adxSt name _ a b c) (adxSt name _ a b c') (name ++ "_dx") signal (name ++ "_data.dx")
    (col_simL _ _ (sees_dotted _ _ _ _ hn.dDx (by simp [adxRKeys])) hH)
    (by rw [rbc_adxSt_fld name hn _ _ hn.dDx, rbc_adxSt_fld name hn _ _ hn.dDx, hc.dI])
    (lastReading_simL _ hn.kX _ (by simp [adxRKeys]) hH)]
  simp only [rbc_key_set _ hn.kX, adxSt_inds, hc.xI]

theorem adxVal2_congr (hn : AdxNames name) (H H' : List (Candle F)) (c c' : Candle F)
    (hH : SimL (adxRKeys name) H H') (hc : AdxCur name c c') (positive negative : Num F) (a b : Val F) :
    adxVal2 name signal H c positive negative a b = adxVal2 name signal H' c' positive negative a b := by
  unfold adxVal2
  simp only [rbc_adxSt_atr name hn, rbc_adxSt_pos name hn, rbc_adxSt_neg name hn, hc.atr, hc.pI, hc.gI,
    adxVal3_congr name signal hn H H' c c' hH hc]

theorem adxVal1_congr (hn : AdxNames name) (H H' : List (Candle F)) (c c' : Candle F)
    (hH : SimL (adxRKeys name) H H') (hc : AdxCur name c c') (up down : Num F) :
    adxVal1 name p signal H c up down = adxVal1 name p signal H' c' up down := by
  unfold adxVal1
  simp only
  rw [adxSetV_congr name p hn H H' _ _ c c'
    (col_simL _ _ (sees_dotted _ _ _ _ hn.dPos (by simp [adxRKeys])) hH)
    (col_simL _ _ (sees_dotted _ _ _ _ hn.dNeg (by simp [adxRKeys])) hH)
    (lastReading_simL _ hn.kP _ (by simp [adxRKeys]) hH)
    (lastReading_simL _ hn.kG _ (by simp [adxRKeys]) hH)
    (by rw [rbc_field_set _ _ _ hn.dPos, rbc_field_set _ _ _ hn.dPos, hc.dI])
    (by rw [rbc_field_set _ _ _ hn.dNeg, rbc_field_set _ _ _ hn.dNeg, hc.dI])]
  simp only [adxVal2_congr name signal hn H H' c c' hH hc]

/-- **key locality of the value**: it only depends on the read keys of the history and on what the
step reads off the current candle -/
theorem adxVal_congr (hn : AdxNames name) (H H' : List (Candle F)) (c c' : Candle F)
    (hH : SimL (adxRKeys name) H H') (hc : AdxCur name c c') :
    adxVal name p signal H c = adxVal name p signal H' c' := by
  unfold adxVal
  rw [hH.length_eq, readingByCandle_attr_bare "high" noDot_high (by decide) c c' hc.bare,
    readingByCandle_attr_bare "low" noDot_low (by decide) c c' hc.bare,
    lastReading_sees _ "high" (sees_attr _ _ noDot_high (by decide)) hH,
    lastReading_sees _ "low" (sees_attr _ _ noDot_low (by decide)) hH]
  simp only [adxVal1_congr name p signal hn H H' c c' hH hc]

end adxNode
end Hex

namespace Hex
open Adx
set_option linter.unusedSectionVars false
variable {F : Type} [PyF F]

section adxComp
variable (name : String) (round : Nat) (p signal : Int)

/-- the write keys of the node's own step -/
def adxWKeys : List String :=
  [name ++ "_data", name ++ "_pos", name ++ "_neg", name ++ "_dx", name]

/-- **the ADX node's own step as a tolerant component**: reads the ATR key on the current candle and
the four series of the history, writes five keys -/
def adxCompP : TComp F where
  name := name
  ω := AdxW F
  val := adxVal name p signal
  app := adxApp name round
  rkeys := adxRKeys name
  wkeys := adxWKeys name
  Raw := fun c => hasKey name c = false ∧ hasKey (name ++ "_data") c = false ∧
    hasKey (name ++ "_pos") c = false ∧ hasKey (name ++ "_neg") c = false ∧ hasKey (name ++ "_dx") c = false
  Settled := fun H => ∀ d ∈ H, hasKey name d = true
  pass := Gen.nodeCalc (specWith (adxP name round p signal) (adxC name p signal))

/-! #### the store -/

theorem frameK_adxSt (d a b : Val F) (c : Candle F) :
    FrameK [name ++ "_data", name ++ "_pos", name ++ "_neg"] c (adxSt name d a b c) :=
  TComp.frameK_trans (TComp.frameK_trans (frameK_setKey true _ d c) (frameK_setKey true _ a _))
    (frameK_setKey true _ b _)

theorem frameK_adxStore (s : Option (Val F × Val F × Val F × Option (Val F))) (c : Candle F) :
    FrameK [name ++ "_data", name ++ "_pos", name ++ "_neg", name ++ "_dx"] c (adxStore name s c) := by
  cases s with
  | none => exact frameK_refl _ c
  | some t =>
    obtain ⟨d, a, b, ox⟩ := t
    exact TComp.frameK_trans (frameK_adxSt name d a b c) (frameK_setD _ ox _)

theorem frameK_adxApp (z : AdxW F) (c : Candle F) : FrameK (adxWKeys name) c (adxApp name round z c) :=
  TComp.frameK_trans (frameK_adxStore name z.1 c) (frameK_setKey false name _ _)

theorem simK_adxApp (keys : List String) (z : AdxW F) (c c' : Candle F) (h : SimK keys c c') :
    SimK keys (adxApp name round z c) (adxApp name round z c') := by
  unfold adxApp
  refine simK_setKey keys _ _ _ _ _ ?_
  obtain ⟨s, w⟩ := z
  cases s with
  | none => exact h
  | some t =>
    obtain ⟨d, a, b, ox⟩ := t
    exact simK_setD keys _ ox _ _
      (simK_setKey keys _ _ _ _ _ (simK_setKey keys _ _ _ _ _ (simK_setKey keys _ _ _ _ _ h)))

theorem inds_adxStore (s : Option (Val F × Val F × Val F × Option (Val F))) (c : Candle F) :
    (adxStore name s c).inds = c.inds := by
  cases s with
  | none => rfl
  | some t =>
    obtain ⟨d, a, b, ox⟩ := t
    cases ox <;> rfl

theorem inds_adxApp (k : String) (hk : name ≠ k) (z : AdxW F) (c : Candle F) :
    dlookup k (adxApp name round z c).inds = dlookup k c.inds := by
  show dlookup k (dset name _ (adxStore name z.1 c).inds) = _
  rw [dlookup_dset_ne _ _ _ _ hk, inds_adxStore]

theorem Adx.entries_setD (k : String) (ov : Option (Val F)) (c : Candle F) :
    (∀ q ∈ (setD k ov c).inds, q ∈ c.inds ∨ q.1 = k) ∧ (∀ q ∈ (setD k ov c).subs, q ∈ c.subs ∨ q.1 = k) := by
  cases ov with
  | none => exact ⟨fun q hq => Or.inl hq, fun q hq => Or.inl hq⟩
  | some v => exact entries_setKey true k v c

theorem entries_adxApp (z : AdxW F) (c : Candle F) :
    (∀ q ∈ (adxApp name round z c).inds, q ∈ c.inds ∨ q.1 ∈ adxWKeys name) ∧
    (∀ q ∈ (adxApp name round z c).subs, q ∈ c.subs ∨ q.1 ∈ adxWKeys name) := by
  have hst : (∀ q ∈ (adxStore name z.1 c).inds, q ∈ c.inds ∨ q.1 ∈ adxWKeys name) ∧
      (∀ q ∈ (adxStore name z.1 c).subs, q ∈ c.subs ∨ q.1 ∈ adxWKeys name) := by
    obtain ⟨s, w⟩ := z
    cases s with
    | none => exact ⟨fun q hq => Or.inl hq, fun q hq => Or.inl hq⟩
    | some t =>
      obtain ⟨d, a, b, ox⟩ := t
      have e1 := entries_setKey true (name ++ "_data") d c
      have e2 := entries_setKey true (name ++ "_pos") a (setKey true (name ++ "_data") d c)
      have e3 := entries_setKey true (name ++ "_neg") b
        (setKey true (name ++ "_pos") a (setKey true (name ++ "_data") d c))
      have e4 := entries_setD (name ++ "_dx") ox (adxSt name d a b c)
      constructor
      · intro q hq
        rcases e4.1 q hq with h | h
        · rcases e3.1 q h with h | h
          · rcases e2.1 q h with h | h
            · rcases e1.1 q h with h | h
              · exact Or.inl h
              · exact Or.inr (by simp [adxWKeys, h])
            · exact Or.inr (by simp [adxWKeys, h])
          · exact Or.inr (by simp [adxWKeys, h])
        · exact Or.inr (by simp [adxWKeys, h])
      · intro q hq
        rcases e4.2 q hq with h | h
        · rcases e3.2 q h with h | h
          · rcases e2.2 q h with h | h
            · rcases e1.2 q h with h | h
              · exact Or.inl h
              · exact Or.inr (by simp [adxWKeys, h])
            · exact Or.inr (by simp [adxWKeys, h])
          · exact Or.inr (by simp [adxWKeys, h])
        · exact Or.inr (by simp [adxWKeys, h])
  constructor
  · intro q hq
    rcases (entries_setKey false name _ _).1 q hq with h | h
    · exact hst.1 q h
    · exact Or.inr (by simp [adxWKeys, h])
  · intro q hq
    rcases (entries_setKey false name _ _).2 q hq with h | h
    · exact hst.2 q h
    · exact Or.inr (by simp [adxWKeys, h])

/-! #### key locality, stability, absorption -/

theorem adxCur_of_simK (hn : AdxNames name) (c c' : Candle F) (h : SimK (adxRKeys name) c c') :
    AdxCur name c c' where
  bare := h.1
  atr := sees_key _ _ hn.kA (by simp [adxRKeys]) c c' h
  dI := (h.2 _ (by simp [adxRKeys])).1
  pI := (h.2 _ (by simp [adxRKeys])).1
  gI := (h.2 _ (by simp [adxRKeys])).1
  xI := (h.2 _ (by simp [adxRKeys])).1

theorem adxCur_app (hn : AdxNames name) (z : AdxW F) (c : Candle F) : AdxCur name (adxApp name round z c) c where
  bare := (frameK_adxApp name round z c).1
  atr := by
    have hf := (frameK_adxApp name round z c).2 (name ++ "_atr") (by
      simp [adxWKeys, hn.AD, hn.AP, hn.AG, hn.AX, hn.nA.symm])
    rw [readingByCandle_key _ hn.kA, readingByCandle_key _ hn.kA]
    unfold lookupKey
    rw [hf.1, hf.2]
  dI := inds_adxApp name round _ hn.nD z c
  pI := inds_adxApp name round _ hn.nP z c
  gI := inds_adxApp name round _ hn.nG z c
  xI := inds_adxApp name round _ hn.nX z c

theorem adxApp_absorb (hn : AdxNames name) (z : AdxW F) (c d : Candle F)
    (hd : SimK (adxWKeys name) d (adxApp name round z c)) : adxApp name round z d = d := by
  obtain ⟨s, w⟩ := z
  have hN : dlookup name d.inds = some (w.roundBy round) := by
    rw [(hd.2 name (by simp [adxWKeys])).1]
    show dlookup name (dset name _ _) = _
    exact dlookup_dset_self _ _ _
  cases s with
  | none =>
    show setKey false name (w.roundBy round) d = d
    exact setKey_ind_absorb _ _ _ hN
  | some t =>
    obtain ⟨dd, a, b, ox⟩ := t
    have hsubs : ∀ k ∈ [name ++ "_data", name ++ "_pos", name ++ "_neg", name ++ "_dx"],
        dlookup k d.subs = dlookup k (setD (name ++ "_dx") ox (adxSt name dd a b c)).subs := by
      intro k hk
      exact (hd.2 k (by simp [adxWKeys] at hk ⊢; rcases hk with h | h | h | h <;> simp [h])).2
    have hD : dlookup (name ++ "_data") d.subs = some dd := by
      rw [hsubs _ (by simp)]
      cases ox <;>
        simp [setD, adxSt, dlookup_dset_ne _ _ _ _ hn.DX.symm, dlookup_dset_ne _ _ _ _ hn.DG.symm,
          dlookup_dset_ne _ _ _ _ hn.DP.symm, dlookup_dset_self]
    have hP : dlookup (name ++ "_pos") d.subs = some a := by
      rw [hsubs _ (by simp)]
      cases ox <;>
        simp [setD, adxSt, dlookup_dset_ne _ _ _ _ hn.PX.symm, dlookup_dset_ne _ _ _ _ hn.PG.symm,
          dlookup_dset_self]
    have hG : dlookup (name ++ "_neg") d.subs = some b := by
      rw [hsubs _ (by simp)]
      cases ox <;> simp [setD, adxSt, dlookup_dset_ne _ _ _ _ hn.GX.symm, dlookup_dset_self]
    have hSt : adxSt name dd a b d = d := by
      unfold adxSt
      rw [setKey_sub_absorb _ _ _ hD, setKey_sub_absorb _ _ _ hP, setKey_sub_absorb _ _ _ hG]
    show setKey false name (w.roundBy round) (setD (name ++ "_dx") ox (adxSt name dd a b d)) = d
    rw [hSt]
    cases ox with
    | none => exact setKey_ind_absorb _ _ _ hN
    | some x =>
      have hX : dlookup (name ++ "_dx") d.subs = some x := by
        rw [hsubs _ (by simp)]
        simp [setD, dlookup_dset_self]
      show setKey false name (w.roundBy round) (setKey true (name ++ "_dx") x d) = d
      rw [setKey_sub_absorb _ _ _ hX]
      exact setKey_ind_absorb _ _ _ hN

/-! #### the pass -/

/-- the node's loop over raw candles is the row-major fold -/
theorem nodeLoop_runA (hn : AdxNames name) (hp : 1 ≤ p) (hs : 1 ≤ signal) (R : List (Candle F)) :
    ∀ (H : List (Candle F)), (∀ r ∈ R, (adxCompP (F := F) name round p signal).Raw r) →
      Gen.nodeLoop (specWith (adxP name round p signal) (adxC name p signal)) (H ++ R) H.length R.length
        = (adxCompP name round p signal).rowFrom H R := by
  induction R with
  | nil => intro H _; simp [Gen.nodeLoop, TComp.rowFrom_nil]
  | cons r R' ih =>
    intro H hR
    have hr := hR r (by simp)
    have hrs : (adxCompP (F := F) name round p signal).rowStep H r = (do
        let z ← adxVal name p signal H r; pure (H ++ [adxApp name round z r])) := rfl
    rw [List.length_cons, Gen.nodeLoop, pyIndex_append_cons, TComp.rowFrom_cons, hrs]
    have hpres : present (specWith (adxP (F := F) name round p signal) (adxC name p signal)).name r = false :=
      present_of_noKey _ r (by
        show hasKey (adxP (F := F) name round p signal).name r = false
        rw [adxP_name]; exact hr.1)
    simp only [bind, Except.bind, hpres, Bool.false_eq_true, if_false]
    have hstep : (specWith (adxP name round p signal) (adxC name p signal)).step (H ++ r :: R') H.length = (do
        let z ← adxVal name p signal H r
        pure (H ++ adxApp name round z r :: R')) :=
      stepWith_adxC name round p signal hn hp hs H r R'
    rw [hstep]
    cases hv : adxVal name p signal H r with
    | error e => rfl
    | ok z =>
      simp only [bind, Except.bind, pure, Except.pure]
      have := ih (H ++ [adxApp name round z r]) (fun x hx => hR x (by simp [hx]))
      simpa using this

/-- **the laws of the ADX node's own step** -/
theorem adxCompP_law (hn : AdxNames name) (hp : 1 ≤ p) (hs : 1 ≤ signal) :
    TComp.Law (adxCompP (F := F) name round p signal) where
  name_w := by simp [adxCompP, adxWKeys]
  app_frame := fun z c => frameK_adxApp name round z c
  app_key := fun z c => hasKey_setKey _ _ _ _
  app_entries := fun z c => entries_adxApp name round z c
  app_sim := fun keys z c c' h => simK_adxApp name round keys z c c' h
  raw_nokey := fun c h => h.1
  raw_of := fun c h => ⟨h name (by simp [adxCompP, adxWKeys]), h _ (by simp [adxCompP, adxWKeys]),
    h _ (by simp [adxCompP, adxWKeys]), h _ (by simp [adxCompP, adxWKeys]), h _ (by simp [adxCompP, adxWKeys])⟩
  val_sim := fun H H' c c' hH hc =>
    adxVal_congr name p signal hn H H' c c' hH (adxCur_of_simK name hn c c' hc)
  stable := by
    intro H c z _ hv
    show adxVal name p signal H (adxApp name round z c) = .ok z
    rw [adxVal_congr name p signal hn H H _ c (SimL.refl _ H) (adxCur_app name round hn z c)]
    exact hv
  absorb := fun z c d _ hd => adxApp_absorb name round hn z c d hd
  settled_nil := by intro d hd; cases hd
  settled_step := by
    intro H r z hs _ _ d hd
    rcases List.mem_append.1 hd with h | h
    · exact hs d h
    · simp at h; subst h; exact hasKey_setKey _ _ _ _
  settled_sim := by
    intro H H' hs hsim d' hd'
    obtain ⟨d, hd, hdd⟩ := TComp.forall₂_mem_right' hsim d' hd'
    rw [← hasKey_simK (keys := (adxCompP (F := F) name round p signal).rkeys ++
      (adxCompP (F := F) name round p signal).wkeys) (by simp [adxCompP, adxWKeys]) hdd]
    exact hs d hd
  pass_iff := by
    intro H R out hs' hR
    have key : Gen.nodeCalc (specWith (adxP name round p signal) (adxC name p signal)) (H ++ R)
        = (adxCompP name round p signal).rowFrom H R := by
      unfold Gen.nodeCalc
      have hnm : (specWith (adxP (F := F) name round p signal) (adxC name p signal)).name = name :=
        adxP_name (F := F) name round p signal
      rw [hnm, findCalcIndex_split name H R hs' (fun r hr => (hR r hr).1)]
      have : (H ++ R).length - H.length = R.length := by simp
      rw [this]
      exact nodeLoop_runA name round p signal hn hp hs R H hR
    show Gen.nodeCalc (specWith (adxP name round p signal) (adxC name p signal)) (H ++ R) = .ok out ↔ _
    rw [key]

end adxComp
end Hex

namespace Hex
open Adx
set_option linter.unusedSectionVars false
variable {F : Type} [PyF F]

section adxTree
variable (name : String) (round : Nat) (p signal : Int) (hp : 1 ≤ p)

/-- the pieces: the TR leaf and the own reading of the ATR helper … -/
def adxCompT : TComp F := leafComp (adxTr name) (trT _ rfl)
def adxCompA (hn : AdxNames name) : TComp F := leafComp (adxA name p) (atrOwnT _ p rfl hp hn.kA hn.kT hn.AT)
/-- … run one after the other (the prior ATR subtree) … -/
def adxCompX (hn : AdxNames name) : TComp F := TComp.seq (adxCompT name) (adxCompA name p hp hn)
/-- … followed by the node's own step -/
def adxComp (hn : AdxNames name) : TComp F :=
  TComp.seq (adxCompX name p hp hn) (adxCompP name round p signal)

theorem adxCompX_law (hn : AdxNames name) : TComp.Law (adxCompX (F := F) name p hp hn) := by
  unfold adxCompX
  refine TComp.seq_law (leafComp_law _ _) (leafComp_law _ _) ?_
  constructor <;> intro k hk <;>
    simp [adxCompT, adxCompA, leafComp, trT, atrOwnT, adxTr_name, adxA_name] at hk ⊢ <;>
    rintro rfl <;>
    simp [hn.AT] at hk

theorem adxComp_law (hs : 1 ≤ signal) (hn : AdxNames name) :
    TComp.Law (adxComp (F := F) name round p signal hp hn) := by
  unfold adxComp
  refine TComp.seq_law (adxCompX_law name p hp hn) (adxCompP_law name round p signal hn hp hs) ?_
  constructor
  · intro k hk
    simp [adxCompX, TComp.seq, adxCompT, adxCompA, adxCompP, adxWKeys, leafComp, trT, atrOwnT, adxTr_name,
      adxA_name] at hk ⊢
    rcases hk with rfl | rfl | rfl <;>
      exact ⟨by first | exact hn.AD | exact hn.TD, by first | exact hn.AP | exact hn.TP,
        by first | exact hn.AG | exact hn.TG, by first | exact hn.AX | exact hn.TX,
        by first | exact hn.nA.symm | exact hn.nT.symm⟩
  · intro k hk
    simp [adxCompX, TComp.seq, adxCompT, adxCompA, adxCompP, adxWKeys, leafComp, trT, atrOwnT, adxTr_name,
      adxA_name] at hk ⊢
    rcases hk with rfl | rfl <;>
      exact ⟨by first | exact hn.AD | exact hn.TD, by first | exact hn.AP | exact hn.TP,
        by first | exact hn.AG | exact hn.TG, by first | exact hn.AX | exact hn.TX,
        by first | exact hn.nA.symm | exact hn.nT.symm⟩

theorem allNames_adx : (adxP (F := F) name round p signal).allNames
    = [name, name ++ "_atr", name ++ "_atr" ++ "_TR", name ++ "_data", name ++ "_pos", name ++ "_neg",
       name ++ "_dx"] := by
  simp [adxP, mkTop, children, Ind.allNames_eq, atrNode, leaf, Ind.name, Ind.subs, Ind.managed]

/-- **ADX as a tree with a row-major spec** (`period ≥ 1`, `signal ≥ 1`, ordinary distinct names). -/
def adxTree (hs : 1 ≤ signal) (hn : AdxNames name) : TreeSpec (mkTop (.adx p signal : Kind F) name round) :=
  TreeSpec.ofComp (ind := adxP (F := F) name round p signal)
    (adxComp name round p signal hp hn) (adxComp_law name round p signal hp hs hn)
    (fun c hc => (adxComp_law name round p signal hp hs hn).raw_of c (fun k _ => hasKey_plain k c hc))
    (by
      intro k hk
      rw [allNames_adx]
      simp [adxComp, adxCompX, TComp.seq, adxCompT, adxCompA, adxCompP, adxWKeys, leafComp, adxTr_name,
        adxA_name] at hk ⊢
      rcases hk with h | h | h | h | h | h | h <;> simp [h])
    (by
      intro cs
      rw [engineCalc_adx]
      show _ = (do
        let cs₁ ← (do let c ← leafCalc (adxTr name) cs; leafCalc (adxA name p) c)
        Gen.nodeCalc (specWith (adxP name round p signal) (adxC name p signal)) cs₁)
      cases leafCalc (adxTr (F := F) name) cs with
      | error e => rfl
      | ok c₁ => simp only [bind, Except.bind])

end adxTree

/-- the hypotheses are met by the default name of `ADX(period=3, signal=3)` -/
example : AdxNames "ADX_3_3" :=
  ⟨by decide, by decide, by decide, by decide, by decide, by decide, by decide, by decide, by decide, by decide,
    by decide, by decide, by decide, by decide, by decide, by decide, by decide, by decide, by decide, by decide,
    by decide, by decide, by decide, by decide, by decide, by decide, by decide, by decide⟩

example : Nonempty (TreeSpec (mkTop (.adx 3 3 : Kind F) "ADX_3_3" 4)) :=
  ⟨adxTree "ADX_3_3" 4 3 3 (by decide) (by decide)
    ⟨by decide, by decide, by decide, by decide, by decide, by decide, by decide, by decide, by decide, by decide,
      by decide, by decide, by decide, by decide, by decide, by decide, by decide, by decide, by decide, by decide,
      by decide, by decide, by decide, by decide, by decide, by decide, by decide, by decide⟩⟩

end Hex

#print axioms Hex.adxTree
#print axioms Hex.engineCalc_adx
#print axioms Hex.stepWith_adxC

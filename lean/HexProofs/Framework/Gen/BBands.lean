import HexProofs.Framework.Gen.StdevComp
/-
Family (3a): STDEVTHRES (prior STDEV data helper) and BBANDS (prior STDEV data helper + SMA
helper), both with a read-only own reading.
-/
namespace Hex
set_option linter.unusedSectionVars false
variable {F : Type} [PyF F]

/-! ### the SMA helper, tolerant -/

theorem readingByCandle_setKey_noKey (isSub : Bool) (name : String) (hk : IsKey name) (v : Val F)
    (c : Candle F) (hc : hasKey name c = false) : readingByCandle (setKey isSub name v c) name = v := by
  rw [readingByCandle_key name hk]
  unfold lookupKey setKey
  cases isSub
  · simp [dlookup_dset_self]
  · simp [inds_of_noKey name c hc, dlookup_dset_self]

theorem lastReading_simL (name : String) (hk : IsKey name) (keys : List String) (hm : name ∈ keys)
    {H H' : List (Candle F)} (h : SimL keys H H') : Ctx.lastReading name H = Ctx.lastReading name H' := by
  unfold Ctx.lastReading
  have hr := forall₂_append (R := SimK keys) (a := []) (b := []) List.Forall₂.nil h
  clear hr
  induction h with
  | nil => rfl
  | @cons a b r r' hab hrest ih =>
    cases hrest with
    | nil => simp [sees_key keys name hk hm a b hab]
    | cons hcd hrr => simpa [List.getLast?_cons_cons] using ih

def smaT (Z : Ind F) (p : Int) (input : String) (hk : Z.kind = .sma p input) (hp : 1 ≤ p)
    (hname : IsKey Z.name) (hin : NoDot input ∧ input ∈ Candle.attrNames) : TContract Z where
  rkeys := []
  Inv := WindowInv Z.name p
  inv_nil := windowInv_nil _ _
  inv_sim := by
    intro H H' hinv hs hne
    rw [← lastReading_simL Z.name hname _ (by simp) hs] at hne
    rw [← hs.length_eq]
    exact hinv hne
  inv_step := by
    intro H c v hinv hc hv hne
    unfold valOf at hv
    rw [hk] at hv
    have hlast : Ctx.lastReading Z.name (H ++ [decOf Z v c]) = v.roundBy Z.round := by
      unfold Ctx.lastReading decOf
      rw [List.getLast?_append]
      simp [readingByCandle_setKey_noKey Z.isSub Z.name hname _ c hc]
    rw [hlast, Val.roundBy_isNone] at hne
    have hlen : ((H ++ [decOf Z v c]).length : Int) = H.length + 1 := by simp
    rw [hlen]
    rcases sma_nonNone _ p input v hv hne with h | h
    · rw [Ctx.prevExists_append_cons] at h
      have : (Ctx.lastReading Z.name H).isNone = false := by simpa using Except.ok.inj h
      have := hinv this
      omega
    · have := readingPeriod_true_bound _ p input _ h
      simp only [Option.getD_none] at this
      omega
  loc := by
    intro H c rest hinv
    unfold valOf
    rw [hk, ← trunc_append_cons H c rest]
    refine (sma_trunc _ p input (by simp) (by simp) hp ?_).symm
    intro v hv hnn
    rw [Ctx.prevReading_append_cons] at hv
    cases hv
    exact hinv hnn
  val_sim := by
    intro H H' c c' hH hc
    unfold valOf
    rw [hk]
    have hown := sameCol_simL _ Z.name (sees_key _ _ hname (by simp)) hH hc Z.name
    exact sma_congr _ _ p input (sameCol_simL _ input (sees_attr _ _ hin.1 hin.2) hH hc _)
      (Ctx.prevExists_congr hown) (Ctx.prevNum_congr hown)
  stable := by
    intro H c v
    unfold valOf decOf
    rw [hk]
    refine sma_congr _ _ p input
      (sameCol_last input H c _ Z.name (indep_attr Z.name input hin.1 hin.2 _ _ _)) ?_ ?_
    · rw [Ctx.prevExists_append_cons, Ctx.prevExists_append_cons]
    · rw [Ctx.prevNum_append_cons, Ctx.prevNum_append_cons]

/-! ### the own readings of STDEVTHRES and BBANDS -/

theorem stdevthres_trunc (x : Ctx F) (input : String) (m : Num F) (h0 : 0 ≤ x.i) (hi : x.i < x.cs.length) :
    Calc.stdevthres x.trunc input m = Calc.stdevthres x input m := by
  unfold Calc.stdevthres
  simp only [Ctx.trunc_name, Ctx.reading_trunc_cur x _ h0, Ctx.num_trunc_cur x _ h0, Ctx.prevNum_trunc x _ h0 hi]

theorem stdevthres_congr (x y : Ctx F) (input : String) (m : Num F) (hn : x.name = y.name)
    (hs : Ctx.SameCol (y.name ++ "_stdev") x y) (hin : Ctx.SameCol input x y) :
    Calc.stdevthres x input m = Calc.stdevthres y input m := by
  unfold Calc.stdevthres
  rw [hn, Ctx.reading_congr hs, Ctx.num_congr hin, Ctx.prevNum_congr hin]

def thresOwnT (Z : Ind F) (p : Int) (input : String) (m : Num F) (hk : Z.kind = .stdevthres p input m)
    (hs : IsKey (Z.name ++ "_stdev")) (hne : Z.name ≠ Z.name ++ "_stdev")
    (hin : NoDot input ∧ input ∈ Candle.attrNames) : TContract Z where
  rkeys := [Z.name ++ "_stdev"]
  Inv := fun _ => True
  inv_nil := trivial
  inv_sim := fun _ _ _ _ => trivial
  inv_step := fun _ _ _ _ _ _ => trivial
  loc := by
    intro H c rest _
    unfold valOf
    rw [hk, ← trunc_append_cons H c rest]
    exact (stdevthres_trunc _ input m (by simp) (by simp)).symm
  val_sim := by
    intro H H' c c' hH hc
    unfold valOf
    rw [hk]
    exact stdevthres_congr _ _ input m rfl
      (sameCol_simL _ (Z.name ++ "_stdev") (sees_key _ _ hs (by simp)) hH hc _)
      (sameCol_simL _ input (sees_attr _ _ hin.1 hin.2) hH hc _)
  stable := by
    intro H c v
    unfold valOf decOf
    rw [hk]
    exact stdevthres_congr _ _ input m rfl
      (sameCol_last (Z.name ++ "_stdev") H c _ Z.name (indep_key Z.name _ hs hne _ _ _))
      (sameCol_last input H c _ Z.name (indep_attr Z.name input hin.1 hin.2 _ _ _))

theorem bbands_trunc (x : Ctx F) (a b : String) (h0 : 0 ≤ x.i) :
    Calc.bbands x.trunc a b = Calc.bbands x a b := by
  unfold Calc.bbands
  simp only [Ctx.reading_trunc_cur x _ h0]

theorem bbands_congr (x y : Ctx F) (a b : String) (ha : Ctx.SameCol a x y) (hb : Ctx.SameCol b x y) :
    Calc.bbands x a b = Calc.bbands y a b := by
  unfold Calc.bbands
  rw [Ctx.reading_congr ha, Ctx.reading_congr hb]

def bbOwnT (Z : Ind F) (p : Int) (input : String) (hk : Z.kind = .bbands p input)
    (hs : IsKey (Z.name ++ "_SMA")) (hd : IsKey (Z.name ++ "_STDEV"))
    (hns : Z.name ≠ Z.name ++ "_SMA") (hnd : Z.name ≠ Z.name ++ "_STDEV") : TContract Z where
  rkeys := [Z.name ++ "_SMA", Z.name ++ "_STDEV"]
  Inv := fun _ => True
  inv_nil := trivial
  inv_sim := fun _ _ _ _ => trivial
  inv_step := fun _ _ _ _ _ _ => trivial
  loc := by
    intro H c rest _
    unfold valOf
    rw [hk, ← trunc_append_cons H c rest]
    exact (bbands_trunc _ _ _ (by simp)).symm
  val_sim := by
    intro H H' c c' hH hc
    unfold valOf
    rw [hk]
    exact bbands_congr _ _ _ _
      (sameCol_simL _ (Z.name ++ "_SMA") (sees_key _ _ hs (by simp)) hH hc _)
      (sameCol_simL _ (Z.name ++ "_STDEV") (sees_key _ _ hd (by simp)) hH hc _)
  stable := by
    intro H c v
    unfold valOf decOf
    rw [hk]
    exact bbands_congr _ _ _ _
      (sameCol_last (Z.name ++ "_SMA") H c _ Z.name (indep_key Z.name _ hs hns _ _ _))
      (sameCol_last (Z.name ++ "_STDEV") H c _ Z.name (indep_key Z.name _ hd hnd _ _ _))

end Hex

namespace Hex
set_option linter.unusedSectionVars false
variable {F : Type} [PyF F]

/-! ### lengths -/

theorem nodeLoop_length (ind : Ind F) (C : List (Candle F) → Int → PyM (Val F × List (Candle F)))
    (hlen : ∀ cs i v cs', C cs i = .ok (v, cs') → cs'.length = cs.length) (n : Nat) :
    ∀ (cs cs' : List (Candle F)) (k : Nat), Gen.nodeLoop (specWith ind C) cs k n = .ok cs' →
      cs'.length = cs.length := by
  induction n with
  | zero => intro cs cs' k h; rw [Gen.nodeLoop] at h; cases h; rfl
  | succ n ih =>
    intro cs cs' k h
    rw [Gen.nodeLoop] at h
    cases hc : pyIndex cs (k : Int) with
    | error e => rw [hc] at h; cases h
    | ok c =>
      rw [hc] at h
      simp only [bind, Except.bind] at h
      by_cases hp : present (specWith ind C).name c = true
      · simp only [hp, if_true, pure, Except.pure] at h
        exact ih cs cs' (k + 1) h
      · simp only [hp, Bool.false_eq_true, if_false] at h
        cases hs : (specWith ind C).step cs (k : Int) with
        | error e => rw [hs] at h; cases h
        | ok cs₁ =>
          rw [hs] at h
          rw [ih cs₁ cs' (k + 1) h]
          change stepWith ind C cs (k : Int) = .ok cs₁ at hs
          unfold stepWith at hs
          cases hC : C cs (k : Int) with
          | error e => rw [hC] at hs; cases hs
          | ok r =>
            rw [hC] at hs
            simp only [bind, Except.bind, setReading_eq] at hs
            rw [updateAt_length _ _ _ _ hs, hlen cs k r.1 r.2 hC]

theorem nodeCalc_length (ind : Ind F) (C : List (Candle F) → Int → PyM (Val F × List (Candle F)))
    (hlen : ∀ cs i v cs', C cs i = .ok (v, cs') → cs'.length = cs.length) (cs cs' : List (Candle F))
    (h : Gen.nodeCalc (specWith ind C) cs = .ok cs') : cs'.length = cs.length :=
  nodeLoop_length ind C hlen _ cs cs' _ h

theorem stdev_length (D : String) (p : Int) (input name : String) (cs : List (Candle F)) (i : Int)
    (v : Val F) (cs' : List (Candle F))
    (h : Calc.stdev (dOps D i) { cs := cs, i := i, name := name } p input = .ok (v, cs')) :
    cs'.length = cs.length := by
  rw [stdev_fact] at h
  unfold rwCalc at h
  cases hr : stdevR p input { cs := cs, i := i, name := name } with
  | error e => rw [hr] at h; cases h
  | ok r =>
    obtain ⟨d, fin⟩ := r
    rw [hr] at h
    simp only [bind, Except.bind] at h
    cases d with
    | none =>
      simp only [pure, Except.pure] at h
      cases fin with
      | error e => cases h
      | ok w => simp only at h; cases h; rfl
    | some dv =>
      simp only at h
      cases hs : setReading true D cs i dv with
      | error e => rw [hs] at h; cases h
      | ok cs₁ =>
        rw [hs] at h
        simp only at h
        cases fin with
        | error e => cases h
        | ok w =>
          simp only [pure, Except.pure] at h
          cases h
          exact updateAt_length _ _ _ _ hs

/-! ### STDEVTHRES -/

/-- name conditions of a STDEVTHRES node -/
structure ThresNames (name : String) : Prop where
  kS : IsKey (name ++ "_stdev")
  sn : StdevNames (name ++ "_stdev")
  nS : name ≠ name ++ "_stdev"
  nD : name ≠ name ++ "_stdev" ++ "_data"

section thres
variable (name : String) (round : Nat) (p : Int) (input : String) (m : Num F)

def thP : Ind F := mkTop (.stdevthres p input m) name round
def thS : Ind F := stdevNode p input (name ++ "_stdev")

theorem thP_name : (thP (F := F) name round p input m).name = name := mkTop_name _ _ _
theorem thS_name : (thS (F := F) name p input).name = name ++ "_stdev" := rfl
theorem thP_subs : (thP (F := F) name round p input m).subs = [thS name p input] := rfl

/-- the reading function of the STDEV helper as the engine runs it -/
def thC : List (Candle F) → Int → PyM (Val F × List (Candle F)) :=
  fun cs i => Calc.stdev (dOps (name ++ "_stdev" ++ "_data") i) { cs := cs, i := i, name := name ++ "_stdev" } p input

theorem thC_calc (f : Nat) (cs : List (Candle F)) (i : Int) :
    calcReading (f + 3) (thS (F := F) name p input) cs i = thC name p input cs i :=
  calcReading_stdevT _ p input _ rfl rfl f cs i

theorem engineCalc_thres (cs : List (Candle F)) :
    engineCalc (thP (F := F) name round p input m) cs = (do
      let c₁ ← Gen.nodeCalc (specWith (thS name p input) (thC name p input)) cs
      leafCalc (thP name round p input m) c₁) := by
  unfold engineCalc fuelFor
  obtain ⟨f, hf⟩ : ∃ f, 16 + 2 * cs.length = f + 2 := ⟨14 + 2 * cs.length, by omega⟩
  rw [hf, calculate_succ, thP_subs, calcSubs_prior_one f _ rfl rfl,
      calculate_with (thS name p input) rfl (thC name p input) (thC_calc name p input) (f + 1) cs (by omega)]
  simp only [bind, Except.bind]
  cases h1 : Gen.nodeCalc (specWith (thS (F := F) name p input) (thC name p input)) cs with
  | error e => rfl
  | ok c₁ =>
    simp only
    have l1 := nodeCalc_length _ _ (fun cs i v cs' h => stdev_length _ p input _ cs i v cs' h) cs c₁ h1
    rw [calcLoop_leaf (thP name round p input m) rfl _ _ _ _ (by omega)]
    unfold leafCalc
    cases leafLoop (thP name round p input m) c₁ (findCalcIndex (thP (F := F) name round p input m).name c₁)
        (c₁.length - findCalcIndex (thP (F := F) name round p input m).name c₁) with
    | error e => rfl
    | ok c₂ => simp only [calcSubs_post_one f (thS name p input) rfl rfl]

variable (hp : 0 ≤ p) (hn : ThresNames name) (hin : NoDot input ∧ input ∈ Candle.attrNames)

def thCompS : TComp F :=
  dataComp (thS name p input) (name ++ "_stdev" ++ "_data") (stdevT _ p input rfl hp hn.sn hin)

def thCompP : TComp F :=
  leafComp (thP name round p input m) (thresOwnT _ p input m (mkTop_kind _ _ _)
    (by rw [thP_name]; exact hn.kS) (by rw [thP_name]; exact hn.nS) hin)

def thComp : TComp F := TComp.seq (thCompS name p input hp hn hin) (thCompP name round p input m hn hin)

theorem thComp_law : TComp.Law (thComp (F := F) name round p input m hp hn hin) := by
  unfold thComp
  refine TComp.seq_law (dataComp_law _ _ _ hn.sn.ne) (leafComp_law _ _) ?_
  constructor <;> intro k hk <;>
    simp [thCompS, thCompP, dataComp, leafComp, stdevT, thS_name, thP_name] at hk ⊢ <;>
    rintro rfl <;>
    simp [hn.nS, hn.nD, hn.nS.symm, hn.nD.symm] at hk

theorem allNames_thres : (thP (F := F) name round p input m).allNames
    = [name, name ++ "_stdev", name ++ "_stdev" ++ "_data"] := by
  simp [thP, mkTop, children, Ind.allNames_eq, stdevNode, leaf, Ind.name, Ind.subs, Ind.managed]

/-- **STDEVTHRES as a tree with a row-major spec.** -/
def thresTree : TreeSpec (thP (F := F) name round p input m) :=
  TreeSpec.ofComp (thComp name round p input m hp hn hin) (thComp_law name round p input m hp hn hin)
    (fun c hc => (thComp_law name round p input m hp hn hin).raw_of c (fun k _ => hasKey_plain k c hc))
    (by
      intro k hk
      rw [allNames_thres]
      simp [thComp, TComp.seq, thCompS, thCompP, dataComp, leafComp, thS_name, thP_name] at hk ⊢
      rcases hk with h | h | h <;> simp [h])
    (by
      intro cs
      rw [engineCalc_thres]
      rfl)

end thres
end Hex

namespace Hex
set_option linter.unusedSectionVars false
variable {F : Type} [PyF F]

/-! ### BBANDS -/

/-- name conditions of a BBANDS node -/
structure BbNames (name : String) : Prop where
  kS : IsKey (name ++ "_STDEV")
  kM : IsKey (name ++ "_SMA")
  sn : StdevNames (name ++ "_STDEV")
  nS : name ≠ name ++ "_STDEV"
  nD : name ≠ name ++ "_STDEV" ++ "_data"
  nM : name ≠ name ++ "_SMA"
  SM : name ++ "_STDEV" ≠ name ++ "_SMA"
  DM : name ++ "_STDEV" ++ "_data" ≠ name ++ "_SMA"

section bb
variable (name : String) (round : Nat) (p : Int) (input : String)

def bbP : Ind F := mkTop (.bbands p input) name round
def bbS : Ind F := stdevNode p input (name ++ "_STDEV")
def bbM : Ind F := leaf (.sma p input) (name ++ "_SMA")

theorem bbP_name : (bbP (F := F) name round p input).name = name := mkTop_name _ _ _
theorem bbS_name : (bbS (F := F) name p input).name = name ++ "_STDEV" := rfl
theorem bbM_name : (bbM (F := F) name p input).name = name ++ "_SMA" := rfl
theorem bbP_subs : (bbP (F := F) name round p input).subs = [bbS name p input, bbM name p input] := rfl

def bbC : List (Candle F) → Int → PyM (Val F × List (Candle F)) :=
  fun cs i => Calc.stdev (dOps (name ++ "_STDEV" ++ "_data") i) { cs := cs, i := i, name := name ++ "_STDEV" } p input

theorem bbC_calc (f : Nat) (cs : List (Candle F)) (i : Int) :
    calcReading (f + 3) (bbS (F := F) name p input) cs i = bbC name p input cs i :=
  calcReading_stdevT _ p input _ rfl rfl f cs i

theorem engineCalc_bb (cs : List (Candle F)) :
    engineCalc (bbP (F := F) name round p input) cs = (do
      let c₁ ← Gen.nodeCalc (specWith (bbS name p input) (bbC name p input)) cs
      let c₂ ← leafCalc (bbM name p input) c₁
      leafCalc (bbP name round p input) c₂) := by
  unfold engineCalc fuelFor
  obtain ⟨f, hf⟩ : ∃ f, 16 + 2 * cs.length = f + 3 := ⟨13 + 2 * cs.length, by omega⟩
  rw [hf, calculate_succ, bbP_subs, calcSubs_prior_two f _ _ rfl rfl,
      calculate_with (bbS name p input) rfl (bbC name p input) (bbC_calc name p input) (f + 2) cs (by omega)]
  simp only [bind, Except.bind]
  cases h1 : Gen.nodeCalc (specWith (bbS (F := F) name p input) (bbC name p input)) cs with
  | error e => rfl
  | ok c₁ =>
    simp only
    have l1 := nodeCalc_length _ _ (fun cs i v cs' h => stdev_length _ p input _ cs i v cs' h) cs c₁ h1
    rw [calculate_leaf (bbM name p input) ⟨rfl, rfl, rfl⟩ (f + 1) c₁ (by omega)]
    cases h2 : leafCalc (bbM (F := F) name p input) c₁ with
    | error e => rfl
    | ok c₂ =>
      simp only
      have l2 := leafCalc_length _ c₁ c₂ h2
      rw [calcLoop_leaf (bbP name round p input) rfl _ _ _ _ (by omega)]
      unfold leafCalc
      cases leafLoop (bbP name round p input) c₂ (findCalcIndex (bbP (F := F) name round p input).name c₂)
          (c₂.length - findCalcIndex (bbP (F := F) name round p input).name c₂) with
      | error e => rfl
      | ok c₃ => simp only [calcSubs_post_two f (bbS name p input) (bbM name p input) rfl rfl]

variable (hp : 1 ≤ p) (hn : BbNames name) (hin : NoDot input ∧ input ∈ Candle.attrNames)

def bbCompS : TComp F :=
  dataComp (bbS name p input) (name ++ "_STDEV" ++ "_data") (stdevT _ p input rfl (by omega) hn.sn hin)

def bbCompM : TComp F := leafComp (bbM name p input) (smaT _ p input rfl hp hn.kM hin)

def bbCompP : TComp F :=
  leafComp (bbP name round p input) (bbOwnT _ p input (mkTop_kind _ _ _)
    (by rw [bbP_name]; exact hn.kM) (by rw [bbP_name]; exact hn.kS)
    (by rw [bbP_name]; exact hn.nM) (by rw [bbP_name]; exact hn.nS))

def bbComp : TComp F :=
  TComp.seq (bbCompS name p input hp hn hin) (TComp.seq (bbCompM name p input hp hn hin) (bbCompP name round p input hn))

theorem bbComp_law : TComp.Law (bbComp (F := F) name round p input hp hn hin) := by
  unfold bbComp
  refine TComp.seq_law (dataComp_law _ _ _ hn.sn.ne)
    (TComp.seq_law (leafComp_law _ _) (leafComp_law _ _) ?_) ?_
  · constructor <;> intro k hk <;>
      simp [bbCompM, bbCompP, leafComp, smaT, bbM_name, bbP_name] at hk ⊢ <;>
      rintro rfl <;>
      simp [hn.nM, hn.nM.symm] at hk
  · constructor <;> intro k hk <;>
      simp [TComp.seq, bbCompS, bbCompM, bbCompP, dataComp, leafComp, stdevT, bbS_name, bbM_name, bbP_name] at hk ⊢ <;>
      constructor <;> rintro rfl <;>
      simp [hn.nS, hn.nD, hn.nM, hn.SM, hn.DM, hn.nS.symm, hn.nD.symm, hn.nM.symm, hn.SM.symm, hn.DM.symm] at hk

theorem allNames_bb : (bbP (F := F) name round p input).allNames
    = [name, name ++ "_STDEV", name ++ "_STDEV" ++ "_data", name ++ "_SMA"] := by
  simp [bbP, mkTop, children, Ind.allNames_eq, stdevNode, leaf, Ind.name, Ind.subs, Ind.managed]

/-- **BBANDS as a tree with a row-major spec.** -/
def bbTree : TreeSpec (bbP (F := F) name round p input) :=
  TreeSpec.ofComp (bbComp name round p input hp hn hin) (bbComp_law name round p input hp hn hin)
    (fun c hc => (bbComp_law name round p input hp hn hin).raw_of c (fun k _ => hasKey_plain k c hc))
    (by
      intro k hk
      rw [allNames_bb]
      simp [bbComp, TComp.seq, bbCompS, bbCompM, bbCompP, dataComp, leafComp, bbS_name, bbM_name, bbP_name] at hk ⊢
      rcases hk with h | h | h | h <;> simp [h])
    (by
      intro cs
      rw [engineCalc_bb]
      rfl)

end bb
end Hex

import HexProofs.Framework.Gen.ChainMoreBase
/-
Indicator-on-indicator inputs, part 2: TSI (own `_data` dict driving two two-level EMA chains, behind a guard
`reading_period(2, input)`) over ANY input seen through read keys.  Value, store and pass of the pieces are those
of Gen/TSI.lean; the read keys of the holder piece `tsiD` are extended by `rk`, and the guard is allowed to see the
read keys of the prefix (`guardOwn_lawG`; `guardOwn_law` asked for a guard seeing the bare candles only).
-/
namespace Hex.Chain
set_option linter.unusedSectionVars false
set_option linter.unusedSimpArgs false
set_option linter.unusedVariables false
set_option linter.unnecessarySeqFocus false
variable {F : Type} [PyF F]

/-! ### `guardOwn` with a guard that sees the prefix's read keys -/

section guard
variable (X : TComp F) (name : String) (round : Nat) (G : List (Candle F) → Candle F → Bool)
  (fin : Candle F → PyM (Val F)) (frk : List String) (P : List (Candle F) → PyM (List (Candle F)))

/-- the laws of `guardOwn`: the guard sees what the prefix sees, and is stable under the node's store -/
theorem guardOwn_lawG (LX : TComp.Law X)
    (hG : ∀ H H' c c', SimL X.rkeys H H' → SimK X.rkeys c c' → G H c = G H' c')
    (hGs : ∀ H c o w, G H (setKey false name w (gInner X o c)) = G H c)
    (hfin : ∀ a b : Candle F, SimK frk a b → fin a = fin b)
    (nw : name ∉ X.wkeys) (nr : name ∉ X.rkeys) (nf : name ∉ frk)
    (hpass : ∀ H R out, (∀ d ∈ H, hasKey name d = true) → (∀ r ∈ R, hasKey name r = false ∧ X.Raw r) →
      (P (H ++ R) = .ok out ↔ (guardOwn X name round G fin frk P).rowFrom H R = .ok out)) :
    TComp.Law (guardOwn X name round G fin frk P) where
  name_w := by simp [guardOwn]
  app_frame := fun z c => TComp.frameK_trans (frameK_gInner X LX z.1 c) (frameK_setKey false name _ _)
  app_key := fun z c => hasKey_setKey _ _ _ _
  app_entries := by
    intro z c
    have hin : (∀ q ∈ (gInner X z.1 c).inds, q ∈ c.inds ∨ q.1 ∈ X.wkeys) ∧
        (∀ q ∈ (gInner X z.1 c).subs, q ∈ c.subs ∨ q.1 ∈ X.wkeys) := by
      obtain ⟨o, w⟩ := z
      cases o with
      | none => exact ⟨fun q hq => Or.inl hq, fun q hq => Or.inl hq⟩
      | some x => exact LX.app_entries x c
    constructor
    · intro q hq
      rcases (TSI.entries_setKey false name _ _).1 q hq with h | h
      · rcases hin.1 q h with h' | h'
        · exact Or.inl h'
        · exact Or.inr (List.mem_append_left _ h')
      · exact Or.inr (List.mem_append_right _ (by simp [h]))
    · intro q hq
      rcases (TSI.entries_setKey false name _ _).2 q hq with h | h
      · rcases hin.2 q h with h' | h'
        · exact Or.inl h'
        · exact Or.inr (List.mem_append_left _ h')
      · exact Or.inr (List.mem_append_right _ (by simp [h]))
  app_sim := fun keys z c c' h => simK_setKey keys _ _ _ _ _ (simK_gInner X LX keys z.1 c c' h)
  raw_nokey := fun c h => h.1
  raw_of := fun c h => ⟨h name (List.mem_append_right _ (by simp)),
    LX.raw_of c (fun k hk => h k (List.mem_append_left _ hk))⟩
  val_sim := by
    intro H H' c c' hs hc
    have hsX : SimL X.rkeys H H' := hs.mono (fun k hk => List.mem_append_left _ hk)
    have hcX : SimK X.rkeys c c' := hc.mono (fun k hk => List.mem_append_left _ hk)
    have hcf : SimK frk c c' := hc.mono (fun k hk => List.mem_append_right _ hk)
    show (if G H c then (do let x ← X.val H c; let w ← fin (X.app x c); pure (some x, w))
        else pure (none, .none))
      = (if G H' c' then (do let x ← X.val H' c'; let w ← fin (X.app x c'); pure (some x, w))
        else pure (none, .none))
    rw [hG H H' c c' hsX hcX, LX.val_sim H H' c c' hsX hcX]
    have : ∀ x, fin (X.app x c) = fin (X.app x c') := fun x => hfin _ _ (LX.app_sim frk x c c' hcf)
    simp only [this]
  stable := by
    intro H c z hraw hv
    obtain ⟨o, w⟩ := z
    have hown : ∀ (keys : List String) (y : Candle F) (u : Val F), name ∉ keys →
        SimK keys (setKey false name u y) y :=
      fun keys y u hk => (frameK_setKey false name u y).sim (fun k hk' => by
        intro h; simp only [List.mem_singleton] at h; subst h; exact hk hk')
    change (if G H c then (do let x ← X.val H c; let w ← fin (X.app x c); pure (some x, w))
        else pure (none, .none)) = .ok (o, w) at hv
    show (if G H (setKey false name (w.roundBy round) (gInner X o c)) then (do
          let x ← X.val H (setKey false name (w.roundBy round) (gInner X o c))
          let w' ← fin (X.app x (setKey false name (w.roundBy round) (gInner X o c)))
          pure (some x, w'))
        else pure (none, .none)) = .ok (o, w)
    rw [hGs H c o (w.roundBy round)]
    by_cases hg : G H c = true
    · simp only [hg, if_true] at hv ⊢
      cases hx : X.val H c with
      | error e => rw [hx] at hv; cases hv
      | ok x =>
        rw [hx] at hv
        simp only [bind, Except.bind] at hv
        cases hw : fin (X.app x c) with
        | error e => rw [hw] at hv; cases hv
        | ok w0 =>
          rw [hw] at hv
          simp only [pure, Except.pure] at hv
          have hz : (some x, w0) = (o, w) := Except.ok.inj hv
          cases hz
          show (do
            let x' ← X.val H (setKey false name (w.roundBy round) (X.app x c))
            let w' ← fin (X.app x' (setKey false name (w.roundBy round) (X.app x c)))
            pure (some x', w')) = .ok (some x, w)
          have h1 : X.val H (setKey false name (w.roundBy round) (X.app x c)) = .ok x := by
            rw [LX.val_sim H H _ (X.app x c) (SimL.refl _ H) (hown X.rkeys _ _ nr)]
            exact LX.stable H c x hraw.2 hx
          have h2 : X.app x (setKey false name (w.roundBy round) (X.app x c))
              = setKey false name (w.roundBy round) (X.app x c) :=
            LX.absorb x c _ hraw.2 (hown X.wkeys _ _ nw)
          rw [h1]
          simp only [bind, Except.bind]
          rw [h2, hfin _ (X.app x c) (hown frk _ _ nf), hw]
          rfl
    · simp only [hg, Bool.false_eq_true, if_false] at hv ⊢
      exact hv
  absorb := by
    intro z c d hraw hd
    obtain ⟨o, w⟩ := z
    show setKey false name (w.roundBy round) (gInner X o d) = d
    have hd' : SimK (X.wkeys ++ [name]) d (setKey false name (w.roundBy round) (gInner X o c)) := hd
    have hN : dlookup name d.inds = some (w.roundBy round) := by
      rw [(hd'.2 name (List.mem_append_right _ (by simp))).1]
      show dlookup name (dset name _ _) = _
      exact dlookup_dset_self _ _ _
    have hin : gInner X o d = d := by
      cases o with
      | none => rfl
      | some x =>
        refine LX.absorb x c d hraw.2 ?_
        refine (hd'.mono (fun k hk => List.mem_append_left _ hk)).trans ?_
        exact (frameK_setKey false name _ _).sim (fun k hk' => by
          intro h; simp only [List.mem_singleton] at h; subst h; exact nw hk')
    rw [hin]
    simp [setKey, dset_absorb _ _ d.inds hN]
  settled_nil := by intro d hd; cases hd
  settled_step := by
    intro H r z hs _ _ d hd
    rcases List.mem_append.1 hd with h | h
    · exact hs d h
    · simp at h; subst h; exact hasKey_setKey _ _ _ _
  settled_sim := by
    intro H H' hs hsim d' hd'
    obtain ⟨d, hd, hdd⟩ := TComp.forall₂_mem_right' hsim d' hd'
    rw [← hasKey_simK (keys := (X.rkeys ++ frk) ++ (X.wkeys ++ [name])) (by simp) hdd]
    exact hs d hd
  pass_iff := hpass

end guard

/-! ### the holder piece over any input -/

section tsi
variable (name : String) (round : Nat) (p smooth : Int) (input : String) (rk : List String)

/-- the holder's series as a piece, reading the input through `rk` -/
def tsiDG : TComp F := { tsiD (F := F) name input with rkeys := rk }

variable (hp : 1 ≤ p) (hs : 1 ≤ smooth) (hn : TsiNames name)
  (hv : InputVia F rk input [name, name ++ "_data", name ++ "_first", name ++ "_second", name ++ "_abs_first",
    name ++ "_abs_second"])

include hv in
theorem tsiDG_law : TComp.Law (tsiDG (F := F) name input rk) where
  name_w := by simp [tsiDG, tsiD, tsiD0]
  app_frame := fun z c => frameK_setKey true _ z c
  app_key := fun z c => hasKey_setKey _ _ _ _
  app_entries := by
    intro z c
    constructor
    · intro q hq
      rcases (TSI.entries_setKey true (name ++ "_data") z c).1 q hq with h | h
      · exact Or.inl h
      · exact Or.inr (by simp [tsiDG, tsiD, tsiD0, h])
    · intro q hq
      rcases (TSI.entries_setKey true (name ++ "_data") z c).2 q hq with h | h
      · exact Or.inl h
      · exact Or.inr (by simp [tsiDG, tsiD, tsiD0, h])
  app_sim := fun keys z c c' h => simK_setKey keys _ _ _ c c' h
  raw_nokey := fun c h => h
  raw_of := fun c h => h (name ++ "_data") (by simp [tsiDG, tsiD, tsiD0])
  val_sim := by
    intro H H' c c' hs hc
    have hcol := sameCol_simL (F := F) rk input (hv.sees _ (fun k hk => hk)) hs hc name
    show tsiDVal name input H c = tsiDVal name input H' c'
    unfold tsiDVal
    rw [Ctx.num_congr hcol, Ctx.prevNum_congr hcol]
  stable := by
    intro H c z _ hvv
    have hcol := sameCol_last input H c (setKey true (name ++ "_data") z c) name
      (hv.indep (name ++ "_data") (by simp) _ _ _)
    show tsiDVal name input H (setKey true (name ++ "_data") z c) = .ok z
    unfold tsiDVal
    rw [Ctx.num_congr hcol, Ctx.prevNum_congr hcol]
    exact hvv
  absorb := fun z c d hraw hd => setKey_absorb true _ z c d hraw hd
  settled_nil := by intro d hd; cases hd
  settled_step := by
    intro H r z hs _ _ d hd
    rcases List.mem_append.1 hd with h | h
    · exact hs d h
    · simp at h; subst h; exact hasKey_setKey _ _ _ _
  settled_sim := by
    intro H H' hs hsim d' hd'
    obtain ⟨d, hd, hdd⟩ := TComp.forall₂_mem_right' hsim d' hd'
    rw [← hasKey_simK (keys := rk ++ [name ++ "_data"]) (by simp) hdd]
    exact hs d hd
  pass_iff := by
    intro H R out hs hR
    show (tsiD0 name input).rowFrom ((H ++ R).take (findCalcIndex (name ++ "_data") (H ++ R)))
      ((H ++ R).drop (findCalcIndex (name ++ "_data") (H ++ R))) = .ok out ↔ _
    rw [findCalcIndex_split (name ++ "_data") H R hs hR, List.take_left', List.drop_left']
    · exact Iff.rfl
    · rfl
    · rfl

/-- everything `Managed.set_reading` writes at one index, the holder reading the input through `rk` -/
def tsiXG : TComp F :=
  TComp.seq (TComp.seq (TComp.seq (TComp.seq (tsiDG name input rk) (tsiCF name p smooth hp hn))
    (tsiCS name smooth hs hn)) (tsiCA name p smooth hp hn)) (tsiCB name smooth hs hn)

theorem tsiXG_rkeys : (tsiXG (F := F) name p smooth input rk hp hs hn).rkeys
    = (((rk ++ [name ++ "_first", name ++ "_data"]) ++ [name ++ "_second", name ++ "_first"]) ++
       [name ++ "_abs_first", name ++ "_data"]) ++ [name ++ "_abs_second", name ++ "_abs_first"] := rfl

theorem tsiXG_wkeys : (tsiXG (F := F) name p smooth input rk hp hs hn).wkeys
    = [name ++ "_data", name ++ "_first", name ++ "_second", name ++ "_abs_first", name ++ "_abs_second"] := rfl

include hv in
theorem tsiXG_law : TComp.Law (tsiXG (F := F) name p smooth input rk hp hs hn) := by
  unfold tsiXG
  refine TComp.seq_law (TComp.seq_law (TComp.seq_law (TComp.seq_law (tsiDG_law name input rk hv)
    (leafComp_law _ _) ?_) (leafComp_law _ _) ?_) (leafComp_law _ _) ?_) (leafComp_law _ _) ?_
  · constructor <;> intro k hk hq <;>
      simp [tsiDG, tsiD, tsiD0, tsiCF, leafComp, tsiF_name] at hk hq <;>
      subst hq
    · exact hv.dis _ hk (by simp)
    · exact hn.DF hk.symm
  · constructor <;> intro k hk hq <;>
      simp [TComp.seq, tsiDG, tsiD, tsiD0, tsiCF, tsiCS, leafComp, tsiTF, emaTG, tsiF_name, tsiS_name] at hk hq <;>
      subst hq <;>
      simp [hn.nD, hn.nF, hn.nS, hn.nA, hn.nB, hn.DF, hn.DS, hn.DA, hn.DB, hn.FS, hn.FA, hn.FB, hn.SA, hn.SB, hn.AB,
        hn.nD.symm, hn.nF.symm, hn.nS.symm, hn.nA.symm, hn.nB.symm, hn.DF.symm, hn.DS.symm, hn.DA.symm, hn.DB.symm,
        hn.FS.symm, hn.FA.symm, hn.FB.symm, hn.SA.symm, hn.SB.symm, hn.AB.symm] at hk <;>
      exact hv.dis _ hk (by simp)
  · constructor <;> intro k hk hq <;>
      simp [TComp.seq, tsiDG, tsiD, tsiD0, tsiCF, tsiCS, tsiCA, leafComp, tsiTF, tsiTS, emaTG, tsiF_name, tsiS_name,
        tsiAF_name] at hk hq <;>
      subst hq <;>
      simp [hn.nD, hn.nF, hn.nS, hn.nA, hn.nB, hn.DF, hn.DS, hn.DA, hn.DB, hn.FS, hn.FA, hn.FB, hn.SA, hn.SB, hn.AB,
        hn.nD.symm, hn.nF.symm, hn.nS.symm, hn.nA.symm, hn.nB.symm, hn.DF.symm, hn.DS.symm, hn.DA.symm, hn.DB.symm,
        hn.FS.symm, hn.FA.symm, hn.FB.symm, hn.SA.symm, hn.SB.symm, hn.AB.symm] at hk <;>
      exact hv.dis _ hk (by simp)
  · constructor <;> intro k hk hq <;>
      simp [TComp.seq, tsiDG, tsiD, tsiD0, tsiCF, tsiCS, tsiCA, tsiCB, leafComp, tsiTF, tsiTS, tsiTA, emaTG, tsiF_name,
        tsiS_name, tsiAF_name, tsiAS_name] at hk hq <;>
      subst hq <;>
      simp [hn.nD, hn.nF, hn.nS, hn.nA, hn.nB, hn.DF, hn.DS, hn.DA, hn.DB, hn.FS, hn.FA, hn.FB, hn.SA, hn.SB, hn.AB,
        hn.nD.symm, hn.nF.symm, hn.nS.symm, hn.nA.symm, hn.nB.symm, hn.DF.symm, hn.DS.symm, hn.DA.symm, hn.DB.symm,
        hn.FS.symm, hn.FA.symm, hn.FB.symm, hn.SA.symm, hn.SB.symm, hn.AB.symm] at hk <;>
      exact hv.dis _ hk (by simp)

/-- **the TSI node's own step, reading the input through `rk`** -/
def tsiCompPG : TComp F :=
  guardOwn (tsiXG name p smooth input rk hp hs hn) name round (tsiG name input) (tsiFin name)
    [name ++ "_second", name ++ "_abs_second"]
    (Gen.nodeCalc (specWith (tsiP name round p smooth input) (tsiC name p smooth input)))

theorem tsiCompPG_app (z : Option (tsiX (F := F) name p smooth input hp hs hn).ω × Val F) (c : Candle F) :
    (tsiCompPG (F := F) name round p smooth input rk hp hs hn).app z c
      = (tsiCompP (F := F) name round p smooth input hp hs hn).app z c := by
  obtain ⟨o, w⟩ := z
  cases o <;> rfl

theorem tsiCompPG_rowStep (H : List (Candle F)) (r : Candle F) :
    (tsiCompPG (F := F) name round p smooth input rk hp hs hn).rowStep H r
      = (tsiCompP (F := F) name round p smooth input hp hs hn).rowStep H r := by
  unfold TComp.rowStep
  show (do let z ← (tsiCompP (F := F) name round p smooth input hp hs hn).val H r
           pure (H ++ [(tsiCompPG (F := F) name round p smooth input rk hp hs hn).app z r]))
    = (do let z ← (tsiCompP (F := F) name round p smooth input hp hs hn).val H r
          pure (H ++ [(tsiCompP (F := F) name round p smooth input hp hs hn).app z r]))
  cases (tsiCompP (F := F) name round p smooth input hp hs hn).val H r with
  | error e => rfl
  | ok z =>
    exact congrArg (fun a => Except.ok (H ++ [a])) (tsiCompPG_app name round p smooth input rk hp hs hn z r)

theorem tsiCompPG_rowFrom (H R : List (Candle F)) :
    (tsiCompPG (F := F) name round p smooth input rk hp hs hn).rowFrom H R
      = (tsiCompP (F := F) name round p smooth input hp hs hn).rowFrom H R := by
  unfold TComp.rowFrom
  congr 1
  funext H r
  exact tsiCompPG_rowStep name round p smooth input rk hp hs hn H r

include hv in
theorem tsiG_simG (H H' : List (Candle F)) (c c' : Candle F)
    (hH : SimL (tsiXG (F := F) name p smooth input rk hp hs hn).rkeys H H')
    (hc : SimK (tsiXG (F := F) name p smooth input rk hp hs hn).rkeys c c') :
    tsiG name input H c = tsiG name input H' c' := by
  unfold tsiG
  refine Ctx.readingPeriod_congr (sameCol_simL (F := F) _ input (hv.sees _ ?_) hH hc name) 2 none
  intro k hk
  rw [tsiXG_rkeys]
  simp [hk]

include hv in
theorem tsiG_stable (H : List (Candle F)) (c : Candle F)
    (o : Option (tsiXG (F := F) name p smooth input rk hp hs hn).ω) (w : Val F) :
    tsiG name input H (setKey false name w (gInner (tsiXG (F := F) name p smooth input rk hp hs hn) o c))
      = tsiG name input H c := by
  unfold tsiG
  refine Ctx.readingPeriod_congr (sameCol_last input H c _ name ?_) 2 none
  rw [hv.indep name (by simp)]
  cases o with
  | none => rfl
  | some x =>
    obtain ⟨⟨⟨⟨d, f⟩, s⟩, a⟩, b⟩ := x
    change Val F at d
    show readingByCandle (decOf (tsiAS name smooth) b (decOf (tsiAF name p smooth) a (decOf (tsiS name smooth) s
      (decOf (tsiF name p smooth) f (setKey true (name ++ "_data") d c))))) input = readingByCandle c input
    unfold decOf
    rw [tsiAS_name, tsiAF_name, tsiS_name, tsiF_name, hv.indep (name ++ "_abs_second") (by simp),
      hv.indep (name ++ "_abs_first") (by simp), hv.indep (name ++ "_second") (by simp),
      hv.indep (name ++ "_first") (by simp), hv.indep (name ++ "_data") (by simp)]

include hv in
/-- **the laws of the TSI node's own step over any input** -/
theorem tsiCompPG_law : TComp.Law (tsiCompPG (F := F) name round p smooth input rk hp hs hn) := by
  unfold tsiCompPG
  refine guardOwn_lawG _ name round _ _ _ _ (tsiXG_law name p smooth input rk hp hs hn hv)
    (tsiG_simG name p smooth input rk hp hs hn hv) (tsiG_stable name p smooth input rk hp hs hn hv)
    (tsiFin_sim name hn) ?_ ?_ ?_ ?_
  · rw [tsiXG_wkeys]; simp [hn.nD, hn.nF, hn.nS, hn.nA, hn.nB]
  · rw [tsiXG_rkeys]
    have hnr : name ∉ rk := fun h => hv.dis name h (by simp)
    simp [hn.nD, hn.nF, hn.nS, hn.nA, hn.nB, hnr]
  · simp [hn.nS, hn.nB]
  · intro H R out hsH hR
    have key : Gen.nodeCalc (specWith (tsiP name round p smooth input) (tsiC name p smooth input)) (H ++ R)
        = (tsiCompP name round p smooth input hp hs hn).rowFrom H R := by
      unfold Gen.nodeCalc
      have hnm : (specWith (tsiP (F := F) name round p smooth input) (tsiC name p smooth input)).name = name :=
        tsiP_name (F := F) name round p smooth input
      rw [hnm, findCalcIndex_split name H R hsH (fun r hr => (hR r hr).1)]
      have : (H ++ R).length - H.length = R.length := by simp
      rw [this]
      exact nodeLoop_runTsi name round p smooth input hp hs hn R H hR
    rw [key, ← tsiCompPG_rowFrom name round p smooth input rk hp hs hn]
    exact Iff.rfl

/-- **the TSI tree over any input seen through `rk`** -/
def tsiTreeCompG : TreeComp (tsiP (F := F) name round p smooth input) where
  X := tsiCompPG name round p smooth input rk hp hs hn
  law := tsiCompPG_law name round p smooth input rk hp hs hn hv
  pass_eq := fun cs => engineCalc_tsi name round p smooth input cs
  wnames := by
    intro k hk
    rw [allNames_tsi]
    have hw : (tsiCompPG (F := F) name round p smooth input rk hp hs hn).wkeys
        = [name ++ "_data", name ++ "_first", name ++ "_second", name ++ "_abs_first",
           name ++ "_abs_second"] ++ [name] := rfl
    rw [hw] at hk
    simp at hk ⊢
    rcases hk with h | h | h | h | h | h <;> simp [h]

theorem tsiTreeCompG_reads :
    (tsiTreeCompG (F := F) name round p smooth input rk hp hs hn hv).ReadsWithin
      (rk ++ (tsiP (F := F) name round p smooth input).allNames) := by
  intro k hk
  rw [allNames_tsi]
  have hr : (tsiTreeCompG (F := F) name round p smooth input rk hp hs hn hv).X.rkeys
      = (tsiXG (F := F) name p smooth input rk hp hs hn).rkeys ++ [name ++ "_second", name ++ "_abs_second"] := rfl
  rw [hr, tsiXG_rkeys] at hk
  simp at hk ⊢
  rcases hk with h | h | h | h | h | h | h | h | h | h | h <;> simp [h]

end tsi

end Hex.Chain

import HexProofs.Framework.Gen.DataComp
/-
The STDEV helper (a data-series node used as a prior sub-indicator by BBANDS and STDEVTHRES) as
a tolerant component, and the engine on a data node with arbitrary sufficient fuel.
-/
namespace Hex
set_option linter.unusedSectionVars false
variable {F : Type} [PyF F]

/-- a dotted name `main.field` only sees the entry under `main` -/
theorem sees_dotted (keys : List String) (nm main fld : String) (hs : splitDot nm = [main, fld])
    (hm : main ∈ keys) : Sees F keys nm := by
  intro a b h
  unfold readingByCandle
  rw [hs]
  simp only
  rw [(h.2 main hm).1, (h.2 main hm).2]

/-- `calculate()` of a node without sub-indicators, any sufficient fuel -/
theorem calculate_with (ind : Ind F) (hsubs : ind.subs = [])
    (C : List (Candle F) → Int → PyM (Val F × List (Candle F)))
    (hC : ∀ f cs i, calcReading (f + 3) ind cs i = C cs i) (fuel : Nat) (cs : List (Candle F))
    (hf : cs.length + 4 ≤ fuel) : calculate fuel ind cs = Gen.nodeCalc (specWith ind C) cs := by
  obtain ⟨f, rfl⟩ : ∃ f, fuel = (f + 1) + 1 := ⟨fuel - 2, by omega⟩
  rw [calculate_succ, hsubs, calcSubs_nil]
  simp only [bind, Except.bind]
  rw [calcLoop_with ind C hC _ _ _ _ (by omega)]
  unfold Gen.nodeCalc
  have hn : (specWith ind C).name = ind.name := rfl
  rw [hn]
  cases Gen.nodeLoop (specWith ind C) cs (findCalcIndex ind.name cs) (cs.length - findCalcIndex ind.name cs) with
  | error e => rfl
  | ok cs' => simp only [calcSubs_nil]

theorem stdevR_congr' (p : Int) (input : String) (x y : Ctx F) (hn : x.name = y.name)
    (hin : Ctx.SameCol input x y)
    (hm : Ctx.SameCol (y.name ++ "_data.mean") x y) (hv : Ctx.SameCol (y.name ++ "_data.variance") x y) :
    stdevR p input x = stdevR p input y := by
  unfold stdevR
  simp only [hn, Ctx.prevExists_congr hm, Ctx.prevNum_congr hm, Ctx.prevExists_congr hv, Ctx.prevNum_congr hv,
    Ctx.reading_congr hin, Ctx.num_congr hin, Ctx.readingPeriod_congr hin, hin.idx]

theorem readingByCandle_outDS (isSub : Bool) (name D nm : String) (h1 : Indep F name nm) (h2 : Indep F D nm)
    (w : Val F) (d : Option (Val F)) (c : Candle F) :
    readingByCandle (outDS isSub name D w d c) nm = readingByCandle c nm := by
  unfold outDS setD
  rw [h1]
  cases d with
  | none => rfl
  | some dv => exact h2 _ _ _

/-- name conditions of a STDEV helper named `nm` -/
structure StdevNames (nm : String) : Prop where
  ne : nm ≠ nm ++ "_data"
  mean : splitDot (nm ++ "_data.mean") = [nm ++ "_data", "mean"]
  var : splitDot (nm ++ "_data.variance") = [nm ++ "_data", "variance"]

/-- **the STDEV helper satisfies the tolerant data contract** -/
def stdevT (Z : Ind F) (p : Int) (input : String) (hk : Z.kind = .stdev p input) (hp : 0 ≤ p)
    (hn : StdevNames Z.name) (hin : NoDot input ∧ input ∈ Candle.attrNames) :
    TDataContract Z (Z.name ++ "_data") where
  C := fun cs i => Calc.stdev (dOps (Z.name ++ "_data") i) { cs := cs, i := i, name := Z.name } p input
  R := stdevR p input
  rkeys := []
  fact := fun H c rest _ => stdev_fact _ p input _ _ _
  loc := by
    intro H c rest
    rw [← trunc_append_cons H c rest]
    exact (stdevR_trunc p input _ (by simp) (by simp) hp).symm
  val_sim := by
    intro H H' c c' hH hc
    exact stdevR_congr' p input _ _ rfl
      (sameCol_simL _ input (sees_attr _ _ hin.1 hin.2) hH hc _)
      (sameCol_simL _ _ (sees_dotted _ _ _ _ hn.mean (by simp)) hH hc _)
      (sameCol_simL _ _ (sees_dotted _ _ _ _ hn.var (by simp)) hH hc _)
  stable := by
    intro H c w d
    refine stdevR_congr p input _ _ rfl
      (sameCol_last input H c _ Z.name (readingByCandle_outDS _ _ _ input
        (indep_attr _ input hin.1 hin.2) (indep_attr _ input hin.1 hin.2) w d c)) ?_ ?_
    · intro nm; rw [Ctx.prevExists_append_cons, Ctx.prevExists_append_cons]
    · intro nm; rw [Ctx.prevNum_append_cons, Ctx.prevNum_append_cons]

theorem calcReading_stdevT (Z : Ind F) (p : Int) (input D : String) (hk : Z.kind = .stdev p input)
    (hm : Z.managed = [("STDEV_data", leaf .managed D)]) (f : Nat) (cs : List (Candle F)) (i : Int) :
    calcReading (f + 3) Z cs i = Calc.stdev (dOps D i) { cs := cs, i := i, name := Z.name } p input := by
  rw [calcReading]
  unfold calcKind
  rw [hk]
  simp only
  unfold Calc.stdev
  have hg : Z.getManaged "STDEV_data" = .ok (leaf .managed D) := by
    unfold Ind.getManaged; rw [hm]; simp [dlookup]
  have hset : ∀ (v : Val F) (cs : List (Candle F)),
      (do let m ← Z.getManaged "STDEV_data"; setManagedReading (f + 2) m cs i v) = setReading true D cs i v := by
    intro v cs
    rw [hg]
    simp only [bind, Except.bind]
    rw [setManagedReading]
    simp only [leaf, Ind.subs, Ind.isSub, Ind.name, calcSubs_nil, bind, Except.bind]
    cases setReading true D cs i v with
    | error e => rfl
    | ok cs' => simp only [calcSubs_nil]
  simp only [hset, dOps]

end Hex

import HexProofs.Framework.Gen.All
/-
`Managed.set_reading` of a `Managed` holder whose sub-indicators are LEAVES (HMA's `raw_HMA`,
STOCH's `STOCH_data`, ADX's `ADX_data`): the fuel-indexed engine collapses to

    prior leaf steps at `i` ; `_set_reading` of the holder's key at `i` ; non-prior leaf steps at `i`

whenever the active index `i` is non-zero (`calculate_index(i, i + 1)` of each sub), and to the
subs' full `calculate()` at `i = 0` (Python's `if start_index and end_index:` treats 0 as "no range").
-/
namespace Hex
set_option linter.unusedSectionVars false
variable {F : Type} [PyF F]

/-! ### one unconditional step of a leaf -/

theorem bind_pure_id {α : Type} (m : PyM α) : (m >>= fun a => pure a) = m := by
  cases m <;> rfl

/-- `calculate_index(i, i + 1)` of a leaf is one unconditional step (needs fuel ≥ 2) -/
theorem calculateIndex_leaf_single (s : Ind F) (hl : IsLeaf s) (fuel : Nat) (cs : List (Candle F))
    (i : Int) (hf : 2 ≤ fuel) : calculateIndex fuel s cs i (i + 1) = stepLeaf s cs i := by
  rw [calculateIndex_leaf s hl fuel cs i (i + 1) hf, pyRange_single]
  simp only [List.foldlM_cons, List.foldlM_nil]
  exact bind_pure_id _

/-! ### `_calculate_sub_indicators(prior_calc, i, i + 1)` over leaves -/

/-- every sub-indicator is a leaf -/
def AllLeaves (subs : List (Ind F)) : Prop := ∀ s ∈ subs, IsLeaf s

/-- every sub-indicator is a leaf that runs AFTER the holder's own store (`prior_calc = False`) -/
def PostLeaves (subs : List (Ind F)) : Prop := ∀ s ∈ subs, IsLeaf s ∧ s.priorCalc = false

theorem PostLeaves.allLeaves {subs : List (Ind F)} (h : PostLeaves subs) : AllLeaves subs :=
  fun s hs => (h s hs).1

theorem PostLeaves.tail {s : Ind F} {rest : List (Ind F)} (h : PostLeaves (s :: rest)) : PostLeaves rest :=
  fun t ht => h t (List.mem_cons_of_mem _ ht)

/-- the leaf steps at index `i` of the subs selected by `prior`, in order, without fuel -/
def stepSubs : List (Ind F) → Bool → Int → List (Candle F) → PyM (List (Candle F))
  | [], _, _, cs => .ok cs
  | s :: rest, prior, i, cs => do
    let cs ← if s.priorCalc == prior then stepLeaf s cs i else pure cs
    stepSubs rest prior i cs

/-- the subs' full `calculate()`, selected by `prior`, in order, without fuel -/
def calcSubsFull : List (Ind F) → Bool → List (Candle F) → PyM (List (Candle F))
  | [], _, cs => .ok cs
  | s :: rest, prior, cs => do
    let cs ← if s.priorCalc == prior then leafCalc s cs else pure cs
    calcSubsFull rest prior cs

/-- **`calcSubs` over leaves at a non-zero index**: one unconditional step of each selected sub -/
theorem calcSubs_leaves (prior : Bool) (i : Int) (hi : i ≠ 0) (hi1 : i + 1 ≠ 0) :
    ∀ (subs : List (Ind F)), AllLeaves subs → ∀ (fuel : Nat) (cs : List (Candle F)),
      subs.length + 3 ≤ fuel →
      calcSubs fuel subs prior (some (i, i + 1)) cs = stepSubs subs prior i cs := by
  intro subs
  induction subs with
  | nil =>
    intro _ fuel cs hf
    obtain ⟨f, rfl⟩ : ∃ f, fuel = f + 1 := ⟨fuel - 1, by omega⟩
    rw [calcSubs_nil]; rfl
  | cons s rest ih =>
    intro hl fuel cs hf
    obtain ⟨f, rfl⟩ : ∃ f, fuel = f + 1 := ⟨fuel - 1, by omega⟩
    simp only [List.length_cons] at hf
    have hb : (i != 0 && i + 1 != 0) = true := by simp [hi, hi1]
    rw [calcSubs, stepSubs]
    simp only [hb, if_true]
    rw [calculateIndex_leaf_single s (hl s (by simp)) f cs i (by omega)]
    by_cases hp : (s.priorCalc == prior) = true
    · simp only [hp, if_true, bind, Except.bind]
      cases stepLeaf s cs i with
      | error e => rfl
      | ok cs' => exact ih (fun t ht => hl t (List.mem_cons_of_mem _ ht)) f cs' (by omega)
    · simp only [hp, Bool.false_eq_true, if_false, bind, Except.bind, pure, Except.pure]
      exact ih (fun t ht => hl t (List.mem_cons_of_mem _ ht)) f cs (by omega)

theorem stepSubs_length (prior : Bool) (i : Int) :
    ∀ (subs : List (Ind F)) (cs cs' : List (Candle F)), stepSubs subs prior i cs = .ok cs' →
      cs'.length = cs.length := by
  intro subs
  induction subs with
  | nil => intro cs cs' h; rw [stepSubs] at h; cases h; rfl
  | cons s rest ih =>
    intro cs cs' h
    rw [stepSubs] at h
    by_cases hp : (s.priorCalc == prior) = true
    · simp only [hp, if_true, bind, Except.bind] at h
      cases hs : stepLeaf s cs i with
      | error e => rw [hs] at h; cases h
      | ok cs₁ =>
        rw [hs] at h
        rw [ih cs₁ cs' h, stepLeaf_length s cs cs₁ i hs]
    · simp only [hp, Bool.false_eq_true, if_false, bind, Except.bind, pure, Except.pure] at h
      exact ih cs cs' h

theorem calcSubsFull_length (prior : Bool) :
    ∀ (subs : List (Ind F)) (cs cs' : List (Candle F)), calcSubsFull subs prior cs = .ok cs' →
      cs'.length = cs.length := by
  intro subs
  induction subs with
  | nil => intro cs cs' h; rw [calcSubsFull] at h; cases h; rfl
  | cons s rest ih =>
    intro cs cs' h
    rw [calcSubsFull] at h
    by_cases hp : (s.priorCalc == prior) = true
    · simp only [hp, if_true, bind, Except.bind] at h
      cases hs : leafCalc s cs with
      | error e => rw [hs] at h; cases h
      | ok cs₁ =>
        rw [hs] at h
        rw [ih cs₁ cs' h, leafCalc_length s cs cs₁ hs]
    · simp only [hp, Bool.false_eq_true, if_false, bind, Except.bind, pure, Except.pure] at h
      exact ih cs cs' h

/-- **`calcSubs` over leaves at index 0** (or with `end = 0`): the range is "falsy" and every selected
sub runs its full `calculate()` over the whole list -/
theorem calcSubs_leaves_zero (prior : Bool) (a b : Int) (hab : a = 0 ∨ b = 0) :
    ∀ (subs : List (Ind F)), AllLeaves subs → ∀ (fuel : Nat) (cs : List (Candle F)),
      cs.length + subs.length + 3 ≤ fuel →
      calcSubs fuel subs prior (some (a, b)) cs = calcSubsFull subs prior cs := by
  intro subs
  induction subs with
  | nil =>
    intro _ fuel cs hf
    obtain ⟨f, rfl⟩ : ∃ f, fuel = f + 1 := ⟨fuel - 1, by omega⟩
    rw [calcSubs_nil]; rfl
  | cons s rest ih =>
    intro hl fuel cs hf
    obtain ⟨f, rfl⟩ : ∃ f, fuel = f + 1 := ⟨fuel - 1, by omega⟩
    simp only [List.length_cons] at hf
    have hb : (a != 0 && b != 0) = false := by
      rcases hab with h | h <;> simp [h]
    rw [calcSubs, calcSubsFull]
    simp only [hb, Bool.false_eq_true, if_false]
    rw [calculate_leaf s (hl s (by simp)) f cs (by omega)]
    by_cases hp : (s.priorCalc == prior) = true
    · simp only [hp, if_true, bind, Except.bind]
      cases hs : leafCalc s cs with
      | error e => rfl
      | ok cs' =>
        have := leafCalc_length s cs cs' hs
        exact ih (fun t ht => hl t (List.mem_cons_of_mem _ ht)) f cs' (by omega)
    · simp only [hp, Bool.false_eq_true, if_false, bind, Except.bind, pure, Except.pure]
      exact ih (fun t ht => hl t (List.mem_cons_of_mem _ ht)) f cs (by omega)

/-! ### specialisation: all subs non-prior -/

theorem stepSubs_post_prior (i : Int) :
    ∀ (subs : List (Ind F)), PostLeaves subs → ∀ (cs : List (Candle F)), stepSubs subs true i cs = .ok cs := by
  intro subs
  induction subs with
  | nil => intro _ cs; rfl
  | cons s rest ih =>
    intro h cs
    rw [stepSubs]
    simp only [(h s (by simp)).2, Bool.false_eq_true, beq_iff_eq, if_false, bind, Except.bind, pure, Except.pure]
    exact ih h.tail cs

theorem stepSubs_post (i : Int) :
    ∀ (subs : List (Ind F)), PostLeaves subs → ∀ (cs : List (Candle F)),
      stepSubs subs false i cs = subs.foldlM (fun cs s => stepLeaf s cs i) cs := by
  intro subs
  induction subs with
  | nil => intro _ cs; rfl
  | cons s rest ih =>
    intro h cs
    rw [stepSubs, List.foldlM_cons]
    simp only [(h s (by simp)).2, beq_self_eq_true, if_true, bind, Except.bind]
    cases stepLeaf s cs i with
    | error e => rfl
    | ok cs' => exact ih h.tail cs'

theorem calcSubsFull_post_prior :
    ∀ (subs : List (Ind F)), PostLeaves subs → ∀ (cs : List (Candle F)), calcSubsFull subs true cs = .ok cs := by
  intro subs
  induction subs with
  | nil => intro _ cs; rfl
  | cons s rest ih =>
    intro h cs
    rw [calcSubsFull]
    simp only [(h s (by simp)).2, Bool.false_eq_true, beq_iff_eq, if_false, bind, Except.bind, pure, Except.pure]
    exact ih h.tail cs

theorem calcSubsFull_post :
    ∀ (subs : List (Ind F)), PostLeaves subs → ∀ (cs : List (Candle F)),
      calcSubsFull subs false cs = subs.foldlM (fun cs s => leafCalc s cs) cs := by
  intro subs
  induction subs with
  | nil => intro _ cs; rfl
  | cons s rest ih =>
    intro h cs
    rw [calcSubsFull, List.foldlM_cons]
    simp only [(h s (by simp)).2, beq_self_eq_true, if_true, bind, Except.bind]
    cases leafCalc s cs with
    | error e => rfl
    | ok cs' => exact ih h.tail cs'

/-! ### `Managed.set_reading` -/

theorem setReading_length (isSub : Bool) (name : String) (cs cs' : List (Candle F)) (i : Int) (v : Val F)
    (h : setReading isSub name cs i v = .ok cs') : cs'.length = cs.length :=
  updateAt_length _ _ _ _ (by rw [← setReading_eq]; exact h)

/-- **`Managed.set_reading` on a holder with leaf subs, non-zero index** (any mix of prior and
non-prior leaves): prior leaf steps, the store, non-prior leaf steps -/
theorem setManagedReading_leaves (m : Ind F) (hl : AllLeaves m.subs) (fuel : Nat)
    (hf : m.subs.length + 4 ≤ fuel) (cs : List (Candle F)) (i : Int) (hi : i ≠ 0) (hi1 : i + 1 ≠ 0)
    (v : Val F) :
    setManagedReading fuel m cs i v = (do
      let cs ← stepSubs m.subs true i cs
      let cs ← setReading m.isSub m.name cs i v
      stepSubs m.subs false i cs) := by
  obtain ⟨f, rfl⟩ : ∃ f, fuel = f + 1 := ⟨fuel - 1, by omega⟩
  rw [setManagedReading]
  simp only [calcSubs_leaves _ i hi hi1 m.subs hl f _ (by omega)]

/-- **`Managed.set_reading` on a holder whose subs are non-prior leaves, at an index `i > 0`**:
`_set_reading` of the holder's key followed by one unconditional leaf step of each sub at `i`, in order. -/
theorem setManagedReading_postLeaves (m : Ind F) (hl : PostLeaves m.subs) (fuel : Nat)
    (hf : m.subs.length + 4 ≤ fuel) (cs : List (Candle F)) (i : Int) (hi : 0 < i) (v : Val F) :
    setManagedReading fuel m cs i v = (do
      let cs ← setReading m.isSub m.name cs i v
      m.subs.foldlM (fun cs s => stepLeaf s cs i) cs) := by
  rw [setManagedReading_leaves m hl.allLeaves fuel hf cs i (by omega) (by omega) v,
      stepSubs_post_prior i m.subs hl cs]
  simp only [bind, Except.bind]
  cases setReading m.isSub m.name cs i v with
  | error e => rfl
  | ok cs' => exact stepSubs_post i m.subs hl cs'

/-- **The same at index 0, honestly**: `calculate_index(0, 1)` is never reached; each sub runs its
full `calculate()` (resuming from its own `_find_calc_index`) over the WHOLE list – a look-ahead. -/
theorem setManagedReading_postLeaves_zero (m : Ind F) (hl : PostLeaves m.subs) (fuel : Nat)
    (cs : List (Candle F)) (hf : cs.length + m.subs.length + 4 ≤ fuel) (v : Val F) :
    setManagedReading fuel m cs 0 v = (do
      let cs ← setReading m.isSub m.name cs 0 v
      m.subs.foldlM (fun cs s => leafCalc s cs) cs) := by
  obtain ⟨f, rfl⟩ : ∃ f, fuel = f + 1 := ⟨fuel - 1, by omega⟩
  rw [setManagedReading]
  rw [calcSubs_leaves_zero true 0 (0 + 1) (Or.inl rfl) m.subs hl.allLeaves f cs (by omega),
      calcSubsFull_post_prior m.subs hl cs]
  simp only [bind, Except.bind]
  cases hs : setReading m.isSub m.name cs 0 v with
  | error e => rfl
  | ok cs' =>
    simp only
    have := setReading_length _ _ cs cs' 0 v hs
    rw [calcSubs_leaves_zero false 0 (0 + 1) (Or.inl rfl) m.subs hl.allLeaves f cs' (by omega)]
    exact calcSubsFull_post m.subs hl cs'

/-- both cases in one statement, as `Calc.*` sees it through `ops.setManaged` -/
theorem setManagedReading_postLeaves_any (m : Ind F) (hl : PostLeaves m.subs) (fuel : Nat)
    (cs : List (Candle F)) (hf : cs.length + m.subs.length + 4 ≤ fuel) (i : Int) (hi : 0 ≤ i) (v : Val F) :
    setManagedReading fuel m cs i v = (do
      let cs ← setReading m.isSub m.name cs i v
      if i = 0 then m.subs.foldlM (fun cs s => leafCalc s cs) cs
      else m.subs.foldlM (fun cs s => stepLeaf s cs i) cs) := by
  by_cases h0 : i = 0
  · subst h0
    rw [setManagedReading_postLeaves_zero m hl fuel cs hf v]
    simp only [if_true]
  · rw [setManagedReading_postLeaves m hl fuel (by omega) cs i (by omega) v]
    simp only [h0, if_false]

/-- the look-up of a managed helper by its key -/
theorem getManaged_eq (ind : Ind F) (key : String) (m : Ind F) (h : dlookup key ind.managed = some m) :
    ind.getManaged key = .ok m := by
  unfold Ind.getManaged; rw [h]

/-! ### the loop of a node whose reading function needs fuel proportional to the list -/

/-- `calcLoop` of a node whose `_calculate_reading` is `C` at every (natural) index once the fuel
exceeds the list length by `b` (a reading that may drive a helper's full `calculate()`), where `C`
keeps the length of the list: the loop is the fuel-free `nodeLoop` -/
theorem calcLoop_withN (ind : Ind F) (C : List (Candle F) → Int → PyM (Val F × List (Candle F))) (b : Nat)
    (hC : ∀ (f : Nat) (cs : List (Candle F)) (k : Nat), cs.length + b ≤ f → calcReading f ind cs k = C cs k)
    (hlen : ∀ cs i v cs', C cs i = .ok (v, cs') → cs'.length = cs.length) :
    ∀ (n fuel : Nat) (cs : List (Candle F)) (k : Nat), n + cs.length + b + 1 ≤ fuel →
      calcLoop fuel ind cs k n = Gen.nodeLoop (specWith ind C) cs k n := by
  intro n
  induction n with
  | zero =>
    intro fuel cs k hf
    obtain ⟨f, rfl⟩ : ∃ f, fuel = f + 1 := ⟨fuel - 1, by omega⟩
    rw [calcLoop]
    · rfl
    · intro h0; omega
  | succ n ih =>
    intro fuel cs k hf
    obtain ⟨f, rfl⟩ : ∃ f, fuel = f + 1 := ⟨fuel - 1, by omega⟩
    rw [calcLoop, Gen.nodeLoop]
    cases hc : pyIndex cs (k : Int) with
    | error e => rfl
    | ok c =>
      simp only [bind, Except.bind]
      show (do
        let cs ← if present ind.name c then pure cs else do
          let (v, cs) ← calcReading f ind cs k
          setReading ind.isSub ind.name cs k (v.roundBy ind.round)
        calcLoop f ind cs (k + 1) n) = _
      rw [hC f cs k (by omega)]
      simp only [bind, Except.bind, specWith, stepWith]
      by_cases hp : present ind.name c = true
      · simp only [hp, if_true, pure, Except.pure]
        exact ih f cs (k + 1) (by omega)
      · simp only [hp, Bool.false_eq_true, if_false]
        cases hr : C cs (k : Int) with
        | error e => rfl
        | ok r =>
          simp only
          cases hs : setReading ind.isSub ind.name r.2 (k : Int) (r.1.roundBy ind.round) with
          | error e => rfl
          | ok cs' =>
            have h1 := hlen cs k r.1 r.2 hr
            have h2 := setReading_length _ _ _ _ _ _ hs
            exact ih f cs' (k + 1) (by omega)

/-! ### a tree from a component whose pass is the engine on the lists the framework meets -/

/-- like `TreeSpec.ofComp`, but the engine only has to agree with the component's pass on a settled
history followed by raw candles (the lists `calculate()` is run on).  Needed for nodes that drive a
non-prior helper from inside their own step: on an arbitrary list the step at index 0 falls back to
the helper's full `calculate()`; on the lists the framework meets it does not. -/
def TreeSpec.ofComp' {ind : Ind F} (Z : TComp F) (L : TComp.Law Z) (hplain : ∀ c, Plain c → Z.Raw c)
    (hnames : ∀ k ∈ Z.wkeys, k ∈ ind.allNames)
    (hpass : ∀ done raw, Z.Settled done → (∀ r ∈ raw, Plain r) →
      engineCalc ind (done ++ raw) = Z.pass (done ++ raw)) :
    TreeSpec ind where
  S := Z.spec ind.allNames
  law := TComp.stepLaw L ind.allNames hplain hnames
  names_eq := rfl
  engine := by
    intro raw₁ raw₂ done out h₁ hp₁ hp₂
    rw [Gen.rowMajor_append, h₁]
    simp only [bind, Except.bind]
    have hs : Z.Settled done :=
      (Gen.rowMajor_shape (TComp.stepLaw L ind.allNames hplain hnames) raw₁ done hp₁ h₁).2
    rw [TComp.rowFrom_spec, hpass done raw₂ hs hp₂]
    exact L.pass_iff done raw₂ out hs (fun r hr => hplain r (hp₂ r hr))

end Hex

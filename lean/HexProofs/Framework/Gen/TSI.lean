import HexProofs.Framework.Gen.ManagedSubs
/-
Family (3c): True Strength Index – no prior helpers; ONE `Managed` holder `TSI_data` (series
`<name>_data`, a dict `{"price": diff, "abs_price": |diff|}`) whose two NON-PRIOR sub-indicators are
EMAs over the dotted fields of the holder's series, each with its own NON-PRIOR EMA sub-indicator
(a two-level chain):

    <name>_first      = EMA p      over <name>_data.price       └ <name>_second     = EMA smooth over <name>_first
    <name>_abs_first  = EMA p      over <name>_data.abs_price   └ <name>_abs_second = EMA smooth over <name>_abs_first

The node's `_calculate_reading(i)` stores the dict through `Managed.set_reading` – which drives
`calculate_index(i, i+1)` of the two first-level EMAs, each of which drives `calculate_index(i, i+1)`
of its second-level EMA – and reads `<name>_abs_second` / `<name>_second` back: six keys written per
candle from inside the node's own step.
-/
namespace Hex
set_option linter.unusedSectionVars false
variable {F : Type} [PyF F]

section tsi
variable (name : String) (round : Nat) (p smooth : Int) (input : String)

/-- the TSI tree and its helpers -/
def tsiP : Ind F := mkTop (.tsi p smooth input) name round
/-- second-level EMAs (leaves, non-prior) -/
def tsiS : Ind F := leaf (.ema smooth (name ++ "_first") (fl 2)) (name ++ "_second") false
def tsiAS : Ind F := leaf (.ema smooth (name ++ "_abs_first") (fl 2)) (name ++ "_abs_second") false
/-- first-level EMAs (non-prior, one non-prior leaf sub each) -/
def tsiF : Ind F :=
  .mk (.ema p (name ++ "_data.price") (fl 2)) (name ++ "_first") defaultRound true false [tsiS name smooth] []
def tsiAF : Ind F :=
  .mk (.ema p (name ++ "_data.abs_price") (fl 2)) (name ++ "_abs_first") defaultRound true false
    [tsiAS name smooth] []
/-- the `Managed` holder `TSI_data` -/
def tsiM : Ind F :=
  .mk .managed (name ++ "_data") defaultRound true true [tsiF name p smooth, tsiAF name p smooth] []

theorem tsiP_name : (tsiP (F := F) name round p smooth input).name = name := mkTop_name _ _ _
theorem tsiP_kind : (tsiP (F := F) name round p smooth input).kind = .tsi p smooth input := mkTop_kind _ _ _
theorem tsiP_isSub : (tsiP (F := F) name round p smooth input).isSub = false := rfl
theorem tsiP_round : (tsiP (F := F) name round p smooth input).round = round := rfl
theorem tsiP_subs : (tsiP (F := F) name round p smooth input).subs = [] := rfl
theorem tsiP_managed : (tsiP (F := F) name round p smooth input).managed
    = [("TSI_data", tsiM name p smooth)] := rfl
theorem tsiS_name : (tsiS (F := F) name smooth).name = name ++ "_second" := rfl
theorem tsiAS_name : (tsiAS (F := F) name smooth).name = name ++ "_abs_second" := rfl
theorem tsiF_name : (tsiF (F := F) name p smooth).name = name ++ "_first" := rfl
theorem tsiAF_name : (tsiAF (F := F) name p smooth).name = name ++ "_abs_first" := rfl
theorem tsiF_subs : (tsiF (F := F) name p smooth).subs = [tsiS name smooth] := rfl
theorem tsiAF_subs : (tsiAF (F := F) name p smooth).subs = [tsiAS name smooth] := rfl
theorem tsiM_subs : (tsiM (F := F) name p smooth).subs = [tsiF name p smooth, tsiAF name p smooth] := rfl
theorem tsiS_leaf : IsLeaf (tsiS (F := F) name smooth) := ⟨rfl, rfl, rfl⟩
theorem tsiAS_leaf : IsLeaf (tsiAS (F := F) name smooth) := ⟨rfl, rfl, rfl⟩

end tsi

/-! ### the engine one level below a `Managed` holder: a non-prior node with one non-prior leaf sub -/

/-- `calculate_index(i, i + 1)` (`i ≠ 0`) of a read-only node `A` whose only sub-indicator is a
non-prior leaf `B`: one unconditional step of `A` at `i`, then one unconditional step of `B` at `i` -/
theorem calculateIndex_chain (A B : Ind F) (hsubs : A.subs = [B]) (hro : A.kind.readOnly = true)
    (hB : IsLeaf B) (hBp : B.priorCalc = false) (fuel : Nat) (hf : 5 ≤ fuel) (cs : List (Candle F))
    (i : Int) (hi : i ≠ 0) (hi1 : i + 1 ≠ 0) :
    calculateIndex fuel A cs i (i + 1) = (do
      let cs₁ ← stepLeaf A cs i
      stepLeaf B cs₁ i) := by
  obtain ⟨f, rfl⟩ : ∃ f, fuel = (f + 1) + 1 := ⟨fuel - 2, by omega⟩
  have hl : AllLeaves [B] := by
    intro s hs; simp only [List.mem_singleton] at hs; subst hs; exact hB
  have hpt : ∀ (cs : List (Candle F)) (i : Int), (do
        let (v, cs) ← calcReading (f + 1) A cs i
        setReading A.isSub A.name cs i (v.roundBy A.round)) = stepLeaf A cs i := by
    intro cs i
    rw [calcReading_leaf f A hro]
    unfold stepLeaf
    cases readKind A.kind { cs := cs, i := i, name := A.name } <;> rfl
  rw [calculateIndex, hsubs, calcSubs_leaves true i hi hi1 [B] hl (f + 1) cs (by simp; omega), pyRange_single]
  have h1 : stepSubs [B] true i cs = .ok cs := by
    rw [stepSubs]; simp [hBp, stepSubs, bind, Except.bind, pure, Except.pure]
  rw [h1]
  simp only [hpt]
  simp only [List.foldlM_cons, List.foldlM_nil, bind, Except.bind, pure, Except.pure]
  cases hs : stepLeaf A cs i with
  | error e => rfl
  | ok cs₁ =>
    simp only
    rw [calcSubs_leaves false i hi hi1 [B] hl (f + 1) cs₁ (by simp; omega)]
    rw [stepSubs]
    simp only [hBp, beq_self_eq_true, if_true, bind, Except.bind]
    cases stepLeaf B cs₁ i with
    | error e => rfl
    | ok cs₂ => rfl

section tsiEngine
variable (name : String) (round : Nat) (p smooth : Int) (input : String)

/-- `Managed.set_reading` of `TSI_data` at an index `i > 0`, without fuel: the store, then the four
EMA steps at `i` in the order first, second, abs_first, abs_second -/
def tsiSet (i : Int) (v : Val F) (cs : List (Candle F)) : PyM (List (Candle F)) := do
  let cs₀ ← setReading true (name ++ "_data") cs i v
  let cs₁ ← stepLeaf (tsiF name p smooth) cs₀ i
  let cs₂ ← stepLeaf (tsiS name smooth) cs₁ i
  let cs₃ ← stepLeaf (tsiAF name p smooth) cs₂ i
  stepLeaf (tsiAS name smooth) cs₃ i

/-- **`Managed.set_reading` of the TSI holder, unfolded two levels deep** (`i > 0`, fuel ≥ 8) -/
theorem setManagedReading_tsi (fuel : Nat) (hf : 8 ≤ fuel) (cs : List (Candle F)) (i : Int) (hi : 0 < i)
    (v : Val F) :
    setManagedReading fuel (tsiM (F := F) name p smooth) cs i v = tsiSet name p smooth i v cs := by
  obtain ⟨f, rfl⟩ : ∃ f, fuel = (((f + 1) + 1) + 1) + 1 := ⟨fuel - 4, by omega⟩
  have hi0 : i ≠ 0 := by omega
  have hi1 : i + 1 ≠ 0 := by omega
  have hb : (i != 0 && i + 1 != 0) = true := by simp [hi0, hi1]
  have hFp : (tsiF (F := F) name p smooth).priorCalc = false := rfl
  have hAp : (tsiAF (F := F) name p smooth).priorCalc = false := rfl
  rw [setManagedReading, tsiM_subs]
  -- the prior pass skips both subs
  have hprior : ∀ cs : List (Candle F),
      calcSubs (f + 1 + 1 + 1) [tsiF name p smooth, tsiAF name p smooth] true (some (i, i + 1)) cs = .ok cs := by
    intro cs
    rw [calcSubs]
    simp only [hFp, Bool.false_eq_true, beq_iff_eq, if_false, bind, Except.bind, pure, Except.pure]
    rw [calcSubs]
    simp only [hAp, Bool.false_eq_true, beq_iff_eq, if_false, bind, Except.bind, pure, Except.pure]
    rw [calcSubs_nil]
  -- the non-prior pass runs `calculate_index(i, i + 1)` of both
  have hpost : ∀ cs : List (Candle F),
      calcSubs (f + 1 + 1 + 1) [tsiF name p smooth, tsiAF name p smooth] false (some (i, i + 1)) cs = (do
        let cs₁ ← stepLeaf (tsiF name p smooth) cs i
        let cs₂ ← stepLeaf (tsiS name smooth) cs₁ i
        let cs₃ ← stepLeaf (tsiAF name p smooth) cs₂ i
        stepLeaf (tsiAS name smooth) cs₃ i) := by
    intro cs
    rw [calcSubs]
    simp only [hFp, beq_self_eq_true, if_true, hb]
    rw [calculateIndex_chain (tsiF name p smooth) (tsiS name smooth) rfl rfl (tsiS_leaf name smooth) rfl
      (f + 1 + 1) (by omega) cs i hi0 hi1]
    simp only [bind, Except.bind]
    cases stepLeaf (tsiF name p smooth) cs i with
    | error e => rfl
    | ok cs₁ =>
      simp only
      cases stepLeaf (tsiS name smooth) cs₁ i with
      | error e => rfl
      | ok cs₂ =>
        simp only
        rw [calcSubs]
        simp only [hAp, beq_self_eq_true, if_true, hb]
        rw [calculateIndex_chain (tsiAF name p smooth) (tsiAS name smooth) rfl rfl (tsiAS_leaf name smooth) rfl
          (f + 1) (by omega) cs₂ i hi0 hi1]
        simp only [bind, Except.bind]
        cases stepLeaf (tsiAF name p smooth) cs₂ i with
        | error e => rfl
        | ok cs₃ =>
          simp only
          cases stepLeaf (tsiAS name smooth) cs₃ i with
          | error e => rfl
          | ok cs₄ => simp only [calcSubs_nil]
  rw [hprior]
  unfold tsiSet
  simp only [bind, Except.bind]
  have hM : (tsiM (F := F) name p smooth).isSub = true := rfl
  have hMn : (tsiM (F := F) name p smooth).name = name ++ "_data" := rfl
  rw [hM, hMn]
  cases setReading true (name ++ "_data") cs i v with
  | error e => rfl
  | ok cs₀ =>
    simp only
    rw [hpost]
    rfl

/-- the helper services of the TSI node at index `i`, without fuel -/
def tsiOps (i : Int) : Ops F where
  setManaged := fun _ v cs => tsiSet name p smooth i v cs
  calcManaged := fun _ cs => .ok cs

/-- `_calculate_reading(i)` of the TSI node, without fuel -/
def tsiC : List (Candle F) → Int → PyM (Val F × List (Candle F)) :=
  fun cs i => Calc.tsi (tsiOps name p smooth i) { cs := cs, i := i, name := name } input

/-- **the engine's `_calculate_reading` of the TSI node** (fuel ≥ 9, every index): the guard
`reading_period(2, input)` forces `i ≥ 1`, so the index-0 fallback of `_calculate_sub_indicators` is
never taken -/
theorem calcReading_tsi (fuel : Nat) (hf : 9 ≤ fuel) (cs : List (Candle F)) (i : Int) :
    calcReading fuel (tsiP (F := F) name round p smooth input) cs i = tsiC name p smooth input cs i := by
  obtain ⟨g, rfl⟩ : ∃ g, fuel = g + 1 := ⟨fuel - 1, by omega⟩
  rw [calcReading]
  unfold calcKind
  rw [tsiP_kind]
  simp only
  unfold tsiC Calc.tsi
  rw [tsiP_name]
  by_cases hG : ({ cs := cs, i := i, name := name } : Ctx F).readingPeriod 2 input = true
  · have hpos : 0 < i := by
      have := readingPeriod_true_bound cs 2 input i hG
      omega
    have hg : (tsiP (F := F) name round p smooth input).getManaged "TSI_data" = .ok (tsiM name p smooth) :=
      getManaged_eq _ _ _ (by rw [tsiP_managed]; simp [dlookup])
    have hset : ∀ (v : Val F) (cs' : List (Candle F)),
        (do let m ← (tsiP (F := F) name round p smooth input).getManaged "TSI_data"
            setManagedReading g m cs' i v) = tsiSet name p smooth i v cs' := by
      intro v cs'
      rw [hg]
      simp only [bind, Except.bind]
      exact setManagedReading_tsi name p smooth g (by omega) cs' i hpos v
    simp only [hset, tsiOps]
  · simp only [hG, Bool.not_false, if_true]

end tsiEngine

/-! ### the loop of a node whose reading function needs a fixed amount of fuel -/

theorem calcLoop_withB (ind : Ind F) (C : List (Candle F) → Int → PyM (Val F × List (Candle F))) (b : Nat)
    (hC : ∀ (f : Nat) (cs : List (Candle F)) (i : Int), b ≤ f → calcReading f ind cs i = C cs i) :
    ∀ (n fuel : Nat) (cs : List (Candle F)) (k : Nat), n + b + 1 ≤ fuel →
      calcLoop fuel ind cs k n = Gen.nodeLoop (specWith ind C) cs k n := by
  intro n
  induction n with
  | zero =>
    intro fuel cs k hf
    obtain ⟨f, rfl⟩ : ∃ f, fuel = f + 1 := ⟨fuel - 1, by omega⟩
    rw [calcLoop]
    · rfl
    · intro h0; omega
  | succ n ih =>
    intro fuel cs k hf
    obtain ⟨f, rfl⟩ : ∃ f, fuel = f + 1 := ⟨fuel - 1, by omega⟩
    rw [calcLoop, Gen.nodeLoop]
    cases hc : pyIndex cs (k : Int) with
    | error e => rfl
    | ok c =>
      simp only [bind, Except.bind]
      show (do
        let cs ← if present ind.name c then pure cs else do
          let (v, cs) ← calcReading f ind cs k
          setReading ind.isSub ind.name cs k (v.roundBy ind.round)
        calcLoop f ind cs (k + 1) n) = _
      rw [hC f cs k (by omega)]
      simp only [bind, Except.bind, specWith, stepWith]
      by_cases hp : present ind.name c = true
      · simp only [hp, if_true, pure, Except.pure]
        exact ih f cs (k + 1) (by omega)
      · simp only [hp, Bool.false_eq_true, if_false]
        cases hr : C cs (k : Int) with
        | error e => rfl
        | ok r =>
          simp only
          cases hs : setReading ind.isSub ind.name r.2 (k : Int) (r.1.roundBy ind.round) with
          | error e => rfl
          | ok cs' => exact ih f cs' (k + 1) (by omega)

section tsiEngine2
variable (name : String) (round : Nat) (p smooth : Int) (input : String)

/-- **the engine on the TSI tree is the node's own loop**, whose step writes six keys -/
theorem engineCalc_tsi (cs : List (Candle F)) :
    engineCalc (tsiP (F := F) name round p smooth input) cs
      = Gen.nodeCalc (specWith (tsiP name round p smooth input) (tsiC name p smooth input)) cs := by
  unfold engineCalc fuelFor
  rw [calculate_succ, tsiP_subs]
  obtain ⟨f, hf⟩ : ∃ f, 16 + 2 * cs.length = f + 1 := ⟨15 + 2 * cs.length, by omega⟩
  rw [hf, calcSubs_nil]
  simp only [bind, Except.bind]
  rw [calcLoop_withB (tsiP name round p smooth input) (tsiC name p smooth input) 9
    (fun f cs i hf => calcReading_tsi name round p smooth input f hf cs i) _ _ _ _ (by omega)]
  unfold Gen.nodeCalc
  have hn : (specWith (tsiP (F := F) name round p smooth input) (tsiC name p smooth input)).name
      = (tsiP (F := F) name round p smooth input).name := rfl
  rw [hn]
  cases Gen.nodeLoop (specWith (tsiP name round p smooth input) (tsiC name p smooth input)) cs
      (findCalcIndex (tsiP (F := F) name round p smooth input).name cs)
      (cs.length - findCalcIndex (tsiP (F := F) name round p smooth input).name cs) with
  | error e => rfl
  | ok cs' => simp only [calcSubs_nil]

end tsiEngine2

/-! ### small facts (kept in their own namespace: sibling files prove similar ones) -/

namespace TSI

theorem frameK_refl (keys : List String) (c : Candle F) : FrameK keys c c := ⟨rfl, fun _ _ => ⟨rfl, rfl⟩⟩

theorem entries_setKey (isSub : Bool) (k : String) (v : Val F) (c : Candle F) :
    (∀ q ∈ (setKey isSub k v c).inds, q ∈ c.inds ∨ q.1 = k) ∧
    (∀ q ∈ (setKey isSub k v c).subs, q ∈ c.subs ∨ q.1 = k) := by
  cases isSub
  · exact ⟨fun q hq => mem_dset _ _ _ q hq, fun q hq => Or.inl hq⟩
  · exact ⟨fun q hq => Or.inl hq, fun q hq => mem_dset _ _ _ q hq⟩

/-- a name without a dot contains no `'.'` -/
theorem noDot_not_mem (s : String) (h : NoDot s) : '.' ∉ s.toList := by
  intro hm
  obtain ⟨as, bs, hl⟩ := List.append_of_mem hm
  unfold NoDot splitDot at h
  rw [hl, List.splitOn_append_cons_self] at h
  have l1 : 0 < (List.splitOn '.' as).length := List.length_pos_iff.2 (List.splitOn_ne_nil '.' as)
  have l2 : 0 < (List.splitOn '.' bs).length := List.length_pos_iff.2 (List.splitOn_ne_nil '.' bs)
  have := congrArg List.length h
  simp only [List.length_map, List.length_append, List.length_cons, List.length_nil] at this
  omega

/-- `main.fld` addresses the field `fld` of the entry under `main` -/
theorem splitDot_field (main fld : String) (h : NoDot main) (hf : '.' ∉ fld.toList) :
    splitDot (main ++ "." ++ fld) = [main, fld] := by
  have hm := noDot_not_mem main h
  unfold splitDot
  have e : (main ++ "." ++ fld).toList = main.toList ++ '.' :: fld.toList := by
    rw [String.toList_append, String.toList_append]
    simp
  rw [e, List.splitOn_append_cons_self_of_not_mem hm, List.splitOn_eq_singleton hf]
  simp

/-- a dotted read does not see entries stored under other keys -/
theorem indep_dotted (name nm main fld : String) (hs : splitDot nm = [main, fld]) (hne : name ≠ main) :
    Indep F name nm := by
  intro isSub v c
  unfold readingByCandle
  rw [hs]
  cases isSub <;> simp [setKey, dlookup_dset_ne _ _ _ _ hne]

end TSI

/-! ### EMA as a tolerant leaf piece over any input seen through the read keys -/

/-- **EMA satisfies the tolerant leaf contract** (`period ≥ 1`) for an input that is a candle attribute
(`rk = []`), an ordinary key of another piece (`rk = [input]`, `sees_key`, `indep_key`) or a dotted
field of another piece's dict (`rk = [main]`, `sees_dotted`, `TSI.indep_dotted`) -/
def emaTG (Z : Ind F) (p : Int) (inp : String) (sm : Num F) (hk : Z.kind = .ema p inp sm) (hp : 1 ≤ p)
    (hname : IsKey Z.name) (rk : List String) (hsee : Sees F (Z.name :: rk) inp)
    (hind : Indep F Z.name inp) : TContract Z where
  rkeys := rk
  Inv := fun _ => True
  inv_nil := trivial
  inv_sim := fun _ _ _ _ => trivial
  inv_step := fun _ _ _ _ _ _ => trivial
  loc := by
    intro H c rest _
    unfold valOf
    rw [hk, ← trunc_append_cons H c rest]
    exact (ema_trunc _ p inp sm (by simp) (by simp) hp).symm
  val_sim := by
    intro H H' c c' hH hc
    unfold valOf
    rw [hk]
    have hown := sameCol_simL _ Z.name (sees_key _ _ hname (by simp)) hH hc Z.name
    exact ema_congr _ _ p inp sm (sameCol_simL _ inp hsee hH hc _)
      (Ctx.prevExists_congr hown) (Ctx.prevNum_congr hown)
  stable := by
    intro H c v
    unfold valOf decOf
    rw [hk]
    refine ema_congr _ _ p inp sm (sameCol_last inp H c _ Z.name (hind _ _ _)) ?_ ?_
    · rw [Ctx.prevExists_append_cons, Ctx.prevExists_append_cons]
    · rw [Ctx.prevNum_append_cons, Ctx.prevNum_append_cons]

/-- one unconditional step of a keyed piece under its tolerant contract -/
theorem stepLeaf_T (Z : Ind F) (T : TContract Z) (H : List (Candle F)) (c : Candle F) (rest : List (Candle F))
    (hinv : T.Inv H) :
    stepLeaf Z (H ++ c :: rest) H.length = (do
      let v ← valOf Z H c
      pure (H ++ decOf Z v c :: rest)) := by
  rw [stepLeaf_append_cons, T.loc H c rest hinv]
  rfl

/-! ### a guarded lawful prefix followed by the node's own store -/

section guard
variable (X : TComp F) (name : String) (round : Nat) (G : List (Candle F) → Candle F → Bool)
  (fin : Candle F → PyM (Val F)) (frk : List String) (P : List (Candle F) → PyM (List (Candle F)))

/-- what the prefix stores, if it runs -/
def gInner (o : Option X.ω) (c : Candle F) : Candle F :=
  match o with
  | some x => X.app x c
  | none => c

/-- **a node's own step that drives helper pieces from inside**: when the guard `G` (which looks at
the bare candles only) holds, the pieces of `X` run on the current candle and the node's reading
`fin` is computed from what they stored; otherwise nothing is stored but a `None` reading. -/
def guardOwn : TComp F where
  name := name
  ω := Option X.ω × Val F
  val := fun H c => if G H c then do
      let x ← X.val H c
      let w ← fin (X.app x c)
      pure (some x, w)
    else pure (none, .none)
  app := fun z c => setKey false name (z.2.roundBy round) (gInner X z.1 c)
  rkeys := X.rkeys ++ frk
  wkeys := X.wkeys ++ [name]
  Raw := fun c => hasKey name c = false ∧ X.Raw c
  Settled := fun H => ∀ d ∈ H, hasKey name d = true
  pass := P

theorem frameK_gInner (LX : TComp.Law X) (o : Option X.ω) (c : Candle F) : FrameK X.wkeys c (gInner X o c) := by
  cases o with
  | none => exact TSI.frameK_refl _ c
  | some x => exact LX.app_frame x c

theorem simK_gInner (LX : TComp.Law X) (keys : List String) (o : Option X.ω) (c c' : Candle F)
    (h : SimK keys c c') : SimK keys (gInner X o c) (gInner X o c') := by
  cases o with
  | none => exact h
  | some x => exact LX.app_sim keys x c c' h

/-- the laws of `guardOwn`, given the laws of the prefix, that the guard only sees the bare candles,
that the node's key is foreign to the prefix, and that the engine's pass is the row-major fold -/
theorem guardOwn_law (LX : TComp.Law X)
    (hG : ∀ H H' c c', SimL ([] : List String) H H' → SimK ([] : List String) c c' → G H c = G H' c')
    (hfin : ∀ a b : Candle F, SimK frk a b → fin a = fin b)
    (nw : name ∉ X.wkeys) (nr : name ∉ X.rkeys) (nf : name ∉ frk)
    (hpass : ∀ H R out, (∀ d ∈ H, hasKey name d = true) → (∀ r ∈ R, hasKey name r = false ∧ X.Raw r) →
      (P (H ++ R) = .ok out ↔ (guardOwn X name round G fin frk P).rowFrom H R = .ok out)) :
    TComp.Law (guardOwn X name round G fin frk P) where
  name_w := by simp [guardOwn]
  app_frame := fun z c => TComp.frameK_trans (frameK_gInner X LX z.1 c) (frameK_setKey false name _ _)
  app_key := fun z c => hasKey_setKey _ _ _ _
  app_entries := by
    intro z c
    have hin : (∀ q ∈ (gInner X z.1 c).inds, q ∈ c.inds ∨ q.1 ∈ X.wkeys) ∧
        (∀ q ∈ (gInner X z.1 c).subs, q ∈ c.subs ∨ q.1 ∈ X.wkeys) := by
      obtain ⟨o, w⟩ := z
      cases o with
      | none => exact ⟨fun q hq => Or.inl hq, fun q hq => Or.inl hq⟩
      | some x => exact LX.app_entries x c
    constructor
    · intro q hq
      rcases (TSI.entries_setKey false name _ _).1 q hq with h | h
      · rcases hin.1 q h with h' | h'
        · exact Or.inl h'
        · exact Or.inr (List.mem_append_left _ h')
      · exact Or.inr (List.mem_append_right _ (by simp [h]))
    · intro q hq
      rcases (TSI.entries_setKey false name _ _).2 q hq with h | h
      · rcases hin.2 q h with h' | h'
        · exact Or.inl h'
        · exact Or.inr (List.mem_append_left _ h')
      · exact Or.inr (List.mem_append_right _ (by simp [h]))
  app_sim := fun keys z c c' h => simK_setKey keys _ _ _ _ _ (simK_gInner X LX keys z.1 c c' h)
  raw_nokey := fun c h => h.1
  raw_of := fun c h => ⟨h name (List.mem_append_right _ (by simp)),
    LX.raw_of c (fun k hk => h k (List.mem_append_left _ hk))⟩
  val_sim := by
    intro H H' c c' hs hc
    have hs0 : SimL ([] : List String) H H' := hs.mono (fun k hk => by cases hk)
    have hc0 : SimK ([] : List String) c c' := hc.mono (fun k hk => by cases hk)
    have hsX : SimL X.rkeys H H' := hs.mono (fun k hk => List.mem_append_left _ hk)
    have hcX : SimK X.rkeys c c' := hc.mono (fun k hk => List.mem_append_left _ hk)
    have hcf : SimK frk c c' := hc.mono (fun k hk => List.mem_append_right _ hk)
    show (if G H c then (do let x ← X.val H c; let w ← fin (X.app x c); pure (some x, w))
        else pure (none, .none))
      = (if G H' c' then (do let x ← X.val H' c'; let w ← fin (X.app x c'); pure (some x, w))
        else pure (none, .none))
    rw [hG H H' c c' hs0 hc0, LX.val_sim H H' c c' hsX hcX]
    have : ∀ x, fin (X.app x c) = fin (X.app x c') := fun x => hfin _ _ (LX.app_sim frk x c c' hcf)
    simp only [this]
  stable := by
    intro H c z hraw hv
    obtain ⟨o, w⟩ := z
    have hown : ∀ (keys : List String) (y : Candle F) (u : Val F), name ∉ keys →
        SimK keys (setKey false name u y) y :=
      fun keys y u hk => (frameK_setKey false name u y).sim (fun k hk' => by
        intro h; simp only [List.mem_singleton] at h; subst h; exact hk hk')
    have hbare : SimK ([] : List String)
        (setKey false name (w.roundBy round) (gInner X o c)) c :=
      ⟨by rw [bare_setKey]; exact (frameK_gInner X LX o c).1, fun k hk => by cases hk⟩
    change (if G H c then (do let x ← X.val H c; let w ← fin (X.app x c); pure (some x, w))
        else pure (none, .none)) = .ok (o, w) at hv
    show (if G H (setKey false name (w.roundBy round) (gInner X o c)) then (do
          let x ← X.val H (setKey false name (w.roundBy round) (gInner X o c))
          let w' ← fin (X.app x (setKey false name (w.roundBy round) (gInner X o c)))
          pure (some x, w'))
        else pure (none, .none)) = .ok (o, w)
    rw [hG H H _ c (SimL.refl _ H) hbare]
    by_cases hg : G H c = true
    · simp only [hg, if_true] at hv ⊢
      cases hx : X.val H c with
      | error e => rw [hx] at hv; cases hv
      | ok x =>
        rw [hx] at hv
        simp only [bind, Except.bind] at hv
        cases hw : fin (X.app x c) with
        | error e => rw [hw] at hv; cases hv
        | ok w0 =>
          rw [hw] at hv
          simp only [pure, Except.pure] at hv
          have hz : (some x, w0) = (o, w) := Except.ok.inj hv
          cases hz
          show (do
            let x' ← X.val H (setKey false name (w.roundBy round) (X.app x c))
            let w' ← fin (X.app x' (setKey false name (w.roundBy round) (X.app x c)))
            pure (some x', w')) = .ok (some x, w)
          have h1 : X.val H (setKey false name (w.roundBy round) (X.app x c)) = .ok x := by
            rw [LX.val_sim H H _ (X.app x c) (SimL.refl _ H) (hown X.rkeys _ _ nr)]
            exact LX.stable H c x hraw.2 hx
          have h2 : X.app x (setKey false name (w.roundBy round) (X.app x c))
              = setKey false name (w.roundBy round) (X.app x c) :=
            LX.absorb x c _ hraw.2 (hown X.wkeys _ _ nw)
          rw [h1]
          simp only [bind, Except.bind]
          rw [h2, hfin _ (X.app x c) (hown frk _ _ nf), hw]
          rfl
    · simp only [hg, Bool.false_eq_true, if_false] at hv ⊢
      exact hv
  absorb := by
    intro z c d hraw hd
    obtain ⟨o, w⟩ := z
    show setKey false name (w.roundBy round) (gInner X o d) = d
    have hd' : SimK (X.wkeys ++ [name]) d (setKey false name (w.roundBy round) (gInner X o c)) := hd
    have hN : dlookup name d.inds = some (w.roundBy round) := by
      rw [(hd'.2 name (List.mem_append_right _ (by simp))).1]
      show dlookup name (dset name _ _) = _
      exact dlookup_dset_self _ _ _
    have hin : gInner X o d = d := by
      cases o with
      | none => rfl
      | some x =>
        refine LX.absorb x c d hraw.2 ?_
        refine (hd'.mono (fun k hk => List.mem_append_left _ hk)).trans ?_
        exact (frameK_setKey false name _ _).sim (fun k hk' => by
          intro h; simp only [List.mem_singleton] at h; subst h; exact nw hk')
    rw [hin]
    simp [setKey, dset_absorb _ _ d.inds hN]
  settled_nil := by intro d hd; cases hd
  settled_step := by
    intro H r z hs _ _ d hd
    rcases List.mem_append.1 hd with h | h
    · exact hs d h
    · simp at h; subst h; exact hasKey_setKey _ _ _ _
  settled_sim := by
    intro H H' hs hsim d' hd'
    obtain ⟨d, hd, hdd⟩ := TComp.forall₂_mem_right' hsim d' hd'
    rw [← hasKey_simK (keys := (X.rkeys ++ frk) ++ (X.wkeys ++ [name])) (by simp) hdd]
    exact hs d hd
  pass_iff := hpass

end guard

/-! ### names -/

/-- name conditions of a TSI node: the node's name and the five helper names are ordinary keys (no dot,
not a candle attribute), pairwise distinct -/
structure TsiNames (name : String) : Prop where
  kN : IsKey name
  kD : IsKey (name ++ "_data")
  kF : IsKey (name ++ "_first")
  kS : IsKey (name ++ "_second")
  kA : IsKey (name ++ "_abs_first")
  kB : IsKey (name ++ "_abs_second")
  nD : name ≠ name ++ "_data"
  nF : name ≠ name ++ "_first"
  nS : name ≠ name ++ "_second"
  nA : name ≠ name ++ "_abs_first"
  nB : name ≠ name ++ "_abs_second"
  DF : name ++ "_data" ≠ name ++ "_first"
  DS : name ++ "_data" ≠ name ++ "_second"
  DA : name ++ "_data" ≠ name ++ "_abs_first"
  DB : name ++ "_data" ≠ name ++ "_abs_second"
  FS : name ++ "_first" ≠ name ++ "_second"
  FA : name ++ "_first" ≠ name ++ "_abs_first"
  FB : name ++ "_first" ≠ name ++ "_abs_second"
  SA : name ++ "_second" ≠ name ++ "_abs_first"
  SB : name ++ "_second" ≠ name ++ "_abs_second"
  AB : name ++ "_abs_first" ≠ name ++ "_abs_second"

/-- the dotted inputs of the two first-level EMAs address the fields of the holder's dict -/
theorem TsiNames.price {name : String} (hn : TsiNames name) :
    splitDot (name ++ "_data.price") = [name ++ "_data", "price"] := by
  have e : name ++ "_data.price" = name ++ "_data" ++ "." ++ "price" := by
    rw [String.append_assoc, String.append_assoc]; rfl
  rw [e]
  exact TSI.splitDot_field _ _ hn.kD.noDot (by decide)

theorem TsiNames.absPrice {name : String} (hn : TsiNames name) :
    splitDot (name ++ "_data.abs_price") = [name ++ "_data", "abs_price"] := by
  have e : name ++ "_data.abs_price" = name ++ "_data" ++ "." ++ "abs_price" := by
    rw [String.append_assoc, String.append_assoc]; rfl
  rw [e]
  exact TSI.splitDot_field _ _ hn.kD.noDot (by decide)

/-! ### the holder's series as a piece -/

section dpiece
variable (name input : String)

/-- the dict the node stores under `<name>_data`: the change of the input and its absolute value -/
def tsiDVal (H : List (Candle F)) (c : Candle F) : PyM (Val F) := do
  let a ← ({ cs := H ++ [c], i := H.length, name := name } : Ctx F).num input
  let b ← ({ cs := H ++ [c], i := H.length, name := name } : Ctx F).prevNum input
  pure (sdict [("price", sc (a.sub b)), ("abs_price", sc (a.sub b).abs)])

/-- the piece without an engine pass of its own … -/
def tsiD0 : TComp F where
  name := name ++ "_data"
  ω := Val F
  val := tsiDVal name input
  app := fun v c => setKey true (name ++ "_data") v c
  rkeys := []
  wkeys := [name ++ "_data"]
  Raw := fun c => hasKey (name ++ "_data") c = false
  Settled := fun H => ∀ d ∈ H, hasKey (name ++ "_data") d = true
  pass := fun cs => .ok cs

/-- … and with the row-major fold from its `_find_calc_index` as (fictitious) pass: the holder is only
ever written by the node, never calculated by itself -/
def tsiD : TComp F :=
  { tsiD0 name input with
    pass := fun cs => (tsiD0 name input).rowFrom (cs.take (findCalcIndex (name ++ "_data") cs))
      (cs.drop (findCalcIndex (name ++ "_data") cs)) }

theorem tsiD_law (hin : NoDot input ∧ input ∈ Candle.attrNames) : TComp.Law (tsiD (F := F) name input) where
  name_w := by simp [tsiD, tsiD0]
  app_frame := fun z c => frameK_setKey true _ z c
  app_key := fun z c => hasKey_setKey _ _ _ _
  app_entries := by
    intro z c
    constructor
    · intro q hq
      rcases (TSI.entries_setKey true (name ++ "_data") z c).1 q hq with h | h
      · exact Or.inl h
      · exact Or.inr (by simp [tsiD, tsiD0, h])
    · intro q hq
      rcases (TSI.entries_setKey true (name ++ "_data") z c).2 q hq with h | h
      · exact Or.inl h
      · exact Or.inr (by simp [tsiD, tsiD0, h])
  app_sim := fun keys z c c' h => simK_setKey keys _ _ _ c c' h
  raw_nokey := fun c h => h
  raw_of := fun c h => h (name ++ "_data") (by simp [tsiD, tsiD0])
  val_sim := by
    intro H H' c c' hs hc
    have hcol := sameCol_simL (F := F) [] input (sees_attr _ _ hin.1 hin.2) hs hc name
    show tsiDVal name input H c = tsiDVal name input H' c'
    unfold tsiDVal
    rw [Ctx.num_congr hcol, Ctx.prevNum_congr hcol]
  stable := by
    intro H c z _ hv
    have hcol := sameCol_last input H c (setKey true (name ++ "_data") z c) name
      (indep_attr (F := F) (name ++ "_data") input hin.1 hin.2 _ _ _)
    show tsiDVal name input H (setKey true (name ++ "_data") z c) = .ok z
    unfold tsiDVal
    rw [Ctx.num_congr hcol, Ctx.prevNum_congr hcol]
    exact hv
  absorb := fun z c d hraw hd => setKey_absorb true _ z c d hraw hd
  settled_nil := by intro d hd; cases hd
  settled_step := by
    intro H r z hs _ _ d hd
    rcases List.mem_append.1 hd with h | h
    · exact hs d h
    · simp at h; subst h; exact hasKey_setKey _ _ _ _
  settled_sim := by
    intro H H' hs hsim d' hd'
    obtain ⟨d, hd, hdd⟩ := TComp.forall₂_mem_right' hsim d' hd'
    rw [← hasKey_simK (keys := ([] : List String) ++ [name ++ "_data"]) (by simp) hdd]
    exact hs d hd
  pass_iff := by
    intro H R out hs hR
    show (tsiD0 name input).rowFrom ((H ++ R).take (findCalcIndex (name ++ "_data") (H ++ R)))
      ((H ++ R).drop (findCalcIndex (name ++ "_data") (H ++ R))) = .ok out ↔ _
    rw [findCalcIndex_split (name ++ "_data") H R hs hR, List.take_left', List.drop_left']
    · exact Iff.rfl
    · rfl
    · rfl

end dpiece

/-! ### the four EMA pieces and the chain -/

section chain
variable (name : String) (round : Nat) (p smooth : Int) (input : String)
  (hp : 1 ≤ p) (hs : 1 ≤ smooth) (hn : TsiNames name)

/-- the tolerant contracts of the four EMAs -/
def tsiTF : TContract (tsiF (F := F) name p smooth) :=
  emaTG _ p (name ++ "_data.price") (fl 2) rfl hp hn.kF [name ++ "_data"]
    (sees_dotted _ _ _ _ hn.price (by simp)) (TSI.indep_dotted _ _ _ _ hn.price hn.DF.symm)
def tsiTS : TContract (tsiS (F := F) name smooth) :=
  emaTG _ smooth (name ++ "_first") (fl 2) rfl hs hn.kS [name ++ "_first"]
    (sees_key _ _ hn.kF (by simp)) (indep_key _ _ hn.kF hn.FS.symm)
def tsiTA : TContract (tsiAF (F := F) name p smooth) :=
  emaTG _ p (name ++ "_data.abs_price") (fl 2) rfl hp hn.kA [name ++ "_data"]
    (sees_dotted _ _ _ _ hn.absPrice (by simp)) (TSI.indep_dotted _ _ _ _ hn.absPrice hn.DA.symm)
def tsiTB : TContract (tsiAS (F := F) name smooth) :=
  emaTG _ smooth (name ++ "_abs_first") (fl 2) rfl hs hn.kB [name ++ "_abs_first"]
    (sees_key _ _ hn.kA (by simp)) (indep_key _ _ hn.kA hn.AB.symm)

/-- the pieces -/
def tsiCF : TComp F := leafComp (tsiF name p smooth) (tsiTF name p smooth hp hn)
def tsiCS : TComp F := leafComp (tsiS name smooth) (tsiTS name smooth hs hn)
def tsiCA : TComp F := leafComp (tsiAF name p smooth) (tsiTA name p smooth hp hn)
def tsiCB : TComp F := leafComp (tsiAS name smooth) (tsiTB name smooth hs hn)

/-- everything `Managed.set_reading` writes at one index, in the engine's order -/
def tsiX : TComp F :=
  TComp.seq (TComp.seq (TComp.seq (TComp.seq (tsiD name input) (tsiCF name p smooth hp hn))
    (tsiCS name smooth hs hn)) (tsiCA name p smooth hp hn)) (tsiCB name smooth hs hn)

theorem tsiX_rkeys : (tsiX (F := F) name p smooth input hp hs hn).rkeys
    = [name ++ "_first", name ++ "_data", name ++ "_second", name ++ "_first",
       name ++ "_abs_first", name ++ "_data", name ++ "_abs_second", name ++ "_abs_first"] := rfl

theorem tsiX_wkeys : (tsiX (F := F) name p smooth input hp hs hn).wkeys
    = [name ++ "_data", name ++ "_first", name ++ "_second", name ++ "_abs_first", name ++ "_abs_second"] := rfl

set_option linter.unusedSimpArgs false in
theorem tsiX_law (hin : NoDot input ∧ input ∈ Candle.attrNames) :
    TComp.Law (tsiX (F := F) name p smooth input hp hs hn) := by
  unfold tsiX
  refine TComp.seq_law (TComp.seq_law (TComp.seq_law (TComp.seq_law (tsiD_law name input hin)
    (leafComp_law _ _) ?_) (leafComp_law _ _) ?_) (leafComp_law _ _) ?_) (leafComp_law _ _) ?_
  · constructor <;> intro k hk <;>
      simp [tsiD, tsiD0, tsiCF, leafComp, tsiF_name] at hk ⊢
    subst hk
    exact hn.DF
  · constructor <;> intro k hk <;>
      simp [TComp.seq, tsiD, tsiD0, tsiCF, tsiCS, leafComp, tsiTF, emaTG, tsiF_name, tsiS_name] at hk ⊢ <;>
      rintro rfl <;>
      simp [hn.nD, hn.nF, hn.nS, hn.nA, hn.nB, hn.DF, hn.DS, hn.DA, hn.DB, hn.FS, hn.FA, hn.FB, hn.SA, hn.SB, hn.AB,
        hn.nD.symm, hn.nF.symm, hn.nS.symm, hn.nA.symm, hn.nB.symm, hn.DF.symm, hn.DS.symm, hn.DA.symm, hn.DB.symm,
        hn.FS.symm, hn.FA.symm, hn.FB.symm, hn.SA.symm, hn.SB.symm, hn.AB.symm] at hk
  · constructor <;> intro k hk <;>
      simp [TComp.seq, tsiD, tsiD0, tsiCF, tsiCS, tsiCA, leafComp, tsiTF, tsiTS, emaTG, tsiF_name, tsiS_name,
        tsiAF_name] at hk ⊢ <;>
      rintro rfl <;>
      simp [hn.nD, hn.nF, hn.nS, hn.nA, hn.nB, hn.DF, hn.DS, hn.DA, hn.DB, hn.FS, hn.FA, hn.FB, hn.SA, hn.SB, hn.AB,
        hn.nD.symm, hn.nF.symm, hn.nS.symm, hn.nA.symm, hn.nB.symm, hn.DF.symm, hn.DS.symm, hn.DA.symm, hn.DB.symm,
        hn.FS.symm, hn.FA.symm, hn.FB.symm, hn.SA.symm, hn.SB.symm, hn.AB.symm] at hk
  · constructor <;> intro k hk <;>
      simp [TComp.seq, tsiD, tsiD0, tsiCF, tsiCS, tsiCA, tsiCB, leafComp, tsiTF, tsiTS, tsiTA, emaTG, tsiF_name,
        tsiS_name, tsiAF_name, tsiAS_name] at hk ⊢ <;>
      rintro rfl <;>
      simp [hn.nD, hn.nF, hn.nS, hn.nA, hn.nB, hn.DF, hn.DS, hn.DA, hn.DB, hn.FS, hn.FA, hn.FB, hn.SA, hn.SB, hn.AB,
        hn.nD.symm, hn.nF.symm, hn.nS.symm, hn.nA.symm, hn.nB.symm, hn.DF.symm, hn.DS.symm, hn.DA.symm, hn.DB.symm,
        hn.FS.symm, hn.FA.symm, hn.FB.symm, hn.SA.symm, hn.SB.symm, hn.AB.symm] at hk

end chain

/-! ### the node's own step -/

/-- the node's reading from what the chain stored on the current candle; reads two keys -/
def tsiFin (name : String) (c : Candle F) : PyM (Val F) :=
  if !(readingByCandle c (name ++ "_abs_second")).isNone then do
    let a ← (readingByCandle c (name ++ "_abs_second")).asNum
    if a.eq (.int 0) then pure (.num (fl 0)) else do
      let s ← (readingByCandle c (name ++ "_second")).asNum
      let a' ← (readingByCandle c (name ++ "_abs_second")).asNum
      let q ← s.truediv a'
      pure (.num ((Num.int 100).mul q))
  else pure .none

/-- the guard of the node's step: `reading_period(2, input)` at the current candle -/
def tsiG (name input : String) (H : List (Candle F)) (c : Candle F) : Bool :=
  ({ cs := H ++ [c], i := H.length, name := name } : Ctx F).readingPeriod 2 input

theorem tsiFin_sim (name : String) (hn : TsiNames name) (a b : Candle F)
    (h : SimK [name ++ "_second", name ++ "_abs_second"] a b) : tsiFin name a = tsiFin name b := by
  unfold tsiFin
  rw [sees_key (F := F) _ (name ++ "_abs_second") hn.kB (by simp) a b h,
    sees_key (F := F) _ (name ++ "_second") hn.kS (by simp) a b h]

theorem tsiG_sim (name input : String) (hin : NoDot input ∧ input ∈ Candle.attrNames)
    (H H' : List (Candle F)) (c c' : Candle F) (hs : SimL ([] : List String) H H')
    (hc : SimK ([] : List String) c c') : tsiG name input H c = tsiG name input H' c' := by
  unfold tsiG
  exact Ctx.readingPeriod_congr (sameCol_simL (F := F) [] input (sees_attr _ _ hin.1 hin.2) hs hc name) 2 none

section own
variable (name : String) (round : Nat) (p smooth : Int) (input : String)
  (hp : 1 ≤ p) (hs : 1 ≤ smooth) (hn : TsiNames name)

/-- **the TSI node's own step as a tolerant component**: guard; the dict and the four EMA readings
(`Managed.set_reading`); the own reading.  The pass is the node's loop as the engine runs it. -/
def tsiCompP : TComp F :=
  guardOwn (tsiX name p smooth input hp hs hn) name round (tsiG name input) (tsiFin name)
    [name ++ "_second", name ++ "_abs_second"]
    (Gen.nodeCalc (specWith (tsiP name round p smooth input) (tsiC name p smooth input)))

theorem tsiDVal_eq (H : List (Candle F)) (c : Candle F) :
    tsiDVal name input H c = (do
      let a ← (readingByCandle c input).asNum
      let b ← (Ctx.lastReading input H).asNum
      pure (sdict [("price", sc (a.sub b)), ("abs_price", sc (a.sub b).abs)])) := by
  unfold tsiDVal
  rw [Ctx.num_cur H c [], Ctx.prevNum_append_cons H c []]

/-- what the chain stores -/
def tsiXApp (d f s a b : Val F) (c : Candle F) : Candle F :=
  decOf (tsiAS name smooth) b (decOf (tsiAF name p smooth) a (decOf (tsiS name smooth) s
    (decOf (tsiF name p smooth) f (setKey true (name ++ "_data") d c))))

theorem tsiX_app (d f s a b : Val F) (c : Candle F) :
    (tsiX name p smooth input hp hs hn).app ((((d, f), s), a), b) c = tsiXApp name p smooth d f s a b c := rfl

/-- the value of the chain, flattened -/
theorem tsiX_val (H : List (Candle F)) (c : Candle F) :
    (tsiX name p smooth input hp hs hn).val H c = (do
      let d ← tsiDVal name input H c
      let f ← valOf (tsiF name p smooth) H (setKey true (name ++ "_data") d c)
      let s ← valOf (tsiS name smooth) H (decOf (tsiF name p smooth) f (setKey true (name ++ "_data") d c))
      let a ← valOf (tsiAF name p smooth) H (decOf (tsiS name smooth) s
        (decOf (tsiF name p smooth) f (setKey true (name ++ "_data") d c)))
      let b ← valOf (tsiAS name smooth) H (decOf (tsiAF name p smooth) a (decOf (tsiS name smooth) s
        (decOf (tsiF name p smooth) f (setKey true (name ++ "_data") d c))))
      pure ((((d, f), s), a), b)) := by
  unfold tsiX
  simp only [TComp.seq, tsiD, tsiD0, tsiCF, tsiCS, tsiCA, tsiCB, leafComp]
  rcases tsiDVal name input H c with e | d
  · rfl
  simp only [bind, Except.bind, pure, Except.pure]
  rcases valOf (tsiF name p smooth) H (setKey true (name ++ "_data") d c) with e | f
  · rfl
  simp only
  rcases valOf (tsiS name smooth) H (decOf (tsiF name p smooth) f (setKey true (name ++ "_data") d c)) with e | s
  · rfl
  simp only
  rcases valOf (tsiAF name p smooth) H (decOf (tsiS name smooth) s
    (decOf (tsiF name p smooth) f (setKey true (name ++ "_data") d c))) with e | a
  · rfl
  simp only

/-- **one step of the node as the engine runs it** (set_reading two levels deep, read back) is
"compute from `H` and `c` only, store on `c`" -/
theorem stepWith_tsi (H : List (Candle F)) (c : Candle F) (rest : List (Candle F)) :
    stepWith (tsiP name round p smooth input) (tsiC name p smooth input) (H ++ c :: rest) H.length = (do
      let z ← (tsiCompP name round p smooth input hp hs hn).val H c
      pure (H ++ (tsiCompP name round p smooth input hp hs hn).app z c :: rest)) := by
  have hGeq : ({ cs := H ++ c :: rest, i := H.length, name := name } : Ctx F).readingPeriod 2 input
      = tsiG name input H c := by
    unfold tsiG
    rw [← trunc_append_cons H c rest]
    exact (Ctx.readingPeriod_trunc _ 2 input (by simp) (by simp) (by decide)).symm
  unfold stepWith tsiC Calc.tsi
  show _ = (do
    let z ← (if tsiG name input H c then (do
          let x ← (tsiX name p smooth input hp hs hn).val H c
          let w ← tsiFin name ((tsiX name p smooth input hp hs hn).app x c)
          pure (some x, w))
        else pure (none, .none))
    pure (H ++ setKey false name (z.2.roundBy round) (gInner (tsiX name p smooth input hp hs hn) z.1 c) :: rest))
  simp only [hGeq, tsiP_isSub, tsiP_name, tsiP_round]
  by_cases hg : tsiG name input H c = true
  · simp only [hg, Bool.not_true, Bool.false_eq_true, if_false, if_true]
    simp only [Ctx.num_cur, Ctx.prevNum_append_cons, tsiOps, tsiSet, setReading_eq, updateAt_append_cons]
    rw [tsiX_val, tsiDVal_eq]
    rcases (readingByCandle c input).asNum with e | a
    · rfl
    rcases (Ctx.lastReading input H).asNum with e | b
    · rfl
    simp only [bind, Except.bind, pure, Except.pure]
    generalize sdict [("price", sc (a.sub b)), ("abs_price", sc (a.sub b).abs)] = d
    rw [stepLeaf_T (tsiF name p smooth) (tsiTF name p smooth hp hn) H _ rest trivial]
    rcases valOf (tsiF name p smooth) H (setKey true (name ++ "_data") d c) with e | f
    · rfl
    simp only [bind, Except.bind, pure, Except.pure]
    rw [stepLeaf_T (tsiS name smooth) (tsiTS name smooth hs hn) H _ rest trivial]
    rcases valOf (tsiS name smooth) H (decOf (tsiF name p smooth) f (setKey true (name ++ "_data") d c)) with e | s
    · rfl
    simp only [bind, Except.bind, pure, Except.pure]
    rw [stepLeaf_T (tsiAF name p smooth) (tsiTA name p smooth hp hn) H _ rest trivial]
    rcases valOf (tsiAF name p smooth) H (decOf (tsiS name smooth) s
      (decOf (tsiF name p smooth) f (setKey true (name ++ "_data") d c))) with e | af
    · rfl
    simp only [bind, Except.bind, pure, Except.pure]
    rw [stepLeaf_T (tsiAS name smooth) (tsiTB name smooth hs hn) H _ rest trivial]
    rcases valOf (tsiAS name smooth) H (decOf (tsiAF name p smooth) af (decOf (tsiS name smooth) s
      (decOf (tsiF name p smooth) f (setKey true (name ++ "_data") d c)))) with e | as
    · rfl
    simp only [bind, Except.bind, pure, Except.pure, tsiX_app, Ctx.reading_cur, Ctx.num_cur]
    unfold tsiFin
    unfold tsiXApp
    have hc5 : gInner (tsiX name p smooth input hp hs hn) (some ((((d, f), s), af), as)) c
        = decOf (tsiAS name smooth) as (decOf (tsiAF name p smooth) af (decOf (tsiS name smooth) s
            (decOf (tsiF name p smooth) f (setKey true (name ++ "_data") d c)))) := rfl
    generalize decOf (tsiAS name smooth) as (decOf (tsiAF name p smooth) af (decOf (tsiS name smooth) s
      (decOf (tsiF name p smooth) f (setKey true (name ++ "_data") d c)))) = c5 at hc5 ⊢
    generalize readingByCandle c5 (name ++ "_abs_second") = rb
    generalize readingByCandle c5 (name ++ "_second") = rs
    by_cases h1 : rb.isNone = true
    · simp only [h1, Bool.not_true, Bool.false_eq_true, if_false, pure, Except.pure, updateAt_append_cons, hc5]
    · simp only [h1, Bool.not_false, if_true, bind, Except.bind, pure, Except.pure]
      rcases rb.asNum with e | v
      · rfl
      simp only
      by_cases h2 : v.eq (Num.int 0) = true
      · simp only [h2, if_true, updateAt_append_cons, hc5]
      · simp only [h2, Bool.false_eq_true, if_false]
        rcases rs.asNum with e | v'
        · rfl
        simp only
        rcases v'.truediv v with e | q
        · rfl
        simp only [updateAt_append_cons, hc5]
  · simp only [hg, Bool.not_false, if_true, Bool.false_eq_true, if_false, bind, Except.bind, pure, Except.pure,
      setReading_eq, updateAt_append_cons]
    rfl

/-- the loop of the node over raw candles is the row-major fold of the component -/
theorem nodeLoop_runTsi (R : List (Candle F)) :
    ∀ (H : List (Candle F)), (∀ r ∈ R, (tsiCompP name round p smooth input hp hs hn).Raw r) →
      Gen.nodeLoop (specWith (tsiP name round p smooth input) (tsiC name p smooth input)) (H ++ R) H.length R.length
        = (tsiCompP name round p smooth input hp hs hn).rowFrom H R := by
  induction R with
  | nil => intro H _; simp [Gen.nodeLoop, TComp.rowFrom_nil]
  | cons r R' ih =>
    intro H hR
    have hr := hR r (by simp)
    have hrs : (tsiCompP name round p smooth input hp hs hn).rowStep H r = (do
        let z ← (tsiCompP name round p smooth input hp hs hn).val H r
        pure (H ++ [(tsiCompP name round p smooth input hp hs hn).app z r])) := rfl
    rw [List.length_cons, Gen.nodeLoop, pyIndex_append_cons, TComp.rowFrom_cons, hrs]
    have hpres : present (specWith (tsiP (F := F) name round p smooth input) (tsiC name p smooth input)).name r
        = false :=
      present_of_noKey _ r (by
        show hasKey (tsiP (F := F) name round p smooth input).name r = false
        rw [tsiP_name]; exact hr.1)
    simp only [bind, Except.bind, hpres, Bool.false_eq_true, if_false]
    have hstep : (specWith (tsiP name round p smooth input) (tsiC name p smooth input)).step (H ++ r :: R') H.length
        = (do
          let z ← (tsiCompP name round p smooth input hp hs hn).val H r
          pure (H ++ (tsiCompP name round p smooth input hp hs hn).app z r :: R')) :=
      stepWith_tsi name round p smooth input hp hs hn H r R'
    rw [hstep]
    cases hv : (tsiCompP name round p smooth input hp hs hn).val H r with
    | error e => rfl
    | ok z =>
      simp only [bind, Except.bind, pure, Except.pure]
      have := ih (H ++ [(tsiCompP name round p smooth input hp hs hn).app z r]) (fun x hx => hR x (by simp [hx]))
      simpa using this

/-- **the laws of the TSI node's own step** -/
theorem tsiCompP_law (hin : NoDot input ∧ input ∈ Candle.attrNames) :
    TComp.Law (tsiCompP (F := F) name round p smooth input hp hs hn) := by
  unfold tsiCompP
  refine guardOwn_law _ name round _ _ _ _ (tsiX_law name p smooth input hp hs hn hin)
    (tsiG_sim name input hin) (tsiFin_sim name hn) ?_ ?_ ?_ ?_
  · rw [tsiX_wkeys]; simp [hn.nD, hn.nF, hn.nS, hn.nA, hn.nB]
  · rw [tsiX_rkeys]; simp [hn.nD, hn.nF, hn.nS, hn.nA, hn.nB]
  · simp [hn.nS, hn.nB]
  · intro H R out hsH hR
    have key : Gen.nodeCalc (specWith (tsiP name round p smooth input) (tsiC name p smooth input)) (H ++ R)
        = (tsiCompP name round p smooth input hp hs hn).rowFrom H R := by
      unfold Gen.nodeCalc
      have hnm : (specWith (tsiP (F := F) name round p smooth input) (tsiC name p smooth input)).name = name :=
        tsiP_name (F := F) name round p smooth input
      rw [hnm, findCalcIndex_split name H R hsH (fun r hr => (hR r hr).1)]
      have : (H ++ R).length - H.length = R.length := by simp
      rw [this]
      exact nodeLoop_runTsi name round p smooth input hp hs hn R H hR
    rw [key]
    exact Iff.rfl

end own

/-! ### the tree -/

section tree
variable (name : String) (round : Nat) (p smooth : Int) (input : String)
  (hp : 1 ≤ p) (hs : 1 ≤ smooth) (hn : TsiNames name) (hin : NoDot input ∧ input ∈ Candle.attrNames)

theorem allNames_tsi : (tsiP (F := F) name round p smooth input).allNames
    = [name, name ++ "_data", name ++ "_first", name ++ "_second", name ++ "_abs_first",
       name ++ "_abs_second"] := by
  simp [tsiP, mkTop, children, Ind.allNames_eq, Ind.allNamesL, Ind.allNamesM, leaf, Ind.name, Ind.subs,
    Ind.managed]

/-- **True Strength Index as a tree with a row-major spec.** -/
def tsiTree : TreeSpec (mkTop (.tsi p smooth input : Kind F) name round) :=
  TreeSpec.ofComp (ind := tsiP (F := F) name round p smooth input)
    (tsiCompP name round p smooth input hp hs hn)
    (tsiCompP_law name round p smooth input hp hs hn hin)
    (fun c hc => (tsiCompP_law name round p smooth input hp hs hn hin).raw_of c
      (fun k _ => hasKey_plain k c hc))
    (by
      intro k hk
      rw [allNames_tsi]
      have hw : (tsiCompP (F := F) name round p smooth input hp hs hn).wkeys
          = [name ++ "_data", name ++ "_first", name ++ "_second", name ++ "_abs_first",
             name ++ "_abs_second"] ++ [name] := rfl
      rw [hw] at hk
      simp at hk ⊢
      rcases hk with h | h | h | h | h | h <;> simp [h])
    (fun cs => engineCalc_tsi name round p smooth input cs)

end tree

/-- the hypotheses are met by the default name of `TSI(period=3, smooth_period=1)` -/
example : TsiNames "TSI_3_1" :=
  ⟨by decide, by decide, by decide, by decide, by decide, by decide, by decide, by decide, by decide,
    by decide, by decide, by decide, by decide, by decide, by decide, by decide, by decide, by decide,
    by decide, by decide, by decide⟩

example : Nonempty (TreeSpec (mkTop (.tsi 3 1 "close" : Kind F) "TSI_3_1" 4)) :=
  ⟨tsiTree "TSI_3_1" 4 3 1 "close" (by decide) (by decide)
    ⟨by decide, by decide, by decide, by decide, by decide, by decide, by decide, by decide, by decide,
      by decide, by decide, by decide, by decide, by decide, by decide, by decide, by decide, by decide,
      by decide, by decide, by decide⟩ (by decide)⟩

end Hex

#print axioms Hex.tsiTree
#print axioms Hex.engineCalc_tsi
#print axioms Hex.setManagedReading_tsi

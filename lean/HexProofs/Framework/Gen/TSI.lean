import HexProofs.Framework.Gen.ManagedSubs
/-
Family (3c): True Strength Index – no prior helpers; ONE `Managed` holder `TSI_data` (series
`<name>_data`, a dict `{"price": diff, "abs_price": |diff|}`) whose two NON-PRIOR sub-indicators are
EMAs over the dotted fields of the holder's series, each with its own NON-PRIOR EMA sub-indicator
(a two-level chain):

    <name>_first      = EMA p      over <name>_data.price       └ <name>_second     = EMA smooth over <name>_first
    <name>_abs_first  = EMA p      over <name>_data.abs_price   └ <name>_abs_second = EMA smooth over <name>_abs_first

The node's `_calculate_reading(i)` stores the dict through `Managed.set_reading` – which drives
`calculate_index(i, i+1)` of the two first-level EMAs, each of which drives `calculate_index(i, i+1)`
of its second-level EMA – and reads `<name>_abs_second` / `<name>_second` back: six keys written per
candle from inside the node's own step.
-/
namespace Hex
set_option linter.unusedSectionVars false
variable {F : Type} [PyF F]

section tsi
variable (name : String) (round : Nat) (p smooth : Int) (input : String)

/-- the TSI tree and its helpers -/
def tsiP : Ind F := mkTop (.tsi p smooth input) name round
/-- second-level EMAs (leaves, non-prior) -/
def tsiS : Ind F := leaf (.ema smooth (name ++ "_first") (fl 2)) (name ++ "_second") false
def tsiAS : Ind F := leaf (.ema smooth (name ++ "_abs_first") (fl 2)) (name ++ "_abs_second") false
/-- first-level EMAs (non-prior, one non-prior leaf sub each) -/
def tsiF : Ind F :=
  .mk (.ema p (name ++ "_data.price") (fl 2)) (name ++ "_first") defaultRound true false [tsiS name smooth] []
def tsiAF : Ind F :=
  .mk (.ema p (name ++ "_data.abs_price") (fl 2)) (name ++ "_abs_first") defaultRound true false
    [tsiAS name smooth] []
/-- the `Managed` holder `TSI_data` -/
def tsiM : Ind F :=
  .mk .managed (name ++ "_data") defaultRound true true [tsiF name p smooth, tsiAF name p smooth] []

theorem tsiP_name : (tsiP (F := F) name round p smooth input).name = name := mkTop_name _ _ _
theorem tsiP_kind : (tsiP (F := F) name round p smooth input).kind = .tsi p smooth input := mkTop_kind _ _ _
theorem tsiP_isSub : (tsiP (F := F) name round p smooth input).isSub = false := rfl
theorem tsiP_round : (tsiP (F := F) name round p smooth input).round = round := rfl
theorem tsiP_subs : (tsiP (F := F) name round p smooth input).subs = [] := rfl
theorem tsiP_managed : (tsiP (F := F) name round p smooth input).managed
    = [("TSI_data", tsiM name p smooth)] := rfl
theorem tsiS_name : (tsiS (F := F) name smooth).name = name ++ "_second" := rfl
theorem tsiAS_name : (tsiAS (F := F) name smooth).name = name ++ "_abs_second" := rfl
theorem tsiF_name : (tsiF (F := F) name p smooth).name = name ++ "_first" := rfl
theorem tsiAF_name : (tsiAF (F := F) name p smooth).name = name ++ "_abs_first" := rfl
theorem tsiF_subs : (tsiF (F := F) name p smooth).subs = [tsiS name smooth] := rfl
theorem tsiAF_subs : (tsiAF (F := F) name p smooth).subs = [tsiAS name smooth] := rfl
theorem tsiM_subs : (tsiM (F := F) name p smooth).subs = [tsiF name p smooth, tsiAF name p smooth] := rfl
theorem tsiS_leaf : IsLeaf (tsiS (F := F) name smooth) := ⟨rfl, rfl, rfl⟩
theorem tsiAS_leaf : IsLeaf (tsiAS (F := F) name smooth) := ⟨rfl, rfl, rfl⟩

end tsi

/-! ### the engine one level below a `Managed` holder: a non-prior node with one non-prior leaf sub -/

/-- `calculate_index(i, i + 1)` (`i ≠ 0`) of a read-only node `A` whose only sub-indicator is a
non-prior leaf `B`: one unconditional step of `A` at `i`, then one unconditional step of `B` at `i` -/
theorem calculateIndex_chain (A B : Ind F) (hsubs : A.subs = [B]) (hro : A.kind.readOnly = true)
    (hB : IsLeaf B) (hBp : B.priorCalc = false) (fuel : Nat) (hf : 5 ≤ fuel) (cs : List (Candle F))
    (i : Int) (hi : i ≠ 0) (hi1 : i + 1 ≠ 0) :
    calculateIndex fuel A cs i (i + 1) = (do
      let cs₁ ← stepLeaf A cs i
      stepLeaf B cs₁ i) := by
  obtain ⟨f, rfl⟩ : ∃ f, fuel = (f + 1) + 1 := ⟨fuel - 2, by omega⟩
  have hl : AllLeaves [B] := by
    intro s hs; simp only [List.mem_singleton] at hs; subst hs; exact hB
  have hpt : ∀ (cs : List (Candle F)) (i : Int), (do
        let (v, cs) ← calcReading (f + 1) A cs i
        setReading A.isSub A.name cs i (v.roundBy A.round)) = stepLeaf A cs i := by
    intro cs i
    rw [calcReading_leaf f A hro]
    unfold stepLeaf
    cases readKind A.kind { cs := cs, i := i, name := A.name } <;> rfl
  rw [calculateIndex, hsubs, calcSubs_leaves true i hi hi1 [B] hl (f + 1) cs (by simp; omega), pyRange_single]
  have h1 : stepSubs [B] true i cs = .ok cs := by
    rw [stepSubs]; simp [hBp, stepSubs, bind, Except.bind, pure, Except.pure]
  rw [h1]
  simp only [hpt]
  simp only [List.foldlM_cons, List.foldlM_nil, bind, Except.bind, pure, Except.pure]
  cases hs : stepLeaf A cs i with
  | error e => rfl
  | ok cs₁ =>
    simp only
    rw [calcSubs_leaves false i hi hi1 [B] hl (f + 1) cs₁ (by simp; omega)]
    rw [stepSubs]
    simp only [hBp, beq_self_eq_true, if_true, bind, Except.bind]
    cases stepLeaf B cs₁ i with
    | error e => rfl
    | ok cs₂ => rfl

section tsiEngine
variable (name : String) (round : Nat) (p smooth : Int) (input : String)

/-- `Managed.set_reading` of `TSI_data` at an index `i > 0`, without fuel: the store, then the four
EMA steps at `i` in the order first, second, abs_first, abs_second -/
def tsiSet (i : Int) (v : Val F) (cs : List (Candle F)) : PyM (List (Candle F)) := do
  let cs₀ ← setReading true (name ++ "_data") cs i v
  let cs₁ ← stepLeaf (tsiF name p smooth) cs₀ i
  let cs₂ ← stepLeaf (tsiS name smooth) cs₁ i
  let cs₃ ← stepLeaf (tsiAF name p smooth) cs₂ i
  stepLeaf (tsiAS name smooth) cs₃ i

/-- **`Managed.set_reading` of the TSI holder, unfolded two levels deep** (`i > 0`, fuel ≥ 8) -/
theorem setManagedReading_tsi (fuel : Nat) (hf : 8 ≤ fuel) (cs : List (Candle F)) (i : Int) (hi : 0 < i)
    (v : Val F) :
    setManagedReading fuel (tsiM (F := F) name p smooth) cs i v = tsiSet name p smooth i v cs := by
  obtain ⟨f, rfl⟩ : ∃ f, fuel = (((f + 1) + 1) + 1) + 1 := ⟨fuel - 4, by omega⟩
  have hi0 : i ≠ 0 := by omega
  have hi1 : i + 1 ≠ 0 := by omega
  have hb : (i != 0 && i + 1 != 0) = true := by simp [hi0, hi1]
  have hFp : (tsiF (F := F) name p smooth).priorCalc = false := rfl
  have hAp : (tsiAF (F := F) name p smooth).priorCalc = false := rfl
  rw [setManagedReading, tsiM_subs]
  -- the prior pass skips both subs
  have hprior : ∀ cs : List (Candle F),
      calcSubs (f + 1 + 1 + 1) [tsiF name p smooth, tsiAF name p smooth] true (some (i, i + 1)) cs = .ok cs := by
    intro cs
    rw [calcSubs]
    simp only [hFp, Bool.false_eq_true, beq_iff_eq, if_false, bind, Except.bind, pure, Except.pure]
    rw [calcSubs]
    simp only [hAp, Bool.false_eq_true, beq_iff_eq, if_false, bind, Except.bind, pure, Except.pure]
    rw [calcSubs_nil]
  -- the non-prior pass runs `calculate_index(i, i + 1)` of both
  have hpost : ∀ cs : List (Candle F),
      calcSubs (f + 1 + 1 + 1) [tsiF name p smooth, tsiAF name p smooth] false (some (i, i + 1)) cs = (do
        let cs₁ ← stepLeaf (tsiF name p smooth) cs i
        let cs₂ ← stepLeaf (tsiS name smooth) cs₁ i
        let cs₃ ← stepLeaf (tsiAF name p smooth) cs₂ i
        stepLeaf (tsiAS name smooth) cs₃ i) := by
    intro cs
    rw [calcSubs]
    simp only [hFp, beq_self_eq_true, if_true, hb]
    rw [calculateIndex_chain (tsiF name p smooth) (tsiS name smooth) rfl rfl (tsiS_leaf name smooth) rfl
      (f + 1 + 1) (by omega) cs i hi0 hi1]
    simp only [bind, Except.bind]
    cases stepLeaf (tsiF name p smooth) cs i with
    | error e => rfl
    | ok cs₁ =>
      simp only
      cases stepLeaf (tsiS name smooth) cs₁ i with
      | error e => rfl
      | ok cs₂ =>
        simp only
        rw [calcSubs]
        simp only [hAp, beq_self_eq_true, if_true, hb]
        rw [calculateIndex_chain (tsiAF name p smooth) (tsiAS name smooth) rfl rfl (tsiAS_leaf name smooth) rfl
          (f + 1) (by omega) cs₂ i hi0 hi1]
        simp only [bind, Except.bind]
        cases stepLeaf (tsiAF name p smooth) cs₂ i with
        | error e => rfl
        | ok cs₃ =>
          simp only
          cases stepLeaf (tsiAS name smooth) cs₃ i with
          | error e => rfl
          | ok cs₄ => simp only [calcSubs_nil]
  rw [hprior]
  unfold tsiSet
  simp only [bind, Except.bind]
  have hM : (tsiM (F := F) name p smooth).isSub = true := rfl
  have hMn : (tsiM (F := F) name p smooth).name = name ++ "_data" := rfl
  rw [hM, hMn]
  cases setReading true (name ++ "_data") cs i v with
  | error e => rfl
  | ok cs₀ =>
    simp only
    rw [hpost]
    rfl

/-- the helper services of the TSI node at index `i`, without fuel -/
def tsiOps (i : Int) : Ops F where
  setManaged := fun _ v cs => tsiSet name p smooth i v cs
  calcManaged := fun _ cs => .ok cs

/-- `_calculate_reading(i)` of the TSI node, without fuel -/
def tsiC : List (Candle F) → Int → PyM (Val F × List (Candle F)) :=
  fun cs i => Calc.tsi (tsiOps name p smooth i) { cs := cs, i := i, name := name } input

/-- **the engine's `_calculate_reading` of the TSI node** (fuel ≥ 9, every index): the guard
`reading_period(2, input)` forces `i ≥ 1`, so the index-0 fallback of `_calculate_sub_indicators` is
never taken -/
theorem calcReading_tsi (fuel : Nat) (hf : 9 ≤ fuel) (cs : List (Candle F)) (i : Int) :
    calcReading fuel (tsiP (F := F) name round p smooth input) cs i = tsiC name p smooth input cs i := by
  obtain ⟨g, rfl⟩ : ∃ g, fuel = g + 1 := ⟨fuel - 1, by omega⟩
  rw [calcReading]
  unfold calcKind
  rw [tsiP_kind]
  simp only
  unfold tsiC Calc.tsi
  rw [tsiP_name]
  by_cases hG : ({ cs := cs, i := i, name := name } : Ctx F).readingPeriod 2 input = true
  · have hpos : 0 < i := by
      have := readingPeriod_true_bound cs 2 input i hG
      omega
    have hg : (tsiP (F := F) name round p smooth input).getManaged "TSI_data" = .ok (tsiM name p smooth) :=
      getManaged_eq _ _ _ (by rw [tsiP_managed]; simp [dlookup])
    have hset : ∀ (v : Val F) (cs' : List (Candle F)),
        (do let m ← (tsiP (F := F) name round p smooth input).getManaged "TSI_data"
            setManagedReading g m cs' i v) = tsiSet name p smooth i v cs' := by
      intro v cs'
      rw [hg]
      simp only [bind, Except.bind]
      exact setManagedReading_tsi name p smooth g (by omega) cs' i hpos v
    simp only [hset, tsiOps]
  · simp only [hG, Bool.not_false, if_true]

end tsiEngine

/-! ### the loop of a node whose reading function needs a fixed amount of fuel -/

theorem calcLoop_withB (ind : Ind F) (C : List (Candle F) → Int → PyM (Val F × List (Candle F))) (b : Nat)
    (hC : ∀ (f : Nat) (cs : List (Candle F)) (i : Int), b ≤ f → calcReading f ind cs i = C cs i) :
    ∀ (n fuel : Nat) (cs : List (Candle F)) (k : Nat), n + b + 1 ≤ fuel →
      calcLoop fuel ind cs k n = Gen.nodeLoop (specWith ind C) cs k n := by
  intro n
  induction n with
  | zero =>
    intro fuel cs k hf
    obtain ⟨f, rfl⟩ : ∃ f, fuel = f + 1 := ⟨fuel - 1, by omega⟩
    rw [calcLoop]
    · rfl
    · intro h0; omega
  | succ n ih =>
    intro fuel cs k hf
    obtain ⟨f, rfl⟩ : ∃ f, fuel = f + 1 := ⟨fuel - 1, by omega⟩
    rw [calcLoop, Gen.nodeLoop]
    cases hc : pyIndex cs (k : Int) with
    | error e => rfl
    | ok c =>
      simp only [bind, Except.bind]
      show (do
        let cs ← if present ind.name c then pure cs else do
          let (v, cs) ← calcReading f ind cs k
          setReading ind.isSub ind.name cs k (v.roundBy ind.round)
        calcLoop f ind cs (k + 1) n) = _
      rw [hC f cs k (by omega)]
      simp only [bind, Except.bind, specWith, stepWith]
      by_cases hp : present ind.name c = true
      · simp only [hp, if_true, pure, Except.pure]
        exact ih f cs (k + 1) (by omega)
      · simp only [hp, Bool.false_eq_true, if_false]
        cases hr : C cs (k : Int) with
        | error e => rfl
        | ok r =>
          simp only
          cases hs : setReading ind.isSub ind.name r.2 (k : Int) (r.1.roundBy ind.round) with
          | error e => rfl
          | ok cs' => exact ih f cs' (k + 1) (by omega)

section tsiEngine2
variable (name : String) (round : Nat) (p smooth : Int) (input : String)

/-- **the engine on the TSI tree is the node's own loop**, whose step writes six keys -/
theorem engineCalc_tsi (cs : List (Candle F)) :
    engineCalc (tsiP (F := F) name round p smooth input) cs
      = Gen.nodeCalc (specWith (tsiP name round p smooth input) (tsiC name p smooth input)) cs := by
  unfold engineCalc fuelFor
  rw [calculate_succ, tsiP_subs]
  obtain ⟨f, hf⟩ : ∃ f, 16 + 2 * cs.length = f + 1 := ⟨15 + 2 * cs.length, by omega⟩
  rw [hf, calcSubs_nil]
  simp only [bind, Except.bind]
  rw [calcLoop_withB (tsiP name round p smooth input) (tsiC name p smooth input) 9
    (fun f cs i hf => calcReading_tsi name round p smooth input f hf cs i) _ _ _ _ (by omega)]
  unfold Gen.nodeCalc
  have hn : (specWith (tsiP (F := F) name round p smooth input) (tsiC name p smooth input)).name
      = (tsiP (F := F) name round p smooth input).name := rfl
  rw [hn]
  cases Gen.nodeLoop (specWith (tsiP name round p smooth input) (tsiC name p smooth input)) cs
      (findCalcIndex (tsiP (F := F) name round p smooth input).name cs)
      (cs.length - findCalcIndex (tsiP (F := F) name round p smooth input).name cs) with
  | error e => rfl
  | ok cs' => simp only [calcSubs_nil]

end tsiEngine2

/-! ### small facts (kept in their own namespace: sibling files prove similar ones) -/

namespace TSI

theorem frameK_refl (keys : List String) (c : Candle F) : FrameK keys c c := ⟨rfl, fun _ _ => ⟨rfl, rfl⟩⟩

theorem entries_setKey (isSub : Bool) (k : String) (v : Val F) (c : Candle F) :
    (∀ q ∈ (setKey isSub k v c).inds, q ∈ c.inds ∨ q.1 = k) ∧
    (∀ q ∈ (setKey isSub k v c).subs, q ∈ c.subs ∨ q.1 = k) := by
  cases isSub
  · exact ⟨fun q hq => mem_dset _ _ _ q hq, fun q hq => Or.inl hq⟩
  · exact ⟨fun q hq => Or.inl hq, fun q hq => mem_dset _ _ _ q hq⟩

/-- a name without a dot contains no `'.'` -/
theorem noDot_not_mem (s : String) (h : NoDot s) : '.' ∉ s.toList := by
  intro hm
  obtain ⟨as, bs, hl⟩ := List.append_of_mem hm
  unfold NoDot splitDot at h
  rw [hl, List.splitOn_append_cons_self] at h
  have l1 : 0 < (List.splitOn '.' as).length := List.length_pos_iff.2 (List.splitOn_ne_nil '.' as)
  have l2 : 0 < (List.splitOn '.' bs).length := List.length_pos_iff.2 (List.splitOn_ne_nil '.' bs)
  have := congrArg List.length h
  simp only [List.length_map, List.length_append, List.length_cons, List.length_nil] at this
  omega

/-- `main.fld` addresses the field `fld` of the entry under `main` -/
theorem splitDot_field (main fld : String) (h : NoDot main) (hf : '.' ∉ fld.toList) :
    splitDot (main ++ "." ++ fld) = [main, fld] := by
  have hm := noDot_not_mem main h
  unfold splitDot
  have e : (main ++ "." ++ fld).toList = main.toList ++ '.' :: fld.toList := by
    rw [String.toList_append, String.toList_append]
    simp
  rw [e, List.splitOn_append_cons_self_of_not_mem hm, List.splitOn_eq_singleton hf]
  simp

/-- a dotted read does not see entries stored under other keys -/
theorem indep_dotted (name nm main fld : String) (hs : splitDot nm = [main, fld]) (hne : name ≠ main) :
    Indep F name nm := by
  intro isSub v c
  unfold readingByCandle
  rw [hs]
  cases isSub <;> simp [setKey, dlookup_dset_ne _ _ _ _ hne]

end TSI

/-! ### EMA as a tolerant leaf piece over any input seen through the read keys -/

/-- **EMA satisfies the tolerant leaf contract** (`period ≥ 1`) for an input that is a candle attribute
(`rk = []`), an ordinary key of another piece (`rk = [input]`, `sees_key`, `indep_key`) or a dotted
field of another piece's dict (`rk = [main]`, `sees_dotted`, `TSI.indep_dotted`) -/
def emaTG (Z : Ind F) (p : Int) (inp : String) (sm : Num F) (hk : Z.kind = .ema p inp sm) (hp : 1 ≤ p)
    (hname : IsKey Z.name) (rk : List String) (hsee : Sees F (Z.name :: rk) inp)
    (hind : Indep F Z.name inp) : TContract Z where
  rkeys := rk
  Inv := fun _ => True
  inv_nil := trivial
  inv_sim := fun _ _ _ _ => trivial
  inv_step := fun _ _ _ _ _ _ => trivial
  loc := by
    intro H c rest _
    unfold valOf
    rw [hk, ← trunc_append_cons H c rest]
    exact (ema_trunc _ p inp sm (by simp) (by simp) hp).symm
  val_sim := by
    intro H H' c c' hH hc
    unfold valOf
    rw [hk]
    have hown := sameCol_simL _ Z.name (sees_key _ _ hname (by simp)) hH hc Z.name
    exact ema_congr _ _ p inp sm (sameCol_simL _ inp hsee hH hc _)
      (Ctx.prevExists_congr hown) (Ctx.prevNum_congr hown)
  stable := by
    intro H c v
    unfold valOf decOf
    rw [hk]
    refine ema_congr _ _ p inp sm (sameCol_last inp H c _ Z.name (hind _ _ _)) ?_ ?_
    · rw [Ctx.prevExists_append_cons, Ctx.prevExists_append_cons]
    · rw [Ctx.prevNum_append_cons, Ctx.prevNum_append_cons]

/-- one unconditional step of a keyed piece under its tolerant contract -/
theorem stepLeaf_T (Z : Ind F) (T : TContract Z) (H : List (Candle F)) (c : Candle F) (rest : List (Candle F))
    (hinv : T.Inv H) :
    stepLeaf Z (H ++ c :: rest) H.length = (do
      let v ← valOf Z H c
      pure (H ++ decOf Z v c :: rest)) := by
  rw [stepLeaf_append_cons, T.loc H c rest hinv]
  rfl

/-! ### a guarded lawful prefix followed by the node's own store -/

section guard
variable (X : TComp F) (name : String) (round : Nat) (G : List (Candle F) → Candle F → Bool)
  (fin : Candle F → PyM (Val F)) (frk : List String) (P : List (Candle F) → PyM (List (Candle F)))

/-- what the prefix stores, if it runs -/
def gInner (o : Option X.ω) (c : Candle F) : Candle F :=
  match o with
  | some x => X.app x c
  | none => c

/-- **a node's own step that drives helper pieces from inside**: when the guard `G` (which looks at
the bare candles only) holds, the pieces of `X` run on the current candle and the node's reading
`fin` is computed from what they stored; otherwise nothing is stored but a `None` reading. -/
def guardOwn : TComp F where
  name := name
  ω := Option X.ω × Val F
  val := fun H c => if G H c then do
      let x ← X.val H c
      let w ← fin (X.app x c)
      pure (some x, w)
    else pure (none, .none)
  app := fun z c => setKey false name (z.2.roundBy round) (gInner X z.1 c)
  rkeys := X.rkeys ++ frk
  wkeys := X.wkeys ++ [name]
  Raw := fun c => hasKey name c = false ∧ X.Raw c
  Settled := fun H => ∀ d ∈ H, hasKey name d = true
  pass := P

theorem frameK_gInner (LX : TComp.Law X) (o : Option X.ω) (c : Candle F) : FrameK X.wkeys c (gInner X o c) := by
  cases o with
  | none => exact TSI.frameK_refl _ c
  | some x => exact LX.app_frame x c

theorem simK_gInner (LX : TComp.Law X) (keys : List String) (o : Option X.ω) (c c' : Candle F)
    (h : SimK keys c c') : SimK keys (gInner X o c) (gInner X o c') := by
  cases o with
  | none => exact h
  | some x => exact LX.app_sim keys x c c' h

/-- the laws of `guardOwn`, given the laws of the prefix, that the guard only sees the bare candles,
that the node's key is foreign to the prefix, and that the engine's pass is the row-major fold -/
theorem guardOwn_law (LX : TComp.Law X)
    (hG : ∀ H H' c c', SimL ([] : List String) H H' → SimK ([] : List String) c c' → G H c = G H' c')
    (hfin : ∀ a b : Candle F, SimK frk a b → fin a = fin b)
    (nw : name ∉ X.wkeys) (nr : name ∉ X.rkeys) (nf : name ∉ frk)
    (hpass : ∀ H R out, (∀ d ∈ H, hasKey name d = true) → (∀ r ∈ R, hasKey name r = false ∧ X.Raw r) →
      (P (H ++ R) = .ok out ↔ (guardOwn X name round G fin frk P).rowFrom H R = .ok out)) :
    TComp.Law (guardOwn X name round G fin frk P) where
  name_w := by simp [guardOwn]
  app_frame := fun z c => TComp.frameK_trans (frameK_gInner X LX z.1 c) (frameK_setKey false name _ _)
  app_key := fun z c => hasKey_setKey _ _ _ _
  app_entries := by
    intro z c
    have hin : (∀ q ∈ (gInner X z.1 c).inds, q ∈ c.inds ∨ q.1 ∈ X.wkeys) ∧
        (∀ q ∈ (gInner X z.1 c).subs, q ∈ c.subs ∨ q.1 ∈ X.wkeys) := by
      obtain ⟨o, w⟩ := z
      cases o with
      | none => exact ⟨fun q hq => Or.inl hq, fun q hq => Or.inl hq⟩
      | some x => exact LX.app_entries x c
    constructor
    · intro q hq
      rcases (TSI.entries_setKey false name _ _).1 q hq with h | h
      · rcases hin.1 q h with h' | h'
        · exact Or.inl h'
        · exact Or.inr (List.mem_append_left _ h')
      · exact Or.inr (List.mem_append_right _ (by simp [h]))
    · intro q hq
      rcases (TSI.entries_setKey false name _ _).2 q hq with h | h
      · rcases hin.2 q h with h' | h'
        · exact Or.inl h'
        · exact Or.inr (List.mem_append_left _ h')
      · exact Or.inr (List.mem_append_right _ (by simp [h]))
  app_sim := fun keys z c c' h => simK_setKey keys _ _ _ _ _ (simK_gInner X LX keys z.1 c c' h)
  raw_nokey := fun c h => h.1
  raw_of := fun c h => ⟨h name (List.mem_append_right _ (by simp)),
    LX.raw_of c (fun k hk => h k (List.mem_append_left _ hk))⟩
  val_sim := by
    intro H H' c c' hs hc
    have hs0 : SimL ([] : List String) H H' := hs.mono (fun k hk => by cases hk)
    have hc0 : SimK ([] : List String) c c' := hc.mono (fun k hk => by cases hk)
    have hsX : SimL X.rkeys H H' := hs.mono (fun k hk => List.mem_append_left _ hk)
    have hcX : SimK X.rkeys c c' := hc.mono (fun k hk => List.mem_append_left _ hk)
    have hcf : SimK frk c c' := hc.mono (fun k hk => List.mem_append_right _ hk)
    show (if G H c then (do let x ← X.val H c; let w ← fin (X.app x c); pure (some x, w))
        else pure (none, .none))
      = (if G H' c' then (do let x ← X.val H' c'; let w ← fin (X.app x c'); pure (some x, w))
        else pure (none, .none))
    rw [hG H H' c c' hs0 hc0, LX.val_sim H H' c c' hsX hcX]
    have : ∀ x, fin (X.app x c) = fin (X.app x c') := fun x => hfin _ _ (LX.app_sim frk x c c' hcf)
    simp only [this]
  stable := by
    intro H c z hraw hv
    obtain ⟨o, w⟩ := z
    have hown : ∀ (keys : List String) (y : Candle F) (u : Val F), name ∉ keys →
        SimK keys (setKey false name u y) y :=
      fun keys y u hk => (frameK_setKey false name u y).sim (fun k hk' => by
        intro h; simp only [List.mem_singleton] at h; subst h; exact hk hk')
    have hbare : SimK ([] : List String)
        (setKey false name (w.roundBy round) (gInner X o c)) c :=
      ⟨by rw [bare_setKey]; exact (frameK_gInner X LX o c).1, fun k hk => by cases hk⟩
    change (if G H c then (do let x ← X.val H c; let w ← fin (X.app x c); pure (some x, w))
        else pure (none, .none)) = .ok (o, w) at hv
    show (if G H (setKey false name (w.roundBy round) (gInner X o c)) then (do
          let x ← X.val H (setKey false name (w.roundBy round) (gInner X o c))
          let w' ← fin (X.app x (setKey false name (w.roundBy round) (gInner X o c)))
          pure (some x, w'))
        else pure (none, .none)) = .ok (o, w)
    rw [hG H H _ c (SimL.refl _ H) hbare]
    by_cases hg : G H c = true
    · simp only [hg, if_true] at hv ⊢
      cases hx : X.val H c with
      | error e => rw [hx] at hv; cases hv
      | ok x =>
        rw [hx] at hv
        simp only [bind, Except.bind] at hv
        cases hw : fin (X.app x c) with
        | error e => rw [hw] at hv; cases hv
        | ok w0 =>
          rw [hw] at hv
          simp only [pure, Except.pure] at hv
          have hz : (some x, w0) = (o, w) := Except.ok.inj hv
          cases hz
          show (do
            let x' ← X.val H (setKey false name (w.roundBy round) (X.app x c))
            let w' ← fin (X.app x' (setKey false name (w.roundBy round) (X.app x c)))
            pure (some x', w')) = .ok (some x, w)
          have h1 : X.val H (setKey false name (w.roundBy round) (X.app x c)) = .ok x := by
            rw [LX.val_sim H H _ (X.app x c) (SimL.refl _ H) (hown X.rkeys _ _ nr)]
            exact LX.stable H c x hraw.2 hx
          have h2 : X.app x (setKey false name (w.roundBy round) (X.app x c))
              = setKey false name (w.roundBy round) (X.app x c) :=
            LX.absorb x c _ hraw.2 (hown X.wkeys _ _ nw)
          rw [h1]
          simp only [bind, Except.bind]
          rw [h2, hfin _ (X.app x c) (hown frk _ _ nf), hw]
          rfl
    · simp only [hg, Bool.false_eq_true, if_false] at hv ⊢
      exact hv
  absorb := by
    intro z c d hraw hd
    obtain ⟨o, w⟩ := z
    show setKey false name (w.roundBy round) (gInner X o d) = d
    have hd' : SimK (X.wkeys ++ [name]) d (setKey false name (w.roundBy round) (gInner X o c)) := hd
    have hN : dlookup name d.inds = some (w.roundBy round) := by
      rw [(hd'.2 name (List.mem_append_right _ (by simp))).1]
      show dlookup name (dset name _ _) = _
      exact dlookup_dset_self _ _ _
    have hin : gInner X o d = d := by
      cases o with
      | none => rfl
      | some x =>
        refine LX.absorb x c d hraw.2 ?_
        refine (hd'.mono (fun k hk => List.mem_append_left _ hk)).trans ?_
        exact (frameK_setKey false name _ _).sim (fun k hk' => by
          intro h; simp only [List.mem_singleton] at h; subst h; exact nw hk')
    rw [hin]
    simp [setKey, dset_absorb _ _ d.inds hN]
  settled_nil := by intro d hd; cases hd
  settled_step := by
    intro H r z hs _ _ d hd
    rcases List.mem_append.1 hd with h | h
    · exact hs d h
    · simp at h; subst h; exact hasKey_setKey _ _ _ _
  settled_sim := by
    intro H H' hs hsim d' hd'
    obtain ⟨d, hd, hdd⟩ := TComp.forall₂_mem_right' hsim d' hd'
    rw [← hasKey_simK (keys := (X.rkeys ++ frk) ++ (X.wkeys ++ [name])) (by simp) hdd]
    exact hs d hd
  pass_iff := hpass

end guard

/-! ### names -/

/-- name conditions of a TSI node: the node's name and the five helper names are ordinary keys (no dot,
not a candle attribute), pairwise distinct -/
structure TsiNames (name : String) : Prop where
  kN : IsKey name
  kD : IsKey (name ++ "_data")
  kF : IsKey (name ++ "_first")
  kS : IsKey (name ++ "_second")
  kA : IsKey (name ++ "_abs_first")
  kB : IsKey (name ++ "_abs_second")
  nD : name ≠ name ++ "_data"
  nF : name ≠ name ++ "_first"
  nS : name ≠ name ++ "_second"
  nA : name ≠ name ++ "_abs_first"
  nB : name ≠ name ++ "_abs_second"
  DF : name ++ "_data" ≠ name ++ "_first"
  DS : name ++ "_data" ≠ name ++ "_second"
  DA : name ++ "_data" ≠ name ++ "_abs_first"
  DB : name ++ "_data" ≠ name ++ "_abs_second"
  FS : name ++ "_first" ≠ name ++ "_second"
  FA : name ++ "_first" ≠ name ++ "_abs_first"
  FB : name ++ "_first" ≠ name ++ "_abs_second"
  SA : name ++ "_second" ≠ name ++ "_abs_first"
  SB : name ++ "_second" ≠ name ++ "_abs_second"
  AB : name ++ "_abs_first" ≠ name ++ "_abs_second"

/-- the dotted inputs of the two first-level EMAs address the fields of the holder's dict -/
theorem TsiNames.price {name : String} (hn : TsiNames name) :
    splitDot (name ++ "_data.price") = [name ++ "_data", "price"] := by
  have e : name ++ "_data.price" = name ++ "_data" ++ "." ++ "price" := by
    rw [String.append_assoc, String.append_assoc]; rfl
  rw [e]
  exact TSI.splitDot_field _ _ hn.kD.noDot (by decide)

theorem TsiNames.absPrice {name : String} (hn : TsiNames name) :
    splitDot (name ++ "_data.abs_price") = [name ++ "_data", "abs_price"] := by
  have e : name ++ "_data.abs_price" = name ++ "_data" ++ "." ++ "abs_price" := by
    rw [String.append_assoc, String.append_assoc]; rfl
  rw [e]
  exact TSI.splitDot_field _ _ hn.kD.noDot (by decide)

/-! ### the holder's series as a piece -/

section dpiece
variable (name input : String)

/-- the dict the node stores under `<name>_data`: the change of the input and its absolute value -/
def tsiDVal (H : List (Candle F)) (c : Candle F) : PyM (Val F) := do
  let a ← ({ cs := H ++ [c], i := H.length, name := name } : Ctx F).num input
  let b ← ({ cs := H ++ [c], i := H.length, name := name } : Ctx F).prevNum input
  pure (sdict [("price", sc (a.sub b)), ("abs_price", sc (a.sub b).abs)])

/-- the piece without an engine pass of its own … -/
def tsiD0 : TComp F where
  name := name ++ "_data"
  ω := Val F
  val := tsiDVal name input
  app := fun v c => setKey true (name ++ "_data") v c
  rkeys := []
  wkeys := [name ++ "_data"]
  Raw := fun c => hasKey (name ++ "_data") c = false
  Settled := fun H => ∀ d ∈ H, hasKey (name ++ "_data") d = true
  pass := fun cs => .ok cs

/-- … and with the row-major fold from its `_find_calc_index` as (fictitious) pass: the holder is only
ever written by the node, never calculated by itself -/
def tsiD : TComp F :=
  { tsiD0 name input with
    pass := fun cs => (tsiD0 name input).rowFrom (cs.take (findCalcIndex (name ++ "_data") cs))
      (cs.drop (findCalcIndex (name ++ "_data") cs)) }

theorem tsiD_law (hin : NoDot input ∧ input ∈ Candle.attrNames) : TComp.Law (tsiD (F := F) name input) where
  name_w := by simp [tsiD, tsiD0]
  app_frame := fun z c => frameK_setKey true _ z c
  app_key := fun z c => hasKey_setKey _ _ _ _
  app_entries := by
    intro z c
    constructor
    · intro q hq
      rcases (TSI.entries_setKey true (name ++ "_data") z c).1 q hq with h | h
      · exact Or.inl h
      · exact Or.inr (by simp [tsiD, tsiD0, h])
    · intro q hq
      rcases (TSI.entries_setKey true (name ++ "_data") z c).2 q hq with h | h
      · exact Or.inl h
      · exact Or.inr (by simp [tsiD, tsiD0, h])
  app_sim := fun keys z c c' h => simK_setKey keys _ _ _ c c' h
  raw_nokey := fun c h => h
  raw_of := fun c h => h (name ++ "_data") (by simp [tsiD, tsiD0])
  val_sim := by
    intro H H' c c' hs hc
    have hcol := sameCol_simL (F := F) [] input (sees_attr _ _ hin.1 hin.2) hs hc name
    show tsiDVal name input H c = tsiDVal name input H' c'
    unfold tsiDVal
    rw [Ctx.num_congr hcol, Ctx.prevNum_congr hcol]
  stable := by
    intro H c z _ hv
    have hcol := sameCol_last input H c (setKey true (name ++ "_data") z c) name
      (indep_attr (F := F) (name ++ "_data") input hin.1 hin.2 _ _ _)
    show tsiDVal name input H (setKey true (name ++ "_data") z c) = .ok z
    unfold tsiDVal
    rw [Ctx.num_congr hcol, Ctx.prevNum_congr hcol]
    exact hv
  absorb := fun z c d hraw hd => setKey_absorb true _ z c d hraw hd
  settled_nil := by intro d hd; cases hd
  settled_step := by
    intro H r z hs _ _ d hd
    rcases List.mem_append.1 hd with h | h
    · exact hs d h
    · simp at h; subst h; exact hasKey_setKey _ _ _ _
  settled_sim := by
    intro H H' hs hsim d' hd'
    obtain ⟨d, hd, hdd⟩ := TComp.forall₂_mem_right' hsim d' hd'
    rw [← hasKey_simK (keys := ([] : List String) ++ [name ++ "_data"]) (by simp) hdd]
    exact hs d hd
  pass_iff := by
    intro H R out hs hR
    show (tsiD0 name input).rowFrom ((H ++ R).take (findCalcIndex (name ++ "_data") (H ++ R)))
      ((H ++ R).drop (findCalcIndex (name ++ "_data") (H ++ R))) = .ok out ↔ _
    rw [findCalcIndex_split (name ++ "_data") H R hs hR, List.take_left', List.drop_left']
    · exact Iff.rfl
    · rfl
    · rfl

end dpiece

end Hex

import HexProofs.Framework.Gen.Data
/-
Family (1) instances: VWAP, STDEV, RSI.
-/
namespace Hex
set_option linter.unusedSectionVars false
variable {F : Type} [PyF F]

/-! ### VWAP -/

/-- the pure reading part of VWAP: the data entry to store and the finishing division -/
def vwapR (x : Ctx F) : PyM (Option (Val F) × PyM (Val F)) := do
  let typical ← (((← x.num "high").add (← x.num "low")).add (← x.num "close")).truediv (.int 3)
  let dPv := x.name ++ "_data.pv"
  let dVol := x.name ++ "_data.vol"
  let hasPrev ← x.prevExists dPv
  let prevPv : Num F ← if hasPrev then x.prevNum dPv else pure (.int 0)
  let prevVol : Num F ← if hasPrev then x.prevNum dVol else pure (.int 0)
  let vol ← x.num "volume"
  let pv := prevPv.add (vol.mul typical)
  let tv := prevVol.add vol
  return (some (sdict [("pv", sc pv), ("vol", sc tv)]),
    if tv.eq (.int 0) then .ok (.num pv) else do return .num (← pv.truediv tv))

theorem vwap_fact (D : String) (cs : List (Candle F)) (i : Int) (name : String) :
    Calc.vwap (dOps D i) { cs := cs, i := i, name := name } = rwCalc D vwapR name cs i := by
  unfold Calc.vwap rwCalc vwapR dOps
  simp only [bind, Except.bind, pure, Except.pure]
  generalize ({ cs := cs, i := i, name := name } : Ctx F).num "high" = r1
  generalize ({ cs := cs, i := i, name := name } : Ctx F).num "low" = r2
  generalize ({ cs := cs, i := i, name := name } : Ctx F).num "close" = r3
  generalize ({ cs := cs, i := i, name := name } : Ctx F).num "volume" = r4
  generalize ({ cs := cs, i := i, name := name } : Ctx F).prevExists (name ++ "_data.pv") = r5
  generalize ({ cs := cs, i := i, name := name } : Ctx F).prevNum (name ++ "_data.pv") = r6
  generalize ({ cs := cs, i := i, name := name } : Ctx F).prevNum (name ++ "_data.vol") = r7
  rcases r1 with e | v1
  · rfl
  rcases r2 with e | v2
  · rfl
  rcases r3 with e | v3
  · rfl
  simp only
  rcases ((v1.add v2).add v3).truediv (Num.int 3) with e | ty
  · rfl
  rcases r5 with e | b
  · rfl
  cases b
  · simp only [Bool.false_eq_true, if_false]
    rcases r4 with e | vol
    · rfl
    simp only
    rcases setReading true D cs i _ with e | cs1
    · rfl
    simp only
    split
    · rfl
    · rcases Num.truediv _ _ with e | q <;> rfl
  · simp only [if_true]
    rcases r6 with e | ppv
    · rfl
    rcases r7 with e | pvol
    · rfl
    rcases r4 with e | vol
    · rfl
    simp only
    rcases setReading true D cs i _ with e | cs1
    · rfl
    simp only
    split
    · rfl
    · rcases Num.truediv _ _ with e | q <;> rfl

theorem readingByCandle_outD (name D nm : String) (h1 : Indep F name nm) (h2 : Indep F D nm)
    (w : Val F) (d : Option (Val F)) (c : Candle F) :
    readingByCandle (outD name D w d c) nm = readingByCandle c nm := by
  unfold outD setD
  rw [h1]
  cases d with
  | none => rfl
  | some dv => exact h2 _ _ _

theorem sameCol_outD (name D nm : String) (h1 : Indep F name nm) (h2 : Indep F D nm)
    (done : List (Candle F)) (c : Candle F) (w : Val F) (d : Option (Val F)) (cn : String) :
    Ctx.SameCol nm ({ cs := done ++ [outD name D w d c], i := done.length, name := cn } : Ctx F)
      { cs := done ++ [c], i := done.length, name := cn } :=
  sameCol_last nm done c _ cn (readingByCandle_outD name D nm h1 h2 w d c)

theorem vwapR_trunc (x : Ctx F) (h0 : 0 ≤ x.i) (hi : x.i < x.cs.length) : vwapR x.trunc = vwapR x := by
  unfold vwapR
  simp only [Ctx.trunc_name, Ctx.prevExists_trunc x _ h0 hi, Ctx.num_trunc_cur x _ h0,
    Ctx.prevNum_trunc x _ h0 hi]

theorem vwapR_congr (x y : Ctx F) (hn : x.name = y.name) (hh : Ctx.SameCol "high" x y)
    (hl : Ctx.SameCol "low" x y) (hc : Ctx.SameCol "close" x y) (hv : Ctx.SameCol "volume" x y)
    (hpe : ∀ nm, x.prevExists nm = y.prevExists nm) (hpn : ∀ nm, x.prevNum nm = y.prevNum nm) :
    vwapR x = vwapR y := by
  unfold vwapR
  simp only [hn, hpe, hpn, Ctx.num_congr hh, Ctx.num_congr hl, Ctx.num_congr hc, Ctx.num_congr hv]

/-- the tree of a data kind built by `mkTop` -/
theorem isDataNode_mkTop (k : Kind F) (name : String) (round : Nat) (K : String)
    (hc : children k name = ([], [(K, leaf .managed (name ++ "_data"))])) :
    IsDataNode (mkTop k name round) K (name ++ "_data") := by
  unfold mkTop
  rw [hc]
  exact ⟨rfl, rfl, rfl⟩

theorem allNames_dataNode (ind : Ind F) (K D : String) (h : IsDataNode ind K D) :
    ind.allNames = [ind.name, D] := by
  rw [Ind.allNames_eq, h.subs, h.managed]
  simp [Ind.allNames_eq, leaf, Ind.name, Ind.subs, Ind.managed]

/-- **VWAP satisfies the data-node contract** (no side conditions). -/
def vwapContract (ind : Ind F) (p : Int) (D : String) (hk : ind.kind = .vwap p) :
    DataContract ind D where
  C := fun cs i => Calc.vwap (dOps D i) { cs := cs, i := i, name := ind.name }
  R := vwapR
  Inv := fun _ => True
  inv_nil := trivial
  Good := fun _ => True
  good_plain := fun _ _ => trivial
  fact := fun done c rest _ => vwap_fact D _ _ _
  local_ := by
    intro done c rest _ _
    rw [← trunc_append_cons done c rest]
    exact (vwapR_trunc _ (by simp) (by simp)).symm
  stable := by
    intro done c d fin v _ _ h _
    rw [← h]
    refine vwapR_congr _ _ rfl
      (sameCol_outD _ _ "high" (indep_attr _ _ noDot_high (by decide)) (indep_attr _ _ noDot_high (by decide)) ..)
      (sameCol_outD _ _ "low" (indep_attr _ _ noDot_low (by decide)) (indep_attr _ _ noDot_low (by decide)) ..)
      (sameCol_outD _ _ "close" (indep_attr _ _ noDot_close (by decide)) (indep_attr _ _ noDot_close (by decide)) ..)
      (sameCol_outD _ _ "volume" (indep_attr _ _ noDot_volume (by decide)) (indep_attr _ _ noDot_volume (by decide)) ..)
      ?_ ?_
    · intro nm; rw [Ctx.prevExists_append_cons, Ctx.prevExists_append_cons]
    · intro nm; rw [Ctx.prevNum_append_cons, Ctx.prevNum_append_cons]
  inv_step := fun _ _ _ _ _ _ _ _ _ => ⟨trivial, trivial⟩

theorem calcReading_vwap (ind : Ind F) (p : Int) (D : String) (hk : ind.kind = .vwap p)
    (hd : IsDataNode ind "VWAP_data" D) (f : Nat) (cs : List (Candle F)) (i : Int) :
    calcReading (f + 3) ind cs i = Calc.vwap (dOps D i) { cs := cs, i := i, name := ind.name } := by
  rw [calcReading]
  unfold calcKind
  rw [hk]
  simp only
  unfold Calc.vwap
  simp only [setManaged_engine f ind "VWAP_data" D hd, dOps]

/-- **VWAP as a tree with a row-major spec.** -/
def vwapTree (name : String) (round : Nat) (p : Int) : TreeSpec (mkTop (.vwap p : Kind F) name round) :=
  have hd := isDataNode_mkTop (.vwap p : Kind F) name round "VWAP_data" rfl
  TreeSpec.ofData (vwapContract _ p (name ++ "_data") (mkTop_kind _ _ _)) hd.subs hd.top
    (by rw [allNames_dataNode _ _ _ hd])
    (fun f cs i => calcReading_vwap _ p _ (mkTop_kind _ _ _) hd f cs i)

theorem vwapTree_full (name : String) (round : Nat) (p : Int) :
    (vwapTree (F := F) name round p).Full := by
  have hd := isDataNode_mkTop (.vwap p : Kind F) name round "VWAP_data" rfl
  refine ⟨?_, rfl⟩
  intro cs st _ _
  exact calculateIndex_with _ hd.subs _ (fun f cs i => calcReading_vwap _ p _ (mkTop_kind _ _ _) hd f cs i) cs st

/-! ### STDEV -/

/-- the pure reading part of STDEV -/
def stdevR (period : Int) (input : String) (x : Ctx F) : PyM (Option (Val F) × PyM (Val F)) := do
  let cur ← x.reading input
  if cur.isNone then return (none, .ok .none)
  let xv ← cur.asNum
  let dataMean := x.name ++ "_data.mean"
  let dataVar := x.name ++ "_data.variance"
  let inRange := x.readingPeriod (period + 1) input (some x.i)
  let removed : Num F ← if inRange then x.num input (some (x.i - period)) else pure (.int 0)
  let oldMean : Num F ← if ← x.prevExists dataMean then x.prevNum dataMean else pure (.int 0)
  let newMean := oldMean.add (← (xv.sub removed).truediv (.int period))
  let var0 : Num F ← if ← x.prevExists dataVar then x.prevNum dataVar else pure (.int 0)
  let variance := var0.add
    (← ((xv.sub removed).mul (((xv.sub newMean).add removed).sub oldMean)).truediv (.int period))
  return (some (sdict [("mean", sc newMean), ("variance", sc variance)]),
    if inRange then do return .num (← (Num.max2 variance (fl 0)).sqrt) else .ok .none)

theorem stdev_fact (D : String) (p : Int) (input : String) (cs : List (Candle F)) (i : Int) (name : String) :
    Calc.stdev (dOps D i) { cs := cs, i := i, name := name } p input
      = rwCalc D (stdevR p input) name cs i := by
  unfold Calc.stdev rwCalc stdevR dOps
  simp only [bind, Except.bind, pure, Except.pure]
  generalize ({ cs := cs, i := i, name := name } : Ctx F).reading input = r1
  generalize ({ cs := cs, i := i, name := name } : Ctx F).readingPeriod (p + 1) input (some i) = b
  generalize ({ cs := cs, i := i, name := name } : Ctx F).num input (some (i - p)) = r2
  generalize ({ cs := cs, i := i, name := name } : Ctx F).prevExists (name ++ "_data.mean") = r3
  generalize ({ cs := cs, i := i, name := name } : Ctx F).prevNum (name ++ "_data.mean") = r4
  generalize ({ cs := cs, i := i, name := name } : Ctx F).prevExists (name ++ "_data.variance") = r5
  generalize ({ cs := cs, i := i, name := name } : Ctx F).prevNum (name ++ "_data.variance") = r6
  rcases r1 with e | cur
  · rfl
  simp only
  by_cases hn : cur.isNone = true
  · simp only [hn, if_true]
  simp only [hn, Bool.false_eq_true, if_false]
  rcases cur.asNum with e | xv
  · rfl
  simp only
  rcases r2 with e2 | v2 <;> rcases r3 with e3 | b3 <;> rcases r4 with e4 | v4 <;>
    rcases r5 with e5 | b5 <;> rcases r6 with e6 | v6 <;> cases b <;>
    simp only [Bool.false_eq_true, if_false, if_true] <;>
    (try cases b3) <;> (try cases b5) <;> simp only [Bool.false_eq_true, if_false, if_true] <;>
    (try rfl)
  all_goals (rcases Num.truediv _ _ with _ | _ <;> try rfl)
  all_goals (simp only; rcases Num.truediv _ _ with _ | _ <;> try rfl)
  all_goals (simp only; rcases setReading true D cs i _ with _ | _ <;> try rfl)
  all_goals (simp only; rcases Num.sqrt _ with _ | _ <;> rfl)

theorem Ctx.readingPeriod_trunc_some (x : Ctx F) (period : Int) (nm : String) (h0 : 0 ≤ x.i)
    (hi : x.i < x.cs.length) (hp : 1 ≤ period) :
    x.trunc.readingPeriod period nm (some x.i) = x.readingPeriod period nm (some x.i) := by
  unfold Ctx.readingPeriod Ctx.trunc
  simp only [Option.getD_some]
  exact readingPeriod_upto x.cs period nm x.i h0 hi hp

theorem Ctx.num_trunc_of_period (x : Ctx F) (p : Int) (input : String) (h0 : 0 ≤ x.i) (hp : 0 ≤ p)
    (hrp : x.readingPeriod (p + 1) input (some x.i) = true) :
    x.trunc.num input (some (x.i - p)) = x.num input (some (x.i - p)) := by
  have hb := readingPeriod_true_bound x.cs (p + 1) input x.i (by simpa [Ctx.readingPeriod] using hrp)
  exact Ctx.num_trunc x input (x.i - p) (by omega) (by omega)

theorem stdevR_trunc (p : Int) (input : String) (x : Ctx F) (h0 : 0 ≤ x.i) (hi : x.i < x.cs.length)
    (hp : 0 ≤ p) : stdevR p input x.trunc = stdevR p input x := by
  unfold stdevR
  simp (config := { contextual := true }) only [Ctx.trunc_name, Ctx.trunc_i,
    Ctx.reading_trunc_cur x _ h0, Ctx.prevExists_trunc x _ h0 hi, Ctx.prevNum_trunc x _ h0 hi,
    Ctx.readingPeriod_trunc_some x (p + 1) input h0 hi (by omega),
    Ctx.num_trunc_of_period x p input h0 hp]

theorem stdevR_congr (p : Int) (input : String) (x y : Ctx F) (hn : x.name = y.name)
    (hin : Ctx.SameCol input x y)
    (hpe : ∀ nm, x.prevExists nm = y.prevExists nm) (hpn : ∀ nm, x.prevNum nm = y.prevNum nm) :
    stdevR p input x = stdevR p input y := by
  unfold stdevR
  simp only [hn, hpe, hpn, Ctx.reading_congr hin, Ctx.num_congr hin, Ctx.readingPeriod_congr hin, hin.idx]

/-- **STDEV satisfies the data-node contract** (`period ≥ 0`; the input does not see the node's
two keys). -/
def stdevContract (ind : Ind F) (p : Int) (input D : String) (hk : ind.kind = .stdev p input)
    (hp : 0 ≤ p) (h1 : Indep F ind.name input) (h2 : Indep F D input) : DataContract ind D where
  C := fun cs i => Calc.stdev (dOps D i) { cs := cs, i := i, name := ind.name } p input
  R := stdevR p input
  Inv := fun _ => True
  inv_nil := trivial
  Good := fun _ => True
  good_plain := fun _ _ => trivial
  fact := fun done c rest _ => stdev_fact D p input _ _ _
  local_ := by
    intro done c rest _ _
    rw [← trunc_append_cons done c rest]
    exact (stdevR_trunc p input _ (by simp) (by simp) hp).symm
  stable := by
    intro done c d fin v _ _ h _
    rw [← h]
    refine stdevR_congr p input _ _ rfl (sameCol_outD _ _ input h1 h2 ..) ?_ ?_
    · intro nm; rw [Ctx.prevExists_append_cons, Ctx.prevExists_append_cons]
    · intro nm; rw [Ctx.prevNum_append_cons, Ctx.prevNum_append_cons]
  inv_step := fun _ _ _ _ _ _ _ _ _ => ⟨trivial, trivial⟩

theorem calcReading_stdev (ind : Ind F) (p : Int) (input D : String) (hk : ind.kind = .stdev p input)
    (hd : IsDataNode ind "STDEV_data" D) (f : Nat) (cs : List (Candle F)) (i : Int) :
    calcReading (f + 3) ind cs i
      = Calc.stdev (dOps D i) { cs := cs, i := i, name := ind.name } p input := by
  rw [calcReading]
  unfold calcKind
  rw [hk]
  simp only
  unfold Calc.stdev
  simp only [setManaged_engine f ind "STDEV_data" D hd, dOps]

/-- **STDEV as a tree with a row-major spec.** -/
def stdevTree (name : String) (round : Nat) (p : Int) (input : String) (hp : 0 ≤ p)
    (hin : NoDot input ∧ input ∈ Candle.attrNames) :
    TreeSpec (mkTop (.stdev p input : Kind F) name round) :=
  have hd := isDataNode_mkTop (.stdev p input : Kind F) name round "STDEV_data" rfl
  TreeSpec.ofData (stdevContract _ p input (name ++ "_data") (mkTop_kind _ _ _) hp
      (indep_attr _ input hin.1 hin.2) (indep_attr _ input hin.1 hin.2)) hd.subs hd.top
    (by rw [allNames_dataNode _ _ _ hd])
    (fun f cs i => calcReading_stdev _ p input _ (mkTop_kind _ _ _) hd f cs i)

theorem stdevTree_full (name : String) (round : Nat) (p : Int) (input : String) (hp : 0 ≤ p)
    (hin : NoDot input ∧ input ∈ Candle.attrNames) :
    (stdevTree (F := F) name round p input hp hin).Full := by
  have hd := isDataNode_mkTop (.stdev p input : Kind F) name round "STDEV_data" rfl
  refine ⟨?_, rfl⟩
  intro cs st _ _
  exact calculateIndex_with _ hd.subs _
    (fun f cs i => calcReading_stdev _ p input _ (mkTop_kind _ _ _) hd f cs i) cs st

end Hex

import HexProofs.Framework.Gen.Maintain
import HexProofs.Framework.Kinds.All
/-
Leaf indicators as instances of the generic layer: a `Contract` gives a `StepLaw`, and the leaf
refinement theorem gives the `TreeSpec`.
-/
namespace Hex
set_option linter.unusedSectionVars false
variable {F : Type} [PyF F]

/-- the row step of a leaf -/
def leafSpec (ind : Ind F) : Gen.StepSpec F where
  name := ind.name
  names := [ind.name]
  step := stepLeaf ind

theorem leafSpec_rowMajorFrom (ind : Ind F) (done raw : List (Candle F)) :
    Gen.rowMajorFrom (leafSpec ind) done raw = rowMajorFrom ind done raw := rfl

theorem leafSpec_rowMajor (ind : Ind F) (raw : List (Candle F)) :
    Gen.rowMajor (leafSpec ind) raw = rowMajor ind raw := rfl

theorem fin_setKey (ind : Ind F) (v : Val F) (c : Candle F) (hc : Plain c) :
    Gen.Fin (leafSpec ind) c (setKey ind.isSub ind.name v c) := by
  obtain ⟨hi, hs⟩ := hc
  refine ⟨?_, hasKey_setKey _ _ _ _, ?_, ?_⟩
  · cases hsub : ind.isSub <;> simp [setKey, Candle.bare]
  · intro p hp
    cases hsub : ind.isSub <;> simp [setKey, hsub, hi, dset] at hp
    · subst hp; simp [leafSpec]
  · intro p hp
    cases hsub : ind.isSub <;> simp [setKey, hsub, hs, dset] at hp
    · subst hp; simp [leafSpec]

def leafLaw (ind : Ind F) (K : Contract ind) : Gen.StepLaw (leafSpec ind) where
  Inv := K.Inv
  inv_nil := K.inv_nil
  Good := fun _ => True
  good_plain := fun _ _ => trivial
  local_ := fun done c rest hinv _ => stepLeaf_local ind K done c rest hinv
  shape := by
    intro done c d hinv hc h
    obtain ⟨v, hv, hd⟩ := rowStep_ok ind done c _ h
    exact ⟨_, hd, fin_setKey ind _ c hc, by rw [hd]; exact K.inv_step done c v hinv hc hv, trivial⟩
  idem := by
    intro done c c' hinv hc h
    obtain ⟨v, hv, hd⟩ := rowStep_ok ind done c _ h
    have hc' : c' = setKey ind.isSub ind.name (v.roundBy ind.round) c := by
      have := List.append_cancel_left hd; simpa using this
    subst hc'
    exact stepLeaf_reproduce ind K done c [] v hinv hc hv

theorem engineCalc_leaf (ind : Ind F) (hl : IsLeaf ind) (cs : List (Candle F)) :
    engineCalc ind cs = leafCalc ind cs :=
  calculate_leaf ind hl _ cs (by have := fuelFor_ge cs; omega)

/-- **Every leaf under its contract is a `TreeSpec`.** -/
def TreeSpec.ofLeaf (ind : Ind F) (hl : IsLeaf ind) (K : Contract ind) : TreeSpec ind where
  S := leafSpec ind
  law := leafLaw ind K
  names_eq := (allNames_leaf ind hl).symm
  engine := by
    intro raw₁ raw₂ done out h₁ hp₁ hp₂
    rw [engineCalc_leaf ind hl, leafSpec_rowMajor,
        leafCalc_refines ind K raw₁ raw₂ done (by rw [← leafSpec_rowMajor]; exact h₁) hp₁ hp₂]

theorem indexIsStep_leaf (ind : Ind F) (hl : IsLeaf ind) (K : Contract ind) :
    (TreeSpec.ofLeaf ind hl K).IndexIsStep := by
  intro cs st _ _
  rw [calculateIndex_leaf ind hl _ cs st (st + 1) (by have := fuelFor_ge cs; omega), pyRange_single]
  simp only [List.foldlM_cons, List.foldlM_nil, bind, Except.bind, pure, Except.pure]
  show _ = stepLeaf ind cs st
  cases stepLeaf ind cs st <;> rfl

end Hex

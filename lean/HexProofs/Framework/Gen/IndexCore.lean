import HexProofs.Framework.Gen.AllX
import HexProofs.Framework.Gen.Maintain
/-
`calculate_index(i)` on trees WITH sub-indicators / driven children – the generic part.

A finished candle of a component `Z` after the history `H` (`Z.Done H c`: a raw candle on which
`Z` stored its value, possibly decorated by other pieces since) is reproduced by `Z`'s row step
(`TComp.step_done`: `val_sim` + `stable` + `absorb`).  An *index pass* of a piece is what the engine
runs for that piece inside `calculate_index(i, i + 1)`; it `Repro`duces finished candles whenever it
is the piece's row step on them.  Index passes compose like the pieces (`repro_seq`), so the engine's
`calculate_index(i)` of a whole tree – helper passes first, the node's own step last – reproduces
every finished candle of a row-major run (`TComp.index_reproduces`).

At index 0 the engine does NOT run the helpers' index passes (`if start_index and end_index` is
false): every helper runs its full `calculate()`.  On a finished list that pass changes nothing
(`repro0_pass`, from `pass_iff` with no raw candles), so the batch state is reproduced there too
(`TComp.index0_reproduces`).
-/
namespace Hex
set_option linter.unusedSectionVars false
variable {F : Type} [PyF F]

namespace TComp

/-- `c` is a finished candle of `Z` after the history `H`: `Z` stored its value on a raw candle, and
`c` agrees with the result on everything `Z` reads or writes (other pieces may have written since) -/
def Done (Z : TComp F) (H : List (Candle F)) (c : Candle F) : Prop :=
  ∃ c0 z, Z.Raw c0 ∧ Z.val H c0 = .ok z ∧ SimK (Z.rkeys ++ Z.wkeys) c (Z.app z c0)

/-- **the row step reproduces a finished candle** -/
theorem step_done {Z : TComp F} (L : Law Z) (H : List (Candle F)) (c : Candle F) (rest : List (Candle F))
    (hd : Z.Done H c) : Z.step (H ++ c :: rest) H.length = .ok (H ++ c :: rest) := by
  obtain ⟨c0, z, hraw, hv, hs⟩ := hd
  rw [step_shape]
  have hval : Z.val H c = .ok z := by
    rw [L.val_sim H H c (Z.app z c0) (SimL.refl _ H) (hs.mono (fun k hk => List.mem_append_left _ hk))]
    exact L.stable H c0 z hraw hv
  rw [hval]
  simp only [bind, Except.bind, pure, Except.pure]
  rw [L.absorb z c0 c hraw (hs.mono (fun k hk => List.mem_append_right _ hk))]

theorem seq_val_ok {X Q : TComp F} (H : List (Candle F)) (c : Candle F) (x : X.ω) (q : Q.ω)
    (hv : (seq X Q).val H c = .ok (x, q)) : X.val H c = .ok x ∧ Q.val H (X.app x c) = .ok q := by
  change (do let x ← X.val H c; let q ← Q.val H (X.app x c); pure (x, q)) = .ok (x, q) at hv
  cases hx : X.val H c with
  | error e => rw [hx] at hv; cases hv
  | ok x0 =>
    rw [hx] at hv
    simp only [bind, Except.bind] at hv
    cases hq : Q.val H (X.app x0 c) with
    | error e => rw [hq] at hv; cases hv
    | ok q0 =>
      rw [hq] at hv
      simp only [pure, Except.pure] at hv
      have hxq : (x0, q0) = (x, q) := Except.ok.inj hv
      cases hxq
      exact ⟨rfl, hq⟩

/-- a finished candle of `X ; Q` is a finished candle of `X` … -/
theorem Done.left {X Q : TComp F} (LQ : Law Q) (hok : SeqOK X Q) {H : List (Candle F)} {c : Candle F}
    (hd : (seq X Q).Done H c) : X.Done H c := by
  obtain ⟨c0, ⟨x, q⟩, hraw, hv, hs⟩ := hd
  obtain ⟨hx, _⟩ := seq_val_ok H c0 x q hv
  refine ⟨c0, x, hraw.1, hx, ?_⟩
  have h1 : SimK (X.rkeys ++ X.wkeys) c (Q.app q (X.app x c0)) := hs.mono (fun k hk => by
    show k ∈ (X.rkeys ++ Q.rkeys) ++ (X.wkeys ++ Q.wkeys)
    rcases List.mem_append.1 hk with h | h
    · exact List.mem_append_left _ (List.mem_append_left _ h)
    · exact List.mem_append_right _ (List.mem_append_left _ h))
  refine h1.trans ((LQ.app_frame q _).sim ?_)
  intro k hk
  rcases List.mem_append.1 hk with h | h
  · exact hok.dis_r k h
  · exact hok.dis_w k h

/-- … and of `Q` -/
theorem Done.right {X Q : TComp F} {H : List (Candle F)} {c : Candle F}
    (hd : (seq X Q).Done H c) : Q.Done H c := by
  obtain ⟨c0, ⟨x, q⟩, hraw, hv, hs⟩ := hd
  obtain ⟨_, hq⟩ := seq_val_ok H c0 x q hv
  refine ⟨X.app x c0, q, hraw.2.2 x, hq, hs.mono (fun k hk => ?_)⟩
  show k ∈ (X.rkeys ++ Q.rkeys) ++ (X.wkeys ++ Q.wkeys)
  rcases List.mem_append.1 hk with h | h
  · exact List.mem_append_left _ (List.mem_append_right _ h)
  · exact List.mem_append_right _ (List.mem_append_right _ h)

/-! ### index passes -/

/-- an index pass `ip` of the piece `Z` **reproduces** finished candles: run at a position whose
history is settled and whose candle is finished (and satisfies the side condition `Pre`), it returns
the list unchanged -/
def Repro (Z : TComp F) (Pre : List (Candle F) → Candle F → Prop)
    (ip : List (Candle F) → Int → PyM (List (Candle F))) : Prop :=
  ∀ (H : List (Candle F)) (c : Candle F) (rest : List (Candle F)), Z.Settled H → Z.Done H c → Pre H c →
    ip (H ++ c :: rest) H.length = .ok (H ++ c :: rest)

/-- an index pass that is the piece's row step on finished candles reproduces them -/
theorem repro_of_step {Z : TComp F} (L : Law Z) (Pre : List (Candle F) → Candle F → Prop)
    (ip : List (Candle F) → Int → PyM (List (Candle F)))
    (h : ∀ (H : List (Candle F)) (c : Candle F) (rest : List (Candle F)), Z.Settled H → Z.Done H c → Pre H c →
      ip (H ++ c :: rest) H.length = Z.step (H ++ c :: rest) H.length) : Repro Z Pre ip := by
  intro H c rest hs hd hp
  rw [h H c rest hs hd hp]
  exact step_done L H c rest hd

/-- index passes compose like the pieces -/
theorem repro_seq {X Q : TComp F} (LQ : Law Q) (hok : SeqOK X Q)
    {Pre : List (Candle F) → Candle F → Prop}
    {ipX ipQ : List (Candle F) → Int → PyM (List (Candle F))}
    (hX : Repro X Pre ipX) (hQ : Repro Q Pre ipQ) :
    Repro (seq X Q) Pre (fun cs i => do let cs₁ ← ipX cs i; ipQ cs₁ i) := by
  intro H c rest hs hd hp
  show (do let cs₁ ← ipX (H ++ c :: rest) H.length; ipQ cs₁ H.length) = _
  rw [hX H c rest hs.1 (hd.left LQ hok) hp]
  simp only [bind, Except.bind]
  exact hQ H c rest hs.2 hd.right hp

theorem Repro.weaken {Z : TComp F} {Pre Pre' : List (Candle F) → Candle F → Prop}
    {ip : List (Candle F) → Int → PyM (List (Candle F))} (h : Repro Z Pre ip)
    (hpre : ∀ H c, Pre' H c → Pre H c) : Repro Z Pre' ip :=
  fun H c rest hs hd hp => h H c rest hs hd (hpre H c hp)

/-! ### index 0: the helpers' full passes -/

/-- a pass `ip0` of the piece `Z` over a whole finished list reproduces it -/
def Repro0 (Z : TComp F) (Pre : Candle F → Prop) (ip0 : List (Candle F) → PyM (List (Candle F))) : Prop :=
  ∀ (c : Candle F) (rest : List (Candle F)), Z.Settled (c :: rest) → Z.Done [] c → Pre c →
    ip0 (c :: rest) = .ok (c :: rest)

/-- the engine pass (`calculate()`) of a lawful piece changes nothing on a settled list -/
theorem pass_settled {Z : TComp F} (L : Law Z) (H : List (Candle F)) (hs : Z.Settled H) :
    Z.pass H = .ok H := by
  have := (L.pass_iff H [] H hs (by simp)).2 (rowFrom_nil Z H)
  simpa using this

theorem repro0_pass {Z : TComp F} (L : Law Z) (Pre : Candle F → Prop) : Repro0 Z Pre Z.pass :=
  fun _ _ hs _ _ => pass_settled L _ hs

theorem repro0_of_repro {Z : TComp F} (L : Law Z) {Pre : List (Candle F) → Candle F → Prop}
    {ip : List (Candle F) → Int → PyM (List (Candle F))} (h : Repro Z Pre ip) :
    Repro0 Z (Pre []) (fun cs => ip cs 0) := by
  intro c rest _ hd hp
  have := h [] c rest L.settled_nil hd hp
  simpa using this

theorem repro0_seq {X Q : TComp F} (LQ : Law Q) (hok : SeqOK X Q) {Pre : Candle F → Prop}
    {a b : List (Candle F) → PyM (List (Candle F))} (hX : Repro0 X Pre a) (hQ : Repro0 Q Pre b) :
    Repro0 (seq X Q) Pre (fun cs => do let cs₁ ← a cs; b cs₁) := by
  intro c rest hs hd hp
  show (do let cs₁ ← a (c :: rest); b cs₁) = _
  rw [hX c rest hs.1 (hd.left LQ hok) hp]
  simp only [bind, Except.bind]
  exact hQ c rest hs.2 hd.right hp

theorem Repro0.weaken {Z : TComp F} {Pre Pre' : Candle F → Prop}
    {ip0 : List (Candle F) → PyM (List (Candle F))} (h : Repro0 Z Pre ip0)
    (hpre : ∀ c, Pre' c → Pre c) : Repro0 Z Pre' ip0 :=
  fun c rest hs hd hp => h c rest hs hd (hpre c hp)

/-! ### finished candles of a row-major run -/

theorem raw_of_plain {Z : TComp F} (L : Law Z) (c : Candle F) (hc : Plain c) : Z.Raw c :=
  L.raw_of c (fun k _ => hasKey_plain k c hc)

/-- position `j` of a finished row-major run of a whole-tree component: a settled history, a finished
candle (of a PLAIN raw candle), the rest -/
theorem done_at {Z : TComp F} (L : Law Z) (names : List String) (raw done : List (Candle F))
    (hp : ∀ c ∈ raw, Plain c)
    (h : Gen.rowMajor (Z.spec names) raw = .ok done) (j : Nat) (hj : j < done.length) :
    ∃ pre c post, done = pre ++ c :: post ∧ pre.length = j ∧ Z.Settled pre ∧
      ∃ c0 z, Plain c0 ∧ Z.val pre c0 = .ok z ∧ c = Z.app z c0 := by
  have h' : Gen.rowMajor (Z.spec Z.wkeys) raw = .ok done := h
  obtain ⟨pre, c, c', post, hd, hlen, hinv, hc, hs⟩ :=
    Gen.rowMajor_at (stepLaw L Z.wkeys (raw_of_plain L) (fun _ hk => hk)) raw done h' hp j hj
  refine ⟨pre, c', post, hd, hlen, hinv, c, ?_⟩
  change Z.step (pre ++ [c]) pre.length = .ok (pre ++ [c']) at hs
  rw [step_shape] at hs
  cases hv : Z.val pre c with
  | error e => rw [hv] at hs; cases hs
  | ok z =>
    rw [hv] at hs
    simp only [bind, Except.bind, pure, Except.pure] at hs
    have : c' = Z.app z c := by
      have := List.append_cancel_left (Except.ok.inj hs); simpa using this.symm
    exact ⟨z, hc, rfl, this⟩

theorem settled_of_rowMajor {Z : TComp F} (L : Law Z) (names : List String) (raw done : List (Candle F))
    (hp : ∀ c ∈ raw, Plain c) (h : Gen.rowMajor (Z.spec names) raw = .ok done) : Z.Settled done := by
  have h' : Gen.rowMajor (Z.spec Z.wkeys) raw = .ok done := h
  exact (Gen.rowMajor_shape (stepLaw L Z.wkeys (raw_of_plain L) (fun _ hk => hk)) raw done hp h').2

/-- **`calculate_index(j)` reproduces a finished row-major run** (any index of the finished part,
raw candles may follow): for an index pass that reproduces finished candles -/
theorem index_reproduces {Z : TComp F} (L : Law Z) (names : List String)
    {Pre : List (Candle F) → Candle F → Prop}
    {ip : List (Candle F) → Int → PyM (List (Candle F))} (hr : Repro Z Pre ip)
    (hpre : ∀ H c0 z, Plain c0 → Z.val H c0 = .ok z → Pre H (Z.app z c0))
    (raw done rest : List (Candle F)) (hp : ∀ c ∈ raw, Plain c)
    (h : Gen.rowMajor (Z.spec names) raw = .ok done) (j : Nat) (hj : j < done.length) :
    ip (done ++ rest) (j : Int) = .ok (done ++ rest) := by
  obtain ⟨pre, c, post, hd, hlen, hs, c0, z, hc0, hv, hc⟩ := done_at L names raw done hp h j hj
  subst hd
  subst hlen
  have := hr pre c (post ++ rest) hs ⟨c0, z, raw_of_plain L c0 hc0, hv, by rw [hc]; exact SimK.refl _ _⟩
    (by rw [hc]; exact hpre pre c0 z hc0 hv)
  simpa using this

/-- **index 0 of a finished row-major run**: for a whole-list pass that reproduces finished lists -/
theorem index0_reproduces {Z : TComp F} (L : Law Z) (names : List String) {Pre : Candle F → Prop}
    {ip0 : List (Candle F) → PyM (List (Candle F))} (hr : Repro0 Z Pre ip0)
    (hpre : ∀ c0 z, Plain c0 → Z.val [] c0 = .ok z → Pre (Z.app z c0))
    (raw done : List (Candle F)) (hp : ∀ c ∈ raw, Plain c)
    (h : Gen.rowMajor (Z.spec names) raw = .ok done) (hj : 0 < done.length) :
    ip0 done = .ok done := by
  obtain ⟨pre, c, post, hd, hlen, _, c0, z, hc0, hv, hc⟩ := done_at L names raw done hp h 0 hj
  have hpre0 : pre = [] := List.eq_nil_of_length_eq_zero hlen
  subst hpre0
  have hset : Z.Settled done := settled_of_rowMajor L names raw done hp h
  simp only [List.nil_append] at hd
  subst hd
  exact hr c post hset ⟨c0, z, raw_of_plain L c0 hc0, hv, by rw [hc]; exact SimK.refl _ _⟩
    (by rw [hc]; exact hpre c0 z hc0 hv)

end TComp

/-! ### the engine: `calculate_index(i, i + 1)` of one node -/

/-- the node's own part of `calculate_index(i, i + 1)`: `_calculate_reading(i)`, round, `_set_reading` -/
def ownStep (f : Nat) (ind : Ind F) (cs : List (Candle F)) (i : Int) : PyM (List (Candle F)) := do
  let (v, cs) ← calcReading f ind cs i
  setReading ind.isSub ind.name cs i (v.roundBy ind.round)

/-- `calculate_index(i, i + 1)`: prior helpers, the node's own step, non-prior helpers -/
theorem calculateIndex_single (f : Nat) (ind : Ind F) (cs : List (Candle F)) (i : Int) :
    calculateIndex (f + 1) ind cs i (i + 1) = (do
      let cs₁ ← calcSubs f ind.subs true (some (i, i + 1)) cs
      let cs₂ ← ownStep f ind cs₁ i
      calcSubs f ind.subs false (some (i, i + 1)) cs₂) := by
  rw [calculateIndex, pyRange_single]
  simp only [List.foldlM_cons, List.foldlM_nil, bind, Except.bind, pure, Except.pure, ownStep]
  cases calcSubs f ind.subs true (some (i, i + 1)) cs with
  | error e => rfl
  | ok cs₁ =>
    simp only
    cases calcReading f ind cs₁ i with
    | error e => rfl
    | ok r =>
      simp only
      cases setReading ind.isSub ind.name r.2 i (r.1.roundBy ind.round) <;> rfl

/-- the helpers not selected by `prior` are skipped -/
theorem calcSubs_skip (prior : Bool) (range : Option (Int × Int)) :
    ∀ (subs : List (Ind F)), (∀ s ∈ subs, s.priorCalc = !prior) → ∀ (fuel : Nat) (cs : List (Candle F)),
      subs.length + 1 ≤ fuel → calcSubs fuel subs prior range cs = .ok cs := by
  intro subs
  induction subs with
  | nil =>
    intro _ fuel cs hf
    obtain ⟨f, rfl⟩ : ∃ f, fuel = f + 1 := ⟨fuel - 1, by omega⟩
    exact calcSubs_nil f prior range cs
  | cons s rest ih =>
    intro h fuel cs hf
    obtain ⟨f, rfl⟩ : ∃ f, fuel = f + 1 := ⟨fuel - 1, by omega⟩
    simp only [List.length_cons] at hf
    have hs : (s.priorCalc == prior) = false := by
      rw [h s (by simp)]; cases prior <;> rfl
    have ih' := ih (fun t ht => h t (List.mem_cons_of_mem _ ht)) f cs (by omega)
    rcases range with _ | ⟨a, b⟩
    · rw [calcSubs]
      simp only [hs, Bool.false_eq_true, if_false, bind, Except.bind, pure, Except.pure]
      exact ih'
    · rw [calcSubs]
      simp only [hs, Bool.false_eq_true, if_false, bind, Except.bind, pure, Except.pure]
      exact ih'

/-- one selected helper at a non-zero index: its own `calculate_index(i, i + 1)` -/
theorem calcSubs_cons_idx (f : Nat) (s : Ind F) (rest : List (Ind F)) (prior : Bool) (i : Int)
    (hi : i ≠ 0) (hi1 : i + 1 ≠ 0) (hs : s.priorCalc = prior) (cs : List (Candle F)) :
    calcSubs (f + 1) (s :: rest) prior (some (i, i + 1)) cs = (do
      let cs₁ ← calculateIndex f s cs i (i + 1)
      calcSubs f rest prior (some (i, i + 1)) cs₁) := by
  rw [calcSubs]
  have hb : (i != 0 && i + 1 != 0) = true := by simp [hi, hi1]
  simp only [hs, beq_self_eq_true, if_true, hb]

/-- one selected helper at index 0: its full `calculate()` -/
theorem calcSubs_cons_zero (f : Nat) (s : Ind F) (rest : List (Ind F)) (prior : Bool)
    (hs : s.priorCalc = prior) (cs : List (Candle F)) :
    calcSubs (f + 1) (s :: rest) prior (some (0, 0 + 1)) cs = (do
      let cs₁ ← calculate f s cs
      calcSubs f rest prior (some (0, 0 + 1)) cs₁) := by
  rw [calcSubs]
  have hb : ((0 : Int) != 0 && (0 : Int) + 1 != 0) = false := by decide
  simp only [hs, beq_self_eq_true, if_true, hb, Bool.false_eq_true, if_false]

/-- the own step of a read-only node is one unconditional leaf step -/
theorem ownStep_readOnly (f : Nat) (ind : Ind F) (hro : ind.kind.readOnly = true) (cs : List (Candle F))
    (i : Int) : ownStep (f + 1) ind cs i = stepLeaf ind cs i := by
  unfold ownStep stepLeaf
  rw [calcReading_leaf f ind hro]
  cases readKind ind.kind { cs := cs, i := i, name := ind.name } <;> rfl

/-- the own step of a node whose `_calculate_reading` is `C` -/
theorem ownStep_with (f : Nat) (ind : Ind F) (C : List (Candle F) → Int → PyM (Val F × List (Candle F)))
    (cs : List (Candle F)) (i : Int) (hC : calcReading f ind cs i = C cs i) :
    ownStep f ind cs i = stepWith ind C cs i := by
  unfold ownStep stepWith
  rw [hC]

/-! ### helper nodes -/

/-- `calculate_index(i, i + 1)` (`i ≠ 0`) of a read-only node with one prior leaf helper (the ATR
helper of KC / Supertrend / ADX): the helper's step, then the node's -/
theorem calculateIndex_one_prior (N X : Ind F) (hs : N.subs = [X]) (hro : N.kind.readOnly = true)
    (hx : IsLeaf X) (hxp : X.priorCalc = true) (fuel : Nat) (hf : 4 ≤ fuel) (cs : List (Candle F))
    (i : Int) (hi : i ≠ 0) (hi1 : i + 1 ≠ 0) :
    calculateIndex fuel N cs i (i + 1) = (do let cs₁ ← stepLeaf X cs i; stepLeaf N cs₁ i) := by
  obtain ⟨f, rfl⟩ : ∃ f, fuel = (f + 2) + 1 + 1 := ⟨fuel - 4, by omega⟩
  rw [calculateIndex_single, hs, calcSubs_cons_idx (f + 2) X [] true i hi hi1 hxp,
    calculateIndex_leaf_single X hx (f + 2) cs i (by omega)]
  simp only [bind, Except.bind]
  cases stepLeaf X cs i with
  | error e => rfl
  | ok cs₁ =>
    simp only [calcSubs_nil]
    rw [ownStep_readOnly (f + 2) N hro]
    cases stepLeaf N cs₁ i with
    | error e => rfl
    | ok cs₂ =>
      simp only
      exact calcSubs_skip false _ [X] (by simp [hxp]) _ _ (by simp)

/-- `calculate_index(i, i + 1)` of a node without sub-indicators -/
theorem calculateIndex_noSubs (ind : Ind F) (hs : ind.subs = []) (f : Nat) (cs : List (Candle F)) (i : Int) :
    calculateIndex (f + 2) ind cs i (i + 1) = ownStep (f + 1) ind cs i := by
  rw [calculateIndex_single, hs, calcSubs_nil]
  simp only [bind, Except.bind]
  cases ownStep (f + 1) ind cs i with
  | error e => rfl
  | ok cs₂ => simp only [calcSubs_nil]

theorem stepWith_length (ind : Ind F) (C : List (Candle F) → Int → PyM (Val F × List (Candle F)))
    (hlen : ∀ cs i v cs', C cs i = .ok (v, cs') → cs'.length = cs.length) (cs cs' : List (Candle F)) (i : Int)
    (h : stepWith ind C cs i = .ok cs') : cs'.length = cs.length := by
  unfold stepWith at h
  cases hC : C cs i with
  | error e => rw [hC] at h; cases h
  | ok r =>
    rw [hC] at h
    simp only [bind, Except.bind, setReading_eq] at h
    rw [updateAt_length _ _ _ _ h, hlen cs i r.1 r.2 hC]

/-! ### the pieces -/

/-- the index pass of a keyed single-write piece (leaf helper / read-only own reading) is one
unconditional leaf step; it is the piece's row step -/
theorem repro_leaf (Z : Ind F) (T : TContract Z) : TComp.Repro (leafComp Z T) (fun _ _ => True) (stepLeaf Z) := by
  refine TComp.repro_of_step (leafComp_law Z T) _ _ ?_
  intro H c rest hs _ _
  rw [TComp.step_shape, stepLeaf_append_cons, T.loc H c rest hs.2.1]
  rfl

/-- a finished candle of a data piece carries no data entry in `.indicators` -/
theorem done_data_inds (Z : Ind F) (D : String) (K : TDataContract Z D) (hne : Z.name ≠ D)
    (H : List (Candle F)) (c : Candle F) (hd : (dataComp Z D K).Done H c) : dlookup D c.inds = none := by
  obtain ⟨c0, z, hraw, _, hs⟩ := hd
  have h1 := (hs.2 D (by simp [dataComp])).1
  rw [h1]
  have h0 : dlookup D c0.inds = none := inds_of_noKey D c0 hraw.2
  show dlookup D (outDS Z.isSub Z.name D (z.2.roundBy Z.round) z.1 c0).inds = none
  unfold outDS setD
  cases z.1 with
  | none =>
    cases Z.isSub
    · simp [setKey, dlookup_dset_ne _ _ _ _ hne, h0]
    · simp [setKey, h0]
  | some dv =>
    cases Z.isSub
    · simp [setKey, dlookup_dset_ne _ _ _ _ hne, h0]
    · simp [setKey, h0]

/-- the index pass of a data piece (STDEV helper, Supertrend's own step) -/
theorem repro_data (Z : Ind F) (D : String) (K : TDataContract Z D) (hne : Z.name ≠ D) :
    TComp.Repro (dataComp Z D K) (fun _ _ => True) (stepWith Z K.C) := by
  refine TComp.repro_of_step (dataComp_law Z D K hne) _ _ ?_
  intro H c rest _ hd _
  rw [TComp.step_shape]
  exact stepWith_dataT Z D K H c rest (done_data_inds Z D K hne H c hd)


/-! ### top nodes with one or two prior helpers -/

/-- `calculate_index(i, i + 1)`, `i ≠ 0`, of a node with exactly one (prior) helper -/
theorem calculateIndex_top_one (P A : Ind F) (hs : P.subs = [A]) (hA : A.priorCalc = true) (f : Nat)
    (cs : List (Candle F)) (i : Int) (hi : i ≠ 0) (hi1 : i + 1 ≠ 0) :
    calculateIndex (f + 3) P cs i (i + 1) = (do
      let cs₁ ← calculateIndex (f + 1) A cs i (i + 1)
      ownStep (f + 2) P cs₁ i) := by
  rw [calculateIndex_single, hs, calcSubs_cons_idx (f + 1) A [] true i hi hi1 hA]
  simp only [bind, Except.bind]
  cases calculateIndex (f + 1) A cs i (i + 1) with
  | error e => rfl
  | ok cs₁ =>
    simp only [calcSubs_nil]
    cases ownStep (f + 2) P cs₁ i with
    | error e => rfl
    | ok cs₂ => exact calcSubs_skip false _ [A] (by simp [hA]) _ _ (by simp)

/-- the same at index 0: the helper runs its full `calculate()` -/
theorem calculateIndex_top_one_zero (P A : Ind F) (hs : P.subs = [A]) (hA : A.priorCalc = true) (f : Nat)
    (cs : List (Candle F)) :
    calculateIndex (f + 3) P cs 0 (0 + 1) = (do
      let cs₁ ← calculate (f + 1) A cs
      ownStep (f + 2) P cs₁ 0) := by
  rw [calculateIndex_single, hs, calcSubs_cons_zero (f + 1) A [] true hA]
  simp only [bind, Except.bind]
  cases calculate (f + 1) A cs with
  | error e => rfl
  | ok cs₁ =>
    simp only [calcSubs_nil]
    cases ownStep (f + 2) P cs₁ 0 with
    | error e => rfl
    | ok cs₂ => exact calcSubs_skip false _ [A] (by simp [hA]) _ _ (by simp)

/-- `calculate_index(i, i + 1)`, `i ≠ 0`, of a node with exactly two (prior) helpers -/
theorem calculateIndex_top_two (P A E : Ind F) (hs : P.subs = [A, E]) (hA : A.priorCalc = true)
    (hE : E.priorCalc = true) (f : Nat) (cs : List (Candle F)) (i : Int) (hi : i ≠ 0) (hi1 : i + 1 ≠ 0) :
    calculateIndex (f + 4) P cs i (i + 1) = (do
      let cs₁ ← calculateIndex (f + 2) A cs i (i + 1)
      let cs₂ ← calculateIndex (f + 1) E cs₁ i (i + 1)
      ownStep (f + 3) P cs₂ i) := by
  rw [calculateIndex_single, hs, calcSubs_cons_idx (f + 2) A [E] true i hi hi1 hA]
  simp only [bind, Except.bind]
  cases calculateIndex (f + 2) A cs i (i + 1) with
  | error e => rfl
  | ok cs₁ =>
    simp only
    rw [calcSubs_cons_idx (f + 1) E [] true i hi hi1 hE]
    simp only [bind, Except.bind]
    cases calculateIndex (f + 1) E cs₁ i (i + 1) with
    | error e => rfl
    | ok cs₂ =>
      simp only [calcSubs_nil]
      cases ownStep (f + 3) P cs₂ i with
      | error e => rfl
      | ok cs₃ => exact calcSubs_skip false _ [A, E] (by simp [hA, hE]) _ _ (by simp)

/-- the same at index 0 -/
theorem calculateIndex_top_two_zero (P A E : Ind F) (hs : P.subs = [A, E]) (hA : A.priorCalc = true)
    (hE : E.priorCalc = true) (f : Nat) (cs : List (Candle F)) :
    calculateIndex (f + 4) P cs 0 (0 + 1) = (do
      let cs₁ ← calculate (f + 2) A cs
      let cs₂ ← calculate (f + 1) E cs₁
      ownStep (f + 3) P cs₂ 0) := by
  rw [calculateIndex_single, hs, calcSubs_cons_zero (f + 2) A [E] true hA]
  simp only [bind, Except.bind]
  cases calculate (f + 2) A cs with
  | error e => rfl
  | ok cs₁ =>
    simp only
    rw [calcSubs_cons_zero (f + 1) E [] true hE]
    simp only [bind, Except.bind]
    cases calculate (f + 1) E cs₁ with
    | error e => rfl
    | ok cs₂ =>
      simp only [calcSubs_nil]
      cases ownStep (f + 3) P cs₂ 0 with
      | error e => rfl
      | ok cs₃ => exact calcSubs_skip false _ [A, E] (by simp [hA, hE]) _ _ (by simp)

end Hex

import HexProofs.Framework.Gen.DataKinds
/-
Family (1): RSI.  Its `_calculate_reading` reads the data series back on the current candle right
after storing it (and, when nothing was stored, reads whatever is there), so the "read, store,
finish" form holds on the candles the framework meets: those without a data entry in
`.indicators`.
-/
namespace Hex
set_option linter.unusedSectionVars false
variable {F : Type} [PyF F]

/-! ### reading the current candle -/

theorem Ctx.reading_cur (done : List (Candle F)) (c : Candle F) (rest : List (Candle F)) (name nm : String) :
    ({ cs := done ++ c :: rest, i := done.length, name := name } : Ctx F).reading nm
      = .ok (readingByCandle c nm) := by
  unfold Ctx.reading
  simp [pyIndex_append_cons, bind, Except.bind, pure, Except.pure]

theorem Ctx.num_cur (done : List (Candle F)) (c : Candle F) (rest : List (Candle F)) (name nm : String) :
    ({ cs := done ++ c :: rest, i := done.length, name := name } : Ctx F).num nm
      = (readingByCandle c nm).asNum := by
  unfold Ctx.num
  rw [Ctx.reading_cur]; rfl

theorem rbc_data_self (D : String) (hk : IsKey D) (c : Candle F) (hno : dlookup D c.inds = none)
    (v : Val F) : readingByCandle (setKey true D v c) D = v := by
  rw [readingByCandle_key D hk]
  unfold lookupKey setKey
  simp [hno, dlookup_dset_self]

theorem rbc_data_field (D fld full : String) (hsplit : splitDot full = [D, fld]) (c : Candle F)
    (hno : dlookup D c.inds = none) (v : Val F) :
    readingByCandle (setKey true D v c) full = v.nested fld := by
  unfold readingByCandle
  rw [hsplit]
  simp [setKey, hno, dlookup_dset_self]

/-! ### the reading part -/

/-- RSI from the smoothed gain and loss -/
def rsiFin (g l : Num F) : PyM (Val F) :=
  if l.eq (.int 0) then .ok (.num (fl 100)) else do
    let rs ← g.truediv l
    let q ← (fl 100 : Num F).truediv ((fl 1).add rs)
    pure (.num ((fl 100 : Num F).sub q))

/-- the pure reading part of RSI -/
def rsiR (period : Int) (input : String) (x : Ctx F) : PyM (Option (Val F) × PyM (Val F)) := do
  let dGain := x.name ++ "_data.gain"
  let dLoss := x.name ++ "_data.loss"
  if ← x.prevExists x.name then
    let change := (← x.prevNum input).sub (← x.num input)
    let gain : Num F := if change.lt (.int 0) then (Num.int (-1)).mul change else fl 0
    let loss : Num F := if change.gt (.int 0) then change else fl 0
    let g ← (((← x.prevNum dGain).mul (.int (period - 1))).add gain).truediv (.int period)
    let l ← (((← x.prevNum dLoss).mul (.int (period - 1))).add loss).truediv (.int period)
    return (some (sdict [("gain", sc g), ("loss", sc l)]), rsiFin g l)
  else if x.readingPeriod (period + 1) input then
    let changes ← (pyRange (x.i - (period - 1)) (x.i + 1)).mapM fun i => do
      return (← x.num input (some i)).sub (← x.num input (some (i - 1)))
    let gains := pySum (changes.filter fun c => c.gt (.int 0))
    let losses := pySum ((changes.filter fun c => c.lt (.int 0)).map Num.abs)
    let g ← gains.truediv (.int period)
    let l ← losses.truediv (.int period)
    return (some (sdict [("gain", sc g), ("loss", sc l)]), rsiFin g l)
  else
    -- nothing to store: the data entry is whatever the candle holds
    if (← x.reading (x.name ++ "_data")).truthy then
      return (none, do
        let l ← x.num dLoss
        if l.eq (.int 0) then pure (.num (fl 100)) else do
          let g ← x.num dGain
          let rs ← g.truediv l
          let q ← (fl 100 : Num F).truediv ((fl 1).add rs)
          pure (.num ((fl 100 : Num F).sub q)))
    else return (some .none, .ok .none)

/-- name hypotheses of an RSI node: the data series name is an ordinary key different from the
node's name, and its two fields are addressed by dotted names -/
structure RsiNames (name : String) : Prop where
  dkey : IsKey (name ++ "_data")
  ne : name ≠ name ++ "_data"
  gain : splitDot (name ++ "_data.gain") = [name ++ "_data", "gain"]
  loss : splitDot (name ++ "_data.loss") = [name ++ "_data", "loss"]

/-- the tail of `Calc.rsi` right after the data entry `dict(g, l)` was stored on a candle without
a data entry in `.indicators` -/
theorem rsi_tail_written (name : String) (hn : RsiNames name) (done : List (Candle F)) (c : Candle F)
    (rest : List (Candle F)) (hno : dlookup (name ++ "_data") c.inds = none) (g l : Num F) :
    let c₁ := setKey true (name ++ "_data") (sdict [("gain", sc g), ("loss", sc l)]) c
    let x' : Ctx F := { cs := done ++ c₁ :: rest, i := done.length, name := name }
    x'.reading (name ++ "_data") = .ok (sdict [("gain", sc g), ("loss", sc l)]) ∧
    x'.num (name ++ "_data.loss") = .ok l ∧ x'.num (name ++ "_data.gain") = .ok g := by
  intro c₁ x'
  refine ⟨?_, ?_, ?_⟩
  · rw [Ctx.reading_cur, rbc_data_self _ hn.dkey c hno]
  · rw [Ctx.num_cur, rbc_data_field _ "loss" _ hn.loss c hno]
    simp [Val.nested, sdict, sc, dlookup, Val.asNum, Scalar.asNum]
  · rw [Ctx.num_cur, rbc_data_field _ "gain" _ hn.gain c hno]
    simp [Val.nested, sdict, sc, dlookup, Val.asNum, Scalar.asNum]

theorem truthy_gl (g l : Num F) : (sdict [("gain", sc g), ("loss", sc l)] : Val F).truthy = true := rfl

theorem rsi_fact (name : String) (hn : RsiNames name) (p : Int) (input : String)
    (done : List (Candle F)) (c : Candle F) (rest : List (Candle F))
    (hno : dlookup (name ++ "_data") c.inds = none) :
    Calc.rsi (dOps (name ++ "_data") done.length) { cs := done ++ c :: rest, i := done.length, name := name } p input
      = rwCalc (name ++ "_data") (rsiR p input) name (done ++ c :: rest) done.length := by
  have t1 : ∀ g l : Num F, (Ctx.mk (done ++ setKey true (name ++ "_data") (sdict [("gain", sc g), ("loss", sc l)]) c :: rest)
      (done.length : Int) name : Ctx F).reading (name ++ "_data")
        = .ok (sdict [("gain", sc g), ("loss", sc l)]) := fun g l => (rsi_tail_written name hn done c rest hno g l).1
  have t2 : ∀ g l : Num F, (Ctx.mk (done ++ setKey true (name ++ "_data") (sdict [("gain", sc g), ("loss", sc l)]) c :: rest)
      (done.length : Int) name : Ctx F).num (name ++ "_data.loss") = .ok l :=
    fun g l => (rsi_tail_written name hn done c rest hno g l).2.1
  have t3 : ∀ g l : Num F, (Ctx.mk (done ++ setKey true (name ++ "_data") (sdict [("gain", sc g), ("loss", sc l)]) c :: rest)
      (done.length : Int) name : Ctx F).num (name ++ "_data.gain") = .ok g :=
    fun g l => (rsi_tail_written name hn done c rest hno g l).2.2
  unfold Calc.rsi rwCalc rsiR rsiFin dOps
  simp only [setReading_eq, updateAt_append_cons, bind, Except.bind, pure, Except.pure, t1, t2, t3, truthy_gl,
    if_true]
  generalize ({ cs := done ++ c :: rest, i := (done.length : Int), name := name } : Ctx F).prevExists name = r0
  generalize ({ cs := done ++ c :: rest, i := (done.length : Int), name := name } : Ctx F).prevNum input = r1
  generalize ({ cs := done ++ c :: rest, i := (done.length : Int), name := name } : Ctx F).num input = r2
  generalize ({ cs := done ++ c :: rest, i := (done.length : Int), name := name } : Ctx F).prevNum (name ++ "_data.gain") = r3
  generalize ({ cs := done ++ c :: rest, i := (done.length : Int), name := name } : Ctx F).prevNum (name ++ "_data.loss") = r4
  generalize ({ cs := done ++ c :: rest, i := (done.length : Int), name := name } : Ctx F).readingPeriod (p + 1) input = b
  generalize ({ cs := done ++ c :: rest, i := (done.length : Int), name := name } : Ctx F).reading (name ++ "_data") = r6
  generalize ({ cs := done ++ c :: rest, i := (done.length : Int), name := name } : Ctx F).num (name ++ "_data.loss") = r7
  generalize ({ cs := done ++ c :: rest, i := (done.length : Int), name := name } : Ctx F).num (name ++ "_data.gain") = r8
  rcases r0 with e | b0
  · rfl
  cases b0
  · simp only [Bool.false_eq_true, if_false]
    cases b
    · simp only [Bool.false_eq_true, if_false]
      rcases r6 with e | v6
      · rfl
      simp only
      by_cases ht : v6.truthy = true
      · simp only [ht, if_true]
        rcases r7 with e | l
        · rfl
        simp only
        split
        · rfl
        · rcases r8 with e | g
          · rfl
          simp only
          rcases Num.truediv g l with e | rs
          · rfl
          simp only
          rcases Num.truediv _ _ with e | q <;> rfl
      · simp only [ht, Bool.false_eq_true, if_false]
    · simp only [if_true]
      rcases List.mapM _ _ with e | ch
      · rfl
      simp only
      rcases Num.truediv _ _ with e | g
      · rfl
      simp only
      rcases Num.truediv _ _ with e | l
      · rfl
      simp only
      split
      · rfl
      · rcases Num.truediv g l with e | rs
        · rfl
        simp only
        rcases Num.truediv _ _ with e | q <;> rfl
  · simp only [if_true]
    rcases r1 with e | v1
    · rfl
    rcases r2 with e | v2
    · rfl
    rcases r3 with e | v3
    · rfl
    simp only
    rcases Num.truediv _ _ with e | g
    · rfl
    rcases r4 with e | v4
    · rfl
    simp only
    rcases Num.truediv _ _ with e | l
    · rfl
    simp only
    split
    · rfl
    · rcases Num.truediv g l with e | rs
      · rfl
      simp only
      rcases Num.truediv _ _ with e | q <;> rfl

/-! ### the contract -/

theorem rsi_changes_trunc (x : Ctx F) (p : Int) (input : String) (h0 : 0 ≤ x.i) (hp : 0 ≤ p)
    (hrp : x.readingPeriod (p + 1) input = true) :
    ((pyRange (x.i - (p - 1)) (x.i + 1)).mapM fun i => do
        return (← x.trunc.num input (some i)).sub (← x.trunc.num input (some (i - 1))))
      = (pyRange (x.i - (p - 1)) (x.i + 1)).mapM fun i => do
        return (← x.num input (some i)).sub (← x.num input (some (i - 1))) := by
  have hb := readingPeriod_true_bound x.cs (p + 1) input x.i hrp
  apply Ana.mapM_congr
  intro j hj
  rw [Ana.mem_pyRange] at hj
  rw [Ctx.num_trunc x input j (by omega) (by omega), Ctx.num_trunc x input (j - 1) (by omega) (by omega)]

theorem rsiR_trunc (p : Int) (input : String) (x : Ctx F) (h0 : 0 ≤ x.i) (hi : x.i < x.cs.length)
    (hp : 0 ≤ p) : rsiR p input x.trunc = rsiR p input x := by
  unfold rsiR
  simp (config := { contextual := true }) only [Ctx.trunc_name, Ctx.trunc_i,
    Ctx.reading_trunc_cur x _ h0, Ctx.num_trunc_cur x _ h0, Ctx.prevExists_trunc x _ h0 hi,
    Ctx.prevNum_trunc x _ h0 hi, Ctx.readingPeriod_trunc x (p + 1) input h0 hi (by omega),
    rsi_changes_trunc x p input h0 hp]

theorem good_outD (name D : String) (hne : name ≠ D) (w : Val F) (d : Option (Val F)) (c : Candle F)
    (hc : Plain c) : dlookup D (outD name D w d c).inds = none := by
  obtain ⟨hi, _⟩ := hc
  cases d <;> simp [outD, setD, setKey, hi, dset, dlookup, hne]

theorem rsiR_stable (name : String) (hn : RsiNames name) (p : Int) (input : String)
    (h1 : Indep F name input) (h2 : Indep F (name ++ "_data") input)
    (done : List (Candle F)) (c : Candle F) (hc : Plain c) (d : Option (Val F)) (fin : PyM (Val F)) (w : Val F)
    (h : rsiR p input { cs := done ++ [c], i := done.length, name := name } = .ok (d, fin)) :
    rsiR p input { cs := done ++ [outD name (name ++ "_data") w d c], i := done.length, name := name }
      = .ok (d, fin) := by
  have hin := sameCol_outD name (name ++ "_data") input h1 h2 done c w d name
  have hpe : ∀ nm, ({ cs := done ++ [outD name (name ++ "_data") w d c], i := (done.length : Int), name := name } : Ctx F).prevExists nm
      = ({ cs := done ++ [c], i := (done.length : Int), name := name } : Ctx F).prevExists nm := by
    intro nm; rw [Ctx.prevExists_append_cons, Ctx.prevExists_append_cons]
  have hpn : ∀ nm, ({ cs := done ++ [outD name (name ++ "_data") w d c], i := (done.length : Int), name := name } : Ctx F).prevNum nm
      = ({ cs := done ++ [c], i := (done.length : Int), name := name } : Ctx F).prevNum nm := by
    intro nm; rw [Ctx.prevNum_append_cons, Ctx.prevNum_append_cons]
  unfold rsiR at h ⊢
  simp only [hpe, hpn, Ctx.num_congr hin, Ctx.readingPeriod_congr hin] at h ⊢
  cases hpx : ({ cs := done ++ [c], i := (done.length : Int), name := name } : Ctx F).prevExists name with
  | error e => rw [hpx] at h; cases h
  | ok b =>
    rw [hpx] at h
    cases b with
    | true => exact h
    | false =>
      simp only [bind, Except.bind, Bool.false_eq_true, if_false] at h ⊢
      by_cases hrp : ({ cs := done ++ [c], i := (done.length : Int), name := name } : Ctx F).readingPeriod (p + 1) input = true
      · simp only [hrp, if_true] at h ⊢
        exact h
      · simp only [hrp, Bool.false_eq_true, if_false] at h ⊢
        -- nothing was stored on the raw candle: the entry read back is `None`
        have hx : ({ cs := done ++ [c], i := (done.length : Int), name := name } : Ctx F).reading (name ++ "_data")
            = .ok .none := by
          rw [Ctx.reading_cur done c [] name, readingByCandle_plain _ hn.dkey c hc]
        rw [hx] at h
        simp only [Val.truthy, Scalar.truthy, Bool.false_eq_true, if_false, pure, Except.pure] at h
        have hd : d = some .none := by injection h with h'; injection h' with h1 _; exact h1.symm
        have hy : ({ cs := done ++ [outD name (name ++ "_data") w d c], i := (done.length : Int), name := name } : Ctx F).reading
            (name ++ "_data") = .ok .none := by
          rw [Ctx.reading_cur done _ [] name, hd, readingByCandle_key _ hn.dkey]
          obtain ⟨hi, hs⟩ := hc
          simp [lookupKey, outD, setD, setKey, hi, hs, dset, dlookup, hn.ne]
        rw [hy]
        simp only [Val.truthy, Scalar.truthy, Bool.false_eq_true, if_false, pure, Except.pure]
        exact h

/-- **RSI satisfies the data-node contract** (`period ≥ 0`; name conditions `RsiNames`; the input
does not see the node's two keys). -/
def rsiContract (ind : Ind F) (p : Int) (input : String) (hk : ind.kind = .rsi p input)
    (hp : 0 ≤ p) (hn : RsiNames ind.name) (h1 : Indep F ind.name input)
    (h2 : Indep F (ind.name ++ "_data") input) : DataContract ind (ind.name ++ "_data") where
  C := fun cs i => Calc.rsi (dOps (ind.name ++ "_data") i) { cs := cs, i := i, name := ind.name } p input
  R := rsiR p input
  Inv := fun _ => True
  inv_nil := trivial
  Good := fun c => dlookup (ind.name ++ "_data") c.inds = none
  good_plain := fun c hc => by rw [hc.1]; rfl
  fact := fun done c rest hg => rsi_fact ind.name hn p input done c rest hg
  local_ := by
    intro done c rest _ _
    rw [← trunc_append_cons done c rest]
    exact (rsiR_trunc p input _ (by simp) (by simp) hp).symm
  stable := fun done c d fin v _ hc h _ => rsiR_stable ind.name hn p input h1 h2 done c hc d fin _ h
  inv_step := fun done c d fin v _ hc _ _ => ⟨trivial, good_outD _ _ hn.ne _ d c hc⟩

theorem calcReading_rsi (ind : Ind F) (p : Int) (input D : String) (hk : ind.kind = .rsi p input)
    (hd : IsDataNode ind "RSI_data" D) (f : Nat) (cs : List (Candle F)) (i : Int) :
    calcReading (f + 3) ind cs i
      = Calc.rsi (dOps D i) { cs := cs, i := i, name := ind.name } p input := by
  rw [calcReading]
  unfold calcKind
  rw [hk]
  simp only
  unfold Calc.rsi
  simp only [setManaged_engine f ind "RSI_data" D hd, dOps]

/-- **RSI as a tree with a row-major spec.** -/
def rsiTree (name : String) (round : Nat) (p : Int) (input : String) (hp : 0 ≤ p)
    (hn : RsiNames name) (hin : NoDot input ∧ input ∈ Candle.attrNames) :
    TreeSpec (mkTop (.rsi p input : Kind F) name round) :=
  have hd := isDataNode_mkTop (.rsi p input : Kind F) name round "RSI_data" rfl
  have hnm : (mkTop (.rsi p input : Kind F) name round).name = name := mkTop_name _ _ _
  TreeSpec.ofData (D := (mkTop (.rsi p input : Kind F) name round).name ++ "_data")
    (rsiContract _ p input (mkTop_kind _ _ _) hp (by rw [hnm]; exact hn)
      (indep_attr _ input hin.1 hin.2) (indep_attr _ input hin.1 hin.2)) hd.subs hd.top
    (by rw [allNames_dataNode _ _ _ hd, hnm])
    (fun f cs i => calcReading_rsi _ p input _ (mkTop_kind _ _ _) (by rw [hnm]; exact hd) f cs i)

theorem rsiTree_full (name : String) (round : Nat) (p : Int) (input : String) (hp : 0 ≤ p)
    (hn : RsiNames name) (hin : NoDot input ∧ input ∈ Candle.attrNames) :
    (rsiTree (F := F) name round p input hp hn hin).Full := by
  have hd := isDataNode_mkTop (.rsi p input : Kind F) name round "RSI_data" rfl
  have hnm : (mkTop (.rsi p input : Kind F) name round).name = name := mkTop_name _ _ _
  refine ⟨?_, rfl⟩
  intro cs st _ _
  exact calculateIndex_with _ hd.subs _
    (fun f cs i => calcReading_rsi _ p input _ (mkTop_kind _ _ _) (by rw [hnm]; exact hd) f cs i) cs st

end Hex

import HexProofs.Framework.RowMajor
/-
The generic row-major layer.  A `StepSpec` is the complete effect of one calculation step at one
index for a whole indicator tree (all keys the tree writes on that candle); `StepLaw` is what the
framework needs from it: no look-ahead, writes confined to that candle, idempotent recomputation,
a reachable-state invariant.  Leaf indicators (one key) are the instance built from `Contract`;
composite trees (several keys per candle) are further instances.
-/
namespace Hex
set_option linter.unusedSectionVars false
variable {F : Type} [PyF F]

/-- the candle without any reading -/
def Candle.bare (c : Candle F) : Candle F := { c with inds := [], subs := [] }

theorem bare_of_plain (c : Candle F) (h : Plain c) : c.bare = c := by
  obtain ⟨hi, hs⟩ := h
  cases c; simp only at hi hs; subst hi; subst hs; rfl

namespace Gen

/-- one row-major step of an indicator tree -/
structure StepSpec (F : Type) [PyF F] where
  /-- the top node's own key: what `_find_calc_index` and the skip test look at -/
  name : String
  /-- every key the tree writes -/
  names : List String
  /-- compute and store everything the tree stores on the candle at this index -/
  step : List (Candle F) → Int → PyM (List (Candle F))

/-- `c'` is the raw candle `c` after a step: same OHLCV / stamp / tag / clean values, the own
key is there, and every entry is one of the tree's -/
structure Fin (S : StepSpec F) (c c' : Candle F) : Prop where
  bare : c'.bare = c.bare
  key : hasKey S.name c' = true
  inds : ∀ p ∈ c'.inds, p.1 ∈ S.names
  subs : ∀ p ∈ c'.subs, p.1 ∈ S.names

/-- what the framework needs from a step -/
structure StepLaw (S : StepSpec F) where
  Inv : List (Candle F) → Prop
  inv_nil : Inv []
  /-- the candles the step may meet at its index: raw ones and finished ones -/
  Good : Candle F → Prop
  good_plain : ∀ c, Plain c → Good c
  /-- no look-ahead: the step at `done.length` ignores (and keeps) everything after it -/
  local_ : ∀ (done : List (Candle F)) (c : Candle F) (rest : List (Candle F)), Inv done → Good c →
    S.step (done ++ c :: rest) done.length = (do let d ← S.step (done ++ [c]) done.length; pure (d ++ rest))
  /-- on a raw candle the step only rewrites that candle, produces a finished one and keeps the
  invariant -/
  shape : ∀ (done : List (Candle F)) (c : Candle F) (d : List (Candle F)), Inv done → Plain c →
    S.step (done ++ [c]) done.length = .ok d → ∃ c', d = done ++ [c'] ∧ Fin S c c' ∧ Inv d ∧ Good c'
  /-- recomputing a finished candle reproduces it -/
  idem : ∀ (done : List (Candle F)) (c c' : Candle F), Inv done → Plain c →
    S.step (done ++ [c]) done.length = .ok (done ++ [c']) →
    S.step (done ++ [c']) done.length = .ok (done ++ [c'])

variable (S : StepSpec F)

def rowStep (done : List (Candle F)) (c : Candle F) : PyM (List (Candle F)) :=
  S.step (done ++ [c]) done.length

def rowMajorFrom (done raw : List (Candle F)) : PyM (List (Candle F)) := raw.foldlM (rowStep S) done

/-- **The row-major spec** of a tree over a raw stream. -/
def rowMajor (raw : List (Candle F)) : PyM (List (Candle F)) := rowMajorFrom S [] raw

theorem rowMajorFrom_nil (done : List (Candle F)) : rowMajorFrom S done [] = .ok done := rfl

theorem rowMajorFrom_cons (done : List (Candle F)) (c : Candle F) (rest : List (Candle F)) :
    rowMajorFrom S done (c :: rest) = (do let d ← rowStep S done c; rowMajorFrom S d rest) := by
  simp [rowMajorFrom, List.foldlM_cons]

theorem rowMajorFrom_append (done a b : List (Candle F)) :
    rowMajorFrom S done (a ++ b) = (do let d ← rowMajorFrom S done a; rowMajorFrom S d b) := by
  simp [rowMajorFrom, List.foldlM_append]

theorem rowMajor_append (a b : List (Candle F)) :
    rowMajor S (a ++ b) = (do let d ← rowMajor S a; rowMajorFrom S d b) := rowMajorFrom_append S [] a b

/-- finished lists: elementwise `Fin` -/
def Decor (raw out : List (Candle F)) : Prop := List.Forall₂ (Fin S) raw out

variable {S}

theorem rowStep_ok (L : StepLaw S) (done : List (Candle F)) (c : Candle F) (d : List (Candle F))
    (hinv : L.Inv done) (hc : Plain c) (h : rowStep S done c = .ok d) :
    ∃ c', d = done ++ [c'] ∧ Fin S c c' ∧ L.Inv d := by
  obtain ⟨c', hd, hf, hi, _⟩ := L.shape done c d hinv hc h
  exact ⟨c', hd, hf, hi⟩

theorem rowMajorFrom_shape (L : StepLaw S) (raw : List (Candle F)) :
    ∀ (done out : List (Candle F)), L.Inv done → (∀ c ∈ raw, Plain c) → rowMajorFrom S done raw = .ok out →
      ∃ tail, out = done ++ tail ∧ Decor S raw tail ∧ L.Inv out := by
  induction raw with
  | nil =>
    intro done out hinv _ h
    rw [rowMajorFrom_nil] at h
    cases h
    exact ⟨[], by simp, List.Forall₂.nil, hinv⟩
  | cons c rest ih =>
    intro done out hinv hp h
    rw [rowMajorFrom_cons] at h
    cases hs : rowStep S done c with
    | error e => rw [hs] at h; cases h
    | ok d =>
      rw [hs] at h
      obtain ⟨c', rfl, hf, hi⟩ := rowStep_ok L done c d hinv (hp c (by simp)) hs
      obtain ⟨tail, ht, hdec, hio⟩ := ih _ out hi (fun x hx => hp x (by simp [hx])) h
      exact ⟨c' :: tail, by rw [ht]; simp, List.Forall₂.cons hf hdec, hio⟩

theorem rowMajor_shape (L : StepLaw S) (raw out : List (Candle F)) (hp : ∀ c ∈ raw, Plain c)
    (h : rowMajor S raw = .ok out) : Decor S raw out ∧ L.Inv out := by
  obtain ⟨tail, ht, hd, hi⟩ := rowMajorFrom_shape L raw [] out L.inv_nil hp h
  simp only [List.nil_append] at ht
  subst ht
  exact ⟨hd, hi⟩

theorem Decor.length_eq {raw out : List (Candle F)} (h : Decor S raw out) : raw.length = out.length := by
  induction h with
  | nil => rfl
  | cons _ _ ih => simp [ih]

theorem Decor.hasKey {raw out : List (Candle F)} (h : Decor S raw out) :
    ∀ d ∈ out, hasKey S.name d = true := by
  induction h with
  | nil => intro d hd; cases hd
  | cons hcd _ ih =>
    intro d hd
    rcases List.mem_cons.1 hd with rfl | hd
    · exact hcd.key
    · exact ih d hd

theorem rowMajor_split (a b out : List (Candle F)) (h : rowMajor S (a ++ b) = .ok out) :
    ∃ mid, rowMajor S a = .ok mid ∧ rowMajorFrom S mid b = .ok out := by
  rw [rowMajor_append] at h
  cases ha : rowMajor S a with
  | error e => rw [ha] at h; cases h
  | ok mid => rw [ha] at h; exact ⟨mid, rfl, h⟩

/-- a longer stream only extends the run of a shorter one -/
theorem rowMajor_prefix (L : StepLaw S) (a b d₂ : List (Candle F)) (hp : ∀ c ∈ a ++ b, Plain c)
    (h : rowMajor S (a ++ b) = .ok d₂) :
    ∃ d₁, rowMajor S a = .ok d₁ ∧ d₁ <+: d₂ ∧ d₁.length = a.length := by
  obtain ⟨mid, hm, hr⟩ := rowMajor_split a b d₂ h
  obtain ⟨hd, hi⟩ := rowMajor_shape L a mid (fun c hc => hp c (by simp [hc])) hm
  obtain ⟨tail, ht, _, _⟩ := rowMajorFrom_shape L b mid d₂ hi (fun c hc => hp c (by simp [hc])) hr
  exact ⟨mid, hm, ⟨tail, ht.symm⟩, hd.length_eq.symm⟩

theorem rowMajor_take (L : StepLaw S) (raw out : List (Candle F)) (hp : ∀ c ∈ raw, Plain c)
    (h : rowMajor S raw = .ok out) (k : Nat) : rowMajor S (raw.take k) = .ok (out.take k) := by
  have hsplit : rowMajor S (raw.take k ++ raw.drop k) = .ok out := by rw [List.take_append_drop]; exact h
  obtain ⟨d₁, h₁, ⟨tail, ht⟩, hl⟩ := rowMajor_prefix L _ _ out (by rw [List.take_append_drop]; exact hp) hsplit
  have hlen : out.length = raw.length := (rowMajor_shape L raw out hp h).1.length_eq.symm
  rw [h₁]
  congr 1
  by_cases hk : k ≤ raw.length
  · have : d₁.length = k := by rw [hl, List.length_take]; omega
    rw [← ht, List.take_append_of_le_length (by omega), List.take_of_length_le (by omega)]
  · have htl : tail = [] := by
      have : (d₁ ++ tail).length = out.length := by rw [ht]
      rw [List.length_append, hl, List.length_take, hlen] at this
      exact List.eq_nil_of_length_eq_zero (by omega)
    rw [← ht, htl, List.append_nil, List.take_of_length_le]
    rw [hl, List.length_take]; omega

/-! ### the loop of `calculate` over the raw part -/

/-- `for index in range(k, k+n)`: skip candles holding a non-`None` own reading, else step -/
def nodeLoop (S : StepSpec F) : List (Candle F) → Nat → Nat → PyM (List (Candle F))
  | cs, _, 0 => .ok cs
  | cs, k, n+1 => do
    let c ← pyIndex cs k
    let cs ← if present S.name c then pure cs else S.step cs k
    nodeLoop S cs (k + 1) n

/-- `calculate()` of a tree whose only loop is the top node's -/
def nodeCalc (S : StepSpec F) (cs : List (Candle F)) : PyM (List (Candle F)) :=
  nodeLoop S cs (findCalcIndex S.name cs) (cs.length - findCalcIndex S.name cs)

theorem nodeLoop_fresh (L : StepLaw S) (fresh : List (Candle F)) :
    ∀ (done : List (Candle F)), L.Inv done → (∀ c ∈ fresh, Plain c) →
      nodeLoop S (done ++ fresh) done.length fresh.length = rowMajorFrom S done fresh := by
  induction fresh with
  | nil => intro done _ _; simp [nodeLoop, rowMajorFrom_nil]
  | cons c rest ih =>
    intro done hinv hp
    have hc : Plain c := hp c (by simp)
    rw [List.length_cons, nodeLoop, pyIndex_append_cons, rowMajorFrom_cons]
    simp only [bind, Except.bind, present_plain S.name c hc, Bool.false_eq_true, if_false]
    rw [L.local_ done c rest hinv (L.good_plain c hc)]
    have hrs : S.step (done ++ [c]) done.length = rowStep S done c := rfl
    rw [hrs]
    cases hs : rowStep S done c with
    | error e => rfl
    | ok d =>
      simp only [bind, Except.bind, pure, Except.pure]
      obtain ⟨c', rfl, _, hinv'⟩ := rowStep_ok L done c d hinv hc hs
      have := ih (done ++ [c']) hinv' (fun x hx => hp x (by simp [hx]))
      simpa using this

/-- **The single-loop engine resumes correctly** (equality in `PyM`). -/
theorem nodeCalc_refines (L : StepLaw S) (raw₁ raw₂ done : List (Candle F))
    (h₁ : rowMajor S raw₁ = .ok done) (hp₁ : ∀ c ∈ raw₁, Plain c) (hp₂ : ∀ c ∈ raw₂, Plain c) :
    nodeCalc S (done ++ raw₂) = rowMajor S (raw₁ ++ raw₂) := by
  rw [rowMajor_append, h₁]
  simp only [bind, Except.bind]
  obtain ⟨hdec, hinv⟩ := rowMajor_shape L raw₁ done hp₁ h₁
  have hidx := findCalcIndex_split S.name done raw₂ hdec.hasKey
    (fun c hc => hasKey_plain S.name c (hp₂ c hc))
  unfold nodeCalc
  rw [hidx]
  have : (done ++ raw₂).length - done.length = raw₂.length := by simp
  rw [this]
  exact nodeLoop_fresh L raw₂ done hinv hp₂

end Gen
end Hex

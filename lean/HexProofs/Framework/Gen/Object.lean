import HexProofs.Framework.Gen.Manager
/-
The generic object layer: a tree with a row-major spec (`TreeSpec`) on a manager whose tasks
refine a spec incrementally (`MgrSpec`: base timeframe, collapsing timeframe, timeframe + fill).
Construction + `calculate()` + any appends end with the row-major run over the manager spec of
the whole stream, whenever the history runs.
-/
namespace Hex
set_option linter.unusedSectionVars false
variable {F : Type} [PyF F]

/-! ### the engine as the object runs it -/

/-- `Indicator.calculate()` with the fuel the object passes -/
def engineCalc (ind : Ind F) (cs : List (Candle F)) : PyM (List (Candle F)) :=
  calculate (fuelFor cs + 1) ind cs

theorem calculate_succ (f : Nat) (ind : Ind F) (cs : List (Candle F)) :
    calculate (f + 1) ind cs = (do
      let cs ← calcSubs f ind.subs true none cs
      let cs ← calcLoop f ind cs (findCalcIndex ind.name cs) (cs.length - findCalcIndex ind.name cs)
      calcSubs f ind.subs false none cs) := by
  rw [calculate]

theorem IndState.calculate_engine (s : IndState F) :
    candlesOf s.calculate = engineCalc s.tree s.mgr.candles := by
  unfold IndState.calculate engineCalc candlesOf
  rw [calculate_succ]
  simp only [bind, Except.bind]
  cases calcSubs (fuelFor s.mgr.candles) s.tree.subs true none s.mgr.candles with
  | error e => rfl
  | ok cs1 =>
    simp only
    cases calcLoop (fuelFor s.mgr.candles) s.tree cs1 (findCalcIndex s.tree.name cs1)
        (cs1.length - findCalcIndex s.tree.name cs1) with
    | error e => rfl
    | ok cs2 =>
      simp only
      cases calcSubs (fuelFor s.mgr.candles) s.tree.subs false none cs2 <;> rfl

theorem IndState.calculate_ok_frame (s s' : IndState F) (h : s.calculate = .ok s') :
    s'.tree = s.tree ∧ s'.mgr.cfg = s.mgr.cfg := by
  unfold IndState.calculate at h
  simp only [bind, Except.bind] at h
  cases h1 : calcSubs (fuelFor s.mgr.candles) s.tree.subs true none s.mgr.candles with
  | error e => rw [h1] at h; cases h
  | ok cs1 =>
    rw [h1] at h; simp only at h
    cases h2 : calcLoop (fuelFor s.mgr.candles) s.tree cs1 (findCalcIndex s.tree.name cs1)
        (cs1.length - findCalcIndex s.tree.name cs1) with
    | error e => rw [h2] at h; cases h
    | ok cs2 =>
      rw [h2] at h; simp only at h
      cases h3 : calcSubs (fuelFor s.mgr.candles) s.tree.subs false none cs2 with
      | error e => rw [h3] at h; cases h
      | ok cs3 =>
        rw [h3] at h
        simp only [pure, Except.pure] at h
        cases h
        exact ⟨rfl, rfl⟩

/-- a successful `calculate()` of the object, in terms of the engine -/
theorem IndState.calculate_ok_engine (s s' : IndState F) (h : s.calculate = .ok s') :
    s'.tree = s.tree ∧ s'.mgr.cfg = s.mgr.cfg ∧ engineCalc s.tree s.mgr.candles = .ok s'.mgr.candles := by
  obtain ⟨ht, hc⟩ := IndState.calculate_ok_frame s s' h
  refine ⟨ht, hc, ?_⟩
  rw [← IndState.calculate_engine, h]; rfl

theorem IndState.calculate_of_engine (s : IndState F) (out : List (Candle F))
    (h : engineCalc s.tree s.mgr.candles = .ok out) : ∃ s', s.calculate = .ok s' ∧ s'.mgr.candles = out := by
  rw [← IndState.calculate_engine] at h
  cases hc : s.calculate with
  | error e => rw [hc] at h; cases h
  | ok s' => rw [hc] at h; exact ⟨s', rfl, by simpa [candlesOf, Except.map] using h⟩

/-! ### trees with a row-major spec -/

/-- **A tree refines a row-major spec**: the engine's `calculate()` on a finished prefix followed
by raw candles returns iff the row-major run over the longer stream does, with the same candles.
(For trees with sub-indicators the engine is column-major, so when a reading raises the two may
raise different exceptions; hence "returns iff".) -/
structure TreeSpec (ind : Ind F) where
  S : Gen.StepSpec F
  law : Gen.StepLaw S
  names_eq : S.names = ind.allNames
  engine : ∀ (raw₁ raw₂ done out : List (Candle F)), Gen.rowMajor S raw₁ = .ok done →
    (∀ c ∈ raw₁, Plain c) → (∀ c ∈ raw₂, Plain c) →
    (engineCalc ind (done ++ raw₂) = .ok out ↔ Gen.rowMajor S (raw₁ ++ raw₂) = .ok out)

/-! ### managers with an incremental spec -/

/-- a manager configuration whose tasks refine `spec` on construction and on every append, keeping
all old candles but possibly the last and appending raw ones -/
structure MgrSpec (F : Type) [PyF F] where
  cfg : MgrCfg
  Ok : List (Candle F) → Prop
  spec : List (Candle F) → List (Candle F)
  ok_left : ∀ a b, Ok (a ++ b) → Ok a
  spec_plain : ∀ s, Ok s → ∀ c ∈ spec s, Plain c
  init : ∀ s, Ok s → tasks cfg s = .ok (spec s)
  append : ∀ s new done, Ok (s ++ new) → new ≠ [] → Dressed (spec s) done →
    ∃ (k : Nat) (Q : List (Candle F)), (∀ c ∈ Q, Plain c) ∧ done.length ≤ k + 1 ∧
      tasks cfg (done ++ new) = .ok (done.take k ++ Q) ∧ spec (s ++ new) = (spec s).take k ++ Q

/-- base timeframe: the manager just stores the candles -/
def MgrSpec.base (F : Type) [PyF F] : MgrSpec F where
  cfg := {}
  Ok := fun s => ∀ c ∈ s, Plain c
  spec := id
  ok_left := fun a b h c hc => h c (by simp [hc])
  spec_plain := fun s h => h
  init := fun s _ => tasks_default s
  append := fun s new done hok _ hd =>
    ⟨done.length, new, fun c hc => hok c (by simp [hc]), by omega,
      by simp [tasks_default], by
        have := hd.length_eq
        simp only [id] at this ⊢
        rw [← this, List.take_length]⟩

/-- collapsing timeframe -/
def MgrSpec.tf (F : Type) [PyF F] (tf : Int) (htf : 0 < tf) : MgrSpec F where
  cfg := cfgTf tf
  Ok := RawTf
  spec := resample tf
  ok_left := fun a b h => h.append_left
  spec_plain := fun s h => resample_plain tf s h.plain
  init := fun s h => tasks_tf_raw tf htf s h
  append := fun s new done hok _ hd => tasks_tf_dressed tf htf s new done hok hd

/-- collapsing timeframe with gap filling -/
def MgrSpec.fill (F : Type) [PyF F] (tf : Int) (htf : 0 < tf) : MgrSpec F where
  cfg := cfgFill tf
  Ok := RawTf
  spec := fillSpec tf
  ok_left := fun a b h => h.append_left
  spec_plain := fun s h => by
    obtain ⟨Z, hZ⟩ := filledOf tf htf s h
    rw [hZ.spec_eq]; exact hZ.plain
  init := fun s h => by
    obtain ⟨Z, hZ⟩ := filledOf tf htf s h
    rw [hZ.spec_eq]; exact tasks_fill_raw tf htf s Z h hZ
  append := fun s new done hok _ hd => by
    obtain ⟨Z, hZ⟩ := filledOf tf htf s (hok.append_left)
    rw [hZ.spec_eq] at hd
    obtain ⟨k, T, Z', hT, hk, ht, hZ', hres⟩ := tasks_fill_dressed tf htf s new Z done hok hZ hd
    exact ⟨k, T, hT, hk, ht, by rw [hZ'.spec_eq, hZ.spec_eq]; exact hres⟩

/-! ### the refinement -/

variable {ind : Ind F}

/-- the object's `calculate()` on `done ++ raw₂`, when it returns -/
theorem TreeSpec.calculate_ok (T : TreeSpec ind) (cfg : MgrCfg) (raw₁ raw₂ done : List (Candle F)) (a : Int)
    (h₁ : Gen.rowMajor T.S raw₁ = .ok done) (hp₁ : ∀ c ∈ raw₁, Plain c) (hp₂ : ∀ c ∈ raw₂, Plain c)
    (s' : IndState F)
    (h : IndState.calculate ({ tree := ind, mgr := { cfg := cfg, candles := done ++ raw₂ }, active := a } : IndState F)
      = .ok s') :
    ∃ out a', s' = { tree := ind, mgr := { cfg := cfg, candles := out }, active := a' } ∧
      Gen.rowMajor T.S (raw₁ ++ raw₂) = .ok out := by
  obtain ⟨ht, hc, he⟩ := IndState.calculate_ok_engine _ s' h
  simp only at ht hc he
  refine ⟨s'.mgr.candles, s'.active, ?_, (T.engine raw₁ raw₂ done _ h₁ hp₁ hp₂).1 he⟩
  obtain ⟨tree, ⟨cfg', cs⟩, act⟩ := s'
  simp only at ht hc
  subst ht; subst hc; rfl

theorem TreeSpec.appends_refine (T : TreeSpec ind) (M : MgrSpec F) (chunks : List (List (Candle F))) :
    ∀ (s done : List (Candle F)) (a : Int), Gen.rowMajor T.S (M.spec s) = .ok done →
      M.Ok (s ++ chunks.flatten) → ∀ snap,
      candlesOf (chunks.foldlM (fun (st : IndState F) ch => st.append ch)
          { tree := ind, mgr := { cfg := M.cfg, candles := done }, active := a }) = .ok snap →
      Gen.rowMajor T.S (M.spec (s ++ chunks.flatten)) = .ok snap := by
  induction chunks with
  | nil =>
    intro s done a h _ snap hsnap
    simp only [candlesOf, List.foldlM_nil, pure, Except.pure, Except.map] at hsnap
    cases hsnap
    simpa using h
  | cons ch rest ih =>
    intro s done a h hok snap hsnap
    have hok' : M.Ok ((s ++ ch) ++ rest.flatten) := by simpa [List.append_assoc] using hok
    have hsch : M.Ok (s ++ ch) := M.ok_left _ _ hok'
    have hplainS : ∀ c ∈ M.spec s, Plain c := M.spec_plain s (M.ok_left _ _ hsch)
    simp only [List.foldlM_cons, List.flatten_cons] at hsnap ⊢
    have key : ∃ (raw₁ raw₂ d₁ : List (Candle F)), Gen.rowMajor T.S raw₁ = .ok d₁ ∧
        (∀ c ∈ raw₁, Plain c) ∧ (∀ c ∈ raw₂, Plain c) ∧ raw₁ ++ raw₂ = M.spec (s ++ ch) ∧
        IndState.append ({ tree := ind, mgr := { cfg := M.cfg, candles := done }, active := a } : IndState F) ch
          = IndState.calculate { tree := ind, mgr := { cfg := M.cfg, candles := d₁ ++ raw₂ }, active := a } := by
      by_cases hch : ch = []
      · subst hch
        refine ⟨M.spec s, [], done, h, hplainS, by simp, by simp, ?_⟩
        simp [IndState.append, Manager.append, bind, Except.bind]
      · obtain ⟨k, Q, hQ, _, ht, hres⟩ := M.append s ch done hsch hch
          (Gen.rowMajor_shape T.law _ done hplainS h).1.dressed
        refine ⟨(M.spec s).take k, Q, done.take k, Gen.rowMajor_take T.law _ done hplainS h k,
          fun c hc => hplainS c (List.mem_of_mem_take hc), hQ, hres.symm, ?_⟩
        have hne : ch.isEmpty = false := by cases ch <;> simp at hch ⊢
        simp only [IndState.append, Manager.append, hne, Bool.false_eq_true, if_false, ht, bind, Except.bind]
        rfl
    obtain ⟨raw₁, raw₂, d₁, hr₁, hp₁, hp₂, hsplit, happ⟩ := key
    rw [happ] at hsnap
    rw [← List.append_assoc]
    cases hc : IndState.calculate ({ tree := ind, mgr := { cfg := M.cfg, candles := d₁ ++ raw₂ }, active := a } : IndState F) with
    | error e => rw [hc] at hsnap; cases hsnap
    | ok s' =>
      obtain ⟨out, a', rfl, hr⟩ := T.calculate_ok M.cfg raw₁ raw₂ d₁ a hr₁ hp₁ hp₂ s' hc
      rw [hsplit] at hr
      rw [hc] at hsnap
      simp only [bind, Except.bind] at hsnap
      exact ih (s ++ ch) out a' hr hok' snap hsnap

/-- **Generic framework refinement.**  Whenever the live history (construction over `init`,
`calculate()`, any appends) returns, its candles are the row-major run of the tree over the
manager spec of the whole stream. -/
theorem TreeSpec.live_refines (T : TreeSpec ind) (M : MgrSpec F) (init : List (Candle F))
    (chunks : List (List (Candle F))) (hok : M.Ok (init ++ chunks.flatten)) (snap : List (Candle F))
    (hsnap : candlesOf (runIndicator ind M.cfg init chunks) = .ok snap) :
    Gen.rowMajor T.S (M.spec (init ++ chunks.flatten)) = .ok snap := by
  have hinit : M.Ok init := M.ok_left _ _ hok
  unfold runIndicator IndState.init Manager.init at hsnap
  rw [M.init init hinit] at hsnap
  simp only [bind, Except.bind, pure, Except.pure] at hsnap
  have h0 : Gen.rowMajor T.S ([] : List (Candle F)) = .ok [] := rfl
  cases hc : IndState.calculate ({ tree := ind, mgr := { cfg := M.cfg, candles := M.spec init } } : IndState F) with
  | error e => rw [hc] at hsnap; cases hsnap
  | ok s' =>
    have hc' : IndState.calculate ({ tree := ind, mgr := { cfg := M.cfg, candles := [] ++ M.spec init }, active := 0 } : IndState F)
        = .ok s' := by simpa using hc
    obtain ⟨out, a', rfl, hr⟩ := T.calculate_ok M.cfg [] (M.spec init) [] 0 h0 (by simp)
      (M.spec_plain init hinit) s' hc'
    simp only [List.nil_append] at hr
    rw [hc] at hsnap
    simp only [bind, Except.bind] at hsnap
    exact T.appends_refine M chunks init out a' hr hok snap hsnap

/-- the batch run returns iff the row-major run over the manager spec does, with the same candles -/
theorem TreeSpec.batch_iff (T : TreeSpec ind) (M : MgrSpec F) (stream : List (Candle F))
    (hok : M.Ok stream) (out : List (Candle F)) :
    candlesOf (runIndicator ind M.cfg stream []) = .ok out ↔ Gen.rowMajor T.S (M.spec stream) = .ok out := by
  constructor
  · intro h
    have := T.live_refines M stream [] (by simpa using hok) out h
    simpa using this
  · intro h
    unfold runIndicator IndState.init Manager.init
    rw [M.init stream hok]
    simp only [bind, Except.bind, pure, Except.pure, List.foldlM_nil]
    have h0 : Gen.rowMajor T.S ([] : List (Candle F)) = .ok [] := rfl
    have he := (T.engine [] (M.spec stream) [] out h0 (by simp) (M.spec_plain stream hok)).2 (by simpa using h)
    obtain ⟨s', hs', hcs⟩ := IndState.calculate_of_engine
      ({ tree := ind, mgr := { cfg := M.cfg, candles := M.spec stream } } : IndState F) out (by simpa using he)
    rw [hs']
    simp [candlesOf, Except.map, hcs]

/-- **Schedule independence, generic**: if the live history returns, the batch run over the whole
stream returns the same candles. -/
theorem TreeSpec.live_eq_batch (T : TreeSpec ind) (M : MgrSpec F) (init : List (Candle F))
    (chunks : List (List (Candle F))) (hok : M.Ok (init ++ chunks.flatten)) (snap : List (Candle F))
    (hsnap : candlesOf (runIndicator ind M.cfg init chunks) = .ok snap) :
    candlesOf (runIndicator ind M.cfg (init ++ chunks.flatten) []) = .ok snap :=
  (T.batch_iff M _ hok snap).2 (T.live_refines M init chunks hok snap hsnap)

/-- **Closed candles are final, generic**: all candles of the earlier snapshot but the last are a
prefix of the later snapshot. -/
theorem TreeSpec.closed_prefix (T : TreeSpec ind) (M : MgrSpec F) (s new snap₁ snap₂ : List (Candle F))
    (hok : M.Ok (s ++ new)) (h₁ : Gen.rowMajor T.S (M.spec s) = .ok snap₁)
    (h₂ : Gen.rowMajor T.S (M.spec (s ++ new)) = .ok snap₂) : snap₁.dropLast <+: snap₂ := by
  have hplainS := M.spec_plain s (M.ok_left _ _ hok)
  by_cases hnew : new = []
  · subst hnew
    simp only [List.append_nil] at h₂
    rw [h₁] at h₂; cases h₂
    exact List.dropLast_prefix _
  · obtain ⟨k, Q, hQ, hk, _, hres⟩ := M.append s new snap₁ hok hnew
      (Gen.rowMajor_shape T.law _ snap₁ hplainS h₁).1.dressed
    rw [hres] at h₂
    obtain ⟨d, hd, hpre, _⟩ := Gen.rowMajor_prefix T.law _ _ snap₂
      (fun c hc => by
        rcases List.mem_append.1 hc with h | h
        · exact hplainS c (List.mem_of_mem_take h)
        · exact hQ c h) h₂
    have hd' := Gen.rowMajor_take T.law _ snap₁ hplainS h₁ k
    rw [hd'] at hd
    cases hd
    refine List.IsPrefix.trans ?_ hpre
    rw [List.dropLast_eq_take]
    have : List.take (snap₁.length - 1) snap₁ = List.take (snap₁.length - 1) (List.take k snap₁) := by
      rw [List.take_take]; congr 1; omega
    rw [this]
    exact List.take_prefix _ _

end Hex

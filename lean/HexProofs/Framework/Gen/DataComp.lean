import HexProofs.Framework.Gen.KC
/-
A data-series node (own reading + `<name>_data` entry, e.g. the STDEV helper of BBANDS and
STDEVTHRES) as a tolerant component.
-/
namespace Hex
set_option linter.unusedSectionVars false
variable {F : Type} [PyF F]

/-- the finished candle of a data piece: data entry in `.sub_indicators`, own reading where `isSub` says -/
def outDS (isSub : Bool) (name D : String) (w : Val F) (d : Option (Val F)) (c : Candle F) : Candle F :=
  setKey isSub name w (setD D d c)

/-- the tolerant contract of a data piece -/
structure TDataContract (Z : Ind F) (D : String) where
  C : List (Candle F) → Int → PyM (Val F × List (Candle F))
  R : Ctx F → PyM (Option (Val F) × PyM (Val F))
  rkeys : List String
  fact : ∀ (H : List (Candle F)) (c : Candle F) (rest : List (Candle F)), dlookup D c.inds = none →
    C (H ++ c :: rest) H.length = rwCalc D R Z.name (H ++ c :: rest) H.length
  loc : ∀ (H : List (Candle F)) (c : Candle F) (rest : List (Candle F)),
    R { cs := H ++ c :: rest, i := H.length, name := Z.name } = R { cs := H ++ [c], i := H.length, name := Z.name }
  val_sim : ∀ (H H' : List (Candle F)) (c c' : Candle F), SimL (Z.name :: D :: rkeys) H H' →
    SimK (Z.name :: D :: rkeys) c c' →
    R { cs := H ++ [c], i := H.length, name := Z.name } = R { cs := H' ++ [c'], i := H'.length, name := Z.name }
  stable : ∀ (H : List (Candle F)) (c : Candle F) (w : Val F) (d : Option (Val F)),
    R { cs := H ++ [outDS Z.isSub Z.name D w d c], i := H.length, name := Z.name }
      = R { cs := H ++ [c], i := H.length, name := Z.name }

/-- the component of a data piece -/
def dataComp (Z : Ind F) (D : String) (K : TDataContract Z D) : TComp F where
  name := Z.name
  ω := Option (Val F) × Val F
  val := fun H c => do
    let (d, fin) ← K.R { cs := H ++ [c], i := H.length, name := Z.name }
    let v ← fin
    pure (d, v)
  app := fun z c => outDS Z.isSub Z.name D (z.2.roundBy Z.round) z.1 c
  rkeys := Z.name :: D :: K.rkeys
  wkeys := [Z.name, D]
  Raw := fun c => hasKey Z.name c = false ∧ hasKey D c = false
  Settled := fun H => ∀ d ∈ H, hasKey Z.name d = true
  pass := Gen.nodeCalc (specWith Z K.C)

theorem frameK_setD (D : String) (d : Option (Val F)) (c : Candle F) : FrameK [D] c (setD D d c) := by
  cases d with
  | none => exact ⟨rfl, fun _ _ => ⟨rfl, rfl⟩⟩
  | some dv => exact frameK_setKey true D dv c

theorem simK_setD (keys : List String) (D : String) (d : Option (Val F)) (c c' : Candle F)
    (h : SimK keys c c') : SimK keys (setD D d c) (setD D d c') := by
  cases d with
  | none => exact h
  | some dv => exact simK_setKey keys true D dv c c' h

theorem stepWith_dataT (Z : Ind F) (D : String) (K : TDataContract Z D) (H : List (Candle F))
    (c : Candle F) (rest : List (Candle F)) (hg : dlookup D c.inds = none) :
    stepWith Z K.C (H ++ c :: rest) H.length = (do
      let z ← (dataComp Z D K).val H c
      pure (H ++ (dataComp Z D K).app z c :: rest)) := by
  unfold stepWith
  rw [K.fact H c rest hg]
  unfold rwCalc
  rw [K.loc H c rest]
  show _ = (do
    let z ← (do
      let (d, fin) ← K.R { cs := H ++ [c], i := H.length, name := Z.name }
      let v ← fin
      pure (d, v))
    pure (H ++ outDS Z.isSub Z.name D (z.2.roundBy Z.round) z.1 c :: rest))
  cases K.R { cs := H ++ [c], i := H.length, name := Z.name } with
  | error e => rfl
  | ok r =>
    obtain ⟨d, fin⟩ := r
    cases d with
    | none =>
      cases fin with
      | error e => rfl
      | ok v =>
        simp only [bind, Except.bind, pure, Except.pure, setReading_eq, updateAt_append_cons]
        rfl
    | some dv =>
      cases fin with
      | error e =>
        simp only [bind, Except.bind, pure, Except.pure, setReading_eq, updateAt_append_cons]
      | ok v =>
        simp only [bind, Except.bind, pure, Except.pure, setReading_eq, updateAt_append_cons]
        rfl

theorem present_of_noKey (name : String) (c : Candle F) (h : hasKey name c = false) : present name c = false := by
  unfold hasKey dhas at h
  unfold present
  cases hl : dlookup name c.inds with
  | none => rfl
  | some v => simp [hl] at h

theorem inds_of_noKey (name : String) (c : Candle F) (h : hasKey name c = false) : dlookup name c.inds = none := by
  unfold hasKey dhas at h
  cases hl : dlookup name c.inds with
  | none => rfl
  | some v => simp [hl] at h

theorem nodeLoop_runD (Z : Ind F) (D : String) (K : TDataContract Z D) (R : List (Candle F)) :
    ∀ (H : List (Candle F)), (∀ r ∈ R, (dataComp Z D K).Raw r) →
      Gen.nodeLoop (specWith Z K.C) (H ++ R) H.length R.length = (dataComp Z D K).rowFrom H R := by
  induction R with
  | nil => intro H _; simp [Gen.nodeLoop, TComp.rowFrom_nil]
  | cons r R' ih =>
    intro H hp
    have hr := hp r (by simp)
    have hrs : (dataComp Z D K).rowStep H r = (do
        let z ← (dataComp Z D K).val H r; pure (H ++ [(dataComp Z D K).app z r])) := rfl
    rw [List.length_cons, Gen.nodeLoop, pyIndex_append_cons, TComp.rowFrom_cons, hrs]
    have hpres : present (specWith Z K.C).name r = false := present_of_noKey _ r hr.1
    simp only [bind, Except.bind, hpres, Bool.false_eq_true, if_false]
    have hstep : (specWith Z K.C).step (H ++ r :: R') H.length = (do
        let z ← (dataComp Z D K).val H r
        pure (H ++ (dataComp Z D K).app z r :: R')) :=
      stepWith_dataT Z D K H r R' (inds_of_noKey D r hr.2)
    rw [hstep]
    cases hv : (dataComp Z D K).val H r with
    | error e => rfl
    | ok z =>
      simp only [bind, Except.bind, pure, Except.pure]
      have := ih (H ++ [(dataComp Z D K).app z r]) (fun x hx => hp x (by simp [hx]))
      simpa using this

theorem dataComp_law (Z : Ind F) (D : String) (K : TDataContract Z D) (hne : Z.name ≠ D) :
    TComp.Law (dataComp Z D K) where
  name_w := by simp [dataComp]
  app_frame := by
    intro z c
    refine ⟨by simp [dataComp, outDS, bare_setKey, (frameK_setD D z.1 c).1], ?_⟩
    intro k hk
    have hk1 : k ∉ [Z.name] := fun h => hk (by simp at h; simp [dataComp, h])
    have hk2 : k ∉ [D] := fun h => hk (by simp at h; simp [dataComp, h])
    have f1 := (frameK_setKey Z.isSub Z.name (z.2.roundBy Z.round) (setD D z.1 c)).2 k hk1
    have f2 := (frameK_setD D z.1 c).2 k hk2
    exact ⟨f1.1.trans f2.1, f1.2.trans f2.2⟩
  app_key := fun z c => hasKey_setKey _ _ _ _
  app_entries := by
    intro z c
    have hD : ∀ (d : Option (Val F)), (∀ p ∈ (setD D d c).inds, p ∈ c.inds) ∧
        (∀ p ∈ (setD D d c).subs, p ∈ c.subs ∨ p.1 = D) := by
      intro d
      cases d with
      | none => exact ⟨fun p hp => hp, fun p hp => Or.inl hp⟩
      | some dv => exact ⟨fun p hp => hp, fun p hp => mem_dset _ _ _ p hp⟩
    constructor
    · intro p hp
      change p ∈ (setKey Z.isSub Z.name _ (setD D z.1 c)).inds at hp
      cases hs : Z.isSub
      · rw [hs] at hp
        rcases mem_dset _ _ _ p hp with h | h
        · exact Or.inl ((hD z.1).1 p h)
        · exact Or.inr (by simp [dataComp, h])
      · rw [hs] at hp; exact Or.inl ((hD z.1).1 p hp)
    · intro p hp
      change p ∈ (setKey Z.isSub Z.name _ (setD D z.1 c)).subs at hp
      cases hs : Z.isSub
      · rw [hs] at hp
        rcases (hD z.1).2 p hp with h | h
        · exact Or.inl h
        · exact Or.inr (by simp [dataComp, h])
      · rw [hs] at hp
        rcases mem_dset _ _ _ p hp with h | h
        · rcases (hD z.1).2 p h with h' | h'
          · exact Or.inl h'
          · exact Or.inr (by simp [dataComp, h'])
        · exact Or.inr (by simp [dataComp, h])
  app_sim := fun keys z c c' h => simK_setKey keys _ _ _ _ _ (simK_setD keys D z.1 c c' h)
  raw_nokey := fun c h => h.1
  raw_of := fun c h => ⟨h Z.name (by simp [dataComp]), h D (by simp [dataComp])⟩
  val_sim := by
    intro H H' c c' hs hc
    show (do let (d, fin) ← K.R { cs := H ++ [c], i := H.length, name := Z.name }; let v ← fin; pure (d, v))
      = (do let (d, fin) ← K.R { cs := H' ++ [c'], i := H'.length, name := Z.name }; let v ← fin; pure (d, v))
    rw [K.val_sim H H' c c' hs hc]
  stable := by
    intro H c z _ hv
    obtain ⟨dd, w⟩ := z
    show (do
      let (d, fin) ← K.R (Ctx.mk (H ++ [outDS Z.isSub Z.name D (w.roundBy Z.round) dd c]) H.length Z.name)
      let v ← fin
      pure (d, v)) = .ok (dd, w)
    rw [K.stable H c]
    exact hv
  absorb := by
    intro z c d hraw hd
    obtain ⟨dd, v⟩ := z
    show setKey Z.isSub Z.name (v.roundBy Z.round) (setD D dd d) = d
    have hsim : SimK [Z.name, D] d (setKey Z.isSub Z.name (v.roundBy Z.round) (setD D dd c)) := hd
    -- the data entry is already there
    have h1 : setD D dd d = d := by
      cases dd with
      | none => rfl
      | some dv =>
        have hl : dlookup D d.subs = some dv := by
          rw [(hsim.2 D (by simp)).2]
          cases hs : Z.isSub <;> simp [setKey, setD, dlookup_dset_self, dlookup_dset_ne _ _ _ _ hne]
        simp [setD, setKey, dset_absorb D dv d.subs hl]
    rw [h1]
    -- and so is the own entry
    cases hs : Z.isSub with
    | false =>
      have hl : dlookup Z.name d.inds = some (v.roundBy Z.round) := by
        rw [(hsim.2 Z.name (by simp)).1, hs]; simp [setKey, dlookup_dset_self]
      simp [setKey, dset_absorb _ _ d.inds hl]
    | true =>
      have hl : dlookup Z.name d.subs = some (v.roundBy Z.round) := by
        rw [(hsim.2 Z.name (by simp)).2, hs]; simp [setKey, dlookup_dset_self]
      simp [setKey, dset_absorb _ _ d.subs hl]
  settled_nil := by intro d hd; cases hd
  settled_step := by
    intro H r z hs _ _ d hd
    rcases List.mem_append.1 hd with h | h
    · exact hs d h
    · simp at h; subst h; exact hasKey_setKey _ _ _ _
  settled_sim := by
    intro H H' hs hsim d' hd'
    obtain ⟨d, hd, hdd⟩ := TComp.forall₂_mem_right' hsim d' hd'
    rw [← hasKey_simK (keys := (Z.name :: D :: K.rkeys) ++ [Z.name, D]) (by simp) hdd]
    exact hs d hd
  pass_iff := by
    intro H R out hs hR
    have key : Gen.nodeCalc (specWith Z K.C) (H ++ R) = (dataComp Z D K).rowFrom H R := by
      unfold Gen.nodeCalc
      have hn : (specWith Z K.C).name = Z.name := rfl
      rw [hn, findCalcIndex_split Z.name H R hs (fun r hr => (hR r hr).1)]
      have : (H ++ R).length - H.length = R.length := by simp
      rw [this]
      exact nodeLoop_runD Z D K R H hR
    show Gen.nodeCalc (specWith Z K.C) (H ++ R) = .ok out ↔ _
    rw [key]

end Hex

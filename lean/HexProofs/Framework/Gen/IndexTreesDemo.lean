import HexProofs.Framework.Gen.IndexTrees
/-
Cross-check of `IndexTrees.lean` by direct evaluation over `Int` (`decide +kernel`): for each of the ten
kinds with sub-indicators / driven children the batch run over six candles returns, and on that state
`calculate_index(i)` returns the same candles for EVERY `-6 ≤ i < 6`; a program with
`calculate_index(0)`, `calculate_index(-1)` and inner indices runs on KC, ADX and HMA.
-/
namespace Hex.IndexDemo

set_option maxRecDepth 100000 in
example : reproAll (mkTop (.atr 2) "ATR_2" 4) demo6 = true := by decide +kernel
set_option maxRecDepth 100000 in
example : reproAll (mkTop (.stdevthres 2 "close" (.int 1)) "TH_2" 4) demo6 = true := by decide +kernel
set_option maxRecDepth 100000 in
example : reproAll (mkTop (.bbands 2 "close") "BB_2" 4) demo6 = true := by decide +kernel
set_option maxRecDepth 100000 in
example : reproAll (mkTop (.supertrend 2 "close" (.int 3)) "ST_2" 4) demo6 = true := by decide +kernel
set_option maxRecDepth 100000 in
example : reproAll (mkTop (.macd 2 3 2 "close") "MACD_2_3_2" 4) demo6 = true := by decide +kernel
set_option maxRecDepth 100000 in
example : reproAll (mkTop (.hma 4 "close") "HMA_4" 4) demo6 = true := by decide +kernel
set_option maxRecDepth 100000 in
example : reproAll (mkTop (.stoch 3 3 3 "close") "STOCH_3" 4) demo6 = true := by decide +kernel
set_option maxRecDepth 100000 in
example : reproAll (mkTop (.tsi 3 1 "close") "TSI_3_1" 4) demo6 = true := by decide +kernel
set_option maxRecDepth 100000 in
example : reproAll (mkTop (.adx 3 3) "ADX_3_3" 4) demo6 = true := by decide +kernel

set_option maxRecDepth 100000 in
example : ∃ s, Runs ({ tree := mkTop (.kc 2 "close" (.int 2)) "KC_2" 4, mgr := { cfg := {}, candles := [] } } :
    IndState Int) demoProgram s := runs_of_isSome _ _ (by decide +kernel)

set_option maxRecDepth 100000 in
example : ∃ s, Runs ({ tree := mkTop (.hma 4 "close") "HMA_4" 4, mgr := { cfg := {}, candles := [] } } :
    IndState Int) demoProgram s := runs_of_isSome _ _ (by decide +kernel)

end Hex.IndexDemo

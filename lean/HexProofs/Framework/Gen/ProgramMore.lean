import HexProofs.Framework.Gen.ProgramTf
import HexProofs.Numeric.TotalMoreHA
/-
C14 on HEIKIN-ASHI managers: the program theorems of `ProgramTf.lean` hold for EVERY `MgrSpec`; here they are stated
for the three Heikin-Ashi manager specs of `HexProofs/Numeric/TotalMoreHA.lean` with the configuration and the
stream predicate spelled out:

  * `{ ha := true }`                              (`cfgHAOnly`,   stream `RawHAPlain`, engine sees `haSpec stream`)
  * `{ tf := some tf, ha := true }`               (`cfgTfHA tf`,  stream `RawTfHA`,   engine sees `haSpec (resample tf stream)`)
  * `{ tf := some tf, fill := true, ha := true }` (`cfgFillHA tf`, stream `RawTfHA`,  engine sees `haSpec (fillSpec tf stream)`)

and once quantified over `(tf : Option Int) (fill : Bool)` in the configuration style
`{ tf := tf, fill := fill && tf.isSome, ha := true }` (`haMgrOf`, `…_haCfg`).

Everything is a one-line instance; nothing new is proved about the engine.  (`purge()` gives back the CONVERTED
candles without readings – the manager never keeps the unconverted ones.)
-/
namespace Hex
set_option linter.unusedSectionVars false
variable {F : Type} [PyF F]

section covered
variable {name : String} {k : Kind F}

/-! ### `{ ha := true }` -/

/-- **C14 on a Heikin-Ashi manager (base timeframe)**: programs converge to the batch state -/
theorem C14_trees_ha (hk : CoveredTreeX name k) (round : Nat) (init : List (Candle F)) (ops : List (Op F))
    (hraw : RawHAPlain (init ++ (ops.map Op.added).flatten)) (s₀ s : IndState F)
    (h₀ : IndState.init (mkTop k name round) cfgHAOnly init = .ok s₀) (hruns : Runs s₀ ops s)
    (out : List (Candle F)) :
    candlesOf s.calculate = .ok out ↔
      candlesOf (runIndicator (mkTop k name round) cfgHAOnly (init ++ (ops.map Op.added).flatten) []) = .ok out :=
  program_converges_tf hk round (MgrSpec.ha F) init ops hraw s₀ s h₀ hruns out

theorem calculate_idempotent_ha (hk : CoveredTreeX name k) (round : Nat) (init : List (Candle F)) (ops : List (Op F))
    (hraw : RawHAPlain (init ++ (ops.map Op.added).flatten)) (s₀ s s₁ : IndState F)
    (h₀ : IndState.init (mkTop k name round) cfgHAOnly init = .ok s₀) (hruns : Runs s₀ ops s)
    (h : s.calculate = .ok s₁) : candlesOf s₁.calculate = .ok s₁.mgr.candles :=
  calculate_idempotent_tf hk round (MgrSpec.ha F) init ops hraw s₀ s s₁ h₀ hruns h

/-- `purge()` gives back the converted candles of everything received, without readings -/
theorem purge_restores_spec_ha (hk : CoveredTreeX name k) (round : Nat) (init : List (Candle F)) (ops : List (Op F))
    (hraw : RawHAPlain (init ++ (ops.map Op.added).flatten)) (s₀ s : IndState F)
    (h₀ : IndState.init (mkTop k name round) cfgHAOnly init = .ok s₀) (hruns : Runs s₀ ops s) :
    s.purge.mgr.candles = haSpec (init ++ (ops.map Op.added).flatten) :=
  purge_restores_spec_tf hk round (MgrSpec.ha F) init ops hraw s₀ s h₀ hruns

theorem recalculate_reproduces_ha (hk : CoveredTreeX name k) (round : Nat) (init : List (Candle F)) (ops : List (Op F))
    (hraw : RawHAPlain (init ++ (ops.map Op.added).flatten)) (s₀ s s₁ : IndState F)
    (h₀ : IndState.init (mkTop k name round) cfgHAOnly init = .ok s₀) (hruns : Runs s₀ ops s)
    (h : s.calculate = .ok s₁) : candlesOf s₁.recalculate = .ok s₁.mgr.candles :=
  recalculate_reproduces_tf hk round (MgrSpec.ha F) init ops hraw s₀ s s₁ h₀ hruns h

theorem calculateIndex_after_program_ha (hk : CoveredTreeX name k) (round : Nat) (init : List (Candle F))
    (ops : List (Op F)) (hraw : RawHAPlain (init ++ (ops.map Op.added).flatten)) (s₀ s s₁ : IndState F)
    (h₀ : IndState.init (mkTop k name round) cfgHAOnly init = .ok s₀) (hruns : Runs s₀ ops s)
    (h : s.calculate = .ok s₁) (i : Int) (hlo : -(s₁.mgr.candles.length : Int) ≤ i) (hhi : i < s₁.mgr.candles.length) :
    candlesOf (s₁.calculateIndex i none) = .ok s₁.mgr.candles :=
  calculateIndex_after_program_tf hk round (MgrSpec.ha F) init ops hraw s₀ s s₁ h₀ hruns h i hlo hhi

/-! ### `{ tf := some tf, ha := true }` -/

/-- **C14 on a collapsing timeframe with Heikin-Ashi conversion**: programs converge to the batch state -/
theorem C14_trees_tfHA (hk : CoveredTreeX name k) (round : Nat) (tf : Int) (htf : 0 < tf) (init : List (Candle F))
    (ops : List (Op F)) (hraw : RawTfHA (init ++ (ops.map Op.added).flatten)) (s₀ s : IndState F)
    (h₀ : IndState.init (mkTop k name round) (cfgTfHA tf) init = .ok s₀) (hruns : Runs s₀ ops s)
    (out : List (Candle F)) :
    candlesOf s.calculate = .ok out ↔
      candlesOf (runIndicator (mkTop k name round) (cfgTfHA tf) (init ++ (ops.map Op.added).flatten) []) = .ok out :=
  program_converges_tf hk round (MgrSpec.tfHA F tf htf) init ops hraw s₀ s h₀ hruns out

theorem calculate_idempotent_tfHA (hk : CoveredTreeX name k) (round : Nat) (tf : Int) (htf : 0 < tf)
    (init : List (Candle F)) (ops : List (Op F)) (hraw : RawTfHA (init ++ (ops.map Op.added).flatten))
    (s₀ s s₁ : IndState F) (h₀ : IndState.init (mkTop k name round) (cfgTfHA tf) init = .ok s₀) (hruns : Runs s₀ ops s)
    (h : s.calculate = .ok s₁) : candlesOf s₁.calculate = .ok s₁.mgr.candles :=
  calculate_idempotent_tf hk round (MgrSpec.tfHA F tf htf) init ops hraw s₀ s s₁ h₀ hruns h

/-- `purge()` gives back the converted buckets of everything received, without readings -/
theorem purge_restores_spec_tfHA (hk : CoveredTreeX name k) (round : Nat) (tf : Int) (htf : 0 < tf)
    (init : List (Candle F)) (ops : List (Op F)) (hraw : RawTfHA (init ++ (ops.map Op.added).flatten))
    (s₀ s : IndState F) (h₀ : IndState.init (mkTop k name round) (cfgTfHA tf) init = .ok s₀) (hruns : Runs s₀ ops s) :
    s.purge.mgr.candles = haSpec (resample tf (init ++ (ops.map Op.added).flatten)) :=
  purge_restores_spec_tf hk round (MgrSpec.tfHA F tf htf) init ops hraw s₀ s h₀ hruns

theorem recalculate_reproduces_tfHA (hk : CoveredTreeX name k) (round : Nat) (tf : Int) (htf : 0 < tf)
    (init : List (Candle F)) (ops : List (Op F)) (hraw : RawTfHA (init ++ (ops.map Op.added).flatten))
    (s₀ s s₁ : IndState F) (h₀ : IndState.init (mkTop k name round) (cfgTfHA tf) init = .ok s₀) (hruns : Runs s₀ ops s)
    (h : s.calculate = .ok s₁) : candlesOf s₁.recalculate = .ok s₁.mgr.candles :=
  recalculate_reproduces_tf hk round (MgrSpec.tfHA F tf htf) init ops hraw s₀ s s₁ h₀ hruns h

theorem calculateIndex_after_program_tfHA (hk : CoveredTreeX name k) (round : Nat) (tf : Int) (htf : 0 < tf)
    (init : List (Candle F)) (ops : List (Op F)) (hraw : RawTfHA (init ++ (ops.map Op.added).flatten))
    (s₀ s s₁ : IndState F) (h₀ : IndState.init (mkTop k name round) (cfgTfHA tf) init = .ok s₀) (hruns : Runs s₀ ops s)
    (h : s.calculate = .ok s₁) (i : Int) (hlo : -(s₁.mgr.candles.length : Int) ≤ i) (hhi : i < s₁.mgr.candles.length) :
    candlesOf (s₁.calculateIndex i none) = .ok s₁.mgr.candles :=
  calculateIndex_after_program_tf hk round (MgrSpec.tfHA F tf htf) init ops hraw s₀ s s₁ h₀ hruns h i hlo hhi

/-! ### `{ tf := some tf, fill := true, ha := true }` -/

/-- **C14 on a collapsing timeframe with gap filling and Heikin-Ashi conversion** -/
theorem C14_trees_fillHA (hk : CoveredTreeX name k) (round : Nat) (tf : Int) (htf : 0 < tf) (init : List (Candle F))
    (ops : List (Op F)) (hraw : RawTfHA (init ++ (ops.map Op.added).flatten)) (s₀ s : IndState F)
    (h₀ : IndState.init (mkTop k name round) (cfgFillHA tf) init = .ok s₀) (hruns : Runs s₀ ops s)
    (out : List (Candle F)) :
    candlesOf s.calculate = .ok out ↔
      candlesOf (runIndicator (mkTop k name round) (cfgFillHA tf) (init ++ (ops.map Op.added).flatten) []) = .ok out :=
  program_converges_tf hk round (MgrSpec.fillHA F tf htf) init ops hraw s₀ s h₀ hruns out

theorem calculate_idempotent_fillHA (hk : CoveredTreeX name k) (round : Nat) (tf : Int) (htf : 0 < tf)
    (init : List (Candle F)) (ops : List (Op F)) (hraw : RawTfHA (init ++ (ops.map Op.added).flatten))
    (s₀ s s₁ : IndState F) (h₀ : IndState.init (mkTop k name round) (cfgFillHA tf) init = .ok s₀)
    (hruns : Runs s₀ ops s) (h : s.calculate = .ok s₁) : candlesOf s₁.calculate = .ok s₁.mgr.candles :=
  calculate_idempotent_tf hk round (MgrSpec.fillHA F tf htf) init ops hraw s₀ s s₁ h₀ hruns h

/-- `purge()` gives back the converted filled buckets of everything received, without readings -/
theorem purge_restores_spec_fillHA (hk : CoveredTreeX name k) (round : Nat) (tf : Int) (htf : 0 < tf)
    (init : List (Candle F)) (ops : List (Op F)) (hraw : RawTfHA (init ++ (ops.map Op.added).flatten))
    (s₀ s : IndState F) (h₀ : IndState.init (mkTop k name round) (cfgFillHA tf) init = .ok s₀) (hruns : Runs s₀ ops s) :
    s.purge.mgr.candles = haSpec (fillSpec tf (init ++ (ops.map Op.added).flatten)) :=
  purge_restores_spec_tf hk round (MgrSpec.fillHA F tf htf) init ops hraw s₀ s h₀ hruns

theorem recalculate_reproduces_fillHA (hk : CoveredTreeX name k) (round : Nat) (tf : Int) (htf : 0 < tf)
    (init : List (Candle F)) (ops : List (Op F)) (hraw : RawTfHA (init ++ (ops.map Op.added).flatten))
    (s₀ s s₁ : IndState F) (h₀ : IndState.init (mkTop k name round) (cfgFillHA tf) init = .ok s₀)
    (hruns : Runs s₀ ops s) (h : s.calculate = .ok s₁) : candlesOf s₁.recalculate = .ok s₁.mgr.candles :=
  recalculate_reproduces_tf hk round (MgrSpec.fillHA F tf htf) init ops hraw s₀ s s₁ h₀ hruns h

theorem calculateIndex_after_program_fillHA (hk : CoveredTreeX name k) (round : Nat) (tf : Int) (htf : 0 < tf)
    (init : List (Candle F)) (ops : List (Op F)) (hraw : RawTfHA (init ++ (ops.map Op.added).flatten))
    (s₀ s s₁ : IndState F) (h₀ : IndState.init (mkTop k name round) (cfgFillHA tf) init = .ok s₀)
    (hruns : Runs s₀ ops s) (h : s.calculate = .ok s₁) (i : Int) (hlo : -(s₁.mgr.candles.length : Int) ≤ i)
    (hhi : i < s₁.mgr.candles.length) : candlesOf (s₁.calculateIndex i none) = .ok s₁.mgr.candles :=
  calculateIndex_after_program_tf hk round (MgrSpec.fillHA F tf htf) init ops hraw s₀ s s₁ h₀ hruns h i hlo hhi

end covered

/-! ### the configuration spelled out: `{ tf := tf, fill := fill && tf.isSome, ha := true }` -/

/-- the manager spec of a Heikin-Ashi configuration: base timeframe, timeframe, timeframe + fill (the analogue of
`mgrSpecOf`; `HexProofs/Writes/PresenceLateTfInst.lean` has `mgrSpecOfHA` with a raw `fill` field – this one is
independent of it and is NOT imported from there) -/
def haMgrOf (F : Type) [PyF F] (tf : Option Int) (htf : ∀ t, tf = some t → 0 < t) (fill : Bool) : MgrSpec F :=
  match tf, htf with
  | none, _ => MgrSpec.ha F
  | some t, h => if fill then MgrSpec.fillHA F t (h t rfl) else MgrSpec.tfHA F t (h t rfl)

theorem haMgrOf_cfg (tf : Option Int) (htf : ∀ t, tf = some t → 0 < t) (fill : Bool) :
    (haMgrOf F tf htf fill).cfg = { tf := tf, fill := fill && tf.isSome, ha := true } := by
  cases tf with
  | none => cases fill <;> rfl
  | some t => cases fill <;> rfl

theorem RawTfHA.toPlain {s : List (Candle F)} (h : RawTfHA s) : RawHAPlain s :=
  fun c hc => ⟨h.1.plain c hc, h.2 c hc⟩

theorem haMgrOf_ok (tf : Option Int) (htf : ∀ t, tf = some t → 0 < t) (fill : Bool)
    (s : List (Candle F)) (h : RawTfHA s) : (haMgrOf F tf htf fill).Ok s := by
  cases tf with
  | none => exact h.toPlain
  | some t => cases fill <;> exact h

/-- what the engine sees -/
theorem haMgrOf_spec (tf : Option Int) (htf : ∀ t, tf = some t → 0 < t) (fill : Bool) (s : List (Candle F)) :
    (haMgrOf F tf htf fill).spec s = haSpec ((mgrSpecOf F tf htf fill).spec s) := by
  cases tf with
  | none => rfl
  | some t => cases fill <;> rfl

section covered
variable {name : String} {k : Kind F}

/-- **C14 for all covered trees on any Heikin-Ashi manager** (any timeframe or none, gap filling off or on) -/
theorem program_converges_haCfg (hk : CoveredTreeX name k) (round : Nat)
    (tf : Option Int) (htf : ∀ t, tf = some t → 0 < t) (fill : Bool)
    (init : List (Candle F)) (ops : List (Op F)) (hraw : RawTfHA (init ++ (ops.map Op.added).flatten))
    (s₀ s : IndState F)
    (h₀ : IndState.init (mkTop k name round) { tf := tf, fill := fill && tf.isSome, ha := true } init = .ok s₀)
    (hruns : Runs s₀ ops s) (out : List (Candle F)) :
    candlesOf s.calculate = .ok out ↔
      candlesOf (runIndicator (mkTop k name round) { tf := tf, fill := fill && tf.isSome, ha := true }
        (init ++ (ops.map Op.added).flatten) []) = .ok out := by
  have hcfg := haMgrOf_cfg (F := F) tf htf fill
  rw [← hcfg] at h₀ ⊢
  exact program_converges_tf hk round (haMgrOf F tf htf fill) init ops (haMgrOf_ok tf htf fill _ hraw) s₀ s h₀
    hruns out

theorem calculate_idempotent_haCfg (hk : CoveredTreeX name k) (round : Nat)
    (tf : Option Int) (htf : ∀ t, tf = some t → 0 < t) (fill : Bool)
    (init : List (Candle F)) (ops : List (Op F)) (hraw : RawTfHA (init ++ (ops.map Op.added).flatten))
    (s₀ s s₁ : IndState F)
    (h₀ : IndState.init (mkTop k name round) { tf := tf, fill := fill && tf.isSome, ha := true } init = .ok s₀)
    (hruns : Runs s₀ ops s) (h : s.calculate = .ok s₁) : candlesOf s₁.calculate = .ok s₁.mgr.candles := by
  have hcfg := haMgrOf_cfg (F := F) tf htf fill
  rw [← hcfg] at h₀
  exact calculate_idempotent_tf hk round (haMgrOf F tf htf fill) init ops (haMgrOf_ok tf htf fill _ hraw) s₀ s s₁
    h₀ hruns h

/-- `purge()` gives back the CONVERTED collapsed (filled) stream without readings -/
theorem purge_restores_spec_haCfg (hk : CoveredTreeX name k) (round : Nat)
    (tf : Option Int) (htf : ∀ t, tf = some t → 0 < t) (fill : Bool)
    (init : List (Candle F)) (ops : List (Op F)) (hraw : RawTfHA (init ++ (ops.map Op.added).flatten))
    (s₀ s : IndState F)
    (h₀ : IndState.init (mkTop k name round) { tf := tf, fill := fill && tf.isSome, ha := true } init = .ok s₀)
    (hruns : Runs s₀ ops s) :
    s.purge.mgr.candles = haSpec ((mgrSpecOf F tf htf fill).spec (init ++ (ops.map Op.added).flatten)) := by
  have hcfg := haMgrOf_cfg (F := F) tf htf fill
  rw [← hcfg] at h₀
  rw [← haMgrOf_spec]
  exact purge_restores_spec_tf hk round (haMgrOf F tf htf fill) init ops (haMgrOf_ok tf htf fill _ hraw) s₀ s
    h₀ hruns

theorem recalculate_reproduces_haCfg (hk : CoveredTreeX name k) (round : Nat)
    (tf : Option Int) (htf : ∀ t, tf = some t → 0 < t) (fill : Bool)
    (init : List (Candle F)) (ops : List (Op F)) (hraw : RawTfHA (init ++ (ops.map Op.added).flatten))
    (s₀ s s₁ : IndState F)
    (h₀ : IndState.init (mkTop k name round) { tf := tf, fill := fill && tf.isSome, ha := true } init = .ok s₀)
    (hruns : Runs s₀ ops s) (h : s.calculate = .ok s₁) : candlesOf s₁.recalculate = .ok s₁.mgr.candles := by
  have hcfg := haMgrOf_cfg (F := F) tf htf fill
  rw [← hcfg] at h₀
  exact recalculate_reproduces_tf hk round (haMgrOf F tf htf fill) init ops (haMgrOf_ok tf htf fill _ hraw) s₀ s s₁
    h₀ hruns h

theorem calculateIndex_after_program_haCfg (hk : CoveredTreeX name k) (round : Nat)
    (tf : Option Int) (htf : ∀ t, tf = some t → 0 < t) (fill : Bool)
    (init : List (Candle F)) (ops : List (Op F)) (hraw : RawTfHA (init ++ (ops.map Op.added).flatten))
    (s₀ s s₁ : IndState F)
    (h₀ : IndState.init (mkTop k name round) { tf := tf, fill := fill && tf.isSome, ha := true } init = .ok s₀)
    (hruns : Runs s₀ ops s) (h : s.calculate = .ok s₁) (i : Int) (hlo : -(s₁.mgr.candles.length : Int) ≤ i)
    (hhi : i < s₁.mgr.candles.length) : candlesOf (s₁.calculateIndex i none) = .ok s₁.mgr.candles := by
  have hcfg := haMgrOf_cfg (F := F) tf htf fill
  rw [← hcfg] at h₀
  exact calculateIndex_after_program_tf hk round (haMgrOf F tf htf fill) init ops (haMgrOf_ok tf htf fill _ hraw)
    s₀ s s₁ h₀ hruns h i hlo hhi

/-- `calculate_index(i)` on the finished batch state, every index – any Heikin-Ashi manager -/
theorem calculateIndex_reproduces_haCfg (hk : CoveredTreeX name k) (round : Nat)
    (tf : Option Int) (htf : ∀ t, tf = some t → 0 < t) (fill : Bool)
    (raw done : List (Candle F)) (hraw : RawTfHA raw)
    (h : candlesOf (runIndicator (mkTop k name round) { tf := tf, fill := fill && tf.isSome, ha := true } raw [])
      = .ok done)
    (i : Int) (hlo : -(done.length : Int) ≤ i) (hhi : i < done.length) (act : Int) :
    candlesOf (IndState.calculateIndex
        ⟨mkTop k name round, ⟨{ tf := tf, fill := fill && tf.isSome, ha := true }, done⟩, act⟩ i none) = .ok done := by
  have hcfg := haMgrOf_cfg (F := F) tf htf fill
  rw [← hcfg] at h ⊢
  exact calculateIndex_reproduces_tf hk round (haMgrOf F tf htf fill) raw done (haMgrOf_ok tf htf fill _ hraw) h i
    hlo hhi act

end covered
end Hex

/-! ### non-vacuity: one-minute candles over `Int`, `{ tf := some 120, ha := true }` (and with fill and a gap) -/

namespace Hex.HADemo
open Hex Hex.IndexDemo Hex.TfDemo

theorem min10_rawHA : RawTfHA min10 := ⟨min10_raw, by decide⟩
theorem gap6_rawHA : RawTfHA gap6 := ⟨gap6_raw, by decide⟩

example : cfgTfHA 120 = { tf := some 120, ha := true } := rfl
example : cfgFillHA 120 = { tf := some 120, fill := true, ha := true } := rfl

set_option maxRecDepth 100000 in
/-- the program of `Hex.TfDemo` (construct over the first minute; calculate; append – merged into the forming bucket;
`calculate_index(-1)`; append; `calculate_index(0)`; purge; append; recalculate; `calculate_index(-2)`; append three;
`calculate_index(-1)`, `(1)`; append the rest) runs on KC with the converted 120-second buckets … -/
theorem prog_runs_tfHA : ∃ s₀ s, IndState.init kc (cfgTfHA 120) (min10.take 1) = .ok s₀ ∧ Runs s₀ prog s :=
  runs_of_runFrom _ _ _ _ (by decide +kernel)

set_option maxRecDepth 100000 in
/-- … with gap filling over the stream with the gap … -/
theorem progGap_runs_fillHA : ∃ s₀ s, IndState.init kc (cfgFillHA 120) (gap6.take 1) = .ok s₀ ∧ Runs s₀ progGap s :=
  runs_of_runFrom _ _ _ _ (by decide +kernel)

set_option maxRecDepth 100000 in
/-- … and on the base timeframe with conversion -/
theorem prog_runs_ha : ∃ s₀ s, IndState.init kc cfgHAOnly (min10.take 1) = .ok s₀ ∧ Runs s₀ prog s :=
  runs_of_runFrom _ _ _ _ (by decide +kernel)

set_option maxRecDepth 100000 in
/-- the final state: five CONVERTED buckets (tag set), every one with the reading and the three helper series -/
example : ((runFrom kc (cfgTfHA 120) (min10.take 1) prog).map fun s =>
      s.mgr.candles.map fun c => (c.ts, c.tag, (dlookup "KC_2" c.inds).isSome, c.subs.map (·.1)))
    = some [(some 120, true, true, ["KC_2_ATR_TR", "KC_2_ATR", "KC_2_EMA"]),
            (some 240, true, true, ["KC_2_ATR_TR", "KC_2_ATR", "KC_2_EMA"]),
            (some 360, true, true, ["KC_2_ATR_TR", "KC_2_ATR", "KC_2_EMA"]),
            (some 480, true, true, ["KC_2_ATR_TR", "KC_2_ATR", "KC_2_EMA"]),
            (some 600, true, true, ["KC_2_ATR_TR", "KC_2_ATR", "KC_2_EMA"])] := by
  decide +kernel

/-- so the theorems apply -/
example (s₀ s : IndState Int) (h₀ : IndState.init kc (cfgTfHA 120) (min10.take 1) = .ok s₀) (hruns : Runs s₀ prog s)
    (out : List (Candle Int)) :
    candlesOf s.calculate = .ok out ↔
      candlesOf (runIndicator kc { tf := some 120, ha := true } (min10.take 1 ++ (prog.map Op.added).flatten) [])
        = .ok out :=
  C14_trees_tfHA kcCov 4 120 (by decide) (min10.take 1) prog min10_rawHA s₀ s h₀ hruns out

example (s₀ s : IndState Int) (h₀ : IndState.init kc (cfgFillHA 120) (gap6.take 1) = .ok s₀)
    (hruns : Runs s₀ progGap s) (out : List (Candle Int)) :
    candlesOf s.calculate = .ok out ↔
      candlesOf (runIndicator kc { tf := some 120, fill := true, ha := true }
        (gap6.take 1 ++ (progGap.map Op.added).flatten) []) = .ok out :=
  C14_trees_fillHA kcCov 4 120 (by decide) (gap6.take 1) progGap gap6_rawHA s₀ s h₀ hruns out

example (s₀ s : IndState Int) (h₀ : IndState.init kc cfgHAOnly (min10.take 1) = .ok s₀) (hruns : Runs s₀ prog s)
    (out : List (Candle Int)) :
    candlesOf s.calculate = .ok out ↔
      candlesOf (runIndicator kc { ha := true } (min10.take 1 ++ (prog.map Op.added).flatten) []) = .ok out :=
  C14_trees_ha kcCov 4 (min10.take 1) prog min10_rawHA.toPlain s₀ s h₀ hruns out

example (s₀ s : IndState Int) (h₀ : IndState.init kc (cfgTfHA 120) (min10.take 1) = .ok s₀) (hruns : Runs s₀ prog s) :
    s.purge.mgr.candles = haSpec (resample 120 (min10.take 1 ++ (prog.map Op.added).flatten)) :=
  purge_restores_spec_tfHA kcCov 4 120 (by decide) (min10.take 1) prog min10_rawHA s₀ s h₀ hruns

/-- the configuration-style statement -/
example (s₀ s : IndState Int)
    (h₀ : IndState.init kc { tf := some 120, fill := false && (some (120 : Int)).isSome, ha := true } (min10.take 1)
      = .ok s₀)
    (hruns : Runs s₀ prog s) (out : List (Candle Int)) :
    candlesOf s.calculate = .ok out ↔
      candlesOf (runIndicator kc { tf := some 120, fill := false && (some (120 : Int)).isSome, ha := true }
        (min10.take 1 ++ (prog.map Op.added).flatten) []) = .ok out :=
  program_converges_haCfg kcCov 4 (some 120) (by intro t h; cases h; decide) false (min10.take 1) prog min10_rawHA
    s₀ s h₀ hruns out

end Hex.HADemo

#print axioms Hex.C14_trees_ha
#print axioms Hex.C14_trees_tfHA
#print axioms Hex.C14_trees_fillHA
#print axioms Hex.purge_restores_spec_ha
#print axioms Hex.purge_restores_spec_tfHA
#print axioms Hex.purge_restores_spec_fillHA
#print axioms Hex.program_converges_haCfg
#print axioms Hex.calculate_idempotent_haCfg
#print axioms Hex.purge_restores_spec_haCfg
#print axioms Hex.recalculate_reproduces_haCfg
#print axioms Hex.calculateIndex_after_program_haCfg
#print axioms Hex.calculateIndex_reproduces_haCfg
#print axioms Hex.HADemo.prog_runs_tfHA
#print axioms Hex.HADemo.progGap_runs_fillHA
#print axioms Hex.HADemo.prog_runs_ha

import HexProofs.Framework.Gen.IndexCore
/-
`calculate_index(i)` reproduces the batch state – the trees with PRIOR helpers and a read-only or
data-series own step: ATR, KC, STDEVTHRES, BBANDS, Supertrend.
-/
namespace Hex
set_option linter.unusedSectionVars false
set_option linter.unusedSimpArgs false
variable {F : Type} [PyF F]

/-! ### ATR (a prior pair: the node and its TR helper) -/

section pair
variable {P X : Ind F}

theorem PriorPair.xpriorCalc (h : PriorPair P X) : X.priorCalc = true := by
  simp [Ind.priorCalc, h.xsub, h.xprior]

/-- **a prior pair: `calculate_index(j)`, `1 ≤ j`, reproduces the batch state** – it is exactly one
row step of the pair -/
theorem pair_index_reproduces (h : PriorPair P X) (raw done rest : List (Candle F)) (hpl : ∀ c ∈ raw, Plain c)
    (hr : Gen.rowMajor (pairSpec P X) raw = .ok done) (j : Nat) (hj : j < done.length) (h1 : 1 ≤ j)
    (fuel : Nat) (hf : 4 ≤ fuel) :
    calculateIndex fuel P (done ++ rest) j (j + 1) = .ok (done ++ rest) := by
  rw [calculateIndex_one_prior P X h.subs h.readOnly h.xleaf h.xpriorCalc fuel hf _ j (by omega) (by omega)]
  exact Gen.step_computed (pairLaw h) raw rest done hpl hr j hj

/-- **a prior pair: `calculate_index(0)` reproduces the batch state** – the helper's full
`calculate()` finds its key on every candle and does nothing, the node recomputes candle 0 -/
theorem pair_index0_reproduces (h : PriorPair P X) (raw done : List (Candle F)) (hpl : ∀ c ∈ raw, Plain c)
    (hr : Gen.rowMajor (pairSpec P X) raw = .ok done) (hj : 0 < done.length)
    (fuel : Nat) (hf : done.length + 6 ≤ fuel) :
    calculateIndex fuel P done 0 (0 + 1) = .ok done := by
  obtain ⟨f, rfl⟩ : ∃ f, fuel = f + 3 := ⟨fuel - 3, by omega⟩
  rw [calculateIndex_top_one_zero P X h.subs h.xpriorCalc f done,
    calculate_leaf X h.xleaf (f + 1) done (by omega)]
  -- the helper's pass does nothing
  obtain ⟨T, hT, hdec⟩ := pair_decor h raw [] done hr
  simp only [List.nil_append] at hT
  subst hT
  have hkey : ∀ d ∈ done, hasKey X.name d = true := by
    intro d hd
    obtain ⟨c, hc, hcd⟩ := forall₂_mem_right hdec d hd
    exact (pairDone_facts h c d (hpl c hc) hcd).1
  have hcalc : leafCalc X done = .ok done := by
    unfold leafCalc
    have := findCalcIndex_split X.name done [] hkey (by simp)
    simp only [List.append_nil] at this
    rw [this, Nat.sub_self]
    rfl
  rw [hcalc]
  simp only [bind, Except.bind]
  rw [ownStep_readOnly (f + 1) P h.readOnly]
  -- candle 0
  obtain ⟨pre, c, c', post, hd, hlen, _, hc, hs⟩ := Gen.rowMajor_at (pairLaw h) raw done hr hpl 0 hj
  have hpre : pre = [] := List.eq_nil_of_length_eq_zero hlen
  subst hpre
  simp only [List.nil_append] at hd
  subst hd
  have hs' := hs
  rw [show ([] : List (Candle F)) ++ [c] = [] ++ c :: [] from rfl, pairStep h [] c []] at hs'
  cases hv : valOf X [] c with
  | error e => rw [hv] at hs'; cases hs'
  | ok v =>
    rw [hv] at hs'
    simp only [bind, Except.bind] at hs'
    cases hw : valOf P [] (decOf X v c) with
    | error e => rw [hw] at hs'; cases hs'
    | ok w =>
      rw [hw] at hs'
      simp only [pure, Except.pure] at hs'
      have hc' : c' = decOf P w (decOf X v c) := by
        have := Except.ok.inj hs'; simpa using this.symm
      -- the helper's step at 0 reproduces
      have hX : stepLeaf X (c' :: post) 0 = .ok (c' :: post) := by
        have := stepLeaf_loc X h.locX [] c' post
        simp only [List.nil_append, List.length_nil, Nat.cast_zero] at this
        rw [this, h.ignX [] [] c' c rfl (by rw [hc']; simp [decOf, bare_setKey]), hv]
        simp only [bind, Except.bind, pure, Except.pure]
        rw [hc', decOf_comm h, decOf_idem]
      have hstep := Gen.step_computed (pairLaw h) raw [] (c' :: post) hpl hr 0 hj
      simp only [List.append_nil, Nat.cast_zero] at hstep
      change (do let cs₁ ← stepLeaf X (c' :: post) 0; stepLeaf P cs₁ 0) = .ok (c' :: post) at hstep
      rw [hX] at hstep
      exact hstep

end pair

section atr
variable (name : String) (round : Nat) (p : Int) (hp : 1 ≤ p) (hn : AtrNames name)

theorem atr_index_reproduces (raw done rest : List (Candle F)) (hpl : ∀ c ∈ raw, Plain c)
    (h : Gen.rowMajor (atrTree (F := F) name round p hp hn).S raw = .ok done)
    (j : Nat) (hj : j < done.length) (h1 : 1 ≤ j) (fuel : Nat) (hf : 4 ≤ fuel) :
    calculateIndex fuel (mkTop (.atr p : Kind F) name round) (done ++ rest) j (j + 1) = .ok (done ++ rest) :=
  pair_index_reproduces (atr_pair name round p hp hn) raw done rest hpl h j hj h1 fuel hf

theorem atr_index0_reproduces (raw done : List (Candle F)) (hpl : ∀ c ∈ raw, Plain c)
    (h : Gen.rowMajor (atrTree (F := F) name round p hp hn).S raw = .ok done)
    (hj : 0 < done.length) (fuel : Nat) (hf : done.length + 6 ≤ fuel) :
    calculateIndex fuel (mkTop (.atr p : Kind F) name round) done 0 (0 + 1) = .ok done :=
  pair_index0_reproduces (atr_pair name round p hp hn) raw done hpl h hj fuel hf

end atr

/-! ### Keltner Channel -/

section kc
variable (name : String) (round : Nat) (p : Int) (input : String) (m : Num F)

/-- the engine's `calculate_index(i, i + 1)` on the KC tree, `i ≠ 0`: TR, ATR, EMA, KC steps at `i` -/
theorem calculateIndex_kc (fuel : Nat) (hf : 8 ≤ fuel) (cs : List (Candle F)) (i : Int) (hi : i ≠ 0)
    (hi1 : i + 1 ≠ 0) :
    calculateIndex fuel (kcP (F := F) name round p input m) cs i (i + 1) = (do
      let c₂ ← (do let c₁ ← stepLeaf (kcT name) cs i; stepLeaf (kcA name p) c₁ i)
      (do let c₃ ← stepLeaf (kcE name p input) c₂ i; stepLeaf (kcP name round p input m) c₃ i)) := by
  obtain ⟨f, rfl⟩ : ∃ f, fuel = f + 4 + 4 := ⟨fuel - 8, by omega⟩
  rw [calculateIndex_top_two _ _ _ (kcP_subs name round p input m) rfl rfl (f + 4) cs i hi hi1,
    calculateIndex_one_prior (kcA name p) (kcT name) (kcA_subs name p) rfl ⟨rfl, rfl, rfl⟩ rfl _ (by omega) cs i hi hi1]
  simp only [bind, Except.bind]
  cases stepLeaf (kcT (F := F) name) cs i with
  | error e => rfl
  | ok c₁ =>
    simp only
    cases stepLeaf (kcA (F := F) name p) c₁ i with
    | error e => rfl
    | ok c₂ =>
      simp only
      rw [calculateIndex_leaf_single (kcE name p input) ⟨rfl, rfl, rfl⟩ _ c₂ i (by omega)]
      cases stepLeaf (kcE (F := F) name p input) c₂ i with
      | error e => rfl
      | ok c₃ =>
        simp only
        exact ownStep_readOnly _ _ rfl c₃ i

/-- … and at index 0: the helpers' full passes, then the node's step at 0 -/
theorem calculateIndex_kc_zero (fuel : Nat) (cs : List (Candle F)) (hf : cs.length + 12 ≤ fuel) :
    calculateIndex fuel (kcP (F := F) name round p input m) cs 0 (0 + 1) = (do
      let c₂ ← (do let c₁ ← leafCalc (kcT name) cs; leafCalc (kcA name p) c₁)
      (do let c₃ ← leafCalc (kcE name p input) c₂; stepLeaf (kcP name round p input m) c₃ 0)) := by
  obtain ⟨f, rfl⟩ : ∃ f, fuel = f + 4 + 4 := ⟨fuel - 8, by omega⟩
  rw [calculateIndex_top_two_zero _ _ _ (kcP_subs name round p input m) rfl rfl (f + 4) cs,
    calculate_one_prior (kcA name p) (kcT name) (kcA_subs name p) rfl ⟨rfl, rfl, rfl⟩ rfl rfl _ cs (by omega)]
  simp only [bind, Except.bind]
  cases h1 : leafCalc (kcT (F := F) name) cs with
  | error e => rfl
  | ok c₁ =>
    simp only
    have l1 := leafCalc_length _ cs c₁ h1
    cases h2 : leafCalc (kcA (F := F) name p) c₁ with
    | error e => rfl
    | ok c₂ =>
      simp only
      have l2 := leafCalc_length _ c₁ c₂ h2
      rw [calculate_leaf (kcE name p input) ⟨rfl, rfl, rfl⟩ _ c₂ (by omega)]
      cases leafCalc (kcE (F := F) name p input) c₂ with
      | error e => rfl
      | ok c₃ =>
        simp only
        exact ownStep_readOnly _ _ rfl c₃ 0

variable (hp : 1 ≤ p) (hn : KcNames name) (hin : NoDot input ∧ input ∈ Candle.attrNames)

theorem kc_ok1 : TComp.SeqOK (kcCompT (F := F) name) (kcCompA name p hp hn) := by
  constructor <;> intro k hk <;>
    simp [kcCompT, kcCompA, leafComp, trT, atrOwnT, kcT_name, kcA_name] at hk ⊢ <;>
    rintro rfl <;>
    simp [hn.nA, hn.nT, hn.nE, hn.AT, hn.AE, hn.TE, hn.nA.symm, hn.nT.symm, hn.nE.symm, hn.AT.symm,
      hn.AE.symm, hn.TE.symm] at hk

theorem kc_ok2 : TComp.SeqOK (kcCompE (F := F) name p input hp hn hin) (kcCompP name round p input m hn) := by
  constructor <;> intro k hk <;>
    simp [kcCompE, kcCompP, leafComp, emaT, kcOwnT, kcE_name, kcP_name] at hk ⊢ <;>
    rintro rfl <;>
    simp [hn.nA, hn.nT, hn.nE, hn.AT, hn.AE, hn.TE, hn.nA.symm, hn.nT.symm, hn.nE.symm, hn.AT.symm,
      hn.AE.symm, hn.TE.symm] at hk

theorem kc_ok3 : TComp.SeqOK (TComp.seq (kcCompT (F := F) name) (kcCompA name p hp hn))
    (TComp.seq (kcCompE name p input hp hn hin) (kcCompP name round p input m hn)) := by
  constructor <;> intro k hk <;>
    simp [TComp.seq, kcCompT, kcCompA, kcCompE, kcCompP, leafComp, trT, atrOwnT, emaT, kcOwnT, kcT_name,
      kcA_name, kcE_name, kcP_name] at hk ⊢ <;>
    constructor <;> rintro rfl <;>
    simp [hn.nA, hn.nT, hn.nE, hn.AT, hn.AE, hn.TE, hn.nA.symm, hn.nT.symm, hn.nE.symm, hn.AT.symm,
      hn.AE.symm, hn.TE.symm] at hk

/-- **KC: `calculate_index(j)`, `1 ≤ j`, reproduces the batch state** (raw candles may follow the
finished part) -/
theorem kc_index_reproduces (raw done rest : List (Candle F)) (hpl : ∀ c ∈ raw, Plain c)
    (h : Gen.rowMajor (kcTree (F := F) name round p input m hp hn hin).S raw = .ok done)
    (j : Nat) (hj : j < done.length) (h1 : 1 ≤ j) (fuel : Nat) (hf : 8 ≤ fuel) :
    calculateIndex fuel (kcP (F := F) name round p input m) (done ++ rest) j (j + 1) = .ok (done ++ rest) := by
  rw [calculateIndex_kc name round p input m fuel hf _ j (by omega) (by omega)]
  have LA := leafComp_law (kcA (F := F) name p) (atrOwnT _ p rfl hp hn.kA hn.kT hn.AT)
  have LP := leafComp_law (kcP (F := F) name round p input m) (kcOwnT _ p input m (mkTop_kind _ _ _)
    (by rw [kcP_name]; exact hn.kE) (by rw [kcP_name]; exact hn.kA)
    (by rw [kcP_name]; exact hn.nE) (by rw [kcP_name]; exact hn.nA))
  have LEP : TComp.Law (TComp.seq (kcCompE (F := F) name p input hp hn hin) (kcCompP name round p input m hn)) :=
    TComp.seq_law (leafComp_law _ _) LP (kc_ok2 name round p input m hp hn hin)
  have hr := TComp.repro_seq LEP (kc_ok3 name round p input m hp hn hin)
    (TComp.repro_seq LA (kc_ok1 name p hp hn) (repro_leaf (kcT (F := F) name) (trT _ rfl)) (repro_leaf _ _))
    (TComp.repro_seq LP (kc_ok2 name round p input m hp hn hin) (repro_leaf (kcE (F := F) name p input) _)
      (repro_leaf _ _))
  exact TComp.index_reproduces (kcComp_law name round p input m hp hn hin) _ hr (fun _ _ _ _ _ => trivial)
    raw done rest hpl h j hj

/-- **KC: `calculate_index(0)` reproduces the batch state** – the helpers fall back to their full
`calculate()`, which changes nothing on a finished list -/
theorem kc_index0_reproduces (raw done : List (Candle F)) (hpl : ∀ c ∈ raw, Plain c)
    (h : Gen.rowMajor (kcTree (F := F) name round p input m hp hn hin).S raw = .ok done)
    (hj : 0 < done.length) (fuel : Nat) (hf : done.length + 12 ≤ fuel) :
    calculateIndex fuel (kcP (F := F) name round p input m) done 0 (0 + 1) = .ok done := by
  rw [calculateIndex_kc_zero name round p input m fuel done hf]
  have LA := leafComp_law (kcA (F := F) name p) (atrOwnT _ p rfl hp hn.kA hn.kT hn.AT)
  have LP := leafComp_law (kcP (F := F) name round p input m) (kcOwnT _ p input m (mkTop_kind _ _ _)
    (by rw [kcP_name]; exact hn.kE) (by rw [kcP_name]; exact hn.kA)
    (by rw [kcP_name]; exact hn.nE) (by rw [kcP_name]; exact hn.nA))
  have LTA : TComp.Law (TComp.seq (kcCompT (F := F) name) (kcCompA name p hp hn)) :=
    TComp.seq_law (leafComp_law _ _) LA (kc_ok1 name p hp hn)
  have LEP : TComp.Law (TComp.seq (kcCompE (F := F) name p input hp hn hin) (kcCompP name round p input m hn)) :=
    TComp.seq_law (leafComp_law _ _) LP (kc_ok2 name round p input m hp hn hin)
  have hr := TComp.repro0_seq LEP (kc_ok3 name round p input m hp hn hin) (Pre := fun _ => True)
    (TComp.repro0_pass LTA _)
    (TComp.repro0_seq LP (kc_ok2 name round p input m hp hn hin)
      (TComp.repro0_pass (leafComp_law (kcE (F := F) name p input) (emaT _ p input (fl 2) rfl hp hn.kE hin)) _)
      (TComp.repro0_of_repro LP (repro_leaf _ _)))
  exact TComp.index0_reproduces (kcComp_law name round p input m hp hn hin) _ hr (fun _ _ _ _ => trivial)
    raw done hpl h hj

end kc
/-! ### STDEVTHRES -/

section thres
variable (name : String) (round : Nat) (p : Int) (input : String) (m : Num F)

theorem calculateIndex_thres (fuel : Nat) (hf : 8 ≤ fuel) (cs : List (Candle F)) (i : Int) (hi : i ≠ 0)
    (hi1 : i + 1 ≠ 0) :
    calculateIndex fuel (thP (F := F) name round p input m) cs i (i + 1) = (do
      let c₁ ← stepWith (thS name p input) (thC name p input) cs i
      stepLeaf (thP name round p input m) c₁ i) := by
  obtain ⟨f, rfl⟩ : ∃ f, fuel = (f + 3 + 2) + 3 := ⟨fuel - 8, by omega⟩
  rw [calculateIndex_top_one _ _ (thP_subs name round p input m) rfl (f + 3 + 2) cs i hi hi1,
    show f + 3 + 2 + 1 = (f + 3 + 1) + 2 from rfl,
    calculateIndex_noSubs (thS name p input) rfl (f + 3 + 1) cs i,
    ownStep_with _ _ (thC name p input) cs i (thC_calc name p input (f + 2) cs i)]
  simp only [bind, Except.bind]
  cases stepWith (thS (F := F) name p input) (thC name p input) cs i with
  | error e => rfl
  | ok c₁ => exact ownStep_readOnly _ _ rfl c₁ i

theorem calculateIndex_thres_zero (fuel : Nat) (cs : List (Candle F)) (hf : cs.length + 12 ≤ fuel) :
    calculateIndex fuel (thP (F := F) name round p input m) cs 0 (0 + 1) = (do
      let c₁ ← Gen.nodeCalc (specWith (thS name p input) (thC name p input)) cs
      stepLeaf (thP name round p input m) c₁ 0) := by
  obtain ⟨f, rfl⟩ : ∃ f, fuel = f + 3 := ⟨fuel - 3, by omega⟩
  rw [calculateIndex_top_one_zero _ _ (thP_subs name round p input m) rfl f cs,
    calculate_with (thS name p input) rfl (thC name p input) (thC_calc name p input) (f + 1) cs (by omega)]
  simp only [bind, Except.bind]
  cases Gen.nodeCalc (specWith (thS (F := F) name p input) (thC name p input)) cs with
  | error e => rfl
  | ok c₁ => exact ownStep_readOnly _ _ rfl c₁ 0

variable (hp : 0 ≤ p) (hn : ThresNames name) (hin : NoDot input ∧ input ∈ Candle.attrNames)

theorem thres_ok : TComp.SeqOK (thCompS (F := F) name p input hp hn hin) (thCompP name round p input m hn hin) := by
  constructor <;> intro k hk <;>
    simp [thCompS, thCompP, dataComp, leafComp, stdevT, thS_name, thP_name] at hk ⊢ <;>
    rintro rfl <;>
    simp [hn.nS, hn.nD, hn.nS.symm, hn.nD.symm] at hk

theorem thres_index_reproduces (raw done rest : List (Candle F)) (hpl : ∀ c ∈ raw, Plain c)
    (h : Gen.rowMajor (thresTree (F := F) name round p input m hp hn hin).S raw = .ok done)
    (j : Nat) (hj : j < done.length) (h1 : 1 ≤ j) (fuel : Nat) (hf : 8 ≤ fuel) :
    calculateIndex fuel (thP (F := F) name round p input m) (done ++ rest) j (j + 1) = .ok (done ++ rest) := by
  rw [calculateIndex_thres name round p input m fuel hf _ j (by omega) (by omega)]
  have hr := TComp.repro_seq (leafComp_law _ _) (thres_ok name round p input m hp hn hin)
    (repro_data (thS (F := F) name p input) _ (stdevT _ p input rfl hp hn.sn hin) hn.sn.ne)
    (repro_leaf (thP (F := F) name round p input m) (thresOwnT _ p input m (mkTop_kind _ _ _)
      (by rw [thP_name]; exact hn.kS) (by rw [thP_name]; exact hn.nS) hin))
  exact TComp.index_reproduces (thComp_law name round p input m hp hn hin) _ hr (fun _ _ _ _ _ => trivial)
    raw done rest hpl h j hj

theorem thres_index0_reproduces (raw done : List (Candle F)) (hpl : ∀ c ∈ raw, Plain c)
    (h : Gen.rowMajor (thresTree (F := F) name round p input m hp hn hin).S raw = .ok done)
    (hj : 0 < done.length) (fuel : Nat) (hf : done.length + 12 ≤ fuel) :
    calculateIndex fuel (thP (F := F) name round p input m) done 0 (0 + 1) = .ok done := by
  rw [calculateIndex_thres_zero name round p input m fuel done hf]
  have LP := leafComp_law (thP (F := F) name round p input m) (thresOwnT _ p input m (mkTop_kind _ _ _)
      (by rw [thP_name]; exact hn.kS) (by rw [thP_name]; exact hn.nS) hin)
  have hr := TComp.repro0_seq LP (thres_ok name round p input m hp hn hin) (Pre := fun _ => True)
    (TComp.repro0_pass (dataComp_law (thS (F := F) name p input) _ (stdevT _ p input rfl hp hn.sn hin) hn.sn.ne) _)
    (TComp.repro0_of_repro LP (repro_leaf _ _))
  exact TComp.index0_reproduces (thComp_law name round p input m hp hn hin) _ hr (fun _ _ _ _ => trivial)
    raw done hpl h hj

end thres

/-! ### BBANDS -/

section bb
variable (name : String) (round : Nat) (p : Int) (input : String)

theorem calculateIndex_bb (fuel : Nat) (hf : 9 ≤ fuel) (cs : List (Candle F)) (i : Int) (hi : i ≠ 0)
    (hi1 : i + 1 ≠ 0) :
    calculateIndex fuel (bbP (F := F) name round p input) cs i (i + 1) = (do
      let c₁ ← stepWith (bbS name p input) (bbC name p input) cs i
      (do let c₂ ← stepLeaf (bbM name p input) c₁ i; stepLeaf (bbP name round p input) c₂ i)) := by
  obtain ⟨f, rfl⟩ : ∃ f, fuel = (f + 3) + 4 + 2 := ⟨fuel - 9, by omega⟩
  rw [show f + 3 + 4 + 2 = (f + 3 + 2) + 4 from rfl,
    calculateIndex_top_two _ _ _ (bbP_subs name round p input) rfl rfl (f + 3 + 2) cs i hi hi1,
    show f + 3 + 2 + 2 = (f + 3 + 2) + 2 from rfl,
    calculateIndex_noSubs (bbS name p input) rfl (f + 3 + 2) cs i,
    ownStep_with _ _ (bbC name p input) cs i (bbC_calc name p input (f + 3) cs i)]
  simp only [bind, Except.bind]
  cases stepWith (bbS (F := F) name p input) (bbC name p input) cs i with
  | error e => rfl
  | ok c₁ =>
    simp only
    rw [calculateIndex_leaf_single (bbM name p input) ⟨rfl, rfl, rfl⟩ _ c₁ i (by omega)]
    cases stepLeaf (bbM (F := F) name p input) c₁ i with
    | error e => rfl
    | ok c₂ => exact ownStep_readOnly _ _ rfl c₂ i

theorem calculateIndex_bb_zero (fuel : Nat) (cs : List (Candle F)) (hf : cs.length + 12 ≤ fuel) :
    calculateIndex fuel (bbP (F := F) name round p input) cs 0 (0 + 1) = (do
      let c₁ ← Gen.nodeCalc (specWith (bbS name p input) (bbC name p input)) cs
      (do let c₂ ← leafCalc (bbM name p input) c₁; stepLeaf (bbP name round p input) c₂ 0)) := by
  obtain ⟨f, rfl⟩ : ∃ f, fuel = f + 4 := ⟨fuel - 4, by omega⟩
  rw [calculateIndex_top_two_zero _ _ _ (bbP_subs name round p input) rfl rfl f cs,
    calculate_with (bbS name p input) rfl (bbC name p input) (bbC_calc name p input) (f + 2) cs (by omega)]
  simp only [bind, Except.bind]
  cases h1 : Gen.nodeCalc (specWith (bbS (F := F) name p input) (bbC name p input)) cs with
  | error e => rfl
  | ok c₁ =>
    simp only
    have l1 := nodeCalc_length _ _ (fun cs i v cs' h => stdev_length _ p input _ cs i v cs' h) cs c₁ h1
    rw [calculate_leaf (bbM name p input) ⟨rfl, rfl, rfl⟩ (f + 1) c₁ (by omega)]
    cases leafCalc (bbM (F := F) name p input) c₁ with
    | error e => rfl
    | ok c₂ => exact ownStep_readOnly _ _ rfl c₂ 0

variable (hp : 1 ≤ p) (hn : BbNames name) (hin : NoDot input ∧ input ∈ Candle.attrNames)

theorem bb_ok1 : TComp.SeqOK (bbCompM (F := F) name p input hp hn hin) (bbCompP name round p input hn) := by
  constructor <;> intro k hk <;>
    simp [bbCompM, bbCompP, leafComp, smaT, bbM_name, bbP_name] at hk ⊢ <;>
    rintro rfl <;>
    simp [hn.nM, hn.nM.symm] at hk

theorem bb_ok2 : TComp.SeqOK (bbCompS (F := F) name p input hp hn hin)
    (TComp.seq (bbCompM name p input hp hn hin) (bbCompP name round p input hn)) := by
  constructor <;> intro k hk <;>
    simp [TComp.seq, bbCompS, bbCompM, bbCompP, dataComp, leafComp, stdevT, bbS_name, bbM_name, bbP_name] at hk ⊢ <;>
    constructor <;> rintro rfl <;>
    simp [hn.nS, hn.nD, hn.nM, hn.SM, hn.DM, hn.nS.symm, hn.nD.symm, hn.nM.symm, hn.SM.symm, hn.DM.symm] at hk

theorem bb_index_reproduces (raw done rest : List (Candle F)) (hpl : ∀ c ∈ raw, Plain c)
    (h : Gen.rowMajor (bbTree (F := F) name round p input hp hn hin).S raw = .ok done)
    (j : Nat) (hj : j < done.length) (h1 : 1 ≤ j) (fuel : Nat) (hf : 9 ≤ fuel) :
    calculateIndex fuel (bbP (F := F) name round p input) (done ++ rest) j (j + 1) = .ok (done ++ rest) := by
  rw [calculateIndex_bb name round p input fuel hf _ j (by omega) (by omega)]
  have LP := leafComp_law (bbP (F := F) name round p input) (bbOwnT _ p input (mkTop_kind _ _ _)
    (by rw [bbP_name]; exact hn.kM) (by rw [bbP_name]; exact hn.kS)
    (by rw [bbP_name]; exact hn.nM) (by rw [bbP_name]; exact hn.nS))
  have LMP : TComp.Law (TComp.seq (bbCompM (F := F) name p input hp hn hin) (bbCompP name round p input hn)) :=
    TComp.seq_law (leafComp_law _ _) LP (bb_ok1 name round p input hp hn hin)
  have hr := TComp.repro_seq LMP (bb_ok2 name round p input hp hn hin)
    (repro_data (bbS (F := F) name p input) _ (stdevT _ p input rfl (by omega) hn.sn hin) hn.sn.ne)
    (TComp.repro_seq LP (bb_ok1 name round p input hp hn hin)
      (repro_leaf (bbM (F := F) name p input) (smaT _ p input rfl hp hn.kM hin)) (repro_leaf _ _))
  exact TComp.index_reproduces (bbComp_law name round p input hp hn hin) _ hr (fun _ _ _ _ _ => trivial)
    raw done rest hpl h j hj

theorem bb_index0_reproduces (raw done : List (Candle F)) (hpl : ∀ c ∈ raw, Plain c)
    (h : Gen.rowMajor (bbTree (F := F) name round p input hp hn hin).S raw = .ok done)
    (hj : 0 < done.length) (fuel : Nat) (hf : done.length + 12 ≤ fuel) :
    calculateIndex fuel (bbP (F := F) name round p input) done 0 (0 + 1) = .ok done := by
  rw [calculateIndex_bb_zero name round p input fuel done hf]
  have LP := leafComp_law (bbP (F := F) name round p input) (bbOwnT _ p input (mkTop_kind _ _ _)
    (by rw [bbP_name]; exact hn.kM) (by rw [bbP_name]; exact hn.kS)
    (by rw [bbP_name]; exact hn.nM) (by rw [bbP_name]; exact hn.nS))
  have LMP : TComp.Law (TComp.seq (bbCompM (F := F) name p input hp hn hin) (bbCompP name round p input hn)) :=
    TComp.seq_law (leafComp_law _ _) LP (bb_ok1 name round p input hp hn hin)
  have hr := TComp.repro0_seq LMP (bb_ok2 name round p input hp hn hin) (Pre := fun _ => True)
    (TComp.repro0_pass (dataComp_law (bbS (F := F) name p input) _ (stdevT _ p input rfl (by omega) hn.sn hin)
      hn.sn.ne) _)
    (TComp.repro0_seq LP (bb_ok1 name round p input hp hn hin)
      (TComp.repro0_pass (leafComp_law (bbM (F := F) name p input) (smaT _ p input rfl hp hn.kM hin)) _)
      (TComp.repro0_of_repro LP (repro_leaf _ _)))
  exact TComp.index0_reproduces (bbComp_law name round p input hp hn hin) _ hr (fun _ _ _ _ => trivial)
    raw done hpl h hj

end bb

/-! ### Supertrend -/

section st
variable (name : String) (round : Nat) (p : Int) (input : String) (m : Num F)

theorem calculateIndex_st (fuel : Nat) (hf : 8 ≤ fuel) (cs : List (Candle F)) (i : Int) (hi : i ≠ 0)
    (hi1 : i + 1 ≠ 0) :
    calculateIndex fuel (stP (F := F) name round p input m) cs i (i + 1) = (do
      let c₂ ← (do let c₁ ← stepLeaf (stTr name) cs i; stepLeaf (stA name p) c₁ i)
      (do let c₃ ← stepLeaf (stH name) c₂ i; stepWith (stP name round p input m) (stC name m) c₃ i)) := by
  obtain ⟨f, rfl⟩ : ∃ f, fuel = f + 4 + 4 := ⟨fuel - 8, by omega⟩
  rw [calculateIndex_top_two _ _ _ (stP_subs name round p input m) rfl rfl (f + 4) cs i hi hi1,
    calculateIndex_one_prior (stA name p) (stTr name) (stA_subs name p) rfl ⟨rfl, rfl, rfl⟩ rfl _ (by omega) cs i hi hi1]
  simp only [bind, Except.bind]
  cases stepLeaf (stTr (F := F) name) cs i with
  | error e => rfl
  | ok c₁ =>
    simp only
    cases stepLeaf (stA (F := F) name p) c₁ i with
    | error e => rfl
    | ok c₂ =>
      simp only
      rw [calculateIndex_leaf_single (stH name) ⟨rfl, rfl, rfl⟩ _ c₂ i (by omega)]
      cases stepLeaf (stH (F := F) name) c₂ i with
      | error e => rfl
      | ok c₃ =>
        simp only
        exact ownStep_with _ _ (stC name m) c₃ i (stC_calc name round p input m (f + 4) c₃ i)

theorem calculateIndex_st_zero (fuel : Nat) (cs : List (Candle F)) (hf : cs.length + 12 ≤ fuel) :
    calculateIndex fuel (stP (F := F) name round p input m) cs 0 (0 + 1) = (do
      let c₂ ← (do let c₁ ← leafCalc (stTr name) cs; leafCalc (stA name p) c₁)
      (do let c₃ ← leafCalc (stH name) c₂; stepWith (stP name round p input m) (stC name m) c₃ 0)) := by
  obtain ⟨f, rfl⟩ : ∃ f, fuel = f + 4 + 4 := ⟨fuel - 8, by omega⟩
  rw [calculateIndex_top_two_zero _ _ _ (stP_subs name round p input m) rfl rfl (f + 4) cs,
    calculate_one_prior (stA name p) (stTr name) (stA_subs name p) rfl ⟨rfl, rfl, rfl⟩ rfl rfl _ cs (by omega)]
  simp only [bind, Except.bind]
  cases h1 : leafCalc (stTr (F := F) name) cs with
  | error e => rfl
  | ok c₁ =>
    simp only
    have l1 := leafCalc_length _ cs c₁ h1
    cases h2 : leafCalc (stA (F := F) name p) c₁ with
    | error e => rfl
    | ok c₂ =>
      simp only
      have l2 := leafCalc_length _ c₁ c₂ h2
      rw [calculate_leaf (stH name) ⟨rfl, rfl, rfl⟩ _ c₂ (by omega)]
      cases leafCalc (stH (F := F) name) c₂ with
      | error e => rfl
      | ok c₃ =>
        simp only
        exact ownStep_with _ _ (stC name m) c₃ 0 (stC_calc name round p input m (f + 4) c₃ 0)

variable (hp : 1 ≤ p) (hn : StNames name)

theorem st_ok1 : TComp.SeqOK (stCompT (F := F) name) (stCompA name p hp hn) := by
  constructor <;> intro k hk <;>
    simp [stCompT, stCompA, leafComp, trT, atrOwnT, stTr_name, stA_name] at hk ⊢ <;>
    rintro rfl <;>
    simp [hn.AT, hn.AT.symm] at hk

theorem st_ok2 : TComp.SeqOK (stCompH (F := F) name) (stCompP name round p input m hn) := by
  constructor <;> intro k hk <;>
    simp [stCompH, stCompP, leafComp, dataComp, hlaT, stH_name, stP_name] at hk ⊢ <;>
    constructor <;> rintro rfl <;>
    simp [hn.nH, hn.HD, hn.nH.symm, hn.HD.symm] at hk

theorem st_ok3 : TComp.SeqOK (TComp.seq (stCompT (F := F) name) (stCompA name p hp hn))
    (TComp.seq (stCompH name) (stCompP name round p input m hn)) := by
  constructor <;> intro k hk <;>
    simp [TComp.seq, stCompT, stCompA, stCompH, stCompP, leafComp, dataComp, trT, atrOwnT, hlaT, stTr_name,
      stA_name, stH_name, stP_name] at hk ⊢ <;>
    refine ⟨?_, ?_, ?_⟩ <;> rintro rfl <;>
    simp [hn.nA, hn.nT, hn.nH, hn.nD, hn.AT, hn.AH, hn.AD, hn.TH, hn.TD, hn.HD, hn.nA.symm, hn.nT.symm,
      hn.nH.symm, hn.nD.symm, hn.AT.symm, hn.AH.symm, hn.AD.symm, hn.TH.symm, hn.TD.symm, hn.HD.symm] at hk

theorem st_index_reproduces (raw done rest : List (Candle F)) (hpl : ∀ c ∈ raw, Plain c)
    (h : Gen.rowMajor (stTree (F := F) name round p input m hp hn).S raw = .ok done)
    (j : Nat) (hj : j < done.length) (h1 : 1 ≤ j) (fuel : Nat) (hf : 8 ≤ fuel) :
    calculateIndex fuel (stP (F := F) name round p input m) (done ++ rest) j (j + 1) = .ok (done ++ rest) := by
  rw [calculateIndex_st name round p input m fuel hf _ j (by omega) (by omega)]
  have LA := leafComp_law (stA (F := F) name p) (atrOwnT _ p rfl hp hn.kA hn.kT hn.AT)
  have LP := dataComp_law (stP (F := F) name round p input m) _
    (stT _ p input m (mkTop_kind _ _ _) (by rw [stP_name]; exact hn)) (by rw [stP_name]; exact hn.nD)
  have LHP : TComp.Law (TComp.seq (stCompH (F := F) name) (stCompP name round p input m hn)) :=
    TComp.seq_law (leafComp_law _ _) LP (st_ok2 name round p input m hn)
  have hr := TComp.repro_seq LHP (st_ok3 name round p input m hp hn)
    (TComp.repro_seq LA (st_ok1 name p hp hn) (repro_leaf (stTr (F := F) name) (trT _ rfl)) (repro_leaf _ _))
    (TComp.repro_seq LP (st_ok2 name round p input m hn) (repro_leaf (stH (F := F) name) (hlaT _ rfl))
      (repro_data (stP (F := F) name round p input m) _
        (stT _ p input m (mkTop_kind _ _ _) (by rw [stP_name]; exact hn)) (by rw [stP_name]; exact hn.nD)))
  exact TComp.index_reproduces (stComp_law name round p input m hp hn) _ hr (fun _ _ _ _ _ => trivial)
    raw done rest hpl h j hj

theorem st_index0_reproduces (raw done : List (Candle F)) (hpl : ∀ c ∈ raw, Plain c)
    (h : Gen.rowMajor (stTree (F := F) name round p input m hp hn).S raw = .ok done)
    (hj : 0 < done.length) (fuel : Nat) (hf : done.length + 12 ≤ fuel) :
    calculateIndex fuel (stP (F := F) name round p input m) done 0 (0 + 1) = .ok done := by
  rw [calculateIndex_st_zero name round p input m fuel done hf]
  have LA := leafComp_law (stA (F := F) name p) (atrOwnT _ p rfl hp hn.kA hn.kT hn.AT)
  have LP := dataComp_law (stP (F := F) name round p input m) _
    (stT _ p input m (mkTop_kind _ _ _) (by rw [stP_name]; exact hn)) (by rw [stP_name]; exact hn.nD)
  have LTA : TComp.Law (TComp.seq (stCompT (F := F) name) (stCompA name p hp hn)) :=
    TComp.seq_law (leafComp_law _ _) LA (st_ok1 name p hp hn)
  have LHP : TComp.Law (TComp.seq (stCompH (F := F) name) (stCompP name round p input m hn)) :=
    TComp.seq_law (leafComp_law _ _) LP (st_ok2 name round p input m hn)
  have hr := TComp.repro0_seq LHP (st_ok3 name round p input m hp hn) (Pre := fun _ => True)
    (TComp.repro0_pass LTA _)
    (TComp.repro0_seq LP (st_ok2 name round p input m hn)
      (TComp.repro0_pass (leafComp_law (stH (F := F) name) (hlaT _ rfl)) _)
      (TComp.repro0_of_repro LP (repro_data (stP (F := F) name round p input m) _
        (stT _ p input m (mkTop_kind _ _ _) (by rw [stP_name]; exact hn)) (by rw [stP_name]; exact hn.nD))))
  exact TComp.index0_reproduces (stComp_law name round p input m hp hn) _ hr (fun _ _ _ _ => trivial)
    raw done hpl h hj

end st
end Hex

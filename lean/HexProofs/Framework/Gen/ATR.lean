import HexProofs.Framework.Gen.Prior
/-
Family (2) instance: ATR with its prior TR helper.
-/
namespace Hex
set_option linter.unusedSectionVars false
variable {F : Type} [PyF F]

/-- reading a plain key other than `name` does not see the entry stored under `name` -/
theorem indep_key (name nm : String) (hk : IsKey nm) (hne : name ≠ nm) : Indep F name nm := by
  intro isSub v c
  rw [readingByCandle_key nm hk, readingByCandle_key nm hk]
  unfold lookupKey setKey
  cases isSub <;> simp [dlookup_dset_ne _ _ _ _ hne]

theorem attr_bare (c : Candle F) (nm : String) : c.bare.attr nm = c.attr nm := rfl

/-- candle attributes only depend on the bare candle -/
theorem readingByCandle_attr_bare (nm : String) (hd : NoDot nm) (hin : nm ∈ Candle.attrNames)
    (a b : Candle F) (h : a.bare = b.bare) : readingByCandle a nm = readingByCandle b nm := by
  obtain ⟨w, hw⟩ := attr_some_of_mem a nm hin
  have hb : b.attr nm = some w := by rw [← attr_bare b, ← h, attr_bare]; exact hw
  rw [readingByCandle_attr nm hd a w hw, readingByCandle_attr nm hd b w hb]

theorem col_attr_bare (nm : String) (hd : NoDot nm) (hin : nm ∈ Candle.attrNames)
    (cs cs' : List (Candle F)) (h : cs.map Candle.bare = cs'.map Candle.bare) : col nm cs = col nm cs' := by
  unfold col
  induction cs generalizing cs' with
  | nil => cases cs' with | nil => rfl | cons _ _ => simp at h
  | cons a r ih =>
    cases cs' with
    | nil => simp at h
    | cons b r' =>
      simp only [List.map_cons, List.cons.injEq] at h ⊢
      exact ⟨readingByCandle_attr_bare nm hd hin a b h.1, ih r' h.2⟩

/-! ### TR as a helper -/

theorem tr_localAll (X : Ind F) (hk : X.kind = .tr) : LocalAll X := by
  intro H c rest
  unfold valOf
  rw [hk, ← trunc_append_cons H c rest]
  exact (tr_trunc _ (by simp) (by simp)).symm

theorem tr_ign (X : Ind F) (hk : X.kind = .tr) (H H' : List (Candle F)) (c c' : Candle F)
    (hb : H.map Candle.bare = H'.map Candle.bare) (hc : c.bare = c'.bare) :
    valOf X H c = valOf X H' c' := by
  unfold valOf
  rw [hk]
  have hlen : H.length = H'.length := by simpa using congrArg List.length hb
  have hall : (H ++ [c]).map Candle.bare = (H' ++ [c']).map Candle.bare := by simp [hb, hc]
  rw [hlen]
  exact tr_congr _ _
    ⟨rfl, col_attr_bare "high" noDot_high (by decide) _ _ hall⟩
    ⟨rfl, col_attr_bare "low" noDot_low (by decide) _ _ hall⟩
    ⟨rfl, col_attr_bare "close" noDot_close (by decide) _ _ hall⟩

/-! ### ATR's own reading -/

theorem atr_trunc (x : Ctx F) (p : Int) (trName : String) (h0 : 0 ≤ x.i) (hi : x.i < x.cs.length)
    (hp : 1 ≤ p) : Calc.atr x.trunc p trName = Calc.atr x p trName := by
  unfold Calc.atr
  simp (config := { contextual := true }) only [Ctx.trunc_name, Ctx.prevExists_trunc x _ h0 hi,
    Ctx.prevNum_trunc x _ h0 hi, Ctx.num_trunc_cur x _ h0, Ctx.readingPeriod_trunc x p _ h0 hi hp,
    Ctx.candlesSum_trunc_of_period x p _ h0 hi hp]

theorem atr_congr (x y : Ctx F) (p : Int) (trName : String) (ht : Ctx.SameCol trName x y)
    (hpe : x.prevExists x.name = y.prevExists y.name) (hpn : x.prevNum x.name = y.prevNum y.name) :
    Calc.atr x p trName = Calc.atr y p trName := by
  unfold Calc.atr
  rw [hpe, hpn, Ctx.num_congr ht, Ctx.readingPeriod_congr ht, Ctx.candlesSum_congr ht]

/-- name conditions of an ATR node: the helper's name is an ordinary key different from the node's -/
structure AtrNames (name : String) : Prop where
  trkey : IsKey (name ++ "_TR")
  ne : name ++ "_TR" ≠ name

/-- **ATR with its TR helper is a prior pair** (`period ≥ 1`). -/
theorem atr_pair (name : String) (round : Nat) (p : Int) (hp : 1 ≤ p) (hn : AtrNames name) :
    PriorPair (mkTop (.atr p : Kind F) name round) (leaf .tr (name ++ "_TR")) where
  subs := rfl
  managed := rfl
  readOnly := rfl
  top := rfl
  xleaf := ⟨rfl, rfl, rfl⟩
  xsub := rfl
  xprior := rfl
  ne := hn.ne
  locX := tr_localAll _ rfl
  locP := by
    intro H c rest
    unfold valOf
    rw [mkTop_kind, ← trunc_append_cons H c rest]
    exact (atr_trunc _ p _ (by simp) (by simp) hp).symm
  ignX := tr_ign _ rfl
  keyP := by
    intro H c v w _
    unfold valOf
    rw [mkTop_kind]
    have hnm : (mkTop (.atr p : Kind F) name round).name = name := mkTop_name _ _ _
    show Calc.atr _ p _ = Calc.atr _ p _
    refine atr_congr _ _ p _ ?_ ?_ ?_
    · simp only [hnm]
      exact sameCol_last _ H _ _ _ (by
        unfold decOf
        rw [hnm]
        exact indep_key name (name ++ "_TR") hn.trkey (Ne.symm hn.ne) _ _ _)
    · rw [Ctx.prevExists_append_cons, Ctx.prevExists_append_cons]
    · rw [Ctx.prevNum_append_cons, Ctx.prevNum_append_cons]

/-- **ATR as a tree with a row-major spec.** -/
def atrTree (name : String) (round : Nat) (p : Int) (hp : 1 ≤ p) (hn : AtrNames name) :
    TreeSpec (mkTop (.atr p : Kind F) name round) :=
  TreeSpec.ofPair (atr_pair name round p hp hn)

end Hex

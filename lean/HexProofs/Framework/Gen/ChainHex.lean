import HexProofs.Framework.Gen.Chain
import HexProofs.Writes.Twin
import HexProofs.Lib.IntInst
/-
Indicator-on-indicator inputs, Hexital level: a `Hexital` with a source member `A` and a dependent
member `B` (both without own timeframe, hence both on the default manager).  `Hexital.calculate()` is
"`A.calculate()` then `B.calculate()`" on the default manager's candles, `Hexital.append` is the
manager's append followed by that – `Chain.engRun` of the pair engine.  With `Chain.pairSpec` this gives
C01 for the pair: every live history that returns ends with the candles of the batch Hexital.
-/
namespace Hex.Chain
set_option linter.unusedSectionVars false
variable {F : Type} [PyF F]

/-- a member without its own timeframe -/
def plainMember (A : Ind F) : Member F := { tree := A, tfName := none, tfSecs := none }

/-- the Hexital of the pair over the default manager's candles `cs` -/
def pairHx (A B : Ind F) (cfgH : MgrCfg) (tfn : Option String) (cfg : MgrCfg) (cs : List (Candle F)) (a b : Int) :
    Hexital F :=
  { cfg := cfgH, tfName := tfn, managers := [(defaultKey, { cfg := cfg, candles := cs })],
    indicators := [(A.name, { tree := A, mgrKey := defaultKey, active := a }),
                   (B.name, { tree := B, mgrKey := defaultKey, active := b })] }

theorem withInd_fst (A B : Ind F) (cfgH : MgrCfg) (tfn : Option String)
    (cfg : MgrCfg) (cs : List (Candle F)) (a b : Int) (f : IndState F → PyM (IndState F)) :
    (pairHx A B cfgH tfn cfg cs a b).withInd A.name f = (do
      let s ← f { tree := A, mgr := { cfg := cfg, candles := cs }, active := a }
      pure { cfg := cfgH, tfName := tfn, managers := [(defaultKey, s.mgr)],
             indicators := [(A.name, { tree := A, mgrKey := defaultKey, active := s.active }),
                            (B.name, { tree := B, mgrKey := defaultKey, active := b })] }) := by
  unfold Hexital.withInd pairHx
  simp only [dlookup, if_true, Hexital.manager, Hexital.setManager, dset, bind, Except.bind, pure, Except.pure]

theorem withInd_snd (A B : Ind F) (hne : A.name ≠ B.name) (cfgH : MgrCfg) (tfn : Option String)
    (cfg : MgrCfg) (cs : List (Candle F)) (a b : Int) (f : IndState F → PyM (IndState F)) :
    (pairHx A B cfgH tfn cfg cs a b).withInd B.name f = (do
      let s ← f { tree := B, mgr := { cfg := cfg, candles := cs }, active := b }
      pure { cfg := cfgH, tfName := tfn, managers := [(defaultKey, s.mgr)],
             indicators := [(A.name, { tree := A, mgrKey := defaultKey, active := a }),
                            (B.name, { tree := B, mgrKey := defaultKey, active := s.active })] }) := by
  unfold Hexital.withInd pairHx
  simp only [dlookup, hne, if_true, if_false, Hexital.manager, Hexital.setManager, dset, bind, Except.bind, pure,
    Except.pure]

theorem calculate_pair (A B : Ind F) (hne : A.name ≠ B.name) (cfgH : MgrCfg) (tfn : Option String)
    (cfg : MgrCfg) (cs : List (Candle F)) (a b : Int) :
    (pairHx A B cfgH tfn cfg cs a b).calculate none = (do
      let sA ← IndState.calculate { tree := A, mgr := { cfg := cfg, candles := cs }, active := a }
      let sB ← IndState.calculate { tree := B, mgr := sA.mgr, active := b }
      pure { cfg := cfgH, tfName := tfn, managers := [(defaultKey, sB.mgr)],
             indicators := [(A.name, { tree := A, mgrKey := defaultKey, active := sA.active }),
                            (B.name, { tree := B, mgrKey := defaultKey, active := sB.active })] }) := by
  unfold Hexital.calculate Hexital.forEach
  have hkeys : (pairHx A B cfgH tfn cfg cs a b).indicators.map (·.1) = [A.name, B.name] := rfl
  rw [hkeys]
  simp only [List.foldlM_cons, List.foldlM_nil, Option.isNone_none, Bool.true_or, if_true]
  rw [withInd_fst]
  cases hA : IndState.calculate ({ tree := A, mgr := { cfg := cfg, candles := cs }, active := a } : IndState F) with
  | error e => rfl
  | ok sA =>
    obtain ⟨tA, ⟨cA, csA⟩, aA⟩ := sA
    simp only [bind, Except.bind, pure, Except.pure]
    have := withInd_snd A B hne cfgH tfn cA csA aA b IndState.calculate
    unfold pairHx at this
    rw [this]
    cases IndState.calculate ({ tree := B, mgr := { cfg := cA, candles := csA }, active := b } : IndState F) <;> rfl

/-- the managers' half of `Hexital.append` on the pair -/
theorem feed_pair (A B : Ind F) (cfgH : MgrCfg) (tfn : Option String) (cfg : MgrCfg) (cs : List (Candle F)) (a b : Int) (new : List (Candle F)) :
    (pairHx A B cfgH tfn cfg cs a b).feedManagers new = (do
      let m ← Manager.append { cfg := cfg, candles := cs } new
      pure (pairHx A B cfgH tfn m.cfg m.candles a b)) := by
  unfold Hexital.feedManagers Hexital.feedOrder pairHx
  simp only [List.map_cons, List.map_nil, List.drop_succ_cons, List.drop_zero, List.take_succ_cons, List.take_zero,
    List.nil_append, List.foldlM_cons, List.foldlM_nil, Hexital.feedOne, Hexital.manager, dlookup, if_true,
    Hexital.setManager, dset, bind, Except.bind, pure, Except.pure]
  cases Manager.append ({ cfg := cfg, candles := cs } : Manager F) new <;> rfl

theorem Manager.append_cfg (m m' : Manager F) (new : List (Candle F)) (h : m.append new = .ok m') :
    m'.cfg = m.cfg := by
  unfold Manager.append at h
  by_cases he : new.isEmpty = true
  · simp only [he, if_true] at h; cases h; rfl
  · simp only [he, Bool.false_eq_true, if_false] at h
    obtain ⟨c, _, h⟩ := Writes.bind_ok h
    cases h; rfl

section steps
variable (A B : Ind F) (hne : A.name ≠ B.name) (cfgH : MgrCfg) (tfn : Option String) (cfg : MgrCfg)
include hne

/-- `Hexital.calculate()` of the pair, when it returns: the pair engine on the default manager's candles -/
theorem calculate_pair_ok (cs : List (Candle F)) (a b : Int) (H' : Hexital F)
    (h : (pairHx A B cfgH tfn cfg cs a b).calculate none = .ok H') :
    ∃ cs' a' b', H' = pairHx A B cfgH tfn cfg cs' a' b' ∧ pairEngine A B cs = .ok cs' := by
  rw [calculate_pair A B hne] at h
  obtain ⟨sA, hA, h⟩ := Writes.bind_ok h
  obtain ⟨sB, hB, h⟩ := Writes.bind_ok h
  cases h
  obtain ⟨tA, cA, eA⟩ := IndState.calculate_ok_engine _ sA hA
  obtain ⟨tB, cB, eB⟩ := IndState.calculate_ok_engine _ sB hB
  simp only at tA cA eA tB cB eB
  refine ⟨sB.mgr.candles, sA.active, sB.active, ?_, ?_⟩
  · unfold pairHx
    have : sB.mgr = { cfg := cfg, candles := sB.mgr.candles } := by
      obtain ⟨t, ⟨c, k⟩, ac⟩ := sB
      simp only at cB ⊢
      rw [cB, cA]
    rw [← this]
  · show (do let c ← engineCalc A cs; engineCalc B c) = .ok sB.mgr.candles
    rw [eA]
    exact eB

/-- … and conversely -/
theorem calculate_pair_of (cs cs' : List (Candle F)) (a b : Int) (h : pairEngine A B cs = .ok cs') :
    ∃ a' b', (pairHx A B cfgH tfn cfg cs a b).calculate none = .ok (pairHx A B cfgH tfn cfg cs' a' b') := by
  change (do let c ← engineCalc A cs; engineCalc B c) = .ok cs' at h
  obtain ⟨c₁, h1, h2⟩ := Writes.bind_ok h
  obtain ⟨sA, hA, hcA⟩ := IndState.calculate_of_engine
    ({ tree := A, mgr := { cfg := cfg, candles := cs }, active := a } : IndState F) c₁ h1
  obtain ⟨_, cA⟩ := IndState.calculate_ok_frame _ sA hA
  simp only at cA
  obtain ⟨sB, hB, hcB⟩ := IndState.calculate_of_engine
    ({ tree := B, mgr := sA.mgr, active := b } : IndState F) cs' (by simpa [hcA] using h2)
  obtain ⟨_, cB⟩ := IndState.calculate_ok_frame _ sB hB
  simp only at cB
  refine ⟨sA.active, sB.active, ?_⟩
  rw [calculate_pair A B hne, hA]
  simp only [bind, Except.bind]
  rw [hB]
  simp only [pure, Except.pure]
  unfold pairHx
  have : sB.mgr = { cfg := cfg, candles := cs' } := by
    obtain ⟨t, ⟨c, k⟩, ac⟩ := sB
    simp only at cB hcB ⊢
    rw [cB, cA, hcB]
  rw [this]

/-- `Hexital.append(candles)` of the pair, when it returns -/
theorem append_pair_ok (cs : List (Candle F)) (a b : Int) (new : List (Candle F)) (H' : Hexital F)
    (h : (pairHx A B cfgH tfn cfg cs a b).append new = .ok H') :
    ∃ cs' a' b', H' = pairHx A B cfgH tfn cfg cs' a' b' ∧ engAppend cfg (pairEngine A B) cs new = .ok cs' := by
  unfold Hexital.append at h
  rw [feed_pair] at h
  obtain ⟨H1, h1, h2⟩ := Writes.bind_ok h
  obtain ⟨m, hm, h1⟩ := Writes.bind_ok h1
  cases h1
  have hc := Manager.append_cfg _ m new hm
  simp only at hc
  rw [hc] at h2
  obtain ⟨cs', a', b', hH, he⟩ := calculate_pair_ok A B hne cfgH tfn cfg m.candles a b H' h2
  refine ⟨cs', a', b', hH, ?_⟩
  unfold engAppend
  rw [hm]
  exact he

theorem append_pair_of (cs cs' : List (Candle F)) (a b : Int) (new : List (Candle F))
    (h : engAppend cfg (pairEngine A B) cs new = .ok cs') :
    ∃ a' b', (pairHx A B cfgH tfn cfg cs a b).append new = .ok (pairHx A B cfgH tfn cfg cs' a' b') := by
  unfold engAppend at h
  obtain ⟨m, hm, h⟩ := Writes.bind_ok h
  have hc := Manager.append_cfg _ m new hm
  simp only at hc
  obtain ⟨a', b', hcal⟩ := calculate_pair_of A B hne cfgH tfn cfg m.candles cs' a b h
  refine ⟨a', b', ?_⟩
  unfold Hexital.append
  rw [feed_pair, hm]
  simp only [bind, Except.bind, pure, Except.pure]
  rw [hc]
  exact hcal

theorem appends_pair_ok (chunks : List (List (Candle F))) :
    ∀ (cs : List (Candle F)) (a b : Int) (H' : Hexital F),
      chunks.foldlM (fun (h : Hexital F) ch => h.append ch) (pairHx A B cfgH tfn cfg cs a b) = .ok H' →
      ∃ cs' a' b', H' = pairHx A B cfgH tfn cfg cs' a' b' ∧
        chunks.foldlM (engAppend cfg (pairEngine A B)) cs = .ok cs' := by
  induction chunks with
  | nil =>
    intro cs a b H' h
    simp only [List.foldlM_nil, pure, Except.pure] at h
    cases h
    exact ⟨cs, a, b, rfl, rfl⟩
  | cons ch rest ih =>
    intro cs a b H' h
    rw [List.foldlM_cons] at h
    obtain ⟨H1, h1, h2⟩ := Writes.bind_ok h
    obtain ⟨cs₁, a₁, b₁, rfl, he⟩ := append_pair_ok A B hne cfgH tfn cfg cs a b ch H1 h1
    obtain ⟨cs', a', b', hH, hf⟩ := ih cs₁ a₁ b₁ H' h2
    refine ⟨cs', a', b', hH, ?_⟩
    rw [List.foldlM_cons, he]
    exact hf

theorem appends_pair_of (chunks : List (List (Candle F))) :
    ∀ (cs cs' : List (Candle F)) (a b : Int),
      chunks.foldlM (engAppend cfg (pairEngine A B)) cs = .ok cs' →
      ∃ a' b', chunks.foldlM (fun (h : Hexital F) ch => h.append ch) (pairHx A B cfgH tfn cfg cs a b)
        = .ok (pairHx A B cfgH tfn cfg cs' a' b') := by
  induction chunks with
  | nil =>
    intro cs cs' a b h
    simp only [List.foldlM_nil, pure, Except.pure] at h
    cases h
    exact ⟨a, b, rfl⟩
  | cons ch rest ih =>
    intro cs cs' a b h
    rw [List.foldlM_cons] at h
    obtain ⟨cs₁, h1, h2⟩ := Writes.bind_ok h
    obtain ⟨a₁, b₁, he⟩ := append_pair_of A B hne cfgH tfn cfg cs cs₁ a b ch h1
    obtain ⟨a', b', hf⟩ := ih cs₁ cs' a₁ b₁ h2
    refine ⟨a', b', ?_⟩
    rw [List.foldlM_cons, he]
    exact hf

end steps

/-! ### construction and the whole history -/

theorem init_pair (A B : Ind F) (hne : A.name ≠ B.name) (cfg : MgrCfg) (tfn : Option String)
    (cs : List (Candle F)) :
    Hexital.init cfg tfn cs [plainMember A, plainMember B] = (do
      let dm ← tasks cfg cs
      pure (pairHx A B cfg tfn cfg dm 0 0)) := by
  unfold Hexital.init Manager.init
  have hd : Hexital.dedupe [plainMember A, plainMember B] = [plainMember A, plainMember B] := by
    unfold Hexital.dedupe plainMember
    simp [List.foldl, dset, hne]
  rw [hd]
  cases tasks cfg cs with
  | error e => rfl
  | ok dm =>
    simp only [bind, Except.bind, pure, Except.pure, List.foldlM_cons, List.foldlM_nil, Hexital.attachFrom, plainMember,
      dset, hne, if_false]
    rfl

/-- the live history of the pair: construct the Hexital over `init` with the members `A`, `B`
(neither with an own timeframe), `calculate()`, then `append` every chunk -/
def pairRun (A B : Ind F) (cfg : MgrCfg) (tfn : Option String) (init : List (Candle F))
    (chunks : List (List (Candle F))) : PyM (Hexital F) :=
  runHexital cfg tfn init [plainMember A, plainMember B] (.calculate none :: chunks.map .append)

/-- the candles of the default manager -/
def defaultCandles (r : PyM (Hexital F)) : PyM (List (Candle F)) := do
  let h ← r
  let m ← h.manager defaultKey
  pure m.candles

theorem foldlM_map_append (chunks : List (List (Candle F))) (h : Hexital F) :
    (chunks.map TwinOp.append).foldlM TwinOp.runHex h = chunks.foldlM (fun (h : Hexital F) ch => h.append ch) h := by
  induction chunks generalizing h with
  | nil => rfl
  | cons ch rest ih =>
    simp only [List.map_cons, List.foldlM_cons, TwinOp.runHex]
    cases h.append ch with
    | error e => rfl
    | ok h' => exact ih h'

section run
variable (A B : Ind F) (hne : A.name ≠ B.name) (cfg : MgrCfg) (tfn : Option String)
include hne

/-- the live Hexital history of the pair, when it returns, is the engine run of the pair engine … -/
theorem pairRun_ok (init : List (Candle F)) (chunks : List (List (Candle F))) (H : Hexital F)
    (h : pairRun A B cfg tfn init chunks = .ok H) :
    ∃ cs a b, H = pairHx A B cfg tfn cfg cs a b ∧ engRun cfg (pairEngine A B) init chunks = .ok cs := by
  unfold pairRun runHexital at h
  rw [init_pair A B hne] at h
  obtain ⟨H0, h0, h⟩ := Writes.bind_ok h
  obtain ⟨dm, hdm, h0⟩ := Writes.bind_ok h0
  cases h0
  rw [List.foldlM_cons] at h
  obtain ⟨H1, h1, h⟩ := Writes.bind_ok h
  obtain ⟨cs₁, a₁, b₁, rfl, he⟩ := calculate_pair_ok A B hne cfg tfn cfg dm 0 0 H1 h1
  rw [foldlM_map_append] at h
  obtain ⟨cs', a', b', hH, hf⟩ := appends_pair_ok A B hne cfg tfn cfg chunks cs₁ a₁ b₁ H h
  refine ⟨cs', a', b', hH, ?_⟩
  unfold engRun Manager.init
  rw [hdm]
  simp only [bind, Except.bind, pure, Except.pure]
  rw [he]
  exact hf

/-- … and conversely -/
theorem pairRun_of (init : List (Candle F)) (chunks : List (List (Candle F))) (cs : List (Candle F))
    (h : engRun cfg (pairEngine A B) init chunks = .ok cs) :
    ∃ a b, pairRun A B cfg tfn init chunks = .ok (pairHx A B cfg tfn cfg cs a b) := by
  unfold engRun Manager.init at h
  obtain ⟨m, hm, h⟩ := Writes.bind_ok h
  obtain ⟨dm, hdm, hm⟩ := Writes.bind_ok hm
  cases hm
  obtain ⟨cs₁, h1, h⟩ := Writes.bind_ok h
  obtain ⟨a₁, b₁, hc⟩ := calculate_pair_of A B hne cfg tfn cfg dm cs₁ 0 0 h1
  obtain ⟨a', b', hf⟩ := appends_pair_of A B hne cfg tfn cfg chunks cs₁ cs a₁ b₁ h
  refine ⟨a', b', ?_⟩
  unfold pairRun runHexital
  rw [init_pair A B hne, hdm]
  simp only [bind, Except.bind, pure, Except.pure]
  rw [List.foldlM_cons]
  show (do let s' ← (pairHx A B cfg tfn cfg dm 0 0).calculate none; _) = _
  rw [hc]
  simp only [bind, Except.bind]
  rw [foldlM_map_append]
  exact hf

end run

/-! ### C01 for the pair -/

/-- **Hexital level (goal 3), generic in the two components and in the manager** (base timeframe,
collapsing timeframe, timeframe + fill: any `MgrSpec`).  Source tree `A` given as a lawful component
reading within its own names, dependent tree `B` given as a lawful component (e.g. `depComp`: a leaf
whose input is `A`'s key or a dotted field of it), disjoint names.  Whenever the live history
`Hexital(init, [A, B])`, `calculate()`, `append(chunk)`… returns, the batch Hexital over the whole stream
returns too, with the same managers (one manager, `default`: same candles – OHLCV, stamps, `A`'s readings
and helper series, `B`'s readings), and those candles are the row-major run of the pair's spec over the
manager spec of the whole stream. -/
theorem pair_live_eq_batch {A B : Ind F} (SA : TreeComp A) (SB : TreeComp B)
    (hclosed : SA.ReadsWithin A.allNames) (hdis : ∀ k ∈ A.allNames, k ∉ B.allNames)
    (M : MgrSpec F) (tfn : Option String) (init : List (Candle F)) (chunks : List (List (Candle F)))
    (hok : M.Ok (init ++ chunks.flatten)) (H : Hexital F)
    (hlive : pairRun A B M.cfg tfn init chunks = .ok H) :
    ∃ Hb cs, pairRun A B M.cfg tfn (init ++ chunks.flatten) [] = .ok Hb ∧
      Hb.managers = H.managers ∧ H.managers = [(defaultKey, { cfg := M.cfg, candles := cs })] ∧
      Gen.rowMajor (pairSpec SA SB hclosed hdis).S (M.spec (init ++ chunks.flatten)) = .ok cs := by
  have hne : A.name ≠ B.name := fun e => hdis _ A.name_mem_names (e ▸ B.name_mem_names)
  obtain ⟨cs, a, b, rfl, he⟩ := pairRun_ok A B hne M.cfg tfn init chunks H hlive
  have hrow := (pairSpec SA SB hclosed hdis).live_refines M init chunks hok cs he
  have hb := (pairSpec SA SB hclosed hdis).live_eq_batch M init chunks hok cs he
  obtain ⟨a', b', hB⟩ := pairRun_of A B hne M.cfg tfn (init ++ chunks.flatten) [] cs hb
  exact ⟨_, cs, hB, rfl, rfl, hrow⟩

/-- the batch Hexital returns iff the pair's row-major run over the manager spec does -/
theorem pair_batch_iff {A B : Ind F} (SA : TreeComp A) (SB : TreeComp B)
    (hclosed : SA.ReadsWithin A.allNames) (hdis : ∀ k ∈ A.allNames, k ∉ B.allNames)
    (M : MgrSpec F) (tfn : Option String) (stream : List (Candle F)) (hok : M.Ok stream)
    (cs : List (Candle F)) :
    (∃ a b, pairRun A B M.cfg tfn stream [] = .ok (pairHx A B M.cfg tfn M.cfg cs a b)) ↔
      Gen.rowMajor (pairSpec SA SB hclosed hdis).S (M.spec stream) = .ok cs := by
  have hne : A.name ≠ B.name := fun e => hdis _ A.name_mem_names (e ▸ B.name_mem_names)
  rw [← (pairSpec SA SB hclosed hdis).batch_iff M stream hok cs]
  constructor
  · rintro ⟨a, b, h⟩
    obtain ⟨cs', a', b', hH, he⟩ := pairRun_ok A B hne M.cfg tfn stream [] _ h
    have : cs' = cs := by
      have := congrArg Hexital.managers hH
      simp only [pairHx, List.cons.injEq, Prod.mk.injEq, Manager.mk.injEq, true_and, and_true] at this
      exact this.symm
    rw [← this]; exact he
  · intro h
    exact pairRun_of A B hne M.cfg tfn stream [] cs h

/-- **C01 for a dependent leaf over a source tree** (the standard usage pattern).  `A`: any source tree
given as a lawful component reading within its own names (`TreeComp.ofLeaf` for SMA/EMA/…, `macdTreeComp`,
…).  `B = mkTop k nameB round` with `k` an SMA / EMA / RMA / WMA / ROC over `inp`, where `inp` addresses
what is stored under the key `main` (`main` itself, or `main.field`).  Hypotheses: `nameB` is an ordinary
key, different from `main`, and not one of `A`'s names (so `B` writes nothing `A` reads or writes).
Base timeframe, any timeframe, with or without gap filling (`M`). -/
theorem C01_chain {A : Ind F} (SA : TreeComp A) (hclosed : SA.ReadsWithin A.allNames)
    {inp : String} {k : Kind F} (d : DepKind (F := F) inp k) (nameB : String) (round : Nat)
    (hB : IsKey nameB) (main : String) (hin : InputOf main inp) (hneB : nameB ≠ main)
    (hfresh : nameB ∉ A.allNames)
    (M : MgrSpec F) (tfn : Option String) (init : List (Candle F)) (chunks : List (List (Candle F)))
    (hok : M.Ok (init ++ chunks.flatten)) (H : Hexital F)
    (hlive : pairRun A (mkTop k nameB round) M.cfg tfn init chunks = .ok H) :
    ∃ Hb, pairRun A (mkTop k nameB round) M.cfg tfn (init ++ chunks.flatten) [] = .ok Hb ∧
      Hb.managers = H.managers := by
  have hdis : ∀ k' ∈ A.allNames, k' ∉ (mkTop k nameB round).allNames := by
    intro k' hk' hm
    rw [allNames_leaf _ (d.isLeaf nameB round), mkTop_name] at hm
    simp only [List.mem_singleton] at hm
    exact hfresh (hm ▸ hk')
  obtain ⟨Hb, _, hb, hm, _⟩ := pair_live_eq_batch SA (depComp d nameB round hB main hin hneB) hclosed hdis
    M tfn init chunks hok H hlive
  exact ⟨Hb, hb, hm⟩

/-- **C01 for the pair, base timeframe** – the statement of the task: `Hexital.init {} none init [A, B]`,
`calculate()`, then any sequence of `append chunk`; raw (`Plain`) input candles. -/
theorem C01_chain_base {A : Ind F} (SA : TreeComp A) (hclosed : SA.ReadsWithin A.allNames)
    {inp : String} {k : Kind F} (d : DepKind (F := F) inp k) (nameB : String) (round : Nat)
    (hB : IsKey nameB) (main : String) (hin : InputOf main inp) (hneB : nameB ≠ main)
    (hfresh : nameB ∉ A.allNames)
    (init : List (Candle F)) (chunks : List (List (Candle F)))
    (hp : ∀ c ∈ init ++ chunks.flatten, Plain c) (H : Hexital F)
    (hlive : pairRun A (mkTop k nameB round) {} none init chunks = .ok H) :
    ∃ Hb, pairRun A (mkTop k nameB round) {} none (init ++ chunks.flatten) [] = .ok Hb ∧
      Hb.managers = H.managers :=
  C01_chain SA hclosed d nameB round hB main hin hneB hfresh (MgrSpec.base F) none init chunks hp H hlive

/-- on the base timeframe, a history of appends only (no explicit `calculate()` after construction) is
the history "construct over `init ++ first chunk`, `calculate()`, append the rest" -/
theorem appendsOnly_eq (A B : Ind F) (hne : A.name ≠ B.name) (tfn : Option String) (init ch : List (Candle F))
    (rest : List (List (Candle F))) :
    runHexital {} tfn init [plainMember A, plainMember B] ((ch :: rest).map TwinOp.append)
      = pairRun A B {} tfn (init ++ ch) rest := by
  unfold pairRun runHexital
  rw [init_pair A B hne, init_pair A B hne, tasks_default, tasks_default]
  simp only [bind, Except.bind, pure, Except.pure, List.map_cons, List.foldlM_cons, TwinOp.runHex]
  have happ : (pairHx A B {} tfn {} init 0 0).append ch = (pairHx A B {} tfn {} (init ++ ch) 0 0).calculate none := by
    unfold Hexital.append
    rw [feed_pair]
    unfold Manager.append
    by_cases he : ch.isEmpty = true
    · have : ch = [] := by cases ch <;> simp at he ⊢
      subst this
      simp [bind, Except.bind, pure, Except.pure]
    · simp only [he, Bool.false_eq_true, if_false, tasks_default, bind, Except.bind, pure, Except.pure]
  rw [happ]

/-- **C01 for the pair, base timeframe, appends only** – literally "`Hexital.init {} none init [A, B]`
followed by any non-empty sequence of `append chunk`": if that history returns, the batch Hexital over
`init ++ chunks.flatten` (construct, `calculate()`) returns with the same managers. -/
theorem C01_chain_base_appends {A : Ind F} (SA : TreeComp A) (hclosed : SA.ReadsWithin A.allNames)
    {inp : String} {k : Kind F} (d : DepKind (F := F) inp k) (nameB : String) (round : Nat)
    (hB : IsKey nameB) (main : String) (hin : InputOf main inp) (hneB : nameB ≠ main)
    (hfresh : nameB ∉ A.allNames)
    (init : List (Candle F)) (chunks : List (List (Candle F))) (hne : chunks ≠ [])
    (hp : ∀ c ∈ init ++ chunks.flatten, Plain c) (H : Hexital F)
    (hlive : runHexital {} none init [plainMember A, plainMember (mkTop k nameB round)] (chunks.map TwinOp.append)
      = .ok H) :
    ∃ Hb, pairRun A (mkTop k nameB round) {} none (init ++ chunks.flatten) [] = .ok Hb ∧
      Hb.managers = H.managers := by
  cases chunks with
  | nil => exact absurd rfl hne
  | cons ch rest =>
    have hAB : A.name ≠ (mkTop k nameB round).name := by
      rw [mkTop_name]
      exact fun e => hfresh (e ▸ A.name_mem_names)
    rw [appendsOnly_eq A _ hAB] at hlive
    have hp' : ∀ c ∈ (init ++ ch) ++ rest.flatten, Plain c := by
      simpa [List.append_assoc] using hp
    obtain ⟨Hb, hb, hm⟩ := C01_chain_base SA hclosed d nameB round hB main hin hneB hfresh (init ++ ch) rest hp' H hlive
    refine ⟨Hb, ?_, hm⟩
    simpa [List.append_assoc] using hb

/-- **C01 for the standard usage pattern, all covered sources, any timeframe, gap filling off or on.**
Source `A = mkTop kA nameA roundA` with `ChainSource nameA kA` (SMA / EMA / RMA / WMA / ROC over a candle
attribute, MACD, KC, Supertrend, BBANDS, STOCH, TSI, ADX); dependent `B = mkTop kB nameB roundB`, an SMA /
EMA / RMA / WMA / ROC whose `input_value` addresses the entry under `main` (e.g. `main = nameA`: `A`'s
name, or `nameA.field`).  Both members without own timeframe on a Hexital with timeframe `tf` (`tfn` its
spelling).  If the live history returns, so does the batch Hexital, with the same managers. -/
theorem C01_chain_covered (tf : Option Int) (htf : ∀ t, tf = some t → 0 < t) (fill : Bool)
    {nameA : String} {kA : Kind F} (hA : ChainSource nameA kA) (roundA : Nat)
    {inp : String} {kB : Kind F} (d : DepKind (F := F) inp kB) (nameB : String) (roundB : Nat)
    (hB : IsKey nameB) (main : String) (hin : InputOf main inp) (hneB : nameB ≠ main)
    (hfresh : nameB ∉ (mkTop kA nameA roundA).allNames) (tfn : Option String)
    (init : List (Candle F)) (chunks : List (List (Candle F))) (hraw : RawTf (init ++ chunks.flatten))
    (H : Hexital F)
    (hlive : pairRun (mkTop kA nameA roundA) (mkTop kB nameB roundB) { tf := tf, fill := fill && tf.isSome }
      tfn init chunks = .ok H) :
    ∃ Hb, pairRun (mkTop kA nameA roundA) (mkTop kB nameB roundB) { tf := tf, fill := fill && tf.isSome }
        tfn (init ++ chunks.flatten) [] = .ok Hb ∧ Hb.managers = H.managers := by
  obtain ⟨SA, hclosed⟩ := hA.comp roundA
  have hcfg := mgrSpecOf_cfg (F := F) tf htf fill
  rw [← hcfg] at hlive ⊢
  exact C01_chain SA hclosed d nameB roundB hB main hin hneB hfresh (mgrSpecOf F tf htf fill) tfn init chunks
    (mgrSpecOf_ok tf htf fill _ hraw) H hlive

/-! ### chains of any length on the default manager -/

/-- the registrations of a member list on the default manager -/
def regsOf (ts : List (Ind F)) : List (String × (Ind F × String)) := ts.map fun t => (t.name, (t, defaultKey))

/-- a Hexital whose members are the trees `ts` (in this order), all on the one default manager,
which holds `cs` -/
structure ChainInv (ts : List (Ind F)) (cfg : MgrCfg) (H : Hexital F) (cs : List (Candle F)) : Prop where
  mgrs : H.managers = [(defaultKey, { cfg := cfg, candles := cs })]
  inds : H.indicators.map regInfo = regsOf ts

theorem lookup_reg {ts : List (Ind F)} {cfg : MgrCfg} {H : Hexital F} {cs : List (Candle F)}
    (inv : ChainInv ts cfg H cs) (t : Ind F) (hl : dlookup t.name (regsOf ts) = some (t, defaultKey)) :
    ∃ hi, dlookup t.name H.indicators = some hi ∧ hi.tree = t ∧ hi.mgrKey = defaultKey := by
  have := Writes.dlookup_of_map_eq (fun x : HxInd F => (x.tree, x.mgrKey)) H.indicators
    (ts.map fun t => (t.name, ({ tree := t, mgrKey := defaultKey } : HxInd F))) (by
      have := inv.inds
      unfold regInfo regsOf at this
      simp only [List.map_map, Function.comp_def]
      exact this.symm) t.name
  have h2 : (dlookup t.name (ts.map fun t => (t.name, ({ tree := t, mgrKey := defaultKey } : HxInd F)))).map
      (fun x : HxInd F => (x.tree, x.mgrKey)) = some (t, defaultKey) := by
    rw [← hl]
    unfold regsOf
    clear this hl inv
    induction ts with
    | nil => rfl
    | cons u r ih =>
      simp only [List.map_cons, dlookup]
      by_cases hu : u.name = t.name
      · simp [hu]
      · simp only [hu, if_false]; exact ih
  rw [h2] at this
  cases hq : dlookup t.name H.indicators with
  | none => rw [hq] at this; simp at this
  | some hi =>
    rw [hq] at this
    simp only [Option.map_some, Option.some.injEq, Prod.mk.injEq] at this
    exact ⟨hi, rfl, this.1.symm, this.2.symm⟩

/-- the Hexital after a step of the member `n` (registered as `hi`) that ended in `s` -/
def chainUpd (H : Hexital F) (n : String) (hi : HxInd F) (s : IndState F) : Hexital F :=
  { H with managers := [(defaultKey, s.mgr)], indicators := dset n { hi with active := s.active } H.indicators }

/-- `calculate()` of one registered member of a chain Hexital -/
theorem withInd_chain {ts : List (Ind F)} {cfg : MgrCfg} {H : Hexital F} {cs : List (Candle F)}
    (inv : ChainInv ts cfg H cs) (t : Ind F) (hl : dlookup t.name (regsOf ts) = some (t, defaultKey)) :
    (∀ H', H.withInd t.name IndState.calculate = .ok H' →
      ∃ cs', ChainInv ts cfg H' cs' ∧ engineCalc t cs = .ok cs') ∧
    (∀ cs', engineCalc t cs = .ok cs' →
      ∃ H', H.withInd t.name IndState.calculate = .ok H' ∧ ChainInv ts cfg H' cs') := by
  obtain ⟨hi, hlk, ht, hk⟩ := lookup_reg inv t hl
  have hw : H.withInd t.name IndState.calculate = (do
      let s ← IndState.calculate { tree := t, mgr := { cfg := cfg, candles := cs }, active := hi.active }
      pure (chainUpd H t.name hi s)) := by
    unfold Hexital.withInd chainUpd
    rw [hlk]
    simp only [Hexital.manager, hk, inv.mgrs, dlookup, if_true, Hexital.setManager, dset, ht, bind, Except.bind,
      pure, Except.pure]
  have hinv : ∀ s : IndState F, s.mgr.cfg = cfg →
      ChainInv ts cfg (chainUpd H t.name hi s) s.mgr.candles := by
    intro s hc
    refine ⟨?_, ?_⟩
    · show [(defaultKey, s.mgr)] = _
      obtain ⟨tr, ⟨c, k⟩, a⟩ := s
      simp only at hc ⊢
      rw [hc]
    · show (dset t.name _ H.indicators).map regInfo = _
      rw [Writes.map_dset_of_lookup regInfo _ hlk (by rfl)]
      exact inv.inds
  constructor
  · intro H' h
    rw [hw] at h
    obtain ⟨s, hs, h⟩ := Writes.bind_ok h
    cases h
    obtain ⟨_, hc, he⟩ := IndState.calculate_ok_engine _ s hs
    exact ⟨s.mgr.candles, hinv s hc, he⟩
  · intro cs' he
    obtain ⟨s, hs, hcs⟩ := IndState.calculate_of_engine
      ({ tree := t, mgr := { cfg := cfg, candles := cs }, active := hi.active } : IndState F) cs' he
    obtain ⟨_, hc⟩ := IndState.calculate_ok_frame _ s hs
    refine ⟨_, by rw [hw, hs]; rfl, ?_⟩
    have := hinv s hc
    rwa [hcs] at this

theorem lookup_regsOf_nodup (ts : List (Ind F)) (hnd : (ts.map (·.name)).Nodup) :
    ∀ t ∈ ts, dlookup t.name (regsOf ts) = some (t, defaultKey) := by
  induction ts with
  | nil => intro t ht; cases ht
  | cons u r ih =>
    intro t ht
    have hnd' : u.name ∉ r.map (·.name) ∧ (r.map (·.name)).Nodup := by
      rw [List.map_cons] at hnd
      exact List.nodup_cons.1 hnd
    unfold regsOf
    simp only [List.map_cons, dlookup]
    rcases List.mem_cons.1 ht with rfl | ht
    · simp
    · have hne : u.name ≠ t.name := fun e => hnd'.1 (e ▸ List.mem_map.2 ⟨t, ht, rfl⟩)
      simp only [hne, if_false]
      exact ih hnd'.2 t ht

/-- `calculate()` of the members `us` (registered, in any order) one after the other -/
theorem foldInd_chain {ts : List (Ind F)} {cfg : MgrCfg} (us : List (Ind F)) :
    (∀ u ∈ us, dlookup u.name (regsOf ts) = some (u, defaultKey)) →
    ∀ (H : Hexital F) (cs : List (Candle F)), ChainInv ts cfg H cs →
      (∀ H', (us.map (·.name)).foldlM (fun (h : Hexital F) n => h.withInd n IndState.calculate) H = .ok H' →
        ∃ cs', ChainInv ts cfg H' cs' ∧ chainEngine us cs = .ok cs') ∧
      (∀ cs', chainEngine us cs = .ok cs' →
        ∃ H', (us.map (·.name)).foldlM (fun (h : Hexital F) n => h.withInd n IndState.calculate) H = .ok H' ∧
          ChainInv ts cfg H' cs') := by
  induction us with
  | nil =>
    intro _ H cs inv
    constructor
    · intro H' h
      simp only [List.map_nil, List.foldlM_nil, pure, Except.pure] at h
      cases h
      exact ⟨cs, inv, rfl⟩
    · intro cs' h
      simp only [chainEngine, List.foldlM_nil, pure, Except.pure] at h
      cases h
      exact ⟨H, rfl, inv⟩
  | cons u r ih =>
    intro hus H cs inv
    have hu := hus u (by simp)
    have hr : ∀ v ∈ r, dlookup v.name (regsOf ts) = some (v, defaultKey) := fun v hv => hus v (by simp [hv])
    obtain ⟨w1, w2⟩ := withInd_chain inv u hu
    constructor
    · intro H' h
      rw [List.map_cons, List.foldlM_cons] at h
      obtain ⟨H1, h1, h2⟩ := Writes.bind_ok h
      obtain ⟨cs₁, inv1, he⟩ := w1 H1 h1
      obtain ⟨cs', inv', hc⟩ := (ih hr H1 cs₁ inv1).1 H' h2
      refine ⟨cs', inv', ?_⟩
      rw [chainEngine_cons]
      show (do let c ← engineCalc u cs; chainEngine r c) = _
      rw [he]
      exact hc
    · intro cs' h
      rw [chainEngine_cons] at h
      change (do let c ← engineCalc u cs; chainEngine r c) = _ at h
      obtain ⟨cs₁, he, hc⟩ := Writes.bind_ok h
      obtain ⟨H1, h1, inv1⟩ := w2 cs₁ he
      obtain ⟨H', h2, inv'⟩ := (ih hr H1 cs₁ inv1).2 cs' hc
      refine ⟨H', ?_, inv'⟩
      rw [List.map_cons, List.foldlM_cons, h1]
      exact h2

theorem ChainInv.keys {ts : List (Ind F)} {cfg : MgrCfg} {H : Hexital F} {cs : List (Candle F)}
    (inv : ChainInv ts cfg H cs) : H.indicators.map (·.1) = ts.map (·.name) := by
  have := congrArg (List.map (·.1)) inv.inds
  simpa [List.map_map, Function.comp_def, regInfo, regsOf] using this

/-- `Hexital.calculate()` of a chain Hexital is the chain engine on the default manager's candles -/
theorem calculate_chain {ts : List (Ind F)} {cfg : MgrCfg} (hnd : (ts.map (·.name)).Nodup) {H : Hexital F}
    {cs : List (Candle F)} (inv : ChainInv ts cfg H cs) :
    (∀ H', H.calculate none = .ok H' → ∃ cs', ChainInv ts cfg H' cs' ∧ chainEngine ts cs = .ok cs') ∧
    (∀ cs', chainEngine ts cs = .ok cs' → ∃ H', H.calculate none = .ok H' ∧ ChainInv ts cfg H' cs') := by
  have hc : H.calculate none
      = (ts.map (·.name)).foldlM (fun (h : Hexital F) n => h.withInd n IndState.calculate) H := by
    unfold Hexital.calculate Hexital.forEach
    rw [inv.keys]
    simp only [Option.isNone_none, Bool.true_or, if_true]
  rw [hc]
  exact foldInd_chain ts (lookup_regsOf_nodup ts hnd) H cs inv

/-! #### construction -/

theorem dset_fresh {α : Type} (k : String) (v : α) (l : List (String × α)) (hk : k ∉ l.map (·.1)) :
    dset k v l = l ++ [(k, v)] := by
  induction l with
  | nil => rfl
  | cons p r ih =>
    obtain ⟨k', w⟩ := p
    have hne : k' ≠ k := fun e => hk (by simp [e])
    have hk' : k ∉ r.map (·.1) := fun hm => hk (by simp [hm])
    rw [Writes.dset_cons_ne hne]
    simp only [List.cons_append, ih hk']

theorem foldl_dset_fresh {α β : Type} (key : β → String) (g : β → α) :
    ∀ (ms : List β) (acc : List (String × α)), (ms.map key).Nodup → (∀ m ∈ ms, key m ∉ acc.map (·.1)) →
      ms.foldl (fun acc m => dset (key m) (g m) acc) acc = acc ++ ms.map (fun m => (key m, g m)) := by
  intro ms
  induction ms with
  | nil => intro acc _ _; simp
  | cons m r ih =>
    intro acc hnd hfr
    rw [List.map_cons] at hnd
    have hnd' := List.nodup_cons.1 hnd
    rw [List.foldl_cons, dset_fresh _ _ _ (hfr m (by simp)), ih _ hnd'.2]
    · simp
    · intro x hx hm
      simp only [List.map_append, List.map_cons, List.map_nil, List.mem_append, List.mem_singleton] at hm
      rcases hm with hm | hm
      · exact hfr x (by simp [hx]) hm
      · exact hnd'.1 (hm ▸ List.mem_map.2 ⟨x, hx, rfl⟩)

/-- the freshly constructed chain Hexital over the default manager's candles `dm` -/
def initHx (ts : List (Ind F)) (cfg : MgrCfg) (tfn : Option String) (dm : List (Candle F)) : Hexital F :=
  { cfg := cfg, tfName := tfn, managers := [(defaultKey, { cfg := cfg, candles := dm })],
    indicators := ts.map fun t => (t.name, { tree := t, mgrKey := defaultKey }) }

theorem initHx_inv (ts : List (Ind F)) (cfg : MgrCfg) (tfn : Option String) (dm : List (Candle F)) :
    ChainInv ts cfg (initHx ts cfg tfn dm) dm :=
  ⟨rfl, by simp [initHx, regInfo, regsOf, List.map_map, Function.comp_def]⟩

/-- registering plain members one after the other -/
def regFold (ms : List (Ind F)) (acc : List (String × HxInd F)) : List (String × HxInd F) :=
  ms.foldl (fun acc t => dset t.name { tree := t, mgrKey := defaultKey } acc) acc

theorem attach_plain_fold (src : Option (List (Candle F))) (ms : List (Ind F)) :
    ∀ (h : Hexital F), (ms.map plainMember).foldlM (Hexital.attachFrom src) h
      = .ok { h with indicators := regFold ms h.indicators } := by
  induction ms with
  | nil => intro h; rfl
  | cons t r ih =>
    intro h
    rw [List.map_cons, List.foldlM_cons]
    have : Hexital.attachFrom src h (plainMember t)
        = .ok { h with indicators := dset t.name { tree := t, mgrKey := defaultKey } h.indicators } := rfl
    rw [this]
    simp only [bind, Except.bind]
    rw [ih]
    rfl

theorem init_chain (ts : List (Ind F)) (hnd : (ts.map (·.name)).Nodup) (cfg : MgrCfg) (tfn : Option String)
    (cs : List (Candle F)) :
    Hexital.init cfg tfn cs (ts.map plainMember) = (do
      let dm ← tasks cfg cs
      pure (initHx ts cfg tfn dm)) := by
  unfold Hexital.init Manager.init
  have hd : Hexital.dedupe (ts.map plainMember) = ts.map plainMember := by
    unfold Hexital.dedupe
    have := foldl_dset_fresh (fun m : Member F => m.tree.name) (fun m => m) (ts.map plainMember) []
      (by simpa [List.map_map, Function.comp_def, plainMember] using hnd) (by simp)
    rw [this]
    simp [List.map_map, Function.comp_def]
  rw [hd]
  cases tasks cfg cs with
  | error e => rfl
  | ok dm =>
    simp only [bind, Except.bind, pure, Except.pure]
    rw [attach_plain_fold]
    have := foldl_dset_fresh (fun t : Ind F => t.name) (fun t => ({ tree := t, mgrKey := defaultKey } : HxInd F))
      ts [] hnd (by simp)
    unfold regFold
    simp only [this, List.nil_append]
    rfl

/-! #### appends -/

theorem feed_chain {ts : List (Ind F)} {cfg : MgrCfg} {H : Hexital F} {cs : List (Candle F)}
    (inv : ChainInv ts cfg H cs) (new : List (Candle F)) :
    H.feedManagers new = (do
      let m ← Manager.append { cfg := cfg, candles := cs } new
      pure { H with managers := [(defaultKey, m)] }) := by
  unfold Hexital.feedManagers Hexital.feedOrder
  simp only [inv.mgrs, List.map_cons, List.map_nil, List.drop_succ_cons, List.drop_zero, List.take_succ_cons,
    List.take_zero, List.nil_append, List.foldlM_cons, List.foldlM_nil, Hexital.feedOne, Hexital.manager, dlookup,
    if_true, Hexital.setManager, dset, bind, Except.bind, pure, Except.pure]
  cases Manager.append ({ cfg := cfg, candles := cs } : Manager F) new <;> rfl

theorem append_chain {ts : List (Ind F)} {cfg : MgrCfg} (hnd : (ts.map (·.name)).Nodup) {H : Hexital F}
    {cs : List (Candle F)} (inv : ChainInv ts cfg H cs) (new : List (Candle F)) :
    (∀ H', H.append new = .ok H' →
      ∃ cs', ChainInv ts cfg H' cs' ∧ engAppend cfg (chainEngine ts) cs new = .ok cs') ∧
    (∀ cs', engAppend cfg (chainEngine ts) cs new = .ok cs' →
      ∃ H', H.append new = .ok H' ∧ ChainInv ts cfg H' cs') := by
  have key : ∀ m : Manager F, Manager.append { cfg := cfg, candles := cs } new = .ok m →
      ChainInv ts cfg ({ H with managers := [(defaultKey, m)] } : Hexital F) m.candles := by
    intro m hm
    have hc := Manager.append_cfg _ m new hm
    simp only at hc
    refine ⟨?_, inv.inds⟩
    show [(defaultKey, m)] = _
    obtain ⟨c, k⟩ := m
    simp only at hc ⊢
    rw [hc]
  constructor
  · intro H' h
    unfold Hexital.append at h
    rw [feed_chain inv] at h
    obtain ⟨H1, h1, h2⟩ := Writes.bind_ok h
    obtain ⟨m, hm, h1⟩ := Writes.bind_ok h1
    cases h1
    obtain ⟨cs', inv', he⟩ := (calculate_chain hnd (key m hm)).1 H' h2
    refine ⟨cs', inv', ?_⟩
    unfold engAppend
    rw [hm]
    exact he
  · intro cs' h
    unfold engAppend at h
    obtain ⟨m, hm, he⟩ := Writes.bind_ok h
    obtain ⟨H', hc, inv'⟩ := (calculate_chain hnd (key m hm)).2 cs' he
    refine ⟨H', ?_, inv'⟩
    unfold Hexital.append
    rw [feed_chain inv, hm]
    exact hc

theorem appends_chain {ts : List (Ind F)} {cfg : MgrCfg} (hnd : (ts.map (·.name)).Nodup)
    (chunks : List (List (Candle F))) :
    ∀ (H : Hexital F) (cs : List (Candle F)), ChainInv ts cfg H cs →
      (∀ H', chunks.foldlM (fun (h : Hexital F) ch => h.append ch) H = .ok H' →
        ∃ cs', ChainInv ts cfg H' cs' ∧ chunks.foldlM (engAppend cfg (chainEngine ts)) cs = .ok cs') ∧
      (∀ cs', chunks.foldlM (engAppend cfg (chainEngine ts)) cs = .ok cs' →
        ∃ H', chunks.foldlM (fun (h : Hexital F) ch => h.append ch) H = .ok H' ∧ ChainInv ts cfg H' cs') := by
  induction chunks with
  | nil =>
    intro H cs inv
    constructor
    · intro H' h
      simp only [List.foldlM_nil, pure, Except.pure] at h
      cases h
      exact ⟨cs, inv, rfl⟩
    · intro cs' h
      simp only [List.foldlM_nil, pure, Except.pure] at h
      cases h
      exact ⟨H, rfl, inv⟩
  | cons ch rest ih =>
    intro H cs inv
    obtain ⟨a1, a2⟩ := append_chain hnd inv ch
    constructor
    · intro H' h
      rw [List.foldlM_cons] at h
      obtain ⟨H1, h1, h2⟩ := Writes.bind_ok h
      obtain ⟨cs₁, inv1, he⟩ := a1 H1 h1
      obtain ⟨cs', inv', hf⟩ := (ih H1 cs₁ inv1).1 H' h2
      refine ⟨cs', inv', ?_⟩
      rw [List.foldlM_cons, he]
      exact hf
    · intro cs' h
      rw [List.foldlM_cons] at h
      obtain ⟨cs₁, he, hf⟩ := Writes.bind_ok h
      obtain ⟨H1, h1, inv1⟩ := a2 cs₁ he
      obtain ⟨H', h2, inv'⟩ := (ih H1 cs₁ inv1).2 cs' hf
      refine ⟨H', ?_, inv'⟩
      rw [List.foldlM_cons, h1]
      exact h2

/-! #### the whole history of a chain -/

/-- the live history of a chain Hexital: construct over `init` with the members `ts` (none with an own
timeframe), `calculate()`, then `append` every chunk -/
def chainRun (ts : List (Ind F)) (cfg : MgrCfg) (tfn : Option String) (init : List (Candle F))
    (chunks : List (List (Candle F))) : PyM (Hexital F) :=
  runHexital cfg tfn init (ts.map plainMember) (.calculate none :: chunks.map .append)

theorem chainRun_ok {ts : List (Ind F)} (hnd : (ts.map (·.name)).Nodup) (cfg : MgrCfg) (tfn : Option String)
    (init : List (Candle F)) (chunks : List (List (Candle F))) (H : Hexital F)
    (h : chainRun ts cfg tfn init chunks = .ok H) :
    ∃ cs, ChainInv ts cfg H cs ∧ engRun cfg (chainEngine ts) init chunks = .ok cs := by
  unfold chainRun runHexital at h
  rw [init_chain ts hnd] at h
  obtain ⟨H0, h0, h⟩ := Writes.bind_ok h
  obtain ⟨dm, hdm, h0⟩ := Writes.bind_ok h0
  cases h0
  rw [List.foldlM_cons] at h
  obtain ⟨H1, h1, h⟩ := Writes.bind_ok h
  obtain ⟨cs₁, inv1, he⟩ := (calculate_chain hnd (initHx_inv ts cfg tfn dm)).1 H1 h1
  rw [foldlM_map_append] at h
  obtain ⟨cs', inv', hf⟩ := (appends_chain hnd chunks H1 cs₁ inv1).1 H h
  refine ⟨cs', inv', ?_⟩
  unfold engRun Manager.init
  rw [hdm]
  simp only [bind, Except.bind, pure, Except.pure]
  rw [he]
  exact hf

theorem chainRun_of {ts : List (Ind F)} (hnd : (ts.map (·.name)).Nodup) (cfg : MgrCfg) (tfn : Option String)
    (init : List (Candle F)) (chunks : List (List (Candle F))) (cs : List (Candle F))
    (h : engRun cfg (chainEngine ts) init chunks = .ok cs) :
    ∃ H, chainRun ts cfg tfn init chunks = .ok H ∧ ChainInv ts cfg H cs := by
  unfold engRun Manager.init at h
  obtain ⟨m, hm, h⟩ := Writes.bind_ok h
  obtain ⟨dm, hdm, hm⟩ := Writes.bind_ok hm
  cases hm
  obtain ⟨cs₁, h1, h⟩ := Writes.bind_ok h
  obtain ⟨H1, hc, inv1⟩ := (calculate_chain hnd (initHx_inv ts cfg tfn dm)).2 cs₁ h1
  obtain ⟨H', hf, inv'⟩ := (appends_chain hnd chunks H1 cs₁ inv1).2 cs h
  refine ⟨H', ?_, inv'⟩
  unfold chainRun runHexital
  rw [init_chain ts hnd, hdm]
  simp only [bind, Except.bind, pure, Except.pure]
  rw [List.foldlM_cons]
  show (do let s' ← (initHx ts cfg tfn dm).calculate none; _) = _
  rw [hc]
  simp only [bind, Except.bind]
  rw [foldlM_map_append]
  exact hf

/-- the member names of a chain are distinct -/
theorem ChainComps.nodup : ∀ {pre : List String} {ts : List (Ind F)}, ChainComps pre ts →
    (ts.map (·.name)).Nodup
  | _, _, .single _ t _ _ => by simp
  | _, _, .cons pre t t' r _ _ hdis rest => by
    rw [List.map_cons]
    refine List.nodup_cons.2 ⟨?_, rest.nodup⟩
    intro hm
    obtain ⟨u, hu, hn⟩ := List.mem_map.1 hm
    refine hdis t.name (List.mem_append_right _ t.name_mem_names) ?_
    unfold namesOf
    rw [List.mem_flatMap]
    exact ⟨u, hu, hn ▸ u.name_mem_names⟩

/-- **C01 for a chain of any length** on one manager (base timeframe, timeframe, timeframe + fill):
members `ts` in registration order, each given as a lawful component that reads only under the names of
EARLIER members and its own (so any member may take an earlier member's output as `input_value`), pairwise
disjoint names.  Whenever the live history returns, the batch Hexital over the whole stream returns with
the same managers and registrations, and the default manager's candles are the row-major run of the
chain's spec over the manager spec of the stream. -/
theorem chain_live_eq_batch {ts : List (Ind F)} (c : ChainComps [] ts) (M : MgrSpec F) (tfn : Option String)
    (init : List (Candle F)) (chunks : List (List (Candle F))) (hok : M.Ok (init ++ chunks.flatten))
    (H : Hexital F) (hlive : chainRun ts M.cfg tfn init chunks = .ok H) :
    ∃ Hb cs, chainRun ts M.cfg tfn (init ++ chunks.flatten) [] = .ok Hb ∧
      Hb.managers = H.managers ∧ Hb.indicators.map regInfo = H.indicators.map regInfo ∧
      H.managers = [(defaultKey, { cfg := M.cfg, candles := cs })] ∧
      Gen.rowMajor (chainSpec c).S (M.spec (init ++ chunks.flatten)) = .ok cs := by
  obtain ⟨cs, inv, he⟩ := chainRun_ok c.nodup M.cfg tfn init chunks H hlive
  have hrow := (chainSpec c).live_refines M init chunks hok cs he
  have hb := (chainSpec c).live_eq_batch M init chunks hok cs he
  obtain ⟨Hb, hB, invb⟩ := chainRun_of c.nodup M.cfg tfn (init ++ chunks.flatten) [] cs hb
  exact ⟨Hb, cs, hB, invb.mgrs.trans inv.mgrs.symm, invb.inds.trans inv.inds.symm, inv.mgrs, hrow⟩

end Hex.Chain


/-! ### non-vacuity (over `Int`, the 4-candle demo of HexProps/C01.lean) -/
namespace Hex.Chain.Demo
open Hex Hex.Chain

def demo : List (Candle Int) :=
  [ { o := .int 1, h := .int 3, l := .int 1, c := .int 2, v := .int 10, ts := some 60 },
    { o := .int 2, h := .int 5, l := .int 2, c := .int 4, v := .int 20, ts := some 120 },
    { o := .int 4, h := .int 4, l := .int 0, c := .int 1, v := .int 5, ts := some 180 },
    { o := .int 1, h := .int 7, l := .int 1, c := .int 6, v := .int 8, ts := some 240 } ]

/-- source: `SMA(period=2)` over `close`; dependent: `EMA(period=2, input_value="SMA_2")` -/
def srcSMA : Ind Int := mkTop (.sma 2 "close") "SMA_2" 4
def depEMA : Ind Int := mkTop (.ema 2 "SMA_2" (.int 2)) "EMA_2" 4

/-- the hypotheses of `C01_chain_base` hold for this pair … -/
example (init : List (Candle Int)) (chunks : List (List (Candle Int)))
    (hp : ∀ c ∈ init ++ chunks.flatten, Plain c) (H : Hexital Int)
    (hlive : pairRun srcSMA depEMA {} none init chunks = .ok H) :
    ∃ Hb, pairRun srcSMA depEMA {} none (init ++ chunks.flatten) [] = .ok Hb ∧ Hb.managers = H.managers :=
  C01_chain_base (srcLeaf (.sma 2 (by decide)) "SMA_2" 4 (by decide) (by decide))
    (srcLeaf_reads _ _ _ _ _) (.ema 2 (.int 2) (by decide)) "EMA_2" 4 (by decide) "SMA_2"
    (Or.inl ⟨rfl, by decide⟩) (by decide) (by decide) init chunks hp H hlive

/-- what is stored under a top-level key, per candle: is there an entry, is it non-`None` -/
def column (k : String) (r : PyM (Hexital Int)) : Option (List (Bool × Bool)) :=
  match defaultCandles r with
  | .ok cs => some (cs.map fun c => ((dlookup k c.inds).isSome, ((dlookup k c.inds).map (fun v => !v.isNone)).getD false))
  | .error _ => none

/-- … the live run (empty start, one candle, an empty chunk, the rest) returns; `SMA_2` has its first
reading at index 1 and the dependent `EMA_2` – whose input begins there – at index 2 -/
example : column "SMA_2" (pairRun srcSMA depEMA {} none [] [demo.take 1, [], demo.drop 1])
    = some [(true, false), (true, true), (true, true), (true, true)] := by decide +kernel
example : column "EMA_2" (pairRun srcSMA depEMA {} none [] [demo.take 1, [], demo.drop 1])
    = some [(true, false), (true, false), (true, true), (true, true)] := by decide +kernel
example : column "EMA_2" (pairRun srcSMA depEMA {} none demo [])
    = some [(true, false), (true, false), (true, true), (true, true)] := by decide +kernel

/-- source: `MACD(2, 3, 2)` (dict-valued); dependent: `SMA(period=2, input_value="MACD_2_3_2.MACD")` -/
def srcMACD : Ind Int := mkTop (.macd 2 3 2 "close") "MACD_2_3_2" 4
def depSMA : Ind Int := mkTop (.sma 2 "MACD_2_3_2.MACD") "SMA_2" 4

example : ChainSource (F := Int) "MACD_2_3_2" (.macd 2 3 2 "close") :=
  .macd 2 3 2 "close" (by decide) (by decide) (by decide)
    ⟨by decide, by decide, by decide, by decide, by decide, by decide, by decide, by decide, by decide,
      by decide⟩ (by decide)

example : InputOf "MACD_2_3_2" "MACD_2_3_2.MACD" := Or.inr ⟨"MACD", by decide⟩

/-- the hypotheses of `C01_chain_covered` hold (any timeframe) … -/
example (tf : Option Int) (htf : ∀ t, tf = some t → 0 < t) (fill : Bool) (tfn : Option String)
    (init : List (Candle Int)) (chunks : List (List (Candle Int)))
    (hraw : RawTf (init ++ chunks.flatten)) (H : Hexital Int)
    (hlive : pairRun srcMACD depSMA { tf := tf, fill := fill && tf.isSome } tfn init chunks = .ok H) :
    ∃ Hb, pairRun srcMACD depSMA { tf := tf, fill := fill && tf.isSome } tfn (init ++ chunks.flatten) [] = .ok Hb ∧
      Hb.managers = H.managers :=
  C01_chain_covered tf htf fill
    (.macd 2 3 2 "close" (by decide) (by decide) (by decide)
      ⟨by decide, by decide, by decide, by decide, by decide, by decide, by decide, by decide, by decide,
        by decide⟩ (by decide)) 4
    (.sma 2 (by decide)) "SMA_2" 4 (by decide) "MACD_2_3_2" (Or.inr ⟨"MACD", by decide⟩) (by decide)
    (by decide) tfn init chunks hraw H hlive

/-- … the live run returns; the MACD line exists from index 2 (slow EMA), so the dependent SMA_2 over it
has its first reading at index 3 -/
example : column "SMA_2" (pairRun srcMACD depSMA {} none [] [demo.take 1, demo.drop 1])
    = some [(true, false), (true, false), (true, false), (true, true)] := by decide +kernel
example : column "MACD_2_3_2" (pairRun srcMACD depSMA {} none [] [demo.take 1, demo.drop 1])
    = some [(true, true), (true, true), (true, true), (true, true)] := by decide +kernel

/-- a chain of three: `SMA_2` over `close`, `EMA_2` over `SMA_2`, `ROC` (period 1) over `EMA_2` -/
def thirdROC : Ind Int := mkTop (.roc 1 "EMA_2") "ROC" 4

def demoChain : ChainComps [] [srcSMA, depEMA, thirdROC] :=
  .cons [] srcSMA depEMA [thirdROC]
    (srcLeaf (.sma 2 (by decide)) "SMA_2" 4 (by decide) (by decide))
    ((srcLeaf_reads (F := Int) (.sma 2 (by decide)) "SMA_2" 4 (by decide) (by decide)).mono (by decide))
    (by decide)
    (.cons _ depEMA thirdROC []
      (depComp (.ema 2 (.int 2) (by decide)) "EMA_2" 4 (by decide) "SMA_2" (Or.inl ⟨rfl, by decide⟩) (by decide))
      ((depComp_reads _ _ _ _ _ _ _).mono (by decide))
      (by decide)
      (.single _ thirdROC
        (depComp (.roc 1 (by decide)) "ROC" 4 (by decide) "EMA_2" (Or.inl ⟨rfl, by decide⟩) (by decide))
        ((depComp_reads _ _ _ _ _ _ _).mono (by decide))))

example (init : List (Candle Int)) (chunks : List (List (Candle Int)))
    (hp : ∀ c ∈ init ++ chunks.flatten, Plain c) (H : Hexital Int)
    (hlive : chainRun [srcSMA, depEMA, thirdROC] {} none init chunks = .ok H) :
    ∃ Hb, chainRun [srcSMA, depEMA, thirdROC] {} none (init ++ chunks.flatten) [] = .ok Hb ∧
      Hb.managers = H.managers := by
  obtain ⟨Hb, _, hb, hm, _⟩ := chain_live_eq_batch demoChain (MgrSpec.base Int) none init chunks hp H hlive
  exact ⟨Hb, hb, hm⟩

/-- the live run returns; the third member's first reading comes at index 3 -/
example : column "ROC" (chainRun [srcSMA, depEMA, thirdROC] {} none [] [demo.take 2, demo.drop 2])
    = some [(true, false), (true, false), (true, false), (true, true)] := by decide +kernel

end Hex.Chain.Demo

#print axioms Hex.Chain.pair_live_eq_batch
#print axioms Hex.Chain.C01_chain
#print axioms Hex.Chain.C01_chain_covered
#print axioms Hex.Chain.pair_batch_iff
#print axioms Hex.Chain.C01_chain_base_appends
#print axioms Hex.Chain.chain_live_eq_batch

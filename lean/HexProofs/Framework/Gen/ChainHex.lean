import HexProofs.Framework.Gen.Chain
import HexProofs.Writes.Twin
import HexProofs.Lib.IntInst
/-
Indicator-on-indicator inputs, Hexital level: a `Hexital` with a source member `A` and a dependent
member `B` (both without own timeframe, hence both on the default manager).  `Hexital.calculate()` is
"`A.calculate()` then `B.calculate()`" on the default manager's candles, `Hexital.append` is the
manager's append followed by that – `Chain.engRun` of the pair engine.  With `Chain.pairSpec` this gives
C01 for the pair: every live history that returns ends with the candles of the batch Hexital.
-/
namespace Hex.Chain
set_option linter.unusedSectionVars false
variable {F : Type} [PyF F]

/-- a member without its own timeframe -/
def plainMember (A : Ind F) : Member F := { tree := A, tfName := none, tfSecs := none }

/-- the Hexital of the pair over the default manager's candles `cs` -/
def pairHx (A B : Ind F) (cfgH : MgrCfg) (tfn : Option String) (cfg : MgrCfg) (cs : List (Candle F)) (a b : Int) :
    Hexital F :=
  { cfg := cfgH, tfName := tfn, managers := [(defaultKey, { cfg := cfg, candles := cs })],
    indicators := [(A.name, { tree := A, mgrKey := defaultKey, active := a }),
                   (B.name, { tree := B, mgrKey := defaultKey, active := b })] }

theorem withInd_fst (A B : Ind F) (cfgH : MgrCfg) (tfn : Option String)
    (cfg : MgrCfg) (cs : List (Candle F)) (a b : Int) (f : IndState F → PyM (IndState F)) :
    (pairHx A B cfgH tfn cfg cs a b).withInd A.name f = (do
      let s ← f { tree := A, mgr := { cfg := cfg, candles := cs }, active := a }
      pure { cfg := cfgH, tfName := tfn, managers := [(defaultKey, s.mgr)],
             indicators := [(A.name, { tree := A, mgrKey := defaultKey, active := s.active }),
                            (B.name, { tree := B, mgrKey := defaultKey, active := b })] }) := by
  unfold Hexital.withInd pairHx
  simp only [dlookup, if_true, Hexital.manager, Hexital.setManager, dset, bind, Except.bind, pure, Except.pure]

theorem withInd_snd (A B : Ind F) (hne : A.name ≠ B.name) (cfgH : MgrCfg) (tfn : Option String)
    (cfg : MgrCfg) (cs : List (Candle F)) (a b : Int) (f : IndState F → PyM (IndState F)) :
    (pairHx A B cfgH tfn cfg cs a b).withInd B.name f = (do
      let s ← f { tree := B, mgr := { cfg := cfg, candles := cs }, active := b }
      pure { cfg := cfgH, tfName := tfn, managers := [(defaultKey, s.mgr)],
             indicators := [(A.name, { tree := A, mgrKey := defaultKey, active := a }),
                            (B.name, { tree := B, mgrKey := defaultKey, active := s.active })] }) := by
  unfold Hexital.withInd pairHx
  simp only [dlookup, hne, if_true, if_false, Hexital.manager, Hexital.setManager, dset, bind, Except.bind, pure,
    Except.pure]

theorem calculate_pair (A B : Ind F) (hne : A.name ≠ B.name) (cfgH : MgrCfg) (tfn : Option String)
    (cfg : MgrCfg) (cs : List (Candle F)) (a b : Int) :
    (pairHx A B cfgH tfn cfg cs a b).calculate none = (do
      let sA ← IndState.calculate { tree := A, mgr := { cfg := cfg, candles := cs }, active := a }
      let sB ← IndState.calculate { tree := B, mgr := sA.mgr, active := b }
      pure { cfg := cfgH, tfName := tfn, managers := [(defaultKey, sB.mgr)],
             indicators := [(A.name, { tree := A, mgrKey := defaultKey, active := sA.active }),
                            (B.name, { tree := B, mgrKey := defaultKey, active := sB.active })] }) := by
  unfold Hexital.calculate Hexital.forEach
  have hkeys : (pairHx A B cfgH tfn cfg cs a b).indicators.map (·.1) = [A.name, B.name] := rfl
  rw [hkeys]
  simp only [List.foldlM_cons, List.foldlM_nil, Option.isNone_none, Bool.true_or, if_true]
  rw [withInd_fst]
  cases hA : IndState.calculate ({ tree := A, mgr := { cfg := cfg, candles := cs }, active := a } : IndState F) with
  | error e => rfl
  | ok sA =>
    obtain ⟨tA, ⟨cA, csA⟩, aA⟩ := sA
    simp only [bind, Except.bind, pure, Except.pure]
    have := withInd_snd A B hne cfgH tfn cA csA aA b IndState.calculate
    unfold pairHx at this
    rw [this]
    cases IndState.calculate ({ tree := B, mgr := { cfg := cA, candles := csA }, active := b } : IndState F) <;> rfl

/-- the managers' half of `Hexital.append` on the pair -/
theorem feed_pair (A B : Ind F) (cfgH : MgrCfg) (tfn : Option String) (cfg : MgrCfg) (cs : List (Candle F)) (a b : Int) (new : List (Candle F)) :
    (pairHx A B cfgH tfn cfg cs a b).feedManagers new = (do
      let m ← Manager.append { cfg := cfg, candles := cs } new
      pure (pairHx A B cfgH tfn m.cfg m.candles a b)) := by
  unfold Hexital.feedManagers Hexital.feedOrder pairHx
  simp only [List.map_cons, List.map_nil, List.drop_succ_cons, List.drop_zero, List.take_succ_cons, List.take_zero,
    List.nil_append, List.foldlM_cons, List.foldlM_nil, Hexital.feedOne, Hexital.manager, dlookup, if_true,
    Hexital.setManager, dset, bind, Except.bind, pure, Except.pure]
  cases Manager.append ({ cfg := cfg, candles := cs } : Manager F) new <;> rfl

theorem Manager.append_cfg (m m' : Manager F) (new : List (Candle F)) (h : m.append new = .ok m') :
    m'.cfg = m.cfg := by
  unfold Manager.append at h
  by_cases he : new.isEmpty = true
  · simp only [he, if_true] at h; cases h; rfl
  · simp only [he, Bool.false_eq_true, if_false] at h
    obtain ⟨c, _, h⟩ := Writes.bind_ok h
    cases h; rfl

section steps
variable (A B : Ind F) (hne : A.name ≠ B.name) (cfgH : MgrCfg) (tfn : Option String) (cfg : MgrCfg)
include hne

/-- `Hexital.calculate()` of the pair, when it returns: the pair engine on the default manager's candles -/
theorem calculate_pair_ok (cs : List (Candle F)) (a b : Int) (H' : Hexital F)
    (h : (pairHx A B cfgH tfn cfg cs a b).calculate none = .ok H') :
    ∃ cs' a' b', H' = pairHx A B cfgH tfn cfg cs' a' b' ∧ pairEngine A B cs = .ok cs' := by
  rw [calculate_pair A B hne] at h
  obtain ⟨sA, hA, h⟩ := Writes.bind_ok h
  obtain ⟨sB, hB, h⟩ := Writes.bind_ok h
  cases h
  obtain ⟨tA, cA, eA⟩ := IndState.calculate_ok_engine _ sA hA
  obtain ⟨tB, cB, eB⟩ := IndState.calculate_ok_engine _ sB hB
  simp only at tA cA eA tB cB eB
  refine ⟨sB.mgr.candles, sA.active, sB.active, ?_, ?_⟩
  · unfold pairHx
    have : sB.mgr = { cfg := cfg, candles := sB.mgr.candles } := by
      obtain ⟨t, ⟨c, k⟩, ac⟩ := sB
      simp only at cB ⊢
      rw [cB, cA]
    rw [← this]
  · show (do let c ← engineCalc A cs; engineCalc B c) = .ok sB.mgr.candles
    rw [eA]
    exact eB

/-- … and conversely -/
theorem calculate_pair_of (cs cs' : List (Candle F)) (a b : Int) (h : pairEngine A B cs = .ok cs') :
    ∃ a' b', (pairHx A B cfgH tfn cfg cs a b).calculate none = .ok (pairHx A B cfgH tfn cfg cs' a' b') := by
  change (do let c ← engineCalc A cs; engineCalc B c) = .ok cs' at h
  obtain ⟨c₁, h1, h2⟩ := Writes.bind_ok h
  obtain ⟨sA, hA, hcA⟩ := IndState.calculate_of_engine
    ({ tree := A, mgr := { cfg := cfg, candles := cs }, active := a } : IndState F) c₁ h1
  obtain ⟨_, cA⟩ := IndState.calculate_ok_frame _ sA hA
  simp only at cA
  obtain ⟨sB, hB, hcB⟩ := IndState.calculate_of_engine
    ({ tree := B, mgr := sA.mgr, active := b } : IndState F) cs' (by simpa [hcA] using h2)
  obtain ⟨_, cB⟩ := IndState.calculate_ok_frame _ sB hB
  simp only at cB
  refine ⟨sA.active, sB.active, ?_⟩
  rw [calculate_pair A B hne, hA]
  simp only [bind, Except.bind]
  rw [hB]
  simp only [pure, Except.pure]
  unfold pairHx
  have : sB.mgr = { cfg := cfg, candles := cs' } := by
    obtain ⟨t, ⟨c, k⟩, ac⟩ := sB
    simp only at cB hcB ⊢
    rw [cB, cA, hcB]
  rw [this]

/-- `Hexital.append(candles)` of the pair, when it returns -/
theorem append_pair_ok (cs : List (Candle F)) (a b : Int) (new : List (Candle F)) (H' : Hexital F)
    (h : (pairHx A B cfgH tfn cfg cs a b).append new = .ok H') :
    ∃ cs' a' b', H' = pairHx A B cfgH tfn cfg cs' a' b' ∧ engAppend cfg (pairEngine A B) cs new = .ok cs' := by
  unfold Hexital.append at h
  rw [feed_pair] at h
  obtain ⟨H1, h1, h2⟩ := Writes.bind_ok h
  obtain ⟨m, hm, h1⟩ := Writes.bind_ok h1
  cases h1
  have hc := Manager.append_cfg _ m new hm
  simp only at hc
  rw [hc] at h2
  obtain ⟨cs', a', b', hH, he⟩ := calculate_pair_ok A B hne cfgH tfn cfg m.candles a b H' h2
  refine ⟨cs', a', b', hH, ?_⟩
  unfold engAppend
  rw [hm]
  exact he

theorem append_pair_of (cs cs' : List (Candle F)) (a b : Int) (new : List (Candle F))
    (h : engAppend cfg (pairEngine A B) cs new = .ok cs') :
    ∃ a' b', (pairHx A B cfgH tfn cfg cs a b).append new = .ok (pairHx A B cfgH tfn cfg cs' a' b') := by
  unfold engAppend at h
  obtain ⟨m, hm, h⟩ := Writes.bind_ok h
  have hc := Manager.append_cfg _ m new hm
  simp only at hc
  obtain ⟨a', b', hcal⟩ := calculate_pair_of A B hne cfgH tfn cfg m.candles cs' a b h
  refine ⟨a', b', ?_⟩
  unfold Hexital.append
  rw [feed_pair, hm]
  simp only [bind, Except.bind, pure, Except.pure]
  rw [hc]
  exact hcal

theorem appends_pair_ok (chunks : List (List (Candle F))) :
    ∀ (cs : List (Candle F)) (a b : Int) (H' : Hexital F),
      chunks.foldlM (fun (h : Hexital F) ch => h.append ch) (pairHx A B cfgH tfn cfg cs a b) = .ok H' →
      ∃ cs' a' b', H' = pairHx A B cfgH tfn cfg cs' a' b' ∧
        chunks.foldlM (engAppend cfg (pairEngine A B)) cs = .ok cs' := by
  induction chunks with
  | nil =>
    intro cs a b H' h
    simp only [List.foldlM_nil, pure, Except.pure] at h
    cases h
    exact ⟨cs, a, b, rfl, rfl⟩
  | cons ch rest ih =>
    intro cs a b H' h
    rw [List.foldlM_cons] at h
    obtain ⟨H1, h1, h2⟩ := Writes.bind_ok h
    obtain ⟨cs₁, a₁, b₁, rfl, he⟩ := append_pair_ok A B hne cfgH tfn cfg cs a b ch H1 h1
    obtain ⟨cs', a', b', hH, hf⟩ := ih cs₁ a₁ b₁ H' h2
    refine ⟨cs', a', b', hH, ?_⟩
    rw [List.foldlM_cons, he]
    exact hf

theorem appends_pair_of (chunks : List (List (Candle F))) :
    ∀ (cs cs' : List (Candle F)) (a b : Int),
      chunks.foldlM (engAppend cfg (pairEngine A B)) cs = .ok cs' →
      ∃ a' b', chunks.foldlM (fun (h : Hexital F) ch => h.append ch) (pairHx A B cfgH tfn cfg cs a b)
        = .ok (pairHx A B cfgH tfn cfg cs' a' b') := by
  induction chunks with
  | nil =>
    intro cs cs' a b h
    simp only [List.foldlM_nil, pure, Except.pure] at h
    cases h
    exact ⟨a, b, rfl⟩
  | cons ch rest ih =>
    intro cs cs' a b h
    rw [List.foldlM_cons] at h
    obtain ⟨cs₁, h1, h2⟩ := Writes.bind_ok h
    obtain ⟨a₁, b₁, he⟩ := append_pair_of A B hne cfgH tfn cfg cs cs₁ a b ch h1
    obtain ⟨a', b', hf⟩ := ih cs₁ cs' a₁ b₁ h2
    refine ⟨a', b', ?_⟩
    rw [List.foldlM_cons, he]
    exact hf

end steps

/-! ### construction and the whole history -/

theorem init_pair (A B : Ind F) (hne : A.name ≠ B.name) (cfg : MgrCfg) (tfn : Option String)
    (cs : List (Candle F)) :
    Hexital.init cfg tfn cs [plainMember A, plainMember B] = (do
      let dm ← tasks cfg cs
      pure (pairHx A B cfg tfn cfg dm 0 0)) := by
  unfold Hexital.init Manager.init
  have hd : Hexital.dedupe [plainMember A, plainMember B] = [plainMember A, plainMember B] := by
    unfold Hexital.dedupe plainMember
    simp [List.foldl, dset, hne]
  rw [hd]
  cases tasks cfg cs with
  | error e => rfl
  | ok dm =>
    simp only [bind, Except.bind, pure, Except.pure, List.foldlM_cons, List.foldlM_nil, Hexital.attach, plainMember,
      dset, hne, if_false]
    rfl

/-- the live history of the pair: construct the Hexital over `init` with the members `A`, `B`
(neither with an own timeframe), `calculate()`, then `append` every chunk -/
def pairRun (A B : Ind F) (cfg : MgrCfg) (tfn : Option String) (init : List (Candle F))
    (chunks : List (List (Candle F))) : PyM (Hexital F) :=
  runHexital cfg tfn init [plainMember A, plainMember B] (.calculate none :: chunks.map .append)

/-- the candles of the default manager -/
def defaultCandles (r : PyM (Hexital F)) : PyM (List (Candle F)) := do
  let h ← r
  let m ← h.manager defaultKey
  pure m.candles

theorem foldlM_map_append (chunks : List (List (Candle F))) (h : Hexital F) :
    (chunks.map TwinOp.append).foldlM TwinOp.runHex h = chunks.foldlM (fun (h : Hexital F) ch => h.append ch) h := by
  induction chunks generalizing h with
  | nil => rfl
  | cons ch rest ih =>
    simp only [List.map_cons, List.foldlM_cons, TwinOp.runHex]
    cases h.append ch with
    | error e => rfl
    | ok h' => exact ih h'

section run
variable (A B : Ind F) (hne : A.name ≠ B.name) (cfg : MgrCfg) (tfn : Option String)
include hne

/-- the live Hexital history of the pair, when it returns, is the engine run of the pair engine … -/
theorem pairRun_ok (init : List (Candle F)) (chunks : List (List (Candle F))) (H : Hexital F)
    (h : pairRun A B cfg tfn init chunks = .ok H) :
    ∃ cs a b, H = pairHx A B cfg tfn cfg cs a b ∧ engRun cfg (pairEngine A B) init chunks = .ok cs := by
  unfold pairRun runHexital at h
  rw [init_pair A B hne] at h
  obtain ⟨H0, h0, h⟩ := Writes.bind_ok h
  obtain ⟨dm, hdm, h0⟩ := Writes.bind_ok h0
  cases h0
  rw [List.foldlM_cons] at h
  obtain ⟨H1, h1, h⟩ := Writes.bind_ok h
  obtain ⟨cs₁, a₁, b₁, rfl, he⟩ := calculate_pair_ok A B hne cfg tfn cfg dm 0 0 H1 h1
  rw [foldlM_map_append] at h
  obtain ⟨cs', a', b', hH, hf⟩ := appends_pair_ok A B hne cfg tfn cfg chunks cs₁ a₁ b₁ H h
  refine ⟨cs', a', b', hH, ?_⟩
  unfold engRun Manager.init
  rw [hdm]
  simp only [bind, Except.bind, pure, Except.pure]
  rw [he]
  exact hf

/-- … and conversely -/
theorem pairRun_of (init : List (Candle F)) (chunks : List (List (Candle F))) (cs : List (Candle F))
    (h : engRun cfg (pairEngine A B) init chunks = .ok cs) :
    ∃ a b, pairRun A B cfg tfn init chunks = .ok (pairHx A B cfg tfn cfg cs a b) := by
  unfold engRun Manager.init at h
  obtain ⟨m, hm, h⟩ := Writes.bind_ok h
  obtain ⟨dm, hdm, hm⟩ := Writes.bind_ok hm
  cases hm
  obtain ⟨cs₁, h1, h⟩ := Writes.bind_ok h
  obtain ⟨a₁, b₁, hc⟩ := calculate_pair_of A B hne cfg tfn cfg dm cs₁ 0 0 h1
  obtain ⟨a', b', hf⟩ := appends_pair_of A B hne cfg tfn cfg chunks cs₁ cs a₁ b₁ h
  refine ⟨a', b', ?_⟩
  unfold pairRun runHexital
  rw [init_pair A B hne, hdm]
  simp only [bind, Except.bind, pure, Except.pure]
  rw [List.foldlM_cons]
  show (do let s' ← (pairHx A B cfg tfn cfg dm 0 0).calculate none; _) = _
  rw [hc]
  simp only [bind, Except.bind]
  rw [foldlM_map_append]
  exact hf

end run

/-! ### C01 for the pair -/

/-- **Hexital level (goal 3), generic in the two components and in the manager** (base timeframe,
collapsing timeframe, timeframe + fill: any `MgrSpec`).  Source tree `A` given as a lawful component
reading within its own names, dependent tree `B` given as a lawful component (e.g. `depComp`: a leaf
whose input is `A`'s key or a dotted field of it), disjoint names.  Whenever the live history
`Hexital(init, [A, B])`, `calculate()`, `append(chunk)`… returns, the batch Hexital over the whole stream
returns too, with the same managers (one manager, `default`: same candles – OHLCV, stamps, `A`'s readings
and helper series, `B`'s readings), and those candles are the row-major run of the pair's spec over the
manager spec of the whole stream. -/
theorem pair_live_eq_batch {A B : Ind F} (SA : TreeComp A) (SB : TreeComp B)
    (hclosed : SA.ReadsWithin A.allNames) (hdis : ∀ k ∈ A.allNames, k ∉ B.allNames)
    (M : MgrSpec F) (tfn : Option String) (init : List (Candle F)) (chunks : List (List (Candle F)))
    (hok : M.Ok (init ++ chunks.flatten)) (H : Hexital F)
    (hlive : pairRun A B M.cfg tfn init chunks = .ok H) :
    ∃ Hb cs, pairRun A B M.cfg tfn (init ++ chunks.flatten) [] = .ok Hb ∧
      Hb.managers = H.managers ∧ H.managers = [(defaultKey, { cfg := M.cfg, candles := cs })] ∧
      Gen.rowMajor (pairSpec SA SB hclosed hdis).S (M.spec (init ++ chunks.flatten)) = .ok cs := by
  have hne : A.name ≠ B.name := fun e => hdis _ A.name_mem_names (e ▸ B.name_mem_names)
  obtain ⟨cs, a, b, rfl, he⟩ := pairRun_ok A B hne M.cfg tfn init chunks H hlive
  have hrow := (pairSpec SA SB hclosed hdis).live_refines M init chunks hok cs he
  have hb := (pairSpec SA SB hclosed hdis).live_eq_batch M init chunks hok cs he
  obtain ⟨a', b', hB⟩ := pairRun_of A B hne M.cfg tfn (init ++ chunks.flatten) [] cs hb
  exact ⟨_, cs, hB, rfl, rfl, hrow⟩

/-- the batch Hexital returns iff the pair's row-major run over the manager spec does -/
theorem pair_batch_iff {A B : Ind F} (SA : TreeComp A) (SB : TreeComp B)
    (hclosed : SA.ReadsWithin A.allNames) (hdis : ∀ k ∈ A.allNames, k ∉ B.allNames)
    (M : MgrSpec F) (tfn : Option String) (stream : List (Candle F)) (hok : M.Ok stream)
    (cs : List (Candle F)) :
    (∃ a b, pairRun A B M.cfg tfn stream [] = .ok (pairHx A B M.cfg tfn M.cfg cs a b)) ↔
      Gen.rowMajor (pairSpec SA SB hclosed hdis).S (M.spec stream) = .ok cs := by
  have hne : A.name ≠ B.name := fun e => hdis _ A.name_mem_names (e ▸ B.name_mem_names)
  rw [← (pairSpec SA SB hclosed hdis).batch_iff M stream hok cs]
  constructor
  · rintro ⟨a, b, h⟩
    obtain ⟨cs', a', b', hH, he⟩ := pairRun_ok A B hne M.cfg tfn stream [] _ h
    have : cs' = cs := by
      have := congrArg Hexital.managers hH
      simp only [pairHx, List.cons.injEq, Prod.mk.injEq, Manager.mk.injEq, true_and, and_true] at this
      exact this.symm
    rw [← this]; exact he
  · intro h
    exact pairRun_of A B hne M.cfg tfn stream [] cs h

/-- **C01 for a dependent leaf over a source tree** (the standard usage pattern).  `A`: any source tree
given as a lawful component reading within its own names (`TreeComp.ofLeaf` for SMA/EMA/…, `macdTreeComp`,
…).  `B = mkTop k nameB round` with `k` an SMA / EMA / RMA / WMA / ROC over `inp`, where `inp` addresses
what is stored under the key `main` (`main` itself, or `main.field`).  Hypotheses: `nameB` is an ordinary
key, different from `main`, and not one of `A`'s names (so `B` writes nothing `A` reads or writes).
Base timeframe, any timeframe, with or without gap filling (`M`). -/
theorem C01_chain {A : Ind F} (SA : TreeComp A) (hclosed : SA.ReadsWithin A.allNames)
    {inp : String} {k : Kind F} (d : DepKind (F := F) inp k) (nameB : String) (round : Nat)
    (hB : IsKey nameB) (main : String) (hin : InputOf main inp) (hneB : nameB ≠ main)
    (hfresh : nameB ∉ A.allNames)
    (M : MgrSpec F) (tfn : Option String) (init : List (Candle F)) (chunks : List (List (Candle F)))
    (hok : M.Ok (init ++ chunks.flatten)) (H : Hexital F)
    (hlive : pairRun A (mkTop k nameB round) M.cfg tfn init chunks = .ok H) :
    ∃ Hb, pairRun A (mkTop k nameB round) M.cfg tfn (init ++ chunks.flatten) [] = .ok Hb ∧
      Hb.managers = H.managers := by
  have hdis : ∀ k' ∈ A.allNames, k' ∉ (mkTop k nameB round).allNames := by
    intro k' hk' hm
    rw [allNames_leaf _ (d.isLeaf nameB round), mkTop_name] at hm
    simp only [List.mem_singleton] at hm
    exact hfresh (hm ▸ hk')
  obtain ⟨Hb, _, hb, hm, _⟩ := pair_live_eq_batch SA (depComp d nameB round hB main hin hneB) hclosed hdis
    M tfn init chunks hok H hlive
  exact ⟨Hb, hb, hm⟩

/-- **C01 for the pair, base timeframe** – the statement of the task: `Hexital.init {} none init [A, B]`,
`calculate()`, then any sequence of `append chunk`; raw (`Plain`) input candles. -/
theorem C01_chain_base {A : Ind F} (SA : TreeComp A) (hclosed : SA.ReadsWithin A.allNames)
    {inp : String} {k : Kind F} (d : DepKind (F := F) inp k) (nameB : String) (round : Nat)
    (hB : IsKey nameB) (main : String) (hin : InputOf main inp) (hneB : nameB ≠ main)
    (hfresh : nameB ∉ A.allNames)
    (init : List (Candle F)) (chunks : List (List (Candle F)))
    (hp : ∀ c ∈ init ++ chunks.flatten, Plain c) (H : Hexital F)
    (hlive : pairRun A (mkTop k nameB round) {} none init chunks = .ok H) :
    ∃ Hb, pairRun A (mkTop k nameB round) {} none (init ++ chunks.flatten) [] = .ok Hb ∧
      Hb.managers = H.managers :=
  C01_chain SA hclosed d nameB round hB main hin hneB hfresh (MgrSpec.base F) none init chunks hp H hlive

end Hex.Chain

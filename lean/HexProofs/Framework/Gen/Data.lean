import HexProofs.Framework.Gen.LeafInst
/-
Family (1): nodes with a managed *data series* and no sub-indicators (STDEV, RSI, VWAP).
`_calculate_reading(i)` stores a dict under `<name>_data` in `.sub_indicators` of candle `i` (through
`Managed.set_reading`, whose `Managed` child is a bare leaf), and the framework stores the node's
own reading in `.indicators`: two keys per candle, the step reads the previous candle's data.
-/
namespace Hex
set_option linter.unusedSectionVars false
variable {F : Type} [PyF F]

/-! ### the engine on a data node -/

/-- the helper services of a data node at index `i`, without fuel: `set_reading` of the data
series is a plain store into `.sub_indicators`; no helper is driven by `calculate_index` -/
def dOps (D : String) (i : Int) : Ops F where
  setManaged := fun _ v cs => setReading true D cs i v
  calcManaged := fun _ cs => .ok cs

/-- the tree shape of a data node -/
structure IsDataNode (ind : Ind F) (K D : String) : Prop where
  subs : ind.subs = []
  managed : ind.managed = [(K, leaf .managed D)]
  top : ind.isSub = false

theorem setManaged_engine (f : Nat) (ind : Ind F) (K D : String) (h : IsDataNode ind K D)
    (cs : List (Candle F)) (i : Int) (v : Val F) :
    (do let m ← ind.getManaged K; setManagedReading (f + 2) m cs i v) = setReading true D cs i v := by
  have hg : ind.getManaged K = .ok (leaf .managed D) := by
    unfold Ind.getManaged; rw [h.managed]; simp [dlookup]
  rw [hg]
  simp only [bind, Except.bind]
  rw [setManagedReading]
  simp only [leaf, Ind.subs, Ind.isSub, Ind.name, calcSubs_nil, bind, Except.bind]
  cases setReading true D cs i v with
  | error e => rfl
  | ok cs' => simp only [calcSubs_nil]

/-- one iteration of the loop body with a given reading function -/
def stepWith (ind : Ind F) (C : List (Candle F) → Int → PyM (Val F × List (Candle F)))
    (cs : List (Candle F)) (i : Int) : PyM (List (Candle F)) := do
  let (v, cs') ← C cs i
  setReading ind.isSub ind.name cs' i (v.roundBy ind.round)

def specWith (ind : Ind F) (C : List (Candle F) → Int → PyM (Val F × List (Candle F))) : Gen.StepSpec F where
  name := ind.name
  names := ind.allNames
  step := stepWith ind C

theorem calcLoop_with (ind : Ind F) (C : List (Candle F) → Int → PyM (Val F × List (Candle F)))
    (hC : ∀ f cs i, calcReading (f + 3) ind cs i = C cs i) :
    ∀ (n fuel : Nat) (cs : List (Candle F)) (k : Nat), n + 3 ≤ fuel →
      calcLoop fuel ind cs k n = Gen.nodeLoop (specWith ind C) cs k n := by
  intro n
  induction n with
  | zero =>
    intro fuel cs k hf
    obtain ⟨f, rfl⟩ : ∃ f, fuel = f + 1 := ⟨fuel - 1, by omega⟩
    rw [calcLoop]
    · rfl
    · intro h0; omega
  | succ n ih =>
    intro fuel cs k hf
    obtain ⟨f, rfl⟩ : ∃ f, fuel = (f + 3) + 1 := ⟨fuel - 4, by omega⟩
    rw [calcLoop, Gen.nodeLoop]
    cases hc : pyIndex cs (k : Int) with
    | error e => rfl
    | ok c =>
      simp only [bind, Except.bind]
      show (do
        let cs ← if present ind.name c then pure cs else do
          let (v, cs) ← calcReading (f + 3) ind cs k
          setReading ind.isSub ind.name cs k (v.roundBy ind.round)
        calcLoop (f + 3) ind cs (k + 1) n) = _
      rw [hC f]
      simp only [bind, Except.bind, specWith, stepWith]
      by_cases hp : present ind.name c = true
      · simp only [hp, if_true, pure, Except.pure]
        exact ih (f + 3) cs (k + 1) (by omega)
      · simp only [hp, Bool.false_eq_true, if_false]
        cases hr : C cs (k : Int) with
        | error e => rfl
        | ok r =>
          simp only
          cases hs : setReading ind.isSub ind.name r.2 (k : Int) (r.1.roundBy ind.round) with
          | error e => rfl
          | ok cs' => exact ih (f + 3) cs' (k + 1) (by omega)

/-- **The engine on a node without sub-indicators is the single loop.** -/
theorem engineCalc_with (ind : Ind F) (hsubs : ind.subs = [])
    (C : List (Candle F) → Int → PyM (Val F × List (Candle F)))
    (hC : ∀ f cs i, calcReading (f + 3) ind cs i = C cs i) (cs : List (Candle F)) :
    engineCalc ind cs = Gen.nodeCalc (specWith ind C) cs := by
  unfold engineCalc fuelFor
  rw [calculate_succ, hsubs]
  obtain ⟨f, hf⟩ : ∃ f, 16 + 2 * cs.length = f + 1 := ⟨15 + 2 * cs.length, by omega⟩
  rw [hf, calcSubs_nil]
  simp only [bind, Except.bind]
  rw [calcLoop_with ind C hC _ _ _ _ (by omega)]
  unfold Gen.nodeCalc
  have hn : (specWith ind C).name = ind.name := rfl
  rw [hn]
  cases Gen.nodeLoop (specWith ind C) cs (findCalcIndex ind.name cs) (cs.length - findCalcIndex ind.name cs) with
  | error e => rfl
  | ok cs' => simp only [calcSubs_nil]

theorem calculateIndex_with (ind : Ind F) (hsubs : ind.subs = [])
    (C : List (Candle F) → Int → PyM (Val F × List (Candle F)))
    (hC : ∀ f cs i, calcReading (f + 3) ind cs i = C cs i) (cs : List (Candle F)) (st : Int) :
    Hex.calculateIndex (fuelFor cs) ind cs st (st + 1) = stepWith ind C cs st := by
  unfold fuelFor
  obtain ⟨f, hf⟩ : ∃ f, 16 + 2 * cs.length = (f + 3) + 1 := ⟨12 + 2 * cs.length, by omega⟩
  rw [hf, calculateIndex, hsubs, calcSubs_nil, pyRange_single]
  simp only [List.foldlM_cons, List.foldlM_nil, hC f, bind, Except.bind, pure, Except.pure, stepWith]
  cases C cs st with
  | error e => rfl
  | ok r =>
    simp only
    cases setReading ind.isSub ind.name r.2 st (r.1.roundBy ind.round) with
    | error e => rfl
    | ok cs' => simp only [calcSubs_nil]

end Hex

namespace Hex
set_option linter.unusedSectionVars false
variable {F : Type} [PyF F]

/-! ### the contract of a data node -/

/-- store the data entry, if one is written -/
def setD (D : String) (d : Option (Val F)) (c : Candle F) : Candle F :=
  match d with
  | some dv => setKey true D dv c
  | none => c

/-- the finished candle: data entry in `.sub_indicators`, own reading in `.indicators` -/
def outD (name D : String) (w : Val F) (d : Option (Val F)) (c : Candle F) : Candle F :=
  setKey false name w (setD D d c)

/-- read everything, store the data entry (if any), then finish the own reading with a
computation that reads nothing (it may still raise, e.g. a division or a square root): the shape
of a data node's `_calculate_reading` -/
def rwCalc (D : String) (R : Ctx F → PyM (Option (Val F) × PyM (Val F))) (name : String)
    (cs : List (Candle F)) (i : Int) : PyM (Val F × List (Candle F)) := do
  let (d, fin) ← R { cs := cs, i := i, name := name }
  let cs₁ ← match d with
    | some dv => setReading true D cs i dv
    | none => pure cs
  let v ← fin
  pure (v, cs₁)

/-- **The contract of a data node.**  `C` is the node's reading function as the engine runs it;
on the candles the framework meets (`Good`) it is "read, store, finish" with the pure reading `R`;
`R` never looks ahead, is stable under its own output, and keeps the invariant. -/
structure DataContract (ind : Ind F) (D : String) where
  C : List (Candle F) → Int → PyM (Val F × List (Candle F))
  R : Ctx F → PyM (Option (Val F) × PyM (Val F))
  Inv : List (Candle F) → Prop
  inv_nil : Inv []
  Good : Candle F → Prop
  good_plain : ∀ c, Plain c → Good c
  fact : ∀ (done : List (Candle F)) (c : Candle F) (rest : List (Candle F)), Good c →
    C (done ++ c :: rest) done.length = rwCalc D R ind.name (done ++ c :: rest) done.length
  local_ : ∀ (done : List (Candle F)) (c : Candle F) (rest : List (Candle F)), Inv done → Good c →
    R { cs := done ++ c :: rest, i := done.length, name := ind.name }
      = R { cs := done ++ [c], i := done.length, name := ind.name }
  stable : ∀ (done : List (Candle F)) (c : Candle F) (d : Option (Val F)) (fin : PyM (Val F)) (v : Val F),
    Inv done → Plain c →
    R { cs := done ++ [c], i := done.length, name := ind.name } = .ok (d, fin) → fin = .ok v →
    R { cs := done ++ [outD ind.name D (v.roundBy ind.round) d c], i := done.length, name := ind.name }
      = .ok (d, fin)
  inv_step : ∀ (done : List (Candle F)) (c : Candle F) (d : Option (Val F)) (fin : PyM (Val F)) (v : Val F),
    Inv done → Plain c →
    R { cs := done ++ [c], i := done.length, name := ind.name } = .ok (d, fin) → fin = .ok v →
    Inv (done ++ [outD ind.name D (v.roundBy ind.round) d c]) ∧
    Good (outD ind.name D (v.roundBy ind.round) d c)

theorem outD_outD (name D : String) (w : Val F) (d : Option (Val F)) (c : Candle F) :
    outD name D w d (outD name D w d c) = outD name D w d c := by
  unfold outD setD
  cases d with
  | none => simp [setKey, dset_dset_self]
  | some dv => simp [setKey, dset_dset_self]

variable {ind : Ind F} {D : String}

/-- one step of a data node on `done ++ c :: rest` -/
theorem stepWith_data (K : DataContract ind D) (htop : ind.isSub = false) (done : List (Candle F))
    (c : Candle F) (rest : List (Candle F)) (hinv : K.Inv done) (hg : K.Good c) :
    stepWith ind K.C (done ++ c :: rest) done.length = (do
      let (d, fin) ← K.R { cs := done ++ [c], i := done.length, name := ind.name }
      let v ← fin
      pure (done ++ outD ind.name D (v.roundBy ind.round) d c :: rest)) := by
  unfold stepWith
  rw [K.fact done c rest hg]
  unfold rwCalc
  rw [K.local_ done c rest hinv hg]
  cases K.R { cs := done ++ [c], i := done.length, name := ind.name } with
  | error e => rfl
  | ok r =>
    obtain ⟨d, fin⟩ := r
    cases d with
    | none =>
      cases fin with
      | error e => rfl
      | ok v =>
        simp only [bind, Except.bind, pure, Except.pure, htop, setReading_eq, updateAt_append_cons]
        rfl
    | some dv =>
      cases fin with
      | error e =>
        simp only [bind, Except.bind, pure, Except.pure, htop, setReading_eq, updateAt_append_cons]
      | ok v =>
        simp only [bind, Except.bind, pure, Except.pure, htop, setReading_eq, updateAt_append_cons]
        rfl

theorem fin_outD (hnames : ind.allNames = [ind.name, D]) (C : List (Candle F) → Int → PyM (Val F × List (Candle F)))
    (w : Val F) (d : Option (Val F)) (c : Candle F) (hc : Plain c) :
    Gen.Fin (specWith ind C) c (outD ind.name D w d c) := by
  obtain ⟨hi, hs⟩ := hc
  refine ⟨?_, ?_, ?_, ?_⟩
  · cases d <;> simp [outD, setD, setKey, Candle.bare]
  · show hasKey ind.name _ = true
    exact hasKey_setKey _ _ _ _
  · intro p hp
    show p.1 ∈ ind.allNames
    cases d <;> simp [outD, setD, setKey, hi, dset] at hp <;> subst hp <;> simp [hnames]
  · intro p hp
    show p.1 ∈ ind.allNames
    cases d with
    | none => simp [outD, setD, setKey, hs] at hp
    | some dv => simp [outD, setD, setKey, hs, dset] at hp; subst hp; simp [hnames]

/-- **A data node under its contract satisfies the step laws.** -/
def dataLaw (K : DataContract ind D) (htop : ind.isSub = false) (hnames : ind.allNames = [ind.name, D]) :
    Gen.StepLaw (specWith ind K.C) where
  Inv := K.Inv
  inv_nil := K.inv_nil
  Good := K.Good
  good_plain := K.good_plain
  local_ := by
    intro done c rest hinv hg
    show stepWith ind K.C (done ++ c :: rest) done.length = (do
      let d ← stepWith ind K.C (done ++ [c]) done.length; pure (d ++ rest))
    rw [stepWith_data K htop done c rest hinv hg, stepWith_data K htop done c [] hinv hg]
    cases K.R { cs := done ++ [c], i := done.length, name := ind.name } with
    | error e => rfl
    | ok r =>
      obtain ⟨d, fin⟩ := r
      cases fin <;> simp [bind, Except.bind, pure, Except.pure]
  shape := by
    intro done c d hinv hc h
    change stepWith ind K.C (done ++ [c]) done.length = .ok d at h
    rw [stepWith_data K htop done c [] hinv (K.good_plain c hc)] at h
    cases hr : K.R { cs := done ++ [c], i := done.length, name := ind.name } with
    | error e => rw [hr] at h; cases h
    | ok r =>
      obtain ⟨dd, fin⟩ := r
      rw [hr] at h
      cases hf : fin with
      | error e => rw [hf] at h; cases h
      | ok v =>
        rw [hf] at h
        simp only [bind, Except.bind, pure, Except.pure] at h
        cases h
        obtain ⟨hi, hg⟩ := K.inv_step done c dd fin v hinv hc hr hf
        exact ⟨_, rfl, fin_outD hnames K.C _ dd c hc, hi, hg⟩
  idem := by
    intro done c c' hinv hc h
    change stepWith ind K.C (done ++ [c]) done.length = .ok (done ++ [c']) at h
    show stepWith ind K.C (done ++ [c']) done.length = .ok (done ++ [c'])
    rw [stepWith_data K htop done c [] hinv (K.good_plain c hc)] at h
    cases hr : K.R { cs := done ++ [c], i := done.length, name := ind.name } with
    | error e => rw [hr] at h; cases h
    | ok r =>
      obtain ⟨dd, fin⟩ := r
      rw [hr] at h
      cases hf : fin with
      | error e => rw [hf] at h; cases h
      | ok v =>
        rw [hf] at h
        simp only [bind, Except.bind, pure, Except.pure] at h
        have hc' : c' = outD ind.name D (v.roundBy ind.round) dd c := by
          have := List.append_cancel_left (Except.ok.inj h); simpa using this.symm
        subst hc'
        obtain ⟨_, hg⟩ := K.inv_step done c dd fin v hinv hc hr hf
        rw [stepWith_data K htop done _ [] hinv hg, K.stable done c dd fin v hinv hc hr hf, hf]
        simp [bind, Except.bind, pure, Except.pure, outD_outD]

/-- **A data node under its contract is a `TreeSpec`.** -/
def TreeSpec.ofData (K : DataContract ind D) (hsubs : ind.subs = []) (htop : ind.isSub = false)
    (hnames : ind.allNames = [ind.name, D])
    (hC : ∀ f cs i, calcReading (f + 3) ind cs i = K.C cs i) : TreeSpec ind where
  S := specWith ind K.C
  law := dataLaw K htop hnames
  names_eq := rfl
  engine := by
    intro raw₁ raw₂ done out h₁ hp₁ hp₂
    rw [engineCalc_with ind hsubs K.C hC,
        Gen.nodeCalc_refines (dataLaw K htop hnames) raw₁ raw₂ done h₁ hp₁ hp₂]

theorem indexIsStep_data (K : DataContract ind D) (hsubs : ind.subs = []) (htop : ind.isSub = false)
    (hnames : ind.allNames = [ind.name, D])
    (hC : ∀ f cs i, calcReading (f + 3) ind cs i = K.C cs i) :
    (TreeSpec.ofData K hsubs htop hnames hC).IndexIsStep := by
  intro cs st _ _
  exact calculateIndex_with ind hsubs K.C hC cs st

end Hex

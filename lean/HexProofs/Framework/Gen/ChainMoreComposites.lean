import HexProofs.Framework.Gen.ChainMoreData
/-
Indicator-on-indicator inputs, part 2: the composites with prior helper sub-indicators that read the
`input_value` – MACD (two EMA helpers), KC (EMA helper), BBANDS (STDEV data helper + SMA helper), STDEVTHRES
(STDEV data helper, own reading reads the input), HMA (two WMA helpers) – as whole trees over ANY input seen
through read keys (`InputVia`).  The trees' component calculus is that of Gen/{MACD,KC,BBands,HMA}.lean with
the helper contracts taken at the read keys `rk` (`emaTG`, `smaTG`, `wmaT`, `stdevTG`); the own steps of the
nodes do not read the input (STDEVTHRES: `thresOwnTG`) and are reused unchanged.
-/
namespace Hex.Chain
set_option linter.unusedSectionVars false
set_option linter.unusedSimpArgs false
set_option linter.unusedVariables false
set_option linter.unnecessarySeqFocus false
variable {F : Type} [PyF F]

/-! ### MACD -/

section macd
variable (name : String) (round : Nat) (fast slow signal : Int) (input : String)
  (hf : 1 ≤ fast) (hs : 1 ≤ slow) (hsig : 1 ≤ signal) (hn : MacdNames name) (rk : List String)
  (hv : InputVia F rk input [name, name ++ "_EMA_fast", name ++ "_EMA_slow", name ++ "_signal_line"])

def macdCompFG : TComp F :=
  leafComp (macdEf name fast input) (emaTG _ fast input (fl 2) rfl hf hn.kF rk
    (hv.sees _ (fun k hk => List.mem_cons_of_mem _ hk)) (hv.indep (name ++ "_EMA_fast") (by simp)))

def macdCompSG : TComp F :=
  leafComp (macdEs name slow input) (emaTG _ slow input (fl 2) rfl hs hn.kS rk
    (hv.sees _ (fun k hk => List.mem_cons_of_mem _ hk)) (hv.indep (name ++ "_EMA_slow") (by simp)))

/-- the whole MACD tree over any input: (EMA_fast; EMA_slow); MACD-own -/
def macdCompG : TComp F :=
  TComp.seq (TComp.seq (macdCompFG name fast input hf hn rk hv) (macdCompSG name slow input hs hn rk hv))
    (macdCompP name round fast slow signal input hsig hn)

theorem macdCompG_law : TComp.Law (macdCompG (F := F) name round fast slow signal input hf hs hsig hn rk hv) := by
  unfold macdCompG
  refine TComp.seq_law (TComp.seq_law (leafComp_law _ _) (leafComp_law _ _) ?_)
    (macdCompP_law name round fast slow signal input hsig hn) ?_
  · constructor <;> intro k hk hq <;>
      simp [macdCompFG, macdCompSG, leafComp, emaTG, macdEf_name, macdEs_name] at hk hq <;>
      subst hq <;>
      simp [hn.FS, hn.FS.symm] at hk <;>
      exact hv.dis _ hk (by simp)
  · constructor <;> intro k hk hq <;>
      simp [TComp.seq, macdCompFG, macdCompSG, macdCompP, leafComp, dataComp, emaTG, macdEf_name, macdEs_name,
        macdP_name] at hk hq <;>
      rcases hq with rfl | rfl <;>
      simp [hn.nF, hn.nS, hn.FG, hn.SG, hn.nF.symm, hn.nS.symm, hn.FG.symm, hn.SG.symm] at hk <;>
      exact hv.dis _ hk (by simp)

/-- **the MACD tree over any input seen through `rk`** -/
def macdTreeCompG : TreeComp (macdP (F := F) name round fast slow signal input) where
  X := macdCompG name round fast slow signal input hf hs hsig hn rk hv
  law := macdCompG_law name round fast slow signal input hf hs hsig hn rk hv
  pass_eq := by
    intro cs
    rw [engineCalc_macd]
    show _ = (do
      let cs₁ ← (do let c ← leafCalc (macdEf name fast input) cs; leafCalc (macdEs name slow input) c)
      Gen.nodeCalc (specWith (macdP name round fast slow signal input) (macdC name signal)) cs₁)
    cases leafCalc (macdEf (F := F) name fast input) cs with
    | error e => rfl
    | ok c₁ => simp only [bind, Except.bind]
  wnames := by
    intro k hk
    rw [allNames_macd]
    simp [macdCompG, TComp.seq, macdCompFG, macdCompSG, macdCompP, leafComp, dataComp, macdEf_name, macdEs_name,
      macdP_name] at hk ⊢
    rcases hk with h | h | h | h <;> simp [h]

theorem macdTreeCompG_reads :
    (macdTreeCompG (F := F) name round fast slow signal input hf hs hsig hn rk hv).ReadsWithin
      (rk ++ (macdP (F := F) name round fast slow signal input).allNames) := by
  intro k hk
  rw [allNames_macd]
  simp [macdTreeCompG, macdCompG, TComp.seq, macdCompFG, macdCompSG, macdCompP, leafComp, dataComp, emaTG,
    macdK, macdT, macdEf_name, macdEs_name, macdP_name] at hk ⊢
  rcases hk with h | h | h | h | h | h | h | h <;> simp [h]

end macd

/-! ### Keltner Channel -/

section kc
variable (name : String) (round : Nat) (p : Int) (input : String) (m : Num F)
  (hp : 1 ≤ p) (hn : KcNames name) (rk : List String)
  (hv : InputVia F rk input [name, name ++ "_ATR", name ++ "_ATR" ++ "_TR", name ++ "_EMA"])

def kcCompEG : TComp F :=
  leafComp (kcE name p input) (emaTG _ p input (fl 2) rfl hp hn.kE rk
    (hv.sees _ (fun k hk => List.mem_cons_of_mem _ hk)) (hv.indep (name ++ "_EMA") (by simp)))

/-- the whole KC tree over any input: (TR; ATR-own); (EMA; KC-own) -/
def kcCompG : TComp F :=
  TComp.seq (TComp.seq (kcCompT name) (kcCompA name p hp hn))
    (TComp.seq (kcCompEG name p input hp hn rk hv) (kcCompP name round p input m hn))

theorem kcCompG_law : TComp.Law (kcCompG (F := F) name round p input m hp hn rk hv) := by
  unfold kcCompG
  refine TComp.seq_law (TComp.seq_law (leafComp_law _ _) (leafComp_law _ _) ?_)
    (TComp.seq_law (leafComp_law _ _) (leafComp_law _ _) ?_) ?_
  · constructor <;> intro k hk <;>
      simp [kcCompT, kcCompA, leafComp, trT, atrOwnT, kcT_name, kcA_name] at hk ⊢ <;>
      rintro rfl <;>
      simp [hn.nA, hn.nT, hn.nE, hn.AT, hn.AE, hn.TE, hn.nA.symm, hn.nT.symm, hn.nE.symm, hn.AT.symm,
        hn.AE.symm, hn.TE.symm] at hk
  · constructor <;> intro k hk hq <;>
      simp [kcCompEG, kcCompP, leafComp, emaTG, kcOwnT, kcE_name, kcP_name] at hk hq <;>
      subst hq <;>
      simp [hn.nE, hn.nE.symm] at hk <;>
      exact hv.dis _ hk (by simp)
  · constructor <;> intro k hk <;>
      simp [TComp.seq, kcCompT, kcCompA, kcCompEG, kcCompP, leafComp, trT, atrOwnT, emaTG, kcOwnT, kcT_name,
        kcA_name, kcE_name, kcP_name] at hk ⊢ <;>
      constructor <;> rintro rfl <;>
      simp [hn.nA, hn.nT, hn.nE, hn.AT, hn.AE, hn.TE, hn.nA.symm, hn.nT.symm, hn.nE.symm, hn.AT.symm,
        hn.AE.symm, hn.TE.symm] at hk

/-- **the KC tree over any input seen through `rk`** -/
def kcTreeCompG : TreeComp (kcP (F := F) name round p input m) where
  X := kcCompG name round p input m hp hn rk hv
  law := kcCompG_law name round p input m hp hn rk hv
  pass_eq := by
    intro cs
    rw [engineCalc_kc]
    show _ = (do
      let cs₁ ← (do let c ← leafCalc (kcT name) cs; leafCalc (kcA name p) c)
      (do let c ← leafCalc (kcE name p input) cs₁; leafCalc (kcP name round p input m) c))
    cases leafCalc (kcT (F := F) name) cs with
    | error e => rfl
    | ok c₁ => simp only [bind, Except.bind]
  wnames := by
    intro k hk
    rw [allNames_kc]
    simp [kcCompG, TComp.seq, kcCompT, kcCompA, kcCompEG, kcCompP, leafComp, kcT_name, kcA_name, kcE_name,
      kcP_name] at hk ⊢
    rcases hk with h | h | h | h <;> simp [h]

theorem kcTreeCompG_reads :
    (kcTreeCompG (F := F) name round p input m hp hn rk hv).ReadsWithin
      (rk ++ (kcP (F := F) name round p input m).allNames) := by
  intro k hk
  rw [allNames_kc]
  simp [kcTreeCompG, kcCompG, TComp.seq, kcCompT, kcCompA, kcCompEG, kcCompP, leafComp, trT, atrOwnT, emaTG, kcOwnT,
    kcT_name, kcA_name, kcE_name, kcP_name] at hk ⊢
  rcases hk with h | h | h | h | h | h | h | h <;> simp [h]

end kc

/-! ### Bollinger Bands -/

section bb
variable (name : String) (round : Nat) (p : Int) (input : String)
  (hp : 1 ≤ p) (hn : BbNames name) (rk : List String)
  (hv : InputVia F rk input [name, name ++ "_STDEV", name ++ "_STDEV" ++ "_data", name ++ "_SMA"])

def bbCompSG : TComp F :=
  dataComp (bbS name p input) (name ++ "_STDEV" ++ "_data")
    (stdevTG _ p input rfl (by omega) hn.sn rk (hv.sees _ (fun k hk => by simp [hk]))
      (hv.indep (name ++ "_STDEV") (by simp)) (hv.indep (name ++ "_STDEV" ++ "_data") (by simp)))

def bbCompMG : TComp F :=
  leafComp (bbM name p input) (smaTG _ p input rfl hp hn.kM rk
    (hv.sees _ (fun k hk => List.mem_cons_of_mem _ hk)) (hv.indep (name ++ "_SMA") (by simp)))

/-- the whole BBANDS tree over any input: STDEV helper; (SMA helper; BBANDS-own) -/
def bbCompG : TComp F :=
  TComp.seq (bbCompSG name p input hp hn rk hv)
    (TComp.seq (bbCompMG name p input hp hn rk hv) (bbCompP name round p input hn))

theorem bbCompG_law : TComp.Law (bbCompG (F := F) name round p input hp hn rk hv) := by
  unfold bbCompG
  refine TComp.seq_law (dataComp_law _ _ _ hn.sn.ne)
    (TComp.seq_law (leafComp_law _ _) (leafComp_law _ _) ?_) ?_
  · constructor <;> intro k hk hq <;>
      simp [bbCompMG, bbCompP, leafComp, smaTG, bbOwnT, bbM_name, bbP_name] at hk hq <;>
      subst hq <;>
      simp [hn.nM, hn.nM.symm] at hk <;>
      exact hv.dis _ hk (by simp)
  · constructor <;> intro k hk hq <;>
      simp [TComp.seq, bbCompSG, bbCompMG, bbCompP, dataComp, leafComp, stdevTG, smaTG, bbS_name, bbM_name,
        bbP_name] at hk hq <;>
      rcases hq with rfl | rfl <;>
      simp [hn.nS, hn.nD, hn.nM, hn.SM, hn.DM, hn.nS.symm, hn.nD.symm, hn.nM.symm, hn.SM.symm, hn.DM.symm] at hk <;>
      exact hv.dis _ hk (by simp)

/-- **the BBANDS tree over any input seen through `rk`** -/
def bbTreeCompG : TreeComp (bbP (F := F) name round p input) where
  X := bbCompG name round p input hp hn rk hv
  law := bbCompG_law name round p input hp hn rk hv
  pass_eq := by
    intro cs
    rw [engineCalc_bb]
    rfl
  wnames := by
    intro k hk
    rw [allNames_bb]
    simp [bbCompG, TComp.seq, bbCompSG, bbCompMG, bbCompP, dataComp, leafComp, bbS_name, bbM_name, bbP_name] at hk ⊢
    rcases hk with h | h | h | h <;> simp [h]

theorem bbTreeCompG_reads :
    (bbTreeCompG (F := F) name round p input hp hn rk hv).ReadsWithin
      (rk ++ (bbP (F := F) name round p input).allNames) := by
  intro k hk
  rw [allNames_bb]
  simp [bbTreeCompG, bbCompG, TComp.seq, bbCompSG, bbCompMG, bbCompP, dataComp, leafComp, stdevTG, smaTG, bbOwnT,
    bbS_name, bbM_name, bbP_name] at hk ⊢
  rcases hk with h | h | h | h | h | h | h | h <;> simp [h]

end bb

/-! ### STDEVTHRES -/

/-- the own reading of STDEVTHRES (it reads the input), tolerant, any input -/
def thresOwnTG (Z : Ind F) (p : Int) (input : String) (m : Num F) (hk : Z.kind = .stdevthres p input m)
    (hs : IsKey (Z.name ++ "_stdev")) (hne : Z.name ≠ Z.name ++ "_stdev") (rk : List String)
    (hsee : Sees F (Z.name :: (Z.name ++ "_stdev") :: rk) input) (hind : Indep F Z.name input) : TContract Z where
  rkeys := (Z.name ++ "_stdev") :: rk
  Inv := fun _ => True
  inv_nil := trivial
  inv_sim := fun _ _ _ _ => trivial
  inv_step := fun _ _ _ _ _ _ => trivial
  loc := by
    intro H c rest _
    unfold valOf
    rw [hk, ← trunc_append_cons H c rest]
    exact (stdevthres_trunc _ input m (by simp) (by simp)).symm
  val_sim := by
    intro H H' c c' hH hc
    unfold valOf
    rw [hk]
    exact stdevthres_congr _ _ input m rfl
      (sameCol_simL _ (Z.name ++ "_stdev") (sees_key _ _ hs (by simp)) hH hc _)
      (sameCol_simL _ input hsee hH hc _)
  stable := by
    intro H c v
    unfold valOf decOf
    rw [hk]
    exact stdevthres_congr _ _ input m rfl
      (sameCol_last (Z.name ++ "_stdev") H c _ Z.name (indep_key Z.name _ hs hne _ _ _))
      (sameCol_last input H c _ Z.name (hind _ _ _))

section thres
variable (name : String) (round : Nat) (p : Int) (input : String) (m : Num F)
  (hp : 0 ≤ p) (hn : ThresNames name) (rk : List String)
  (hv : InputVia F rk input [name, name ++ "_stdev", name ++ "_stdev" ++ "_data"])

def thCompSG : TComp F :=
  dataComp (thS name p input) (name ++ "_stdev" ++ "_data")
    (stdevTG _ p input rfl hp hn.sn rk (hv.sees _ (fun k hk => by simp [hk]))
      (hv.indep (name ++ "_stdev") (by simp)) (hv.indep (name ++ "_stdev" ++ "_data") (by simp)))

def thCompPG : TComp F :=
  leafComp (thP name round p input m) (thresOwnTG _ p input m (mkTop_kind _ _ _) hn.kS hn.nS rk
    (hv.sees _ (fun k hk => by simp [hk])) (hv.indep name (by simp)))

/-- the whole STDEVTHRES tree over any input: STDEV helper; STDEVTHRES-own -/
def thCompG : TComp F := TComp.seq (thCompSG name p input hp hn rk hv) (thCompPG name round p input m hn rk hv)

theorem thCompG_law : TComp.Law (thCompG (F := F) name round p input m hp hn rk hv) := by
  unfold thCompG
  refine TComp.seq_law (dataComp_law _ _ _ hn.sn.ne) (leafComp_law _ _) ?_
  constructor <;> intro k hk hq <;>
    simp [thCompSG, thCompPG, dataComp, leafComp, stdevTG, thresOwnTG, thS_name, thP_name] at hk hq <;>
    subst hq <;>
    simp [hn.nS, hn.nD, hn.nS.symm, hn.nD.symm] at hk <;>
    exact hv.dis _ hk (by simp)

/-- **the STDEVTHRES tree over any input seen through `rk`** -/
def thTreeCompG : TreeComp (thP (F := F) name round p input m) where
  X := thCompG name round p input m hp hn rk hv
  law := thCompG_law name round p input m hp hn rk hv
  pass_eq := by
    intro cs
    rw [engineCalc_thres]
    rfl
  wnames := by
    intro k hk
    rw [allNames_thres]
    simp [thCompG, TComp.seq, thCompSG, thCompPG, dataComp, leafComp, thS_name, thP_name] at hk ⊢
    rcases hk with h | h | h <;> simp [h]

theorem thTreeCompG_reads :
    (thTreeCompG (F := F) name round p input m hp hn rk hv).ReadsWithin
      (rk ++ (thP (F := F) name round p input m).allNames) := by
  intro k hk
  rw [allNames_thres]
  simp [thTreeCompG, thCompG, TComp.seq, thCompSG, thCompPG, dataComp, leafComp, stdevTG, thresOwnTG,
    thS_name, thP_name] at hk ⊢
  rcases hk with h | h | h | h | h | h <;> simp [h]

end thres

end Hex.Chain

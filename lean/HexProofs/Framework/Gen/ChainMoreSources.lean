import HexProofs.Framework.Gen.ChainMoreBase
import HexProofs.Analysis.AmorphContract
/-
Indicator-on-indicator inputs, part 2: the classes that had no component instance, as SOURCE trees (and the
leaf classes also as dependents where they take reading names): ATR (prior TR helper), VWAP (data series), and
the non-average leaves TR, HLA, OBV, VWMA, HighestLowest, Aroon, Donchian, Counter and the Amorph wrapper of all 20
analysis functions (its reading names may be candle attributes or ANOTHER member's output).
-/
namespace Hex.Chain
set_option linter.unusedSectionVars false
set_option linter.unusedSimpArgs false
set_option linter.unusedVariables false
set_option linter.unnecessarySeqFocus false
variable {F : Type} [PyF F]

/-! ### tolerant contracts of the remaining leaf kinds -/

/-- OBV -/
def obvT (Z : Ind F) (hk : Z.kind = .obv) (hname : IsKey Z.name) : TContract Z :=
  TContract.ofTrunc Z []
    (by intro x h0 hi; rw [hk]; exact obv_trunc x h0 hi)
    (by
      intro H H' c c' hH hc
      unfold valOf
      rw [hk]
      have hown := sameCol_simL _ Z.name (sees_key _ _ hname (by simp)) hH hc Z.name
      exact obv_congr _ _
        (sameCol_simL _ "close" (sees_attr _ _ noDot_close (by decide)) hH hc _)
        (sameCol_simL _ "volume" (sees_attr _ _ noDot_volume (by decide)) hH hc _)
        (Ctx.prevExists_congr hown) (Ctx.prevNum_congr hown))
    (by
      intro H c v
      unfold valOf decOf
      rw [hk]
      refine obv_congr _ _
        (sameCol_last "close" H c _ Z.name (indep_attr Z.name "close" noDot_close (by decide) _ _ _))
        (sameCol_last "volume" H c _ Z.name (indep_attr Z.name "volume" noDot_volume (by decide) _ _ _)) ?_ ?_
      · rw [Ctx.prevExists_append_cons, Ctx.prevExists_append_cons]
      · rw [Ctx.prevNum_append_cons, Ctx.prevNum_append_cons])

/-- HighestLowest -/
def hlT (Z : Ind F) (p : Int) (hk : Z.kind = .hl p) : TContract Z :=
  TContract.ofTrunc Z []
    (by intro x h0 hi; rw [hk]; exact hl_trunc x p h0 hi)
    (by
      intro H H' c c' hH hc
      unfold valOf
      rw [hk]
      exact hl_congr _ _ p
        (sameCol_simL _ "high" (sees_attr _ _ noDot_high (by decide)) hH hc _)
        (sameCol_simL _ "low" (sees_attr _ _ noDot_low (by decide)) hH hc _))
    (by
      intro H c v
      unfold valOf decOf
      rw [hk]
      exact hl_congr _ _ p
        (sameCol_last "high" H c _ Z.name (indep_attr Z.name "high" noDot_high (by decide) _ _ _))
        (sameCol_last "low" H c _ Z.name (indep_attr Z.name "low" noDot_low (by decide) _ _ _)))

/-- Aroon (`period ≥ 0`) -/
def aroonT (Z : Ind F) (p : Int) (hk : Z.kind = .aroon p) (hp : 0 ≤ p) : TContract Z :=
  TContract.ofTrunc Z []
    (by intro x h0 hi; rw [hk]; exact aroon_trunc x p h0 hi hp)
    (by
      intro H H' c c' hH hc
      unfold valOf
      rw [hk]
      exact aroon_congr _ _ p
        (sameCol_simL _ "high" (sees_attr _ _ noDot_high (by decide)) hH hc _)
        (sameCol_simL _ "low" (sees_attr _ _ noDot_low (by decide)) hH hc _))
    (by
      intro H c v
      unfold valOf decOf
      rw [hk]
      exact aroon_congr _ _ p
        (sameCol_last "high" H c _ Z.name (indep_attr Z.name "high" noDot_high (by decide) _ _ _))
        (sameCol_last "low" H c _ Z.name (indep_attr Z.name "low" noDot_low (by decide) _ _ _)))

/-- the dotted read `<name>.DCU` of Donchian's own previous dict -/
structure DonchianNames (name : String) : Prop where
  dcu : splitDot (name ++ ".DCU") = [name, "DCU"]

/-- Donchian (`period ≥ 1`) -/
def donchianT (Z : Ind F) (p : Int) (hk : Z.kind = .donchian p) (hp : 1 ≤ p) (hn : DonchianNames Z.name) :
    TContract Z :=
  TContract.ofTrunc Z []
    (by intro x h0 hi; rw [hk]; exact donchian_trunc x p h0 hi hp)
    (by
      intro H H' c c' hH hc
      unfold valOf
      rw [hk]
      have hown := sameCol_simL _ (Z.name ++ ".DCU") (sees_dotted _ _ Z.name "DCU" hn.dcu (by simp)) hH hc Z.name
      exact donchian_congr _ _ p
        (sameCol_simL _ "high" (sees_attr _ _ noDot_high (by decide)) hH hc _)
        (sameCol_simL _ "low" (sees_attr _ _ noDot_low (by decide)) hH hc _)
        (Ctx.prevReading_congr hown))
    (by
      intro H c v
      unfold valOf decOf
      rw [hk]
      refine donchian_congr _ _ p
        (sameCol_last "high" H c _ Z.name (indep_attr Z.name "high" noDot_high (by decide) _ _ _))
        (sameCol_last "low" H c _ Z.name (indep_attr Z.name "low" noDot_low (by decide) _ _ _)) ?_
      rw [Ctx.prevReading_append_cons, Ctx.prevReading_append_cons])

/-- VWMA (`period ≥ 1`) -/
def vwmaT (Z : Ind F) (p : Int) (hk : Z.kind = .vwma p) (hp : 1 ≤ p) (hname : IsKey Z.name) : TContract Z where
  rkeys := []
  Inv := WindowInv Z.name p
  inv_nil := windowInv_nil _ _
  inv_sim := by
    intro H H' hinv hs hne
    rw [← lastReading_simL Z.name hname _ (by simp) hs] at hne
    rw [← hs.length_eq]
    exact hinv hne
  inv_step := by
    intro H c v hinv hc hv hne
    unfold valOf at hv
    rw [hk] at hv
    have hlast : Ctx.lastReading Z.name (H ++ [decOf Z v c]) = v.roundBy Z.round := by
      unfold Ctx.lastReading decOf
      rw [List.getLast?_append]
      simp [readingByCandle_setKey_noKey Z.isSub Z.name hname _ c hc]
    rw [hlast, Val.roundBy_isNone] at hne
    have hlen : ((H ++ [decOf Z v c]).length : Int) = H.length + 1 := by simp
    rw [hlen]
    rcases vwma_nonNone _ p v hv hne with h | h
    · rw [Ctx.prevExists_append_cons] at h
      have : (Ctx.lastReading Z.name H).isNone = false := by simpa using Except.ok.inj h
      have := hinv this
      omega
    · have := readingPeriod_true_bound _ p "close" _ h
      simp only [Option.getD_none] at this
      omega
  loc := by
    intro H c rest hinv
    unfold valOf
    rw [hk, ← trunc_append_cons H c rest]
    refine (vwma_trunc _ p (by simp) (by simp) hp ?_).symm
    intro b hb hbt
    exact windowInv_prev Z.name p H c rest hinv b hb hbt
  val_sim := by
    intro H H' c c' hH hc
    unfold valOf
    rw [hk]
    have hown := sameCol_simL _ Z.name (sees_key _ _ hname (by simp)) hH hc Z.name
    exact vwma_congr _ _ p
      (sameCol_simL _ "close" (sees_attr _ _ noDot_close (by decide)) hH hc _)
      (sameCol_simL _ "volume" (sees_attr _ _ noDot_volume (by decide)) hH hc _)
      (Ctx.prevExists_congr hown)
  stable := by
    intro H c v
    unfold valOf decOf
    rw [hk]
    refine vwma_congr _ _ p
      (sameCol_last "close" H c _ Z.name (indep_attr Z.name "close" noDot_close (by decide) _ _ _))
      (sameCol_last "volume" H c _ Z.name (indep_attr Z.name "volume" noDot_volume (by decide) _ _ _)) ?_
    rw [Ctx.prevExists_append_cons, Ctx.prevExists_append_cons]

/-! ### Amorph: reading names seen through read keys -/

theorem ana_names_eq (a : Analysis) : Ana.names a = a.names := by cases a <;> rfl

theorem strip_of_bare {a b : Candle F} (h : a.bare = b.bare) : Ana.strip a = Ana.strip b := by
  have ho := congrArg Candle.o h
  have hh := congrArg Candle.h h
  have hl := congrArg Candle.l h
  have hc := congrArg Candle.c h
  simp only [Candle.bare] at ho hh hl hc
  unfold Ana.strip
  rw [ho, hh, hl, hc]

theorem map_strip_simL {keys : List String} {L L' : List (Candle F)} (h : SimL keys L L') :
    L.map Ana.strip = L'.map Ana.strip := by
  induction h with
  | nil => rfl
  | cons hab _ ih => simp only [List.map_cons]; rw [strip_of_bare hab.1, ih]

/-- reading a plain key other than `name` does not see the erased entries under `name` -/
theorem indepP_key (name nm : String) (hk : IsKey nm) (hne : name ≠ nm) : IndepP F name nm := by
  intro c
  rw [readingByCandle_key nm hk, readingByCandle_key nm hk]
  unfold lookupKey normK
  simp [dlookup_derase, hne]

theorem indepP_dotted (name nm main fld : String) (hs : splitDot nm = [main, fld]) (hne : name ≠ main) :
    IndepP F name nm := by
  intro c
  unfold readingByCandle
  rw [hs]
  simp [normK, dlookup_derase, hne]

theorem InputOf.indepP {main inp : String} (h : InputOf main inp) (name : String) (hne : name ≠ main) :
    IndepP F name inp := by
  rcases h with ⟨rfl, hk⟩ | ⟨fld, hs⟩
  · exact indepP_key name _ hk hne
  · exact indepP_dotted name inp main fld hs hne

/-- **Amorph, tolerant**: every reading name of the wrapped function is seen through the read keys and does
not see the wrapper's own entry -/
def amorphTG (Z : Ind F) (a : Analysis) (hk : Z.kind = .amorph a) (rk : List String)
    (hsee : ∀ nm ∈ a.names, Sees F (Z.name :: rk) nm) (hind : ∀ nm ∈ a.names, IndepP F Z.name nm) : TContract Z :=
  TContract.ofTrunc Z rk
    (by
      intro x h0 hi
      rw [hk]
      exact (Ana.runAnalysis_causal (F := F) a).trunc x.cs x.i h0 hi)
    (by
      intro H H' c c' hH hc
      unfold valOf
      rw [hk]
      show runAnalysis a (H ++ [c]) (H.length : Int) = runAnalysis a (H' ++ [c']) (H'.length : Int)
      have hall : SimL (Z.name :: rk) (H ++ [c]) (H' ++ [c']) := hH.snoc hc
      rw [← hH.length_eq]
      refine Ana.runAnalysis_congr a _ _ (map_strip_simL hall) ?_ _ (by omega) (by simp)
      intro nm hnm
      rw [ana_names_eq] at hnm
      exact col_simL _ nm (hsee nm hnm) hall)
    (by
      intro H c v
      unfold valOf decOf
      rw [hk]
      show runAnalysis a (H ++ [setKey Z.isSub Z.name _ c]) _ = runAnalysis a (H ++ [c]) _
      rw [← runAnalysis_normK a Z.name hind (H ++ [setKey Z.isSub Z.name _ c]),
          ← runAnalysis_normK a Z.name hind (H ++ [c])]
      simp only [List.map_append, List.map_cons, List.map_nil, normK_setKey])

/-! ### leaves as whole trees -/

/-- a leaf kind built by `mkTop`, under a tolerant contract -/
def leafTopComp (k : Kind F) (name : String) (round : Nat) (hr : k.readOnly = true)
    (hc : children k name = ([], [])) (T : TContract (mkTop k name round)) : TreeComp (mkTop k name round) :=
  TreeComp.ofLeaf _ (isLeaf_mkTop k name round hr hc) T

theorem leafTopComp_reads (k : Kind F) (name : String) (round : Nat) (hr : k.readOnly = true)
    (hc : children k name = ([], [])) (T : TContract (mkTop k name round)) :
    (leafTopComp k name round hr hc T).ReadsWithin (name :: T.rkeys) := fun _ hk => hk

theorem allNames_leafTop (k : Kind F) (name : String) (round : Nat) (hr : k.readOnly = true)
    (hc : children k name = ([], [])) : (mkTop k name round).allNames = [name] := by
  rw [allNames_leaf _ (isLeaf_mkTop k name round hr hc), mkTop_name]

/-! ### ATR -/

section atr
variable (name : String) (round : Nat) (p : Int) (hp : 1 ≤ p) (hn : AtrNames name) (hname : IsKey name)

theorem atrX_name : (leaf (.tr : Kind F) (name ++ "_TR")).name = name ++ "_TR" := rfl

def atrCompX : TComp F := leafComp (leaf .tr (name ++ "_TR")) (trT _ rfl)
def atrCompP : TComp F :=
  leafComp (mkTop (.atr p : Kind F) name round) (atrOwnT _ p (mkTop_kind _ _ _) hp hname hn.trkey hn.ne.symm)

/-- the ATR tree as a component: TR helper; ATR-own -/
def atrComp : TComp F := TComp.seq (atrCompX name) (atrCompP name round p hp hn hname)

theorem atrComp_law : TComp.Law (atrComp (F := F) name round p hp hn hname) := by
  unfold atrComp
  refine TComp.seq_law (leafComp_law _ _) (leafComp_law _ _) ?_
  constructor <;> intro k hk hq <;>
    simp [atrCompX, atrCompP, leafComp, trT, atrOwnT, atrX_name, mkTop_name] at hk hq <;>
    subst hq <;>
    exact hn.ne hk.symm

theorem allNames_atr : (mkTop (.atr p : Kind F) name round).allNames = [name, name ++ "_TR"] := by
  simp [mkTop, children, Ind.allNames_eq, leaf, Ind.name, Ind.subs, Ind.managed]

/-- **the ATR tree as a source** -/
def atrTreeComp : TreeComp (mkTop (.atr p : Kind F) name round) where
  X := atrComp name round p hp hn hname
  law := atrComp_law name round p hp hn hname
  pass_eq := by
    intro cs
    unfold engineCalc
    exact calculate_one_prior (mkTop (.atr p : Kind F) name round) (leaf .tr (name ++ "_TR")) rfl rfl
      ⟨rfl, rfl, rfl⟩ rfl rfl _ cs (by unfold fuelFor; omega)
  wnames := by
    intro k hk
    rw [allNames_atr]
    simp [atrComp, TComp.seq, atrCompX, atrCompP, leafComp, atrX_name, mkTop_name] at hk ⊢
    rcases hk with h | h <;> simp [h]

theorem atrTreeComp_reads :
    (atrTreeComp (F := F) name round p hp hn hname).ReadsWithin (mkTop (.atr p : Kind F) name round).allNames := by
  intro k hk
  rw [allNames_atr]
  simp [atrTreeComp, atrComp, TComp.seq, atrCompX, atrCompP, leafComp, trT, atrOwnT, atrX_name, mkTop_name]
    at hk ⊢
  rcases hk with h | h | h <;> simp [h]

end atr

/-! ### VWAP -/

/-- name conditions of a VWAP node -/
structure VwapNames (name : String) : Prop where
  ne : name ≠ name ++ "_data"
  pv : splitDot (name ++ "_data.pv") = [name ++ "_data", "pv"]
  vol : splitDot (name ++ "_data.vol") = [name ++ "_data", "vol"]

theorem vwapR_congr' (x y : Ctx F) (hn : x.name = y.name) (hh : Ctx.SameCol "high" x y)
    (hl : Ctx.SameCol "low" x y) (hc : Ctx.SameCol "close" x y) (hv : Ctx.SameCol "volume" x y)
    (hpv : Ctx.SameCol (y.name ++ "_data.pv") x y) (hvol : Ctx.SameCol (y.name ++ "_data.vol") x y) :
    vwapR x = vwapR y := by
  unfold vwapR
  simp only [hn, Ctx.prevExists_congr hpv, Ctx.prevNum_congr hpv, Ctx.prevNum_congr hvol, Ctx.num_congr hh,
    Ctx.num_congr hl, Ctx.num_congr hc, Ctx.num_congr hv]

/-- **VWAP satisfies the tolerant data contract** -/
def vwapT (Z : Ind F) (p : Int) (hk : Z.kind = .vwap p) (hn : VwapNames Z.name) :
    TDataContract Z (Z.name ++ "_data") where
  C := fun cs i => Calc.vwap (dOps (Z.name ++ "_data") i) { cs := cs, i := i, name := Z.name }
  R := vwapR
  rkeys := []
  fact := fun H c rest _ => vwap_fact _ _ _ _
  loc := by
    intro H c rest
    rw [← trunc_append_cons H c rest]
    exact (vwapR_trunc _ (by simp) (by simp)).symm
  val_sim := by
    intro H H' c c' hH hc
    exact vwapR_congr' _ _ rfl
      (sameCol_simL _ "high" (sees_attr _ _ noDot_high (by decide)) hH hc _)
      (sameCol_simL _ "low" (sees_attr _ _ noDot_low (by decide)) hH hc _)
      (sameCol_simL _ "close" (sees_attr _ _ noDot_close (by decide)) hH hc _)
      (sameCol_simL _ "volume" (sees_attr _ _ noDot_volume (by decide)) hH hc _)
      (sameCol_simL _ _ (sees_dotted _ _ _ _ hn.pv (by simp)) hH hc _)
      (sameCol_simL _ _ (sees_dotted _ _ _ _ hn.vol (by simp)) hH hc _)
  stable := by
    intro H c w d
    have hat : ∀ nm, NoDot nm → nm ∈ Candle.attrNames →
        Ctx.SameCol nm ({ cs := H ++ [outDS Z.isSub Z.name (Z.name ++ "_data") w d c], i := H.length, name := Z.name } : Ctx F)
          { cs := H ++ [c], i := H.length, name := Z.name } := fun nm h1 h2 =>
      sameCol_last nm H c _ Z.name (readingByCandle_outDS _ _ _ nm (indep_attr _ _ h1 h2) (indep_attr _ _ h1 h2) w d c)
    refine vwapR_congr _ _ rfl (hat "high" noDot_high (by decide)) (hat "low" noDot_low (by decide))
      (hat "close" noDot_close (by decide)) (hat "volume" noDot_volume (by decide)) ?_ ?_
    · intro nm; rw [Ctx.prevExists_append_cons, Ctx.prevExists_append_cons]
    · intro nm; rw [Ctx.prevNum_append_cons, Ctx.prevNum_append_cons]

section vwap
variable (name : String) (round : Nat) (p : Int) (hn : VwapNames name)

/-- **the VWAP tree as a source** -/
def vwapTopComp : TreeComp (mkTop (.vwap p : Kind F) name round) :=
  have hd := isDataNode_mkTop (.vwap p : Kind F) name round "VWAP_data" rfl
  dataTreeComp (mkTop (.vwap p : Kind F) name round) (name ++ "_data")
    (vwapT _ p (mkTop_kind _ _ _) hn) hn.ne hd.subs (allNames_dataNode _ _ _ hd)
    (fun f cs i => calcReading_vwap _ p _ (mkTop_kind _ _ _) hd f cs i)

theorem allNames_vwapTop : (mkTop (.vwap p : Kind F) name round).allNames = [name, name ++ "_data"] :=
  allNames_dataNode _ _ _ (isDataNode_mkTop (.vwap p : Kind F) name round "VWAP_data" rfl)

theorem vwapTopComp_reads :
    (vwapTopComp (F := F) name round p hn).ReadsWithin (mkTop (.vwap p : Kind F) name round).allNames := by
  intro k hk
  rw [allNames_vwapTop]
  exact hk

end vwap

end Hex.Chain

import HexProofs.Framework.Gen.IndexTrees
/-
C14 on a COLLAPSING TIMEFRAME: operation programs on a standalone indicator whose manager is any
`MgrSpec` (base timeframe, timeframe, timeframe + fill).

The operations and programs are the ones of `HexProofs/Framework/Program.lean` (`Op`, `Op.run`, `Runs`):
`Op.run s (.append ch)` is `s.append ch`, i.e. `Manager.append` with the configuration the object carries
(collapse → fill → convert → trim over `candles ++ ch`) followed by `calculate()`; nothing there is tied
to the default configuration.  What IS tied to it is the invariant (`GProgInv.cfg : s.mgr.cfg = {}`,
candles resumable over the raw stream itself).  Here the invariant is taken relative to a manager spec
`M`: the candles are resumable over `M.spec stream` – the collapsed (and filled) stream WITHOUT readings –
and every append goes through `MgrSpec.append`: the manager keeps the first `k` collapsed candles, drops
the still-forming last bucket if a raw candle is merged into it, and appends plain candles `Q`; the
finished prefix `done.take k` is still the row-major run over `(M.spec stream).take k`
(`Gen.rowMajor_take`), so the new list is resumable over `M.spec (stream ++ ch)`
(`TreeSpec.mgrAppend_resumableAt`).  `purge` / `recalculate` / `calculate_index` act on the collapsed
candles exactly as on the base timeframe.

Nothing turned out false: after every operation the state is either FINISHED (the row-major run over
`M.spec stream`) or RAW (`M.spec stream` itself), as on the base timeframe; in particular the last
bucket is recomputed by the `calculate()` that ends every `append`, so `calculate_index(-1)` right after a
merge reproduces it, and `purge` followed by `append` re-collapses the plain buckets to the spec of the
longer stream (`MgrSpec.append_raw`).

The base timeframe is the instance `M = MgrSpec.base F` (`gprogInvM_base`).
-/
namespace Hex
set_option linter.unusedSectionVars false
variable {F : Type} [PyF F]

/-! ### small facts -/

theorem dressed_self (xs : List (Candle F)) : Dressed xs xs := by
  induction xs with
  | nil => exact List.Forall₂.nil
  | cons c r ih => exact List.Forall₂.cons rfl ih

/-- construction over a well-formed raw stream: the manager holds the spec of the stream -/
theorem IndState.init_mgrSpec (ind : Ind F) (M : MgrSpec F) (init : List (Candle F)) (hok : M.Ok init) :
    IndState.init ind M.cfg init = .ok { tree := ind, mgr := { cfg := M.cfg, candles := M.spec init } } := by
  unfold IndState.init Manager.init
  rw [M.init init hok]
  rfl

/-- `Manager.append` on PLAIN collapsed candles (a fresh object, or right after `purge()`) gives exactly the
spec of the longer stream: purge followed by append re-collapses correctly -/
theorem MgrSpec.append_raw (M : MgrSpec F) (stream ch : List (Candle F)) (hok : M.Ok (stream ++ ch)) (hch : ch ≠ []) :
    tasks M.cfg (M.spec stream ++ ch) = .ok (M.spec (stream ++ ch)) := by
  obtain ⟨k, Q, _, _, ht, hspec⟩ := M.append stream ch (M.spec stream) hok hch (dressed_self _)
  rw [ht, hspec]

variable {ind : Ind F}

theorem TreeSpec.resumableAt_dressed {T : TreeSpec ind} {raw cs : List (Candle F)}
    (h : Gen.ResumableAt T.S raw cs) : Dressed raw cs := by
  obtain ⟨raw₁, raw₂, done, rfl, hp₁, _, hr, rfl⟩ := h
  exact forall₂_append (Gen.rowMajor_shape T.law raw₁ done hp₁ hr).1.dressed (dressed_self raw₂)

/-! ### one `Manager.append` on a resumable state -/

/-- **`Manager.append` keeps the state resumable** – over the manager spec of the longer stream.  The manager
re-collapses `candles ++ ch`: it keeps the first `k` candles (readings included), drops the still-forming
last bucket when a raw candle is merged into it, and appends plain candles. -/
theorem TreeSpec.mgrAppend_resumableAt (T : TreeSpec ind) (M : MgrSpec F) (stream ch : List (Candle F))
    (m m' : Manager F) (hcfg : m.cfg = M.cfg) (hok : M.Ok (stream ++ ch))
    (hres : Gen.ResumableAt T.S (M.spec stream) m.candles) (h : m.append ch = .ok m') :
    m'.cfg = M.cfg ∧ Gen.ResumableAt T.S (M.spec (stream ++ ch)) m'.candles := by
  unfold Manager.append at h
  by_cases hch : ch = []
  · subst hch
    simp only [List.isEmpty_nil, if_true] at h
    cases h
    exact ⟨hcfg, by simpa using hres⟩
  · have hne : ch.isEmpty = false := by cases ch <;> simp at hch ⊢
    simp only [hne, Bool.false_eq_true, if_false] at h
    obtain ⟨k, Q, hQ, _, ht, hspec⟩ := M.append stream ch m.candles hok hch (TreeSpec.resumableAt_dressed hres)
    obtain ⟨raw₁, raw₂, done, hsplit, hp₁, hp₂, hr, hcs⟩ := hres
    have hlen : raw₁.length = done.length := (Gen.rowMajor_shape T.law raw₁ done hp₁ hr).1.length_eq
    rw [hcfg, ht] at h
    simp only [bind, Except.bind, pure, Except.pure] at h
    cases h
    refine ⟨rfl, raw₁.take k, raw₂.take (k - raw₁.length) ++ Q, done.take k, ?_,
      fun c hc => hp₁ c (List.mem_of_mem_take hc), ?_, Gen.rowMajor_take T.law raw₁ done hp₁ hr k, ?_⟩
    · rw [hspec, hsplit, List.take_append, List.append_assoc]
    · intro c hc
      rcases List.mem_append.1 hc with h | h
      · exact hp₂ c (List.mem_of_mem_take h)
      · exact hQ c h
    · show m.candles.take k ++ Q = _
      rw [hcs, List.take_append, List.append_assoc, hlen]

/-! ### the invariant of a program run, relative to a manager spec -/

/-- the invariant of a program run on the manager `M`: the object still is the tree on that manager, the raw
stream received so far is well-formed for `M`, and the candles are resumable over its manager spec (a
finished row-major prefix of the collapsed stream followed by plain collapsed candles) -/
structure GProgInvM (T : TreeSpec ind) (M : MgrSpec F) (stream : List (Candle F)) (s : IndState F) : Prop where
  tree : s.tree = ind
  cfg : s.mgr.cfg = M.cfg
  ok : M.Ok stream
  res : Gen.ResumableAt T.S (M.spec stream) s.mgr.candles

/-- sharpened: the candles are the FINISHED row-major run over the collapsed stream, or the collapsed stream
itself (before the first `calculate()`, after `purge()`) -/
structure GProgInvMX (T : TreeSpec ind) (M : MgrSpec F) (stream : List (Candle F)) (s : IndState F) : Prop where
  tree : s.tree = ind
  cfg : s.mgr.cfg = M.cfg
  ok : M.Ok stream
  st : Gen.rowMajor T.S (M.spec stream) = .ok s.mgr.candles ∨ s.mgr.candles = M.spec stream

theorem GProgInvMX.toInv {T : TreeSpec ind} {M : MgrSpec F} {stream : List (Candle F)} {s : IndState F}
    (h : GProgInvMX T M stream s) : GProgInvM T M stream s := by
  refine ⟨h.tree, h.cfg, h.ok, ?_⟩
  rcases h.st with hf | hr
  · exact Gen.resumableAt_finished T.S _ _ (M.spec_plain stream h.ok) hf
  · rw [hr]; exact Gen.resumableAt_plain T.S _ (M.spec_plain stream h.ok)

/-- the base timeframe is an instance: on `MgrSpec.base` the invariant is `GProgInv` of Gen/Maintain.lean -/
theorem gprogInvM_base (T : TreeSpec ind) (raw : List (Candle F)) (s : IndState F) :
    GProgInvM T (MgrSpec.base F) raw s ↔ GProgInv T raw s :=
  ⟨fun h => ⟨h.tree, h.cfg, h.res⟩, fun h => ⟨h.tree, h.cfg, h.res.plain, h.res⟩⟩

theorem gprogInvMX_base (T : TreeSpec ind) (raw : List (Candle F)) (s : IndState F) :
    GProgInvMX T (MgrSpec.base F) raw s ↔ GProgInvX T raw s :=
  ⟨fun h => ⟨h.tree, h.cfg, h.ok, h.st⟩, fun h => ⟨h.tree, h.cfg, h.plain, h.st⟩⟩

/-- the freshly constructed object -/
theorem gprogInvMX_init (T : TreeSpec ind) (M : MgrSpec F) (init : List (Candle F)) (hok : M.Ok init)
    (s₀ : IndState F) (h₀ : IndState.init ind M.cfg init = .ok s₀) : GProgInvMX T M init s₀ := by
  rw [IndState.init_mgrSpec ind M init hok] at h₀
  cases h₀
  exact ⟨rfl, rfl, hok, Or.inr rfl⟩

theorem gprogInvM_calculate (T : TreeSpec ind) (M : MgrSpec F) (stream : List (Candle F)) (s s' : IndState F)
    (h : GProgInvM T M stream s) (hrun : s.calculate = .ok s') : GProgInvMX T M stream s' := by
  obtain ⟨ht, hcfg, he⟩ := IndState.calculate_ok_engine s s' hrun
  rw [h.tree] at he ht
  exact ⟨ht, by rw [hcfg, h.cfg], h.ok, Or.inl ((T.engine_resumableAt _ _ _ h.res).1 he)⟩

/-- `purge()` gives back the collapsed stream without readings -/
theorem GProgInvM.purge_candles {T : TreeSpec ind} {M : MgrSpec F} {stream : List (Candle F)} {s : IndState F}
    (h : GProgInvM T M stream s) : s.purge.mgr.candles = M.spec stream := by
  unfold IndState.purge
  simp only [h.tree]
  exact T.purge_resumableAt _ _ h.res

theorem gprogInvM_purge (T : TreeSpec ind) (M : MgrSpec F) (stream : List (Candle F)) (s : IndState F)
    (h : GProgInvM T M stream s) : GProgInvMX T M stream s.purge :=
  ⟨h.tree, h.cfg, h.ok, Or.inr h.purge_candles⟩

/-- `append(ch)`: the manager re-collapses, then `calculate()` finishes the list -/
theorem gprogInvM_append (T : TreeSpec ind) (M : MgrSpec F) (stream ch : List (Candle F)) (s s' : IndState F)
    (h : GProgInvM T M stream s) (hok : M.Ok (stream ++ ch)) (hrun : s.append ch = .ok s') :
    GProgInvMX T M (stream ++ ch) s' := by
  unfold IndState.append at hrun
  cases hm : s.mgr.append ch with
  | error e => rw [hm] at hrun; cases hrun
  | ok m' =>
    rw [hm] at hrun
    simp only [bind, Except.bind] at hrun
    obtain ⟨hc', hres'⟩ := T.mgrAppend_resumableAt M stream ch s.mgr m' h.cfg hok h.res hm
    exact gprogInvM_calculate T M _ ({ s with mgr := m' }) s' ⟨h.tree, hc', hok, hres'⟩ hrun

/-- the frame of `calculate_index`: tree and configuration stay -/
theorem IndState.calculateIndex_ok_frame (s s' : IndState F) (i : Int) (hrun : s.calculateIndex i none = .ok s') :
    s'.tree = s.tree ∧ s'.mgr.cfg = s.mgr.cfg := by
  unfold IndState.calculateIndex at hrun
  simp only [Option.map_none, bind, Except.bind] at hrun
  cases hci : Hex.calculateIndex (fuelFor s.mgr.candles) s.tree s.mgr.candles
      (if i < 0 then i + (s.mgr.candles.length : Int) else i)
      ((if i < 0 then i + (s.mgr.candles.length : Int) else i) + 1) with
  | error e => rw [hci] at hrun; cases hrun
  | ok cs =>
    rw [hci] at hrun
    simp only [pure, Except.pure] at hrun
    cases hrun
    exact ⟨rfl, rfl⟩

/-- **on a finished state `calculate_index(i)` changes nothing**, any index inside the list (`j` is the normalised
index) – in particular the newest collapsed candle, right after a raw candle was merged into it -/
theorem GProgInvMX.calcIndex_finished {T : TreeSpec ind} (hI : T.IndexOK) {M : MgrSpec F} {stream : List (Candle F)}
    {s : IndState F} (h : GProgInvMX T M stream s) (hf : Gen.rowMajor T.S (M.spec stream) = .ok s.mgr.candles)
    (i : Int) (j : Nat) (hst : (if i < 0 then i + (s.mgr.candles.length : Int) else i) = (j : Int))
    (hj : j < s.mgr.candles.length) : candlesOf (s.calculateIndex i none) = .ok s.mgr.candles := by
  rw [IndState.calculateIndex_candles s i j hst, h.tree]
  by_cases h0 : j = 0
  · subst h0
    exact hI.2 _ _ (M.spec_plain stream h.ok) hf (by omega)
  · have := hI.1 _ _ [] (M.spec_plain stream h.ok) hf j (by omega) hj
    simpa using this

theorem gprogInvMX_calcIndex (T : TreeSpec ind) (hI : T.IndexOK) (M : MgrSpec F) (stream : List (Candle F))
    (s s' : IndState F) (i : Int) (h : GProgInvMX T M stream s)
    (hadm : ∃ c, pyIndex s.mgr.candles i = .ok c ∧ hasKey s.tree.name c = true)
    (hrun : s.calculateIndex i none = .ok s') : GProgInvMX T M stream s' := by
  obtain ⟨c, hidx, hkey⟩ := hadm
  rcases h.st with hf | hr
  · have hidx' : pyIndex (s.mgr.candles ++ []) i = .ok c := by simpa using hidx
    obtain ⟨j, hj, hst⟩ := index_in_done s.tree.name s.mgr.candles [] i c (by simp) hidx' hkey
    simp only [List.append_nil] at hst
    have hcs := h.calcIndex_finished hI hf i j hst hj
    rw [hrun] at hcs
    have hc' : s'.mgr.candles = s.mgr.candles := by
      simpa [candlesOf, Except.map] using hcs
    obtain ⟨hft, hfc⟩ := IndState.calculateIndex_ok_frame s s' i hrun
    exact ⟨by rw [hft, h.tree], by rw [hfc, h.cfg], h.ok, Or.inl (by rw [hc']; exact hf)⟩
  · exfalso
    have hidx' : pyIndex ([] ++ M.spec stream) i = .ok c := by rw [← hr]; simpa using hidx
    obtain ⟨j, hj, _⟩ := index_in_done s.tree.name [] (M.spec stream) i c (M.spec_plain stream h.ok) hidx' hkey
    simp at hj

/-- **one operation keeps the invariant** (the stream grows by what the operation adds) -/
theorem gprogInvMX_step (T : TreeSpec ind) (hI : T.IndexOK) (M : MgrSpec F) (stream : List (Candle F))
    (s s' : IndState F) (op : Op F) (h : GProgInvMX T M stream s) (hok : M.Ok (stream ++ op.added))
    (hadm : op.Admissible s) (hrun : op.run s = .ok s') : GProgInvMX T M (stream ++ op.added) s' := by
  cases op with
  | append ch => exact gprogInvM_append T M stream ch s s' h.toInv hok hrun
  | calculate =>
    simp only [Op.added, List.append_nil]
    exact gprogInvM_calculate T M stream s s' h.toInv hrun
  | purge =>
    simp only [Op.added, List.append_nil]
    simp only [Op.run] at hrun
    cases hrun
    exact gprogInvM_purge T M stream s h.toInv
  | recalculate =>
    simp only [Op.added, List.append_nil]
    exact gprogInvM_calculate T M stream s.purge s' (gprogInvM_purge T M stream s h.toInv).toInv hrun
  | calcIndex i =>
    simp only [Op.added, List.append_nil]
    exact gprogInvMX_calcIndex T hI M stream s s' i h hadm hrun

/-- **1. the program invariant along any program**, generic in the tree and in the manager spec -/
theorem gprogInvMX_runs (T : TreeSpec ind) (hI : T.IndexOK) (M : MgrSpec F) (ops : List (Op F)) :
    ∀ (stream : List (Candle F)) (s s' : IndState F), M.Ok (stream ++ (ops.map Op.added).flatten) →
      GProgInvMX T M stream s → Runs s ops s' → GProgInvMX T M (stream ++ (ops.map Op.added).flatten) s' := by
  induction ops with
  | nil => intro stream s s' _ h hr; cases hr; simpa using h
  | cons op rest ih =>
    intro stream s s' hok h hr
    cases hr with
    | cons hadm hrun hrest =>
      have hok' : M.Ok ((stream ++ op.added) ++ (rest.map Op.added).flatten) := by
        simpa [List.append_assoc] using hok
      have := ih _ _ _ hok' (gprogInvMX_step T hI M stream s _ op h (M.ok_left _ _ hok') hadm hrun) hrest
      simpa [List.append_assoc] using this

/-- **2. convergence, generic**: after any program that runs, a final `calculate()` returns iff the row-major run
over the manager spec of everything received does, with the same candles -/
theorem TreeSpec.program_converges_mgr (T : TreeSpec ind) (hI : T.IndexOK) (M : MgrSpec F)
    (init : List (Candle F)) (ops : List (Op F)) (hok : M.Ok (init ++ (ops.map Op.added).flatten))
    (s₀ s : IndState F) (h₀ : IndState.init ind M.cfg init = .ok s₀) (hruns : Runs s₀ ops s)
    (out : List (Candle F)) :
    candlesOf s.calculate = .ok out ↔
      Gen.rowMajor T.S (M.spec (init ++ (ops.map Op.added).flatten)) = .ok out := by
  have h := (gprogInvMX_runs T hI M ops init s₀ s hok
    (gprogInvMX_init T M init (M.ok_left _ _ hok) s₀ h₀) hruns).toInv
  rw [IndState.calculate_engine, h.tree]
  exact T.engine_resumableAt _ _ out h.res

/-! ### 3. the single operations on a state a program reaches -/

/-- `calculate()` again changes nothing -/
theorem TreeSpec.obj_idempotent_mgr (T : TreeSpec ind) (M : MgrSpec F) (stream : List (Candle F)) (s s₁ : IndState F)
    (hinv : GProgInvM T M stream s) (h : s.calculate = .ok s₁) : candlesOf s₁.calculate = .ok s₁.mgr.candles := by
  have h1 := gprogInvM_calculate T M stream s s₁ hinv h
  rcases h1.st with hf | hr
  · rw [IndState.calculate_engine, h1.tree]
    exact T.calculate_idempotent _ _ (M.spec_plain stream hinv.ok) hf
  · -- the finished list is the plain list (e.g. the empty stream): still a fixed point
    obtain ⟨_, _, he⟩ := IndState.calculate_ok_engine s s₁ h
    rw [hinv.tree] at he
    have hfin := (T.engine_resumableAt _ _ _ hinv.res).1 he
    rw [IndState.calculate_engine, h1.tree]
    exact T.calculate_idempotent _ _ (M.spec_plain stream hinv.ok) hfin

/-- `recalculate()` on a finished state reproduces it -/
theorem TreeSpec.obj_recalculate_mgr (T : TreeSpec ind) (M : MgrSpec F) (stream : List (Candle F)) (s : IndState F)
    (hinv : GProgInvM T M stream s) (hfin : Gen.rowMajor T.S (M.spec stream) = .ok s.mgr.candles) :
    candlesOf s.recalculate = .ok s.mgr.candles := by
  unfold IndState.recalculate
  have hp := (gprogInvM_purge T M stream s hinv).toInv
  rw [IndState.calculate_engine, hp.tree]
  exact (T.engine_resumableAt _ _ _ hp.res).2 hfin

/-- after `calculate()` the state is finished -/
theorem GProgInvM.calculate_finished {T : TreeSpec ind} {M : MgrSpec F} {stream : List (Candle F)} {s s₁ : IndState F}
    (hinv : GProgInvM T M stream s) (h : s.calculate = .ok s₁) :
    Gen.rowMajor T.S (M.spec stream) = .ok s₁.mgr.candles := by
  obtain ⟨_, _, he⟩ := IndState.calculate_ok_engine s s₁ h
  rw [hinv.tree] at he
  exact (T.engine_resumableAt _ _ _ hinv.res).1 he

/-! ### every covered tree, every manager spec -/

section covered
variable {name : String} {k : Kind F}

/-- **1. The program invariant, every covered tree, every manager** (base timeframe, collapsing timeframe,
timeframe + fill).  Construct the indicator over the raw candles `init` with the configuration `M.cfg`, run any
program over {append, calculate, purge, recalculate, calculate_index(±i) on a candle that holds a reading}; if the
raw stream received is well-formed for `M` (`RawTf` on a timeframe: stamped, non-decreasing, unconverted, no
readings), then after the program the candles are the finished row-major run over the collapsed stream
`M.spec (init ++ appended)` or that collapsed stream itself. -/
theorem program_invariant_tf (hk : CoveredTreeX name k) (round : Nat) :
    ∃ T : TreeSpec (mkTop k name round), T.IndexOK ∧
      ∀ (M : MgrSpec F) (init : List (Candle F)) (ops : List (Op F)) (s₀ s : IndState F),
        M.Ok (init ++ (ops.map Op.added).flatten) →
        IndState.init (mkTop k name round) M.cfg init = .ok s₀ → Runs s₀ ops s →
        GProgInvMX T M (init ++ (ops.map Op.added).flatten) s := by
  obtain ⟨T, _, hI⟩ := hk.specIdx round
  exact ⟨T, hI, fun M init ops s₀ s hok h₀ hruns =>
    gprogInvMX_runs T hI M ops init s₀ s hok (gprogInvMX_init T M init (M.ok_left _ _ hok) s₀ h₀) hruns⟩

/-- **2. C14 on any manager: programs converge to the batch state.**  After any program that runs, a final
`calculate()` returns iff the batch run with the same configuration over `init ++ all appended candles` returns,
with the same candles (collapsed OHLCV, bucket labels, own readings, helper series). -/
theorem program_converges_tf (hk : CoveredTreeX name k) (round : Nat) (M : MgrSpec F)
    (init : List (Candle F)) (ops : List (Op F)) (hok : M.Ok (init ++ (ops.map Op.added).flatten))
    (s₀ s : IndState F) (h₀ : IndState.init (mkTop k name round) M.cfg init = .ok s₀) (hruns : Runs s₀ ops s)
    (out : List (Candle F)) :
    candlesOf s.calculate = .ok out ↔
      candlesOf (runIndicator (mkTop k name round) M.cfg (init ++ (ops.map Op.added).flatten) []) = .ok out := by
  obtain ⟨T, _, hI⟩ := hk.specIdx round
  rw [T.program_converges_mgr hI M init ops hok s₀ s h₀ hruns out]
  exact (T.batch_iff M _ hok out).symm

/-- **3a. `calculate()` again changes nothing** – after any program, on any manager -/
theorem calculate_idempotent_tf (hk : CoveredTreeX name k) (round : Nat) (M : MgrSpec F)
    (init : List (Candle F)) (ops : List (Op F)) (hok : M.Ok (init ++ (ops.map Op.added).flatten))
    (s₀ s s₁ : IndState F) (h₀ : IndState.init (mkTop k name round) M.cfg init = .ok s₀) (hruns : Runs s₀ ops s)
    (h : s.calculate = .ok s₁) : candlesOf s₁.calculate = .ok s₁.mgr.candles := by
  obtain ⟨T, _, hT⟩ := program_invariant_tf hk round
  exact T.obj_idempotent_mgr M _ s s₁ (hT M init ops s₀ s hok h₀ hruns).toInv h

/-- **3b. `purge()` gives back the collapsed stream without readings**: `M.spec` of everything received (the
resampled stream on a timeframe, the resampled and filled stream with fill, the raw stream on the base timeframe) -/
theorem purge_restores_spec_tf (hk : CoveredTreeX name k) (round : Nat) (M : MgrSpec F)
    (init : List (Candle F)) (ops : List (Op F)) (hok : M.Ok (init ++ (ops.map Op.added).flatten))
    (s₀ s : IndState F) (h₀ : IndState.init (mkTop k name round) M.cfg init = .ok s₀) (hruns : Runs s₀ ops s) :
    s.purge.mgr.candles = M.spec (init ++ (ops.map Op.added).flatten) := by
  obtain ⟨T, _, hT⟩ := program_invariant_tf hk round
  exact (hT M init ops s₀ s hok h₀ hruns).toInv.purge_candles

/-- **3c. `recalculate()` reproduces** – right after a `calculate()` that returned, after any program -/
theorem recalculate_reproduces_tf (hk : CoveredTreeX name k) (round : Nat) (M : MgrSpec F)
    (init : List (Candle F)) (ops : List (Op F)) (hok : M.Ok (init ++ (ops.map Op.added).flatten))
    (s₀ s s₁ : IndState F) (h₀ : IndState.init (mkTop k name round) M.cfg init = .ok s₀) (hruns : Runs s₀ ops s)
    (h : s.calculate = .ok s₁) : candlesOf s₁.recalculate = .ok s₁.mgr.candles := by
  obtain ⟨T, _, hT⟩ := program_invariant_tf hk round
  have hinv := (hT M init ops s₀ s hok h₀ hruns).toInv
  exact T.obj_recalculate_mgr M _ s₁ (gprogInvM_calculate T M _ s s₁ hinv h).toInv (hinv.calculate_finished h)

/-- **3d. `calculate_index(i)` reproduces the batch state** – every class, every index `-len ≤ i < len` of the
collapsed list (index 0 and the still-forming last bucket included), any manager -/
theorem calculateIndex_reproduces_tf (hk : CoveredTreeX name k) (round : Nat) (M : MgrSpec F)
    (raw done : List (Candle F)) (hok : M.Ok raw)
    (h : candlesOf (runIndicator (mkTop k name round) M.cfg raw []) = .ok done)
    (i : Int) (hlo : -(done.length : Int) ≤ i) (hhi : i < done.length) (act : Int) :
    candlesOf (IndState.calculateIndex ⟨mkTop k name round, ⟨M.cfg, done⟩, act⟩ i none) = .ok done := by
  obtain ⟨T, _, hI⟩ := hk.specIdx round
  have hr : Gen.rowMajor T.S (M.spec raw) = .ok done := (T.batch_iff M raw hok done).1 h
  exact T.calculateIndex_reproduces hI (M.spec raw) done (M.spec_plain raw hok) hr i hlo hhi M.cfg act

/-- **3d′. … and inside a program**: after any program and a `calculate()` that returned, `calculate_index(i)` at
every index of the list leaves every candle as it is (e.g. `i = -1` right after an append merged a raw candle
into the last bucket) -/
theorem calculateIndex_after_program_tf (hk : CoveredTreeX name k) (round : Nat) (M : MgrSpec F)
    (init : List (Candle F)) (ops : List (Op F)) (hok : M.Ok (init ++ (ops.map Op.added).flatten))
    (s₀ s s₁ : IndState F) (h₀ : IndState.init (mkTop k name round) M.cfg init = .ok s₀) (hruns : Runs s₀ ops s)
    (h : s.calculate = .ok s₁) (i : Int) (hlo : -(s₁.mgr.candles.length : Int) ≤ i) (hhi : i < s₁.mgr.candles.length) :
    candlesOf (s₁.calculateIndex i none) = .ok s₁.mgr.candles := by
  obtain ⟨T, hI, hT⟩ := program_invariant_tf hk round
  have hinv := (hT M init ops s₀ s hok h₀ hruns).toInv
  have h1 := gprogInvM_calculate T M _ s s₁ hinv h
  have hf := hinv.calculate_finished h
  obtain ⟨j, hj⟩ : ∃ j : Nat, (if i < 0 then i + (s₁.mgr.candles.length : Int) else i) = (j : Int) := by
    by_cases hn : i < 0
    · exact ⟨(i + s₁.mgr.candles.length).toNat, by simp only [hn, if_true]; omega⟩
    · exact ⟨i.toNat, by simp only [hn, if_false]; omega⟩
  have hjlt : j < s₁.mgr.candles.length := by
    by_cases hn : i < 0
    · simp only [hn, if_true] at hj; omega
    · simp only [hn, if_false] at hj; omega
  exact h1.calcIndex_finished hI hf i j hj hjlt

/-- a program ending with `append` ends in a finished state: the last operation's `calculate()` recomputed the
still-forming bucket, so there `calculate_index(-1)` (or any other index) reproduces -/
theorem calculateIndex_after_append_tf (hk : CoveredTreeX name k) (round : Nat) (M : MgrSpec F)
    (init : List (Candle F)) (ops : List (Op F)) (ch : List (Candle F))
    (hok : M.Ok (init ++ (ops.map Op.added).flatten ++ ch))
    (s₀ s' s : IndState F) (h₀ : IndState.init (mkTop k name round) M.cfg init = .ok s₀)
    (hruns : Runs s₀ ops s') (happ : s'.append ch = .ok s)
    (i : Int) (hlo : -(s.mgr.candles.length : Int) ≤ i) (hhi : i < s.mgr.candles.length) :
    candlesOf (s.calculateIndex i none) = .ok s.mgr.candles := by
  obtain ⟨T, hI, hT⟩ := program_invariant_tf hk round
  have hinv' := (hT M init ops s₀ s' (M.ok_left _ _ hok) h₀ hruns).toInv
  have hX := gprogInvM_append T M _ ch s' s hinv' hok happ
  have hf : Gen.rowMajor T.S (M.spec (init ++ (ops.map Op.added).flatten ++ ch)) = .ok s.mgr.candles := by
    unfold IndState.append at happ
    cases hm : s'.mgr.append ch with
    | error e => rw [hm] at happ; cases happ
    | ok m' =>
      rw [hm] at happ
      simp only [bind, Except.bind] at happ
      obtain ⟨hc', hres'⟩ := T.mgrAppend_resumableAt M _ ch s'.mgr m' hinv'.cfg hok hinv'.res hm
      exact GProgInvM.calculate_finished (s := ({ s' with mgr := m' } : IndState F)) ⟨hinv'.tree, hc', hok, hres'⟩ happ
  obtain ⟨j, hj⟩ : ∃ j : Nat, (if i < 0 then i + (s.mgr.candles.length : Int) else i) = (j : Int) := by
    by_cases hn : i < 0
    · exact ⟨(i + s.mgr.candles.length).toNat, by simp only [hn, if_true]; omega⟩
    · exact ⟨i.toNat, by simp only [hn, if_false]; omega⟩
  have hjlt : j < s.mgr.candles.length := by
    by_cases hn : i < 0
    · simp only [hn, if_true] at hj; omega
    · simp only [hn, if_false] at hj; omega
  exact hX.calcIndex_finished hI hf i j hj hjlt

/-! ### the configuration spelled out: `{ tf := tf, fill := fill && tf.isSome }` -/

/-- **C14 for all covered trees on any timeframe, gap filling off or on** (the configuration as in `C01_trees`) -/
theorem program_converges_cfg (hk : CoveredTreeX name k) (round : Nat)
    (tf : Option Int) (htf : ∀ t, tf = some t → 0 < t) (fill : Bool)
    (init : List (Candle F)) (ops : List (Op F)) (hraw : RawTf (init ++ (ops.map Op.added).flatten))
    (s₀ s : IndState F)
    (h₀ : IndState.init (mkTop k name round) { tf := tf, fill := fill && tf.isSome } init = .ok s₀)
    (hruns : Runs s₀ ops s) (out : List (Candle F)) :
    candlesOf s.calculate = .ok out ↔
      candlesOf (runIndicator (mkTop k name round) { tf := tf, fill := fill && tf.isSome }
        (init ++ (ops.map Op.added).flatten) []) = .ok out := by
  have hcfg := mgrSpecOf_cfg (F := F) tf htf fill
  rw [← hcfg] at h₀ ⊢
  exact program_converges_tf hk round (mgrSpecOf F tf htf fill) init ops (mgrSpecOf_ok tf htf fill _ hraw) s₀ s h₀
    hruns out

theorem calculate_idempotent_cfg (hk : CoveredTreeX name k) (round : Nat)
    (tf : Option Int) (htf : ∀ t, tf = some t → 0 < t) (fill : Bool)
    (init : List (Candle F)) (ops : List (Op F)) (hraw : RawTf (init ++ (ops.map Op.added).flatten))
    (s₀ s s₁ : IndState F)
    (h₀ : IndState.init (mkTop k name round) { tf := tf, fill := fill && tf.isSome } init = .ok s₀)
    (hruns : Runs s₀ ops s) (h : s.calculate = .ok s₁) : candlesOf s₁.calculate = .ok s₁.mgr.candles := by
  have hcfg := mgrSpecOf_cfg (F := F) tf htf fill
  rw [← hcfg] at h₀
  exact calculate_idempotent_tf hk round (mgrSpecOf F tf htf fill) init ops (mgrSpecOf_ok tf htf fill _ hraw) s₀ s s₁
    h₀ hruns h

theorem purge_restores_spec_cfg (hk : CoveredTreeX name k) (round : Nat)
    (tf : Option Int) (htf : ∀ t, tf = some t → 0 < t) (fill : Bool)
    (init : List (Candle F)) (ops : List (Op F)) (hraw : RawTf (init ++ (ops.map Op.added).flatten))
    (s₀ s : IndState F)
    (h₀ : IndState.init (mkTop k name round) { tf := tf, fill := fill && tf.isSome } init = .ok s₀)
    (hruns : Runs s₀ ops s) :
    s.purge.mgr.candles = (mgrSpecOf F tf htf fill).spec (init ++ (ops.map Op.added).flatten) := by
  have hcfg := mgrSpecOf_cfg (F := F) tf htf fill
  rw [← hcfg] at h₀
  exact purge_restores_spec_tf hk round (mgrSpecOf F tf htf fill) init ops (mgrSpecOf_ok tf htf fill _ hraw) s₀ s
    h₀ hruns

theorem recalculate_reproduces_cfg (hk : CoveredTreeX name k) (round : Nat)
    (tf : Option Int) (htf : ∀ t, tf = some t → 0 < t) (fill : Bool)
    (init : List (Candle F)) (ops : List (Op F)) (hraw : RawTf (init ++ (ops.map Op.added).flatten))
    (s₀ s s₁ : IndState F)
    (h₀ : IndState.init (mkTop k name round) { tf := tf, fill := fill && tf.isSome } init = .ok s₀)
    (hruns : Runs s₀ ops s) (h : s.calculate = .ok s₁) : candlesOf s₁.recalculate = .ok s₁.mgr.candles := by
  have hcfg := mgrSpecOf_cfg (F := F) tf htf fill
  rw [← hcfg] at h₀
  exact recalculate_reproduces_tf hk round (mgrSpecOf F tf htf fill) init ops (mgrSpecOf_ok tf htf fill _ hraw) s₀ s s₁
    h₀ hruns h

theorem calculateIndex_reproduces_cfg (hk : CoveredTreeX name k) (round : Nat)
    (tf : Option Int) (htf : ∀ t, tf = some t → 0 < t) (fill : Bool)
    (raw done : List (Candle F)) (hraw : RawTf raw)
    (h : candlesOf (runIndicator (mkTop k name round) { tf := tf, fill := fill && tf.isSome } raw []) = .ok done)
    (i : Int) (hlo : -(done.length : Int) ≤ i) (hhi : i < done.length) (act : Int) :
    candlesOf (IndState.calculateIndex ⟨mkTop k name round, ⟨{ tf := tf, fill := fill && tf.isSome }, done⟩, act⟩ i none)
      = .ok done := by
  have hcfg := mgrSpecOf_cfg (F := F) tf htf fill
  rw [← hcfg] at h ⊢
  exact calculateIndex_reproduces_tf hk round (mgrSpecOf F tf htf fill) raw done (mgrSpecOf_ok tf htf fill _ hraw) h i
    hlo hhi act

end covered

end Hex

/-! ### non-vacuity: one-minute candles over `Int` on a 120-second timeframe; with fill and a gap -/

namespace Hex.TfDemo
open Hex Hex.IndexDemo

/-- ten one-minute candles (stamps 60 … 600): on a 120-second timeframe they collapse pairwise into five buckets
labelled 120, 240, 360, 480, 600 -/
def min10 : List (Candle Int) :=
  [mkC 10 30 10 20 10 60, mkC 20 50 20 40 20 120, mkC 40 40 0 10 5 180, mkC 10 70 10 60 8 240,
   mkC 60 90 50 80 3 300, mkC 80 85 20 30 7 360, mkC 30 45 25 40 9 420, mkC 40 60 35 55 4 480,
   mkC 55 75 50 70 6 540, mkC 70 80 10 15 2 600]

/-- the same with the minutes 240 … 420 missing: the bucket 360 is missing and gets a fill candle -/
def gap6 : List (Candle Int) := min10.take 3 ++ min10.drop 7

theorem min10_raw : RawTf min10 := ⟨by decide, by decide, by decide, by decide⟩
theorem gap6_raw : RawTf gap6 := ⟨by decide, by decide, by decide, by decide⟩

/-- the managers: 120-second timeframe; the same with gap filling -/
def M120 : MgrSpec Int := MgrSpec.tf Int 120 (by decide)
def M120f : MgrSpec Int := MgrSpec.fill Int 120 (by decide)
example : M120.cfg = { tf := some 120 } := rfl
example : M120f.cfg = { tf := some 120, fill := true } := rfl

def kc : Ind Int := mkTop (.kc 2 "close" (.int 2)) "KC_2" 4

/-- construct over the first minute; `calculate()`; append the second minute (MERGED into the forming bucket 120, whose
readings are wiped and recomputed); recompute the newest bucket; append minute 180 (opens bucket 240); recompute index
0; `purge()`; append minute 240 (merged into the plain bucket 240); `recalculate()`; recompute the last-but-one; append
three minutes at once; recompute the forming bucket and index 1; append the rest -/
def prog : List (Op Int) :=
  [.calculate, .append (min10.drop 1 |>.take 1), .calcIndex (-1), .append (min10.drop 2 |>.take 1), .calcIndex 0,
   .purge, .append (min10.drop 3 |>.take 1), .recalculate, .calcIndex (-2), .append (min10.drop 4 |>.take 3),
   .calcIndex (-1), .calcIndex 1, .append (min10.drop 7)]

/-- the same shape over the stream with the gap: the last append jumps from minute 180 to minute 480 -/
def progGap : List (Op Int) :=
  [.calculate, .append (gap6.drop 1 |>.take 1), .calcIndex (-1), .purge, .append (gap6.drop 2 |>.take 1), .recalculate,
   .append (gap6.drop 3 |>.take 1), .calcIndex (-2), .calcIndex (-1), .calcIndex 0, .append (gap6.drop 4)]

example : min10.take 1 ++ (prog.map Op.added).flatten = min10 := by decide
example : gap6.take 1 ++ (progGap.map Op.added).flatten = gap6 := by decide

/-- construction, then the checked program -/
def runFrom (ind : Ind Int) (cfg : MgrCfg) (init : List (Candle Int)) (ops : List (Op Int)) : Option (IndState Int) :=
  match IndState.init ind cfg init with
  | .ok s₀ => runChecked s₀ ops
  | .error _ => none

theorem runs_of_runFrom (ind : Ind Int) (cfg : MgrCfg) (init : List (Candle Int)) (ops : List (Op Int))
    (h : (runFrom ind cfg init ops).isSome = true) :
    ∃ s₀ s, IndState.init ind cfg init = .ok s₀ ∧ Runs s₀ ops s := by
  unfold runFrom at h
  cases h₀ : IndState.init ind cfg init with
  | error e => rw [h₀] at h; cases h
  | ok s₀ =>
    rw [h₀] at h
    obtain ⟨s, hs⟩ := runs_of_isSome s₀ ops h
    exact ⟨s₀, s, rfl, hs⟩

set_option maxRecDepth 100000 in
/-- the program runs on KC (ATR tree + EMA helper) on the 120-second timeframe … -/
theorem prog_runs : ∃ s₀ s, IndState.init kc M120.cfg (min10.take 1) = .ok s₀ ∧ Runs s₀ prog s :=
  runs_of_runFrom _ _ _ _ (by decide +kernel)

set_option maxRecDepth 100000 in
/-- … and with gap filling over the stream with the gap -/
theorem progGap_runs : ∃ s₀ s, IndState.init kc M120f.cfg (gap6.take 1) = .ok s₀ ∧ Runs s₀ progGap s :=
  runs_of_runFrom _ _ _ _ (by decide +kernel)

set_option maxRecDepth 100000 in
/-- what the final state looks like: five collapsed candles labelled 120 … 600, the third one a fill candle
(volume 0) in the gap run; the node's reading and the three helper series on every one of them -/
example : ((runFrom kc M120.cfg (min10.take 1) prog).map fun s =>
      s.mgr.candles.map fun c => (c.ts, c.v, (dlookup "KC_2" c.inds).isSome, c.subs.map (·.1)))
    = some [(some 120, .int 30, true, ["KC_2_ATR_TR", "KC_2_ATR", "KC_2_EMA"]),
            (some 240, .int 13, true, ["KC_2_ATR_TR", "KC_2_ATR", "KC_2_EMA"]),
            (some 360, .int 10, true, ["KC_2_ATR_TR", "KC_2_ATR", "KC_2_EMA"]),
            (some 480, .int 13, true, ["KC_2_ATR_TR", "KC_2_ATR", "KC_2_EMA"]),
            (some 600, .int 8, true, ["KC_2_ATR_TR", "KC_2_ATR", "KC_2_EMA"])] := by
  decide +kernel

set_option maxRecDepth 100000 in
example : ((runFrom kc M120f.cfg (gap6.take 1) progGap).map fun s =>
      s.mgr.candles.map fun c => (c.ts, c.v, (dlookup "KC_2" c.inds).isSome, c.subs.map (·.1)))
    = some [(some 120, .int 30, true, ["KC_2_ATR_TR", "KC_2_ATR", "KC_2_EMA"]),
            (some 240, .int 5, true, ["KC_2_ATR_TR", "KC_2_ATR", "KC_2_EMA"]),
            (some 360, .int 0, true, ["KC_2_ATR_TR", "KC_2_ATR", "KC_2_EMA"]),
            (some 480, .int 4, true, ["KC_2_ATR_TR", "KC_2_ATR", "KC_2_EMA"]),
            (some 600, .int 8, true, ["KC_2_ATR_TR", "KC_2_ATR", "KC_2_EMA"])] := by
  decide +kernel

/-- so the theorems apply: convergence on the timeframe … -/
example (s₀ s : IndState Int) (h₀ : IndState.init kc M120.cfg (min10.take 1) = .ok s₀) (hruns : Runs s₀ prog s)
    (out : List (Candle Int)) :
    candlesOf s.calculate = .ok out ↔
      candlesOf (runIndicator kc { tf := some 120 } (min10.take 1 ++ (prog.map Op.added).flatten) []) = .ok out :=
  program_converges_tf kcCov 4 M120 (min10.take 1) prog min10_raw s₀ s h₀ hruns out

/-- … with fill and a gap … -/
example (s₀ s : IndState Int) (h₀ : IndState.init kc M120f.cfg (gap6.take 1) = .ok s₀) (hruns : Runs s₀ progGap s)
    (out : List (Candle Int)) :
    candlesOf s.calculate = .ok out ↔
      candlesOf (runIndicator kc { tf := some 120, fill := true } (gap6.take 1 ++ (progGap.map Op.added).flatten) [])
        = .ok out :=
  program_converges_tf kcCov 4 M120f (gap6.take 1) progGap gap6_raw s₀ s h₀ hruns out

/-- … `purge()` gives back the resampled (and filled) stream, and the configuration-style statement -/
example (s₀ s : IndState Int) (h₀ : IndState.init kc M120f.cfg (gap6.take 1) = .ok s₀) (hruns : Runs s₀ progGap s) :
    s.purge.mgr.candles = fillSpec 120 (gap6.take 1 ++ (progGap.map Op.added).flatten) :=
  purge_restores_spec_tf kcCov 4 M120f (gap6.take 1) progGap gap6_raw s₀ s h₀ hruns

example (s₀ s : IndState Int)
    (h₀ : IndState.init kc { tf := some 120, fill := true && (some (120 : Int)).isSome } (gap6.take 1) = .ok s₀)
    (hruns : Runs s₀ progGap s) (out : List (Candle Int)) :
    candlesOf s.calculate = .ok out ↔
      candlesOf (runIndicator kc { tf := some 120, fill := true && (some (120 : Int)).isSome }
        (gap6.take 1 ++ (progGap.map Op.added).flatten) []) = .ok out :=
  program_converges_cfg kcCov 4 (some 120) (by intro t h; cases h; decide) true (gap6.take 1) progGap gap6_raw s₀ s h₀
    hruns out

end Hex.TfDemo

#print axioms Hex.TreeSpec.mgrAppend_resumableAt
#print axioms Hex.MgrSpec.append_raw
#print axioms Hex.gprogInvMX_runs
#print axioms Hex.program_invariant_tf
#print axioms Hex.program_converges_tf
#print axioms Hex.calculate_idempotent_tf
#print axioms Hex.purge_restores_spec_tf
#print axioms Hex.recalculate_reproduces_tf
#print axioms Hex.calculateIndex_reproduces_tf
#print axioms Hex.calculateIndex_after_program_tf
#print axioms Hex.calculateIndex_after_append_tf
#print axioms Hex.program_converges_cfg
#print axioms Hex.calculate_idempotent_cfg
#print axioms Hex.purge_restores_spec_cfg
#print axioms Hex.recalculate_reproduces_cfg
#print axioms Hex.calculateIndex_reproduces_cfg
#print axioms Hex.TfDemo.prog_runs
#print axioms Hex.TfDemo.progGap_runs

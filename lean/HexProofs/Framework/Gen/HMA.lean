import HexProofs.Framework.Gen.ManagedSubs
/-
Family (3b): Hull moving average – two prior leaf helpers (WMA, WMA over half the period) and a
`Managed` holder `raw_HMA` (series `<name>_HMAr`) with one NON-PRIOR leaf sub-indicator
(`<name>_HMAs` = WMA over the holder's own series).  The node's `_calculate_reading(i)` stores the
raw value through `Managed.set_reading` – which drives the sub's `calculate_index(i, i+1)` – and
reads the sub's reading back: three keys written per candle from inside the node's own step.
-/
namespace Hex
set_option linter.unusedSectionVars false
variable {F : Type} [PyF F]

section hma
variable (name : String) (round : Nat) (p : Int) (input : String)

/-- the HMA tree and its helpers -/
def hmaP : Ind F := mkTop (.hma p input) name round
def hmaW : Ind F := leaf (.wma p input) (name ++ "_WMA")
def hmaWh : Ind F := leaf (.wma (p / 2) input) (name ++ "_WMAh")
/-- the non-prior leaf under the `Managed` holder: WMA over the holder's series -/
def hmaS : Ind F := leaf (.wma (isqrt p) (name ++ "_HMAr")) (name ++ "_HMAs") false
/-- the `Managed` holder `raw_HMA` -/
def hmaM : Ind F := .mk .managed (name ++ "_HMAr") defaultRound true true [hmaS name p] []

theorem hmaP_name : (hmaP (F := F) name round p input).name = name := mkTop_name _ _ _
theorem hmaP_kind : (hmaP (F := F) name round p input).kind = .hma p input := mkTop_kind _ _ _
theorem hmaP_isSub : (hmaP (F := F) name round p input).isSub = false := rfl
theorem hmaP_round : (hmaP (F := F) name round p input).round = round := rfl
theorem hmaP_subs : (hmaP (F := F) name round p input).subs = [hmaW name p input, hmaWh name p input] := rfl
theorem hmaP_managed : (hmaP (F := F) name round p input).managed = [("raw_HMA", hmaM name p)] := rfl
theorem hmaW_name : (hmaW (F := F) name p input).name = name ++ "_WMA" := rfl
theorem hmaWh_name : (hmaWh (F := F) name p input).name = name ++ "_WMAh" := rfl
theorem hmaS_name : (hmaS (F := F) name p).name = name ++ "_HMAs" := rfl
theorem hmaM_subs : (hmaM (F := F) name p).subs = [hmaS name p] := rfl

theorem hmaS_leaf : IsLeaf (hmaS (F := F) name p) := ⟨rfl, rfl, rfl⟩

theorem hmaM_post : PostLeaves (hmaM (F := F) name p).subs := by
  intro s hs
  rw [hmaM_subs] at hs
  simp only [List.mem_singleton] at hs
  subst hs
  exact ⟨hmaS_leaf name p, rfl⟩

/-! ### the node's reading function, without fuel -/

/-- the helper services of the HMA node at index `i` exactly as the engine runs them:
`Managed.set_reading` stores the raw value and drives the sub – by one unconditional step at
`i ≠ 0`, by the sub's full `calculate()` at `i = 0` -/
def hmaOpsFull (i : Int) : Ops F where
  setManaged := fun _ v cs => do
    let cs₁ ← setReading true (name ++ "_HMAr") cs i v
    if i = 0 then leafCalc (hmaS name p) cs₁ else stepLeaf (hmaS name p) cs₁ i
  calcManaged := fun _ cs => .ok cs

/-- the same without the index-0 fallback -/
def hmaOps (i : Int) : Ops F where
  setManaged := fun _ v cs => do
    let cs₁ ← setReading true (name ++ "_HMAr") cs i v
    stepLeaf (hmaS name p) cs₁ i
  calcManaged := fun _ cs => .ok cs

/-- `_calculate_reading(i)` of the HMA node as the engine runs it -/
def hmaCFull : List (Candle F) → Int → PyM (Val F × List (Candle F)) :=
  fun cs i => Calc.hma (hmaOpsFull name p i) { cs := cs, i := i, name := name }

/-- `_calculate_reading(i)` of the HMA node without the index-0 fallback -/
def hmaC : List (Candle F) → Int → PyM (Val F × List (Candle F)) :=
  fun cs i => Calc.hma (hmaOps name p i) { cs := cs, i := i, name := name }

/-- `Managed.set_reading` of `raw_HMA` at a natural index, any sufficient fuel -/
theorem setManaged_hma (f : Nat) (cs : List (Candle F)) (k : Nat) (hf : cs.length + 5 ≤ f) (v : Val F) :
    (do let m ← (hmaP (F := F) name round p input).getManaged "raw_HMA"; setManagedReading f m cs k v)
      = (hmaOpsFull name p (k : Int)).setManaged "raw_HMA" v cs := by
  have hg : (hmaP (F := F) name round p input).getManaged "raw_HMA" = .ok (hmaM name p) :=
    getManaged_eq _ _ _ (by rw [hmaP_managed]; simp [dlookup])
  rw [hg]
  simp only [bind, Except.bind]
  rw [setManagedReading_postLeaves_any (hmaM name p) (hmaM_post name p) f cs
    (by rw [hmaM_subs]; simp only [List.length_singleton]; omega) (k : Int) (by omega) v]
  show (do
    let cs₁ ← setReading true (name ++ "_HMAr") cs (k : Int) v
    if (k : Int) = 0 then [hmaS name p].foldlM (fun cs s => leafCalc s cs) cs₁
    else [hmaS name p].foldlM (fun cs s => stepLeaf s cs (k : Int)) cs₁) = _
  unfold hmaOpsFull
  simp only [List.foldlM_cons, List.foldlM_nil, bind_pure_id]

/-- **the engine's `_calculate_reading` of the HMA node**, any sufficient fuel, every natural index -/
theorem calcReading_hma (f : Nat) (cs : List (Candle F)) (k : Nat) (hf : cs.length + 6 ≤ f) :
    calcReading f (hmaP (F := F) name round p input) cs k = hmaCFull name p cs k := by
  obtain ⟨g, rfl⟩ : ∃ g, f = g + 1 := ⟨f - 1, by omega⟩
  rw [calcReading]
  unfold calcKind
  rw [hmaP_kind]
  simp only
  unfold hmaCFull Calc.hma
  simp only [hmaP_name, setManaged_hma name round p input g cs k (by omega)]

/-! ### lengths -/

theorem hmaCFull_length (cs : List (Candle F)) (i : Int) (v : Val F) (cs' : List (Candle F))
    (h : hmaCFull name p cs i = .ok (v, cs')) : cs'.length = cs.length := by
  unfold hmaCFull Calc.hma hmaOpsFull at h
  simp only [bind, Except.bind, pure, Except.pure] at h
  cases hr : ({ cs := cs, i := i, name := name } : Ctx F).reading (name ++ "_WMA") with
  | error e => rw [hr] at h; cases h
  | ok w =>
    rw [hr] at h
    simp only at h
    by_cases hw : w.isNone = true
    · simp only [hw, if_true] at h
      cases h; rfl
    · simp only [hw, Bool.false_eq_true, if_false] at h
      cases hn : ({ cs := cs, i := i, name := name } : Ctx F).num (name ++ "_WMAh") with
      | error e => rw [hn] at h; cases h
      | ok a =>
        rw [hn] at h
        simp only at h
        cases ha : w.asNum with
        | error e => rw [ha] at h; cases h
        | ok b =>
          rw [ha] at h
          simp only at h
          cases hs : setReading true (name ++ "_HMAr") cs i (.num ((Num.int 2).mul a |>.sub b)) with
          | error e => rw [hs] at h; cases h
          | ok cs₁ =>
            rw [hs] at h
            simp only at h
            have l1 := setReading_length _ _ _ _ _ _ hs
            by_cases hi : i = 0
            · simp only [hi, if_true] at h
              cases hc : leafCalc (hmaS name p) cs₁ with
              | error e => rw [hc] at h; cases h
              | ok cs₂ =>
                rw [hc] at h
                simp only at h
                have l2 := leafCalc_length _ _ _ hc
                cases hq : ({ cs := cs₂, i := 0, name := name } : Ctx F).reading (name ++ "_HMAs") with
                | error e => rw [hq] at h; cases h
                | ok r =>
                  rw [hq] at h
                  cases h
                  omega
            · simp only [hi, if_false] at h
              cases hc : stepLeaf (hmaS name p) cs₁ i with
              | error e => rw [hc] at h; cases h
              | ok cs₂ =>
                rw [hc] at h
                simp only at h
                have l2 := stepLeaf_length _ _ _ _ hc
                cases hq : ({ cs := cs₂, i := i, name := name } : Ctx F).reading (name ++ "_HMAs") with
                | error e => rw [hq] at h; cases h
                | ok r =>
                  rw [hq] at h
                  cases h
                  omega

/-! ### the engine on the HMA tree -/

/-- **the engine on the HMA tree**: the two helpers' passes, then the node's own loop, whose step
writes `<name>_HMAr`, `<name>_HMAs` and the node's key -/
theorem engineCalc_hma (cs : List (Candle F)) :
    engineCalc (hmaP (F := F) name round p input) cs = (do
      let c₁ ← leafCalc (hmaW name p input) cs
      let c₂ ← leafCalc (hmaWh name p input) c₁
      Gen.nodeCalc (specWith (hmaP name round p input) (hmaCFull name p)) c₂) := by
  unfold engineCalc fuelFor
  obtain ⟨f, hf⟩ : ∃ f, 16 + 2 * cs.length = f + 3 := ⟨13 + 2 * cs.length, by omega⟩
  rw [hf, calculate_succ, hmaP_subs, calcSubs_prior_two f _ _ rfl rfl,
      calculate_leaf (hmaW name p input) ⟨rfl, rfl, rfl⟩ (f + 2) cs (by omega)]
  simp only [bind, Except.bind]
  cases h1 : leafCalc (hmaW (F := F) name p input) cs with
  | error e => rfl
  | ok c₁ =>
    simp only
    have l1 := leafCalc_length _ cs c₁ h1
    rw [calculate_leaf (hmaWh name p input) ⟨rfl, rfl, rfl⟩ (f + 1) c₁ (by omega)]
    cases h2 : leafCalc (hmaWh (F := F) name p input) c₁ with
    | error e => rfl
    | ok c₂ =>
      simp only
      have l2 := leafCalc_length _ c₁ c₂ h2
      rw [calcLoop_withN (hmaP name round p input) (hmaCFull name p) 6
        (fun f cs k hf => calcReading_hma name round p input f cs k hf)
        (hmaCFull_length name p) _ _ _ _ (by omega)]
      unfold Gen.nodeCalc
      have hnm : (specWith (hmaP (F := F) name round p input) (hmaCFull name p)).name
          = (hmaP (F := F) name round p input).name := rfl
      rw [hnm]
      cases Gen.nodeLoop (specWith (hmaP name round p input) (hmaCFull name p)) c₂
          (findCalcIndex (hmaP (F := F) name round p input).name c₂)
          (c₂.length - findCalcIndex (hmaP (F := F) name round p input).name c₂) with
      | error e => rfl
      | ok c₃ => simp only [calcSubs_post_two f (hmaW name p input) (hmaWh name p input) rfl rfl]

/-! ### away from index 0 (or when the WMA helper has no reading) the fallback is not taken -/

theorem hmaCFull_eq (cs : List (Candle F)) (i : Int)
    (h : i = 0 → ∀ w, ({ cs := cs, i := i, name := name } : Ctx F).reading (name ++ "_WMA") = .ok w →
      w.isNone = true) :
    hmaCFull name p cs i = hmaC name p cs i := by
  by_cases hi : i = 0
  · unfold hmaCFull hmaC Calc.hma
    cases hr : ({ cs := cs, i := i, name := name } : Ctx F).reading (name ++ "_WMA") with
    | error e => rfl
    | ok w =>
      have := h hi w hr
      simp only [bind, Except.bind, this, if_true]
  · have : hmaOpsFull (F := F) name p i = hmaOps name p i := by
      unfold hmaOpsFull hmaOps; simp only [hi, if_false]
    unfold hmaCFull hmaC; rw [this]

/-- the node's loop with and without the fallback agree unless the loop starts at candle 0 and that
candle carries a WMA reading -/
theorem nodeLoop_hma (n : Nat) : ∀ (cs : List (Candle F)) (k : Nat),
    (k = 0 → ∀ c, pyIndex cs (0 : Int) = .ok c → (readingByCandle c (name ++ "_WMA")).isNone = true) →
    Gen.nodeLoop (specWith (hmaP name round p input) (hmaCFull name p)) cs k n
      = Gen.nodeLoop (specWith (hmaP name round p input) (hmaC name p)) cs k n := by
  induction n with
  | zero => intro cs k _; rfl
  | succ n ih =>
    intro cs k hk
    rw [Gen.nodeLoop, Gen.nodeLoop]
    cases hc : pyIndex cs (k : Int) with
    | error e => rfl
    | ok c =>
      have hstep : (specWith (hmaP name round p input) (hmaCFull name p)).step cs (k : Int)
          = (specWith (hmaP name round p input) (hmaC name p)).step cs (k : Int) := by
        show stepWith _ (hmaCFull name p) cs (k : Int) = stepWith _ (hmaC name p) cs (k : Int)
        unfold stepWith
        rw [hmaCFull_eq name p cs (k : Int)]
        intro h0 w hw
        have hk0 : k = 0 := by omega
        unfold Ctx.reading at hw
        simp only [Option.getD_none, hc, bind, Except.bind, pure, Except.pure] at hw
        cases hw
        subst hk0
        exact hk rfl c hc
      have hnm : (specWith (hmaP (F := F) name round p input) (hmaCFull name p)).name
          = (specWith (hmaP (F := F) name round p input) (hmaC name p)).name := rfl
      simp only [bind, Except.bind, hstep, hnm]
      by_cases hp : present (specWith (hmaP (F := F) name round p input) (hmaC name p)).name c = true
      · simp only [hp, if_true, pure, Except.pure]
        exact ih cs (k + 1) (fun h => by omega)
      · simp only [hp, Bool.false_eq_true, if_false]
        cases (specWith (hmaP name round p input) (hmaC name p)).step cs (k : Int) with
        | error e => rfl
        | ok cs' => exact ih cs' (k + 1) (fun h => by omega)

end hma

/-! ### WMA as a tolerant leaf piece (any input seen through the read keys) -/

/-- with a period of at least 2 a WMA has no reading at index 0 -/
theorem wma_zero (cs : List (Candle F)) (nm : String) (q : Int) (inp : String) (hq : 2 ≤ q) :
    Calc.wma ({ cs := cs, i := 0, name := nm } : Ctx F) q inp = .ok .none := by
  have h1 : ({ cs := cs, i := 0, name := nm } : Ctx F).prevExists nm = .ok false := by
    simp [Ctx.prevExists, Ctx.prevReading, bind, Except.bind, pure, Except.pure]
    rfl
  have h2 : ({ cs := cs, i := 0, name := nm } : Ctx F).readingPeriod q inp = false := by
    unfold Ctx.readingPeriod Hex.readingPeriod
    simp only [Option.getD_none]
    have : (0 : Int) - (q - 1) < 0 := by omega
    by_cases hv : validIndex 0 cs.length = true
    · simp only [hv, Bool.not_true, Bool.false_eq_true, if_false, this, if_true]
    · simp only [hv, Bool.not_false, if_true]
  unfold Calc.wma
  simp only [h1, h2, bind, Except.bind, Bool.or_self, Bool.false_eq_true, if_false, pure, Except.pure]

/-- **WMA satisfies the tolerant leaf contract** (`period ≥ 1`), for an input that is a candle
attribute (`rk = []`, `sees_attr`, `indep_attr`) or an ordinary key of another piece (`rk = [input]`,
`sees_key`, `indep_key`) -/
def wmaT (Z : Ind F) (q : Int) (inp : String) (hk : Z.kind = .wma q inp) (hq : 1 ≤ q)
    (hname : IsKey Z.name) (rk : List String) (hsee : Sees F (Z.name :: rk) inp)
    (hind : Indep F Z.name inp) : TContract Z where
  rkeys := rk
  Inv := WindowInv Z.name q
  inv_nil := windowInv_nil _ _
  inv_sim := by
    intro H H' hinv hs hne
    rw [← lastReading_simL Z.name hname _ (by simp) hs] at hne
    rw [← hs.length_eq]
    exact hinv hne
  inv_step := by
    intro H c v hinv hc hv hne
    unfold valOf at hv
    rw [hk] at hv
    have hlast : Ctx.lastReading Z.name (H ++ [decOf Z v c]) = v.roundBy Z.round := by
      unfold Ctx.lastReading decOf
      rw [List.getLast?_append]
      simp [readingByCandle_setKey_noKey Z.isSub Z.name hname _ c hc]
    rw [hlast, Val.roundBy_isNone] at hne
    have hlen : ((H ++ [decOf Z v c]).length : Int) = H.length + 1 := by simp
    rw [hlen]
    rcases wma_nonNone _ q inp v hv hne with h | h
    · rw [Ctx.prevExists_append_cons] at h
      have : (Ctx.lastReading Z.name H).isNone = false := by simpa using Except.ok.inj h
      have := hinv this
      omega
    · have := readingPeriod_true_bound _ q inp _ h
      simp only [Option.getD_none] at this
      omega
  loc := by
    intro H c rest hinv
    unfold valOf
    rw [hk, ← trunc_append_cons H c rest]
    refine (wma_trunc _ q inp (by simp) (by simp) hq ?_).symm
    intro b hb hbt
    exact windowInv_prev Z.name q H c rest hinv b hb hbt
  val_sim := by
    intro H H' c c' hH hc
    unfold valOf
    rw [hk]
    have hown := sameCol_simL _ Z.name (sees_key _ _ hname (by simp)) hH hc Z.name
    exact wma_congr _ _ q inp (sameCol_simL _ inp hsee hH hc _) (Ctx.prevExists_congr hown)
  stable := by
    intro H c v
    unfold valOf decOf
    rw [hk]
    refine wma_congr _ _ q inp (sameCol_last inp H c _ Z.name (hind _ _ _)) ?_
    rw [Ctx.prevExists_append_cons, Ctx.prevExists_append_cons]

end Hex

namespace Hex
set_option linter.unusedSectionVars false
variable {F : Type} [PyF F]

/-! ### small facts about candles -/

theorem isqrt_pos (p : Int) (hp : 1 ≤ p) : 1 ≤ isqrt p := by
  unfold isqrt
  have : 0 < Nat.sqrt p.toNat := Nat.sqrt_pos.2 (by omega)
  omega

theorem FrameK.refl (keys : List String) (c : Candle F) : FrameK keys c c := ⟨rfl, fun _ _ => ⟨rfl, rfl⟩⟩

theorem entries_setKey (isSub : Bool) (k : String) (v : Val F) (c : Candle F) :
    (∀ q ∈ (setKey isSub k v c).inds, q ∈ c.inds ∨ q.1 = k) ∧
    (∀ q ∈ (setKey isSub k v c).subs, q ∈ c.subs ∨ q.1 = k) := by
  cases isSub
  · exact ⟨fun q hq => mem_dset _ _ _ q hq, fun q hq => Or.inl hq⟩
  · exact ⟨fun q hq => Or.inl hq, fun q hq => mem_dset _ _ _ q hq⟩

theorem setKey_sub_absorb (k : String) (v : Val F) (d : Candle F) (h : dlookup k d.subs = some v) :
    setKey true k v d = d := by
  simp [setKey, dset_absorb k v d.subs h]

theorem setKey_ind_absorb (k : String) (v : Val F) (d : Candle F) (h : dlookup k d.inds = some v) :
    setKey false k v d = d := by
  simp [setKey, dset_absorb k v d.inds h]

theorem subs_of_noKey (name : String) (c : Candle F) (h : hasKey name c = false) : dlookup name c.subs = none := by
  unfold hasKey dhas at h
  cases hl : dlookup name c.subs with
  | none => rfl
  | some v => simp [hl] at h

theorem readingByCandle_noKey (k : String) (hk : IsKey k) (c : Candle F) (h : hasKey k c = false) :
    readingByCandle c k = .none := by
  rw [readingByCandle_key k hk]
  unfold lookupKey
  rw [inds_of_noKey k c h, subs_of_noKey k c h]

theorem hasKey_of_frame {keys : List String} {k : String} (hk : k ∉ keys) {c c' : Candle F}
    (h : FrameK keys c c') : hasKey k c' = hasKey k c := by
  unfold hasKey dhas
  rw [(h.2 k hk).1, (h.2 k hk).2]

/-- name conditions of an HMA node: the node's name and the four helper names are ordinary keys,
pairwise distinct -/
structure HmaNames (name : String) : Prop where
  kN : IsKey name
  kW : IsKey (name ++ "_WMA")
  kH : IsKey (name ++ "_WMAh")
  kR : IsKey (name ++ "_HMAr")
  kS : IsKey (name ++ "_HMAs")
  nW : name ≠ name ++ "_WMA"
  nH : name ≠ name ++ "_WMAh"
  nR : name ≠ name ++ "_HMAr"
  nS : name ≠ name ++ "_HMAs"
  WH : name ++ "_WMA" ≠ name ++ "_WMAh"
  WR : name ++ "_WMA" ≠ name ++ "_HMAr"
  WS : name ++ "_WMA" ≠ name ++ "_HMAs"
  HR : name ++ "_WMAh" ≠ name ++ "_HMAr"
  HS : name ++ "_WMAh" ≠ name ++ "_HMAs"
  RS : name ++ "_HMAr" ≠ name ++ "_HMAs"

section hmaNode
variable (name : String) (round : Nat) (p : Int) (input : String)

/-! ### the node's own step as a value and a store -/

/-- what the node's step stores besides its own reading: the raw value and the smoothed one -/
def hmaStore (d : Option (Val F × Val F)) (c : Candle F) : Candle F :=
  match d with
  | some (a, b) => setKey true (name ++ "_HMAs") b (setKey true (name ++ "_HMAr") a c)
  | none => c

/-- the finished candle -/
def hmaApp (z : Option (Val F × Val F) × Val F) (c : Candle F) : Candle F :=
  setKey false name (z.2.roundBy round) (hmaStore name z.1 c)

/-- second half of the step: store the raw value, run the smoothing WMA at this index, read it back -/
def hmaVal2 (H : List (Candle F)) (c : Candle F) (raw : Num F) : PyM (Option (Val F × Val F) × Val F) := do
  let s ← Calc.wma { cs := H ++ [setKey true (name ++ "_HMAr") (.num raw) c], i := H.length,
                     name := name ++ "_HMAs" } (isqrt p) (name ++ "_HMAr")
  pure (some (.num raw, s.roundBy defaultRound),
    readingByCandle (setKey true (name ++ "_HMAs") (s.roundBy defaultRound)
      (setKey true (name ++ "_HMAr") (.num raw) c)) (name ++ "_HMAs"))

/-- what the node computes for the candle `c` after the history `H`: (raw value and stored
smoothed reading, if the WMA helper has a reading; the own value) -/
def hmaVal (H : List (Candle F)) (c : Candle F) : PyM (Option (Val F × Val F) × Val F) :=
  if (readingByCandle c (name ++ "_WMA")).isNone then .ok (none, .none) else do
    let a ← (readingByCandle c (name ++ "_WMAh")).asNum
    let b ← (readingByCandle c (name ++ "_WMA")).asNum
    hmaVal2 name p H c (((Num.int 2).mul a).sub b)

/-- one unconditional step of the smoothing WMA at the end of a history satisfying its invariant -/
theorem stepLeaf_hmaS (H : List (Candle F)) (c₁ : Candle F) (rest : List (Candle F)) (hq : 1 ≤ isqrt p)
    (hinv : WindowInv (name ++ "_HMAs") (isqrt p) H) :
    stepLeaf (hmaS name p) (H ++ c₁ :: rest) H.length = (do
      let s ← Calc.wma { cs := H ++ [c₁], i := H.length, name := name ++ "_HMAs" } (isqrt p) (name ++ "_HMAr")
      pure (H ++ setKey true (name ++ "_HMAs") (s.roundBy defaultRound) c₁ :: rest)) := by
  rw [stepLeaf_append_cons]
  have hr : readKind (hmaS (F := F) name p).kind
        { cs := H ++ c₁ :: rest, i := H.length, name := (hmaS (F := F) name p).name }
      = Calc.wma { cs := H ++ [c₁], i := H.length, name := name ++ "_HMAs" } (isqrt p) (name ++ "_HMAr") := by
    show Calc.wma { cs := H ++ c₁ :: rest, i := H.length, name := name ++ "_HMAs" } (isqrt p) (name ++ "_HMAr") = _
    rw [← trunc_append_cons H c₁ rest]
    refine (wma_trunc _ (isqrt p) _ (by simp) (by simp) hq ?_).symm
    intro b hb hbt
    exact windowInv_prev (name ++ "_HMAs") (isqrt p) H c₁ rest hinv b hb hbt
  rw [hr]
  rfl

/-- **the node's step on `H ++ c :: rest`** (no fallback): compute from `H` and `c` only, store on `c` -/
theorem stepWith_hmaC (H : List (Candle F)) (c : Candle F) (rest : List (Candle F)) (hq : 1 ≤ isqrt p)
    (hinv : WindowInv (name ++ "_HMAs") (isqrt p) H) :
    stepWith (hmaP name round p input) (hmaC name p) (H ++ c :: rest) H.length = (do
      let z ← hmaVal name p H c
      pure (H ++ hmaApp name round z c :: rest)) := by
  unfold stepWith hmaC Calc.hma hmaVal
  simp only [Ctx.reading_cur, Ctx.num_cur, hmaP_name, hmaP_isSub, hmaP_round, bind, Except.bind, pure,
    Except.pure]
  by_cases hw : (readingByCandle c (name ++ "_WMA")).isNone = true
  · simp only [hw, if_true, setReading_eq, updateAt_append_cons]
    rfl
  · simp only [hw, Bool.false_eq_true, if_false]
    cases (readingByCandle c (name ++ "_WMAh")).asNum with
    | error e => rfl
    | ok a =>
      simp only
      cases (readingByCandle c (name ++ "_WMA")).asNum with
      | error e => rfl
      | ok b =>
        simp only [hmaOps, setReading_eq, updateAt_append_cons, bind, Except.bind]
        rw [stepLeaf_hmaS name p H _ rest hq hinv]
        unfold hmaVal2
        simp only [bind, Except.bind, pure, Except.pure]
        generalize Calc.wma (F := F) _ (isqrt p) (name ++ "_HMAr") = r
        cases r with
        | error e => rfl
        | ok s =>
          simp only [Ctx.reading_cur, updateAt_append_cons]
          rfl

end hmaNode
end Hex

namespace Hex
set_option linter.unusedSectionVars false
variable {F : Type} [PyF F]

section hmaComp
variable (name : String) (round : Nat) (p : Int) (input : String)

/-- **the HMA node's own step as a tolerant component**: reads the two helpers' keys on the current
candle and the `<name>_HMAr` / `<name>_HMAs` series of the history, writes three keys -/
def hmaCompP : TComp F where
  name := name
  ω := Option (Val F × Val F) × Val F
  val := hmaVal name p
  app := hmaApp name round
  rkeys := [name ++ "_WMA", name ++ "_WMAh", name ++ "_HMAr", name ++ "_HMAs"]
  wkeys := [name ++ "_HMAr", name ++ "_HMAs", name]
  Raw := fun c => hasKey name c = false ∧ hasKey (name ++ "_HMAr") c = false ∧
    hasKey (name ++ "_HMAs") c = false
  Settled := fun H => (∀ d ∈ H, hasKey name d = true) ∧ WindowInv (name ++ "_HMAs") (isqrt p) H
  pass := Gen.nodeCalc (specWith (hmaP name round p input) (hmaC name p))

/-! #### the store -/

theorem frameK_hmaStore (d : Option (Val F × Val F)) (c : Candle F) :
    FrameK ([name ++ "_HMAr"] ++ [name ++ "_HMAs"]) c (hmaStore name d c) := by
  cases d with
  | none => exact FrameK.refl _ c
  | some ab =>
    obtain ⟨a, b⟩ := ab
    exact TComp.frameK_trans (frameK_setKey true _ a c) (frameK_setKey true _ b _)

theorem frameK_hmaApp (z : Option (Val F × Val F) × Val F) (c : Candle F) :
    FrameK [name ++ "_HMAr", name ++ "_HMAs", name] c (hmaApp name round z c) :=
  TComp.frameK_trans (frameK_hmaStore name z.1 c) (frameK_setKey false name _ _)

theorem simK_hmaApp (keys : List String) (z : Option (Val F × Val F) × Val F) (c c' : Candle F)
    (h : SimK keys c c') : SimK keys (hmaApp name round z c) (hmaApp name round z c') := by
  unfold hmaApp
  refine simK_setKey keys _ _ _ _ _ ?_
  obtain ⟨d, w⟩ := z
  cases d with
  | none => exact h
  | some ab =>
    obtain ⟨a, b⟩ := ab
    exact simK_setKey keys _ _ _ _ _ (simK_setKey keys _ _ _ _ _ h)

theorem inds_hmaStore (d : Option (Val F × Val F)) (c : Candle F) : (hmaStore name d c).inds = c.inds := by
  cases d with
  | none => rfl
  | some ab => rfl

theorem inds_hmaApp (k : String) (hk : name ≠ k) (z : Option (Val F × Val F) × Val F) (c : Candle F) :
    dlookup k (hmaApp name round z c).inds = dlookup k c.inds := by
  show dlookup k (dset name _ (hmaStore name z.1 c).inds) = _
  rw [dlookup_dset_ne _ _ _ _ hk, inds_hmaStore]

/-- a reading that sees none of the three written keys is unchanged by the store -/
theorem rbc_hmaApp (nm : String) (h1 : Indep F name nm) (h2 : Indep F (name ++ "_HMAr") nm)
    (h3 : Indep F (name ++ "_HMAs") nm) (z : Option (Val F × Val F) × Val F) (c : Candle F) :
    readingByCandle (hmaApp name round z c) nm = readingByCandle c nm := by
  unfold hmaApp
  rw [h1]
  obtain ⟨d, w⟩ := z
  cases d with
  | none => rfl
  | some ab =>
    obtain ⟨a, b⟩ := ab
    show readingByCandle (setKey true _ b (setKey true _ a c)) nm = _
    rw [h3, h2]

theorem entries_hmaApp (z : Option (Val F × Val F) × Val F) (c : Candle F) :
    (∀ q ∈ (hmaApp name round z c).inds, q ∈ c.inds ∨ q.1 ∈ [name ++ "_HMAr", name ++ "_HMAs", name]) ∧
    (∀ q ∈ (hmaApp name round z c).subs, q ∈ c.subs ∨ q.1 ∈ [name ++ "_HMAr", name ++ "_HMAs", name]) := by
  have hst : (∀ q ∈ (hmaStore name z.1 c).inds, q ∈ c.inds) ∧
      (∀ q ∈ (hmaStore name z.1 c).subs, q ∈ c.subs ∨ q.1 ∈ [name ++ "_HMAr", name ++ "_HMAs", name]) := by
    obtain ⟨d, w⟩ := z
    cases d with
    | none => exact ⟨fun q hq => hq, fun q hq => Or.inl hq⟩
    | some ab =>
      obtain ⟨a, b⟩ := ab
      refine ⟨fun q hq => hq, fun q hq => ?_⟩
      rcases (entries_setKey true (name ++ "_HMAs") b _).2 q hq with h | h
      · rcases (entries_setKey true (name ++ "_HMAr") a c).2 q h with h' | h'
        · exact Or.inl h'
        · exact Or.inr (by simp [h'])
      · exact Or.inr (by simp [h])
  constructor
  · intro q hq
    rcases (entries_setKey false name _ _).1 q hq with h | h
    · exact Or.inl (hst.1 q h)
    · exact Or.inr (by simp [h])
  · intro q hq
    rcases (entries_setKey false name _ _).2 q hq with h | h
    · exact hst.2 q h
    · exact Or.inr (by simp [h])

/-! #### key locality of the value -/

theorem hmaVal2_sim (hn : HmaNames name) (H H' : List (Candle F)) (c c' : Candle F)
    (hH : SimL [name ++ "_WMA", name ++ "_WMAh", name ++ "_HMAr", name ++ "_HMAs"] H H')
    (hc : SimK [name ++ "_WMA", name ++ "_WMAh", name ++ "_HMAr", name ++ "_HMAs"] c c') (raw : Num F) :
    hmaVal2 name p H c raw = hmaVal2 name p H' c' raw := by
  unfold hmaVal2
  have hc₁ := simK_setKey _ true (name ++ "_HMAr") (.num raw) c c' hc
  have hw := wma_congr _ _ (isqrt p) (name ++ "_HMAr")
    (sameCol_simL _ (name ++ "_HMAr") (sees_key _ _ hn.kR (by simp)) hH hc₁ (name ++ "_HMAs"))
    (Ctx.prevExists_congr (sameCol_simL _ (name ++ "_HMAs") (sees_key _ _ hn.kS (by simp)) hH hc₁ (name ++ "_HMAs")))
  rw [hw]
  generalize Calc.wma (F := F) _ (isqrt p) (name ++ "_HMAr") = r
  cases r with
  | error e => rfl
  | ok s =>
    simp only [bind, Except.bind, pure, Except.pure]
    rw [sees_key _ (name ++ "_HMAs") hn.kS (by simp) _ _
      (simK_setKey _ true (name ++ "_HMAs") (s.roundBy defaultRound) _ _ hc₁)]

theorem hmaVal_sim (hn : HmaNames name) (H H' : List (Candle F)) (c c' : Candle F)
    (hH : SimL [name ++ "_WMA", name ++ "_WMAh", name ++ "_HMAr", name ++ "_HMAs"] H H')
    (hc : SimK [name ++ "_WMA", name ++ "_WMAh", name ++ "_HMAr", name ++ "_HMAs"] c c') :
    hmaVal name p H c = hmaVal name p H' c' := by
  unfold hmaVal
  rw [sees_key _ (name ++ "_WMA") hn.kW (by simp) c c' hc, sees_key _ (name ++ "_WMAh") hn.kH (by simp) c c' hc]
  simp only [hmaVal2_sim name p hn H H' c c' hH hc]

/-- on candles without a top-level entry under the two series names, the value only depends on the
helpers' readings on the current candle -/
theorem hmaVal2_cur (hn : HmaNames name) (H : List (Candle F)) (c c' : Candle F)
    (hr : dlookup (name ++ "_HMAr") c.inds = none) (hr' : dlookup (name ++ "_HMAr") c'.inds = none)
    (hs : dlookup (name ++ "_HMAs") c.inds = none) (hs' : dlookup (name ++ "_HMAs") c'.inds = none)
    (raw : Num F) : hmaVal2 name p H c' raw = hmaVal2 name p H c raw := by
  unfold hmaVal2
  have hw := wma_congr
    ({ cs := H ++ [setKey true (name ++ "_HMAr") (.num raw) c'], i := H.length, name := name ++ "_HMAs" } : Ctx F)
    { cs := H ++ [setKey true (name ++ "_HMAr") (.num raw) c], i := H.length, name := name ++ "_HMAs" }
    (isqrt p) (name ++ "_HMAr")
    (sameCol_last (name ++ "_HMAr") H _ _ (name ++ "_HMAs")
      (by rw [rbc_data_self _ hn.kR c' hr', rbc_data_self _ hn.kR c hr]))
    (by rw [Ctx.prevExists_append_cons, Ctx.prevExists_append_cons])
  rw [hw]
  generalize Calc.wma (F := F) _ (isqrt p) (name ++ "_HMAr") = r
  cases r with
  | error e => rfl
  | ok s =>
    simp only [bind, Except.bind, pure, Except.pure]
    rw [rbc_data_self _ hn.kS _ (by exact hs'), rbc_data_self _ hn.kS _ (by exact hs)]

theorem hmaVal_cur (hn : HmaNames name) (H : List (Candle F)) (c c' : Candle F)
    (hW : readingByCandle c' (name ++ "_WMA") = readingByCandle c (name ++ "_WMA"))
    (hH : readingByCandle c' (name ++ "_WMAh") = readingByCandle c (name ++ "_WMAh"))
    (hr : dlookup (name ++ "_HMAr") c.inds = none) (hr' : dlookup (name ++ "_HMAr") c'.inds = none)
    (hs : dlookup (name ++ "_HMAs") c.inds = none) (hs' : dlookup (name ++ "_HMAs") c'.inds = none) :
    hmaVal name p H c' = hmaVal name p H c := by
  unfold hmaVal
  rw [hW, hH]
  simp only [hmaVal2_cur name p hn H c c' hr hr' hs hs']

/-- **stability**: recomputing a finished candle reproduces its value -/
theorem hmaVal_stable (hn : HmaNames name) (H : List (Candle F)) (c : Candle F)
    (z : Option (Val F × Val F) × Val F)
    (hraw : hasKey (name ++ "_HMAr") c = false ∧ hasKey (name ++ "_HMAs") c = false) :
    hmaVal name p H (hmaApp name round z c) = hmaVal name p H c := by
  apply hmaVal_cur name p hn H c _
  · exact rbc_hmaApp name round _ (indep_key _ _ hn.kW hn.nW) (indep_key _ _ hn.kW hn.WR.symm)
      (indep_key _ _ hn.kW hn.WS.symm) z c
  · exact rbc_hmaApp name round _ (indep_key _ _ hn.kH hn.nH) (indep_key _ _ hn.kH hn.HR.symm)
      (indep_key _ _ hn.kH hn.HS.symm) z c
  · exact inds_of_noKey _ c hraw.1
  · rw [inds_hmaApp name round _ hn.nR]; exact inds_of_noKey _ c hraw.1
  · exact inds_of_noKey _ c hraw.2
  · rw [inds_hmaApp name round _ hn.nS]; exact inds_of_noKey _ c hraw.2

/-! #### absorption, the invariant, the pass -/

theorem hmaApp_absorb (hn : HmaNames name) (z : Option (Val F × Val F) × Val F) (c d : Candle F)
    (hd : SimK [name ++ "_HMAr", name ++ "_HMAs", name] d (hmaApp name round z c)) :
    hmaApp name round z d = d := by
  obtain ⟨dd, w⟩ := z
  have hN : dlookup name d.inds = some (w.roundBy round) := by
    rw [(hd.2 name (by simp)).1]
    show dlookup name (dset name _ _) = _
    exact dlookup_dset_self _ _ _
  cases dd with
  | none =>
    show setKey false name (w.roundBy round) d = d
    exact setKey_ind_absorb _ _ _ hN
  | some ab =>
    obtain ⟨a, b⟩ := ab
    have hR : dlookup (name ++ "_HMAr") d.subs = some a := by
      rw [(hd.2 (name ++ "_HMAr") (by simp)).2]
      show dlookup (name ++ "_HMAr") (dset (name ++ "_HMAs") b (dset (name ++ "_HMAr") a c.subs)) = _
      rw [dlookup_dset_ne _ _ _ _ hn.RS.symm, dlookup_dset_self]
    have hS : dlookup (name ++ "_HMAs") d.subs = some b := by
      rw [(hd.2 (name ++ "_HMAs") (by simp)).2]
      show dlookup (name ++ "_HMAs") (dset (name ++ "_HMAs") b (dset (name ++ "_HMAr") a c.subs)) = _
      exact dlookup_dset_self _ _ _
    show setKey false name (w.roundBy round)
      (setKey true (name ++ "_HMAs") b (setKey true (name ++ "_HMAr") a d)) = d
    rw [setKey_sub_absorb _ _ _ hR, setKey_sub_absorb _ _ _ hS, setKey_ind_absorb _ _ _ hN]

/-- the invariant of the smoothing WMA is kept by the node's step -/
theorem hma_settled_step (hn : HmaNames name) (H : List (Candle F)) (r : Candle F)
    (z : Option (Val F × Val F) × Val F)
    (hinv : WindowInv (name ++ "_HMAs") (isqrt p) H)
    (hraw : hasKey (name ++ "_HMAr") r = false ∧ hasKey (name ++ "_HMAs") r = false)
    (hv : hmaVal name p H r = .ok z) :
    WindowInv (name ++ "_HMAs") (isqrt p) (H ++ [hmaApp name round z r]) := by
  intro hne
  have hlast : Ctx.lastReading (name ++ "_HMAs") (H ++ [hmaApp name round z r])
      = readingByCandle (hmaApp name round z r) (name ++ "_HMAs") := by
    unfold Ctx.lastReading
    rw [List.getLast?_append]
    simp
  rw [hlast] at hne
  have hlen : ((H ++ [hmaApp name round z r]).length : Int) = H.length + 1 := by simp
  rw [hlen]
  unfold hmaVal at hv
  by_cases hw : (readingByCandle r (name ++ "_WMA")).isNone = true
  · -- nothing stored: the smoothed reading stays `None`
    simp only [hw, if_true] at hv
    cases hv
    have : readingByCandle (hmaApp name round (none, .none) r) (name ++ "_HMAs") = .none := by
      unfold hmaApp hmaStore
      rw [indep_key _ _ hn.kS hn.nS]
      exact readingByCandle_noKey _ hn.kS r hraw.2
    rw [this] at hne
    cases hne
  · simp only [hw, Bool.false_eq_true, if_false, bind, Except.bind] at hv
    cases ha : (readingByCandle r (name ++ "_WMAh")).asNum with
    | error e => rw [ha] at hv; cases hv
    | ok a =>
      rw [ha] at hv
      simp only at hv
      cases hb : (readingByCandle r (name ++ "_WMA")).asNum with
      | error e => rw [hb] at hv; cases hv
      | ok b =>
        rw [hb] at hv
        simp only at hv
        unfold hmaVal2 at hv
        simp only [bind, Except.bind, pure, Except.pure] at hv
        generalize hs : Calc.wma (F := F) _ (isqrt p) (name ++ "_HMAr") = r0 at hv
        cases r0 with
        | error e => cases hv
        | ok s =>
          simp only at hv
          cases hv
          have hrd : readingByCandle (hmaApp name round
              (some (Val.num (((Num.int 2).mul a).sub b), s.roundBy defaultRound),
                readingByCandle (setKey true (name ++ "_HMAs") (s.roundBy defaultRound)
                  (setKey true (name ++ "_HMAr") (.num (((Num.int 2).mul a).sub b)) r)) (name ++ "_HMAs")) r)
              (name ++ "_HMAs") = s.roundBy defaultRound := by
            unfold hmaApp
            rw [indep_key _ _ hn.kS hn.nS]
            show readingByCandle (setKey true (name ++ "_HMAs") (s.roundBy defaultRound)
              (setKey true (name ++ "_HMAr") (.num (((Num.int 2).mul a).sub b)) r)) (name ++ "_HMAs") = _
            exact rbc_data_self _ hn.kS _ (by exact inds_of_noKey _ r hraw.2) _
          rw [hrd, Val.roundBy_isNone] at hne
          rcases wma_nonNone _ (isqrt p) _ s hs hne with h | h
          · rw [Ctx.prevExists_append_cons] at h
            have : (Ctx.lastReading (name ++ "_HMAs") H).isNone = false := by simpa using Except.ok.inj h
            have := hinv this
            omega
          · have := readingPeriod_true_bound _ (isqrt p) _ _ h
            simp only [Option.getD_none] at this
            omega

/-- the node's loop (without fallback) over raw candles is the row-major fold -/
theorem nodeLoop_runH (hn : HmaNames name) (hp : 1 ≤ p) (R : List (Candle F)) :
    ∀ (H : List (Candle F)), WindowInv (name ++ "_HMAs") (isqrt p) H →
      (∀ r ∈ R, (hmaCompP (F := F) name round p input).Raw r) →
      Gen.nodeLoop (specWith (hmaP name round p input) (hmaC name p)) (H ++ R) H.length R.length
        = (hmaCompP name round p input).rowFrom H R := by
  induction R with
  | nil => intro H _ _; simp [Gen.nodeLoop, TComp.rowFrom_nil]
  | cons r R' ih =>
    intro H hinv hR
    have hr := hR r (by simp)
    have hrs : (hmaCompP (F := F) name round p input).rowStep H r = (do
        let z ← hmaVal name p H r; pure (H ++ [hmaApp name round z r])) := rfl
    rw [List.length_cons, Gen.nodeLoop, pyIndex_append_cons, TComp.rowFrom_cons, hrs]
    have hpres : present (specWith (hmaP (F := F) name round p input) (hmaC name p)).name r = false :=
      present_of_noKey _ r (by
        show hasKey (hmaP (F := F) name round p input).name r = false
        rw [hmaP_name]; exact hr.1)
    simp only [bind, Except.bind, hpres, Bool.false_eq_true, if_false]
    have hstep : (specWith (hmaP name round p input) (hmaC name p)).step (H ++ r :: R') H.length = (do
        let z ← hmaVal name p H r
        pure (H ++ hmaApp name round z r :: R')) :=
      stepWith_hmaC name round p input H r R' (isqrt_pos p hp) hinv
    rw [hstep]
    cases hv : hmaVal name p H r with
    | error e => rfl
    | ok z =>
      simp only [bind, Except.bind, pure, Except.pure]
      have := ih (H ++ [hmaApp name round z r])
        (hma_settled_step name round p hn H r z hinv hr.2 hv) (fun x hx => hR x (by simp [hx]))
      simpa using this

/-- **the laws of the HMA node's own step** -/
theorem hmaCompP_law (hn : HmaNames name) (hp : 1 ≤ p) : TComp.Law (hmaCompP (F := F) name round p input) where
  name_w := by simp [hmaCompP]
  app_frame := fun z c => frameK_hmaApp name round z c
  app_key := fun z c => hasKey_setKey _ _ _ _
  app_entries := fun z c => entries_hmaApp name round z c
  app_sim := fun keys z c c' h => simK_hmaApp name round keys z c c' h
  raw_nokey := fun c h => h.1
  raw_of := fun c h => ⟨h name (by simp [hmaCompP]), h (name ++ "_HMAr") (by simp [hmaCompP]),
    h (name ++ "_HMAs") (by simp [hmaCompP])⟩
  val_sim := fun H H' c c' hs hc => hmaVal_sim name p hn H H' c c' hs hc
  stable := by
    intro H c z hraw hv
    show hmaVal name p H (hmaApp name round z c) = .ok z
    rw [hmaVal_stable name round p hn H c z hraw.2]
    exact hv
  absorb := fun z c d _ hd => hmaApp_absorb name round hn z c d hd
  settled_nil := ⟨(by intro d hd; cases hd), windowInv_nil _ _⟩
  settled_step := by
    intro H r z hs hraw hv
    refine ⟨?_, hma_settled_step name round p hn H r z hs.2 hraw.2 hv⟩
    intro d hd
    rcases List.mem_append.1 hd with h | h
    · exact hs.1 d h
    · simp at h; subst h; exact hasKey_setKey _ _ _ _
  settled_sim := by
    intro H H' hs hsim
    constructor
    · intro d' hd'
      obtain ⟨d, hd, hdd⟩ := TComp.forall₂_mem_right' hsim d' hd'
      rw [← hasKey_simK (keys := (hmaCompP (F := F) name round p input).rkeys ++
        (hmaCompP (F := F) name round p input).wkeys) (by simp [hmaCompP]) hdd]
      exact hs.1 d hd
    · intro hne
      rw [← lastReading_simL (name ++ "_HMAs") hn.kS _ (by simp [hmaCompP]) hsim] at hne
      rw [← hsim.length_eq]
      exact hs.2 hne
  pass_iff := by
    intro H R out hs hR
    have key : Gen.nodeCalc (specWith (hmaP name round p input) (hmaC name p)) (H ++ R)
        = (hmaCompP name round p input).rowFrom H R := by
      unfold Gen.nodeCalc
      have hnm : (specWith (hmaP (F := F) name round p input) (hmaC name p)).name = name :=
        hmaP_name (F := F) name round p input
      rw [hnm, findCalcIndex_split name H R hs.1 (fun r hr => (hR r hr).1)]
      have : (H ++ R).length - H.length = R.length := by simp
      rw [this]
      exact nodeLoop_runH name round p input hn hp R H hs.2 hR
    show Gen.nodeCalc (specWith (hmaP name round p input) (hmaC name p)) (H ++ R) = .ok out ↔ _
    rw [key]

end hmaComp
end Hex

namespace Hex
set_option linter.unusedSectionVars false
variable {F : Type} [PyF F]

section hmaTree
variable (name : String) (round : Nat) (p : Int) (input : String)
  (hp : 2 ≤ p) (hn : HmaNames name) (hin : NoDot input ∧ input ∈ Candle.attrNames)

/-- the pieces: the two prior WMA helpers … -/
def hmaCompW : TComp F :=
  leafComp (hmaW name p input)
    (wmaT _ p input rfl (by omega) hn.kW [] (sees_attr _ _ hin.1 hin.2) (indep_attr _ _ hin.1 hin.2))
def hmaCompWh : TComp F :=
  leafComp (hmaWh name p input)
    (wmaT _ (p / 2) input rfl (by omega) hn.kH [] (sees_attr _ _ hin.1 hin.2) (indep_attr _ _ hin.1 hin.2))
/-- … run one after the other … -/
def hmaCompX : TComp F := TComp.seq (hmaCompW name p input hp hn hin) (hmaCompWh name p input hp hn hin)
/-- … followed by the node's own step -/
def hmaComp : TComp F := TComp.seq (hmaCompX name p input hp hn hin) (hmaCompP name round p input)

theorem hmaCompX_law : TComp.Law (hmaCompX (F := F) name p input hp hn hin) := by
  unfold hmaCompX
  refine TComp.seq_law (leafComp_law _ _) (leafComp_law _ _) ?_
  constructor <;> intro k hk <;>
    simp [hmaCompW, hmaCompWh, leafComp, wmaT, hmaW_name, hmaWh_name] at hk ⊢ <;>
    subst hk <;> exact hn.WH

theorem hmaComp_law : TComp.Law (hmaComp (F := F) name round p input hp hn hin) := by
  unfold hmaComp
  refine TComp.seq_law (hmaCompX_law name p input hp hn hin) (hmaCompP_law name round p input hn (by omega)) ?_
  constructor <;> intro k hk <;>
    simp [hmaCompX, TComp.seq, hmaCompW, hmaCompWh, hmaCompP, leafComp, wmaT, hmaW_name, hmaWh_name] at hk ⊢ <;>
    rcases hk with rfl | rfl <;>
    simp [hn.nW.symm, hn.nH.symm, hn.WR, hn.WS, hn.HR, hn.HS]

theorem allNames_hma : (hmaP (F := F) name round p input).allNames
    = [name, name ++ "_WMA", name ++ "_WMAh", name ++ "_HMAr", name ++ "_HMAs"] := by
  simp [hmaP, mkTop, children, Ind.allNames_eq, leaf, Ind.name, Ind.subs, Ind.managed]

/-! ### the engine on the lists the framework meets -/

/-- after the helpers' pass over raw candles from an empty history, candle 0 carries no WMA reading
(`period ≥ 2`): the node's step at index 0 never reaches `Managed.set_reading` -/
theorem hma_head (raw c₂ : List (Candle F)) (hraw : ∀ r ∈ raw, Plain r)
    (hrow : (hmaCompX (F := F) name p input hp hn hin).rowFrom [] raw = .ok c₂) :
    ∀ c, pyIndex c₂ (0 : Int) = .ok c → (readingByCandle c (name ++ "_WMA")).isNone = true := by
  intro c hc
  cases raw with
  | nil =>
    rw [TComp.rowFrom_nil] at hrow
    cases hrow
    simp [pyIndex, getOrIndexError] at hc
  | cons r0 R' =>
    rw [TComp.rowFrom_cons] at hrow
    unfold TComp.rowStep at hrow
    cases hv : (hmaCompX (F := F) name p input hp hn hin).val [] r0 with
    | error e => rw [hv] at hrow; cases hrow
    | ok z =>
      rw [hv] at hrow
      simp only [bind, Except.bind, pure, Except.pure] at hrow
      obtain ⟨T, hT, _⟩ := TComp.rowFrom_shape _ R' _ _ hrow
      have hc0 : c = (hmaCompX (F := F) name p input hp hn hin).app z r0 := by
        rw [hT] at hc
        have := pyIndex_append_cons ([] : List (Candle F))
          ((hmaCompX (F := F) name p input hp hn hin).app z r0) T
        simp only [List.nil_append, List.length_nil, Nat.cast_zero] at this
        simp only [List.nil_append, List.singleton_append] at hc
        rw [this] at hc
        exact (Except.ok.inj hc).symm
      -- the value of the WMA helper at index 0
      have hx : z.1 = Val.none := by
        change (do
          let x ← valOf (hmaW name p input) [] r0
          let q ← valOf (hmaWh name p input) [] (decOf (hmaW name p input) x r0)
          pure (x, q)) = .ok z at hv
        have hw : valOf (hmaW (F := F) name p input) [] r0 = .ok .none := by
          show Calc.wma (Ctx.mk ([] ++ [r0]) (([] : List (Candle F)).length : Int) (name ++ "_WMA")) p input = _
          simp only [List.length_nil, Nat.cast_zero]
          exact wma_zero _ _ p input hp
        rw [hw] at hv
        simp only [bind, Except.bind] at hv
        cases hq : valOf (hmaWh (F := F) name p input) [] (decOf (hmaW name p input) Val.none r0) with
        | error e => rw [hq] at hv; cases hv
        | ok q =>
          rw [hq] at hv
          simp only [pure, Except.pure] at hv
          cases hv
          rfl
      rw [hc0]
      show (readingByCandle (decOf (hmaWh name p input) z.2 (decOf (hmaW name p input) z.1 r0))
        (name ++ "_WMA")).isNone = true
      unfold decOf
      rw [hmaWh_name, hmaW_name, indep_key _ _ hn.kW hn.WH.symm,
        readingByCandle_setKey _ _ hn.kW _ _ (hraw r0 (by simp))]
      exact ((Val.roundBy_isNone _ _).trans (congrArg Val.isNone hx)).trans rfl

/-- **on a settled history followed by raw candles the engine is the pass of the component** -/
theorem hma_pass (done raw : List (Candle F))
    (hs : (hmaComp (F := F) name round p input hp hn hin).Settled done) (hraw : ∀ r ∈ raw, Plain r) :
    engineCalc (hmaP (F := F) name round p input) (done ++ raw)
      = (hmaComp (F := F) name round p input hp hn hin).pass (done ++ raw) := by
  have LX := hmaCompX_law (F := F) name p input hp hn hin
  rw [engineCalc_hma]
  have hassoc : (do
        let c₁ ← leafCalc (hmaW name p input) (done ++ raw)
        let c₂ ← leafCalc (hmaWh name p input) c₁
        Gen.nodeCalc (specWith (hmaP name round p input) (hmaCFull name p)) c₂)
      = (do
        let c₂ ← (hmaCompX (F := F) name p input hp hn hin).pass (done ++ raw)
        Gen.nodeCalc (specWith (hmaP name round p input) (hmaCFull name p)) c₂) := by
    show _ = (do
      let c₂ ← (do let c ← leafCalc (hmaW name p input) (done ++ raw); leafCalc (hmaWh name p input) c)
      Gen.nodeCalc (specWith (hmaP name round p input) (hmaCFull name p)) c₂)
    cases leafCalc (hmaW (F := F) name p input) (done ++ raw) <;> rfl
  rw [hassoc]
  show _ = (do
    let c₂ ← (hmaCompX (F := F) name p input hp hn hin).pass (done ++ raw)
    Gen.nodeCalc (specWith (hmaP name round p input) (hmaC name p)) c₂)
  cases hX : (hmaCompX (F := F) name p input hp hn hin).pass (done ++ raw) with
  | error e => rfl
  | ok c₂ =>
    simp only [bind, Except.bind]
    have hrawX : ∀ r ∈ raw, (hmaCompX (F := F) name p input hp hn hin).Raw r :=
      fun r hr => LX.raw_of r (fun k _ => hasKey_plain k r (hraw r hr))
    have hrow := (LX.pass_iff done raw c₂ hs.1 hrawX).1 hX
    obtain ⟨T, hT, hdT⟩ := TComp.rowFrom_shape _ raw done c₂ hrow
    -- the helpers do not write the node's key
    have hTkey : ∀ t ∈ T, hasKey name t = false := by
      intro t ht
      obtain ⟨r, hr, x, rfl⟩ := TComp.forall₂_mem_right' hdT t ht
      have hnw : name ∉ (hmaCompX (F := F) name p input hp hn hin).wkeys := by
        simp [hmaCompX, TComp.seq, hmaCompW, hmaCompWh, leafComp, hmaW_name, hmaWh_name, hn.nW, hn.nH]
      rw [hasKey_of_frame hnw (LX.app_frame x r)]
      exact hasKey_plain name r (hraw r hr)
    have hidx : findCalcIndex name c₂ = done.length := by
      rw [hT]; exact findCalcIndex_split name done T hs.2.1 hTkey
    unfold Gen.nodeCalc
    have hn1 : (specWith (hmaP (F := F) name round p input) (hmaCFull name p)).name = name :=
      hmaP_name (F := F) name round p input
    have hn2 : (specWith (hmaP (F := F) name round p input) (hmaC name p)).name = name :=
      hmaP_name (F := F) name round p input
    rw [hn1, hn2, hidx]
    apply nodeLoop_hma
    intro h0 c hc
    have hd : done = [] := List.eq_nil_of_length_eq_zero h0
    subst hd
    exact hma_head name p input hp hn hin raw c₂ hraw hrow c hc

/-- **Hull moving average as a tree with a row-major spec.** -/
def hmaTree : TreeSpec (hmaP (F := F) name round p input) :=
  TreeSpec.ofComp' (hmaComp name round p input hp hn hin) (hmaComp_law name round p input hp hn hin)
    (fun c hc => (hmaComp_law name round p input hp hn hin).raw_of c (fun k _ => hasKey_plain k c hc))
    (by
      intro k hk
      rw [allNames_hma]
      simp [hmaComp, hmaCompX, TComp.seq, hmaCompW, hmaCompWh, hmaCompP, leafComp, hmaW_name, hmaWh_name]
        at hk ⊢
      rcases hk with h | h | h | h | h <;> simp [h])
    (hma_pass name round p input hp hn hin)

/-- the row step of the spec: WMA, WMAh, then the node's own step (`hmaVal` / `hmaApp`), all computed
from the candles `0..i` only -/
theorem hmaTree_step : (hmaTree (F := F) name round p input hp hn hin).S.step
    = (hmaComp (F := F) name round p input hp hn hin).step := rfl

end hmaTree

/-- the hypotheses are met by the default name of `HMA(period=4)` -/
example : HmaNames "HMA_4" :=
  ⟨by decide, by decide, by decide, by decide, by decide, by decide, by decide, by decide, by decide, by decide,
    by decide, by decide, by decide, by decide, by decide⟩

example : Nonempty (TreeSpec (mkTop (.hma 4 "close") "HMA_4" 4 : Ind F)) :=
  ⟨hmaTree "HMA_4" 4 4 "close" (by decide)
    ⟨by decide, by decide, by decide, by decide, by decide, by decide, by decide, by decide, by decide, by decide,
      by decide, by decide, by decide, by decide, by decide⟩ (by decide)⟩

end Hex

#print axioms Hex.hmaTree
#print axioms Hex.engineCalc_hma
#print axioms Hex.setManagedReading_postLeaves

import HexProofs.Framework.Gen.ProgramLifeTf
/-
C14 on a LIFESPAN manager combined with a TIMEFRAME (with or without gap filling): PROGRAMS.

The manager is `M.cfg.withLife life` for a re-collapsing manager interface `M : TwinMgr F` (`TwinMgr.tf`: timeframe,
`TwinMgr.fill`: timeframe + fill).  The state after a program is described by
  * `s`  – the raw stream received (construction candles + everything appended),
  * `e`  – where the VIRTUAL collapsed stream starts: `V = (M.spec s).drop e` (everything the construction / the last
           `purge()` / `recalculate()` held, re-collapsed with everything appended since),
  * `d`  – the number of leading candles of `M.spec s` popped so far (`e ≤ d`): the manager holds `(M.spec s).drop d`,
  * `raw` – readings stripped, or FINISHED: the candles are `(batch over V).drop (d - e)`.
`tfStep` / `tfSem` compute `(s, e, d, raw)` from the raw candles alone (`M.spec`, `M.closed`, `trimCandles`); they return
`none` when a trim raises, when a non-empty append meets a manager that has popped candles and holds only the still
forming bucket which the append re-opens (`¬ (d = 0 ∨ d + 1 ≤ closed)`: `TwinMgr.append` says nothing there), when an
append onto a FINISHED state pops without retaining the look-back in CLOSED candles (`d' = e ∨ d' + L ≤ closed`), or when
`calculate_index` is aimed at one of the first `L` candles of a popped list.
-/
set_option linter.unusedSectionVars false
set_option linter.unusedVariables false
set_option linter.unusedSimpArgs false
namespace Hex
variable {F : Type} [PyF F]

/-! ### list facts -/

theorem drop_append_ge {α : Type} (l₁ l₂ : List α) (n : Nat) (h : l₁.length ≤ n) :
    (l₁ ++ l₂).drop n = l₂.drop (n - l₁.length) := by
  induction l₁ generalizing n with
  | nil => simp
  | cons a r ih =>
    cases n with
    | zero => simp at h
    | succ n =>
      simp only [List.cons_append, List.drop_succ_cons, List.length_cons]
      rw [ih n (by simpa using h)]
      congr 1; omega

theorem take_append_ge {α : Type} (l₁ l₂ : List α) (n : Nat) (h : l₁.length ≤ n) :
    (l₁ ++ l₂).take n = l₁ ++ l₂.take (n - l₁.length) := by
  rw [List.take_append, List.take_of_length_le h]

theorem take_drop_shift {α : Type} (P b Q : List α) (cl x : Nat) (hP : P.length ≤ cl) (hx : P.length ≤ x) :
    ((P ++ b).take cl ++ Q).drop x = (b.take (cl - P.length) ++ Q).drop (x - P.length) := by
  rw [take_append_ge _ _ _ hP, List.append_assoc, drop_append_ge _ _ _ hx]

theorem drop_drop_sub {α : Type} (l : List α) (e d : Nat) (h : e ≤ d) : (l.drop e).drop (d - e) = l.drop d := by
  rw [List.drop_drop]; congr 1; omega

/-! ### the abstract semantics -/

structure TState (F : Type) where
  s : List (Candle F)
  e : Nat
  d : Nat
  raw : Bool
  deriving DecidableEq

def tfStep (M : TwinMgr F) (life : Int) (L : Nat) (σ : TState F) : Op F → Option (TState F)
  | .calculate => some { σ with raw := false }
  | .purge => some ⟨σ.s, σ.d, σ.d, true⟩
  | .recalculate => some ⟨σ.s, σ.d, σ.d, false⟩
  | .calcIndex i =>
    if σ.raw then some σ
    else if σ.d = σ.e ∨ (L : Int) ≤ (if i < 0 then i + (((M.spec σ.s).length - σ.d : Nat) : Int) else i) then some σ
    else none
  | .append ch =>
    if ch.isEmpty then some { σ with raw := false } else
    if σ.d = 0 ∨ σ.d + 1 ≤ M.closed σ.s ch then
      match trimCandles (some life) ((M.spec (σ.s ++ ch)).drop σ.d) with
      | .error _ => none
      | .ok m =>
        if σ.raw then
          some ⟨σ.s ++ ch, (M.spec (σ.s ++ ch)).length - m.length, (M.spec (σ.s ++ ch)).length - m.length, false⟩
        else if (M.spec (σ.s ++ ch)).length - m.length = σ.e ∨
            (M.spec (σ.s ++ ch)).length - m.length + L ≤ M.closed σ.s ch then
          some ⟨σ.s ++ ch, σ.e, (M.spec (σ.s ++ ch)).length - m.length, false⟩
        else none
    else none

def tfRunFrom (M : TwinMgr F) (life : Int) (L : Nat) : TState F → List (Op F) → Option (TState F)
  | σ, [] => some σ
  | σ, op :: ops =>
    match tfStep M life L σ op with
    | some σ' => tfRunFrom M life L σ' ops
    | none => none

/-- construction (collapse, trim), then the program -/
def tfSem (M : TwinMgr F) (life : Int) (L : Nat) (init : List (Candle F)) (ops : List (Op F)) : Option (TState F) :=
  match trimCandles (some life) (M.spec init) with
  | .ok V => tfRunFrom M life L ⟨init, (M.spec init).length - V.length, (M.spec init).length - V.length, true⟩ ops
  | .error _ => none

theorem tfStep_s (M : TwinMgr F) (life : Int) (L : Nat) (σ σ' : TState F) (op : Op F)
    (h : tfStep M life L σ op = some σ') : σ'.s = σ.s ++ op.added := by
  cases op with
  | calculate => simp only [tfStep, Option.some.injEq] at h; subst h; simp [Op.added]
  | purge => simp only [tfStep, Option.some.injEq] at h; subst h; simp [Op.added]
  | recalculate => simp only [tfStep, Option.some.injEq] at h; subst h; simp [Op.added]
  | calcIndex i =>
    simp only [tfStep] at h
    by_cases hr : σ.raw = true
    · rw [if_pos hr] at h; cases h; simp [Op.added]
    · rw [if_neg hr] at h
      by_cases hc : σ.d = σ.e ∨ (L : Int) ≤ (if i < 0 then i + (((M.spec σ.s).length - σ.d : Nat) : Int) else i)
      · rw [if_pos hc] at h; cases h; simp [Op.added]
      · rw [if_neg hc] at h; cases h
  | append ch =>
    simp only [tfStep] at h
    split at h
    · rename_i he
      cases h
      have : ch = [] := List.isEmpty_iff.1 he
      subst this; simp [Op.added]
    · split at h
      · split at h
        · cases h
        · split at h
          · cases h; rfl
          · split at h
            · cases h; rfl
            · cases h
      · cases h

section generic
variable {ind : Ind F} {L : Nat}

/-! ### the invariant -/

structure LifeTfInv (ind : Ind F) (L : Nat) (M : TwinMgr F) (life : Int) (σ : TState F) (s : IndState F) : Prop where
  tree : s.tree = ind
  cfg : s.mgr.cfg = M.cfg.withLife life
  ok : M.Ok σ.s
  ed : σ.e ≤ σ.d
  dle : σ.d ≤ (M.spec σ.s).length
  keep : σ.d = σ.e ∨ σ.d + L ≤ (M.spec σ.s).length
  rawd : σ.raw = true → σ.d = σ.e
  st : ∃ b, s.mgr.candles = b.drop (σ.d - σ.e) ∧
        ((σ.raw = true ∧ b = (M.spec σ.s).drop σ.e) ∨
         (σ.raw = false ∧ engineCalc ind ((M.spec σ.s).drop σ.e) = .ok b))

theorem LifeTfInv.plainV {M : TwinMgr F} {life : Int} {σ : TState F} {s : IndState F} (h : LifeTfInv ind L M life σ s) :
    ∀ c ∈ (M.spec σ.s).drop σ.e, Plain c :=
  fun c hc => M.spec_plain σ.s h.ok c (List.mem_of_mem_drop hc)

theorem LifeTfInv.keepδ {M : TwinMgr F} {life : Int} {σ : TState F} {s : IndState F} (h : LifeTfInv ind L M life σ s) :
    σ.d - σ.e = 0 ∨ σ.d - σ.e + L ≤ ((M.spec σ.s).drop σ.e).length := by
  rw [List.length_drop]
  have := h.ed
  rcases h.keep with hk | hk
  · exact Or.inl (by omega)
  · exact Or.inr (by omega)

/-- **the final `calculate()`, as an equation in `PyM`** -/
theorem LifeTfInv.final (T : TreeSpec ind) (W : TwinOK ind L) (hs : Shallow ind) {M : TwinMgr F} {life : Int}
    {σ : TState F} {s : IndState F} (h : LifeTfInv ind L M life σ s) :
    candlesOf s.calculate = (engineCalc ind ((M.spec σ.s).drop σ.e)).map (·.drop (σ.d - σ.e)) := by
  rw [IndState.calculate_engine, h.tree]
  obtain ⟨b, hc, ⟨hr, hb⟩ | ⟨hr, hb⟩⟩ := h.st
  · have h0 : σ.d - σ.e = 0 := by rw [h.rawd hr]; omega
    rw [hc, hb, h0, List.drop_zero, map_drop_zero]
  · have hlen := engine_len _ b hb
    rw [hc, T.fin_drop_idem W hs _ b _ h.plainV hb (by rw [hlen]; exact h.keepδ), hb]; rfl

theorem tfInv_calculate (T : TreeSpec ind) (W : TwinOK ind L) (hs : Shallow ind) (M : TwinMgr F) (life : Int)
    (σ : TState F) (s s' : IndState F) (h : LifeTfInv ind L M life σ s) (hrun : s.calculate = .ok s') :
    LifeTfInv ind L M life { σ with raw := false } s' := by
  obtain ⟨ht, hcfg, he⟩ := IndState.calculate_ok_engine s s' hrun
  rw [h.tree] at he ht
  refine ⟨ht, by rw [hcfg, h.cfg], h.ok, h.ed, h.dle, h.keep, fun hr => (by cases hr), ?_⟩
  obtain ⟨b, hc, ⟨hr, hb⟩ | ⟨hr, hb⟩⟩ := h.st
  · have h0 : σ.d - σ.e = 0 := by rw [h.rawd hr]; omega
    rw [hc, hb, h0, List.drop_zero] at he
    exact ⟨s'.mgr.candles, by show s'.mgr.candles = s'.mgr.candles.drop (σ.d - σ.e); rw [h0, List.drop_zero],
      Or.inr ⟨rfl, he⟩⟩
  · have hlen := engine_len _ b hb
    rw [hc, T.fin_drop_idem W hs _ b _ h.plainV hb (by rw [hlen]; exact h.keepδ)] at he
    exact ⟨b, (Except.ok.inj he).symm, Or.inr ⟨rfl, hb⟩⟩

/-- `purge()` gives the collapsed candles currently held, reading-free -/
theorem LifeTfInv.purge_candles (T : TreeSpec ind) {M : TwinMgr F} {life : Int} {σ : TState F} {s : IndState F}
    (h : LifeTfInv ind L M life σ s) : s.purge.mgr.candles = (M.spec σ.s).drop σ.d := by
  unfold IndState.purge
  simp only [h.tree]
  obtain ⟨b, hc, ⟨hr, hb⟩ | ⟨hr, hb⟩⟩ := h.st
  · rw [hc, hb, drop_drop_sub _ _ _ h.ed]
    exact purgeNames_plain_any _ _ (fun c hc => M.spec_plain σ.s h.ok c (List.mem_of_mem_drop hc))
  · rw [hc, T.purge_fin_drop _ b _ h.plainV hb, drop_drop_sub _ _ _ h.ed]

theorem tfInv_purge (T : TreeSpec ind) (M : TwinMgr F) (life : Int) (σ : TState F) (s : IndState F)
    (h : LifeTfInv ind L M life σ s) : LifeTfInv ind L M life ⟨σ.s, σ.d, σ.d, true⟩ s.purge :=
  ⟨h.tree, h.cfg, h.ok, Nat.le_refl _, h.dle, Or.inl rfl, fun _ => rfl,
    ⟨(M.spec σ.s).drop σ.d, by rw [h.purge_candles T]; simp, Or.inl ⟨rfl, rfl⟩⟩⟩

/-- **`append(ch)`, `ch` non-empty**: what the manager does (collapse / fill, then trim), then the engine -/
theorem tfInv_append (T : TreeSpec ind) (W : TwinOK ind L) (hs : Shallow ind) (M : TwinMgr F) (life : Int)
    (σ σ' : TState F) (s s' : IndState F) (ch : List (Candle F)) (h : LifeTfInv ind L M life σ s)
    (hok : M.Ok (σ.s ++ ch)) (hrun : s.append ch = .ok s') (hsem : tfStep M life L σ (.append ch) = some σ') :
    LifeTfInv ind L M life σ' s' := by
  by_cases hemp : ch.isEmpty = true
  · have hnil : ch = [] := List.isEmpty_iff.1 hemp
    subst hnil
    simp only [tfStep, List.isEmpty_nil, if_true, Option.some.injEq] at hsem
    subst hsem
    have : s.append [] = s.calculate := by
      unfold IndState.append Manager.append
      simp [bind, Except.bind]
    rw [this] at hrun
    exact tfInv_calculate T W hs M life σ s s' h hrun
  · have hempty : ch.isEmpty = false := by simpa using hemp
    have hne : ch ≠ [] := fun hn => by subst hn; simp at hempty
    simp only [tfStep, hempty, Bool.false_eq_true, if_false] at hsem
    by_cases hg : σ.d = 0 ∨ σ.d + 1 ≤ M.closed σ.s ch
    · rw [if_pos hg] at hsem
      cases htrim : trimCandles (some life) ((M.spec (σ.s ++ ch)).drop σ.d) with
      | error e => rw [htrim] at hsem; cases hsem
      | ok m =>
        rw [htrim] at hsem
        simp only at hsem
        obtain ⟨b, hc, hst⟩ := h.st
        have hed := h.ed
        have hdle := h.dle
        have hdrb : Dressed ((M.spec σ.s).drop σ.e) b := by
          rcases hst with ⟨_, hb⟩ | ⟨_, hb⟩
          · rw [hb]; exact Dressed.rfl' _
          · exact engine_dressed ind _ _ b (Dressed.rfl' _) hb
        have hblen : b.length = (M.spec σ.s).length - σ.e := by
          rw [← hdrb.length_eq, List.length_drop]
        have hPlen : ((M.spec σ.s).take σ.e).length = σ.e := by rw [List.length_take]; omega
        have hdr : Dressed (M.spec σ.s) ((M.spec σ.s).take σ.e ++ b) := by
          have := (Dressed.rfl' ((M.spec σ.s).take σ.e)).append hdrb
          rwa [List.take_append_drop] at this
        obtain ⟨Q, hQ, hkc, hgrow, htasks, hspec, hdrop⟩ :=
          M.append σ.s ch ((M.spec σ.s).take σ.e ++ b) hok hne hdr
        have hdonelen : ((M.spec σ.s).take σ.e ++ b).length = (M.spec σ.s).length := hdr.length_eq.symm
        have hdd : ((M.spec σ.s).take σ.e ++ b).drop σ.d = b.drop (σ.d - σ.e) := by
          rw [drop_append_ge _ _ _ (by omega), hPlen]
        have hecl : σ.e ≤ M.closed σ.s ch := by rcases hg with h0 | h1 <;> omega
        have hdcl : σ.d ≤ M.closed σ.s ch := by rcases hg with h0 | h1 <;> omega
        have hYlen : (M.spec (σ.s ++ ch)).length = M.closed σ.s ch + Q.length := by
          rw [hspec, List.length_append, List.length_take]; omega
        have hdX : Dressed (M.spec (σ.s ++ ch)) (((M.spec σ.s).take σ.e ++ b).take (M.closed σ.s ch) ++ Q) := by
          rw [hspec]; exact (hdr.take _).append (Dressed.rfl' Q)
        have hts : ((((M.spec σ.s).take σ.e ++ b).take (M.closed σ.s ch) ++ Q).drop σ.d).map (·.ts)
            = ((M.spec (σ.s ++ ch)).drop σ.d).map (·.ts) := by
          rw [List.map_drop, List.map_drop, hdX.ts_eq]
        obtain ⟨hm', hm'len, htrimB⟩ := trim_congr_ts life _ _ m hts htrim
        rw [List.length_drop] at hm'len htrimB
        have hd'ge : σ.d ≤ (M.spec (σ.s ++ ch)).length - m.length := by omega
        have hd'eq : σ.d + ((M.spec (σ.s ++ ch)).length - σ.d - m.length)
            = (M.spec (σ.s ++ ch)).length - m.length := by omega
        have htasksB : tasks M.cfg (b.drop (σ.d - σ.e) ++ ch)
            = .ok ((((M.spec σ.s).take σ.e ++ b).take (M.closed σ.s ch) ++ Q).drop σ.d) := by
          rw [← hdd]
          rcases hg with h0 | h1
          · rw [h0]; simpa using htasks
          · exact hdrop σ.d h1
        -- the object
        unfold IndState.append Manager.append at hrun
        rw [h.cfg, hc] at hrun
        simp only [hempty, Bool.false_eq_true, if_false, tasks_withLife M.cfg M.nolife, htasksB, htrimB, bind,
          Except.bind, List.drop_drop, hd'eq] at hrun
        obtain ⟨ht, hcfg, he⟩ := IndState.calculate_ok_engine _ s' hrun
        simp only [h.tree] at he ht
        rw [take_drop_shift _ b Q _ _ (by rw [hPlen]; exact hecl) (by rw [hPlen]; omega), hPlen] at he
        -- the spec of the longer stream, from `e` on
        have hYdrop : ∀ x, σ.e ≤ x → (M.spec (σ.s ++ ch)).drop x
            = (((M.spec σ.s).drop σ.e).take (M.closed σ.s ch - σ.e) ++ Q).drop (x - σ.e) := by
          intro x hx
          rw [hspec]
          conv_lhs => rw [← List.take_append_drop σ.e (M.spec σ.s)]
          rw [take_drop_shift _ _ Q _ _ (by rw [hPlen]; exact hecl) (by rw [hPlen]; exact hx), hPlen]
        have hYe : (M.spec (σ.s ++ ch)).drop σ.e
            = ((M.spec σ.s).drop σ.e).take (M.closed σ.s ch - σ.e) ++ Q := by
          rw [hYdrop σ.e (Nat.le_refl _), Nat.sub_self, List.drop_zero]
        have hcfg' : s'.mgr.cfg = M.cfg.withLife life := by rw [hcfg]
        rcases hst with ⟨hr, hb⟩ | ⟨hr, hb⟩
        · simp only [hr, if_true, Option.some.injEq] at hsem
          subst hsem
          rw [hb, ← hYdrop _ (by omega)] at he
          exact ⟨ht, hcfg', hok, Nat.le_refl _,
            (show (M.spec (σ.s ++ ch)).length - m.length ≤ (M.spec (σ.s ++ ch)).length from Nat.sub_le _ _),
            Or.inl rfl, fun hr' => (by cases hr'),
            ⟨s'.mgr.candles, by simp, Or.inr ⟨rfl, he⟩⟩⟩
        · simp only [hr, Bool.false_eq_true, if_false] at hsem
          by_cases hc2 : (M.spec (σ.s ++ ch)).length - m.length = σ.e ∨
              (M.spec (σ.s ++ ch)).length - m.length + L ≤ M.closed σ.s ch
          · rw [if_pos hc2] at hsem
            have := Option.some.inj hsem; subst this
            have hk' : (M.spec (σ.s ++ ch)).length - m.length - σ.e = 0 ∨
                (M.spec (σ.s ++ ch)).length - m.length - σ.e + L ≤ (b.take (M.closed σ.s ch - σ.e)).length := by
              rw [List.length_take, hblen]
              rcases hc2 with h0 | h1
              · exact Or.inl (by omega)
              · exact Or.inr (by omega)
            obtain ⟨out, hout, hx⟩ := T.fin_take_append W hs _ b Q _ _ _ h.plainV hQ hb hk' he
            rw [← hYe] at hout
            refine ⟨ht, hcfg', hok,
              (show σ.e ≤ (M.spec (σ.s ++ ch)).length - m.length from by omega),
              (show (M.spec (σ.s ++ ch)).length - m.length ≤ (M.spec (σ.s ++ ch)).length from Nat.sub_le _ _), ?_,
              fun hr' => (by cases hr'), ⟨out, hx, Or.inr ⟨rfl, hout⟩⟩⟩
            show (M.spec (σ.s ++ ch)).length - m.length = σ.e ∨
              (M.spec (σ.s ++ ch)).length - m.length + L ≤ (M.spec (σ.s ++ ch)).length
            rcases hc2 with h0 | h1
            · exact Or.inl h0
            · exact Or.inr (by omega)
          · rw [if_neg hc2] at hsem; cases hsem
    · rw [if_neg hg] at hsem; cases hsem

/-- `calculate_index` on a finished-and-popped list (generic form of `LifeInv.calcIndex_fin`) -/
theorem calcIndex_fin_drop (T : TreeSpec ind) (hI : T.IndexOK) (W : TwinOK ind L) (hcost : ind.cost ≤ 16)
    (V b : List (Candle F)) (δ : Nat) (hp : ∀ c ∈ V, Plain c) (hb : engineCalc ind V = .ok b)
    (hk : δ = 0 ∨ δ + L ≤ V.length) (s : IndState F) (htree : s.tree = ind) (hc : s.mgr.candles = b.drop δ)
    (i : Int) (j : Nat)
    (hst : (if i < 0 then i + (s.mgr.candles.length : Int) else i) = (j : Int)) (hj : j < s.mgr.candles.length)
    (hcond : δ = 0 ∨ L ≤ j) : candlesOf (s.calculateIndex i none) = .ok s.mgr.candles := by
  have hlen := engine_len V b hb
  have hrow := (T.engine_plain V b hp).1 hb
  rw [IndState.calculateIndex_candles s i j hst, htree, hc]
  rw [hc, List.length_drop] at hj
  rcases hcond with h0 | hL'
  · rw [h0, List.drop_zero]
    rw [h0] at hj
    by_cases hj0 : j = 0
    · subst hj0
      exact hI.2 _ _ hp hrow (by omega)
    · have := hI.1 _ _ [] hp hrow j (by omega) (by omega)
      simpa using this
  · have hL1 := W.hL
    have hfuel := (engineFuel (F := F) (fuelFor (b.drop δ)) (fuelFor b)).calculateIndex ind (b.drop δ)
      (j : Int) ((j : Int) + 1) (by omega) (by omega) (by unfold fuelFor; omega) (by unfold fuelFor; omega)
    rw [hfuel]
    have hdrop := (engineDropE (F := F) (d := δ) (L := L) W.hL (fuelFor b)).calculateIndex ind b
      ((j : Int) + (δ : Int)) ((j : Int) + (δ : Int) + 1) W.lb (by omega) (by omega) (by omega)
    have e1 : (j : Int) + (δ : Int) - (δ : Int) = (j : Int) := by omega
    have e2 : (j : Int) + (δ : Int) + 1 - (δ : Int) = (j : Int) + 1 := by omega
    rw [e1, e2] at hdrop
    rw [hdrop]
    have := hI.1 _ _ [] hp hrow (j + δ) (by omega) (by omega)
    simp only [List.append_nil, Nat.cast_add] at this
    rw [this]; rfl

theorem tfInv_calcIndex (T : TreeSpec ind) (hI : T.IndexOK) (W : TwinOK ind L) (hcost : ind.cost ≤ 16)
    (M : TwinMgr F) (life : Int) (σ σ' : TState F) (s s' : IndState F) (i : Int) (h : LifeTfInv ind L M life σ s)
    (hadm : ∃ c, pyIndex s.mgr.candles i = .ok c ∧ hasKey s.tree.name c = true)
    (hrun : s.calculateIndex i none = .ok s') (hsem : tfStep M life L σ (.calcIndex i) = some σ') :
    LifeTfInv ind L M life σ' s' := by
  obtain ⟨c, hidx, hkey⟩ := hadm
  obtain ⟨b, hc, ⟨hr, hb⟩ | ⟨hr, hb⟩⟩ := h.st
  · exfalso
    have h0 : σ.d - σ.e = 0 := by rw [h.rawd hr]; omega
    rw [h0, List.drop_zero, hb] at hc
    have hidx' : pyIndex ([] ++ (M.spec σ.s).drop σ.e) i = .ok c := by rw [← hc]; simpa using hidx
    obtain ⟨j, hj, _⟩ := index_in_done s.tree.name [] _ i c h.plainV hidx' hkey
    simp at hj
  · have hlen := engine_len _ b hb
    have hed := h.ed
    have hdle := h.dle
    have hheld : (((M.spec σ.s).length - σ.d : Nat) : Int) = (s.mgr.candles.length : Int) := by
      rw [hc, List.length_drop, hlen, List.length_drop]; congr 1; omega
    simp only [tfStep, hr, Bool.false_eq_true, if_false, hheld] at hsem
    have hidx' : pyIndex (s.mgr.candles ++ []) i = .ok c := by simpa using hidx
    obtain ⟨j, hj, hst⟩ := index_in_done s.tree.name s.mgr.candles [] i c (by simp) hidx' hkey
    simp only [List.append_nil] at hst
    rw [hst] at hsem
    by_cases hcond : σ.d = σ.e ∨ (L : Int) ≤ (j : Int)
    · rw [if_pos hcond] at hsem
      have := Option.some.inj hsem; subst this
      have hcs := calcIndex_fin_drop T hI W hcost _ b (σ.d - σ.e) h.plainV hb h.keepδ s h.tree hc i j hst hj
        (by rcases hcond with h0 | h1
            · exact Or.inl (by omega)
            · exact Or.inr (by omega))
      rw [hrun] at hcs
      have hc' : s'.mgr.candles = s.mgr.candles := by simpa [candlesOf, Except.map] using hcs
      obtain ⟨hft, hfc⟩ := IndState.calculateIndex_ok_frame s s' i hrun
      exact ⟨by rw [hft, h.tree], by rw [hfc, h.cfg], h.ok, h.ed, h.dle, h.keep, h.rawd,
        ⟨b, by rw [hc', hc], Or.inr ⟨hr, hb⟩⟩⟩
    · rw [if_neg hcond] at hsem; cases hsem

/-- **one operation keeps the invariant** -/
theorem tfInv_step (T : TreeSpec ind) (hI : T.IndexOK) (W : TwinOK ind L) (hs : Shallow ind) (hcost : ind.cost ≤ 16)
    (M : TwinMgr F) (life : Int) (σ σ' : TState F) (s s' : IndState F) (op : Op F) (h : LifeTfInv ind L M life σ s)
    (hok : M.Ok (σ.s ++ op.added)) (hadm : op.Admissible s) (hrun : op.run s = .ok s')
    (hsem : tfStep M life L σ op = some σ') : LifeTfInv ind L M life σ' s' := by
  cases op with
  | append ch => exact tfInv_append T W hs M life σ σ' s s' ch h hok hrun hsem
  | calculate =>
    simp only [tfStep, Option.some.injEq] at hsem; subst hsem
    exact tfInv_calculate T W hs M life σ s s' h hrun
  | purge =>
    simp only [tfStep, Option.some.injEq] at hsem; subst hsem
    simp only [Op.run] at hrun
    cases hrun
    exact tfInv_purge T M life σ s h
  | recalculate =>
    simp only [tfStep, Option.some.injEq] at hsem; subst hsem
    exact tfInv_calculate T W hs M life ⟨σ.s, σ.d, σ.d, true⟩ s.purge s' (tfInv_purge T M life σ s h) hrun
  | calcIndex i => exact tfInv_calcIndex T hI W hcost M life σ σ' s s' i h hadm hrun hsem

theorem tfInv_runs (T : TreeSpec ind) (hI : T.IndexOK) (W : TwinOK ind L) (hs : Shallow ind) (hcost : ind.cost ≤ 16)
    (M : TwinMgr F) (life : Int) (ops : List (Op F)) :
    ∀ (σ σ' : TState F) (s s' : IndState F), LifeTfInv ind L M life σ s → M.Ok (σ.s ++ (ops.map Op.added).flatten) →
      Runs s ops s' → tfRunFrom M life L σ ops = some σ' →
      LifeTfInv ind L M life σ' s' ∧ σ'.s = σ.s ++ (ops.map Op.added).flatten := by
  induction ops with
  | nil =>
    intro σ σ' s s' h _ hr hsem
    cases hr
    simp only [tfRunFrom, Option.some.injEq] at hsem; subst hsem
    exact ⟨h, by simp⟩
  | cons op rest ih =>
    intro σ σ' s s' h hok hr hsem
    cases hr with
    | cons hadm hrun hrest =>
      simp only [tfRunFrom] at hsem
      cases h1 : tfStep M life L σ op with
      | none => rw [h1] at hsem; cases hsem
      | some σ₁ =>
        rw [h1] at hsem
        have hs1 := tfStep_s M life L σ σ₁ op h1
        have hok' : M.Ok ((σ.s ++ op.added) ++ (rest.map Op.added).flatten) := by
          simpa [List.append_assoc] using hok
        obtain ⟨hinv, hs'⟩ := ih σ₁ σ' _ s'
          (tfInv_step T hI W hs hcost M life σ σ₁ s _ op h (M.ok_left _ _ hok') hadm hrun h1)
          (by rw [hs1]; exact hok') hrest hsem
        exact ⟨hinv, by rw [hs', hs1]; simp [List.append_assoc]⟩

/-- the freshly constructed object -/
theorem tfInv_init (M : TwinMgr F) (life : Int) (init : List (Candle F)) (hok : M.Ok init) (s₀ : IndState F)
    (h₀ : IndState.init ind (M.cfg.withLife life) init = .ok s₀) :
    ∃ V, trimCandles (some life) (M.spec init) = .ok V ∧
      LifeTfInv ind L M life ⟨init, (M.spec init).length - V.length, (M.spec init).length - V.length, true⟩ s₀ := by
  unfold IndState.init Manager.init at h₀
  rw [tasks_withLife M.cfg M.nolife, M.init init hok] at h₀
  simp only [bind, Except.bind] at h₀
  cases ht : trimCandles (some life) (M.spec init) with
  | error e => rw [ht] at h₀; cases h₀
  | ok V =>
    rw [ht] at h₀
    simp only [pure, Except.pure] at h₀
    cases h₀
    obtain ⟨hV, hVl⟩ := trim_eq_drop life _ V ht
    exact ⟨V, rfl, rfl, rfl, hok, Nat.le_refl _,
      by show (M.spec init).length - V.length ≤ (M.spec init).length; omega, Or.inl rfl, fun _ => rfl,
      ⟨V, by simp, Or.inl ⟨rfl, hV⟩⟩⟩

end generic

/-! ### every shipped class -/

section covered
variable {name : String} {k : Kind F}

/-- **The program invariant on a re-collapsing lifespan manager, every shipped class.** -/
theorem program_invariant_lifeTf (hk : CoveredTreeX name k) (round : Nat) (M : TwinMgr F) (life : Int)
    (init : List (Candle F)) (ops : List (Op F)) (hok : M.Ok (init ++ (ops.map Op.added).flatten)) (s₀ s : IndState F)
    (h₀ : IndState.init (mkTop k name round) (M.cfg.withLife life) init = .ok s₀) (hruns : Runs s₀ ops s)
    (σ : TState F) (hsem : tfSem M life (treeLook k name round) init ops = some σ) :
    LifeTfInv (mkTop k name round) (treeLook k name round) M life σ s ∧ σ.s = init ++ (ops.map Op.added).flatten := by
  obtain ⟨T, _, hI⟩ := hk.specIdx round
  obtain ⟨V, hV, h0⟩ := tfInv_init (ind := mkTop k name round) (L := treeLook k name round) M life init
    (M.ok_left _ _ hok) s₀ h₀
  unfold tfSem at hsem
  rw [hV] at hsem
  exact tfInv_runs T hI (hk.twinOK round) (shallow_mkTop k name round) (cost_mkTop_le k name round) M life ops _ σ s₀ s
    h0 hok hruns hsem

/-- **C14 on a lifespan manager with a re-collapsing timeframe: programs converge to the batch state over the VIRTUAL
collapsed stream** `(M.spec σ.s).drop σ.e`, minus the `σ.d - σ.e` popped candles; an equation in `PyM`. -/
theorem program_converges_lifeTf (hk : CoveredTreeX name k) (round : Nat) (M : TwinMgr F) (life : Int)
    (init : List (Candle F)) (ops : List (Op F)) (hok : M.Ok (init ++ (ops.map Op.added).flatten)) (s₀ s : IndState F)
    (h₀ : IndState.init (mkTop k name round) (M.cfg.withLife life) init = .ok s₀) (hruns : Runs s₀ ops s)
    (σ : TState F) (hsem : tfSem M life (treeLook k name round) init ops = some σ) :
    σ.s = init ++ (ops.map Op.added).flatten ∧ σ.e ≤ σ.d ∧
    s.purge.mgr.candles = (M.spec σ.s).drop σ.d ∧
    candlesOf s.calculate
      = (candlesOf (runIndicator (mkTop k name round) {} ((M.spec σ.s).drop σ.e) [])).map (·.drop (σ.d - σ.e)) := by
  obtain ⟨T, _, _⟩ := hk.specIdx round
  obtain ⟨hinv, hs⟩ := program_invariant_lifeTf hk round M life init ops hok s₀ s h₀ hruns σ hsem
  refine ⟨hs, hinv.ed, hinv.purge_candles T, ?_⟩
  rw [batch_engine]
  exact hinv.final T (hk.twinOK round) (shallow_mkTop k name round)

/-- timeframe + lifespan -/
theorem program_converges_lifespan_tf (hk : CoveredTreeX name k) (round : Nat) (tf : Int) (htf : 0 < tf) (life : Int)
    (init : List (Candle F)) (ops : List (Op F)) (hraw : RawTf (init ++ (ops.map Op.added).flatten)) (s₀ s : IndState F)
    (h₀ : IndState.init (mkTop k name round) { tf := some tf, lifespan := some life } init = .ok s₀)
    (hruns : Runs s₀ ops s) (σ : TState F)
    (hsem : tfSem (TwinMgr.tf F tf htf) life (treeLook k name round) init ops = some σ) :
    σ.s = init ++ (ops.map Op.added).flatten ∧ σ.e ≤ σ.d ∧
    s.purge.mgr.candles = (resample tf σ.s).drop σ.d ∧
    candlesOf s.calculate
      = (candlesOf (runIndicator (mkTop k name round) {} ((resample tf σ.s).drop σ.e) [])).map (·.drop (σ.d - σ.e)) :=
  program_converges_lifeTf hk round (TwinMgr.tf F tf htf) life init ops hraw s₀ s h₀ hruns σ hsem

/-- timeframe + fill + lifespan -/
theorem program_converges_lifespan_tf_fill (hk : CoveredTreeX name k) (round : Nat) (tf : Int) (htf : 0 < tf)
    (life : Int) (init : List (Candle F)) (ops : List (Op F)) (hraw : RawTf (init ++ (ops.map Op.added).flatten))
    (s₀ s : IndState F)
    (h₀ : IndState.init (mkTop k name round) { tf := some tf, fill := true, lifespan := some life } init = .ok s₀)
    (hruns : Runs s₀ ops s) (σ : TState F)
    (hsem : tfSem (TwinMgr.fill F tf htf) life (treeLook k name round) init ops = some σ) :
    σ.s = init ++ (ops.map Op.added).flatten ∧ σ.e ≤ σ.d ∧
    s.purge.mgr.candles = (fillSpec tf σ.s).drop σ.d ∧
    candlesOf s.calculate
      = (candlesOf (runIndicator (mkTop k name round) {} ((fillSpec tf σ.s).drop σ.e) [])).map (·.drop (σ.d - σ.e)) :=
  program_converges_lifeTf hk round (TwinMgr.fill F tf htf) life init ops hraw s₀ s h₀ hruns σ hsem

end covered
end Hex

/-! ### non-vacuity: ATR 3 (look-back 2) on one-minute candles collapsed to 120 s, lifespan 360 s -/

namespace Hex.LifeTf2Demo
open Hex Hex.TfDemo Hex.LifeTfDemo

theorem progT_raw : RawTf (tfInit ++ (progT.map Op.added).flatten) := ⟨by decide, by decide, by decide, by decide⟩
theorem progA_raw : RawTf (tfInit ++ (progA.map Op.added).flatten) := ⟨by decide, by decide, by decide, by decide⟩

set_option maxRecDepth 100000 in
/-- `progT` (appends popping three buckets, `calculate_index(-1)` on popped lists, a `recalculate()` after the first pop,
a `purge()` after the second): the virtual stream starts at bucket 2 (`e = 2`: what the `purge()` held), three buckets are
popped (`d = 3`) -/
theorem progT_sem : tfSem (TwinMgr.tf Int 120 (by decide)) 360 2 tfInit progT
    = some ⟨tfInit ++ (progT.map Op.added).flatten, 2, 3, false⟩ := by decide +kernel

set_option maxRecDepth 100000 in
theorem progT_sem_fill : tfSem (TwinMgr.fill Int 120 (by decide)) 360 2 tfInit progT
    = some ⟨tfInit ++ (progT.map Op.added).flatten, 2, 3, false⟩ := by decide +kernel

set_option maxRecDepth 100000 in
/-- appends only: the virtual stream is the whole collapsed stream (`e = 0`), three buckets popped: C15b for programs -/
theorem progA_sem : tfSem (TwinMgr.tf Int 120 (by decide)) 360 2 tfInit progA
    = some ⟨tfInit ++ (progA.map Op.added).flatten, 0, 3, false⟩ := by decide +kernel

set_option maxRecDepth 100000 in
theorem progA_runs : ∃ s₀ s, IndState.init atr3 { tf := some 120, lifespan := some 360 } tfInit = .ok s₀ ∧
    Runs s₀ progA s :=
  runs_of_runFrom _ _ _ _ (by decide +kernel)

/-- the theorem applied to `progT` (which runs: `LifeTfDemo.progT_runs`) -/
example (s₀ s : IndState Int) (h₀ : IndState.init atr3 { tf := some 120, lifespan := some 360 } tfInit = .ok s₀)
    (hruns : Runs s₀ progT s) :
    s.purge.mgr.candles = (resample 120 (tfInit ++ (progT.map Op.added).flatten)).drop 3 ∧
    candlesOf s.calculate
      = (candlesOf (runIndicator atr3 {} ((resample 120 (tfInit ++ (progT.map Op.added).flatten)).drop 2) [])).map
          (·.drop (3 - 2)) := by
  obtain ⟨_, _, h3, h4⟩ := program_converges_lifespan_tf atrDemoOK 4 120 (by decide) 360 tfInit progT progT_raw s₀ s h₀
    hruns _ (by rw [atrDemo_look]; exact progT_sem)
  exact ⟨h3, h4⟩

example (s₀ s : IndState Int)
    (h₀ : IndState.init atr3 { tf := some 120, fill := true, lifespan := some 360 } tfInit = .ok s₀)
    (hruns : Runs s₀ progT s) :
    candlesOf s.calculate
      = (candlesOf (runIndicator atr3 {} ((fillSpec 120 (tfInit ++ (progT.map Op.added).flatten)).drop 2) [])).map
          (·.drop (3 - 2)) := by
  obtain ⟨_, _, _, h4⟩ := program_converges_lifespan_tf_fill atrDemoOK 4 120 (by decide) 360 tfInit progT progT_raw
    s₀ s h₀ hruns _ (by rw [atrDemo_look]; exact progT_sem_fill)
  exact h4

example (s₀ s : IndState Int) (h₀ : IndState.init atr3 { tf := some 120, lifespan := some 360 } tfInit = .ok s₀)
    (hruns : Runs s₀ progA s) :
    candlesOf s.calculate
      = (candlesOf (runIndicator atr3 {} ((resample 120 (tfInit ++ (progA.map Op.added).flatten)).drop 0) [])).map
          (·.drop (3 - 0)) := by
  obtain ⟨_, _, _, h4⟩ := program_converges_lifespan_tf atrDemoOK 4 120 (by decide) 360 tfInit progA progA_raw s₀ s h₀
    hruns _ (by rw [atrDemo_look]; exact progA_sem)
  exact h4

set_option maxRecDepth 100000 in
/-- … and the numbers: the final ATR column after `progT` is the batch column over the buckets from the second on, minus
one; after `progA` the batch column over all seven buckets minus three -/
example :
    ((runFrom atr3 { tf := some 120, lifespan := some 360 } tfInit progT).bind fun s =>
        (candlesOf s.calculate).toOption.map colA)
      = (candlesOf (runIndicator atr3 {} ((resample 120 (tfInit ++ (progT.map Op.added).flatten)).drop 2) [])).toOption.map
          (fun b => colA (b.drop 1)) ∧
    ((runFrom atr3 { tf := some 120, lifespan := some 360 } tfInit progA).bind fun s =>
        (candlesOf s.calculate).toOption.map colA) = some [some 80, some 83, some 87, some 88] := by decide +kernel

end Hex.LifeTf2Demo

#print axioms Hex.tfInv_append
#print axioms Hex.tfInv_calcIndex
#print axioms Hex.tfInv_runs
#print axioms Hex.program_invariant_lifeTf
#print axioms Hex.program_converges_lifeTf
#print axioms Hex.program_converges_lifespan_tf
#print axioms Hex.program_converges_lifespan_tf_fill
#print axioms Hex.LifeTf2Demo.progT_sem
#print axioms Hex.LifeTf2Demo.progA_sem
#print axioms Hex.LifeTf2Demo.progA_runs

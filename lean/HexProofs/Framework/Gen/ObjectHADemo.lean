import HexProofs.Framework.Gen.ObjectHA
import HexProofs.Framework.Gen.ChainMoreDemo
/-
Non-vacuity of Gen/ObjectHA.lean over the toy carrier `Int`: KC (a composite with three helper series) on the three
Heikin-Ashi configurations over the one-minute candles of `Hex.TfDemo`, and the three-member chain
SMA_2 → RSI_2 → EMA_3 of `Hex.Chain.DemoMore` on Heikin-Ashi managers.  Every live run returns `.ok`, the candles are
CONVERTED (tag set, OHLC different from the raw / collapsed ones), and the theorems apply.
-/
namespace Hex.ObjHADemo
open Hex Hex.IndexDemo Hex.TfDemo Hex.HADemo

def numI : Num Int → Int
  | .int x => x
  | .flt x => x

/-- stamp, [open, high, low, close], converted and holding a `KC_2` reading? – per candle -/
def ohlc (r : PyM (List (Candle Int))) : Option (List (Option Int × List Int × Bool)) :=
  match r with
  | .ok cs => some (cs.map fun c =>
      (c.ts, [numI c.o, numI c.h, numI c.l, numI c.c], c.tag && (dlookup "KC_2" c.inds).isSome))
  | .error _ => none

/-- the schedule: construct over the first minute, append two minutes, an empty chunk, the remaining seven -/
def sched : List (List (Candle Int)) := [min10.drop 1 |>.take 2, [], min10.drop 3]
def schedGap : List (List (Candle Int)) := [gap6.drop 1 |>.take 2, [], gap6.drop 3]

example : min10.take 1 ++ sched.flatten = min10 := by decide
example : gap6.take 1 ++ schedGap.flatten = gap6 := by decide

theorem sched_raw : RawTfHA (min10.take 1 ++ sched.flatten) := by
  rw [show min10.take 1 ++ sched.flatten = min10 by decide]; exact min10_rawHA
theorem schedGap_raw : RawTfHA (gap6.take 1 ++ schedGap.flatten) := by
  rw [show gap6.take 1 ++ schedGap.flatten = gap6 by decide]; exact gap6_rawHA

/-! ### `{ ha := true }` -/

set_option maxRecDepth 100000 in
/-- the live run returns: ten CONVERTED candles (the raw first candle is 10/30/10/20, the raw last one 70/80/10/15),
every one with a KC reading -/
example : ohlc (candlesOf (runIndicator kc { ha := true } (min10.take 1) sched))
    = some [(some 60, [15, 30, 10, 17], true), (some 120, [16, 50, 16, 32], true),
            (some 180, [24, 40, 0, 22], true), (some 240, [23, 70, 10, 37], true),
            (some 300, [30, 90, 30, 70], true), (some 360, [50, 85, 20, 53], true),
            (some 420, [51, 51, 25, 35], true), (some 480, [43, 60, 35, 47], true),
            (some 540, [45, 75, 45, 62], true), (some 600, [53, 80, 10, 43], true)] := by
  decide +kernel

/-- so C01 applies … -/
example (snap : List (Candle Int))
    (hlive : candlesOf (runIndicator kc { ha := true } (min10.take 1) sched) = .ok snap) :
    candlesOf (runIndicator kc { ha := true } (min10.take 1 ++ sched.flatten) []) = .ok snap :=
  C01_trees_ha kcCov 4 (min10.take 1) sched sched_raw.toPlain snap hlive

set_option maxRecDepth 100000 in
/-- … C02 (the earlier snapshot after the first append: three converted candles, ALL of them final) … -/
example : ohlc (candlesOf (runIndicator kc { ha := true } (min10.take 1) (sched.take 1)))
    = some [(some 60, [15, 30, 10, 17], true), (some 120, [16, 50, 16, 32], true),
            (some 180, [24, 40, 0, 22], true)] := by
  decide +kernel

example (snap₁ snap₂ : List (Candle Int))
    (h₁ : candlesOf (runIndicator kc { ha := true } (min10.take 1) (sched.take 1)) = .ok snap₁)
    (h₂ : candlesOf (runIndicator kc { ha := true } (min10.take 1) (sched.take 1 ++ sched.drop 1)) = .ok snap₂) :
    snap₁ <+: snap₂ :=
  C02_trees_ha kcCov 4 (min10.take 1) (sched.take 1) (sched.drop 1)
    (by rw [List.take_append_drop]; exact sched_raw.toPlain) snap₁ snap₂ h₁ h₂

/-- … and batch truncation -/
example (out : List (Candle Int)) (h : candlesOf (runIndicator kc { ha := true } min10 []) = .ok out) :
    candlesOf (runIndicator kc { ha := true } (min10.take 4) []) = .ok (out.take 4) :=
  batch_truncation_trees_ha kcCov 4 min10 out min10_rawHA.toPlain h 4

/-! ### `{ tf := some 120, ha := true }` -/

set_option maxRecDepth 100000 in
/-- five converted 120-second buckets (the collapsed unconverted ones are 10/50/10/40, 40/70/0/60, 60/90/20/30,
30/60/25/55, 55/80/10/15) -/
example : ohlc (candlesOf (runIndicator kc { tf := some 120, ha := true } (min10.take 1) sched))
    = some [(some 120, [25, 50, 10, 27], true), (some 240, [26, 70, 0, 42], true),
            (some 360, [34, 90, 20, 50], true), (some 480, [42, 60, 25, 42], true),
            (some 600, [42, 80, 10, 40], true)] := by
  decide +kernel

set_option maxRecDepth 100000 in
/-- the earlier snapshot: the bucket 240 is still forming (high 40, close 22; later 70, 42) – it is NOT final, the
bucket 120 is -/
example : ohlc (candlesOf (runIndicator kc { tf := some 120, ha := true } (min10.take 1) (sched.take 1)))
    = some [(some 120, [25, 50, 10, 27], true), (some 240, [26, 40, 0, 22], true)] := by
  decide +kernel

example (snap : List (Candle Int))
    (hlive : candlesOf (runIndicator kc { tf := some 120, ha := true } (min10.take 1) sched) = .ok snap) :
    candlesOf (runIndicator kc { tf := some 120, ha := true } (min10.take 1 ++ sched.flatten) []) = .ok snap :=
  C01_trees_tfHA kcCov 4 120 (by decide) (min10.take 1) sched sched_raw snap hlive

example (snap₁ snap₂ : List (Candle Int))
    (h₁ : candlesOf (runIndicator kc { tf := some 120, ha := true } (min10.take 1) (sched.take 1)) = .ok snap₁)
    (h₂ : candlesOf (runIndicator kc { tf := some 120, ha := true } (min10.take 1) (sched.take 1 ++ sched.drop 1))
      = .ok snap₂) :
    snap₁.dropLast <+: snap₂ :=
  C02_trees_tfHA kcCov 4 120 (by decide) (min10.take 1) (sched.take 1) (sched.drop 1)
    (by rw [List.take_append_drop]; exact sched_raw) snap₁ snap₂ h₁ h₂

/-- the configuration-style statements -/
example (snap : List (Candle Int))
    (hlive : candlesOf (runIndicator kc { tf := some 120, fill := false && (some (120 : Int)).isSome, ha := true }
      (min10.take 1) sched) = .ok snap) :
    candlesOf (runIndicator kc { tf := some 120, fill := false && (some (120 : Int)).isSome, ha := true }
      (min10.take 1 ++ sched.flatten) []) = .ok snap :=
  C01_trees_haCfg kcCov 4 (some 120) (by intro t h; cases h; decide) false (min10.take 1) sched sched_raw snap hlive

example (snap₁ snap₂ : List (Candle Int))
    (h₁ : candlesOf (runIndicator kc { tf := some 120, fill := false && (some (120 : Int)).isSome, ha := true }
      (min10.take 1) (sched.take 1)) = .ok snap₁)
    (h₂ : candlesOf (runIndicator kc { tf := some 120, fill := false && (some (120 : Int)).isSome, ha := true }
      (min10.take 1) (sched.take 1 ++ sched.drop 1)) = .ok snap₂) :
    snap₁.dropLast <+: snap₂ :=
  C02_trees_haCfg kcCov 4 (some 120) (by intro t h; cases h; decide) false (min10.take 1) (sched.take 1)
    (sched.drop 1) (by rw [List.take_append_drop]; exact sched_raw) snap₁ snap₂ h₁ h₂

/-! ### `{ tf := some 120, fill := true, ha := true }` over the stream with a gap -/

set_option maxRecDepth 100000 in
/-- five converted buckets; the bucket 360 is a converted FILL candle -/
example : ohlc (candlesOf (runIndicator kc { tf := some 120, fill := true, ha := true } (gap6.take 1) schedGap))
    = some [(some 120, [25, 50, 10, 27], true), (some 240, [26, 40, 0, 22], true),
            (some 360, [24, 24, 10, 10], true), (some 480, [17, 60, 17, 47], true),
            (some 600, [32, 80, 10, 40], true)] := by
  decide +kernel

example (snap : List (Candle Int))
    (hlive : candlesOf (runIndicator kc { tf := some 120, fill := true, ha := true } (gap6.take 1) schedGap)
      = .ok snap) :
    candlesOf (runIndicator kc { tf := some 120, fill := true, ha := true } (gap6.take 1 ++ schedGap.flatten) [])
      = .ok snap :=
  C01_trees_fillHA kcCov 4 120 (by decide) (gap6.take 1) schedGap schedGap_raw snap hlive

example (snap₁ snap₂ : List (Candle Int))
    (h₁ : candlesOf (runIndicator kc { tf := some 120, fill := true, ha := true } (gap6.take 1) (schedGap.take 1))
      = .ok snap₁)
    (h₂ : candlesOf (runIndicator kc { tf := some 120, fill := true, ha := true } (gap6.take 1)
      (schedGap.take 1 ++ schedGap.drop 1)) = .ok snap₂) :
    snap₁.dropLast <+: snap₂ :=
  C02_trees_fillHA kcCov 4 120 (by decide) (gap6.take 1) (schedGap.take 1) (schedGap.drop 1)
    (by rw [List.take_append_drop]; exact schedGap_raw) snap₁ snap₂ h₁ h₂

/-! ### a chain of three members on Heikin-Ashi managers -/

open Hex.Chain Hex.Chain.DemoMore

theorem demo6_rawHA : RawTfHA Hex.Chain.DemoMore.demo6 :=
  ⟨⟨by decide, by decide, by decide, by decide⟩, by decide⟩

def chunks6 : List (List (Candle Int)) := [Hex.Chain.DemoMore.demo6.take 3, Hex.Chain.DemoMore.demo6.drop 3]

theorem chunks6_raw : RawTfHA ([] ++ chunks6.flatten) := by
  rw [show [] ++ chunks6.flatten = Hex.Chain.DemoMore.demo6 by decide]; exact demo6_rawHA

set_option maxRecDepth 100000 in
/-- SMA_2 → RSI_2 over "SMA_2" → EMA_3 over "RSI_2" on `{ ha := true }`: the live run returns, SMA_2 reads the CONVERTED
closes (on the raw candles it is 3, 3, 4, 8, 7), EMA_3 starts at index 5 -/
example : numColumn "SMA_2" none (chainRun [tSMA, tRSIs, tEMA3] { ha := true } none [] chunks6)
    = some [none, some 2, some 3, some 3, some 6, some 7] := by decide +kernel

set_option maxRecDepth 100000 in
example : (numColumn "EMA_3" none (chainRun [tSMA, tRSIs, tEMA3] { ha := true } none [] chunks6)).map
    (·.map Option.isSome) = some [false, false, false, false, false, true] := by decide +kernel

set_option maxRecDepth 100000 in
/-- … and on `{ tf := some 120, ha := true }`: three converted buckets -/
example : numColumn "SMA_2" none (chainRun [tSMA, tRSIs, tEMA3] { tf := some 120, ha := true } none [] chunks6)
    = some [none, some 3, some 5] := by decide +kernel

example (H : Hexital Int) (hlive : chainRun [tSMA, tRSIs, tEMA3] { ha := true } none [] chunks6 = .ok H) :
    ∃ Hb, chainRun [tSMA, tRSIs, tEMA3] { ha := true } none ([] ++ chunks6.flatten) [] = .ok Hb ∧
      Hb.managers = H.managers := by
  obtain ⟨_, Hb, _, hb, hm, _⟩ := C01_chain_more_ha demoChain3 none [] chunks6 chunks6_raw.toPlain H hlive
  exact ⟨Hb, hb, hm⟩

example (tf : Option Int) (htf : ∀ t, tf = some t → 0 < t) (fill : Bool) (H : Hexital Int)
    (hlive : chainRun [tSMA, tRSIs, tEMA3] { tf := tf, fill := fill && tf.isSome, ha := true } none [] chunks6
      = .ok H) :
    ∃ Hb, chainRun [tSMA, tRSIs, tEMA3] { tf := tf, fill := fill && tf.isSome, ha := true } none
        ([] ++ chunks6.flatten) [] = .ok Hb ∧ Hb.managers = H.managers := by
  obtain ⟨Hb, hb, hm, _⟩ := C01_chain_more_haCfg demoChain3 tf htf fill none [] chunks6 chunks6_raw H hlive
  exact ⟨Hb, hb, hm⟩

example (tf : Option Int) (htf : ∀ t, tf = some t → 0 < t) (fill : Bool) (H₁ H₂ : Hexital Int)
    (h₁ : chainRun [tSMA, tRSIs, tEMA3] { tf := tf, fill := fill && tf.isSome, ha := true } none []
      (chunks6.take 1) = .ok H₁)
    (h₂ : chainRun [tSMA, tRSIs, tEMA3] { tf := tf, fill := fill && tf.isSome, ha := true } none []
      (chunks6.take 1 ++ chunks6.drop 1) = .ok H₂) :
    ∃ cs₁ cs₂,
      H₁.managers = [(defaultKey, { cfg := { tf := tf, fill := fill && tf.isSome, ha := true }, candles := cs₁ })] ∧
      H₂.managers = [(defaultKey, { cfg := { tf := tf, fill := fill && tf.isSome, ha := true }, candles := cs₂ })] ∧
      closedOf tf cs₁ <+: cs₂ :=
  C02_chain_more_haCfg demoChain3 tf htf fill none [] (chunks6.take 1) (chunks6.drop 1)
    (by rw [List.take_append_drop]; exact chunks6_raw) H₁ H₂ h₁ h₂

end Hex.ObjHADemo

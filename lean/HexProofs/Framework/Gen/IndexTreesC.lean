import HexProofs.Framework.Gen.IndexCore
/-
`calculate_index(i)` reproduces the batch state – HMA: two prior WMA helpers, then the own step,
whose `Managed.set_reading` of `raw_HMA` drives the non-prior smoothing WMA.  At an index `i ≥ 1`
that is one unconditional step of the smoothing WMA; at index 0 `Managed.set_reading` would run the
smoothing WMA's full `calculate()` – but with `period ≥ 2` candle 0 carries no `<name>_WMA` reading
and the own step returns before it gets there.
-/
namespace Hex
set_option linter.unusedSectionVars false
set_option linter.unusedSimpArgs false
variable {F : Type} [PyF F]

section hma
variable (name : String) (round : Nat) (p : Int) (input : String)

/-- the engine's `calculate_index(k, k + 1)` on the HMA tree, `k ≥ 1` -/
theorem calculateIndex_hma (fuel : Nat) (cs : List (Candle F)) (hf : cs.length + 10 ≤ fuel) (k : Nat)
    (hk : 1 ≤ k) :
    calculateIndex fuel (hmaP (F := F) name round p input) cs k (k + 1) = (do
      let c₂ ← (do let c₁ ← stepLeaf (hmaW name p input) cs k; stepLeaf (hmaWh name p input) c₁ k)
      stepWith (hmaP name round p input) (hmaC name p) c₂ k) := by
  obtain ⟨f, rfl⟩ : ∃ f, fuel = f + 4 := ⟨fuel - 4, by omega⟩
  rw [calculateIndex_top_two _ _ _ (hmaP_subs name round p input) rfl rfl f cs k (by omega) (by omega),
    calculateIndex_leaf_single (hmaW name p input) ⟨rfl, rfl, rfl⟩ _ cs k (by omega)]
  simp only [bind, Except.bind]
  cases h1 : stepLeaf (hmaW (F := F) name p input) cs k with
  | error e => rfl
  | ok c₁ =>
    simp only
    have l1 := stepLeaf_length _ cs c₁ _ h1
    rw [calculateIndex_leaf_single (hmaWh name p input) ⟨rfl, rfl, rfl⟩ _ c₁ k (by omega)]
    cases h2 : stepLeaf (hmaWh (F := F) name p input) c₁ k with
    | error e => rfl
    | ok c₂ =>
      simp only
      have l2 := stepLeaf_length _ c₁ c₂ _ h2
      rw [ownStep_with _ _ _ c₂ k (calcReading_hma name round p input (f + 3) c₂ k (by omega))]
      unfold stepWith
      rw [hmaCFull_eq name p c₂ (k : Int) (fun h0 => by omega)]

/-- … and at index 0: the helpers' full passes, then the own step at 0 (with its fallback) -/
theorem calculateIndex_hma_zero (fuel : Nat) (cs : List (Candle F)) (hf : cs.length + 12 ≤ fuel) :
    calculateIndex fuel (hmaP (F := F) name round p input) cs 0 (0 + 1) = (do
      let c₂ ← (do let c₁ ← leafCalc (hmaW name p input) cs; leafCalc (hmaWh name p input) c₁)
      stepWith (hmaP name round p input) (hmaCFull name p) c₂ 0) := by
  obtain ⟨f, rfl⟩ : ∃ f, fuel = f + 4 := ⟨fuel - 4, by omega⟩
  rw [calculateIndex_top_two_zero _ _ _ (hmaP_subs name round p input) rfl rfl f cs,
    calculate_leaf (hmaW name p input) ⟨rfl, rfl, rfl⟩ _ cs (by omega)]
  simp only [bind, Except.bind]
  cases h1 : leafCalc (hmaW (F := F) name p input) cs with
  | error e => rfl
  | ok c₁ =>
    simp only
    have l1 := leafCalc_length _ cs c₁ h1
    rw [calculate_leaf (hmaWh name p input) ⟨rfl, rfl, rfl⟩ _ c₁ (by omega)]
    cases h2 : leafCalc (hmaWh (F := F) name p input) c₁ with
    | error e => rfl
    | ok c₂ =>
      simp only
      have l2 := leafCalc_length _ c₁ c₂ h2
      have := calcReading_hma name round p input (f + 3) c₂ 0 (by omega)
      simp only [Nat.cast_zero] at this
      exact ownStep_with _ _ _ c₂ 0 this

variable (hp : 2 ≤ p) (hn : HmaNames name) (hin : NoDot input ∧ input ∈ Candle.attrNames)

theorem hma_ok1 : TComp.SeqOK (hmaCompW (F := F) name p input hp hn hin) (hmaCompWh name p input hp hn hin) := by
  constructor <;> intro k hk <;>
    simp [hmaCompW, hmaCompWh, leafComp, wmaT, hmaW_name, hmaWh_name] at hk ⊢ <;>
    subst hk <;> exact hn.WH

theorem hma_ok2 : TComp.SeqOK (hmaCompX (F := F) name p input hp hn hin) (hmaCompP name round p input) := by
  constructor <;> intro k hk <;>
    simp [hmaCompX, TComp.seq, hmaCompW, hmaCompWh, hmaCompP, leafComp, wmaT, hmaW_name, hmaWh_name] at hk ⊢ <;>
    rcases hk with rfl | rfl <;>
    simp [hn.nW.symm, hn.nH.symm, hn.WR, hn.WS, hn.HR, hn.HS]

include hp hn in
/-- the own step (without the index-0 fallback) on a finished candle is the row step of its component -/
theorem hma_reproP : TComp.Repro (hmaCompP (F := F) name round p input) (fun _ _ => True)
    (stepWith (hmaP name round p input) (hmaC name p)) := by
  refine TComp.repro_of_step (hmaCompP_law name round p input hn (by omega)) _ _ ?_
  intro H c rest' hset _ _
  rw [TComp.step_shape]
  exact stepWith_hmaC name round p input H c rest' (isqrt_pos p (by omega)) hset.2

include hp hn in
/-- … and at index 0 WITH the fallback, on a candle that carries no WMA reading -/
theorem hma_repro0P : TComp.Repro0 (hmaCompP (F := F) name round p input)
    (fun c => (readingByCandle c (name ++ "_WMA")).isNone = true)
    (fun cs => stepWith (hmaP name round p input) (hmaCFull name p) cs 0) := by
  intro c rest hset hd hpre
  have heq : stepWith (hmaP (F := F) name round p input) (hmaCFull name p) (c :: rest) 0
      = stepWith (hmaP name round p input) (hmaC name p) (c :: rest) 0 := by
    unfold stepWith
    rw [hmaCFull_eq name p (c :: rest) 0]
    intro _ w hw
    have hc : pyIndex (c :: rest) (0 : Int) = .ok c := by
      have := pyIndex_append_cons ([] : List (Candle F)) c rest
      simpa using this
    unfold Ctx.reading at hw
    simp only [Option.getD_none, hc, bind, Except.bind, pure, Except.pure] at hw
    cases hw
    exact hpre
  show stepWith (hmaP name round p input) (hmaCFull name p) (c :: rest) 0 = .ok (c :: rest)
  rw [heq]
  have := hma_reproP name round p input hp hn [] c rest
    (hmaCompP_law (F := F) name round p input hn (by omega)).settled_nil hd trivial
  simpa using this

/-- candle 0 of a finished run carries no WMA reading (`period ≥ 2`) -/
theorem hma_pre0 (c0 : Candle F) (z : (hmaComp (F := F) name round p input hp hn hin).ω) (hc0 : Plain c0)
    (hv : (hmaComp (F := F) name round p input hp hn hin).val [] c0 = .ok z) :
    (readingByCandle ((hmaComp (F := F) name round p input hp hn hin).app z c0) (name ++ "_WMA")).isNone = true := by
  obtain ⟨⟨w, wh⟩, q⟩ := z
  obtain ⟨hx, _⟩ := TComp.seq_val_ok (X := hmaCompX (F := F) name p input hp hn hin)
    (Q := hmaCompP name round p input) [] c0 (w, wh) q hv
  obtain ⟨hw, _⟩ := TComp.seq_val_ok (X := hmaCompW (F := F) name p input hp hn hin)
    (Q := hmaCompWh name p input hp hn hin) [] c0 w wh hx
  have hw0 : valOf (hmaW (F := F) name p input) [] c0 = .ok .none := by
    show Calc.wma (Ctx.mk ([] ++ [c0]) (([] : List (Candle F)).length : Int) (name ++ "_WMA")) p input = _
    simp only [List.length_nil, Nat.cast_zero]
    exact wma_zero _ _ p input hp
  have hwn : w = Val.none := by
    have : valOf (hmaW (F := F) name p input) [] c0 = .ok w := hw
    rw [hw0] at this
    exact (Except.ok.inj this).symm
  have key : ∀ (q : Option (Val F × Val F) × Val F) (wh w : Val F), w = Val.none →
      (readingByCandle (hmaApp name round q (decOf (hmaWh name p input) wh (decOf (hmaW name p input) w c0)))
        (name ++ "_WMA")).isNone = true := by
    intro q wh w hwn
    rw [rbc_hmaApp name round (name ++ "_WMA") (indep_key _ _ hn.kW hn.nW) (indep_key _ _ hn.kW hn.WR.symm)
      (indep_key _ _ hn.kW hn.WS.symm)]
    unfold decOf
    rw [hmaWh_name, hmaW_name, indep_key _ _ hn.kW hn.WH.symm, readingByCandle_setKey _ _ hn.kW _ _ hc0]
    exact ((Val.roundBy_isNone _ _).trans (congrArg Val.isNone hwn)).trans rfl
  exact key q wh w hwn

/-- **HMA: `calculate_index(j)`, `1 ≤ j`, reproduces the batch state** -/
theorem hma_index_reproduces (raw done rest : List (Candle F)) (hpl : ∀ c ∈ raw, Plain c)
    (h : Gen.rowMajor (hmaTree (F := F) name round p input hp hn hin).S raw = .ok done)
    (j : Nat) (hj : j < done.length) (h1 : 1 ≤ j) (fuel : Nat) (hf : (done ++ rest).length + 10 ≤ fuel) :
    calculateIndex fuel (hmaP (F := F) name round p input) (done ++ rest) j (j + 1) = .ok (done ++ rest) := by
  rw [calculateIndex_hma name round p input fuel _ hf j h1]
  have hr := TComp.repro_seq (hmaCompP_law name round p input hn (by omega)) (hma_ok2 name round p input hp hn hin)
    (TComp.repro_seq (leafComp_law _ _) (hma_ok1 name p input hp hn hin)
      (repro_leaf (hmaW (F := F) name p input) _) (repro_leaf (hmaWh (F := F) name p input) _))
    (hma_reproP name round p input hp hn)
  exact TComp.index_reproduces (hmaComp_law name round p input hp hn hin) _ hr (fun _ _ _ _ _ => trivial)
    raw done rest hpl h j hj

/-- **HMA: `calculate_index(0)` reproduces the batch state** -/
theorem hma_index0_reproduces (raw done : List (Candle F)) (hpl : ∀ c ∈ raw, Plain c)
    (h : Gen.rowMajor (hmaTree (F := F) name round p input hp hn hin).S raw = .ok done)
    (hj : 0 < done.length) (fuel : Nat) (hf : done.length + 12 ≤ fuel) :
    calculateIndex fuel (hmaP (F := F) name round p input) done 0 (0 + 1) = .ok done := by
  rw [calculateIndex_hma_zero name round p input fuel done hf]
  have hr := TComp.repro0_seq (hmaCompP_law (F := F) name round p input hn (by omega))
    (hma_ok2 name round p input hp hn hin)
    (TComp.repro0_pass (hmaCompX_law (F := F) name p input hp hn hin) _)
    (hma_repro0P name round p input hp hn)
  exact TComp.index0_reproduces (hmaComp_law name round p input hp hn hin) _ hr
    (hma_pre0 name round p input hp hn hin) raw done hpl h hj

end hma
end Hex

import HexProofs.Framework.Gen.IndexCore
/-
`calculate_index(i)` reproduces the batch state – the trees whose own step DRIVES managed children
(`Managed.set_reading` with non-prior sub-indicators, `managed_indicators[..].calculate_index(i)`):
TSI, STOCH, ADX, MACD (HMA: IndexTreesC).
-/
namespace Hex
set_option linter.unusedSectionVars false
set_option linter.unusedSimpArgs false
variable {F : Type} [PyF F]

/-! ### TSI: no sub-indicators; the own step is the whole tree -/

section tsi
variable (name : String) (round : Nat) (p smooth : Int) (input : String)

/-- the engine's `calculate_index(i, i + 1)` on the TSI tree, EVERY index: the node's own step (its
guard puts `Managed.set_reading` at `i ≥ 1`, so the index-0 fallback of the helpers is never taken) -/
theorem calculateIndex_tsi (fuel : Nat) (hf : 11 ≤ fuel) (cs : List (Candle F)) (i : Int) :
    calculateIndex fuel (tsiP (F := F) name round p smooth input) cs i (i + 1)
      = stepWith (tsiP name round p smooth input) (tsiC name p smooth input) cs i := by
  obtain ⟨f, rfl⟩ : ∃ f, fuel = f + 2 := ⟨fuel - 2, by omega⟩
  rw [calculateIndex_noSubs _ (tsiP_subs name round p smooth input) f cs i]
  exact ownStep_with _ _ _ cs i (calcReading_tsi name round p smooth input (f + 1) (by omega) cs i)

variable (hp : 1 ≤ p) (hs : 1 ≤ smooth) (hn : TsiNames name) (hin : NoDot input ∧ input ∈ Candle.attrNames)

/-- **TSI: `calculate_index(j)` reproduces the batch state at EVERY index `0 ≤ j`** (raw candles may
follow the finished part) -/
theorem tsi_index_reproduces (raw done rest : List (Candle F)) (hpl : ∀ c ∈ raw, Plain c)
    (h : Gen.rowMajor (tsiTree (F := F) name round p smooth input hp hs hn hin).S raw = .ok done)
    (j : Nat) (hj : j < done.length) (fuel : Nat) (hf : 11 ≤ fuel) :
    calculateIndex fuel (tsiP (F := F) name round p smooth input) (done ++ rest) j (j + 1)
      = .ok (done ++ rest) := by
  rw [calculateIndex_tsi name round p smooth input fuel hf]
  have L := tsiCompP_law (F := F) name round p smooth input hp hs hn hin
  have hr : TComp.Repro (tsiCompP (F := F) name round p smooth input hp hs hn) (fun _ _ => True)
      (stepWith (tsiP name round p smooth input) (tsiC name p smooth input)) := by
    refine TComp.repro_of_step L _ _ ?_
    intro H c rest' _ _ _
    rw [TComp.step_shape]
    exact stepWith_tsi name round p smooth input hp hs hn H c rest'
  exact TComp.index_reproduces L _ hr (fun _ _ _ _ _ => trivial) raw done rest hpl h j hj

end tsi

/-! ### STOCH: no sub-indicators -/

section stoch
variable (name : String) (round : Nat) (p slow smoothK : Int) (input : String)

theorem calculateIndex_stoch (hp : 2 ≤ p) (fuel : Nat) (hf : 9 ≤ fuel) (cs : List (Candle F)) (i : Int) :
    calculateIndex fuel (stochP (F := F) name round p slow smoothK input) cs i (i + 1)
      = stepWith (stochP name round p slow smoothK input) (stochC name p slow smoothK input) cs i := by
  obtain ⟨f, rfl⟩ : ∃ f, fuel = (f + 6) + 2 := ⟨fuel - 8, by omega⟩
  rw [calculateIndex_noSubs _ (stochP_subs name round p slow smoothK input) (f + 6) cs i]
  exact ownStep_with _ _ _ cs i (calcReading_stoch name round p slow smoothK input hp f cs i)

variable (hp : 2 ≤ p) (hs : 1 ≤ slow) (hk : 1 ≤ smoothK) (hn : StochNames name)
  (hin : NoDot input ∧ input ∈ Candle.attrNames)

/-- a finished STOCH candle carries none of the three helper keys in `.indicators` -/
theorem stoch_done_inds (H : List (Candle F)) (c : Candle F)
    (hd : (stochCompP (F := F) name round p slow smoothK input).Done H c) (k : String)
    (hk1 : k ∈ [name ++ "_data", name ++ "_k", name ++ "_d"]) (hne : name ≠ k) :
    dlookup k c.inds = none := by
  obtain ⟨c0, z, hraw, _, hsim⟩ := hd
  have hmem : k ∈ (stochCompP (F := F) name round p slow smoothK input).rkeys ++
      (stochCompP (F := F) name round p slow smoothK input).wkeys := by
    simp only [stochCompP, List.mem_append]
    exact Or.inl hk1
  rw [(hsim.2 k hmem).1]
  refine (inds_stochApp name round k hne z c0).trans ?_
  simp only [List.mem_cons, List.mem_nil_iff, or_false] at hk1
  rcases hk1 with rfl | rfl | rfl
  · exact inds_of_noKey _ c0 hraw.2.1
  · exact inds_of_noKey _ c0 hraw.2.2.1
  · exact inds_of_noKey _ c0 hraw.2.2.2

/-- **STOCH (`period ≥ 2`): `calculate_index(j)` reproduces the batch state at EVERY index** -/
theorem stoch_index_reproduces (raw done rest : List (Candle F)) (hpl : ∀ c ∈ raw, Plain c)
    (h : Gen.rowMajor (stochTree (F := F) name round p slow smoothK input hp hs hk hn hin).S raw = .ok done)
    (j : Nat) (hj : j < done.length) (fuel : Nat) (hf : 9 ≤ fuel) :
    calculateIndex fuel (stochP (F := F) name round p slow smoothK input) (done ++ rest) j (j + 1)
      = .ok (done ++ rest) := by
  rw [calculateIndex_stoch name round p slow smoothK input hp fuel hf]
  have L := stochCompP_law (F := F) name round p slow smoothK input hn (by omega) hs hk hin
  have hr : TComp.Repro (stochCompP (F := F) name round p slow smoothK input) (fun _ _ => True)
      (stepWith (stochP name round p slow smoothK input) (stochC name p slow smoothK input)) := by
    refine TComp.repro_of_step L _ _ ?_
    intro H c rest' hset hd _
    rw [TComp.step_shape]
    exact stepWith_stochC name round p slow smoothK input hn (by omega) hs hk H c rest' hset.2.1 hset.2.2
      (stoch_done_inds name round p slow smoothK input H c hd _ (by simp) hn.nD)
      (stoch_done_inds name round p slow smoothK input H c hd _ (by simp) hn.nK)
      (stoch_done_inds name round p slow smoothK input H c hd _ (by simp) hn.nd)
  exact TComp.index_reproduces L _ hr (fun _ _ _ _ _ => trivial) raw done rest hpl h j hj

end stoch

/-! ### ADX: the prior ATR helper tree, then the own step -/

section adx
variable (name : String) (round : Nat) (p signal : Int)

theorem calculateIndex_adx (fuel : Nat) (hf : 10 ≤ fuel) (cs : List (Candle F)) (i : Int) (hi : i ≠ 0)
    (hi1 : i + 1 ≠ 0) :
    calculateIndex fuel (adxP (F := F) name round p signal) cs i (i + 1) = (do
      let c₂ ← (do let c₁ ← stepLeaf (adxTr name) cs i; stepLeaf (adxA name p) c₁ i)
      stepWith (adxP name round p signal) (adxC name p signal) c₂ i) := by
  obtain ⟨f, rfl⟩ : ∃ f, fuel = (f + 5) + 2 + 3 := ⟨fuel - 10, by omega⟩
  rw [show f + 5 + 2 + 3 = (f + 7) + 3 from rfl,
    calculateIndex_top_one _ _ (adxP_subs name round p signal) rfl (f + 7) cs i hi hi1,
    calculateIndex_one_prior (adxA name p) (adxTr name) (adxA_subs name p) rfl ⟨rfl, rfl, rfl⟩ rfl _ (by omega) cs i hi hi1]
  simp only [bind, Except.bind]
  cases stepLeaf (adxTr (F := F) name) cs i with
  | error e => rfl
  | ok c₁ =>
    simp only
    cases stepLeaf (adxA (F := F) name p) c₁ i with
    | error e => rfl
    | ok c₂ =>
      simp only
      exact ownStep_with _ _ _ c₂ i (adxC_calc name round p signal (f + 2) c₂ i)

theorem calculateIndex_adx_zero (fuel : Nat) (cs : List (Candle F)) (hf : cs.length + 12 ≤ fuel) :
    calculateIndex fuel (adxP (F := F) name round p signal) cs 0 (0 + 1) = (do
      let c₂ ← (do let c₁ ← leafCalc (adxTr name) cs; leafCalc (adxA name p) c₁)
      stepWith (adxP name round p signal) (adxC name p signal) c₂ 0) := by
  obtain ⟨f, rfl⟩ : ∃ f, fuel = (f + 7) + 3 := ⟨fuel - 10, by omega⟩
  rw [calculateIndex_top_one_zero _ _ (adxP_subs name round p signal) rfl (f + 7) cs,
    calculate_one_prior (adxA name p) (adxTr name) (adxA_subs name p) rfl ⟨rfl, rfl, rfl⟩ rfl rfl _ cs (by omega)]
  simp only [bind, Except.bind]
  cases leafCalc (adxTr (F := F) name) cs with
  | error e => rfl
  | ok c₁ =>
    simp only
    cases leafCalc (adxA (F := F) name p) c₁ with
    | error e => rfl
    | ok c₂ =>
      simp only
      exact ownStep_with _ _ _ c₂ 0 (adxC_calc name round p signal (f + 2) c₂ 0)

variable (hp : 1 ≤ p) (hs : 1 ≤ signal) (hn : AdxNames name)

theorem adx_ok1 : TComp.SeqOK (adxCompT (F := F) name) (adxCompA name p hp hn) := by
  constructor <;> intro k hk <;>
    simp [adxCompT, adxCompA, leafComp, trT, atrOwnT, adxTr_name, adxA_name] at hk ⊢ <;>
    rintro rfl <;>
    simp [hn.AT] at hk

theorem adx_ok2 : TComp.SeqOK (adxCompX (F := F) name p hp hn) (adxCompP name round p signal) := by
  constructor
  · intro k hk
    simp [adxCompX, TComp.seq, adxCompT, adxCompA, adxCompP, adxWKeys, leafComp, trT, atrOwnT, adxTr_name,
      adxA_name] at hk ⊢
    rcases hk with rfl | rfl | rfl <;>
      exact ⟨by first | exact hn.AD | exact hn.TD, by first | exact hn.AP | exact hn.TP,
        by first | exact hn.AG | exact hn.TG, by first | exact hn.AX | exact hn.TX,
        by first | exact hn.nA.symm | exact hn.nT.symm⟩
  · intro k hk
    simp [adxCompX, TComp.seq, adxCompT, adxCompA, adxCompP, adxWKeys, leafComp, trT, atrOwnT, adxTr_name,
      adxA_name] at hk ⊢
    rcases hk with rfl | rfl <;>
      exact ⟨by first | exact hn.AD | exact hn.TD, by first | exact hn.AP | exact hn.TP,
        by first | exact hn.AG | exact hn.TG, by first | exact hn.AX | exact hn.TX,
        by first | exact hn.nA.symm | exact hn.nT.symm⟩

include hp hs hn in
theorem adx_reproP : TComp.Repro (adxCompP (F := F) name round p signal) (fun _ _ => True)
    (stepWith (adxP name round p signal) (adxC name p signal)) := by
  refine TComp.repro_of_step (adxCompP_law name round p signal hn hp hs) _ _ ?_
  intro H c rest' _ _ _
  rw [TComp.step_shape]
  exact stepWith_adxC name round p signal hn hp hs H c rest'

theorem adx_index_reproduces (raw done rest : List (Candle F)) (hpl : ∀ c ∈ raw, Plain c)
    (h : Gen.rowMajor (adxTree (F := F) name round p signal hp hs hn).S raw = .ok done)
    (j : Nat) (hj : j < done.length) (h1 : 1 ≤ j) (fuel : Nat) (hf : 10 ≤ fuel) :
    calculateIndex fuel (adxP (F := F) name round p signal) (done ++ rest) j (j + 1) = .ok (done ++ rest) := by
  rw [calculateIndex_adx name round p signal fuel hf _ j (by omega) (by omega)]
  have LA := leafComp_law (adxA (F := F) name p) (atrOwnT _ p rfl hp hn.kA hn.kT hn.AT)
  have hr := TComp.repro_seq (adxCompP_law name round p signal hn hp hs) (adx_ok2 name round p signal hp hn)
    (TComp.repro_seq LA (adx_ok1 name p hp hn) (repro_leaf (adxTr (F := F) name) (trT _ rfl)) (repro_leaf _ _))
    (adx_reproP name round p signal hp hs hn)
  exact TComp.index_reproduces (adxComp_law name round p signal hp hs hn) _ hr (fun _ _ _ _ _ => trivial)
    raw done rest hpl h j hj

theorem adx_index0_reproduces (raw done : List (Candle F)) (hpl : ∀ c ∈ raw, Plain c)
    (h : Gen.rowMajor (adxTree (F := F) name round p signal hp hs hn).S raw = .ok done)
    (hj : 0 < done.length) (fuel : Nat) (hf : done.length + 12 ≤ fuel) :
    calculateIndex fuel (adxP (F := F) name round p signal) done 0 (0 + 1) = .ok done := by
  rw [calculateIndex_adx_zero name round p signal fuel done hf]
  have LP := adxCompP_law (F := F) name round p signal hn hp hs
  have hr := TComp.repro0_seq LP (adx_ok2 name round p signal hp hn) (Pre := fun _ => True)
    (TComp.repro0_pass (adxCompX_law name p hp hn) _)
    (TComp.repro0_of_repro LP (adx_reproP name round p signal hp hs hn))
  exact TComp.index0_reproduces (adxComp_law name round p signal hp hs hn) _ hr (fun _ _ _ _ => trivial)
    raw done hpl h hj

end adx

/-! ### MACD: two prior EMA helpers, then the own step (which drives the signal line) -/

section macd
variable (name : String) (round : Nat) (fast slow signal : Int) (input : String)

theorem calculateIndex_macd (fuel : Nat) (hf : 8 ≤ fuel) (cs : List (Candle F)) (i : Int) (hi : i ≠ 0)
    (hi1 : i + 1 ≠ 0) :
    calculateIndex fuel (macdP (F := F) name round fast slow signal input) cs i (i + 1) = (do
      let c₂ ← (do let c₁ ← stepLeaf (macdEf name fast input) cs i; stepLeaf (macdEs name slow input) c₁ i)
      stepWith (macdP name round fast slow signal input) (macdC name signal) c₂ i) := by
  obtain ⟨f, rfl⟩ : ∃ f, fuel = (f + 4) + 4 := ⟨fuel - 8, by omega⟩
  rw [calculateIndex_top_two _ _ _ (macdP_subs name round fast slow signal input) rfl rfl (f + 4) cs i hi hi1,
    calculateIndex_leaf_single (macdEf name fast input) ⟨rfl, rfl, rfl⟩ _ cs i (by omega)]
  simp only [bind, Except.bind]
  cases stepLeaf (macdEf (F := F) name fast input) cs i with
  | error e => rfl
  | ok c₁ =>
    simp only
    rw [calculateIndex_leaf_single (macdEs name slow input) ⟨rfl, rfl, rfl⟩ _ c₁ i (by omega)]
    cases stepLeaf (macdEs (F := F) name slow input) c₁ i with
    | error e => rfl
    | ok c₂ =>
      simp only
      exact ownStep_with _ _ _ c₂ i (macdC_calc name round fast slow signal input (f + 4) c₂ i)

theorem calculateIndex_macd_zero (fuel : Nat) (cs : List (Candle F)) (hf : cs.length + 12 ≤ fuel) :
    calculateIndex fuel (macdP (F := F) name round fast slow signal input) cs 0 (0 + 1) = (do
      let c₂ ← (do let c₁ ← leafCalc (macdEf name fast input) cs; leafCalc (macdEs name slow input) c₁)
      stepWith (macdP name round fast slow signal input) (macdC name signal) c₂ 0) := by
  obtain ⟨f, rfl⟩ : ∃ f, fuel = (f + 4) + 4 := ⟨fuel - 8, by omega⟩
  rw [calculateIndex_top_two_zero _ _ _ (macdP_subs name round fast slow signal input) rfl rfl (f + 4) cs,
    calculate_leaf (macdEf name fast input) ⟨rfl, rfl, rfl⟩ _ cs (by omega)]
  simp only [bind, Except.bind]
  cases h1 : leafCalc (macdEf (F := F) name fast input) cs with
  | error e => rfl
  | ok c₁ =>
    simp only
    have l1 := leafCalc_length _ cs c₁ h1
    rw [calculate_leaf (macdEs name slow input) ⟨rfl, rfl, rfl⟩ _ c₁ (by omega)]
    cases leafCalc (macdEs (F := F) name slow input) c₁ with
    | error e => rfl
    | ok c₂ =>
      simp only
      exact ownStep_with _ _ _ c₂ 0 (macdC_calc name round fast slow signal input (f + 4) c₂ 0)

variable (hf : 1 ≤ fast) (hs : 1 ≤ slow) (hsig : 1 ≤ signal) (hn : MacdNames name)
  (hin : NoDot input ∧ input ∈ Candle.attrNames)

theorem macd_ok1 : TComp.SeqOK (macdCompF (F := F) name fast input hf hn hin) (macdCompS name slow input hs hn hin) := by
  constructor <;> intro k hk <;>
    simp [macdCompF, macdCompS, leafComp, emaT, macdEf_name, macdEs_name] at hk ⊢ <;>
    rintro rfl <;>
    simp [hn.FS.symm] at hk

theorem macd_ok2 : TComp.SeqOK
    (TComp.seq (macdCompF (F := F) name fast input hf hn hin) (macdCompS name slow input hs hn hin))
    (macdCompP name round fast slow signal input hsig hn) := by
  constructor <;> intro k hk <;>
    simp [TComp.seq, macdCompF, macdCompS, macdCompP, leafComp, dataComp, emaT, macdEf_name, macdEs_name,
      macdP_name] at hk ⊢ <;>
    constructor <;> rintro rfl <;>
    simp [hn.nF, hn.nS, hn.FG.symm, hn.SG.symm] at hk

/-- the own step of MACD on a finished candle is the row step of its component -/
theorem macd_reproP : TComp.Repro (macdCompP (F := F) name round fast slow signal input hsig hn)
    (fun _ _ => True) (stepWith (macdP name round fast slow signal input) (macdC name signal)) := by
  refine TComp.repro_of_step (macdCompP_law name round fast slow signal input hsig hn) _ _ ?_
  intro H c rest' _ hd _
  have hno : dlookup ((macdP (F := F) name round fast slow signal input).name ++ "_signal_line") c.inds = none :=
    done_data_inds (macdP (F := F) name round fast slow signal input) _
      (macdK name round fast slow signal input hsig hn) (by rw [macdP_name]; exact hn.nG) H c hd
  rw [TComp.step_shape, macd_step name round fast slow signal input hn H c rest' (by rw [macdP_name] at hno; exact hno)]
  exact stepWith_dataT (macdP (F := F) name round fast slow signal input) _
    (macdK name round fast slow signal input hsig hn) H c rest' hno

theorem macd_index_reproduces (raw done rest : List (Candle F)) (hpl : ∀ c ∈ raw, Plain c)
    (h : Gen.rowMajor (macdTree (F := F) name round fast slow signal input hf hs hsig hn hin).S raw = .ok done)
    (j : Nat) (hj : j < done.length) (h1 : 1 ≤ j) (fuel : Nat) (hfu : 8 ≤ fuel) :
    calculateIndex fuel (macdP (F := F) name round fast slow signal input) (done ++ rest) j (j + 1)
      = .ok (done ++ rest) := by
  rw [calculateIndex_macd name round fast slow signal input fuel hfu _ j (by omega) (by omega)]
  have hr := TComp.repro_seq (macdCompP_law name round fast slow signal input hsig hn)
    (macd_ok2 name round fast slow signal input hf hs hsig hn hin)
    (TComp.repro_seq (leafComp_law _ _) (macd_ok1 name fast slow input hf hs hn hin)
      (repro_leaf (macdEf (F := F) name fast input) (emaT _ fast input (fl 2) rfl hf hn.kF hin))
      (repro_leaf (macdEs (F := F) name slow input) (emaT _ slow input (fl 2) rfl hs hn.kS hin)))
    (macd_reproP name round fast slow signal input hsig hn)
  exact TComp.index_reproduces (macdComp_law name round fast slow signal input hf hs hsig hn hin) _ hr
    (fun _ _ _ _ _ => trivial) raw done rest hpl h j hj

theorem macd_index0_reproduces (raw done : List (Candle F)) (hpl : ∀ c ∈ raw, Plain c)
    (h : Gen.rowMajor (macdTree (F := F) name round fast slow signal input hf hs hsig hn hin).S raw = .ok done)
    (hj : 0 < done.length) (fuel : Nat) (hfu : done.length + 12 ≤ fuel) :
    calculateIndex fuel (macdP (F := F) name round fast slow signal input) done 0 (0 + 1) = .ok done := by
  rw [calculateIndex_macd_zero name round fast slow signal input fuel done hfu]
  have LP := macdCompP_law (F := F) name round fast slow signal input hsig hn
  have LX : TComp.Law (TComp.seq (macdCompF (F := F) name fast input hf hn hin) (macdCompS name slow input hs hn hin)) :=
    TComp.seq_law (leafComp_law _ _) (leafComp_law _ _) (macd_ok1 name fast slow input hf hs hn hin)
  have hr := TComp.repro0_seq LP (macd_ok2 name round fast slow signal input hf hs hsig hn hin)
    (Pre := fun _ => True) (TComp.repro0_pass LX _)
    (TComp.repro0_of_repro LP (macd_reproP name round fast slow signal input hsig hn))
  exact TComp.index0_reproduces (macdComp_law name round fast slow signal input hf hs hsig hn hin) _ hr
    (fun _ _ _ _ => trivial) raw done hpl h hj

end macd
end Hex

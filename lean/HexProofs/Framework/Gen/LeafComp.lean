import HexProofs.Framework.Gen.Comp
/-
Keyed single-write pieces as tolerant components: a leaf helper (TR, HLA, EMA, SMA, …) or the
read-only own reading of a node with helpers (ATR, KC, BBANDS, STDEVTHRES).  What is needed per
kind is a tolerant contract `TContract`: like `Contract`, but on candles that may carry other
pieces' keys.
-/
namespace Hex
set_option linter.unusedSectionVars false
variable {F : Type} [PyF F]

/-- the tolerant contract of a keyed single-write piece -/
structure TContract (Z : Ind F) where
  /-- the keys read besides the own one (the helpers' keys, for a node's own reading) -/
  rkeys : List String
  Inv : List (Candle F) → Prop
  inv_nil : Inv []
  inv_sim : ∀ H H', Inv H → SimL (Z.name :: rkeys) H H' → Inv H'
  inv_step : ∀ H c v, Inv H → hasKey Z.name c = false → valOf Z H c = .ok v → Inv (H ++ [decOf Z v c])
  /-- no look-ahead on a history satisfying the invariant -/
  loc : ∀ H c rest, Inv H →
    readKind Z.kind { cs := H ++ c :: rest, i := H.length, name := Z.name } = valOf Z H c
  /-- key locality: only the bare candles and the entries under the read keys matter -/
  val_sim : ∀ H H' c c', SimL (Z.name :: rkeys) H H' → SimK (Z.name :: rkeys) c c' →
    valOf Z H c = valOf Z H' c'
  /-- the own entry on the current candle is not read -/
  stable : ∀ H c v, valOf Z H (decOf Z v c) = valOf Z H c

theorem dset_absorb {α : Type} (k : String) (v : α) (l : List (String × α)) (h : dlookup k l = some v) :
    dset k v l = l := by
  induction l with
  | nil => simp [dlookup] at h
  | cons p r ih =>
    obtain ⟨k', v'⟩ := p
    by_cases hk : k' = k
    · simp [dlookup, hk] at h
      simp [dset, hk, h]
    · simp [dlookup, hk] at h
      simp [dset, hk, ih h]

theorem mem_dset {α : Type} (k : String) (v : α) (l : List (String × α)) :
    ∀ p ∈ dset k v l, p ∈ l ∨ p.1 = k := by
  induction l with
  | nil => intro p hp; simp [dset] at hp; subst hp; exact Or.inr rfl
  | cons q r ih =>
    obtain ⟨k', v'⟩ := q
    intro p hp
    by_cases hk : k' = k
    · simp only [dset, hk, if_true, List.mem_cons] at hp
      rcases hp with rfl | hp
      · exact Or.inr rfl
      · exact Or.inl (List.mem_cons_of_mem _ hp)
    · simp only [dset, hk, if_false, List.mem_cons] at hp
      rcases hp with rfl | hp
      · exact Or.inl (by simp)
      · rcases ih p hp with h | h
        · exact Or.inl (List.mem_cons_of_mem _ h)
        · exact Or.inr h

theorem frameK_setKey (isSub : Bool) (name : String) (v : Val F) (c : Candle F) :
    FrameK [name] c (setKey isSub name v c) := by
  refine ⟨bare_setKey _ _ _ _, ?_⟩
  intro k hk
  have hne : name ≠ k := fun h => hk (by simp [h])
  cases isSub <;> simp [setKey, dlookup_dset_ne _ _ _ _ hne]

theorem simK_setKey (keys : List String) (isSub : Bool) (name : String) (v : Val F) (c c' : Candle F)
    (h : SimK keys c c') : SimK keys (setKey isSub name v c) (setKey isSub name v c') := by
  refine ⟨by rw [bare_setKey, bare_setKey]; exact h.1, ?_⟩
  intro k hk
  cases isSub <;> simp [setKey, dlookup_dset, (h.2 k hk).1, (h.2 k hk).2]

theorem setKey_absorb (isSub : Bool) (name : String) (v : Val F) (c d : Candle F)
    (hc : hasKey name c = false) (hd : SimK [name] d (setKey isSub name v c)) :
    setKey isSub name v d = d := by
  have h := hd.2 name (by simp)
  cases isSub with
  | false =>
    have : dlookup name d.inds = some v := by rw [h.1]; simp [setKey, dlookup_dset_self]
    simp [setKey, dset_absorb name v d.inds this]
  | true =>
    have : dlookup name d.subs = some v := by rw [h.2]; simp [setKey, dlookup_dset_self]
    simp [setKey, dset_absorb name v d.subs this]

/-- the component of a keyed single-write piece -/
def leafComp (Z : Ind F) (T : TContract Z) : TComp F where
  name := Z.name
  ω := Val F
  val := valOf Z
  app := decOf Z
  rkeys := Z.name :: T.rkeys
  wkeys := [Z.name]
  Raw := fun c => hasKey Z.name c = false
  Settled := fun H => (∀ d ∈ H, hasKey Z.name d = true) ∧ T.Inv H ∧
    ∀ d0, H = [d0] → ∃ c0 v, hasKey Z.name c0 = false ∧ valOf Z [] c0 = .ok v ∧
      SimK (Z.name :: T.rkeys) d0 (decOf Z v c0)
  pass := leafCalc Z

/-- the loop of the piece over raw candles -/
theorem leafLoop_runT (Z : Ind F) (T : TContract Z) (R : List (Candle F)) :
    ∀ (H : List (Candle F)), T.Inv H → (∀ r ∈ R, hasKey Z.name r = false) →
      leafLoop Z (H ++ R) H.length R.length = (leafComp Z T).rowFrom H R := by
  induction R with
  | nil => intro H _ _; simp [leafLoop, TComp.rowFrom_nil]
  | cons r R' ih =>
    intro H hinv hp
    have hr := hp r (by simp)
    have hpres : present Z.name r = false := by
      unfold hasKey dhas at hr
      unfold present
      cases hl : dlookup Z.name r.inds with
      | none => rfl
      | some v => simp [hl] at hr
    have hrs : (leafComp Z T).rowStep H r = (do let v ← valOf Z H r; pure (H ++ [decOf Z v r])) := rfl
    rw [List.length_cons, leafLoop, pyIndex_append_cons, TComp.rowFrom_cons, hrs]
    simp only [bind, Except.bind, hpres, Bool.false_eq_true, if_false]
    rw [stepLeaf_append_cons, T.loc H r R' hinv]
    cases hv : valOf Z H r with
    | error e => rfl
    | ok v =>
      simp only [bind, Except.bind, pure, Except.pure]
      have := ih (H ++ [decOf Z v r]) (T.inv_step H r v hinv hr hv) (fun x hx => hp x (by simp [hx]))
      simpa [decOf] using this

theorem leafComp_law (Z : Ind F) (T : TContract Z) : TComp.Law (leafComp Z T) where
  name_w := by simp [leafComp]
  app_frame := fun z c => frameK_setKey _ _ _ _
  app_key := fun z c => hasKey_setKey _ _ _ _
  app_entries := by
    intro z c
    constructor
    · intro p hp
      change p ∈ (setKey Z.isSub Z.name (z.roundBy Z.round) c).inds at hp
      cases hs : Z.isSub
      · rw [hs] at hp
        rcases mem_dset _ _ _ p hp with h | h
        · exact Or.inl h
        · exact Or.inr (by simp [leafComp, h])
      · rw [hs] at hp; exact Or.inl hp
    · intro p hp
      change p ∈ (setKey Z.isSub Z.name (z.roundBy Z.round) c).subs at hp
      cases hs : Z.isSub
      · rw [hs] at hp; exact Or.inl hp
      · rw [hs] at hp
        rcases mem_dset _ _ _ p hp with h | h
        · exact Or.inl h
        · exact Or.inr (by simp [leafComp, h])
  app_sim := fun keys z c c' h => simK_setKey keys _ _ _ c c' h
  raw_nokey := fun c h => h
  raw_of := fun c h => h Z.name (by simp [leafComp])
  val_sim := fun H H' c c' hs hc => T.val_sim H H' c c' hs hc
  stable := by
    intro H c z _ hv
    show valOf Z H (decOf Z z c) = .ok z
    rw [T.stable H c z]; exact hv
  absorb := fun z c d hraw hd => setKey_absorb _ _ _ c d hraw hd
  settled_nil := ⟨by simp, T.inv_nil, by intro d0 h; cases h⟩
  settled_step := by
    intro H r z hs hraw hv
    refine ⟨?_, T.inv_step H r z hs.2.1 hraw hv, ?_⟩
    · intro d hd
      rcases List.mem_append.1 hd with h | h
      · exact hs.1 d h
      · simp at h; subst h; exact hasKey_setKey _ _ _ _
    · intro d0 hd0
      cases H with
      | nil =>
        simp at hd0
        exact ⟨r, z, hraw, hv, by rw [← hd0]; exact SimK.refl _ _⟩
      | cons a t => simp at hd0
  settled_sim := by
    intro H H' hs hsim
    have hsim' : SimL (Z.name :: T.rkeys) H H' := hsim.mono (fun k hk => by
      show k ∈ (Z.name :: T.rkeys) ++ [Z.name]
      exact List.mem_append_left _ hk)
    refine ⟨?_, T.inv_sim H H' hs.2.1 hsim', ?_⟩
    · intro d' hd'
      obtain ⟨d, hd, hdd⟩ := TComp.forall₂_mem_right' hsim d' hd'
      rw [← hasKey_simK (keys := (Z.name :: T.rkeys) ++ [Z.name]) (by simp) hdd]
      exact hs.1 d hd
    · intro d0' hH'
      subst hH'
      cases hsim' with
      | @cons d0 _ l _ hab hrest =>
        cases hrest
        obtain ⟨c0, v, hc0, hv, hd0⟩ := hs.2.2 d0 rfl
        exact ⟨c0, v, hc0, hv, hab.symm.trans hd0⟩
  pass_iff := by
    intro H R out hs hR
    show leafCalc Z (H ++ R) = .ok out ↔ _
    have key : leafCalc Z (H ++ R) = (leafComp Z T).rowFrom H R := by
      unfold leafCalc
      rw [findCalcIndex_split Z.name H R hs.1 hR]
      have : (H ++ R).length - H.length = R.length := by simp
      rw [this]
      exact leafLoop_runT Z T R H hs.2.1 hR
    rw [key]

end Hex

import HexProofs.Framework.Gen.Spec
import HexProofs.Framework.Fill
/-
Manager lemmas for lists "dressed" with readings: `out` is `raw` with arbitrary `.indicators` /
`.sub_indicators` content, everything else equal.  The manager never looks at the reading dicts
(it only wipes them when merging), so re-collapsing / re-filling a dressed bucket list keeps a
prefix of it and produces the same raw remainder as on the bare list.
-/
namespace Hex
set_option linter.unusedSectionVars false
variable {F : Type} [PyF F]

/-- `out` is `raw` with readings added, nothing else changed -/
def Dressed (raw out : List (Candle F)) : Prop := List.Forall₂ (fun c d => d.bare = c.bare) raw out

theorem bare_ts {c d : Candle F} (h : d.bare = c.bare) : d.ts = c.ts := by
  have := congrArg Candle.ts h; exact this
theorem bare_clean {c d : Candle F} (h : d.bare = c.bare) : d.clean = c.clean := by
  have := congrArg Candle.clean h; exact this

theorem merge_bare (a x : Candle F) : a.bare.merge x = a.merge x := by
  simp [Candle.bare, Candle.merge, Candle.reset, Candle.recoverClean]
  cases a.clean <;> simp

theorem bare_merge {c d : Candle F} (h : d.bare = c.bare) (x : Candle F) : d.merge x = c.merge x := by
  rw [← merge_bare d x, ← merge_bare c x, h]

theorem rawClose_bare (a : Candle F) : a.bare.rawClose = a.rawClose := by
  simp [Candle.bare, Candle.rawClose]

theorem bare_rawClose {c d : Candle F} (h : d.bare = c.bare) : d.rawClose = c.rawClose := by
  rw [← rawClose_bare d, ← rawClose_bare c, h]

namespace Dressed

theorem length_eq {raw out : List (Candle F)} (h : Dressed raw out) : raw.length = out.length := by
  induction h with
  | nil => rfl
  | cons _ _ ih => simp [ih]

theorem ts_eq {raw out : List (Candle F)} (h : Dressed raw out) : out.map (·.ts) = raw.map (·.ts) := by
  induction h with
  | nil => rfl
  | cons hcd _ ih => simp [ih, bare_ts hcd]

theorem filterMap_ts {raw out : List (Candle F)} (h : Dressed raw out) :
    out.filterMap (·.ts) = raw.filterMap (·.ts) := by
  induction h with
  | nil => rfl
  | cons hcd _ ih => simp [List.filterMap_cons, ih, bare_ts hcd]

theorem labels_eq {raw out : List (Candle F)} (h : Dressed raw out) (tf : Int) :
    labels tf out = labels tf raw := by
  induction h with
  | nil => rfl
  | cons hcd _ ih => simp [labels, List.filterMap_cons, bare_ts hcd] at ih ⊢; rw [ih]

theorem cleanOk {raw out : List (Candle F)} (h : Dressed raw out) (tf : Int)
    (hr : ∀ c ∈ raw, CleanOk tf c) : ∀ d ∈ out, CleanOk tf d := by
  induction h with
  | nil => intro d hd; cases hd
  | cons hcd _ ih =>
    intro d hd
    rcases List.mem_cons.1 hd with rfl | hd
    · have := hr _ (List.mem_cons_self)
      intro k hk t ht
      rw [bare_clean hcd] at hk
      rw [bare_ts hcd]
      exact this k hk t ht
    · exact ih (fun c hc => hr c (List.mem_cons_of_mem _ hc)) d hd

theorem reverse {raw out : List (Candle F)} (h : Dressed raw out) : Dressed raw.reverse out.reverse := by
  induction h with
  | nil => exact List.Forall₂.nil
  | cons hcd _ ih =>
    simp only [List.reverse_cons]
    exact forall₂_append ih (List.Forall₂.cons hcd List.Forall₂.nil)

theorem bucketedR {raw out : List (Candle F)} (h : Dressed raw out) (tf : Int)
    (hb : BucketedR tf raw) : BucketedR tf out := by
  refine ⟨?_, by rw [h.filterMap_ts]; exact hb.decr⟩
  have hall : ∀ {raw out : List (Candle F)}, Dressed raw out →
      (∀ a ∈ raw, ∃ t, a.ts = some t ∧ t % tf = 0) → ∀ a ∈ out, ∃ t, a.ts = some t ∧ t % tf = 0 := by
    intro raw out h
    induction h with
    | nil => intro _ a ha; cases ha
    | cons hcd _ ih =>
      intro hr a ha
      rcases List.mem_cons.1 ha with rfl | ha
      · rw [bare_ts hcd]; exact hr _ (List.mem_cons_self)
      · exact ih (fun c hc => hr c (List.mem_cons_of_mem _ hc)) a ha
  exact hall h hb.stamped

theorem take {raw out : List (Candle F)} (h : Dressed raw out) (k : Nat) :
    Dressed (raw.take k) (out.take k) := by
  induction h generalizing k with
  | nil => simp only [List.take_nil]; exact List.Forall₂.nil
  | cons hcd _ ih =>
    cases k with
    | zero => exact List.Forall₂.nil
    | succ k => exact List.Forall₂.cons hcd (ih k)

theorem snoc_inv {A : List (Candle F)} {a₀ : Candle F} {D : List (Candle F)}
    (h : Dressed (A ++ [a₀]) D) : ∃ DA a, D = DA ++ [a] ∧ a.bare = a₀.bare ∧ Dressed A DA := by
  have hr := h.reverse
  simp only [List.reverse_append, List.reverse_cons, List.reverse_nil, List.nil_append,
    List.singleton_append] at hr
  cases hD : D.reverse with
  | nil => rw [hD] at hr; cases hr
  | cons d dr =>
    rw [hD] at hr
    cases hr with
    | cons hcd hrest =>
      refine ⟨dr.reverse, d, ?_, hcd, by simpa using Dressed.reverse hrest⟩
      have := congrArg List.reverse hD
      simpa using this

end Dressed

theorem Gen.Decor.dressed {S : Gen.StepSpec F} {raw out : List (Candle F)} (h : Gen.Decor S raw out) :
    Dressed raw out := by
  induction h with
  | nil => exact List.Forall₂.nil
  | cons hcd _ ih => exact List.Forall₂.cons hcd.bare ih

/-- re-collapsing a dressed bucket list with new raw candles (cf. `foldl_decor`) -/
theorem foldl_dressed (tf : Int) (B D new : List (Candle F)) (hd : Dressed B D)
    (hnew : ∀ c ∈ new, Plain c) :
    ∃ (k : Nat) (Q : List (Candle F)), (∀ c ∈ Q, Plain c) ∧ D.length ≤ k + 1 ∧
      (new.foldl (resampleStep tf) D).reverse = D.reverse.take k ++ Q ∧
      (new.foldl (resampleStep tf) B).reverse = B.reverse.take k ++ Q := by
  cases hd with
  | nil =>
    exact ⟨0, (new.foldl (resampleStep tf) []).reverse,
      fun c hc => foldl_step_plain tf new [] (by simp) hnew c (List.mem_reverse.1 hc), by simp, by simp, by simp⟩
  | @cons bl dl br dr hcd hrest =>
    have hlen : br.length = dr.length := Dressed.length_eq hrest
    have h0 : StepRel dl bl [dl] [bl] := Or.inl ⟨[], by simp, rfl, rfl⟩
    have hrel := stepRel_foldl tf dl bl (bare_ts hcd) (bare_merge hcd) new _ _ hnew h0
    have e1 := foldl_step_tail tf new [dl] dr (by simp)
    have e2 := foldl_step_tail tf new [bl] br (by simp)
    simp only [List.singleton_append] at e1 e2
    rw [e1, e2]
    rcases hrel with ⟨X, hX, h1, h2⟩ | ⟨hp, heq⟩
    · refine ⟨dr.length + 1, X.reverse, fun c hc => hX c (List.mem_reverse.1 hc), by simp, ?_, ?_⟩
      · rw [h1]; simp [List.take_of_length_le]
      · rw [h2]; simp [List.take_of_length_le, hlen]
    · refine ⟨dr.length, (new.foldl (resampleStep tf) [bl]).reverse, ?_, by simp, ?_, ?_⟩
      · intro c hc; rw [← heq] at hc; exact hp c (List.mem_reverse.1 hc)
      · rw [heq]; simp
      · simp [hlen]

theorem collapse_dressed_append (tf : Int) (htf : 0 < tf) (Bk new done : List (Candle F))
    (hb : BucketedR tf Bk.reverse) (hcB : ∀ c ∈ Bk, CleanOk tf c) (hn : RawTf new)
    (hmono : LabelsMono tf (Bk ++ new)) (hd : Dressed Bk done) :
    ∃ (k : Nat) (Q : List (Candle F)), (∀ c ∈ Q, Plain c) ∧ done.length ≤ k + 1 ∧
      collapseCandles (some tf) false (done ++ new) = .ok (done.take k ++ Q) ∧
      resample tf (Bk ++ new) = Bk.take k ++ Q := by
  have hmonoD : LabelsMono tf (done ++ new) := by
    unfold LabelsMono at hmono ⊢
    rw [labels_append] at hmono ⊢
    rw [hd.labels_eq tf]; exact hmono
  have hclean : ∀ c ∈ done ++ new, CleanOk tf c := by
    intro c hc
    rcases List.mem_append.1 hc with hc | hc
    · exact hd.cleanOk tf hcB c hc
    · exact hn.cleanOk tf c hc
  have hdR : Dressed Bk.reverse done.reverse := hd.reverse
  have hbD : BucketedR tf done.reverse := hdR.bucketedR tf hb
  have hfirst : ∀ c, (done ++ new).head? = some c → c.ts ≠ none := by
    intro c hc
    cases hdone : done with
    | nil =>
      rw [hdone] at hc
      exact hn.stamped c (List.mem_of_mem_head? (by simpa using hc))
    | cons y yr =>
      rw [hdone] at hc; simp at hc; subst hc
      obtain ⟨t, ht, _⟩ := hbD.stamped y (by rw [hdone]; simp)
      simp [ht]
  have hcol := collapse_eq_resample tf htf (done ++ new) hfirst hclean hmonoD
  have hselfD : resampleR tf done = done.reverse := by
    have := resampleR_reverse_self tf done.reverse hbD; simpa using this
  have hselfB : resampleR tf Bk = Bk.reverse := by
    have := resampleR_reverse_self tf Bk.reverse hb; simpa using this
  obtain ⟨k, Q, hQ, hk, e1, e2⟩ := foldl_dressed tf Bk.reverse done.reverse new hdR hn.plain
  refine ⟨k, Q, hQ, by simpa using hk, ?_, ?_⟩
  · rw [hcol]
    congr 1
    unfold resample
    have : resampleR tf (done ++ new) = new.foldl (resampleStep tf) (resampleR tf done) := by
      simp [resampleR, List.foldl_append]
    rw [this, hselfD, e1]; simp
  · unfold resample
    have : resampleR tf (Bk ++ new) = new.foldl (resampleStep tf) (resampleR tf Bk) := by
      simp [resampleR, List.foldl_append]
    rw [this, hselfB, e2]; simp

/-- one append on a collapsing timeframe, dressed buckets (cf. `tasks_tf_append`) -/
theorem tasks_tf_dressed (tf : Int) (htf : 0 < tf) (s new done : List (Candle F))
    (h : RawTf (s ++ new)) (hd : Dressed (resample tf s) done) :
    ∃ (k : Nat) (Q : List (Candle F)), (∀ c ∈ Q, Plain c) ∧ done.length ≤ k + 1 ∧
      tasks (cfgTf tf) (done ++ new) = .ok (done.take k ++ Q) ∧
      resample tf (s ++ new) = (resample tf s).take k ++ Q := by
  have hs : RawTf s := h.append_left
  have hcs := hs.cleanOk tf
  have hms : LabelsMono tf s := labelsMono_of_sorted tf htf s hs.sorted
  have hb : BucketedR tf (resampleR tf s) := resampleR_bucketed tf htf s hcs hms
  have hprops := resampleR_props tf s hcs
  obtain ⟨k, Q, hQ, hk, hcol, hres⟩ := collapse_dressed_append tf htf (resample tf s) new done
    (by unfold resample; simpa using hb) (fun c hc => hprops.1 c (List.mem_reverse.1 hc)) h.append_right
    (labelsMono_resample_append tf htf s new hcs (labelsMono_of_sorted tf htf _ h.sorted)) hd
  refine ⟨k, Q, hQ, hk, by rw [tasks_cfgTf, hcol], ?_⟩
  rw [← hres]
  have e := resampleR_resample_append tf htf s new hcs hms
  unfold resample at e ⊢
  rw [e]

/-- one append with fill, dressed filled buckets (cf. `tasks_fill_append`) -/
theorem tasks_fill_dressed (tf : Int) (htf : 0 < tf) (s new Z DZ : List (Candle F))
    (hraw : RawTf (s ++ new)) (hZ : FilledOf tf s Z) (hd : Dressed Z DZ) :
    ∃ (k : Nat) (T Z' : List (Candle F)), (∀ c ∈ T, Plain c) ∧ DZ.length ≤ k + 1 ∧
      tasks (cfgFill tf) (DZ ++ new) = .ok (DZ.take k ++ T) ∧
      FilledOf tf (s ++ new) Z' ∧ Z' = Z.take k ++ T := by
  have hn : RawTf new := hraw.append_right
  obtain ⟨Z', hZ'⟩ := filledOf tf htf (s ++ new) hraw
  obtain ⟨k, Q, hQ, hk, hcol, hres⟩ := collapse_dressed_append tf htf Z new DZ hZ.bucketed.reverseR
    hZ.cleanOk hn (labelsMono_filled_append tf htf s new Z hraw hZ) hd
  have hfill : fillMissing tf (Z.take k ++ Q) = .ok Z' := by
    rw [← hres, fill_resample_append tf htf s new Z hraw hZ]; exact hZ'.eq
  have hfirst : ∀ c, (DZ ++ new).head? = some c → c.ts ≠ none := by
    intro c hc
    cases hdz : DZ with
    | nil => rw [hdz] at hc; exact hn.stamped c (List.mem_of_mem_head? (by simpa using hc))
    | cons y yr =>
      rw [hdz] at hc; simp at hc; subst hc
      obtain ⟨t, ht, _⟩ := (hd.reverse.bucketedR tf hZ.bucketed.reverseR).stamped y (by rw [hdz]; simp)
      simp [ht]
  have htasks : tasks (cfgFill tf) (DZ ++ new) = fillMissing tf (DZ.take k ++ Q) := by
    rw [tasks_cfgFill, collapse_fill_eq tf _ hfirst, hcol]; rfl
  rw [htasks]
  rcases List.eq_nil_or_concat (Z.take k) with hnil | ⟨A, a₀, hP⟩
  · have hdnil : DZ.take k = [] := by
      have := (hd.take k).length_eq; rw [hnil] at this
      exact List.eq_nil_of_length_eq_zero this.symm
    rw [hnil] at hfill
    simp only [List.nil_append] at hfill
    refine ⟨k, Z', Z', hZ'.plain, hk, by rw [hdnil]; simpa using hfill, hZ', by rw [hnil]; simp⟩
  · simp only [List.concat_eq_append] at hP
    have hdP := hd.take k
    rw [hP] at hdP
    obtain ⟨DA, a, hDP, ha, hdA⟩ := hdP.snoc_inv
    have hcontP : Contiguous tf (A ++ [a₀]) := by rw [← hP]; exact contiguous_take tf Z k hZ.contig
    have hcontD : Contiguous tf (DA ++ [a]) := by
      apply contiguous_of_ts tf _ _ _ hcontP
      simp [hdA.ts_eq, bare_ts ha]
    rw [hP, List.append_assoc, List.singleton_append, fillMissing_split tf A a₀ Q,
        fillMissing_contiguous tf htf _ hcontP] at hfill
    cases hB : fillMissing tf (a₀ :: Q) with
    | error e => rw [hB] at hfill; cases hfill
    | ok B' =>
      rw [hB] at hfill
      simp only [bind, Except.bind, pure, Except.pure, List.dropLast_concat] at hfill
      obtain ⟨T, rfl⟩ := fillMissing_head tf a₀ Q B' hB
      have hZ'eq : Z' = A ++ a₀ :: T := (Except.ok.inj hfill).symm
      have hTplain : ∀ c ∈ T, Plain c := by
        intro c hc
        rcases mem_fillMissing tf _ _ hB c (List.mem_cons_of_mem _ hc) with h1 | ⟨p, u, rfl⟩
        · rcases List.mem_cons.1 h1 with rfl | h1
          · exact hZ.plain _ (List.mem_of_mem_take (by rw [hP]; simp))
          · exact hQ c h1
        · exact plain_fillCandle p u
      refine ⟨k, T, Z', hTplain, hk, ?_, hZ', by rw [hZ'eq, hP]; simp⟩
      rw [hDP, List.append_assoc, List.singleton_append, fillMissing_split tf DA _ Q,
          fillMissing_contiguous tf htf _ hcontD,
          fillMissing_head_congr tf a₀ a Q T (bare_ts ha) (bare_rawClose ha) hB]
      simp [bind, Except.bind, pure, Except.pure]

end Hex

import HexProofs.Framework.Gen.ProgramLife
import HexProofs.Manager2.TwinTreesTf
/-
C14 on a LIFESPAN manager combined with a TIMEFRAME (`{ tf := some tf, fill := fill, lifespan := some life }`).

What is base-only in `ProgramLife.lean`: the invariant `LifeInv` (field `cfg : s.mgr.cfg = cfgLifeOnly life`, used through
`tasks_lifeOnly` in `LifeInv.mgr_append` / `lifeInv_init`) and the abstract step `lifeStep`, which trims `held ++ ch`
– on a timeframe the manager trims `collapse (held ++ ch)`, and the re-collapse re-opens the newest bucket.  The ENGINE
lemmas of that file (`TreeSpec.engine_plain`, `fin_drop_idem`, `fin_append`, `purge_fin_drop`, `LifeInv.final`) do not
know how the list came about and are re-used here.

Delivered here (every configuration, hence every `{tf, fill, lifespan}`; every tree):
  * `runs_frame`: a program never changes the tree or the manager configuration;
  * `recalculate_eq_batch_held_anycfg`: after ANY program `recalculate()` EQUALS, in `PyM`, the batch run with the default
    configuration over the candles currently held, stripped (`s.purge.mgr.candles`);
  * `recalculate_eq_rowMajor_held_partial`: … and that is `Gen.rowMajor T.S` of them when they are reading-free
    (hypothesis `hpl`, explicit: the invariant giving it on a re-collapsing manager is not built here);
  * `TreeSpec.fin_take_append`: the engine step of a re-collapsing append on a finished-and-popped list
    (`(b.take k ++ Q).drop δ`: closed buckets kept, newest re-opened, plain candles appended, pops) – the lemma the
    program invariant on `TwinMgr` needs.
-/
set_option linter.unusedSectionVars false
set_option linter.unusedVariables false
namespace Hex
variable {F : Type} [PyF F]

/-! ### programs keep tree and configuration (any configuration) -/

theorem IndState.append_ok_frame (s s' : IndState F) (ch : List (Candle F)) (h : s.append ch = .ok s') :
    s'.tree = s.tree ∧ s'.mgr.cfg = s.mgr.cfg := by
  unfold IndState.append at h
  cases hm : s.mgr.append ch with
  | error e => rw [hm] at h; cases h
  | ok m =>
    rw [hm] at h
    simp only [bind, Except.bind] at h
    obtain ⟨ht, hc, _⟩ := IndState.calculate_ok_engine _ s' h
    refine ⟨ht, ?_⟩
    rw [hc]
    show m.cfg = s.mgr.cfg
    unfold Manager.append at hm
    by_cases he : ch.isEmpty = true
    · rw [if_pos he] at hm; cases hm; rfl
    · rw [if_neg he] at hm
      cases ht : tasks s.mgr.cfg (s.mgr.candles ++ ch) with
      | error e => rw [ht] at hm; cases hm
      | ok cs => rw [ht] at hm; cases hm; rfl

theorem Op.run_frame (s s' : IndState F) (op : Op F) (h : op.run s = .ok s') :
    s'.tree = s.tree ∧ s'.mgr.cfg = s.mgr.cfg := by
  cases op with
  | append ch => exact IndState.append_ok_frame s s' ch h
  | calculate =>
    obtain ⟨a, b, _⟩ := IndState.calculate_ok_engine s s' h
    exact ⟨a, b⟩
  | purge =>
    simp only [Op.run] at h
    cases h; exact ⟨rfl, rfl⟩
  | recalculate =>
    obtain ⟨a, b, _⟩ := IndState.calculate_ok_engine s.purge s' h
    exact ⟨a, b⟩
  | calcIndex i => exact IndState.calculateIndex_ok_frame s s' i h

/-- **a program never changes the tree or the manager configuration** -/
theorem runs_frame (s₀ s : IndState F) (ops : List (Op F)) (h : Runs s₀ ops s) :
    s.tree = s₀.tree ∧ s.mgr.cfg = s₀.mgr.cfg := by
  induction h with
  | nil s => exact ⟨rfl, rfl⟩
  | cons hadm hrun _ ih =>
    obtain ⟨a, b⟩ := Op.run_frame _ _ _ hrun
    exact ⟨ih.1.trans a, ih.2.trans b⟩

theorem IndState.init_frame (ind : Ind F) (cfg : MgrCfg) (init : List (Candle F)) (s₀ : IndState F)
    (h : IndState.init ind cfg init = .ok s₀) : s₀.tree = ind ∧ s₀.mgr.cfg = cfg := by
  unfold IndState.init Manager.init at h
  cases ht : tasks cfg init with
  | error e => rw [ht] at h; cases h
  | ok cs =>
    rw [ht] at h
    simp only [bind, Except.bind, pure, Except.pure] at h
    cases h; exact ⟨rfl, rfl⟩

/-! ### `recalculate()` is the batch run over the candles currently held – any configuration -/

/-- on ANY object: `recalculate()` EQUALS the batch run (default configuration) over the stripped candles held -/
theorem IndState.recalculate_eq_batch (s : IndState F) :
    candlesOf s.recalculate = candlesOf (runIndicator s.tree {} s.purge.mgr.candles []) := by
  rw [batch_engine]
  unfold IndState.recalculate
  rw [IndState.calculate_engine]
  rfl

/-- **after ANY program on ANY manager configuration `recalculate()` EQUALS the batch run over the candles currently
held** (stripped, `s.purge.mgr.candles` – whatever collapsing and trimming left) -/
theorem recalculate_eq_batch_held_anycfg (ind : Ind F) (cfg : MgrCfg) (init : List (Candle F)) (ops : List (Op F))
    (s₀ s : IndState F) (h₀ : IndState.init ind cfg init = .ok s₀) (hruns : Runs s₀ ops s) :
    s.tree = ind ∧ s.mgr.cfg = cfg ∧
    candlesOf s.recalculate = candlesOf (runIndicator ind {} s.purge.mgr.candles []) ∧
    candlesOf s.recalculate = engineCalc ind s.purge.mgr.candles := by
  obtain ⟨ht₀, hc₀⟩ := IndState.init_frame ind cfg init s₀ h₀
  obtain ⟨ht, hc⟩ := runs_frame s₀ s ops hruns
  have htree : s.tree = ind := ht.trans ht₀
  refine ⟨htree, hc.trans hc₀, ?_, ?_⟩
  · rw [IndState.recalculate_eq_batch, htree]
  · rw [IndState.recalculate_eq_batch, htree, batch_engine]

section generic
variable {ind : Ind F} {L : Nat}

/-- … in the `Gen.rowMajor` form, when the stripped candles held are reading-free (`_partial`: hypothesis `hpl`) -/
theorem TreeSpec.recalculate_eq_rowMajor_held_partial (T : TreeSpec ind) (cfg : MgrCfg) (init : List (Candle F))
    (ops : List (Op F)) (s₀ s : IndState F) (h₀ : IndState.init ind cfg init = .ok s₀) (hruns : Runs s₀ ops s)
    (hpl : ∀ c ∈ s.purge.mgr.candles, Plain c) (out : List (Candle F)) :
    candlesOf s.recalculate = .ok out ↔ Gen.rowMajor T.S s.purge.mgr.candles = .ok out := by
  obtain ⟨_, _, _, he⟩ := recalculate_eq_batch_held_anycfg ind cfg init ops s₀ s h₀ hruns
  rw [he]
  exact T.engine_plain _ out hpl

/-- **the engine step of a re-collapsing `append` on a finished-and-popped list**: `b` the finished run over the plain
collapsed list `V`; the manager keeps the first `k` candles (closed buckets), replaces the rest by plain candles `Q` (the
re-opened newest bucket and the new ones) and pops `δ` leading candles, retaining `L` closed finished ones: the engine
returns exactly the run over `V.take k ++ Q` minus the popped candles -/
theorem TreeSpec.fin_take_append (T : TreeSpec ind) (W : TwinOK ind L) (hs : Shallow ind) (V b Q x : List (Candle F))
    (k δ : Nat) (hp : ∀ c ∈ V, Plain c) (hQ : ∀ c ∈ Q, Plain c) (h : engineCalc ind V = .ok b)
    (hk : δ = 0 ∨ δ + L ≤ (b.take k).length) (hx : engineCalc ind ((b.take k ++ Q).drop δ) = .ok x) :
    ∃ out, engineCalc ind (V.take k ++ Q) = .ok out ∧ x = out.drop δ := by
  have hp' : ∀ c ∈ V.take k, Plain c := fun c hc => hp c (List.mem_of_mem_take hc)
  have hr := (T.engine_plain V b hp).1 h
  have hr' := Gen.rowMajor_take T.law V b hp hr k
  have h' : engineCalc ind (V.take k) = .ok (b.take k) := (T.engine_plain _ _ hp').2 hr'
  exact T.fin_append W hs (V.take k) (b.take k) Q x δ hp' hQ h' hk hx

end generic

/-! ### every shipped class, timeframe (+ fill) + lifespan -/

/-- the configuration: collapsing timeframe `tf`, gap filling or not, lifespan `life` -/
def cfgTfFillLife (tf : Int) (fill : Bool) (life : Int) : MgrCfg := { tf := some tf, fill := fill, lifespan := some life }

theorem cfgTfFillLife_false (tf life : Int) : cfgTfFillLife tf false life = cfgTfLife tf life := rfl
theorem cfgTfFillLife_true (tf life : Int) : cfgTfFillLife tf true life = cfgFillLife tf life := rfl

section covered
variable {name : String} {k : Kind F}

/-- **C14 for `recalculate()` on a lifespan manager with a timeframe (with or without gap filling), every shipped
class**: after ANY program over {append, calculate, purge, recalculate, calculate_index} that runs, `recalculate()`
EQUALS – in `PyM`: returns the same candles or raises the same exception – the batch run with the default configuration
over the candles currently held, stripped.  No hypothesis on the stream, the retention or the program. -/
theorem recalculate_eq_batch_held_lifeTf (hk : CoveredTreeX name k) (round : Nat) (tf : Int) (fill : Bool) (life : Int)
    (init : List (Candle F)) (ops : List (Op F)) (s₀ s : IndState F)
    (h₀ : IndState.init (mkTop k name round) { tf := some tf, fill := fill, lifespan := some life } init = .ok s₀)
    (hruns : Runs s₀ ops s) :
    candlesOf s.recalculate = candlesOf (runIndicator (mkTop k name round) {} s.purge.mgr.candles []) :=
  (recalculate_eq_batch_held_anycfg _ _ init ops s₀ s h₀ hruns).2.2.1

/-- … as the row-major spec of the bare candles held, when those are reading-free (`_partial`) -/
theorem recalculate_eq_rowMajor_held_lifeTf_partial (hk : CoveredTreeX name k) (round : Nat) (tf : Int) (fill : Bool)
    (life : Int) (init : List (Candle F)) (ops : List (Op F)) (s₀ s : IndState F)
    (h₀ : IndState.init (mkTop k name round) { tf := some tf, fill := fill, lifespan := some life } init = .ok s₀)
    (hruns : Runs s₀ ops s) (hpl : ∀ c ∈ s.purge.mgr.candles, Plain c) :
    ∃ T : TreeSpec (mkTop k name round), ∀ out,
      candlesOf s.recalculate = .ok out ↔ Gen.rowMajor T.S s.purge.mgr.candles = .ok out := by
  obtain ⟨T, _, _⟩ := hk.specIdx round
  exact ⟨T, fun out => T.recalculate_eq_rowMajor_held_partial _ init ops s₀ s h₀ hruns hpl out⟩

end covered

end Hex

/-! ### non-vacuity: ATR 3 on one-minute candles collapsed to 120 s, lifespan 360 s (`tfInit`, `tfChunks`) -/

namespace Hex.LifeTfDemo
open Hex Hex.TfDemo

def atr3 : Ind Int := mkTop (.atr 3) "ATR_3" 4

/-- construct over the seven candles, `calculate()`, the appends of `tfChunks` (three buckets popped) interleaved with
`calculate_index(-1)`, `recalculate()`, `purge()` -/
def progT : List (Op Int) :=
  [.calculate, .append (tfChunks.getD 0 []), .append (tfChunks.getD 1 []), .calcIndex (-1), .recalculate,
   .append (tfChunks.getD 2 []), .append [], .purge, .append (tfChunks.getD 4 []), .calculate,
   .append (tfChunks.getD 5 []), .calcIndex (-1)]

set_option maxRecDepth 100000 in
theorem progT_runs : ∃ s₀ s, IndState.init atr3 { tf := some 120, fill := false, lifespan := some 360 } tfInit = .ok s₀ ∧
    Runs s₀ progT s :=
  runs_of_runFrom _ _ _ _ (by decide +kernel)

set_option maxRecDepth 100000 in
theorem progT_runs_fill : ∃ s₀ s, IndState.init atr3 { tf := some 120, fill := true, lifespan := some 360 } tfInit = .ok s₀ ∧
    Runs s₀ progT s :=
  runs_of_runFrom _ _ _ _ (by decide +kernel)

set_option maxRecDepth 100000 in
/-- the run: four buckets (480 … 840) are held at the end, `recalculate()` returns, the stripped candles are plain -/
example : ((runFrom atr3 { tf := some 120, fill := false, lifespan := some 360 } tfInit progT).bind fun s =>
      (candlesOf s.recalculate).toOption.map fun out =>
        (out.map (·.ts), s.purge.mgr.candles.all fun c => c.inds.isEmpty && c.subs.isEmpty))
    = some ([some 480, some 600, some 720, some 840], true) := by decide +kernel

/-- the ATR column -/
def colA (cs : List (Candle Int)) : List (Option Int) :=
  cs.map fun c => match dlookup "ATR_3" c.inds with
    | some (Val.s (Scalar.num (Num.flt x))) => some x
    | _ => none

/-- appends only (no `purge` / `recalculate`): `[calculate] ++ appends of tfChunks` -/
def progA : List (Op Int) := .calculate :: tfChunks.map Op.append

set_option maxRecDepth 100000 in
/-- **WITHOUT a `recalculate()` the final `calculate()` is NOT the batch run over the candles currently held** on a
timeframe + lifespan manager either: the retained buckets keep the readings computed from the popped look-back
(`[80, 83, 87, 88]`), the batch run over the four buckets held starts afresh (`[None, None, None, 91]`) – while after
`recalculate()` it is, by `recalculate_eq_batch_held_lifeTf` -/
theorem final_ne_batch_held :
    ((runFrom atr3 { tf := some 120, fill := false, lifespan := some 360 } tfInit progA).bind fun s =>
      (candlesOf s.calculate).toOption.bind fun fin =>
        (candlesOf (runIndicator atr3 {} s.purge.mgr.candles [])).toOption.map fun b => (colA fin, colA b))
    = some ([some 80, some 83, some 87, some 88], [none, none, none, some 91]) := by decide +kernel

example (s₀ s : IndState Int)
    (h₀ : IndState.init atr3 { tf := some 120, fill := false, lifespan := some 360 } tfInit = .ok s₀)
    (hruns : Runs s₀ progT s) :
    candlesOf s.recalculate = candlesOf (runIndicator atr3 {} s.purge.mgr.candles []) :=
  recalculate_eq_batch_held_lifeTf atrDemoOK 4 120 false 360 tfInit progT s₀ s h₀ hruns

example (s₀ s : IndState Int)
    (h₀ : IndState.init atr3 { tf := some 120, fill := true, lifespan := some 360 } tfInit = .ok s₀)
    (hruns : Runs s₀ progT s) :
    candlesOf s.recalculate = candlesOf (runIndicator atr3 {} s.purge.mgr.candles []) :=
  recalculate_eq_batch_held_lifeTf atrDemoOK 4 120 true 360 tfInit progT s₀ s h₀ hruns

end Hex.LifeTfDemo

#print axioms Hex.runs_frame
#print axioms Hex.recalculate_eq_batch_held_anycfg
#print axioms Hex.TreeSpec.recalculate_eq_rowMajor_held_partial
#print axioms Hex.TreeSpec.fin_take_append
#print axioms Hex.recalculate_eq_batch_held_lifeTf
#print axioms Hex.recalculate_eq_rowMajor_held_lifeTf_partial
#print axioms Hex.LifeTfDemo.progT_runs
#print axioms Hex.LifeTfDemo.progT_runs_fill
#print axioms Hex.LifeTfDemo.final_ne_batch_held

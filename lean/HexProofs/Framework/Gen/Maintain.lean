import HexProofs.Framework.Gen.Object
import HexProofs.Framework.Program
/-
Maintenance operations, generic in the tree (`TreeSpec`): `calculate()` again, `purge()`,
`recalculate()`, `calculate_index` (for trees whose `calculate_index(i)` is one row step), and
operation programs – all on the base timeframe.
-/
namespace Hex
set_option linter.unusedSectionVars false
variable {F : Type} [PyF F]

/-! ### purge inverts a finished candle -/

theorem mem_derase {α : Type} (n : String) (l : List (String × α)) :
    ∀ p ∈ derase n l, p ∈ l ∧ p.1 ≠ n := by
  induction l with
  | nil => intro p hp; simp [derase] at hp
  | cons q r ih =>
    obtain ⟨k, v⟩ := q
    intro p hp
    by_cases h : k = n
    · simp only [derase, h, if_true] at hp
      obtain ⟨h1, h2⟩ := ih p hp
      exact ⟨List.mem_cons_of_mem _ h1, h2⟩
    · simp only [derase, h, if_false, List.mem_cons] at hp
      rcases hp with rfl | hp
      · exact ⟨by simp, h⟩
      · obtain ⟨h1, h2⟩ := ih p hp
        exact ⟨List.mem_cons_of_mem _ h1, h2⟩

theorem foldl_derase_all {α : Type} (names : List String) :
    ∀ (l : List (String × α)), (∀ p ∈ l, p.1 ∈ names) → names.foldl (fun d n => derase n d) l = [] := by
  induction names with
  | nil =>
    intro l h
    cases l with
    | nil => rfl
    | cons p r => exact absurd (h p (by simp)) (by simp)
  | cons n r ih =>
    intro l h
    simp only [List.foldl_cons]
    apply ih
    intro p hp
    obtain ⟨h1, h2⟩ := mem_derase n l p hp
    rcases List.mem_cons.1 (h p h1) with h3 | h3
    · exact absurd h3 h2
    · exact h3

theorem purge_fin (S : Gen.StepSpec F) (c c' : Candle F) (hc : Plain c) (h : Gen.Fin S c c') :
    ({ c' with inds := S.names.foldl (fun d n => derase n d) c'.inds,
               subs := S.names.foldl (fun d n => derase n d) c'.subs } : Candle F) = c := by
  rw [foldl_derase_all S.names _ h.inds, foldl_derase_all S.names _ h.subs]
  have := h.bare
  rw [bare_of_plain c hc] at this
  exact this

theorem purgeNames_gdecor (S : Gen.StepSpec F) (raw done : List (Candle F)) (hd : Gen.Decor S raw done)
    (hp : ∀ c ∈ raw, Plain c) : purgeNames S.names done = raw := by
  induction hd with
  | nil => rfl
  | cons hcd _ ih =>
    have := ih (fun c hc => hp c (by simp [hc]))
    unfold purgeNames at this ⊢
    rw [List.map_cons, this]
    congr 1
    exact purge_fin S _ _ (hp _ (by simp)) hcd

theorem purgeNames_plain_any (names : List String) (cs : List (Candle F)) (h : ∀ c ∈ cs, Plain c) :
    purgeNames names cs = cs := by
  unfold purgeNames
  conv_rhs => rw [← List.map_id cs]
  apply List.map_congr_left
  intro c hc
  obtain ⟨hi, hs⟩ := h c hc
  cases c
  simp only at hi hs
  subst hi; subst hs
  have : ∀ (α : Type), names.foldl (fun (d : List (String × α)) n => derase n d) [] = [] := by
    intro α; induction names with
    | nil => rfl
    | cons n r ih => simpa [derase] using ih
  simp [this]

/-! ### resumable states -/

namespace Gen

/-- resumable over a known raw stream: finished row-major prefix followed by raw candles -/
def ResumableAt (S : StepSpec F) (raw cs : List (Candle F)) : Prop :=
  ∃ raw₁ raw₂ done, raw = raw₁ ++ raw₂ ∧ (∀ c ∈ raw₁, Plain c) ∧ (∀ c ∈ raw₂, Plain c) ∧
    rowMajor S raw₁ = .ok done ∧ cs = done ++ raw₂

theorem ResumableAt.plain {S : StepSpec F} {raw cs : List (Candle F)} (h : ResumableAt S raw cs) :
    ∀ c ∈ raw, Plain c := by
  obtain ⟨raw₁, raw₂, done, rfl, hp₁, hp₂, _, _⟩ := h
  intro c hc
  rcases List.mem_append.1 hc with h | h
  · exact hp₁ c h
  · exact hp₂ c h

theorem resumableAt_finished (S : StepSpec F) (raw out : List (Candle F)) (hp : ∀ c ∈ raw, Plain c)
    (h : rowMajor S raw = .ok out) : ResumableAt S raw out :=
  ⟨raw, [], out, by simp, hp, by simp, h, by simp⟩

theorem resumableAt_plain (S : StepSpec F) (raw : List (Candle F)) (hp : ∀ c ∈ raw, Plain c) :
    ResumableAt S raw raw := ⟨[], raw, [], by simp, by simp, hp, rfl, by simp⟩

theorem resumableAt_append (S : StepSpec F) (raw cs ch : List (Candle F)) (h : ResumableAt S raw cs)
    (hch : ∀ c ∈ ch, Plain c) : ResumableAt S (raw ++ ch) (cs ++ ch) := by
  obtain ⟨raw₁, raw₂, done, rfl, hp₁, hp₂, hr, rfl⟩ := h
  exact ⟨raw₁, raw₂ ++ ch, done, by simp, hp₁,
    fun c hc => by rcases List.mem_append.1 hc with h | h; exact hp₂ c h; exact hch c h, hr, by simp⟩

/-- the candle at position `j` of a finished run -/
theorem rowMajor_at {S : StepSpec F} (L : StepLaw S) (raw done : List (Candle F))
    (h : rowMajor S raw = .ok done) (hp : ∀ c ∈ raw, Plain c) (j : Nat) (hj : j < done.length) :
    ∃ pre c c' post, done = pre ++ c' :: post ∧ pre.length = j ∧ L.Inv pre ∧ Plain c ∧
      S.step (pre ++ [c]) pre.length = .ok (pre ++ [c']) := by
  have hlen : raw.length = done.length := (rowMajor_shape L raw done hp h).1.length_eq
  have hj' : j < raw.length := by omega
  have hraw : raw = raw.take j ++ raw[j] :: raw.drop (j + 1) := by
    rw [List.getElem_cons_drop, List.take_append_drop]
  rw [hraw] at h
  obtain ⟨mid, hm, hr⟩ := rowMajor_split _ _ done h
  have hpt : ∀ c ∈ raw.take j, Plain c := fun c hc => hp c (List.mem_of_mem_take hc)
  obtain ⟨hdm, him⟩ := rowMajor_shape L _ mid hpt hm
  rw [rowMajorFrom_cons] at hr
  cases hs : rowStep S mid raw[j] with
  | error e => rw [hs] at hr; cases hr
  | ok d =>
    rw [hs] at hr
    have hcj : Plain raw[j] := hp _ (List.getElem_mem _)
    obtain ⟨c', rfl, _, hid⟩ := rowStep_ok L mid raw[j] d him hcj hs
    obtain ⟨tail, ht, _, _⟩ := rowMajorFrom_shape L _ _ done hid
      (fun c hc => hp c (List.mem_of_mem_drop hc)) hr
    refine ⟨mid, raw[j], c', tail, by rw [ht]; simp, ?_, him, hcj, hs⟩
    rw [← hdm.length_eq, List.length_take]; omega

/-- **Recomputing a computed index reproduces it** -/
theorem step_computed {S : StepSpec F} (L : StepLaw S) (raw₁ raw₂ done : List (Candle F))
    (hp₁ : ∀ c ∈ raw₁, Plain c) (hr : rowMajor S raw₁ = .ok done) (j : Nat) (hj : j < done.length) :
    S.step (done ++ raw₂) (j : Int) = .ok (done ++ raw₂) := by
  obtain ⟨pre, c, c', post, hd, hlen, hinv, hc, hs⟩ := rowMajor_at L raw₁ done hr hp₁ j hj
  have hgood : L.Good c' := by
    obtain ⟨c'', hd', _, _, hg⟩ := L.shape pre c _ hinv hc hs
    have : c'' = c' := by
      have := List.append_cancel_left hd'; simpa using this.symm
    rw [← this]; exact hg
  have h1 := L.local_ pre c' (post ++ raw₂) hinv hgood
  have h2 := L.idem pre c c' hinv hc hs
  rw [h2] at h1
  rw [hd, ← hlen]
  simpa [bind, Except.bind, pure, Except.pure] using h1

end Gen

/-! ### the object -/

variable {ind : Ind F}

theorem TreeSpec.engine_resumableAt (T : TreeSpec ind) (raw cs out : List (Candle F))
    (h : Gen.ResumableAt T.S raw cs) :
    engineCalc ind cs = .ok out ↔ Gen.rowMajor T.S raw = .ok out := by
  obtain ⟨raw₁, raw₂, done, rfl, hp₁, hp₂, hr, rfl⟩ := h
  exact T.engine raw₁ raw₂ done out hr hp₁ hp₂

/-- **`purge()` gives back the raw stream** -/
theorem TreeSpec.purge_resumableAt (T : TreeSpec ind) (raw cs : List (Candle F))
    (h : Gen.ResumableAt T.S raw cs) : purgeNames ind.allNames cs = raw := by
  obtain ⟨raw₁, raw₂, done, rfl, hp₁, hp₂, hr, rfl⟩ := h
  rw [← T.names_eq]
  have h1 := purgeNames_gdecor T.S raw₁ done (Gen.rowMajor_shape T.law raw₁ done hp₁ hr).1 hp₁
  have h2 := purgeNames_plain_any T.S.names raw₂ hp₂
  unfold purgeNames at h1 h2 ⊢
  rw [List.map_append, h1, h2]

/-- the invariant of a program run -/
structure GProgInv (T : TreeSpec ind) (raw : List (Candle F)) (s : IndState F) : Prop where
  tree : s.tree = ind
  cfg : s.mgr.cfg = {}
  res : Gen.ResumableAt T.S raw s.mgr.candles

theorem gprogInv_calculate (T : TreeSpec ind) (raw : List (Candle F)) (s s' : IndState F)
    (h : GProgInv T raw s) (hrun : s.calculate = .ok s') : GProgInv T raw s' := by
  obtain ⟨ht, hcfg, he⟩ := IndState.calculate_ok_engine s s' hrun
  rw [h.tree] at he ht
  have hr := (T.engine_resumableAt raw _ _ h.res).1 he
  exact ⟨ht, by rw [hcfg, h.cfg], Gen.resumableAt_finished T.S raw _ h.res.plain hr⟩

theorem gprogInv_purge (T : TreeSpec ind) (raw : List (Candle F)) (s : IndState F)
    (h : GProgInv T raw s) : GProgInv T raw s.purge := by
  refine ⟨h.tree, h.cfg, ?_⟩
  have : s.purge.mgr.candles = raw := by
    unfold IndState.purge
    simp only [h.tree]
    exact T.purge_resumableAt raw _ h.res
  rw [this]
  exact Gen.resumableAt_plain T.S raw h.res.plain

/-- trees whose `calculate_index(i)` (single index) is exactly one row step -/
def TreeSpec.IndexIsStep (T : TreeSpec ind) : Prop :=
  ∀ (cs : List (Candle F)) (st : Int), 0 ≤ st → st < cs.length →
    Hex.calculateIndex (fuelFor cs) ind cs st (st + 1) = T.S.step cs st

/-- the spec is complete for maintenance too: `calculate_index(i)` is one row step and the spec's
own key is the tree's name -/
def TreeSpec.Full (T : TreeSpec ind) : Prop := T.IndexIsStep ∧ T.S.name = ind.name

theorem gprogInv_calcIndex (T : TreeSpec ind) (hidx : T.IndexIsStep) (raw : List (Candle F))
    (s s' : IndState F) (i : Int) (h : GProgInv T raw s)
    (hadm : ∃ c, pyIndex s.mgr.candles i = .ok c ∧ hasKey s.tree.name c = true)
    (hname : T.S.name = ind.name)
    (hrun : s.calculateIndex i none = .ok s') : GProgInv T raw s' := by
  obtain ⟨raw₁, raw₂, done, hraw, hp₁, hp₂, hr, hcs⟩ := h.res
  obtain ⟨c, hidx', hkey⟩ := hadm
  rw [hcs] at hidx'
  obtain ⟨j, hj, hst⟩ := index_in_done s.tree.name done raw₂ i c hp₂ hidx' hkey
  unfold IndState.calculateIndex at hrun
  simp only [Option.map_none, hcs, hst] at hrun
  have hjlen : (j : Int) < ((done ++ raw₂).length : Int) := by simp; omega
  rw [h.tree, hidx (done ++ raw₂) j (by omega) hjlen,
      Gen.step_computed T.law raw₁ raw₂ done hp₁ hr j hj] at hrun
  simp only [bind, Except.bind, pure, Except.pure] at hrun
  cases hrun
  exact ⟨rfl, h.cfg, ⟨raw₁, raw₂, done, hraw, hp₁, hp₂, hr, rfl⟩⟩

/-- operations allowed for a tree: `calculate_index` only when it is known to be one row step -/
def Op.allowed (withIndex : Bool) : Op F → Bool
  | .calcIndex _ => withIndex
  | _ => true

theorem gprogInv_step (T : TreeSpec ind) (withIndex : Bool)
    (hidx : withIndex = true → T.IndexIsStep ∧ T.S.name = ind.name) (raw : List (Candle F))
    (s s' : IndState F) (op : Op F) (hal : op.allowed withIndex = true) (h : GProgInv T raw s)
    (hadm : op.Admissible s) (hrun : op.run s = .ok s') : GProgInv T (raw ++ op.added) s' := by
  cases op with
  | append ch =>
    simp only [Op.run, IndState.append, Manager.append_noCfg s.mgr h.cfg, bind, Except.bind] at hrun
    simp only [Op.added]
    refine gprogInv_calculate T _
      ({ s with mgr := { s.mgr with candles := s.mgr.candles ++ ch } }) s' ⟨h.tree, h.cfg, ?_⟩ hrun
    exact Gen.resumableAt_append T.S raw _ ch h.res hadm
  | calculate =>
    simp only [Op.added, List.append_nil]
    exact gprogInv_calculate T raw s s' h hrun
  | purge =>
    simp only [Op.added, List.append_nil]
    simp only [Op.run] at hrun
    cases hrun
    exact gprogInv_purge T raw s h
  | recalculate =>
    simp only [Op.added, List.append_nil]
    exact gprogInv_calculate T raw s.purge s' (gprogInv_purge T raw s h) hrun
  | calcIndex i =>
    simp only [Op.added, List.append_nil]
    have hw : withIndex = true := by simpa [Op.allowed] using hal
    exact gprogInv_calcIndex T (hidx hw).1 raw s s' i h hadm (hidx hw).2 hrun

theorem gprogInv_runs (T : TreeSpec ind) (withIndex : Bool)
    (hidx : withIndex = true → T.IndexIsStep ∧ T.S.name = ind.name) (ops : List (Op F)) :
    ∀ (raw : List (Candle F)) (s s' : IndState F), (∀ op ∈ ops, op.allowed withIndex = true) →
      GProgInv T raw s → Runs s ops s' → GProgInv T (raw ++ (ops.map Op.added).flatten) s' := by
  induction ops with
  | nil => intro raw s s' _ h hr; cases hr; simpa using h
  | cons op rest ih =>
    intro raw s s' hal h hr
    cases hr with
    | cons hadm hrun hrest =>
      have := ih _ _ _ (fun o ho => hal o (by simp [ho]))
        (gprogInv_step T withIndex hidx raw s _ op (hal op (by simp)) h hadm hrun) hrest
      simpa [List.append_assoc] using this

/-- **Convergence to the batch state, generic.**  After any admissible program that runs, a final
`calculate()` returns iff the row-major run over the whole raw stream does, with the same
candles. -/
theorem TreeSpec.program_converges (T : TreeSpec ind) (withIndex : Bool)
    (hidx : withIndex = true → T.IndexIsStep ∧ T.S.name = ind.name)
    (init : List (Candle F)) (hinit : ∀ c ∈ init, Plain c) (ops : List (Op F))
    (hal : ∀ op ∈ ops, op.allowed withIndex = true) (s : IndState F)
    (hruns : Runs ({ tree := ind, mgr := { cfg := {}, candles := init } } : IndState F) ops s)
    (out : List (Candle F)) :
    candlesOf s.calculate = .ok out ↔
      Gen.rowMajor T.S (init ++ (ops.map Op.added).flatten) = .ok out := by
  have h0 : GProgInv T init ({ tree := ind, mgr := { cfg := {}, candles := init } } : IndState F) :=
    ⟨rfl, rfl, Gen.resumableAt_plain T.S init hinit⟩
  have h := gprogInv_runs T withIndex hidx ops init _ s hal h0 hruns
  rw [IndState.calculate_engine, h.tree]
  exact T.engine_resumableAt _ _ out h.res

/-- `calculate()` again changes nothing -/
theorem TreeSpec.calculate_idempotent (T : TreeSpec ind) (raw cs : List (Candle F))
    (hp : ∀ c ∈ raw, Plain c) (h : Gen.rowMajor T.S raw = .ok cs) : engineCalc ind cs = .ok cs :=
  (T.engine_resumableAt raw cs cs (Gen.resumableAt_finished T.S raw cs hp h)).2 h

end Hex

namespace Hex
set_option linter.unusedSectionVars false
variable {F : Type} [PyF F] {ind : Ind F}

/-- `calculate()` again changes nothing (object level) -/
theorem TreeSpec.obj_idempotent (T : TreeSpec ind) (raw : List (Candle F)) (s s₁ : IndState F)
    (hinv : GProgInv T raw s) (h : s.calculate = .ok s₁) : candlesOf s₁.calculate = .ok s₁.mgr.candles := by
  have h1 := gprogInv_calculate T raw s s₁ hinv h
  obtain ⟨_, _, he⟩ := IndState.calculate_ok_engine s s₁ h
  rw [hinv.tree] at he
  have hr := (T.engine_resumableAt raw _ _ hinv.res).1 he
  rw [IndState.calculate_engine, h1.tree]
  exact T.calculate_idempotent raw _ hinv.res.plain hr

/-- `recalculate()` on a finished state reproduces it -/
theorem TreeSpec.obj_recalculate (T : TreeSpec ind) (raw : List (Candle F)) (s : IndState F)
    (hinv : GProgInv T raw s) (hfin : Gen.rowMajor T.S raw = .ok s.mgr.candles) :
    candlesOf s.recalculate = .ok s.mgr.candles := by
  unfold IndState.recalculate
  have hp := gprogInv_purge T raw s hinv
  rw [IndState.calculate_engine, hp.tree]
  exact (T.engine_resumableAt raw _ _ hp.res).2 hfin

/-- base timeframe: the earlier snapshot is a prefix of the later one -/
theorem TreeSpec.base_prefix (T : TreeSpec ind) (a b snap₁ snap₂ : List (Candle F))
    (hp : ∀ c ∈ a ++ b, Plain c) (h₁ : Gen.rowMajor T.S a = .ok snap₁)
    (h₂ : Gen.rowMajor T.S (a ++ b) = .ok snap₂) : snap₁ <+: snap₂ := by
  obtain ⟨d, hd, hpre, _⟩ := Gen.rowMajor_prefix T.law a b snap₂ hp h₂
  rw [h₁] at hd; cases hd; exact hpre

end Hex

import HexProofs.Framework.Gen.LeafComp
/-
Tolerant contracts (`TContract`) of the keyed pieces occurring in the shipped composite trees:
the leaf helpers TR, HLA, EMA, SMA and the read-only own readings of ATR, KC.
-/
namespace Hex
set_option linter.unusedSectionVars false
variable {F : Type} [PyF F]

/-! ### from indistinguishable candles to equal columns -/

/-- reading `nm` off a candle only sees the bare candle and the entries under `keys` -/
def Sees (F : Type) [PyF F] (keys : List String) (nm : String) : Prop :=
  ∀ a b : Candle F, SimK keys a b → readingByCandle a nm = readingByCandle b nm

theorem sees_attr (keys : List String) (nm : String) (hd : NoDot nm) (hin : nm ∈ Candle.attrNames) :
    Sees F keys nm := fun a b h => readingByCandle_attr_bare nm hd hin a b h.1

theorem sees_key (keys : List String) (nm : String) (hk : IsKey nm) (hm : nm ∈ keys) : Sees F keys nm := by
  intro a b h
  rw [readingByCandle_key nm hk, readingByCandle_key nm hk]
  unfold lookupKey
  rw [(h.2 nm hm).1, (h.2 nm hm).2]

theorem col_simL (keys : List String) (nm : String) (hs : Sees F keys nm) {L L' : List (Candle F)}
    (h : SimL keys L L') : col nm L = col nm L' := by
  unfold col
  induction h with
  | nil => rfl
  | cons hab _ ih => simp only [List.map_cons]; rw [hs _ _ hab, ih]

theorem sameCol_simL (keys : List String) (nm : String) (hs : Sees F keys nm) {H H' : List (Candle F)}
    {c c' : Candle F} (hH : SimL keys H H') (hc : SimK keys c c') (name : String) :
    Ctx.SameCol nm ({ cs := H ++ [c], i := H.length, name := name } : Ctx F)
      { cs := H' ++ [c'], i := H'.length, name := name } :=
  ⟨by show ((H.length : Nat) : Int) = H'.length; rw [hH.length_eq], col_simL keys nm hs (hH.snoc hc)⟩

/-! ### TR -/

def trT (Z : Ind F) (hk : Z.kind = .tr) : TContract Z where
  rkeys := []
  Inv := fun _ => True
  inv_nil := trivial
  inv_sim := fun _ _ _ _ => trivial
  inv_step := fun _ _ _ _ _ _ => trivial
  loc := fun H c rest _ => tr_localAll Z hk H c rest
  val_sim := by
    intro H H' c c' hH hc
    unfold valOf
    rw [hk]
    exact tr_congr _ _
      (sameCol_simL _ "high" (sees_attr _ _ noDot_high (by decide)) hH hc _)
      (sameCol_simL _ "low" (sees_attr _ _ noDot_low (by decide)) hH hc _)
      (sameCol_simL _ "close" (sees_attr _ _ noDot_close (by decide)) hH hc _)
  stable := by
    intro H c v
    unfold valOf decOf
    rw [hk]
    exact tr_congr _ _
      (sameCol_last "high" H c _ Z.name (indep_attr Z.name "high" noDot_high (by decide) _ _ _))
      (sameCol_last "low" H c _ Z.name (indep_attr Z.name "low" noDot_low (by decide) _ _ _))
      (sameCol_last "close" H c _ Z.name (indep_attr Z.name "close" noDot_close (by decide) _ _ _))

/-! ### HLA -/

def hlaT (Z : Ind F) (hk : Z.kind = .hla) : TContract Z where
  rkeys := []
  Inv := fun _ => True
  inv_nil := trivial
  inv_sim := fun _ _ _ _ => trivial
  inv_step := fun _ _ _ _ _ _ => trivial
  loc := by
    intro H c rest _
    unfold valOf
    rw [hk, ← trunc_append_cons H c rest]
    exact (hla_trunc _ (by simp)).symm
  val_sim := by
    intro H H' c c' hH hc
    unfold valOf
    rw [hk]
    exact hla_congr _ _
      (sameCol_simL _ "high" (sees_attr _ _ noDot_high (by decide)) hH hc _)
      (sameCol_simL _ "low" (sees_attr _ _ noDot_low (by decide)) hH hc _)
  stable := by
    intro H c v
    unfold valOf decOf
    rw [hk]
    exact hla_congr _ _
      (sameCol_last "high" H c _ Z.name (indep_attr Z.name "high" noDot_high (by decide) _ _ _))
      (sameCol_last "low" H c _ Z.name (indep_attr Z.name "low" noDot_low (by decide) _ _ _))

/-! ### EMA -/

def emaT (Z : Ind F) (p : Int) (input : String) (sm : Num F) (hk : Z.kind = .ema p input sm)
    (hp : 1 ≤ p) (hname : IsKey Z.name) (hin : NoDot input ∧ input ∈ Candle.attrNames) : TContract Z where
  rkeys := []
  Inv := fun _ => True
  inv_nil := trivial
  inv_sim := fun _ _ _ _ => trivial
  inv_step := fun _ _ _ _ _ _ => trivial
  loc := by
    intro H c rest _
    unfold valOf
    rw [hk, ← trunc_append_cons H c rest]
    exact (ema_trunc _ p input sm (by simp) (by simp) hp).symm
  val_sim := by
    intro H H' c c' hH hc
    unfold valOf
    rw [hk]
    have hown := sameCol_simL _ Z.name (sees_key _ _ hname (by simp)) hH hc Z.name
    exact ema_congr _ _ p input sm (sameCol_simL _ input (sees_attr _ _ hin.1 hin.2) hH hc _)
      (Ctx.prevExists_congr hown) (Ctx.prevNum_congr hown)
  stable := by
    intro H c v
    unfold valOf decOf
    rw [hk]
    refine ema_congr _ _ p input sm
      (sameCol_last input H c _ Z.name (indep_attr Z.name input hin.1 hin.2 _ _ _)) ?_ ?_
    · rw [Ctx.prevExists_append_cons, Ctx.prevExists_append_cons]
    · rw [Ctx.prevNum_append_cons, Ctx.prevNum_append_cons]

/-! ### the own reading of ATR -/

def atrOwnT (Z : Ind F) (p : Int) (hk : Z.kind = .atr p) (hp : 1 ≤ p) (hname : IsKey Z.name)
    (htr : IsKey (Z.name ++ "_TR")) (hne : Z.name ≠ Z.name ++ "_TR") : TContract Z where
  rkeys := [Z.name ++ "_TR"]
  Inv := fun _ => True
  inv_nil := trivial
  inv_sim := fun _ _ _ _ => trivial
  inv_step := fun _ _ _ _ _ _ => trivial
  loc := by
    intro H c rest _
    unfold valOf
    rw [hk, ← trunc_append_cons H c rest]
    exact (atr_trunc _ p _ (by simp) (by simp) hp).symm
  val_sim := by
    intro H H' c c' hH hc
    unfold valOf
    rw [hk]
    have hown := sameCol_simL _ Z.name (sees_key _ _ hname (by simp)) hH hc Z.name
    exact atr_congr _ _ p _ (sameCol_simL _ (Z.name ++ "_TR") (sees_key _ _ htr (by simp)) hH hc _)
      (Ctx.prevExists_congr hown) (Ctx.prevNum_congr hown)
  stable := by
    intro H c v
    unfold valOf decOf
    rw [hk]
    refine atr_congr _ _ p _
      (sameCol_last (Z.name ++ "_TR") H c _ Z.name (indep_key Z.name _ htr hne _ _ _)) ?_ ?_
    · rw [Ctx.prevExists_append_cons, Ctx.prevExists_append_cons]
    · rw [Ctx.prevNum_append_cons, Ctx.prevNum_append_cons]

/-! ### the own reading of KC -/

theorem kc_trunc (x : Ctx F) (m : Num F) (h0 : 0 ≤ x.i) : Calc.kc x.trunc m = Calc.kc x m := by
  unfold Calc.kc
  simp only [Ctx.trunc_name, Ctx.reading_trunc_cur x _ h0]

theorem kc_congr (x y : Ctx F) (m : Num F) (hn : x.name = y.name)
    (he : Ctx.SameCol (y.name ++ "_EMA") x y) (ha : Ctx.SameCol (y.name ++ "_ATR") x y) :
    Calc.kc x m = Calc.kc y m := by
  unfold Calc.kc
  rw [hn, Ctx.reading_congr he, Ctx.reading_congr ha]

def kcOwnT (Z : Ind F) (p : Int) (input : String) (m : Num F) (hk : Z.kind = .kc p input m)
    (he : IsKey (Z.name ++ "_EMA")) (ha : IsKey (Z.name ++ "_ATR"))
    (hne : Z.name ≠ Z.name ++ "_EMA") (hna : Z.name ≠ Z.name ++ "_ATR") : TContract Z where
  rkeys := [Z.name ++ "_EMA", Z.name ++ "_ATR"]
  Inv := fun _ => True
  inv_nil := trivial
  inv_sim := fun _ _ _ _ => trivial
  inv_step := fun _ _ _ _ _ _ => trivial
  loc := by
    intro H c rest _
    unfold valOf
    rw [hk, ← trunc_append_cons H c rest]
    exact (kc_trunc _ m (by simp)).symm
  val_sim := by
    intro H H' c c' hH hc
    unfold valOf
    rw [hk]
    exact kc_congr _ _ m rfl
      (sameCol_simL _ (Z.name ++ "_EMA") (sees_key _ _ he (by simp)) hH hc _)
      (sameCol_simL _ (Z.name ++ "_ATR") (sees_key _ _ ha (by simp)) hH hc _)
  stable := by
    intro H c v
    unfold valOf decOf
    rw [hk]
    exact kc_congr _ _ m rfl
      (sameCol_last (Z.name ++ "_EMA") H c _ Z.name (indep_key Z.name _ he hne _ _ _))
      (sameCol_last (Z.name ++ "_ATR") H c _ Z.name (indep_key Z.name _ ha hna _ _ _))

end Hex

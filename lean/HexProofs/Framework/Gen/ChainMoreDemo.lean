import HexProofs.Framework.Gen.ChainMore
/-
Non-vacuity of the theorems of Gen/ChainMore.lean over the toy carrier `Int`: the hypotheses are satisfiable for
concrete source / dependent pairs of composite classes, and the live runs return `.ok` with late-starting readings.
-/
namespace Hex.Chain.DemoMore
open Hex Hex.Chain

def demo6 : List (Candle Int) :=
  [ { o := .int 1, h := .int 3, l := .int 1, c := .int 2, v := .int 10, ts := some 60 },
    { o := .int 2, h := .int 5, l := .int 2, c := .int 4, v := .int 20, ts := some 120 },
    { o := .int 4, h := .int 4, l := .int 0, c := .int 1, v := .int 5, ts := some 180 },
    { o := .int 1, h := .int 7, l := .int 1, c := .int 6, v := .int 8, ts := some 240 },
    { o := .int 6, h := .int 9, l := .int 5, c := .int 8, v := .int 7, ts := some 300 },
    { o := .int 8, h := .int 8, l := .int 2, c := .int 3, v := .int 9, ts := some 360 } ]

example : RawTf demo6 := ⟨by decide, by decide, by decide, by decide⟩

/-- the numbers stored under a top-level key (a scalar reading, or the field `fld` of a dict reading), per candle -/
def numColumn (k : String) (fld : Option String) (r : PyM (Hexital Int)) : Option (List (Option Int)) :=
  match defaultCandles r with
  | .ok cs => some (cs.map fun c =>
      match (dlookup k c.inds : Option (Val Int)), fld with
      | some (Val.s (Scalar.num (Num.flt x))), none => some x
      | some (Val.dict d), some f => (match dlookup f d with | some (Scalar.num (Num.flt x)) => some x | _ => none)
      | _, _ => none)
  | .error _ => none

/-! ### sources -/

theorem srcEMA2 : SrcVia (F := Int) "EMA_2" (.ema 2 "close" (.int 2)) :=
  .leaf "close" _ (.ema 2 (.int 2) (by decide)) (by decide) (InputVia.attr (by decide) _)
theorem srcSMA2 : SrcVia (F := Int) "SMA_2" (.sma 2 "close") :=
  .leaf "close" _ (.sma 2 (by decide)) (by decide) (InputVia.attr (by decide) _)
theorem srcMACD : SrcVia (F := Int) "MACD_2_3_2" (.macd 2 3 2 "close") :=
  .macd 2 3 2 "close" (by decide) (by decide) (by decide)
    ⟨by decide, by decide, by decide, by decide, by decide, by decide, by decide, by decide, by decide, by decide⟩
    (InputVia.attr (by decide) _)
/-- classes that had no component instance, now sources: RSI, ATR, VWAP, STDEV, HMA, OBV -/
theorem srcRSI2 : SrcVia (F := Int) "RSI_2" (.rsi 2 "close") :=
  .rsi 2 "close" (by decide) ⟨by decide, by decide, by decide, by decide⟩ (by decide) (InputVia.attr (by decide) _)
example : SrcVia (F := Int) "ATR_2" (.atr 2) := .atr 2 (by decide) ⟨by decide, by decide⟩ (by decide)
example : SrcVia (F := Int) "VWAP_3" (.vwap 3) := .vwap 3 ⟨by decide, by decide, by decide⟩
example : SrcVia (F := Int) "STDEV_2" (.stdev 2 "close") :=
  .stdev 2 "close" (by decide) ⟨by decide, by decide, by decide⟩ (InputVia.attr (by decide) _)
example : SrcVia (F := Int) "HMA_4" (.hma 4 "close") :=
  .hma 4 "close" (by decide)
    ⟨by decide, by decide, by decide, by decide, by decide, by decide, by decide, by decide, by decide, by decide,
      by decide, by decide, by decide, by decide, by decide⟩ (InputVia.attr (by decide) _)
example : SrcVia (F := Int) "OBV" .obv := .obv (by decide)
example : SrcVia (F := Int) "DONCHIAN_3" (.donchian 3) := .donchian 3 (by decide) ⟨by decide⟩
example : SrcVia (F := Int) "hammer" (.amorph (.hammer none)) := .amorph _ (fun nm hnm => by cases hnm)

/-! ### RSI_2 over EMA_2 -/

def tEMA : Ind Int := mkTop (.ema 2 "close" (.int 2)) "EMA_2" 4
def tRSI : Ind Int := mkTop (.rsi 2 "EMA_2") "RSI_2" 4

theorem depRSI : DepVia (F := Int) "EMA_2" "RSI_2" (.rsi 2 "EMA_2") :=
  .rsi 2 "EMA_2" (by decide) ⟨by decide, by decide, by decide, by decide⟩ (by decide)
    (InputVia.ofInput (Or.inl ⟨rfl, by decide⟩) _ (by decide))

theorem names_tEMA : tEMA.allNames = ["EMA_2"] := allNames_leafTop _ _ _ rfl rfl
theorem names_tRSI : tRSI.allNames = ["RSI_2", "RSI_2_data"] := allNames_rsiTop _ _ _ _

/-- the hypotheses of `C01_pair_more` hold for RSI_2 over EMA_2, any timeframe, any schedule … -/
example (tf : Option Int) (htf : ∀ t, tf = some t → 0 < t) (fill : Bool) (tfn : Option String)
    (init : List (Candle Int)) (chunks : List (List (Candle Int))) (hraw : RawTf (init ++ chunks.flatten))
    (H : Hexital Int) (hlive : pairRun tEMA tRSI { tf := tf, fill := fill && tf.isSome } tfn init chunks = .ok H) :
    ∃ Hb, pairRun tEMA tRSI { tf := tf, fill := fill && tf.isSome } tfn (init ++ chunks.flatten) [] = .ok Hb ∧
      Hb.managers = H.managers :=
  C01_pair_more tf htf fill srcEMA2 4 depRSI 4 (by rw [show mkTop _ _ _ = tEMA from rfl, names_tEMA]; decide)
    (by
      rw [show mkTop (.ema 2 "close" (.int 2) : Kind Int) "EMA_2" 4 = tEMA from rfl,
        show mkTop (.rsi 2 "EMA_2" : Kind Int) "RSI_2" 4 = tRSI from rfl, names_tEMA, names_tRSI]
      decide)
    tfn init chunks hraw H hlive

/-- … and of `C02_pair_more` -/
example (tf : Option Int) (htf : ∀ t, tf = some t → 0 < t) (fill : Bool) (tfn : Option String)
    (init : List (Candle Int)) (chunks₁ chunks₂ : List (List (Candle Int)))
    (hraw : RawTf (init ++ (chunks₁ ++ chunks₂).flatten)) (H₁ H₂ : Hexital Int)
    (h₁ : pairRun tEMA tRSI { tf := tf, fill := fill && tf.isSome } tfn init chunks₁ = .ok H₁)
    (h₂ : pairRun tEMA tRSI { tf := tf, fill := fill && tf.isSome } tfn init (chunks₁ ++ chunks₂) = .ok H₂) :
    ∃ cs₁ cs₂, H₁.managers = [(defaultKey, { cfg := { tf := tf, fill := fill && tf.isSome }, candles := cs₁ })] ∧
      H₂.managers = [(defaultKey, { cfg := { tf := tf, fill := fill && tf.isSome }, candles := cs₂ })] ∧
      closedOf tf cs₁ <+: cs₂ :=
  C02_pair_more tf htf fill srcEMA2 4 depRSI 4 (by rw [show mkTop _ _ _ = tEMA from rfl, names_tEMA]; decide)
    (by
      rw [show mkTop (.ema 2 "close" (.int 2) : Kind Int) "EMA_2" 4 = tEMA from rfl,
        show mkTop (.rsi 2 "EMA_2" : Kind Int) "RSI_2" 4 = tRSI from rfl, names_tEMA, names_tRSI]
      decide)
    tfn init chunks₁ chunks₂ hraw H₁ H₂ h₁ h₂

/-- the live run (empty start, one candle, an empty chunk, the rest) and the batch run return; EMA_2 starts at
index 1, so RSI_2 over it (three inputs needed) has its first reading at index 3 -/
example : numColumn "RSI_2" none (pairRun tEMA tRSI {} none [] [demo6.take 1, [], demo6.drop 1])
    = numColumn "RSI_2" none (pairRun tEMA tRSI {} none demo6 []) := by decide +kernel
example : (numColumn "RSI_2" none (pairRun tEMA tRSI {} none [] [demo6.take 1, [], demo6.drop 1])).map
    (·.map Option.isSome) = some [false, false, false, true, true, true] := by decide +kernel
/-- on a two-minute timeframe (three buckets, each re-opened by the next append) the live run returns too -/
example : (numColumn "RSI_2" none (pairRun tEMA tRSI { tf := some 120 } none [] [demo6.take 1, demo6.drop 1])).map
    List.length = some 3 := by decide +kernel

/-! ### BBANDS over SMA_2 -/

def tSMA : Ind Int := mkTop (.sma 2 "close") "SMA_2" 4
def tBB : Ind Int := mkTop (.bbands 2 "SMA_2") "BB_2" 4

theorem depBB : DepVia (F := Int) "SMA_2" "BB_2" (.bbands 2 "SMA_2") :=
  .bbands 2 "SMA_2" (by decide)
    ⟨by decide, by decide, ⟨by decide, by decide, by decide⟩, by decide, by decide, by decide, by decide, by decide⟩
    (InputVia.ofInput (Or.inl ⟨rfl, by decide⟩) _ (by decide))

theorem names_tSMA : tSMA.allNames = ["SMA_2"] := allNames_leafTop _ _ _ rfl rfl
theorem names_tBB : tBB.allNames = ["BB_2", "BB_2_STDEV", "BB_2_STDEV_data", "BB_2_SMA"] := allNames_bb _ _ _ _

example (tf : Option Int) (htf : ∀ t, tf = some t → 0 < t) (fill : Bool) (tfn : Option String)
    (init : List (Candle Int)) (chunks : List (List (Candle Int))) (hraw : RawTf (init ++ chunks.flatten))
    (H : Hexital Int) (hlive : pairRun tSMA tBB { tf := tf, fill := fill && tf.isSome } tfn init chunks = .ok H) :
    ∃ Hb, pairRun tSMA tBB { tf := tf, fill := fill && tf.isSome } tfn (init ++ chunks.flatten) [] = .ok Hb ∧
      Hb.managers = H.managers :=
  C01_pair_more tf htf fill srcSMA2 4 depBB 4 (by rw [show mkTop _ _ _ = tSMA from rfl, names_tSMA]; decide)
    (by
      rw [show mkTop (.sma 2 "close" : Kind Int) "SMA_2" 4 = tSMA from rfl,
        show mkTop (.bbands 2 "SMA_2" : Kind Int) "BB_2" 4 = tBB from rfl, names_tSMA, names_tBB]
      decide)
    tfn init chunks hraw H hlive

/-- live = batch on the demo; the middle band (an SMA_2 over SMA_2) starts at index 2 … and the bands are the ones of
the batch run: BBM = 4, 7, 9 at indices 3, 4, 5 (index 2: the STDEV helper has no reading yet) -/
example : numColumn "BB_2" (some "BBM") (pairRun tSMA tBB {} none [] [demo6.take 2, demo6.drop 2])
    = some [none, none, none, some 4, some 7, some 9] := by decide +kernel
example : numColumn "BB_2" (some "BBM") (pairRun tSMA tBB {} none demo6 [])
    = some [none, none, none, some 4, some 7, some 9] := by decide +kernel

/-! ### SMA_2 over the `.MACD` field of a MACD -/

def tMACD : Ind Int := mkTop (.macd 2 3 2 "close") "MACD_2_3_2" 4
def tSMAm : Ind Int := mkTop (.sma 2 "MACD_2_3_2.MACD") "SMA_2" 4

theorem depSMAm : DepVia (F := Int) "MACD_2_3_2" "SMA_2" (.sma 2 "MACD_2_3_2.MACD") :=
  .leaf "MACD_2_3_2.MACD" _ (.sma 2 (by decide)) (by decide)
    (InputVia.ofInput (Or.inr ⟨"MACD", by decide⟩) _ (by decide))

theorem names_tMACD : tMACD.allNames = ["MACD_2_3_2", "MACD_2_3_2_EMA_fast", "MACD_2_3_2_EMA_slow",
    "MACD_2_3_2_signal_line"] := allNames_macd _ _ _ _ _ _
theorem names_tSMAm : tSMAm.allNames = ["SMA_2"] := allNames_leafTop _ _ _ rfl rfl

example (tf : Option Int) (htf : ∀ t, tf = some t → 0 < t) (fill : Bool) (tfn : Option String)
    (init : List (Candle Int)) (chunks : List (List (Candle Int))) (hraw : RawTf (init ++ chunks.flatten))
    (H : Hexital Int) (hlive : pairRun tMACD tSMAm { tf := tf, fill := fill && tf.isSome } tfn init chunks = .ok H) :
    ∃ Hb, pairRun tMACD tSMAm { tf := tf, fill := fill && tf.isSome } tfn (init ++ chunks.flatten) [] = .ok Hb ∧
      Hb.managers = H.managers :=
  C01_pair_more tf htf fill srcMACD 4 depSMAm 4 (by rw [show mkTop _ _ _ = tMACD from rfl, names_tMACD]; decide)
    (by
      rw [show mkTop (.macd 2 3 2 "close" : Kind Int) "MACD_2_3_2" 4 = tMACD from rfl,
        show mkTop (.sma 2 "MACD_2_3_2.MACD" : Kind Int) "SMA_2" 4 = tSMAm from rfl, names_tMACD, names_tSMAm]
      decide)
    tfn init chunks hraw H hlive

example : (numColumn "SMA_2" none (pairRun tMACD tSMAm {} none [] [demo6.take 1, demo6.drop 1])).map
    (·.map Option.isSome) = some [false, false, false, true, true, true] := by decide +kernel

/-! ### further dependents: MACD, HMA, STOCH, STDEVTHRES, KC, Counter, Amorph over SMA_2; EMA over an RSI source -/

example : DepVia (F := Int) "SMA_2" "MACD_2_3_2" (.macd 2 3 2 "SMA_2") :=
  .macd 2 3 2 "SMA_2" (by decide) (by decide) (by decide)
    ⟨by decide, by decide, by decide, by decide, by decide, by decide, by decide, by decide, by decide, by decide⟩
    (InputVia.ofInput (Or.inl ⟨rfl, by decide⟩) _ (by decide))
theorem depHMA : DepVia (F := Int) "SMA_2" "HMA_2" (.hma 2 "SMA_2") :=
  .hma 2 "SMA_2" (by decide)
    ⟨by decide, by decide, by decide, by decide, by decide, by decide, by decide, by decide, by decide, by decide,
      by decide, by decide, by decide, by decide, by decide⟩ (InputVia.ofInput (Or.inl ⟨rfl, by decide⟩) _ (by decide))
example : DepVia (F := Int) "SMA_2" "STOCH_2" (.stoch 2 2 2 "SMA_2") :=
  .stoch 2 2 2 "SMA_2" (by decide) (by decide) (by decide)
    ⟨by decide, by decide, by decide, by decide, by decide, by decide, by decide, by decide, by decide, by decide⟩
    (InputVia.ofInput (Or.inl ⟨rfl, by decide⟩) _ (by decide))
example : DepVia (F := Int) "SMA_2" "TSI_3_1" (.tsi 3 1 "SMA_2") :=
  .tsi 3 1 "SMA_2" (by decide) (by decide)
    ⟨by decide, by decide, by decide, by decide, by decide, by decide, by decide, by decide, by decide,
      by decide, by decide, by decide, by decide, by decide, by decide, by decide, by decide, by decide,
      by decide, by decide, by decide⟩ (InputVia.ofInput (Or.inl ⟨rfl, by decide⟩) _ (by decide))
example : DepVia (F := Int) "SMA_2" "TH_2" (.stdevthres 2 "SMA_2" (.int 1)) :=
  .stdevthres 2 "SMA_2" _ (by decide) ⟨by decide, ⟨by decide, by decide, by decide⟩, by decide, by decide⟩
    (InputVia.ofInput (Or.inl ⟨rfl, by decide⟩) _ (by decide))
example : DepVia (F := Int) "SMA_2" "KC_2" (.kc 2 "SMA_2" (.int 2)) :=
  .kc 2 "SMA_2" _ (by decide) ⟨by decide, by decide, by decide, by decide, by decide, by decide, by decide,
    by decide, by decide⟩ (InputVia.ofInput (Or.inl ⟨rfl, by decide⟩) _ (by decide))
example : DepVia (F := Int) "SMA_2" "STDEV_2" (.stdev 2 "SMA_2") :=
  .stdev 2 "SMA_2" (by decide) ⟨by decide, by decide, by decide⟩ (InputVia.ofInput (Or.inl ⟨rfl, by decide⟩) _ (by decide))
example : DepVia (F := Int) "SMA_2" "rising_2" (.amorph (.rising "SMA_2" 2)) :=
  .amorph _ (fun nm hnm => Or.inr ⟨"SMA_2", by simp, by
    simp only [Analysis.names, List.mem_singleton] at hnm; subst hnm; exact Or.inl ⟨rfl, by decide⟩, by decide⟩)
/-- a dotted field of a dict-valued source as the input of a composite: RSI over the middle Bollinger band -/
example : DepVia (F := Int) "BB_2" "RSI_2" (.rsi 2 "BB_2.BBM") :=
  .rsi 2 "BB_2.BBM" (by decide) ⟨by decide, by decide, by decide, by decide⟩ (by decide)
    (InputVia.ofInput (Or.inr ⟨"BBM", by decide⟩) _ (by decide))

def tHMA : Ind Int := mkTop (.hma 2 "SMA_2") "HMA_2" 4
example : (numColumn "HMA_2" none (pairRun tSMA tHMA {} none [] [demo6.take 2, demo6.drop 2]))
    = numColumn "HMA_2" none (pairRun tSMA tHMA {} none demo6 []) := by decide +kernel
example : (numColumn "HMA_2" none (pairRun tSMA tHMA {} none [] [demo6.take 2, demo6.drop 2])).map
    (·.map Option.isSome) = some [false, false, true, true, true, true] := by decide +kernel

/-! ### a chain of three: SMA_2 → RSI_2 over "SMA_2" → EMA_3 over "RSI_2" -/

def tRSIs : Ind Int := mkTop (.rsi 2 "SMA_2") "RSI_2" 4
def tEMA3 : Ind Int := mkTop (.ema 3 "RSI_2" (.int 2)) "EMA_3" 4

theorem names_tRSIs : tRSIs.allNames = ["RSI_2", "RSI_2_data"] := allNames_rsiTop _ _ _ _
theorem names_tEMA3 : tEMA3.allNames = ["EMA_3"] := allNames_leafTop _ _ _ rfl rfl

theorem demoChain3 : CoveredChain (F := Int) [] [tSMA, tRSIs, tEMA3] :=
  .cons [] [] "SMA_2" _ 4 tRSIs [tEMA3] srcSMA2 (fun x hx => by cases hx)
    (by
      rw [show mkTop (.sma 2 "close" : Kind Int) "SMA_2" 4 = tSMA from rfl, names_tSMA]
      simp only [namesOf, List.flatMap_cons, List.flatMap_nil, names_tRSIs, names_tEMA3]
      decide)
    (.cons _ ["SMA_2"] "RSI_2" _ 4 tEMA3 []
      (.rsi 2 "SMA_2" (by decide) ⟨by decide, by decide, by decide, by decide⟩ (by decide)
        (InputVia.ofInput (Or.inl ⟨rfl, by decide⟩) _ (by decide)))
      (by rw [show mkTop (.sma 2 "close" : Kind Int) "SMA_2" 4 = tSMA from rfl, names_tSMA]; decide)
      (by
        rw [show mkTop (.sma 2 "close" : Kind Int) "SMA_2" 4 = tSMA from rfl,
          show mkTop (.rsi 2 "SMA_2" : Kind Int) "RSI_2" 4 = tRSIs from rfl, names_tSMA, names_tRSIs]
        simp only [namesOf, List.flatMap_cons, List.flatMap_nil, names_tEMA3]
        decide)
      (.single _ ["RSI_2"] "EMA_3" _ 4
        (.leaf "RSI_2" _ (.ema 3 (.int 2) (by decide)) (by decide)
          (InputVia.ofInput (Or.inl ⟨rfl, by decide⟩) _ (by decide)))
        (by
          rw [show mkTop (.sma 2 "close" : Kind Int) "SMA_2" 4 = tSMA from rfl,
            show mkTop (.rsi 2 "SMA_2" : Kind Int) "RSI_2" 4 = tRSIs from rfl, names_tSMA, names_tRSIs]
          decide)))

example (tf : Option Int) (htf : ∀ t, tf = some t → 0 < t) (fill : Bool) (tfn : Option String)
    (init : List (Candle Int)) (chunks : List (List (Candle Int))) (hraw : RawTf (init ++ chunks.flatten))
    (H : Hexital Int)
    (hlive : chainRun [tSMA, tRSIs, tEMA3] { tf := tf, fill := fill && tf.isSome } tfn init chunks = .ok H) :
    ∃ Hb, chainRun [tSMA, tRSIs, tEMA3] { tf := tf, fill := fill && tf.isSome } tfn (init ++ chunks.flatten) []
        = .ok Hb ∧ Hb.managers = H.managers := by
  obtain ⟨Hb, hb, hm, _⟩ := C01_chain_more_tf demoChain3 tf htf fill tfn init chunks hraw H hlive
  exact ⟨Hb, hb, hm⟩

/-- SMA_2 from index 1, RSI_2 over it from index 3, EMA_3 over that (three inputs) from index 5 -/
example : (numColumn "EMA_3" none (chainRun [tSMA, tRSIs, tEMA3] {} none [] [demo6.take 3, demo6.drop 3])).map
    (·.map Option.isSome) = some [false, false, false, false, false, true] := by decide +kernel

end Hex.Chain.DemoMore

import HexProofs.Framework.Gen.ChainMoreBase
/-
Indicator-on-indicator inputs, part 2: STOCH (own `_data` series driving two managed SMAs) over ANY input
seen through read keys.  The node's component is `stochCompP` of Gen/STOCH.lean with the read keys extended
by `rk` (value, store and pass are unchanged); of its laws only key locality and stability mention the input.
-/
namespace Hex.Chain
set_option linter.unusedSectionVars false
set_option linter.unusedSimpArgs false
set_option linter.unusedVariables false
set_option linter.unnecessarySeqFocus false
variable {F : Type} [PyF F]

section stoch
variable (name : String) (round : Nat) (p slow smoothK : Int) (input : String) (rk : List String)

/-- the STOCH node's own step, reading the input through `rk` -/
def stochCompPG : TComp F :=
  { stochCompP (F := F) name round p slow smoothK input with
    rkeys := [name ++ "_data", name ++ "_k", name ++ "_d"] ++ rk }

theorem stochCompPG_rowFrom (H R : List (Candle F)) :
    (stochCompPG (F := F) name round p slow smoothK input rk).rowFrom H R
      = (stochCompP (F := F) name round p slow smoothK input).rowFrom H R := rfl

variable (hn : StochNames name) (hp : 1 ≤ p) (hs : 1 ≤ slow) (hk : 1 ≤ smoothK)
  (hv : InputVia F rk input [name, name ++ "_data", name ++ "_k", name ++ "_d"])
include hn hv

theorem stochVal_simG (H H' : List (Candle F)) (c c' : Candle F)
    (hH : SimL ([name ++ "_data", name ++ "_k", name ++ "_d"] ++ rk) H H')
    (hc : SimK ([name ++ "_data", name ++ "_k", name ++ "_d"] ++ rk) c c') :
    stochVal name p slow smoothK input H c = stochVal name p slow smoothK input H' c' := by
  unfold stochVal
  rw [stochR_congr p input _ _
    (sameCol_simL _ "low" (sees_attr _ _ noDot_low (by decide)) hH hc name)
    (sameCol_simL _ "high" (sees_attr _ _ noDot_high (by decide)) hH hc name)
    (sameCol_simL _ input (hv.seesAt _) hH hc name)]
  simp only [stochVal2_sim name slow smoothK hn H H' c c'
    (hH.mono (fun k hk => List.mem_append_left _ hk)) (hc.mono (fun k hk => List.mem_append_left _ hk))]

theorem stochVal_stableG (H : List (Candle F)) (c : Candle F) (z : Option (Val F × Val F × Val F) × Val F)
    (hraw : hasKey (name ++ "_data") c = false) :
    stochVal name p slow smoothK input H (stochApp name round z c) = stochVal name p slow smoothK input H c := by
  have hat : ∀ nm, NoDot nm → nm ∈ Candle.attrNames →
      readingByCandle (stochApp name round z c) nm = readingByCandle c nm := fun nm h1 h2 =>
    rbc_stochApp name round nm (indep_attr _ _ h1 h2) (indep_attr _ _ h1 h2) (indep_attr _ _ h1 h2)
      (indep_attr _ _ h1 h2) z c
  have hinp : readingByCandle (stochApp name round z c) input = readingByCandle c input :=
    rbc_stochApp name round input (hv.indep name (by simp)) (hv.indep (name ++ "_data") (by simp))
      (hv.indep (name ++ "_k") (by simp)) (hv.indep (name ++ "_d") (by simp)) z c
  unfold stochVal
  rw [stochR_congr p input _ _
    (sameCol_last "low" H c _ name (hat "low" noDot_low (by decide)))
    (sameCol_last "high" H c _ name (hat "high" noDot_high (by decide)))
    (sameCol_last input H c _ name hinp)]
  have hD := inds_of_noKey _ c hraw
  have hD' : dlookup (name ++ "_data") (stochApp name round z c).inds = none := by
    rw [inds_stochApp name round _ hn.nD]; exact hD
  simp only [stochVal2_cur name slow smoothK hn H c _ hD hD']

include hp hs hk in
/-- **the laws of the STOCH node's own step over any input** -/
theorem stochCompPG_law : TComp.Law (stochCompPG (F := F) name round p slow smoothK input rk) where
  name_w := by simp [stochCompPG, stochCompP]
  app_frame := fun z c => frameK_stochApp name round z c
  app_key := fun z c => hasKey_setKey _ _ _ _
  app_entries := fun z c => entries_stochApp name round z c
  app_sim := fun keys z c c' h => simK_stochApp name round keys z c c' h
  raw_nokey := fun c h => h.1
  raw_of := fun c h => ⟨h name (by simp [stochCompPG, stochCompP]), h (name ++ "_data") (by simp [stochCompPG, stochCompP]),
    h (name ++ "_k") (by simp [stochCompPG, stochCompP]), h (name ++ "_d") (by simp [stochCompPG, stochCompP])⟩
  val_sim := fun H H' c c' hs hc => stochVal_simG name p slow smoothK input rk hn hv H H' c c' hs hc
  stable := by
    intro H c z hraw hvv
    show stochVal name p slow smoothK input H (stochApp name round z c) = .ok z
    rw [stochVal_stableG name round p slow smoothK input rk hn hv H c z hraw.2.1]
    exact hvv
  absorb := fun z c d _ hd => stochApp_absorb name round hn z c d hd
  settled_nil := ⟨(by intro d hd; cases hd), windowInv_nil _ _, windowInv_nil _ _⟩
  settled_step := by
    intro H r z hs' hraw hvv
    have hi := stoch_settled_step name round p slow smoothK input hn H r z hs'.2.1 hs'.2.2
      hraw.2.2.1 hraw.2.2.2 hvv
    refine ⟨?_, hi.1, hi.2⟩
    intro d hd
    rcases List.mem_append.1 hd with h | h
    · exact hs'.1 d h
    · simp at h; subst h; exact hasKey_setKey _ _ _ _
  settled_sim := by
    intro H H' hs' hsim
    refine ⟨?_, ?_, ?_⟩
    · intro d' hd'
      obtain ⟨d, hd, hdd⟩ := TComp.forall₂_mem_right' hsim d' hd'
      rw [← hasKey_simK (keys := (stochCompPG (F := F) name round p slow smoothK input rk).rkeys ++
        (stochCompPG (F := F) name round p slow smoothK input rk).wkeys) (by simp [stochCompPG, stochCompP]) hdd]
      exact hs'.1 d hd
    · intro hne
      rw [← lastReading_simL (name ++ "_k") hn.kK _ (by simp [stochCompPG, stochCompP]) hsim] at hne
      rw [← hsim.length_eq]
      exact hs'.2.1 hne
    · intro hne
      rw [← lastReading_simL (name ++ "_d") hn.kd _ (by simp [stochCompPG, stochCompP]) hsim] at hne
      rw [← hsim.length_eq]
      exact hs'.2.2 hne
  pass_iff := by
    intro H R out hs' hR
    have key : Gen.nodeCalc (specWith (stochP name round p slow smoothK input)
          (stochC name p slow smoothK input)) (H ++ R)
        = (stochCompP name round p slow smoothK input).rowFrom H R := by
      unfold Gen.nodeCalc
      have hnm : (specWith (stochP (F := F) name round p slow smoothK input)
          (stochC name p slow smoothK input)).name = name :=
        stochP_name (F := F) name round p slow smoothK input
      rw [hnm, findCalcIndex_split name H R hs'.1 (fun r hr => (hR r hr).1)]
      have : (H ++ R).length - H.length = R.length := by simp
      rw [this]
      exact nodeLoop_runS name round p slow smoothK input hn hp hs hk R H hs'.2.1 hs'.2.2 hR
    show Gen.nodeCalc (specWith (stochP name round p slow smoothK input)
      (stochC name p slow smoothK input)) (H ++ R) = .ok out ↔ _
    rw [key, stochCompPG_rowFrom]

/-- **the STOCH tree over any input seen through `rk`** (`period ≥ 2`) -/
def stochTreeCompG (hp2 : 2 ≤ p) : TreeComp (stochP (F := F) name round p slow smoothK input) where
  X := stochCompPG name round p slow smoothK input rk
  law := stochCompPG_law name round p slow smoothK input rk hn (Int.le_trans (by decide) hp2) hs hk hv
  pass_eq := fun cs => engineCalc_stoch name round p slow smoothK input hp2 cs
  wnames := by
    intro k hk'
    rw [allNames_stoch]
    simp [stochCompPG, stochCompP] at hk' ⊢
    rcases hk' with h | h | h | h <;> simp [h]

theorem stochTreeCompG_reads (hp2 : 2 ≤ p) :
    (stochTreeCompG (F := F) name round p slow smoothK input rk hn hs hk hv hp2).ReadsWithin
      (rk ++ (stochP (F := F) name round p slow smoothK input).allNames) := by
  intro k hk'
  rw [allNames_stoch]
  simp [stochTreeCompG, stochCompPG, stochCompP] at hk' ⊢
  rcases hk' with h | h | h | h <;> simp [h]

end stoch

end Hex.Chain

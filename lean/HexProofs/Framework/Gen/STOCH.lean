import HexProofs.Framework.Gen.MACD
import HexProofs.Framework.Gen.ManagedSubs
/-
Family (3b): Stochastic – no prior helpers; a `Managed` holder `STOCH_data` (series `<name>_data`,
a dict) with one NON-PRIOR leaf sub-indicator (`<name>_k` = SMA over the dotted input
`<name>_data.stoch`) and a managed leaf `STOCH_d` (`<name>_d` = SMA over `<name>_data.k`).  The
node's `_calculate_reading(i)` stores `{"stoch"}` through `Managed.set_reading` (which drives
`<name>_k` by `calculate_index(i, i+1)`), reads `<name>_k` back, stores `{"stoch", "k"}` (driving
`<name>_k` once more), drives `<name>_d` by `calculate_index(i)` and reads it back: four keys
written per candle from inside the node's own step.
-/
namespace Hex
set_option linter.unusedSectionVars false
variable {F : Type} [PyF F]

section stoch
variable (name : String) (round : Nat) (p slow smoothK : Int) (input : String)

/-- the STOCH tree and its helpers -/
def stochP : Ind F := mkTop (.stoch p slow smoothK input) name round
/-- the non-prior leaf under the `Managed` holder: SMA over the holder's field `stoch` -/
def stochK : Ind F := leaf (.sma smoothK (name ++ "_data.stoch")) (name ++ "_k") false
/-- the `Managed` holder `STOCH_data` -/
def stochM : Ind F := .mk .managed (name ++ "_data") defaultRound true true [stochK name smoothK] []
/-- the managed leaf `STOCH_d`: SMA over the holder's field `k` -/
def stochD : Ind F := leaf (.sma slow (name ++ "_data.k")) (name ++ "_d")

theorem stochP_name : (stochP (F := F) name round p slow smoothK input).name = name := mkTop_name _ _ _
theorem stochP_kind : (stochP (F := F) name round p slow smoothK input).kind = .stoch p slow smoothK input :=
  mkTop_kind _ _ _
theorem stochP_isSub : (stochP (F := F) name round p slow smoothK input).isSub = false := rfl
theorem stochP_round : (stochP (F := F) name round p slow smoothK input).round = round := rfl
theorem stochP_subs : (stochP (F := F) name round p slow smoothK input).subs = [] := rfl
theorem stochP_managed : (stochP (F := F) name round p slow smoothK input).managed
    = [("STOCH_data", stochM name smoothK), ("STOCH_d", stochD name slow)] := rfl
theorem stochK_name : (stochK (F := F) name smoothK).name = name ++ "_k" := rfl
theorem stochD_name : (stochD (F := F) name slow).name = name ++ "_d" := rfl
theorem stochM_subs : (stochM (F := F) name smoothK).subs = [stochK name smoothK] := rfl

theorem stochK_leaf : IsLeaf (stochK (F := F) name smoothK) := ⟨rfl, rfl, rfl⟩
theorem stochD_leaf : IsLeaf (stochD (F := F) name slow) := ⟨rfl, rfl, rfl⟩

theorem stochM_post : PostLeaves (stochM (F := F) name smoothK).subs := by
  intro s hs
  rw [stochM_subs] at hs
  simp only [List.mem_singleton] at hs
  subst hs
  exact ⟨stochK_leaf name smoothK, rfl⟩

/-! ### the node's reading function, without fuel -/

/-- the helper services of the STOCH node at index `i`, without fuel and without the index-0
fallback: `Managed.set_reading` stores the dict and steps `<name>_k`; `calculate_index(i)` of
`STOCH_d` is one unconditional leaf step -/
def stochOps (i : Int) : Ops F where
  setManaged := fun _ v cs => do
    let cs₁ ← setReading true (name ++ "_data") cs i v
    stepLeaf (stochK name smoothK) cs₁ i
  calcManaged := fun _ cs => stepLeaf (stochD name slow) cs i

/-- `_calculate_reading(i)` of the STOCH node as the engine runs it -/
def stochC : List (Candle F) → Int → PyM (Val F × List (Candle F)) :=
  fun cs i => Calc.stoch (stochOps name slow smoothK i) { cs := cs, i := i, name := name } p input

/-- the guard of `Calc.stoch` puts the active index at `≥ 1` (`period ≥ 2`) -/
theorem st_readingPeriod_pos (x : Ctx F) (q : Int) (inp : String) (hq : 2 ≤ q)
    (h : x.readingPeriod q inp = true) : 0 < x.i := by
  have := readingPeriod_true_bound x.cs q inp x.i h
  omega

/-- `Calc.stoch` only uses the two helper services behind its guard, i.e. at an index `≥ 1` -/
theorem stoch_ops_congr (ops ops' : Ops F) (x : Ctx F) (q : Int) (inp : String) (hq : 2 ≤ q)
    (h1 : 0 < x.i → ∀ v cs, ops.setManaged "STOCH_data" v cs = ops'.setManaged "STOCH_data" v cs)
    (h2 : 0 < x.i → ∀ cs, ops.calcManaged "STOCH_d" cs = ops'.calcManaged "STOCH_d" cs) :
    Calc.stoch ops x q inp = Calc.stoch ops' x q inp := by
  unfold Calc.stoch
  by_cases hg : x.readingPeriod q inp = true
  · have hpos := st_readingPeriod_pos x q inp hq hg
    simp only [h1 hpos, h2 hpos]
  · simp only [hg, Bool.not_false, if_true]

/-- **the engine's `_calculate_reading` of the STOCH node** (`period ≥ 2`), any fuel `≥ 7` -/
theorem calcReading_stoch (hp : 2 ≤ p) (f : Nat) (cs : List (Candle F)) (i : Int) :
    calcReading (f + 7) (stochP (F := F) name round p slow smoothK input) cs i
      = stochC name p slow smoothK input cs i := by
  rw [calcReading]
  unfold calcKind
  rw [stochP_kind]
  simp only
  unfold stochC
  rw [stochP_name]
  apply stoch_ops_congr _ _ _ p input hp
  · intro hpos v cs
    have hg : (stochP (F := F) name round p slow smoothK input).getManaged "STOCH_data"
        = .ok (stochM name smoothK) :=
      getManaged_eq _ _ _ (by rw [stochP_managed]; simp [dlookup])
    show (do let m ← (stochP (F := F) name round p slow smoothK input).getManaged "STOCH_data"
             setManagedReading (f + 6) m cs i v) = _
    rw [hg]
    simp only [bind, Except.bind]
    rw [setManagedReading_postLeaves (stochM name smoothK) (stochM_post name smoothK) (f + 6)
      (by rw [stochM_subs]; simp only [List.length_singleton]; omega) cs i hpos v]
    show (do
      let cs₁ ← setReading true (name ++ "_data") cs i v
      [stochK name smoothK].foldlM (fun cs s => stepLeaf s cs i) cs₁) = _
    unfold stochOps
    simp only [List.foldlM_cons, List.foldlM_nil, bind_pure_id]
  · intro hpos cs
    have hg : (stochP (F := F) name round p slow smoothK input).getManaged "STOCH_d"
        = .ok (stochD name slow) :=
      getManaged_eq _ _ _ (by rw [stochP_managed]; simp [dlookup])
    show (do let m ← (stochP (F := F) name round p slow smoothK input).getManaged "STOCH_d"
             calculateIndex (f + 6) m cs i (i + 1)) = _
    rw [hg]
    simp only [bind, Except.bind]
    rw [calculateIndex_leaf_single (stochD name slow) (stochD_leaf name slow) (f + 6) cs i (by omega)]
    rfl

/-- `calcLoop` of a node whose `_calculate_reading` is `C` at any fuel `≥ b` -/
theorem st_calcLoop_withB (ind : Ind F) (C : List (Candle F) → Int → PyM (Val F × List (Candle F))) (b : Nat) (hb : 1 ≤ b)
    (hC : ∀ f cs i, calcReading (f + b) ind cs i = C cs i) :
    ∀ (n fuel : Nat) (cs : List (Candle F)) (k : Nat), n + b ≤ fuel →
      calcLoop fuel ind cs k n = Gen.nodeLoop (specWith ind C) cs k n := by
  intro n
  induction n with
  | zero =>
    intro fuel cs k hf
    obtain ⟨f, rfl⟩ : ∃ f, fuel = f + 1 := ⟨fuel - 1, by omega⟩
    rw [calcLoop]
    · rfl
    · intro h0; omega
  | succ n ih =>
    intro fuel cs k hf
    obtain ⟨f, rfl⟩ : ∃ f, fuel = (f + b) + 1 := ⟨fuel - b - 1, by omega⟩
    rw [calcLoop, Gen.nodeLoop]
    cases hc : pyIndex cs (k : Int) with
    | error e => rfl
    | ok c =>
      simp only [bind, Except.bind]
      show (do
        let cs ← if present ind.name c then pure cs else do
          let (v, cs) ← calcReading (f + b) ind cs k
          setReading ind.isSub ind.name cs k (v.roundBy ind.round)
        calcLoop (f + b) ind cs (k + 1) n) = _
      rw [hC f]
      simp only [bind, Except.bind, specWith, stepWith]
      by_cases hp : present ind.name c = true
      · simp only [hp, if_true, pure, Except.pure]
        exact ih (f + b) cs (k + 1) (by omega)
      · simp only [hp, Bool.false_eq_true, if_false]
        cases hr : C cs (k : Int) with
        | error e => rfl
        | ok r =>
          simp only
          cases hs : setReading ind.isSub ind.name r.2 (k : Int) (r.1.roundBy ind.round) with
          | error e => rfl
          | ok cs' => exact ih (f + b) cs' (k + 1) (by omega)

/-- **the engine on the STOCH tree**: the node's own loop, whose step writes `<name>_data`,
`<name>_k`, `<name>_d` and the node's key -/
theorem engineCalc_stoch (hp : 2 ≤ p) (cs : List (Candle F)) :
    engineCalc (stochP (F := F) name round p slow smoothK input) cs
      = Gen.nodeCalc (specWith (stochP name round p slow smoothK input) (stochC name p slow smoothK input)) cs := by
  unfold engineCalc fuelFor
  rw [calculate_succ, stochP_subs]
  obtain ⟨f, hf⟩ : ∃ f, 16 + 2 * cs.length = f + 1 := ⟨15 + 2 * cs.length, by omega⟩
  rw [hf, calcSubs_nil]
  simp only [bind, Except.bind]
  rw [st_calcLoop_withB (stochP name round p slow smoothK input) (stochC name p slow smoothK input) 7 (by omega)
    (calcReading_stoch name round p slow smoothK input hp) _ _ _ _ (by omega)]
  unfold Gen.nodeCalc
  have hn : (specWith (stochP (F := F) name round p slow smoothK input) (stochC name p slow smoothK input)).name
      = (stochP (F := F) name round p slow smoothK input).name := rfl
  rw [hn]
  cases Gen.nodeLoop (specWith (stochP name round p slow smoothK input) (stochC name p slow smoothK input)) cs
      (findCalcIndex (stochP (F := F) name round p slow smoothK input).name cs)
      (cs.length - findCalcIndex (stochP (F := F) name round p slow smoothK input).name cs) with
  | error e => rfl
  | ok cs' => simp only [calcSubs_nil]

end stoch
end Hex

namespace Hex
set_option linter.unusedSectionVars false
variable {F : Type} [PyF F]

/-! ### names -/

/-- a dotted name `<s>.<fld>` addresses the field `fld` of the entry under `s` -/
theorem st_splitDot_field (s fld : String) (h : NoDot s) (hf : '.' ∉ fld.toList) :
    splitDot (s ++ "." ++ fld) = [s, fld] := by
  have hm := noDot_not_mem s h
  unfold splitDot
  have e : (s ++ "." ++ fld).toList = s.toList ++ '.' :: fld.toList := by
    rw [String.toList_append, String.toList_append]
    show (s.toList ++ ['.']) ++ fld.toList = _
    simp
  rw [e, List.splitOn_append_cons_self_of_not_mem hm, List.splitOn_eq_singleton hf]
  simp

/-- name conditions of a STOCH node: the node's name and the three helper names are ordinary keys
(no dot, not a candle attribute) and pairwise distinct -/
structure StochNames (name : String) : Prop where
  kN : IsKey name
  kD : IsKey (name ++ "_data")
  kK : IsKey (name ++ "_k")
  kd : IsKey (name ++ "_d")
  nD : name ≠ name ++ "_data"
  nK : name ≠ name ++ "_k"
  nd : name ≠ name ++ "_d"
  DK : name ++ "_data" ≠ name ++ "_k"
  Dd : name ++ "_data" ≠ name ++ "_d"
  Kd : name ++ "_k" ≠ name ++ "_d"

theorem StochNames.dotS {name : String} (hn : StochNames name) :
    splitDot (name ++ "_data.stoch") = [name ++ "_data", "stoch"] := by
  have e : name ++ "_data.stoch" = name ++ "_data" ++ "." ++ "stoch" := by
    rw [String.append_assoc, String.append_assoc]
    have : "_data" ++ ("." ++ "stoch") = "_data.stoch" := by decide
    rw [this]
  rw [e]
  exact st_splitDot_field _ _ hn.kD.noDot (by decide)

theorem StochNames.dotK {name : String} (hn : StochNames name) :
    splitDot (name ++ "_data.k") = [name ++ "_data", "k"] := by
  have e : name ++ "_data.k" = name ++ "_data" ++ "." ++ "k" := by
    rw [String.append_assoc, String.append_assoc]
    have : "_data" ++ ("." ++ "k") = "_data.k" := by decide
    rw [this]
  rw [e]
  exact st_splitDot_field _ _ hn.kD.noDot (by decide)

/-! ### small facts about candles and dicts -/

theorem st_frameK_refl (keys : List String) (c : Candle F) : FrameK keys c c := ⟨rfl, fun _ _ => ⟨rfl, rfl⟩⟩

theorem st_entries_setKey (isSub : Bool) (k : String) (v : Val F) (c : Candle F) :
    (∀ q ∈ (setKey isSub k v c).inds, q ∈ c.inds ∨ q.1 = k) ∧
    (∀ q ∈ (setKey isSub k v c).subs, q ∈ c.subs ∨ q.1 = k) := by
  cases isSub
  · exact ⟨fun q hq => mem_dset _ _ _ q hq, fun q hq => Or.inl hq⟩
  · exact ⟨fun q hq => Or.inl hq, fun q hq => mem_dset _ _ _ q hq⟩

theorem st_setKey_sub_absorb (k : String) (v : Val F) (d : Candle F) (h : dlookup k d.subs = some v) :
    setKey true k v d = d := by
  simp [setKey, dset_absorb k v d.subs h]

theorem st_setKey_ind_absorb (k : String) (v : Val F) (d : Candle F) (h : dlookup k d.inds = some v) :
    setKey false k v d = d := by
  simp [setKey, dset_absorb k v d.inds h]

theorem st_subs_of_noKey (name : String) (c : Candle F) (h : hasKey name c = false) :
    dlookup name c.subs = none := by
  unfold hasKey dhas at h
  cases hl : dlookup name c.subs with
  | none => rfl
  | some v => simp [hl] at h

theorem st_rbc_noKey (k : String) (hk : IsKey k) (c : Candle F) (h : hasKey k c = false) :
    readingByCandle c k = .none := by
  rw [readingByCandle_key k hk]
  unfold lookupKey
  rw [inds_of_noKey k c h, st_subs_of_noKey k c h]

/-- re-setting two keys in turn collapses to setting each once (Python dict: replace in place) -/
theorem st_dset_collapse {α : Type} (k1 k2 : String) (hne : k1 ≠ k2) (a a' : α) (b : α) (l : List (String × α)) :
    dset k1 a' (dset k2 b (dset k1 a l)) = dset k2 b (dset k1 a' l) := by
  induction l with
  | nil => simp [dset, hne]
  | cons q r ih =>
    obtain ⟨k', v'⟩ := q
    by_cases h1 : k' = k1
    · subst h1
      simp [dset, hne]
    · by_cases h2 : k' = k2
      · subst h2
        simp [dset, h1, dset_dset_self]
      · simp [dset, h1, h2, ih]

theorem st_setKey_collapse (k1 k2 : String) (hne : k1 ≠ k2) (a a' b b' : Val F) (c : Candle F) :
    setKey true k2 b' (setKey true k1 a' (setKey true k2 b (setKey true k1 a c)))
      = setKey true k2 b' (setKey true k1 a' c) := by
  simp only [setKey, if_true]
  rw [st_dset_collapse k1 k2 hne, dset_dset_self]

/-- a dotted name does not see entries under other keys -/
theorem st_indep_dotted (k full D fld : String) (hs : splitDot full = [D, fld]) (hne : k ≠ D) :
    Indep F k full := by
  intro isSub v c
  unfold readingByCandle
  rw [hs]
  cases isSub <;> simp [setKey, dlookup_dset_ne _ _ _ _ hne]

/-! ### an SMA at the end of a history satisfying its invariant -/

/-- the SMA reading at index `H.length` only depends on the history and on what the current candle
reads under the input name -/
theorem st_sma_last (H : List (Candle F)) (c c' : Candle F) (nm : String) (q : Int) (inp : String)
    (h : readingByCandle c' inp = readingByCandle c inp) :
    Calc.sma { cs := H ++ [c'], i := H.length, name := nm } q inp
      = Calc.sma { cs := H ++ [c], i := H.length, name := nm } q inp := by
  refine sma_congr _ _ q inp (sameCol_last inp H c c' nm h) ?_ ?_
  · rw [Ctx.prevExists_append_cons, Ctx.prevExists_append_cons]
  · rw [Ctx.prevNum_append_cons, Ctx.prevNum_append_cons]

/-- no look-ahead for an SMA at the end of a history satisfying its invariant -/
theorem st_sma_loc (H : List (Candle F)) (c : Candle F) (rest : List (Candle F)) (nm : String) (q : Int)
    (inp : String) (hq : 1 ≤ q) (hinv : WindowInv nm q H) :
    Calc.sma { cs := H ++ c :: rest, i := H.length, name := nm } q inp
      = Calc.sma { cs := H ++ [c], i := H.length, name := nm } q inp := by
  rw [← trunc_append_cons H c rest]
  refine (sma_trunc _ q inp (by simp) (by simp) hq ?_).symm
  intro v hv hnn
  rw [Ctx.prevReading_append_cons] at hv
  cases hv
  exact hinv hnn

/-- one unconditional step of an SMA leaf (stored in `.sub_indicators`) at the end of such a history -/
theorem st_stepLeaf_sma (Z : Ind F) (q : Int) (inp : String) (hk : Z.kind = .sma q inp) (hsub : Z.isSub = true)
    (hr : Z.round = defaultRound) (H : List (Candle F)) (c c₀ : Candle F) (rest : List (Candle F))
    (hq : 1 ≤ q) (hinv : WindowInv Z.name q H) (h : readingByCandle c inp = readingByCandle c₀ inp) :
    stepLeaf Z (H ++ c :: rest) H.length = (do
      let s ← Calc.sma { cs := H ++ [c₀], i := H.length, name := Z.name } q inp
      pure (H ++ setKey true Z.name (s.roundBy defaultRound) c :: rest)) := by
  rw [stepLeaf_append_cons, hk, hsub, hr]
  show (do
    let v ← Calc.sma { cs := H ++ c :: rest, i := H.length, name := Z.name } q inp
    pure (H ++ setKey true Z.name (v.roundBy defaultRound) c :: rest)) = _
  rw [st_sma_loc H c rest Z.name q inp hq hinv, st_sma_last H c₀ c Z.name q inp h]

end Hex

namespace Hex
set_option linter.unusedSectionVars false
variable {F : Type} [PyF F]

/-! ### the reading part of the node -/

/-- the reading before the window is full -/
def stochNone : Val F := sdict [("stoch", .none), ("k", .none), ("d", .none)]

/-- the raw stochastic value: the position of `input` in the low/high range of the window -/
def stochSt (x : Ctx F) (p : Int) (input : String) : PyM (Num F) := do
  let idxs := pyRange (x.i - (p - 1)) (x.i + 1)
  let lows ← idxs.mapM fun i => x.num "low" (some i)
  let highs ← idxs.mapM fun i => x.num "high" (some i)
  let lowest ← match Num.minList lows with | some v => pure v | none => .error .valueError
  let highest ← match Num.maxList highs with | some v => pure v | none => .error .valueError
  let range := highest.sub lowest
  if range.eq (.int 0) then pure (fl 0) else do
    pure ((← ((← x.num input).sub lowest).truediv range).mul (.int 100))

/-- the pure reading part of STOCH: the raw value once the window is full -/
def stochR (p : Int) (input : String) (x : Ctx F) : PyM (Option (Num F)) :=
  if x.readingPeriod p input then do let st ← stochSt x p input; pure (some st) else pure none

/-- the tail of `Calc.stoch` after the raw value: the conversation with the managed helpers -/
def stochTail (ops : Ops F) (x : Ctx F) (st : Num F) : PyM (Val F × List (Candle F)) := do
  let cs ← ops.setManaged "STOCH_data" (sdict [("stoch", sc st)]) x.cs
  let k ← ({ x with cs := cs } : Ctx F).reading (x.name ++ "_k")
  let ks ← Val.toScalar k
  let cs ← ops.setManaged "STOCH_data" (sdict [("stoch", sc st), ("k", ks)]) cs
  let cs ← ops.calcManaged "STOCH_d" cs
  let d ← ({ x with cs := cs } : Ctx F).reading (x.name ++ "_d")
  return (sdict [("stoch", sc st), ("k", ks), ("d", ← Val.toScalar d)], cs)

theorem stoch_eq (ops : Ops F) (x : Ctx F) (p : Int) (input : String) :
    Calc.stoch ops x p input = (do
      match ← stochR p input x with
      | none => pure (stochNone, x.cs)
      | some st => stochTail ops x st) := by
  unfold Calc.stoch stochR stochSt stochTail stochNone
  by_cases hg : x.readingPeriod p input = true
  · simp only [hg, Bool.not_true, Bool.false_eq_true, if_false, if_true, bind, Except.bind, pure, Except.pure]
    cases List.mapM (fun i => x.num "low" (some i)) (pyRange (x.i - (p - 1)) (x.i + 1)) with
    | error e => rfl
    | ok lows =>
      simp only
      cases List.mapM (fun i => x.num "high" (some i)) (pyRange (x.i - (p - 1)) (x.i + 1)) with
      | error e => rfl
      | ok highs =>
        simp only
        cases Num.minList lows with
        | none => rfl
        | some lo =>
          simp only
          cases Num.maxList highs with
          | none => rfl
          | some hi =>
            simp only
            by_cases hr : (hi.sub lo).eq (.int 0) = true
            · simp only [hr, if_true]
            · simp only [hr, Bool.false_eq_true, if_false]
              cases x.num input with
              | error e => rfl
              | ok a =>
                simp only
                cases (a.sub lo).truediv (hi.sub lo) with
                | error e => rfl
                | ok q => rfl
  · simp only [hg, Bool.not_false, Bool.false_eq_true, if_false, if_true, pure_bind]

theorem stochSt_trunc (x : Ctx F) (p : Int) (input : String) (h0 : 0 ≤ x.i) (hb : 0 ≤ x.i - (p - 1)) :
    stochSt x.trunc p input = stochSt x p input := by
  unfold stochSt
  simp only [Ctx.trunc_i]
  have e1 : (pyRange (x.i - (p - 1)) (x.i + 1)).mapM (fun i => x.trunc.num "low" (some i))
      = (pyRange (x.i - (p - 1)) (x.i + 1)).mapM (fun i => x.num "low" (some i)) :=
    Ana.mapM_congr _ _ _ (fun q hq => by
      rw [Ana.mem_pyRange] at hq
      exact Ctx.num_trunc x "low" q (by omega) (by omega))
  have e2 : (pyRange (x.i - (p - 1)) (x.i + 1)).mapM (fun i => x.trunc.num "high" (some i))
      = (pyRange (x.i - (p - 1)) (x.i + 1)).mapM (fun i => x.num "high" (some i)) :=
    Ana.mapM_congr _ _ _ (fun q hq => by
      rw [Ana.mem_pyRange] at hq
      exact Ctx.num_trunc x "high" q (by omega) (by omega))
  rw [e1, e2, Ctx.num_trunc_cur x input h0]

theorem stochR_trunc (p : Int) (input : String) (x : Ctx F) (h0 : 0 ≤ x.i) (hi : x.i < x.cs.length)
    (hp : 1 ≤ p) : stochR p input x.trunc = stochR p input x := by
  unfold stochR
  rw [Ctx.readingPeriod_trunc x p input h0 hi hp]
  by_cases hg : x.readingPeriod p input = true
  · have hb := readingPeriod_true_bound x.cs p input x.i hg
    simp only [hg, if_true]
    rw [stochSt_trunc x p input h0 hb]
  · simp only [hg, Bool.false_eq_true, if_false]

theorem stochR_congr (p : Int) (input : String) (x y : Ctx F) (hl : Ctx.SameCol "low" x y)
    (hh : Ctx.SameCol "high" x y) (hin : Ctx.SameCol input x y) : stochR p input x = stochR p input y := by
  unfold stochR stochSt
  simp only [Ctx.num_congr hl, Ctx.num_congr hh, Ctx.num_congr hin, Ctx.readingPeriod_congr hin, hl.idx]

end Hex

namespace Hex
set_option linter.unusedSectionVars false
variable {F : Type} [PyF F]

section stochNode
variable (name : String) (round : Nat) (p slow smoothK : Int) (input : String)

/-! ### the node's own step as a value and a store -/

/-- what the node's step stores besides its own reading: the dict `{"stoch", "k"}` and the two
(rounded) SMA readings -/
def stochStore (d : Option (Val F × Val F × Val F)) (c : Candle F) : Candle F :=
  match d with
  | some (a, b, e) =>
    setKey true (name ++ "_d") e (setKey true (name ++ "_k") b (setKey true (name ++ "_data") a c))
  | none => c

/-- the finished candle -/
def stochApp (z : Option (Val F × Val F × Val F) × Val F) (c : Candle F) : Candle F :=
  setKey false name (z.2.roundBy round) (stochStore name z.1 c)

/-- second half of the step: store `{"stoch"}`, run `<name>_k`, store `{"stoch", "k"}`, run `<name>_d` -/
def stochVal2 (H : List (Candle F)) (c : Candle F) (st : Num F) :
    PyM (Option (Val F × Val F × Val F) × Val F) := do
  let k ← Calc.sma { cs := H ++ [setKey true (name ++ "_data") (sdict [("stoch", sc st)]) c], i := H.length,
                     name := name ++ "_k" } smoothK (name ++ "_data.stoch")
  let ks ← Val.toScalar (k.roundBy defaultRound)
  let d ← Calc.sma { cs := H ++ [setKey true (name ++ "_data") (sdict [("stoch", sc st), ("k", ks)]) c],
                     i := H.length, name := name ++ "_d" } slow (name ++ "_data.k")
  let ds ← Val.toScalar (d.roundBy defaultRound)
  pure (some (sdict [("stoch", sc st), ("k", ks)], k.roundBy defaultRound, d.roundBy defaultRound),
    sdict [("stoch", sc st), ("k", ks), ("d", ds)])

/-- what the node computes for the candle `c` after the history `H` -/
def stochVal (H : List (Candle F)) (c : Candle F) : PyM (Option (Val F × Val F × Val F) × Val F) := do
  match ← stochR p input { cs := H ++ [c], i := H.length, name := name } with
  | none => pure (none, stochNone)
  | some st => stochVal2 name slow smoothK H c st

theorem nested_stoch1 (st : Num F) : (sdict [("stoch", sc st)] : Val F).nested "stoch" = .s (sc st) := by
  simp [Val.nested, sdict, dlookup]

theorem nested_stoch2 (st : Num F) (ks : Scalar F) :
    (sdict [("stoch", sc st), ("k", ks)] : Val F).nested "stoch" = .s (sc st) := by
  simp [Val.nested, sdict, dlookup]

/-- **the conversation with the managed helpers** on `H ++ c :: rest` at index `H.length` -/
theorem stochTail_step (hn : StochNames name) (hs : 1 ≤ slow) (hk : 1 ≤ smoothK)
    (H : List (Candle F)) (c : Candle F) (rest : List (Candle F))
    (hiK : WindowInv (name ++ "_k") smoothK H) (hiD : WindowInv (name ++ "_d") slow H)
    (hD : dlookup (name ++ "_data") c.inds = none) (hK : dlookup (name ++ "_k") c.inds = none)
    (hd : dlookup (name ++ "_d") c.inds = none) (st : Num F) :
    stochTail (stochOps name slow smoothK (H.length : Int)) { cs := H ++ c :: rest, i := H.length, name := name } st
      = (do
        let z ← stochVal2 name slow smoothK H c st
        pure (z.2, H ++ stochStore name z.1 c :: rest)) := by
  unfold stochTail stochOps stochVal2
  simp only [setReading_eq, updateAt_append_cons, bind, Except.bind, pure, Except.pure]
  -- first `set_reading`: the SMA over `stoch`
  rw [st_stepLeaf_sma (stochK name smoothK) smoothK (name ++ "_data.stoch") rfl rfl rfl H _ _ rest hk
    (by rw [stochK_name]; exact hiK) rfl]
  simp only [stochK_name, bind, Except.bind, pure, Except.pure]
  cases hsk : Calc.sma (Ctx.mk (H ++ [setKey true (name ++ "_data") (sdict [("stoch", sc st)]) c]) H.length
      (name ++ "_k")) smoothK (name ++ "_data.stoch") with
  | error e => rfl
  | ok k =>
    simp only [Ctx.reading_cur]
    rw [rbc_data_self (name ++ "_k") hn.kK _ (by exact hK)]
    cases hks : Val.toScalar (k.roundBy defaultRound) with
    | error e => rfl
    | ok ks =>
      simp only [updateAt_append_cons]
      -- second `set_reading`: the same SMA again
      rw [st_stepLeaf_sma (stochK name smoothK) smoothK (name ++ "_data.stoch") rfl rfl rfl H _
        (setKey true (name ++ "_data") (sdict [("stoch", sc st)]) c) rest hk
        (by rw [stochK_name]; exact hiK)
        (by rw [rbc_data_field _ "stoch" _ hn.dotS _ (by exact hD), rbc_data_field _ "stoch" _ hn.dotS _ hD,
              nested_stoch1, nested_stoch2])]
      simp only [stochK_name, hsk, bind, Except.bind, pure, Except.pure]
      -- `calculate_index` of the SMA over `k`
      rw [st_stepLeaf_sma (stochD name slow) slow (name ++ "_data.k") rfl rfl rfl H _
        (setKey true (name ++ "_data") (sdict [("stoch", sc st), ("k", ks)]) c) rest hs
        (by rw [stochD_name]; exact hiD)
        (by rw [st_indep_dotted (name ++ "_k") _ _ "k" hn.dotK hn.DK.symm,
              rbc_data_field _ "k" _ hn.dotK _ (by exact hD), rbc_data_field _ "k" _ hn.dotK _ hD])]
      simp only [stochD_name, bind, Except.bind, pure, Except.pure]
      cases hsd : Calc.sma (Ctx.mk (H ++ [setKey true (name ++ "_data") (sdict [("stoch", sc st), ("k", ks)]) c])
          H.length (name ++ "_d")) slow (name ++ "_data.k") with
      | error e => rfl
      | ok d =>
        simp only [Ctx.reading_cur]
        rw [rbc_data_self (name ++ "_d") hn.kd _ (by exact hd)]
        cases hds : Val.toScalar (d.roundBy defaultRound) with
        | error e => rfl
        | ok ds =>
          simp only [stochStore]
          rw [st_setKey_collapse (name ++ "_data") (name ++ "_k") hn.DK]

end stochNode
end Hex

namespace Hex
set_option linter.unusedSectionVars false
variable {F : Type} [PyF F]

/-! ### generic SMA facts used by the laws -/

/-- key locality of an SMA at the end of a history -/
theorem st_sma_sim (keys : List String) (nm : String) (q : Int) (inp : String) (hsee : Sees F keys inp)
    (hk : IsKey nm) (hm : nm ∈ keys) {H H' : List (Candle F)} {a b : Candle F}
    (hH : SimL keys H H') (hab : SimK keys a b) :
    Calc.sma { cs := H ++ [a], i := H.length, name := nm } q inp
      = Calc.sma { cs := H' ++ [b], i := H'.length, name := nm } q inp := by
  have hown := sameCol_simL keys nm (sees_key _ _ hk hm) hH hab nm
  exact sma_congr _ _ q inp (sameCol_simL keys inp hsee hH hab nm)
    (Ctx.prevExists_congr hown) (Ctx.prevNum_congr hown)

/-- a non-`None` SMA reading at the end of a history satisfying the window invariant needs `q`
candles -/
theorem st_sma_window (H : List (Candle F)) (c₀ : Candle F) (nm : String) (q : Int) (inp : String) (s : Val F)
    (n : Nat) (hinv : WindowInv nm q H)
    (hs : Calc.sma { cs := H ++ [c₀], i := H.length, name := nm } q inp = .ok s)
    (hne : (s.roundBy n).isNone = false) : q ≤ (H.length : Int) + 1 := by
  rw [Val.roundBy_isNone] at hne
  rcases sma_nonNone _ q inp s hs hne with h | h
  · rw [Ctx.prevExists_append_cons] at h
    have : (Ctx.lastReading nm H).isNone = false := by simpa using Except.ok.inj h
    have := hinv this
    omega
  · have := readingPeriod_true_bound _ q inp _ h
    simp only [Option.getD_none] at this
    omega

theorem st_windowInv_snoc (nm : String) (q : Int) (H : List (Candle F)) (c' : Candle F)
    (h : (readingByCandle c' nm).isNone = false → q ≤ (H.length : Int) + 1) :
    WindowInv nm q (H ++ [c']) := by
  intro hne
  have hlast : Ctx.lastReading nm (H ++ [c']) = readingByCandle c' nm := by
    unfold Ctx.lastReading
    rw [List.getLast?_append]
    simp
  rw [hlast] at hne
  have hlen : ((H ++ [c']).length : Int) = H.length + 1 := by simp
  rw [hlen]
  exact h hne

section stochStep
variable (name : String) (round : Nat) (p slow smoothK : Int) (input : String)

/-- **the node's step on `H ++ c :: rest`**: compute from `H` and `c` only, store on `c` -/
theorem stepWith_stochC (hn : StochNames name) (hp : 1 ≤ p) (hs : 1 ≤ slow) (hk : 1 ≤ smoothK)
    (H : List (Candle F)) (c : Candle F) (rest : List (Candle F))
    (hiK : WindowInv (name ++ "_k") smoothK H) (hiD : WindowInv (name ++ "_d") slow H)
    (hD : dlookup (name ++ "_data") c.inds = none) (hK : dlookup (name ++ "_k") c.inds = none)
    (hd : dlookup (name ++ "_d") c.inds = none) :
    stepWith (stochP name round p slow smoothK input) (stochC name p slow smoothK input) (H ++ c :: rest) H.length
      = (do
        let z ← stochVal name p slow smoothK input H c
        pure (H ++ stochApp name round z c :: rest)) := by
  unfold stepWith stochC stochVal
  rw [stoch_eq]
  have e := stochR_trunc p input ({ cs := H ++ c :: rest, i := H.length, name := name } : Ctx F)
    (by simp) (by simp) hp
  rw [trunc_append_cons] at e
  rw [← e]
  simp only [stochP_isSub, stochP_name, stochP_round, bind, Except.bind]
  cases stochR p input ({ cs := H ++ [c], i := H.length, name := name } : Ctx F) with
  | error e => rfl
  | ok o =>
    cases o with
    | none =>
      simp only [pure, Except.pure, setReading_eq, updateAt_append_cons]
      rfl
    | some st =>
      simp only
      rw [stochTail_step name slow smoothK hn hs hk H c rest hiK hiD hD hK hd st]
      simp only [bind, Except.bind]
      cases stochVal2 name slow smoothK H c st with
      | error e => rfl
      | ok z =>
        simp only [pure, Except.pure, setReading_eq, updateAt_append_cons]
        rfl

/-! ### the component -/

/-- **the STOCH node's own step as a tolerant component**: reads the bare candles and the
`<name>_data` / `<name>_k` / `<name>_d` series of the history, writes four keys -/
def stochCompP : TComp F where
  name := name
  ω := Option (Val F × Val F × Val F) × Val F
  val := stochVal name p slow smoothK input
  app := stochApp name round
  rkeys := [name ++ "_data", name ++ "_k", name ++ "_d"]
  wkeys := [name ++ "_data", name ++ "_k", name ++ "_d", name]
  Raw := fun c => hasKey name c = false ∧ hasKey (name ++ "_data") c = false ∧
    hasKey (name ++ "_k") c = false ∧ hasKey (name ++ "_d") c = false
  Settled := fun H => (∀ d ∈ H, hasKey name d = true) ∧ WindowInv (name ++ "_k") smoothK H ∧
    WindowInv (name ++ "_d") slow H
  pass := Gen.nodeCalc (specWith (stochP name round p slow smoothK input) (stochC name p slow smoothK input))

/-! #### the store -/

theorem frameK_stochStore (d : Option (Val F × Val F × Val F)) (c : Candle F) :
    FrameK ([name ++ "_data"] ++ [name ++ "_k"] ++ [name ++ "_d"]) c (stochStore name d c) := by
  cases d with
  | none => exact st_frameK_refl _ c
  | some abe =>
    obtain ⟨a, b, e⟩ := abe
    exact TComp.frameK_trans (TComp.frameK_trans (frameK_setKey true _ a c) (frameK_setKey true _ b _))
      (frameK_setKey true _ e _)

theorem frameK_stochApp (z : Option (Val F × Val F × Val F) × Val F) (c : Candle F) :
    FrameK [name ++ "_data", name ++ "_k", name ++ "_d", name] c (stochApp name round z c) :=
  TComp.frameK_trans (frameK_stochStore name z.1 c) (frameK_setKey false name _ _)

theorem simK_stochApp (keys : List String) (z : Option (Val F × Val F × Val F) × Val F) (c c' : Candle F)
    (h : SimK keys c c') : SimK keys (stochApp name round z c) (stochApp name round z c') := by
  unfold stochApp
  refine simK_setKey keys _ _ _ _ _ ?_
  obtain ⟨d, w⟩ := z
  cases d with
  | none => exact h
  | some abe =>
    obtain ⟨a, b, e⟩ := abe
    exact simK_setKey keys _ _ _ _ _ (simK_setKey keys _ _ _ _ _ (simK_setKey keys _ _ _ _ _ h))

theorem inds_stochStore (d : Option (Val F × Val F × Val F)) (c : Candle F) :
    (stochStore name d c).inds = c.inds := by
  cases d with
  | none => rfl
  | some abe => rfl

theorem inds_stochApp (k : String) (hk : name ≠ k) (z : Option (Val F × Val F × Val F) × Val F) (c : Candle F) :
    dlookup k (stochApp name round z c).inds = dlookup k c.inds := by
  show dlookup k (dset name _ (stochStore name z.1 c).inds) = _
  rw [dlookup_dset_ne _ _ _ _ hk, inds_stochStore]

/-- a reading that sees none of the four written keys is unchanged by the store -/
theorem rbc_stochApp (nm : String) (h1 : Indep F name nm) (h2 : Indep F (name ++ "_data") nm)
    (h3 : Indep F (name ++ "_k") nm) (h4 : Indep F (name ++ "_d") nm)
    (z : Option (Val F × Val F × Val F) × Val F) (c : Candle F) :
    readingByCandle (stochApp name round z c) nm = readingByCandle c nm := by
  unfold stochApp
  rw [h1]
  obtain ⟨d, w⟩ := z
  cases d with
  | none => rfl
  | some abe =>
    obtain ⟨a, b, e⟩ := abe
    show readingByCandle (setKey true _ e (setKey true _ b (setKey true _ a c))) nm = _
    rw [h4, h3, h2]

theorem entries_stochApp (z : Option (Val F × Val F × Val F) × Val F) (c : Candle F) :
    (∀ q ∈ (stochApp name round z c).inds,
      q ∈ c.inds ∨ q.1 ∈ [name ++ "_data", name ++ "_k", name ++ "_d", name]) ∧
    (∀ q ∈ (stochApp name round z c).subs,
      q ∈ c.subs ∨ q.1 ∈ [name ++ "_data", name ++ "_k", name ++ "_d", name]) := by
  have hst : (∀ q ∈ (stochStore name z.1 c).inds, q ∈ c.inds) ∧
      (∀ q ∈ (stochStore name z.1 c).subs,
        q ∈ c.subs ∨ q.1 ∈ [name ++ "_data", name ++ "_k", name ++ "_d", name]) := by
    obtain ⟨d, w⟩ := z
    cases d with
    | none => exact ⟨fun q hq => hq, fun q hq => Or.inl hq⟩
    | some abe =>
      obtain ⟨a, b, e⟩ := abe
      refine ⟨fun q hq => hq, fun q hq => ?_⟩
      rcases (st_entries_setKey true (name ++ "_d") e _).2 q hq with h | h
      · rcases (st_entries_setKey true (name ++ "_k") b _).2 q h with h' | h'
        · rcases (st_entries_setKey true (name ++ "_data") a c).2 q h' with h'' | h''
          · exact Or.inl h''
          · exact Or.inr (by simp [h''])
        · exact Or.inr (by simp [h'])
      · exact Or.inr (by simp [h])
  constructor
  · intro q hq
    rcases (st_entries_setKey false name _ _).1 q hq with h | h
    · exact Or.inl (hst.1 q h)
    · exact Or.inr (by simp [h])
  · intro q hq
    rcases (st_entries_setKey false name _ _).2 q hq with h | h
    · exact hst.2 q h
    · exact Or.inr (by simp [h])

end stochStep
end Hex

namespace Hex
set_option linter.unusedSectionVars false
variable {F : Type} [PyF F]

section stochLaws
variable (name : String) (round : Nat) (p slow smoothK : Int) (input : String)

/-! #### key locality of the value -/

theorem stochVal2_sim (hn : StochNames name) (H H' : List (Candle F)) (c c' : Candle F)
    (hH : SimL [name ++ "_data", name ++ "_k", name ++ "_d"] H H')
    (hc : SimK [name ++ "_data", name ++ "_k", name ++ "_d"] c c') (st : Num F) :
    stochVal2 name slow smoothK H c st = stochVal2 name slow smoothK H' c' st := by
  unfold stochVal2
  rw [st_sma_sim _ (name ++ "_k") smoothK (name ++ "_data.stoch")
    (sees_dotted _ _ (name ++ "_data") "stoch" hn.dotS (by simp)) hn.kK (by simp) hH
    (simK_setKey _ true (name ++ "_data") (sdict [("stoch", sc st)]) c c' hc)]
  simp only [bind, Except.bind]
  cases Calc.sma (Ctx.mk (H' ++ [setKey true (name ++ "_data") (sdict [("stoch", sc st)]) c']) H'.length
      (name ++ "_k")) smoothK (name ++ "_data.stoch") with
  | error e => rfl
  | ok k =>
    simp only
    cases Val.toScalar (k.roundBy defaultRound) with
    | error e => rfl
    | ok ks =>
      simp only
      rw [st_sma_sim _ (name ++ "_d") slow (name ++ "_data.k")
        (sees_dotted _ _ (name ++ "_data") "k" hn.dotK (by simp)) hn.kd (by simp) hH
        (simK_setKey _ true (name ++ "_data") (sdict [("stoch", sc st), ("k", ks)]) c c' hc)]

theorem stochVal_sim (hn : StochNames name) (hin : NoDot input ∧ input ∈ Candle.attrNames)
    (H H' : List (Candle F)) (c c' : Candle F)
    (hH : SimL [name ++ "_data", name ++ "_k", name ++ "_d"] H H')
    (hc : SimK [name ++ "_data", name ++ "_k", name ++ "_d"] c c') :
    stochVal name p slow smoothK input H c = stochVal name p slow smoothK input H' c' := by
  unfold stochVal
  rw [stochR_congr p input _ _
    (sameCol_simL _ "low" (sees_attr _ _ noDot_low (by decide)) hH hc name)
    (sameCol_simL _ "high" (sees_attr _ _ noDot_high (by decide)) hH hc name)
    (sameCol_simL _ input (sees_attr _ _ hin.1 hin.2) hH hc name)]
  simp only [stochVal2_sim name slow smoothK hn H H' c c' hH hc]

/-- on candles without a top-level entry under the data name, the second half of the step does not
depend on the current candle at all -/
theorem stochVal2_cur (hn : StochNames name) (H : List (Candle F)) (c c' : Candle F)
    (hD : dlookup (name ++ "_data") c.inds = none) (hD' : dlookup (name ++ "_data") c'.inds = none)
    (st : Num F) : stochVal2 name slow smoothK H c' st = stochVal2 name slow smoothK H c st := by
  unfold stochVal2
  rw [st_sma_last H (setKey true (name ++ "_data") (sdict [("stoch", sc st)]) c)
    (setKey true (name ++ "_data") (sdict [("stoch", sc st)]) c') (name ++ "_k") smoothK (name ++ "_data.stoch")
    (by rw [rbc_data_field _ "stoch" _ hn.dotS _ hD', rbc_data_field _ "stoch" _ hn.dotS _ hD])]
  simp only [bind, Except.bind]
  cases Calc.sma (Ctx.mk (H ++ [setKey true (name ++ "_data") (sdict [("stoch", sc st)]) c]) H.length
      (name ++ "_k")) smoothK (name ++ "_data.stoch") with
  | error e => rfl
  | ok k =>
    simp only
    cases Val.toScalar (k.roundBy defaultRound) with
    | error e => rfl
    | ok ks =>
      simp only
      rw [st_sma_last H (setKey true (name ++ "_data") (sdict [("stoch", sc st), ("k", ks)]) c)
        (setKey true (name ++ "_data") (sdict [("stoch", sc st), ("k", ks)]) c') (name ++ "_d") slow
        (name ++ "_data.k")
        (by rw [rbc_data_field _ "k" _ hn.dotK _ hD', rbc_data_field _ "k" _ hn.dotK _ hD])]

/-- **stability**: recomputing a finished candle reproduces its value -/
theorem stochVal_stable (hn : StochNames name) (hin : NoDot input ∧ input ∈ Candle.attrNames)
    (H : List (Candle F)) (c : Candle F) (z : Option (Val F × Val F × Val F) × Val F)
    (hraw : hasKey (name ++ "_data") c = false) :
    stochVal name p slow smoothK input H (stochApp name round z c) = stochVal name p slow smoothK input H c := by
  have hat : ∀ nm, NoDot nm → nm ∈ Candle.attrNames →
      readingByCandle (stochApp name round z c) nm = readingByCandle c nm := fun nm h1 h2 =>
    rbc_stochApp name round nm (indep_attr _ _ h1 h2) (indep_attr _ _ h1 h2) (indep_attr _ _ h1 h2)
      (indep_attr _ _ h1 h2) z c
  unfold stochVal
  rw [stochR_congr p input _ _
    (sameCol_last "low" H c _ name (hat "low" noDot_low (by decide)))
    (sameCol_last "high" H c _ name (hat "high" noDot_high (by decide)))
    (sameCol_last input H c _ name (hat input hin.1 hin.2))]
  have hD := inds_of_noKey _ c hraw
  have hD' : dlookup (name ++ "_data") (stochApp name round z c).inds = none := by
    rw [inds_stochApp name round _ hn.nD]; exact hD
  simp only [stochVal2_cur name slow smoothK hn H c _ hD hD']

/-! #### absorption, the invariants, the pass -/

theorem stochApp_absorb (hn : StochNames name) (z : Option (Val F × Val F × Val F) × Val F) (c d : Candle F)
    (hd : SimK [name ++ "_data", name ++ "_k", name ++ "_d", name] d (stochApp name round z c)) :
    stochApp name round z d = d := by
  obtain ⟨dd, w⟩ := z
  have hN : dlookup name d.inds = some (w.roundBy round) := by
    rw [(hd.2 name (by simp)).1]
    show dlookup name (dset name _ _) = _
    exact dlookup_dset_self _ _ _
  cases dd with
  | none =>
    show setKey false name (w.roundBy round) d = d
    exact st_setKey_ind_absorb _ _ _ hN
  | some abe =>
    obtain ⟨a, b, e⟩ := abe
    have hA : dlookup (name ++ "_data") d.subs = some a := by
      rw [(hd.2 (name ++ "_data") (by simp)).2]
      show dlookup (name ++ "_data")
        (dset (name ++ "_d") e (dset (name ++ "_k") b (dset (name ++ "_data") a c.subs))) = _
      rw [dlookup_dset_ne _ _ _ _ hn.Dd.symm, dlookup_dset_ne _ _ _ _ hn.DK.symm, dlookup_dset_self]
    have hB : dlookup (name ++ "_k") d.subs = some b := by
      rw [(hd.2 (name ++ "_k") (by simp)).2]
      show dlookup (name ++ "_k")
        (dset (name ++ "_d") e (dset (name ++ "_k") b (dset (name ++ "_data") a c.subs))) = _
      rw [dlookup_dset_ne _ _ _ _ hn.Kd.symm, dlookup_dset_self]
    have hE : dlookup (name ++ "_d") d.subs = some e := by
      rw [(hd.2 (name ++ "_d") (by simp)).2]
      show dlookup (name ++ "_d")
        (dset (name ++ "_d") e (dset (name ++ "_k") b (dset (name ++ "_data") a c.subs))) = _
      exact dlookup_dset_self _ _ _
    show setKey false name (w.roundBy round)
      (setKey true (name ++ "_d") e (setKey true (name ++ "_k") b (setKey true (name ++ "_data") a d))) = d
    rw [st_setKey_sub_absorb _ _ _ hA, st_setKey_sub_absorb _ _ _ hB, st_setKey_sub_absorb _ _ _ hE,
      st_setKey_ind_absorb _ _ _ hN]

/-- the invariants of the two SMA helpers are kept by the node's step -/
theorem stoch_settled_step (hn : StochNames name) (H : List (Candle F)) (r : Candle F)
    (z : Option (Val F × Val F × Val F) × Val F)
    (hiK : WindowInv (name ++ "_k") smoothK H) (hiD : WindowInv (name ++ "_d") slow H)
    (hrK : hasKey (name ++ "_k") r = false) (hrD : hasKey (name ++ "_d") r = false)
    (hv : stochVal name p slow smoothK input H r = .ok z) :
    WindowInv (name ++ "_k") smoothK (H ++ [stochApp name round z r]) ∧
    WindowInv (name ++ "_d") slow (H ++ [stochApp name round z r]) := by
  unfold stochVal at hv
  simp only [bind, Except.bind] at hv
  cases hR : stochR p input ({ cs := H ++ [r], i := H.length, name := name } : Ctx F) with
  | error e => rw [hR] at hv; cases hv
  | ok o =>
    rw [hR] at hv
    cases o with
    | none =>
      -- nothing stored: the helpers' readings stay `None`
      simp only [pure, Except.pure] at hv
      cases hv
      constructor
      · apply st_windowInv_snoc
        intro hne
        have : readingByCandle (stochApp name round (none, stochNone) r) (name ++ "_k") = .none := by
          unfold stochApp stochStore
          rw [indep_key _ _ hn.kK hn.nK]
          exact st_rbc_noKey _ hn.kK r hrK
        rw [this] at hne
        cases hne
      · apply st_windowInv_snoc
        intro hne
        have : readingByCandle (stochApp name round (none, stochNone) r) (name ++ "_d") = .none := by
          unfold stochApp stochStore
          rw [indep_key _ _ hn.kd hn.nd]
          exact st_rbc_noKey _ hn.kd r hrD
        rw [this] at hne
        cases hne
    | some st =>
      simp only at hv
      unfold stochVal2 at hv
      simp only [bind, Except.bind, pure, Except.pure] at hv
      cases hsk : Calc.sma (Ctx.mk (H ++ [setKey true (name ++ "_data") (sdict [("stoch", sc st)]) r]) H.length
          (name ++ "_k")) smoothK (name ++ "_data.stoch") with
      | error e => rw [hsk] at hv; cases hv
      | ok k =>
        rw [hsk] at hv
        simp only at hv
        cases hks : Val.toScalar (k.roundBy defaultRound) with
        | error e => rw [hks] at hv; cases hv
        | ok ks =>
          rw [hks] at hv
          simp only at hv
          cases hsd : Calc.sma (Ctx.mk (H ++ [setKey true (name ++ "_data") (sdict [("stoch", sc st), ("k", ks)]) r])
              H.length (name ++ "_d")) slow (name ++ "_data.k") with
          | error e => rw [hsd] at hv; cases hv
          | ok d =>
            rw [hsd] at hv
            simp only at hv
            cases hds : Val.toScalar (d.roundBy defaultRound) with
            | error e => rw [hds] at hv; cases hv
            | ok ds =>
              rw [hds] at hv
              simp only at hv
              cases hv
              constructor
              · apply st_windowInv_snoc
                intro hne
                have hrd : readingByCandle (stochApp name round
                    (some (sdict [("stoch", sc st), ("k", ks)], k.roundBy defaultRound, d.roundBy defaultRound),
                      sdict [("stoch", sc st), ("k", ks), ("d", ds)]) r) (name ++ "_k")
                    = k.roundBy defaultRound := by
                  unfold stochApp stochStore
                  rw [indep_key _ _ hn.kK hn.nK, indep_key _ _ hn.kK hn.Kd.symm]
                  exact rbc_data_self _ hn.kK _ (by exact inds_of_noKey _ r hrK) _
                rw [hrd] at hne
                exact st_sma_window H _ _ smoothK _ k defaultRound hiK hsk hne
              · apply st_windowInv_snoc
                intro hne
                have hrd : readingByCandle (stochApp name round
                    (some (sdict [("stoch", sc st), ("k", ks)], k.roundBy defaultRound, d.roundBy defaultRound),
                      sdict [("stoch", sc st), ("k", ks), ("d", ds)]) r) (name ++ "_d")
                    = d.roundBy defaultRound := by
                  unfold stochApp stochStore
                  rw [indep_key _ _ hn.kd hn.nd]
                  exact rbc_data_self _ hn.kd _ (by exact inds_of_noKey _ r hrD) _
                rw [hrd] at hne
                exact st_sma_window H _ _ slow _ d defaultRound hiD hsd hne

end stochLaws
end Hex

namespace Hex
set_option linter.unusedSectionVars false
variable {F : Type} [PyF F]

section stochComp
variable (name : String) (round : Nat) (p slow smoothK : Int) (input : String)

/-- the node's loop over raw candles is the row-major fold -/
theorem nodeLoop_runS (hn : StochNames name) (hp : 1 ≤ p) (hs : 1 ≤ slow) (hk : 1 ≤ smoothK)
    (R : List (Candle F)) :
    ∀ (H : List (Candle F)), WindowInv (name ++ "_k") smoothK H → WindowInv (name ++ "_d") slow H →
      (∀ r ∈ R, (stochCompP (F := F) name round p slow smoothK input).Raw r) →
      Gen.nodeLoop (specWith (stochP name round p slow smoothK input) (stochC name p slow smoothK input))
          (H ++ R) H.length R.length
        = (stochCompP name round p slow smoothK input).rowFrom H R := by
  induction R with
  | nil => intro H _ _ _; simp [Gen.nodeLoop, TComp.rowFrom_nil]
  | cons r R' ih =>
    intro H hiK hiD hR
    have hr := hR r (by simp)
    have hrs : (stochCompP (F := F) name round p slow smoothK input).rowStep H r = (do
        let z ← stochVal name p slow smoothK input H r; pure (H ++ [stochApp name round z r])) := rfl
    rw [List.length_cons, Gen.nodeLoop, pyIndex_append_cons, TComp.rowFrom_cons, hrs]
    have hpres : present (specWith (stochP (F := F) name round p slow smoothK input)
        (stochC name p slow smoothK input)).name r = false :=
      present_of_noKey _ r (by
        show hasKey (stochP (F := F) name round p slow smoothK input).name r = false
        rw [stochP_name]; exact hr.1)
    simp only [bind, Except.bind, hpres, Bool.false_eq_true, if_false]
    have hstep : (specWith (stochP name round p slow smoothK input) (stochC name p slow smoothK input)).step
          (H ++ r :: R') H.length = (do
        let z ← stochVal name p slow smoothK input H r
        pure (H ++ stochApp name round z r :: R')) :=
      stepWith_stochC name round p slow smoothK input hn hp hs hk H r R' hiK hiD
        (inds_of_noKey _ r hr.2.1) (inds_of_noKey _ r hr.2.2.1) (inds_of_noKey _ r hr.2.2.2)
    rw [hstep]
    cases hv : stochVal name p slow smoothK input H r with
    | error e => rfl
    | ok z =>
      simp only [bind, Except.bind, pure, Except.pure]
      have hi := stoch_settled_step name round p slow smoothK input hn H r z hiK hiD hr.2.2.1 hr.2.2.2 hv
      have := ih (H ++ [stochApp name round z r]) hi.1 hi.2 (fun x hx => hR x (by simp [hx]))
      simpa using this

/-- **the laws of the STOCH node's own step** -/
theorem stochCompP_law (hn : StochNames name) (hp : 1 ≤ p) (hs : 1 ≤ slow) (hk : 1 ≤ smoothK)
    (hin : NoDot input ∧ input ∈ Candle.attrNames) :
    TComp.Law (stochCompP (F := F) name round p slow smoothK input) where
  name_w := by simp [stochCompP]
  app_frame := fun z c => frameK_stochApp name round z c
  app_key := fun z c => hasKey_setKey _ _ _ _
  app_entries := fun z c => entries_stochApp name round z c
  app_sim := fun keys z c c' h => simK_stochApp name round keys z c c' h
  raw_nokey := fun c h => h.1
  raw_of := fun c h => ⟨h name (by simp [stochCompP]), h (name ++ "_data") (by simp [stochCompP]),
    h (name ++ "_k") (by simp [stochCompP]), h (name ++ "_d") (by simp [stochCompP])⟩
  val_sim := fun H H' c c' hs hc => stochVal_sim name p slow smoothK input hn hin H H' c c' hs hc
  stable := by
    intro H c z hraw hv
    show stochVal name p slow smoothK input H (stochApp name round z c) = .ok z
    rw [stochVal_stable name round p slow smoothK input hn hin H c z hraw.2.1]
    exact hv
  absorb := fun z c d _ hd => stochApp_absorb name round hn z c d hd
  settled_nil := ⟨(by intro d hd; cases hd), windowInv_nil _ _, windowInv_nil _ _⟩
  settled_step := by
    intro H r z hs' hraw hv
    have hi := stoch_settled_step name round p slow smoothK input hn H r z hs'.2.1 hs'.2.2
      hraw.2.2.1 hraw.2.2.2 hv
    refine ⟨?_, hi.1, hi.2⟩
    intro d hd
    rcases List.mem_append.1 hd with h | h
    · exact hs'.1 d h
    · simp at h; subst h; exact hasKey_setKey _ _ _ _
  settled_sim := by
    intro H H' hs' hsim
    refine ⟨?_, ?_, ?_⟩
    · intro d' hd'
      obtain ⟨d, hd, hdd⟩ := TComp.forall₂_mem_right' hsim d' hd'
      rw [← hasKey_simK (keys := (stochCompP (F := F) name round p slow smoothK input).rkeys ++
        (stochCompP (F := F) name round p slow smoothK input).wkeys) (by simp [stochCompP]) hdd]
      exact hs'.1 d hd
    · intro hne
      rw [← lastReading_simL (name ++ "_k") hn.kK _ (by simp [stochCompP]) hsim] at hne
      rw [← hsim.length_eq]
      exact hs'.2.1 hne
    · intro hne
      rw [← lastReading_simL (name ++ "_d") hn.kd _ (by simp [stochCompP]) hsim] at hne
      rw [← hsim.length_eq]
      exact hs'.2.2 hne
  pass_iff := by
    intro H R out hs' hR
    have key : Gen.nodeCalc (specWith (stochP name round p slow smoothK input)
          (stochC name p slow smoothK input)) (H ++ R)
        = (stochCompP name round p slow smoothK input).rowFrom H R := by
      unfold Gen.nodeCalc
      have hnm : (specWith (stochP (F := F) name round p slow smoothK input)
          (stochC name p slow smoothK input)).name = name :=
        stochP_name (F := F) name round p slow smoothK input
      rw [hnm, findCalcIndex_split name H R hs'.1 (fun r hr => (hR r hr).1)]
      have : (H ++ R).length - H.length = R.length := by simp
      rw [this]
      exact nodeLoop_runS name round p slow smoothK input hn hp hs hk R H hs'.2.1 hs'.2.2 hR
    show Gen.nodeCalc (specWith (stochP name round p slow smoothK input)
      (stochC name p slow smoothK input)) (H ++ R) = .ok out ↔ _
    rw [key]

end stochComp

section stochTree
variable (name : String) (round : Nat) (p slow smoothK : Int) (input : String)
  (hp : 2 ≤ p) (hs : 1 ≤ slow) (hk : 1 ≤ smoothK) (hn : StochNames name)
  (hin : NoDot input ∧ input ∈ Candle.attrNames)

theorem allNames_stoch : (stochP (F := F) name round p slow smoothK input).allNames
    = [name, name ++ "_data", name ++ "_k", name ++ "_d"] := by
  simp [stochP, mkTop, children, Ind.allNames_eq, Ind.allNamesL, Ind.allNamesM, leaf, Ind.name, Ind.subs,
    Ind.managed]

/-- **Stochastic as a tree with a row-major spec.** -/
def stochTree : TreeSpec (mkTop (.stoch p slow smoothK input : Kind F) name round) :=
  TreeSpec.ofComp (ind := stochP (F := F) name round p slow smoothK input)
    (stochCompP name round p slow smoothK input)
    (stochCompP_law name round p slow smoothK input hn (by omega) hs hk hin)
    (fun c hc => (stochCompP_law name round p slow smoothK input hn (by omega) hs hk hin).raw_of c
      (fun k _ => hasKey_plain k c hc))
    (by
      intro k hk'
      rw [allNames_stoch]
      simp [stochCompP] at hk' ⊢
      rcases hk' with h | h | h | h <;> simp [h])
    (fun cs => engineCalc_stoch name round p slow smoothK input hp cs)

end stochTree

/-- the hypotheses are met by the default name of `STOCH(period=3)` -/
example : StochNames "STOCH_3" :=
  ⟨by decide, by decide, by decide, by decide, by decide, by decide, by decide, by decide, by decide,
    by decide⟩

example : Nonempty (TreeSpec (mkTop (.stoch 3 3 3 "close" : Kind F) "STOCH_3" 4)) :=
  ⟨stochTree "STOCH_3" 4 3 3 3 "close" (by decide) (by decide) (by decide)
    ⟨by decide, by decide, by decide, by decide, by decide, by decide, by decide, by decide, by decide,
      by decide⟩ (by decide)⟩

end Hex

#print axioms Hex.stochTree
#print axioms Hex.engineCalc_stoch
#print axioms Hex.stepWith_stochC

import HexProofs.Framework.Gen.AllX
import HexProofs.Framework.Kinds.All
/-
Indicator-on-indicator inputs (C01 / C04, "inputs that are other indicators' readings").

A `Hexital` holds a SOURCE member `A` and a DEPENDENT leaf member `B` whose `input_value` is `A`'s
output: `A`'s name (scalar-valued `A`) or a dotted field of a dict-valued `A`.  Both live on the
default manager; one `Hexital.append` is "the manager appends, then `A.calculate()`, then
`B.calculate()`" – the `pass` of `TComp.seq X Q`, `X` the component of `A`'s tree and `Q` the tolerant
leaf component of `B`.  This file

1. gives the tolerant leaf contracts of SMA / RMA / ROC for an input seen through read keys (EMA:
   `emaTG`, WMA: `wmaT` exist already), the dependent kinds as one predicate `DepLeaf`,
2. packages a source tree as a lawful component (`SrcComp`; instances: every tolerant leaf, MACD,
   Supertrend, KC), builds `pairComp`, its law, the row-major `PairSpec` of the pair,
3. proves the engine-level refinement (`PairSpec.engine`), and
4. the Hexital-level theorem `pair_live_eq_batch` for any manager spec (base timeframe, collapsing
   timeframe, fill), with the base-timeframe corollary `C01_pair_base`.
-/
namespace Hex
set_option linter.unusedSectionVars false
variable {F : Type} [PyF F]

/-! ### tolerant leaf contracts over an input seen through the read keys -/

/-- **SMA, tolerant, any input** (`period ≥ 1`): the input is a candle attribute (`rk = []`), an ordinary
key of another piece (`rk = [input]`) or a dotted field of another piece's dict (`rk = [main]`). -/
def smaTG (Z : Ind F) (p : Int) (inp : String) (hk : Z.kind = .sma p inp) (hp : 1 ≤ p)
    (hname : IsKey Z.name) (rk : List String) (hsee : Sees F (Z.name :: rk) inp)
    (hind : Indep F Z.name inp) : TContract Z where
  rkeys := rk
  Inv := WindowInv Z.name p
  inv_nil := windowInv_nil _ _
  inv_sim := by
    intro H H' hinv hs hne
    rw [← lastReading_simL Z.name hname _ (by simp) hs] at hne
    rw [← hs.length_eq]
    exact hinv hne
  inv_step := by
    intro H c v hinv hc hv hne
    unfold valOf at hv
    rw [hk] at hv
    have hlast : Ctx.lastReading Z.name (H ++ [decOf Z v c]) = v.roundBy Z.round := by
      unfold Ctx.lastReading decOf
      rw [List.getLast?_append]
      simp [readingByCandle_setKey_noKey Z.isSub Z.name hname _ c hc]
    rw [hlast, Val.roundBy_isNone] at hne
    have hlen : ((H ++ [decOf Z v c]).length : Int) = H.length + 1 := by simp
    rw [hlen]
    rcases sma_nonNone _ p inp v hv hne with h | h
    · rw [Ctx.prevExists_append_cons] at h
      have : (Ctx.lastReading Z.name H).isNone = false := by simpa using Except.ok.inj h
      have := hinv this
      omega
    · have := readingPeriod_true_bound _ p inp _ h
      simp only [Option.getD_none] at this
      omega
  loc := by
    intro H c rest hinv
    unfold valOf
    rw [hk, ← trunc_append_cons H c rest]
    refine (sma_trunc _ p inp (by simp) (by simp) hp ?_).symm
    intro v hv hnn
    rw [Ctx.prevReading_append_cons] at hv
    cases hv
    exact hinv hnn
  val_sim := by
    intro H H' c c' hH hc
    unfold valOf
    rw [hk]
    have hown := sameCol_simL _ Z.name (sees_key _ _ hname (by simp)) hH hc Z.name
    exact sma_congr _ _ p inp (sameCol_simL _ inp hsee hH hc _)
      (Ctx.prevExists_congr hown) (Ctx.prevNum_congr hown)
  stable := by
    intro H c v
    unfold valOf decOf
    rw [hk]
    refine sma_congr _ _ p inp (sameCol_last inp H c _ Z.name (hind _ _ _)) ?_ ?_
    · rw [Ctx.prevExists_append_cons, Ctx.prevExists_append_cons]
    · rw [Ctx.prevNum_append_cons, Ctx.prevNum_append_cons]

/-- **RMA, tolerant, any input** (`period ≥ 1`) -/
def rmaTG (Z : Ind F) (p : Int) (inp : String) (hk : Z.kind = .rma p inp) (hp : 1 ≤ p)
    (hname : IsKey Z.name) (rk : List String) (hsee : Sees F (Z.name :: rk) inp)
    (hind : Indep F Z.name inp) : TContract Z where
  rkeys := rk
  Inv := fun _ => True
  inv_nil := trivial
  inv_sim := fun _ _ _ _ => trivial
  inv_step := fun _ _ _ _ _ _ => trivial
  loc := by
    intro H c rest _
    unfold valOf
    rw [hk, ← trunc_append_cons H c rest]
    exact (rma_trunc _ p inp (by simp) (by simp) hp).symm
  val_sim := by
    intro H H' c c' hH hc
    unfold valOf
    rw [hk]
    have hown := sameCol_simL _ Z.name (sees_key _ _ hname (by simp)) hH hc Z.name
    exact rma_congr _ _ p inp (sameCol_simL _ inp hsee hH hc _)
      (Ctx.prevExists_congr hown) (Ctx.prevNum_congr hown)
  stable := by
    intro H c v
    unfold valOf decOf
    rw [hk]
    refine rma_congr _ _ p inp (sameCol_last inp H c _ Z.name (hind _ _ _)) ?_ ?_
    · rw [Ctx.prevExists_append_cons, Ctx.prevExists_append_cons]
    · rw [Ctx.prevNum_append_cons, Ctx.prevNum_append_cons]

/-- **ROC, tolerant, any input** (`period ≥ 0`) -/
def rocTG (Z : Ind F) (p : Int) (inp : String) (hk : Z.kind = .roc p inp) (hp : 0 ≤ p)
    (hname : IsKey Z.name) (rk : List String) (hsee : Sees F (Z.name :: rk) inp)
    (hind : Indep F Z.name inp) : TContract Z where
  rkeys := rk
  Inv := WindowInv Z.name (p + 1)
  inv_nil := windowInv_nil _ _
  inv_sim := by
    intro H H' hinv hs hne
    rw [← lastReading_simL Z.name hname _ (by simp) hs] at hne
    rw [← hs.length_eq]
    exact hinv hne
  inv_step := by
    intro H c v hinv hc hv hne
    unfold valOf at hv
    rw [hk] at hv
    have hlast : Ctx.lastReading Z.name (H ++ [decOf Z v c]) = v.roundBy Z.round := by
      unfold Ctx.lastReading decOf
      rw [List.getLast?_append]
      simp [readingByCandle_setKey_noKey Z.isSub Z.name hname _ c hc]
    rw [hlast, Val.roundBy_isNone] at hne
    have hlen : ((H ++ [decOf Z v c]).length : Int) = H.length + 1 := by simp
    rw [hlen]
    rcases roc_nonNone _ p inp v hv hne with h | h
    · rw [Ctx.prevExists_append_cons] at h
      have : (Ctx.lastReading Z.name H).isNone = false := by simpa using Except.ok.inj h
      have := hinv this
      omega
    · have := readingPeriod_true_bound _ (p + 1) inp _ h
      simp only [Option.getD_none] at this
      omega
  loc := by
    intro H c rest hinv
    unfold valOf
    rw [hk, ← trunc_append_cons H c rest]
    refine (roc_trunc _ p inp (by simp) (by simp) hp ?_).symm
    intro b hb hbt
    exact windowInv_prev Z.name (p + 1) H c rest hinv b hb hbt
  val_sim := by
    intro H H' c c' hH hc
    unfold valOf
    rw [hk]
    have hown := sameCol_simL _ Z.name (sees_key _ _ hname (by simp)) hH hc Z.name
    exact roc_congr _ _ p inp (sameCol_simL _ inp hsee hH hc _) (Ctx.prevExists_congr hown)
  stable := by
    intro H c v
    unfold valOf decOf
    rw [hk]
    refine roc_congr _ _ p inp (sameCol_last inp H c _ Z.name (hind _ _ _)) ?_
    rw [Ctx.prevExists_append_cons, Ctx.prevExists_append_cons]

end Hex

import HexProofs.Framework.Gen.AllX
import HexProofs.Framework.Kinds.All
/-
Indicator-on-indicator inputs (C01 / C04, "inputs that are other indicators' readings").

A `Hexital` holds a SOURCE member `A` and a DEPENDENT leaf member `B` whose `input_value` is `A`'s
output: `A`'s name (scalar-valued `A`) or a dotted field of a dict-valued `A`.  Both live on the
default manager; one `Hexital.append` is "the manager appends, then `A.calculate()`, then
`B.calculate()`" – the `pass` of `TComp.seq X Q`, `X` the component of `A`'s tree and `Q` the tolerant
leaf component of `B`.  This file (engine level; the Hexital level is Gen/ChainHex.lean)

1. gives the tolerant leaf contracts of SMA / RMA / ROC for an input seen through read keys (`smaTG`,
   `rmaTG`, `rocTG`; EMA: `emaTG`, WMA: `wmaT` exist already), the dependent kinds as `DepKind` with the
   input addressing `InputOf main inp` (a key or a dotted field), `depComp`;
2. packages an engine as a lawful component (`EngComp`, `TreeComp A`; `EngComp.seq`), with instances
   `TreeComp.ofLeaf`, `srcLeaf`, `macdTreeComp`, `kcTreeComp`, `stTreeComp`, `bbTreeComp`, `stochTreeComp`,
   `tsiTreeComp`, `adxTreeComp` (one predicate: `ChainSource`), builds `pairComp`, and the row-major spec
   of the pair `pairSpec : PairSpec A B` (`EngSpec`: `StepSpec` + `StepLaw` + engine refinement;
   `pairSpec_rowStep`, `pair_engine`);
3. proves the generic refinement of an engine on a manager (`engRun`: construction, `calculate()`,
   appends; `EngSpec.live_refines`, `EngSpec.batch_iff`, `EngSpec.live_eq_batch`) for every `MgrSpec`;
4. chains of any length: `chainEngine`, `ChainComps`, `chainSpec`.
-/
namespace Hex
set_option linter.unusedSectionVars false
variable {F : Type} [PyF F]

/-! ### tolerant leaf contracts over an input seen through the read keys -/

/-- **SMA, tolerant, any input** (`period ≥ 1`): the input is a candle attribute (`rk = []`), an ordinary
key of another piece (`rk = [input]`) or a dotted field of another piece's dict (`rk = [main]`). -/
def smaTG (Z : Ind F) (p : Int) (inp : String) (hk : Z.kind = .sma p inp) (hp : 1 ≤ p)
    (hname : IsKey Z.name) (rk : List String) (hsee : Sees F (Z.name :: rk) inp)
    (hind : Indep F Z.name inp) : TContract Z where
  rkeys := rk
  Inv := WindowInv Z.name p
  inv_nil := windowInv_nil _ _
  inv_sim := by
    intro H H' hinv hs hne
    rw [← lastReading_simL Z.name hname _ (by simp) hs] at hne
    rw [← hs.length_eq]
    exact hinv hne
  inv_step := by
    intro H c v hinv hc hv hne
    unfold valOf at hv
    rw [hk] at hv
    have hlast : Ctx.lastReading Z.name (H ++ [decOf Z v c]) = v.roundBy Z.round := by
      unfold Ctx.lastReading decOf
      rw [List.getLast?_append]
      simp [readingByCandle_setKey_noKey Z.isSub Z.name hname _ c hc]
    rw [hlast, Val.roundBy_isNone] at hne
    have hlen : ((H ++ [decOf Z v c]).length : Int) = H.length + 1 := by simp
    rw [hlen]
    rcases sma_nonNone _ p inp v hv hne with h | h
    · rw [Ctx.prevExists_append_cons] at h
      have : (Ctx.lastReading Z.name H).isNone = false := by simpa using Except.ok.inj h
      have := hinv this
      omega
    · have := readingPeriod_true_bound _ p inp _ h
      simp only [Option.getD_none] at this
      omega
  loc := by
    intro H c rest hinv
    unfold valOf
    rw [hk, ← trunc_append_cons H c rest]
    refine (sma_trunc _ p inp (by simp) (by simp) hp ?_).symm
    intro v hv hnn
    rw [Ctx.prevReading_append_cons] at hv
    cases hv
    exact hinv hnn
  val_sim := by
    intro H H' c c' hH hc
    unfold valOf
    rw [hk]
    have hown := sameCol_simL _ Z.name (sees_key _ _ hname (by simp)) hH hc Z.name
    exact sma_congr _ _ p inp (sameCol_simL _ inp hsee hH hc _)
      (Ctx.prevExists_congr hown) (Ctx.prevNum_congr hown)
  stable := by
    intro H c v
    unfold valOf decOf
    rw [hk]
    refine sma_congr _ _ p inp (sameCol_last inp H c _ Z.name (hind _ _ _)) ?_ ?_
    · rw [Ctx.prevExists_append_cons, Ctx.prevExists_append_cons]
    · rw [Ctx.prevNum_append_cons, Ctx.prevNum_append_cons]

/-- **RMA, tolerant, any input** (`period ≥ 1`) -/
def rmaTG (Z : Ind F) (p : Int) (inp : String) (hk : Z.kind = .rma p inp) (hp : 1 ≤ p)
    (hname : IsKey Z.name) (rk : List String) (hsee : Sees F (Z.name :: rk) inp)
    (hind : Indep F Z.name inp) : TContract Z where
  rkeys := rk
  Inv := fun _ => True
  inv_nil := trivial
  inv_sim := fun _ _ _ _ => trivial
  inv_step := fun _ _ _ _ _ _ => trivial
  loc := by
    intro H c rest _
    unfold valOf
    rw [hk, ← trunc_append_cons H c rest]
    exact (rma_trunc _ p inp (by simp) (by simp) hp).symm
  val_sim := by
    intro H H' c c' hH hc
    unfold valOf
    rw [hk]
    have hown := sameCol_simL _ Z.name (sees_key _ _ hname (by simp)) hH hc Z.name
    exact rma_congr _ _ p inp (sameCol_simL _ inp hsee hH hc _)
      (Ctx.prevExists_congr hown) (Ctx.prevNum_congr hown)
  stable := by
    intro H c v
    unfold valOf decOf
    rw [hk]
    refine rma_congr _ _ p inp (sameCol_last inp H c _ Z.name (hind _ _ _)) ?_ ?_
    · rw [Ctx.prevExists_append_cons, Ctx.prevExists_append_cons]
    · rw [Ctx.prevNum_append_cons, Ctx.prevNum_append_cons]

/-- **ROC, tolerant, any input** (`period ≥ 0`) -/
def rocTG (Z : Ind F) (p : Int) (inp : String) (hk : Z.kind = .roc p inp) (hp : 0 ≤ p)
    (hname : IsKey Z.name) (rk : List String) (hsee : Sees F (Z.name :: rk) inp)
    (hind : Indep F Z.name inp) : TContract Z where
  rkeys := rk
  Inv := WindowInv Z.name (p + 1)
  inv_nil := windowInv_nil _ _
  inv_sim := by
    intro H H' hinv hs hne
    rw [← lastReading_simL Z.name hname _ (by simp) hs] at hne
    rw [← hs.length_eq]
    exact hinv hne
  inv_step := by
    intro H c v hinv hc hv hne
    unfold valOf at hv
    rw [hk] at hv
    have hlast : Ctx.lastReading Z.name (H ++ [decOf Z v c]) = v.roundBy Z.round := by
      unfold Ctx.lastReading decOf
      rw [List.getLast?_append]
      simp [readingByCandle_setKey_noKey Z.isSub Z.name hname _ c hc]
    rw [hlast, Val.roundBy_isNone] at hne
    have hlen : ((H ++ [decOf Z v c]).length : Int) = H.length + 1 := by simp
    rw [hlen]
    rcases roc_nonNone _ p inp v hv hne with h | h
    · rw [Ctx.prevExists_append_cons] at h
      have : (Ctx.lastReading Z.name H).isNone = false := by simpa using Except.ok.inj h
      have := hinv this
      omega
    · have := readingPeriod_true_bound _ (p + 1) inp _ h
      simp only [Option.getD_none] at this
      omega
  loc := by
    intro H c rest hinv
    unfold valOf
    rw [hk, ← trunc_append_cons H c rest]
    refine (roc_trunc _ p inp (by simp) (by simp) hp ?_).symm
    intro b hb hbt
    exact windowInv_prev Z.name (p + 1) H c rest hinv b hb hbt
  val_sim := by
    intro H H' c c' hH hc
    unfold valOf
    rw [hk]
    have hown := sameCol_simL _ Z.name (sees_key _ _ hname (by simp)) hH hc Z.name
    exact roc_congr _ _ p inp (sameCol_simL _ inp hsee hH hc _) (Ctx.prevExists_congr hown)
  stable := by
    intro H c v
    unfold valOf decOf
    rw [hk]
    refine roc_congr _ _ p inp (sameCol_last inp H c _ Z.name (hind _ _ _)) ?_
    rw [Ctx.prevExists_append_cons, Ctx.prevExists_append_cons]

end Hex

namespace Hex.Chain
set_option linter.unusedSectionVars false
variable {F : Type} [PyF F]

/-! ### engines given as lawful components -/

/-- an engine `E` (a function on candle lists: a tree's `calculate()`, or several of them in a row)
that is the `pass` of a lawful tolerant component writing under `names` only -/
structure EngComp (E : List (Candle F) → PyM (List (Candle F))) (names : List String) where
  X : TComp F
  law : TComp.Law X
  pass_eq : ∀ cs, E cs = X.pass cs
  wnames : ∀ k ∈ X.wkeys, k ∈ names

/-- the component reads (besides the bare candles) entries under `rs` only -/
def EngComp.ReadsWithin {E : List (Candle F) → PyM (List (Candle F))} {names : List String}
    (S : EngComp E names) (rs : List String) : Prop := ∀ k ∈ S.X.rkeys, k ∈ rs

/-- a tree as a lawful component -/
abbrev TreeComp (A : Ind F) := EngComp (engineCalc A) A.allNames

/-- `E₁` then `E₂` -/
def engSeq (E₁ E₂ : List (Candle F) → PyM (List (Candle F))) (cs : List (Candle F)) : PyM (List (Candle F)) := do
  let c ← E₁ cs
  E₂ c

section seq
variable {E₁ E₂ : List (Candle F) → PyM (List (Candle F))} {n₁ n₂ : List String}

/-- **Chaining**: the first engine neither reads nor writes what the second writes. -/
def EngComp.seq (S₁ : EngComp E₁ n₁) (S₂ : EngComp E₂ n₂) (hok : TComp.SeqOK S₁.X S₂.X) :
    EngComp (engSeq E₁ E₂) (n₁ ++ n₂) where
  X := TComp.seq S₁.X S₂.X
  law := TComp.seq_law S₁.law S₂.law hok
  pass_eq := by
    intro cs
    show (do let c ← E₁ cs; E₂ c) = (do let c ← S₁.X.pass cs; S₂.X.pass c)
    rw [S₁.pass_eq]
    cases S₁.X.pass cs with
    | error e => rfl
    | ok c => exact S₂.pass_eq c
  wnames := by
    intro k hk
    rcases List.mem_append.1 hk with h | h
    · exact List.mem_append_left _ (S₁.wnames k h)
    · exact List.mem_append_right _ (S₂.wnames k h)

theorem EngComp.seq_reads (S₁ : EngComp E₁ n₁) (S₂ : EngComp E₂ n₂) (hok : TComp.SeqOK S₁.X S₂.X)
    {r₁ r₂ : List String} (h₁ : S₁.ReadsWithin r₁) (h₂ : S₂.ReadsWithin r₂) :
    (S₁.seq S₂ hok).ReadsWithin (r₁ ++ r₂) := by
  intro k hk
  rcases List.mem_append.1 hk with h | h
  · exact List.mem_append_left _ (h₁ k h)
  · exact List.mem_append_right _ (h₂ k h)

/-- the side condition of chaining from name sets: the first engine reads within `r₁`, and neither `r₁`
nor its own names meet the names of the second -/
theorem seqOK_of_names (S₁ : EngComp E₁ n₁) (S₂ : EngComp E₂ n₂) {r₁ : List String}
    (h₁ : S₁.ReadsWithin r₁) (hr : ∀ k ∈ r₁, k ∉ n₂) (hw : ∀ k ∈ n₁, k ∉ n₂) : TComp.SeqOK S₁.X S₂.X :=
  ⟨fun k hk h => hr k (h₁ k hk) (S₂.wnames k h), fun k hk h => hw k (S₁.wnames k hk) (S₂.wnames k h)⟩

end seq

/-! ### the row-major spec of an engine -/

/-- **An engine refines a row-major spec**: on a finished prefix followed by raw candles it returns iff
the row-major run over the longer stream does, with the same candles (the analogue of `TreeSpec` for
several trees computed one after the other on the same list). -/
structure EngSpec (E : List (Candle F) → PyM (List (Candle F))) (names : List String) where
  S : Gen.StepSpec F
  law : Gen.StepLaw S
  names_eq : S.names = names
  engine : ∀ (raw₁ raw₂ done out : List (Candle F)), Gen.rowMajor S raw₁ = .ok done →
    (∀ c ∈ raw₁, Plain c) → (∀ c ∈ raw₂, Plain c) →
    (E (done ++ raw₂) = .ok out ↔ Gen.rowMajor S (raw₁ ++ raw₂) = .ok out)

/-- an engine that is the pass of a lawful component has a row-major spec: one row step = the
component's value on the prefix, stored on the candle -/
def EngComp.spec {E : List (Candle F) → PyM (List (Candle F))} {names : List String} (C : EngComp E names) :
    EngSpec E names where
  S := C.X.spec names
  law := TComp.stepLaw C.law names (fun c hc => C.law.raw_of c (fun k _ => hasKey_plain k c hc)) C.wnames
  names_eq := rfl
  engine := by
    intro raw₁ raw₂ done out h₁ hp₁ hp₂
    rw [Gen.rowMajor_append, h₁]
    simp only [bind, Except.bind]
    rw [TComp.rowFrom_spec, C.pass_eq]
    have hs : C.X.Settled done :=
      (Gen.rowMajor_shape (TComp.stepLaw C.law names
        (fun c hc => C.law.raw_of c (fun k _ => hasKey_plain k c hc)) C.wnames) raw₁ done hp₁ h₁).2
    exact C.law.pass_iff done raw₂ out hs
      (fun r hr => C.law.raw_of r (fun k _ => hasKey_plain k r (hp₂ r hr)))

/-- a `TreeComp` gives the tree's `TreeSpec` -/
def TreeComp.treeSpec {A : Ind F} (C : TreeComp A) : TreeSpec A where
  S := C.spec.S
  law := C.spec.law
  names_eq := C.spec.names_eq
  engine := C.spec.engine

/-! ### source trees as components -/

/-- a leaf under a tolerant contract -/
def TreeComp.ofLeaf (A : Ind F) (hl : IsLeaf A) (T : TContract A) : TreeComp A where
  X := leafComp A T
  law := leafComp_law A T
  pass_eq := fun cs => calculate_leaf A hl _ cs (by have := fuelFor_ge cs; omega)
  wnames := by
    intro k hk
    rw [allNames_leaf A hl]
    exact hk

theorem TreeComp.ofLeaf_reads (A : Ind F) (hl : IsLeaf A) (T : TContract A) :
    (TreeComp.ofLeaf A hl T).ReadsWithin (A.name :: T.rkeys) := fun _ hk => hk

section macd
variable (name : String) (round : Nat) (fast slow signal : Int) (input : String)
  (hf : 1 ≤ fast) (hs : 1 ≤ slow) (hsig : 1 ≤ signal) (hn : MacdNames name)
  (hin : NoDot input ∧ input ∈ Candle.attrNames)

/-- the MACD tree (two prior EMA helpers, own dict, managed signal EMA) -/
def macdTreeComp : TreeComp (macdP (F := F) name round fast slow signal input) where
  X := macdComp name round fast slow signal input hf hs hsig hn hin
  law := macdComp_law name round fast slow signal input hf hs hsig hn hin
  pass_eq := by
    intro cs
    rw [engineCalc_macd]
    show _ = (do
      let cs₁ ← (do let c ← leafCalc (macdEf name fast input) cs; leafCalc (macdEs name slow input) c)
      Gen.nodeCalc (specWith (macdP name round fast slow signal input) (macdC name signal)) cs₁)
    cases leafCalc (macdEf (F := F) name fast input) cs with
    | error e => rfl
    | ok c₁ => simp only [bind, Except.bind]
  wnames := by
    intro k hk
    rw [allNames_macd]
    simp [macdComp, TComp.seq, macdCompF, macdCompS, macdCompP, leafComp, dataComp, macdEf_name, macdEs_name,
      macdP_name] at hk ⊢
    rcases hk with h | h | h | h <;> simp [h]

theorem macdTreeComp_reads :
    (macdTreeComp (F := F) name round fast slow signal input hf hs hsig hn hin).ReadsWithin
      (macdP (F := F) name round fast slow signal input).allNames := by
  intro k hk
  rw [allNames_macd]
  simp [macdTreeComp, macdComp, TComp.seq, macdCompF, macdCompS, macdCompP, leafComp, dataComp, emaT,
    macdK, macdT, macdEf_name, macdEs_name, macdP_name] at hk ⊢
  rcases hk with h | h | h | h | h | h <;> simp [h]

end macd

section kc
variable (name : String) (round : Nat) (p : Int) (input : String) (m : Num F)
  (hp : 1 ≤ p) (hn : KcNames name) (hin : NoDot input ∧ input ∈ Candle.attrNames)

/-- the Keltner-Channel tree (ATR subtree with its TR helper, EMA helper, own dict) -/
def kcTreeComp : TreeComp (kcP (F := F) name round p input m) where
  X := kcComp name round p input m hp hn hin
  law := kcComp_law name round p input m hp hn hin
  pass_eq := by
    intro cs
    rw [engineCalc_kc]
    show _ = (do
      let cs₁ ← (do let c ← leafCalc (kcT name) cs; leafCalc (kcA name p) c)
      (do let c ← leafCalc (kcE name p input) cs₁; leafCalc (kcP name round p input m) c))
    cases leafCalc (kcT (F := F) name) cs with
    | error e => rfl
    | ok c₁ => simp only [bind, Except.bind]
  wnames := by
    intro k hk
    rw [allNames_kc]
    simp [kcComp, TComp.seq, kcCompT, kcCompA, kcCompE, kcCompP, leafComp, kcT_name, kcA_name, kcE_name,
      kcP_name] at hk ⊢
    rcases hk with h | h | h | h <;> simp [h]

theorem kcTreeComp_reads :
    (kcTreeComp (F := F) name round p input m hp hn hin).ReadsWithin (kcP (F := F) name round p input m).allNames := by
  intro k hk
  rw [allNames_kc]
  simp [kcTreeComp, kcComp, TComp.seq, kcCompT, kcCompA, kcCompE, kcCompP, leafComp, trT, atrOwnT, emaT, kcOwnT,
    kcT_name, kcA_name, kcE_name, kcP_name] at hk ⊢
  rcases hk with h | h | h | h | h | h | h <;> simp [h]

end kc

section st
variable (name : String) (round : Nat) (p : Int) (input : String) (m : Num F) (hp : 1 ≤ p) (hn : StNames name)

/-- the Supertrend tree (ATR subtree, HLA helper, own `_data` series and dict) -/
def stTreeComp : TreeComp (stP (F := F) name round p input m) where
  X := stComp name round p input m hp hn
  law := stComp_law name round p input m hp hn
  pass_eq := by
    intro cs
    rw [engineCalc_st]
    show _ = (do
      let cs₁ ← (do let c ← leafCalc (stTr name) cs; leafCalc (stA name p) c)
      (do let c ← leafCalc (stH name) cs₁
          Gen.nodeCalc (specWith (stP name round p input m)
            (fun cs i => Calc.supertrend (dOps ((stP (F := F) name round p input m).name ++ "_data") i)
              { cs := cs, i := i, name := (stP (F := F) name round p input m).name } m)) c))
    cases leafCalc (stTr (F := F) name) cs with
    | error e => rfl
    | ok c₁ =>
      simp only [bind, Except.bind]
      rfl
  wnames := by
    intro k hk
    rw [allNames_st]
    simp [stComp, TComp.seq, stCompT, stCompA, stCompH, stCompP, leafComp, dataComp, stTr_name, stA_name,
      stH_name, stP_name] at hk ⊢
    rcases hk with h | h | h | h | h <;> simp [h]

theorem stTreeComp_reads :
    (stTreeComp (F := F) name round p input m hp hn).ReadsWithin (stP (F := F) name round p input m).allNames := by
  intro k hk
  rw [allNames_st]
  simp [stTreeComp, stComp, TComp.seq, stCompT, stCompA, stCompH, stCompP, leafComp, dataComp, trT, atrOwnT, hlaT,
    stT, stTr_name, stA_name, stH_name, stP_name] at hk ⊢
  rcases hk with h | h | h | h | h | h | h | h <;> simp [h]

end st

section bb
variable (name : String) (round : Nat) (p : Int) (input : String)
  (hp : 1 ≤ p) (hn : BbNames name) (hin : NoDot input ∧ input ∈ Candle.attrNames)

/-- the Bollinger-Bands tree (STDEV data helper, SMA helper, own dict) -/
def bbTreeComp : TreeComp (bbP (F := F) name round p input) where
  X := bbComp name round p input hp hn hin
  law := bbComp_law name round p input hp hn hin
  pass_eq := by
    intro cs
    rw [engineCalc_bb]
    rfl
  wnames := by
    intro k hk
    rw [allNames_bb]
    simp [bbComp, TComp.seq, bbCompS, bbCompM, bbCompP, dataComp, leafComp, bbS_name, bbM_name, bbP_name] at hk ⊢
    rcases hk with h | h | h | h <;> simp [h]

theorem bbTreeComp_reads :
    (bbTreeComp (F := F) name round p input hp hn hin).ReadsWithin (bbP (F := F) name round p input).allNames := by
  intro k hk
  rw [allNames_bb]
  simp [bbTreeComp, bbComp, TComp.seq, bbCompS, bbCompM, bbCompP, dataComp, leafComp, stdevT, smaT, bbOwnT,
    bbS_name, bbM_name, bbP_name] at hk ⊢
  rcases hk with h | h | h | h | h | h <;> simp [h]

end bb

section stoch
variable (name : String) (round : Nat) (p slow smoothK : Int) (input : String)
  (hp : 2 ≤ p) (hs : 1 ≤ slow) (hk : 1 ≤ smoothK) (hn : StochNames name)
  (hin : NoDot input ∧ input ∈ Candle.attrNames)

/-- the Stochastic tree (own `_data` series driving two managed SMAs) -/
def stochTreeComp : TreeComp (stochP (F := F) name round p slow smoothK input) where
  X := stochCompP name round p slow smoothK input
  law := stochCompP_law name round p slow smoothK input hn (by omega) hs hk hin
  pass_eq := fun cs => engineCalc_stoch name round p slow smoothK input hp cs
  wnames := by
    intro k hk'
    rw [allNames_stoch]
    simp [stochCompP] at hk' ⊢
    rcases hk' with h | h | h | h <;> simp [h]

theorem stochTreeComp_reads :
    (stochTreeComp (F := F) name round p slow smoothK input hp hs hk hn hin).ReadsWithin
      (stochP (F := F) name round p slow smoothK input).allNames := by
  intro k hk'
  rw [allNames_stoch]
  simp [stochTreeComp, stochCompP] at hk' ⊢
  rcases hk' with h | h | h <;> simp [h]

end stoch

section tsi
variable (name : String) (round : Nat) (p smooth : Int) (input : String)
  (hp : 1 ≤ p) (hs : 1 ≤ smooth) (hn : TsiNames name) (hin : NoDot input ∧ input ∈ Candle.attrNames)

/-- the TSI tree (own `_data` series driving two two-level EMA chains) -/
def tsiTreeComp : TreeComp (tsiP (F := F) name round p smooth input) where
  X := tsiCompP name round p smooth input hp hs hn
  law := tsiCompP_law name round p smooth input hp hs hn hin
  pass_eq := fun cs => engineCalc_tsi name round p smooth input cs
  wnames := by
    intro k hk
    rw [allNames_tsi]
    have hw : (tsiCompP (F := F) name round p smooth input hp hs hn).wkeys
        = [name ++ "_data", name ++ "_first", name ++ "_second", name ++ "_abs_first",
           name ++ "_abs_second"] ++ [name] := rfl
    rw [hw] at hk
    simp at hk ⊢
    rcases hk with h | h | h | h | h | h <;> simp [h]

theorem tsiTreeComp_reads :
    (tsiTreeComp (F := F) name round p smooth input hp hs hn hin).ReadsWithin
      (tsiP (F := F) name round p smooth input).allNames := by
  intro k hk
  rw [allNames_tsi]
  simp [tsiTreeComp, tsiCompP, guardOwn, tsiX_rkeys] at hk ⊢
  rcases hk with h | h | h | h | h | h | h | h | h | h <;> simp [h]

end tsi

section adx
variable (name : String) (round : Nat) (p signal : Int) (hp : 1 ≤ p) (hs : 1 ≤ signal) (hn : AdxNames name)

/-- the ADX tree (prior ATR subtree, own `_data` series driving managed RMAs) -/
def adxTreeComp : TreeComp (adxP (F := F) name round p signal) where
  X := adxComp name round p signal hp hn
  law := adxComp_law name round p signal hp hs hn
  pass_eq := by
    intro cs
    rw [engineCalc_adx]
    show _ = (do
      let cs₁ ← (do let c ← leafCalc (adxTr name) cs; leafCalc (adxA name p) c)
      Gen.nodeCalc (specWith (adxP name round p signal) (adxC name p signal)) cs₁)
    cases leafCalc (adxTr (F := F) name) cs with
    | error e => rfl
    | ok c₁ => simp only [bind, Except.bind]
  wnames := by
    intro k hk
    rw [allNames_adx]
    simp [adxComp, adxCompX, TComp.seq, adxCompT, adxCompA, adxCompP, adxWKeys, leafComp, adxTr_name,
      adxA_name] at hk ⊢
    rcases hk with h | h | h | h | h | h | h <;> simp [h]

theorem adxTreeComp_reads :
    (adxTreeComp (F := F) name round p signal hp hs hn).ReadsWithin (adxP (F := F) name round p signal).allNames := by
  intro k hk
  rw [allNames_adx]
  simp [adxTreeComp, adxComp, adxCompX, TComp.seq, adxCompT, adxCompA, adxCompP, adxRKeys, leafComp, trT, atrOwnT,
    adxTr_name, adxA_name] at hk ⊢
  rcases hk with h | h | h | h | h | h | h | h <;> simp [h]

end adx

/-! ### the dependent leaf -/

/-- `inp` addresses what is stored under the key `main`: the key itself (a scalar reading) or a
dotted field `main.fld` of a dict reading -/
def InputOf (main inp : String) : Prop :=
  (inp = main ∧ IsKey main) ∨ ∃ fld, splitDot inp = [main, fld]

theorem InputOf.sees {main inp : String} (h : InputOf main inp) (keys : List String) (hm : main ∈ keys) :
    Sees F keys inp := by
  rcases h with ⟨rfl, hk⟩ | ⟨fld, hs⟩
  · exact sees_key keys _ hk hm
  · exact sees_dotted keys inp main fld hs hm

theorem InputOf.indep {main inp : String} (h : InputOf main inp) (name : String) (hne : name ≠ main) :
    Indep F name inp := by
  rcases h with ⟨rfl, hk⟩ | ⟨fld, hs⟩
  · exact indep_key name _ hk hne
  · exact TSI.indep_dotted name inp main fld hs hne

/-- the kinds of a dependent leaf over the input `inp`, with the parameter conditions of their tolerant
contracts (`period ≥ 1`; ROC `≥ 0`) -/
inductive DepKind (inp : String) : Kind F → Type
  | sma (p : Int) : 1 ≤ p → DepKind inp (.sma p inp)
  | ema (p : Int) (sm : Num F) : 1 ≤ p → DepKind inp (.ema p inp sm)
  | rma (p : Int) : 1 ≤ p → DepKind inp (.rma p inp)
  | wma (p : Int) : 1 ≤ p → DepKind inp (.wma p inp)
  | roc (p : Int) : 0 ≤ p → DepKind inp (.roc p inp)

/-- the tolerant contract of such a leaf, for an input seen through the read keys `rk` -/
def DepKind.contractG {inp : String} {k : Kind F} (d : DepKind (F := F) inp k) (Z : Ind F) (hk : Z.kind = k)
    (hname : IsKey Z.name) (rk : List String) (hsee : Sees F (Z.name :: rk) inp) (hind : Indep F Z.name inp) :
    TContract Z :=
  match k, d, hk with
  | _, .sma p hp, hk => smaTG Z p inp hk hp hname rk hsee hind
  | _, .ema p sm hp, hk => emaTG Z p inp sm hk hp hname rk hsee hind
  | _, .rma p hp, hk => rmaTG Z p inp hk hp hname rk hsee hind
  | _, .wma p hp, hk => wmaT Z p inp hk hp hname rk hsee hind
  | _, .roc p hp, hk => rocTG Z p inp hk hp hname rk hsee hind

theorem DepKind.contractG_rkeys {inp : String} {k : Kind F} (d : DepKind (F := F) inp k) (Z : Ind F)
    (hk : Z.kind = k) (hname : IsKey Z.name) (rk : List String) (hsee : Sees F (Z.name :: rk) inp)
    (hind : Indep F Z.name inp) : (d.contractG Z hk hname rk hsee hind).rkeys = rk := by
  cases d <;> rfl

/-- the tolerant contract of a dependent leaf reading under `main` -/
def DepKind.contract {inp : String} {k : Kind F} (d : DepKind (F := F) inp k) (Z : Ind F) (hk : Z.kind = k)
    (hname : IsKey Z.name) (main : String) (hin : InputOf main inp) (hne : Z.name ≠ main) : TContract Z :=
  d.contractG Z hk hname [main] (hin.sees _ (by simp)) (hin.indep _ hne)

theorem DepKind.isLeaf {inp : String} {k : Kind F} (d : DepKind (F := F) inp k) (name : String) (round : Nat) :
    IsLeaf (mkTop k name round) := by
  cases d <;> exact isLeaf_mkTop _ _ _ rfl rfl

/-- the dependent member `B = mkTop k nameB round` as a tree component -/
def depComp {inp : String} {k : Kind F} (d : DepKind (F := F) inp k) (nameB : String) (round : Nat)
    (hname : IsKey nameB) (main : String) (hin : InputOf main inp) (hne : nameB ≠ main) :
    TreeComp (mkTop k nameB round) :=
  TreeComp.ofLeaf _ (d.isLeaf nameB round)
    (d.contract _ (mkTop_kind _ _ _) (by rw [mkTop_name]; exact hname) main hin (by rw [mkTop_name]; exact hne))

theorem depComp_reads {inp : String} {k : Kind F} (d : DepKind (F := F) inp k) (nameB : String) (round : Nat)
    (hname : IsKey nameB) (main : String) (hin : InputOf main inp) (hne : nameB ≠ main) :
    (depComp d nameB round hname main hin hne).ReadsWithin [nameB, main] := by
  intro k' hk'
  have := TreeComp.ofLeaf_reads _ (d.isLeaf nameB round)
    (d.contract _ (mkTop_kind _ _ _) (by rw [mkTop_name]; exact hname) main hin (by rw [mkTop_name]; exact hne)) k' hk'
  unfold DepKind.contract at this
  rw [DepKind.contractG_rkeys, mkTop_name] at this
  exact this

theorem EngComp.ReadsWithin.mono {E : List (Candle F) → PyM (List (Candle F))} {names : List String}
    {S : EngComp E names} {r r' : List String} (h : S.ReadsWithin r) (hsub : ∀ k ∈ r, k ∈ r') :
    S.ReadsWithin r' := fun k hk => hsub k (h k hk)

/-- the same kinds over a candle attribute, as SOURCE trees: `A = mkTop k nameA round` -/
def srcLeaf {inp : String} {k : Kind F} (d : DepKind (F := F) inp k) (nameA : String) (round : Nat)
    (hname : IsKey nameA) (hattr : NoDot inp ∧ inp ∈ Candle.attrNames) : TreeComp (mkTop k nameA round) :=
  TreeComp.ofLeaf _ (d.isLeaf nameA round)
    (d.contractG _ (mkTop_kind _ _ _) (by rw [mkTop_name]; exact hname) []
      (sees_attr _ _ hattr.1 hattr.2) (indep_attr _ _ hattr.1 hattr.2))

theorem srcLeaf_reads {inp : String} {k : Kind F} (d : DepKind (F := F) inp k) (nameA : String) (round : Nat)
    (hname : IsKey nameA) (hattr : NoDot inp ∧ inp ∈ Candle.attrNames) :
    (srcLeaf d nameA round hname hattr).ReadsWithin (mkTop k nameA round).allNames := by
  intro k' hk'
  have := TreeComp.ofLeaf_reads _ (d.isLeaf nameA round)
    (d.contractG _ (mkTop_kind _ _ _) (by rw [mkTop_name]; exact hname) []
      (sees_attr _ _ hattr.1 hattr.2) (indep_attr _ _ hattr.1 hattr.2)) k' hk'
  rw [DepKind.contractG_rkeys] at this
  rw [allNames_leaf _ (d.isLeaf nameA round)]
  exact this

/-! ### the pair -/

/-- the engine of the pair: `A.calculate()` then `B.calculate()` on the same list -/
abbrev pairEngine (A B : Ind F) : List (Candle F) → PyM (List (Candle F)) :=
  engSeq (engineCalc A) (engineCalc B)

/-- **The pair as a lawful component**: for a source tree given as a component that reads within its own
names, and ANY dependent tree given as a component (in particular `depComp`), provided the two trees'
names are disjoint. -/
def pairComp {A B : Ind F} (SA : TreeComp A) (SB : TreeComp B) (hclosed : SA.ReadsWithin A.allNames)
    (hdis : ∀ k ∈ A.allNames, k ∉ B.allNames) : EngComp (pairEngine A B) (A.allNames ++ B.allNames) :=
  SA.seq SB (seqOK_of_names SA SB hclosed hdis hdis)

/-- the type of a row-major spec of the pair `A`, `B` -/
abbrev PairSpec (A B : Ind F) := EngSpec (pairEngine A B) (A.allNames ++ B.allNames)

/-- **`PairSpec`**: the row-major spec of the pair on raw candles – one row step = `A`'s row step,
then `B`'s reading from the prefix – with its step laws and the engine-level refinement
(`EngSpec.engine`: "`A.calculate()` then `B.calculate()`" on `done ++ raw` returns iff the pair's
row-major run over the longer stream does, with the same candles). -/
def pairSpec {A B : Ind F} (SA : TreeComp A) (SB : TreeComp B) (hclosed : SA.ReadsWithin A.allNames)
    (hdis : ∀ k ∈ A.allNames, k ∉ B.allNames) : PairSpec A B :=
  (pairComp SA SB hclosed hdis).spec

/-- one row step of the pair, spelled out: `A`'s component value on the prefix, stored; then `B`'s on
the prefix and the candle just stored -/
theorem pairSpec_rowStep {A B : Ind F} (SA : TreeComp A) (SB : TreeComp B) (hclosed : SA.ReadsWithin A.allNames)
    (hdis : ∀ k ∈ A.allNames, k ∉ B.allNames) (H : List (Candle F)) (r : Candle F) :
    Gen.rowStep (pairSpec SA SB hclosed hdis).S H r = (do
      let x ← SA.X.val H r
      let q ← SB.X.val H (SA.X.app x r)
      pure (H ++ [SB.X.app q (SA.X.app x r)])) := by
  show Gen.rowStep ((TComp.seq SA.X SB.X).spec _) H r = _
  rw [TComp.rowStep_spec]
  unfold TComp.rowStep TComp.seq
  simp only [bind, Except.bind, pure, Except.pure]
  cases SA.X.val H r with
  | error e => rfl
  | ok x =>
    simp only
    cases SB.X.val H (SA.X.app x r) <;> rfl

/-- **Engine level (goal 2)**, stated directly. -/
theorem pair_engine {A B : Ind F} (SA : TreeComp A) (SB : TreeComp B) (hclosed : SA.ReadsWithin A.allNames)
    (hdis : ∀ k ∈ A.allNames, k ∉ B.allNames) (raw₁ raw₂ done out : List (Candle F))
    (h₁ : Gen.rowMajor (pairSpec SA SB hclosed hdis).S raw₁ = .ok done)
    (hp₁ : ∀ c ∈ raw₁, Plain c) (hp₂ : ∀ c ∈ raw₂, Plain c) :
    ((do let c ← engineCalc A (done ++ raw₂); engineCalc B c) = .ok out ↔
      Gen.rowMajor (pairSpec SA SB hclosed hdis).S (raw₁ ++ raw₂) = .ok out) :=
  (pairSpec SA SB hclosed hdis).engine raw₁ raw₂ done out h₁ hp₁ hp₂

/-! ### an engine on a manager: construction, `calculate()`, appends -/

section run
variable {E : List (Candle F) → PyM (List (Candle F))} {names : List String}

/-- one append on an object whose `calculate()` is the engine `E`: the manager appends, then `E` -/
def engAppend (cfg : MgrCfg) (E : List (Candle F) → PyM (List (Candle F))) (cs ch : List (Candle F)) :
    PyM (List (Candle F)) := do
  let m ← Manager.append { cfg := cfg, candles := cs } ch
  E m.candles

/-- construction over `init`, `calculate()`, then the appends -/
def engRun (cfg : MgrCfg) (E : List (Candle F) → PyM (List (Candle F))) (init : List (Candle F))
    (chunks : List (List (Candle F))) : PyM (List (Candle F)) := do
  let m ← Manager.init cfg init
  let cs ← E m.candles
  chunks.foldlM (engAppend cfg E) cs

theorem EngSpec.appends_refine (T : EngSpec E names) (M : MgrSpec F) (chunks : List (List (Candle F))) :
    ∀ (s done : List (Candle F)), Gen.rowMajor T.S (M.spec s) = .ok done →
      M.Ok (s ++ chunks.flatten) → ∀ snap,
      chunks.foldlM (engAppend M.cfg E) done = .ok snap →
      Gen.rowMajor T.S (M.spec (s ++ chunks.flatten)) = .ok snap := by
  induction chunks with
  | nil =>
    intro s done h _ snap hsnap
    simp only [List.foldlM_nil, pure, Except.pure] at hsnap
    cases hsnap
    simpa using h
  | cons ch rest ih =>
    intro s done h hok snap hsnap
    have hok' : M.Ok ((s ++ ch) ++ rest.flatten) := by simpa [List.append_assoc] using hok
    have hsch : M.Ok (s ++ ch) := M.ok_left _ _ hok'
    have hplainS : ∀ c ∈ M.spec s, Plain c := M.spec_plain s (M.ok_left _ _ hsch)
    simp only [List.foldlM_cons, List.flatten_cons] at hsnap ⊢
    have key : ∃ (raw₁ raw₂ d₁ : List (Candle F)), Gen.rowMajor T.S raw₁ = .ok d₁ ∧
        (∀ c ∈ raw₁, Plain c) ∧ (∀ c ∈ raw₂, Plain c) ∧ raw₁ ++ raw₂ = M.spec (s ++ ch) ∧
        engAppend M.cfg E done ch = E (d₁ ++ raw₂) := by
      by_cases hch : ch = []
      · subst hch
        refine ⟨M.spec s, [], done, h, hplainS, by simp, by simp, ?_⟩
        simp [engAppend, Manager.append, bind, Except.bind]
      · obtain ⟨k, Q, hQ, _, ht, hres⟩ := M.append s ch done hsch hch
          (Gen.rowMajor_shape T.law _ done hplainS h).1.dressed
        refine ⟨(M.spec s).take k, Q, done.take k, Gen.rowMajor_take T.law _ done hplainS h k,
          fun c hc => hplainS c (List.mem_of_mem_take hc), hQ, hres.symm, ?_⟩
        have hne : ch.isEmpty = false := by cases ch <;> simp at hch ⊢
        simp only [engAppend, Manager.append, hne, Bool.false_eq_true, if_false, ht, bind, Except.bind, pure,
          Except.pure]
    obtain ⟨raw₁, raw₂, d₁, hr₁, hp₁, hp₂, hsplit, happ⟩ := key
    rw [happ] at hsnap
    rw [← List.append_assoc]
    cases hc : E (d₁ ++ raw₂) with
    | error e => rw [hc] at hsnap; cases hsnap
    | ok out =>
      have hr := (T.engine raw₁ raw₂ d₁ out hr₁ hp₁ hp₂).1 hc
      rw [hsplit] at hr
      rw [hc] at hsnap
      simp only [bind, Except.bind] at hsnap
      exact ih (s ++ ch) out hr hok' snap hsnap

/-- **Generic refinement for an engine**: whenever the live history (construction over `init`,
`calculate()`, any appends) returns, its candles are the row-major run over the manager spec of the
whole stream. -/
theorem EngSpec.live_refines (T : EngSpec E names) (M : MgrSpec F) (init : List (Candle F))
    (chunks : List (List (Candle F))) (hok : M.Ok (init ++ chunks.flatten)) (snap : List (Candle F))
    (hsnap : engRun M.cfg E init chunks = .ok snap) :
    Gen.rowMajor T.S (M.spec (init ++ chunks.flatten)) = .ok snap := by
  have hinit : M.Ok init := M.ok_left _ _ hok
  unfold engRun Manager.init at hsnap
  rw [M.init init hinit] at hsnap
  simp only [bind, Except.bind, pure, Except.pure] at hsnap
  have h0 : Gen.rowMajor T.S ([] : List (Candle F)) = .ok [] := rfl
  cases hc : E (M.spec init) with
  | error e => rw [hc] at hsnap; cases hsnap
  | ok out =>
    have hr := (T.engine [] (M.spec init) [] out h0 (by simp) (M.spec_plain init hinit)).1 (by simpa using hc)
    simp only [List.nil_append] at hr
    rw [hc] at hsnap
    simp only at hsnap
    exact T.appends_refine M chunks init out hr hok snap hsnap

/-- the batch run returns iff the row-major run over the manager spec does, with the same candles -/
theorem EngSpec.batch_iff (T : EngSpec E names) (M : MgrSpec F) (stream : List (Candle F))
    (hok : M.Ok stream) (out : List (Candle F)) :
    engRun M.cfg E stream [] = .ok out ↔ Gen.rowMajor T.S (M.spec stream) = .ok out := by
  constructor
  · intro h
    have := T.live_refines M stream [] (by simpa using hok) out h
    simpa using this
  · intro h
    unfold engRun Manager.init
    rw [M.init stream hok]
    simp only [bind, Except.bind, pure, Except.pure, List.foldlM_nil]
    have h0 : Gen.rowMajor T.S ([] : List (Candle F)) = .ok [] := rfl
    have he := (T.engine [] (M.spec stream) [] out h0 (by simp) (M.spec_plain stream hok)).2 (by simpa using h)
    simp only [List.nil_append] at he
    rw [he]

/-- **Schedule independence for an engine**: if the live history returns, the batch run over the whole
stream returns the same candles. -/
theorem EngSpec.live_eq_batch (T : EngSpec E names) (M : MgrSpec F) (init : List (Candle F))
    (chunks : List (List (Candle F))) (hok : M.Ok (init ++ chunks.flatten)) (snap : List (Candle F))
    (hsnap : engRun M.cfg E init chunks = .ok snap) :
    engRun M.cfg E (init ++ chunks.flatten) [] = .ok snap :=
  (T.batch_iff M _ hok snap).2 (T.live_refines M init chunks hok snap hsnap)

end run

/-! ### the covered sources under one predicate -/

/-- **Source kinds** `k` such that `mkTop k name round` is available as a lawful component reading
within its own names: the five leaf averages over a candle attribute, MACD, KC, Supertrend, BBANDS,
STOCH, TSI, ADX (with the name / parameter conditions of their tree specs). -/
inductive ChainSource (name : String) : Kind F → Prop
  | leaf (inp : String) (k : Kind F) : DepKind (F := F) inp k → IsKey name → AttrInput inp → ChainSource name k
  | macd (fast slow signal : Int) (input : String) : 1 ≤ fast → 1 ≤ slow → 1 ≤ signal → MacdNames name →
      AttrInput input → ChainSource name (.macd fast slow signal input)
  | kc (p : Int) (input : String) (m : Num F) : 1 ≤ p → KcNames name → AttrInput input →
      ChainSource name (.kc p input m)
  | supertrend (p : Int) (input : String) (m : Num F) : 1 ≤ p → StNames name →
      ChainSource name (.supertrend p input m)
  | bbands (p : Int) (input : String) : 1 ≤ p → BbNames name → AttrInput input → ChainSource name (.bbands p input)
  | stoch (p slow smoothK : Int) (input : String) : 2 ≤ p → 1 ≤ slow → 1 ≤ smoothK → StochNames name →
      AttrInput input → ChainSource name (.stoch p slow smoothK input)
  | tsi (p smooth : Int) (input : String) : 1 ≤ p → 1 ≤ smooth → TsiNames name → AttrInput input →
      ChainSource name (.tsi p smooth input)
  | adx (p signal : Int) : 1 ≤ p → 1 ≤ signal → AdxNames name → ChainSource name (.adx p signal)

theorem ChainSource.comp {name : String} {k : Kind F} (h : ChainSource name k) (round : Nat) :
    ∃ SA : TreeComp (mkTop k name round), SA.ReadsWithin (mkTop k name round).allNames := by
  cases h with
  | leaf inp k d hk hin => exact ⟨srcLeaf d name round hk hin, srcLeaf_reads d name round hk hin⟩
  | macd fast slow signal input hf hs hg hn hin =>
    exact ⟨macdTreeComp name round fast slow signal input hf hs hg hn hin,
      macdTreeComp_reads name round fast slow signal input hf hs hg hn hin⟩
  | kc p input m hp hn hin =>
    exact ⟨kcTreeComp name round p input m hp hn hin, kcTreeComp_reads name round p input m hp hn hin⟩
  | supertrend p input m hp hn =>
    exact ⟨stTreeComp name round p input m hp hn, stTreeComp_reads name round p input m hp hn⟩
  | bbands p input hp hn hin =>
    exact ⟨bbTreeComp name round p input hp hn hin, bbTreeComp_reads name round p input hp hn hin⟩
  | stoch p slow smoothK input hp hs hk hn hin =>
    exact ⟨stochTreeComp name round p slow smoothK input hp hs hk hn hin,
      stochTreeComp_reads name round p slow smoothK input hp hs hk hn hin⟩
  | tsi p smooth input hp hs hn hin =>
    exact ⟨tsiTreeComp name round p smooth input hp hs hn hin, tsiTreeComp_reads name round p smooth input hp hs hn hin⟩
  | adx p signal hp hs hn =>
    exact ⟨adxTreeComp name round p signal hp hs hn, adxTreeComp_reads name round p signal hp hs hn⟩

/-! ### chains of any length -/

/-- every name written by the trees of a member list -/
def namesOf (ts : List (Ind F)) : List String := ts.flatMap (·.allNames)

/-- `calculate()` of every tree, in order, on the same candle list -/
def chainEngine (ts : List (Ind F)) (cs : List (Candle F)) : PyM (List (Candle F)) :=
  ts.foldlM (fun cs t => engineCalc t cs) cs

theorem chainEngine_cons (t : Ind F) (r : List (Ind F)) (cs : List (Candle F)) :
    chainEngine (t :: r) cs = engSeq (engineCalc t) (chainEngine r) cs := by
  simp [chainEngine, engSeq, List.foldlM_cons]

theorem chainEngine_single (t : Ind F) (cs : List (Candle F)) : chainEngine [t] cs = engineCalc t cs := by
  unfold chainEngine
  simp only [List.foldlM_cons, List.foldlM_nil]
  cases engineCalc t cs <;> rfl

theorem chainEngine_pair (A B : Ind F) (cs : List (Candle F)) : chainEngine [A, B] cs = pairEngine A B cs := by
  rw [chainEngine_cons]
  show (do let c ← engineCalc A cs; chainEngine [B] c) = (do let c ← engineCalc A cs; engineCalc B c)
  cases engineCalc A cs with
  | error e => rfl
  | ok c => exact chainEngine_single B c

/-- the same component for an extensionally equal engine and a larger name list -/
def EngComp.retag {E E' : List (Candle F) → PyM (List (Candle F))} {n n' : List String} (S : EngComp E n)
    (hE : ∀ cs, E' cs = E cs) (hn : ∀ k ∈ n, k ∈ n') : EngComp E' n' where
  X := S.X
  law := S.law
  pass_eq := fun cs => (hE cs).trans (S.pass_eq cs)
  wnames := fun k hk => hn k (S.wnames k hk)

/-- **A chain of members given as components**: every member reads (besides the bare candles) only
entries under the names of the members before it (`pre` at the head of the list) and its own, and no name
occurs in two members.  So a member may take any earlier member's output as its input. -/
inductive ChainComps : List String → List (Ind F) → Type 1
  | single (pre : List String) (t : Ind F) (S : TreeComp t) (hr : S.ReadsWithin (pre ++ t.allNames)) :
      ChainComps pre [t]
  | cons (pre : List String) (t t' : Ind F) (r : List (Ind F)) (S : TreeComp t)
      (hr : S.ReadsWithin (pre ++ t.allNames)) (hdis : ∀ k ∈ pre ++ t.allNames, k ∉ namesOf (t' :: r))
      (rest : ChainComps (pre ++ t.allNames) (t' :: r)) : ChainComps pre (t :: t' :: r)

/-- the whole chain as one lawful component -/
def ChainComps.comp : {pre : List String} → {ts : List (Ind F)} → ChainComps pre ts →
    EngComp (chainEngine ts) (namesOf ts)
  | _, _, .single _ t S _ =>
    S.retag (chainEngine_single t) (fun k hk => by simp [namesOf, hk])
  | _, _, .cons pre t t' r S hr hdis rest =>
    (S.seq rest.comp (seqOK_of_names S rest.comp hr hdis
      (fun k hk => hdis k (List.mem_append_right _ hk)))).retag
      (chainEngine_cons t (t' :: r)) (fun k hk => by simpa [namesOf] using hk)

/-- **the row-major spec of a chain** with its step laws and the engine-level refinement -/
def chainSpec {ts : List (Ind F)} (c : ChainComps [] ts) : EngSpec (chainEngine ts) (namesOf ts) := c.comp.spec

/-- the pair as a chain of two -/
def ChainComps.pair {A B : Ind F} (SA : TreeComp A) (SB : TreeComp B) (hclosed : SA.ReadsWithin A.allNames)
    (hB : SB.ReadsWithin (A.allNames ++ B.allNames)) (hdis : ∀ k ∈ A.allNames, k ∉ B.allNames) :
    ChainComps [] [A, B] :=
  .cons [] A B [] SA (by simpa using hclosed) (by simpa [namesOf] using hdis)
    (.single _ B SB (by simpa using hB))

end Hex.Chain

#print axioms Hex.Chain.pairComp
#print axioms Hex.Chain.pair_engine
#print axioms Hex.Chain.EngSpec.live_eq_batch
#print axioms Hex.Chain.ChainSource.comp
#print axioms Hex.Chain.chainSpec

import HexProofs.Framework.Gen.AllX
import HexProofs.Framework.Kinds.All
/-
Indicator-on-indicator inputs (C01 / C04, "inputs that are other indicators' readings").

A `Hexital` holds a SOURCE member `A` and a DEPENDENT leaf member `B` whose `input_value` is `A`'s
output: `A`'s name (scalar-valued `A`) or a dotted field of a dict-valued `A`.  Both live on the
default manager; one `Hexital.append` is "the manager appends, then `A.calculate()`, then
`B.calculate()`" – the `pass` of `TComp.seq X Q`, `X` the component of `A`'s tree and `Q` the tolerant
leaf component of `B`.  This file

1. gives the tolerant leaf contracts of SMA / RMA / ROC for an input seen through read keys (EMA:
   `emaTG`, WMA: `wmaT` exist already), the dependent kinds as one predicate `DepLeaf`,
2. packages a source tree as a lawful component (`SrcComp`; instances: every tolerant leaf, MACD,
   Supertrend, KC), builds `pairComp`, its law, the row-major `PairSpec` of the pair,
3. proves the engine-level refinement (`PairSpec.engine`), and
4. the Hexital-level theorem `pair_live_eq_batch` for any manager spec (base timeframe, collapsing
   timeframe, fill), with the base-timeframe corollary `C01_pair_base`.
-/
namespace Hex
set_option linter.unusedSectionVars false
variable {F : Type} [PyF F]

/-! ### tolerant leaf contracts over an input seen through the read keys -/

/-- **SMA, tolerant, any input** (`period ≥ 1`): the input is a candle attribute (`rk = []`), an ordinary
key of another piece (`rk = [input]`) or a dotted field of another piece's dict (`rk = [main]`). -/
def smaTG (Z : Ind F) (p : Int) (inp : String) (hk : Z.kind = .sma p inp) (hp : 1 ≤ p)
    (hname : IsKey Z.name) (rk : List String) (hsee : Sees F (Z.name :: rk) inp)
    (hind : Indep F Z.name inp) : TContract Z where
  rkeys := rk
  Inv := WindowInv Z.name p
  inv_nil := windowInv_nil _ _
  inv_sim := by
    intro H H' hinv hs hne
    rw [← lastReading_simL Z.name hname _ (by simp) hs] at hne
    rw [← hs.length_eq]
    exact hinv hne
  inv_step := by
    intro H c v hinv hc hv hne
    unfold valOf at hv
    rw [hk] at hv
    have hlast : Ctx.lastReading Z.name (H ++ [decOf Z v c]) = v.roundBy Z.round := by
      unfold Ctx.lastReading decOf
      rw [List.getLast?_append]
      simp [readingByCandle_setKey_noKey Z.isSub Z.name hname _ c hc]
    rw [hlast, Val.roundBy_isNone] at hne
    have hlen : ((H ++ [decOf Z v c]).length : Int) = H.length + 1 := by simp
    rw [hlen]
    rcases sma_nonNone _ p inp v hv hne with h | h
    · rw [Ctx.prevExists_append_cons] at h
      have : (Ctx.lastReading Z.name H).isNone = false := by simpa using Except.ok.inj h
      have := hinv this
      omega
    · have := readingPeriod_true_bound _ p inp _ h
      simp only [Option.getD_none] at this
      omega
  loc := by
    intro H c rest hinv
    unfold valOf
    rw [hk, ← trunc_append_cons H c rest]
    refine (sma_trunc _ p inp (by simp) (by simp) hp ?_).symm
    intro v hv hnn
    rw [Ctx.prevReading_append_cons] at hv
    cases hv
    exact hinv hnn
  val_sim := by
    intro H H' c c' hH hc
    unfold valOf
    rw [hk]
    have hown := sameCol_simL _ Z.name (sees_key _ _ hname (by simp)) hH hc Z.name
    exact sma_congr _ _ p inp (sameCol_simL _ inp hsee hH hc _)
      (Ctx.prevExists_congr hown) (Ctx.prevNum_congr hown)
  stable := by
    intro H c v
    unfold valOf decOf
    rw [hk]
    refine sma_congr _ _ p inp (sameCol_last inp H c _ Z.name (hind _ _ _)) ?_ ?_
    · rw [Ctx.prevExists_append_cons, Ctx.prevExists_append_cons]
    · rw [Ctx.prevNum_append_cons, Ctx.prevNum_append_cons]

/-- **RMA, tolerant, any input** (`period ≥ 1`) -/
def rmaTG (Z : Ind F) (p : Int) (inp : String) (hk : Z.kind = .rma p inp) (hp : 1 ≤ p)
    (hname : IsKey Z.name) (rk : List String) (hsee : Sees F (Z.name :: rk) inp)
    (hind : Indep F Z.name inp) : TContract Z where
  rkeys := rk
  Inv := fun _ => True
  inv_nil := trivial
  inv_sim := fun _ _ _ _ => trivial
  inv_step := fun _ _ _ _ _ _ => trivial
  loc := by
    intro H c rest _
    unfold valOf
    rw [hk, ← trunc_append_cons H c rest]
    exact (rma_trunc _ p inp (by simp) (by simp) hp).symm
  val_sim := by
    intro H H' c c' hH hc
    unfold valOf
    rw [hk]
    have hown := sameCol_simL _ Z.name (sees_key _ _ hname (by simp)) hH hc Z.name
    exact rma_congr _ _ p inp (sameCol_simL _ inp hsee hH hc _)
      (Ctx.prevExists_congr hown) (Ctx.prevNum_congr hown)
  stable := by
    intro H c v
    unfold valOf decOf
    rw [hk]
    refine rma_congr _ _ p inp (sameCol_last inp H c _ Z.name (hind _ _ _)) ?_ ?_
    · rw [Ctx.prevExists_append_cons, Ctx.prevExists_append_cons]
    · rw [Ctx.prevNum_append_cons, Ctx.prevNum_append_cons]

/-- **ROC, tolerant, any input** (`period ≥ 0`) -/
def rocTG (Z : Ind F) (p : Int) (inp : String) (hk : Z.kind = .roc p inp) (hp : 0 ≤ p)
    (hname : IsKey Z.name) (rk : List String) (hsee : Sees F (Z.name :: rk) inp)
    (hind : Indep F Z.name inp) : TContract Z where
  rkeys := rk
  Inv := WindowInv Z.name (p + 1)
  inv_nil := windowInv_nil _ _
  inv_sim := by
    intro H H' hinv hs hne
    rw [← lastReading_simL Z.name hname _ (by simp) hs] at hne
    rw [← hs.length_eq]
    exact hinv hne
  inv_step := by
    intro H c v hinv hc hv hne
    unfold valOf at hv
    rw [hk] at hv
    have hlast : Ctx.lastReading Z.name (H ++ [decOf Z v c]) = v.roundBy Z.round := by
      unfold Ctx.lastReading decOf
      rw [List.getLast?_append]
      simp [readingByCandle_setKey_noKey Z.isSub Z.name hname _ c hc]
    rw [hlast, Val.roundBy_isNone] at hne
    have hlen : ((H ++ [decOf Z v c]).length : Int) = H.length + 1 := by simp
    rw [hlen]
    rcases roc_nonNone _ p inp v hv hne with h | h
    · rw [Ctx.prevExists_append_cons] at h
      have : (Ctx.lastReading Z.name H).isNone = false := by simpa using Except.ok.inj h
      have := hinv this
      omega
    · have := readingPeriod_true_bound _ (p + 1) inp _ h
      simp only [Option.getD_none] at this
      omega
  loc := by
    intro H c rest hinv
    unfold valOf
    rw [hk, ← trunc_append_cons H c rest]
    refine (roc_trunc _ p inp (by simp) (by simp) hp ?_).symm
    intro b hb hbt
    exact windowInv_prev Z.name (p + 1) H c rest hinv b hb hbt
  val_sim := by
    intro H H' c c' hH hc
    unfold valOf
    rw [hk]
    have hown := sameCol_simL _ Z.name (sees_key _ _ hname (by simp)) hH hc Z.name
    exact roc_congr _ _ p inp (sameCol_simL _ inp hsee hH hc _) (Ctx.prevExists_congr hown)
  stable := by
    intro H c v
    unfold valOf decOf
    rw [hk]
    refine roc_congr _ _ p inp (sameCol_last inp H c _ Z.name (hind _ _ _)) ?_
    rw [Ctx.prevExists_append_cons, Ctx.prevExists_append_cons]

/-! ### engines given as lawful components -/

/-- an engine `E` (a function on candle lists: a tree's `calculate()`, or several of them in a row)
that is the `pass` of a lawful tolerant component writing under `names` only -/
structure EngComp (E : List (Candle F) → PyM (List (Candle F))) (names : List String) where
  X : TComp F
  law : TComp.Law X
  pass_eq : ∀ cs, E cs = X.pass cs
  wnames : ∀ k ∈ X.wkeys, k ∈ names

/-- the component reads (besides the bare candles) entries under `rs` only -/
def EngComp.ReadsWithin {E : List (Candle F) → PyM (List (Candle F))} {names : List String}
    (S : EngComp E names) (rs : List String) : Prop := ∀ k ∈ S.X.rkeys, k ∈ rs

/-- a tree as a lawful component -/
abbrev TreeComp (A : Ind F) := EngComp (engineCalc A) A.allNames

/-- `E₁` then `E₂` -/
def engSeq (E₁ E₂ : List (Candle F) → PyM (List (Candle F))) (cs : List (Candle F)) : PyM (List (Candle F)) := do
  let c ← E₁ cs
  E₂ c

section seq
variable {E₁ E₂ : List (Candle F) → PyM (List (Candle F))} {n₁ n₂ : List String}

/-- **Chaining**: the first engine neither reads nor writes what the second writes. -/
def EngComp.seq (S₁ : EngComp E₁ n₁) (S₂ : EngComp E₂ n₂) (hok : TComp.SeqOK S₁.X S₂.X) :
    EngComp (engSeq E₁ E₂) (n₁ ++ n₂) where
  X := TComp.seq S₁.X S₂.X
  law := TComp.seq_law S₁.law S₂.law hok
  pass_eq := by
    intro cs
    show (do let c ← E₁ cs; E₂ c) = (do let c ← S₁.X.pass cs; S₂.X.pass c)
    rw [S₁.pass_eq]
    cases S₁.X.pass cs with
    | error e => rfl
    | ok c => exact S₂.pass_eq c
  wnames := by
    intro k hk
    rcases List.mem_append.1 hk with h | h
    · exact List.mem_append_left _ (S₁.wnames k h)
    · exact List.mem_append_right _ (S₂.wnames k h)

theorem EngComp.seq_reads (S₁ : EngComp E₁ n₁) (S₂ : EngComp E₂ n₂) (hok : TComp.SeqOK S₁.X S₂.X)
    {r₁ r₂ : List String} (h₁ : S₁.ReadsWithin r₁) (h₂ : S₂.ReadsWithin r₂) :
    (S₁.seq S₂ hok).ReadsWithin (r₁ ++ r₂) := by
  intro k hk
  rcases List.mem_append.1 hk with h | h
  · exact List.mem_append_left _ (h₁ k h)
  · exact List.mem_append_right _ (h₂ k h)

/-- the side condition of chaining from name sets: the first engine reads within `r₁`, and neither `r₁`
nor its own names meet the names of the second -/
theorem seqOK_of_names (S₁ : EngComp E₁ n₁) (S₂ : EngComp E₂ n₂) {r₁ : List String}
    (h₁ : S₁.ReadsWithin r₁) (hr : ∀ k ∈ r₁, k ∉ n₂) (hw : ∀ k ∈ n₁, k ∉ n₂) : TComp.SeqOK S₁.X S₂.X :=
  ⟨fun k hk h => hr k (h₁ k hk) (S₂.wnames k h), fun k hk h => hw k (S₁.wnames k hk) (S₂.wnames k h)⟩

end seq

/-! ### the row-major spec of an engine -/

/-- **An engine refines a row-major spec**: on a finished prefix followed by raw candles it returns iff
the row-major run over the longer stream does, with the same candles (the analogue of `TreeSpec` for
several trees computed one after the other on the same list). -/
structure EngSpec (E : List (Candle F) → PyM (List (Candle F))) (names : List String) where
  S : Gen.StepSpec F
  law : Gen.StepLaw S
  names_eq : S.names = names
  engine : ∀ (raw₁ raw₂ done out : List (Candle F)), Gen.rowMajor S raw₁ = .ok done →
    (∀ c ∈ raw₁, Plain c) → (∀ c ∈ raw₂, Plain c) →
    (E (done ++ raw₂) = .ok out ↔ Gen.rowMajor S (raw₁ ++ raw₂) = .ok out)

/-- an engine that is the pass of a lawful component has a row-major spec: one row step = the
component's value on the prefix, stored on the candle -/
def EngComp.spec {E : List (Candle F) → PyM (List (Candle F))} {names : List String} (C : EngComp E names) :
    EngSpec E names where
  S := C.X.spec names
  law := TComp.stepLaw C.law names (fun c hc => C.law.raw_of c (fun k _ => hasKey_plain k c hc)) C.wnames
  names_eq := rfl
  engine := by
    intro raw₁ raw₂ done out h₁ hp₁ hp₂
    rw [Gen.rowMajor_append, h₁]
    simp only [bind, Except.bind]
    rw [TComp.rowFrom_spec, C.pass_eq]
    have hs : C.X.Settled done :=
      (Gen.rowMajor_shape (TComp.stepLaw C.law names
        (fun c hc => C.law.raw_of c (fun k _ => hasKey_plain k c hc)) C.wnames) raw₁ done hp₁ h₁).2
    exact C.law.pass_iff done raw₂ out hs
      (fun r hr => C.law.raw_of r (fun k _ => hasKey_plain k r (hp₂ r hr)))

/-- a `TreeComp` gives the tree's `TreeSpec` -/
def TreeComp.treeSpec {A : Ind F} (C : TreeComp A) : TreeSpec A where
  S := C.spec.S
  law := C.spec.law
  names_eq := C.spec.names_eq
  engine := C.spec.engine

/-! ### source trees as components -/

/-- a leaf under a tolerant contract -/
def TreeComp.ofLeaf (A : Ind F) (hl : IsLeaf A) (T : TContract A) : TreeComp A where
  X := leafComp A T
  law := leafComp_law A T
  pass_eq := fun cs => calculate_leaf A hl _ cs (by have := fuelFor_ge cs; omega)
  wnames := by
    intro k hk
    rw [allNames_leaf A hl]
    exact hk

theorem TreeComp.ofLeaf_reads (A : Ind F) (hl : IsLeaf A) (T : TContract A) :
    (TreeComp.ofLeaf A hl T).ReadsWithin (A.name :: T.rkeys) := fun _ hk => hk

section macd
variable (name : String) (round : Nat) (fast slow signal : Int) (input : String)
  (hf : 1 ≤ fast) (hs : 1 ≤ slow) (hsig : 1 ≤ signal) (hn : MacdNames name)
  (hin : NoDot input ∧ input ∈ Candle.attrNames)

/-- the MACD tree (two prior EMA helpers, own dict, managed signal EMA) -/
def macdTreeComp : TreeComp (macdP (F := F) name round fast slow signal input) where
  X := macdComp name round fast slow signal input hf hs hsig hn hin
  law := macdComp_law name round fast slow signal input hf hs hsig hn hin
  pass_eq := by
    intro cs
    rw [engineCalc_macd]
    show _ = (do
      let cs₁ ← (do let c ← leafCalc (macdEf name fast input) cs; leafCalc (macdEs name slow input) c)
      Gen.nodeCalc (specWith (macdP name round fast slow signal input) (macdC name signal)) cs₁)
    cases leafCalc (macdEf (F := F) name fast input) cs with
    | error e => rfl
    | ok c₁ => simp only [bind, Except.bind]
  wnames := by
    intro k hk
    rw [allNames_macd]
    simp [macdComp, TComp.seq, macdCompF, macdCompS, macdCompP, leafComp, dataComp, macdEf_name, macdEs_name,
      macdP_name] at hk ⊢
    rcases hk with h | h | h | h <;> simp [h]

theorem macdTreeComp_reads :
    (macdTreeComp (F := F) name round fast slow signal input hf hs hsig hn hin).ReadsWithin
      (macdP (F := F) name round fast slow signal input).allNames := by
  intro k hk
  rw [allNames_macd]
  simp [macdTreeComp, macdComp, TComp.seq, macdCompF, macdCompS, macdCompP, leafComp, dataComp, emaT,
    macdEf_name, macdEs_name, macdP_name] at hk ⊢
  trace_state; sorry

end macd

end Hex
